import SpecModel.DriverLoop
import SpecModel.ValidationsOps
open SpecModel

def main : IO Unit := driverMain fun op j =>
  match op with
  | "valset" => ValidationsOps.op j
  | _ => .error s!"bad-op:unknown {op}"
