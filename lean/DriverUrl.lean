import SpecModel.DriverLoop
import SpecModel.UrlOps
open SpecModel

def main : IO Unit := driverMain UrlOps.op
