import SpecModel.DriverLoop
import SpecModel.ExpandOps
open SpecModel

def main : IO Unit := driverMain ExpandOps.op
