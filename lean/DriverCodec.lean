import SpecModel.DriverLoop
import SpecModel.CodecOps
open SpecModel

def main : IO Unit := driverMain CodecOps.op
