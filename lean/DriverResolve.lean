import SpecModel.DriverLoop
import SpecModel.ResolveOps
open SpecModel

def main : IO Unit := driverMain ResolveOps.op
