import SpecModel.DriverLoop
import SpecModel.CacheOps
open SpecModel

def main : IO Unit := driverMain CacheOps.op
