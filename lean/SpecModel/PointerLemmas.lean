/-
Lemmas about the JSON-pointer model: escaping round trip, evaluation composes.
-/
import SpecModel.Pointer

namespace SpecModel.Pointer
open SpecModel

theorem escape_cons_other {c : Char} {r : List Char} (h1 : c ≠ '~') (h2 : c ≠ '/') :
    escape (c :: r) = c :: escape r := by
  simp only [escape]

theorem replace1_cons_other {c : Char} {r : List Char} (h1 : c ≠ '~') : replace1 (c :: r) = c :: replace1 r := by
  rw [replace1]
  intro _ h; exact absurd h h1

theorem replace0_cons_other {c : Char} {r : List Char} (h1 : c ≠ '~') : replace0 (c :: r) = c :: replace0 r := by
  rw [replace0]
  intro _ h; exact absurd h h1

/-- the single left-to-right reading of an escaped token -/
def unescape1 : List Char → List Char
  | '~' :: '0' :: r => '~' :: unescape1 r
  | '~' :: '1' :: r => '/' :: unescape1 r
  | c :: r => c :: unescape1 r
  | [] => []

theorem unescape1_cons_other {c : Char} {r : List Char} (h1 : c ≠ '~') : unescape1 (c :: r) = c :: unescape1 r := by
  rw [unescape1]
  all_goals (intro _ h; exact absurd h h1)

/-- in an escaped token every '~' is followed by '0' or '1', and there is no '/' -/
inductive Escaped : List Char → Prop
  | nil : Escaped []
  | tilde0 {r} : Escaped r → Escaped ('~' :: '0' :: r)
  | tilde1 {r} : Escaped r → Escaped ('~' :: '1' :: r)
  | other {c r} : c ≠ '~' → c ≠ '/' → Escaped r → Escaped (c :: r)

theorem escape_escaped : ∀ s : List Char, Escaped (escape s)
  | [] => .nil
  | c :: r => by
    have ih := escape_escaped r
    by_cases h1 : c = '~'
    · subst h1; exact .tilde0 ih
    · by_cases h2 : c = '/'
      · subst h2; exact .tilde1 ih
      · rw [escape_cons_other h1 h2]; exact .other h1 h2 ih

theorem escaped_no_slash {s : List Char} (h : Escaped s) : '/' ∉ s := by
  induction h with
  | nil => simp
  | tilde0 _ ih => simp [ih]
  | tilde1 _ ih => simp [ih]
  | other _ h2 _ ih => simp [ih]; exact fun h => h2 h.symm

/-- an escaped member name never contains the token separator -/
theorem escape_no_slash (s : List Char) : '/' ∉ escape s := escaped_no_slash (escape_escaped s)

theorem unescape1_escape : ∀ s : List Char, unescape1 (escape s) = s
  | [] => rfl
  | c :: r => by
    have ih := unescape1_escape r
    by_cases h1 : c = '~'
    · subst h1; simp [escape, unescape1, ih]
    · by_cases h2 : c = '/'
      · subst h2; simp [escape, unescape1, ih]
      · rw [escape_cons_other h1 h2, unescape1_cons_other h1, ih]

/-- jsonpointer's two-pass `Unescape` (all `~1`, then all `~0`) agrees with the one-pass reading on escaped tokens -/
theorem replace0_replace1_escaped : ∀ {s : List Char}, Escaped s → replace0 (replace1 s) = unescape1 s := by
  intro s h
  induction h with
  | nil => rfl
  | @tilde0 r _ ih =>
    have e1 : replace1 ('~' :: '0' :: r) = '~' :: replace1 ('0' :: r) := by
      rw [replace1]; intro r' _ h; simp at h
    have e2 : replace1 ('0' :: r) = '0' :: replace1 r := replace1_cons_other (by decide)
    rw [e1, e2]
    simp [replace0, unescape1, ih]
  | @tilde1 r _ ih =>
    simp only [replace1, unescape1]
    rw [replace0_cons_other (by decide), ih]
  | @other c r h1 h2 _ ih =>
    rw [replace1_cons_other h1, replace0_cons_other h1, ih, unescape1_cons_other h1]

/-- **Token round trip**: whatever characters a member name contains, escaping it and reading it back through
jsonpointer's `Unescape` gives the name. -/
theorem unescape_escape (s : List Char) : unescape (escape s) = s := by
  unfold unescape
  rw [replace0_replace1_escaped (escape_escaped s), unescape1_escape]

/-- evaluation composes: walking `a ++ b` is walking `a`, then `b` from there -/
theorem eval_append (j : Json) (a b : List String) :
    eval j (a ++ b) = (eval j a).bind fun x => eval x b := by
  induction a generalizing j with
  | nil => simp [eval]
  | cons t ts ih =>
    simp only [List.cons_append, eval]
    cases step j t with
    | none => simp
    | some x => simpa using ih x

end SpecModel.Pointer
