/-
`$ref` / `$schema` strings: what `url.Parse(s)` followed by `URL.String()` prints
(`jsonreference.New` + `Ref.String()` for `$ref`, `parseURL` + `String()` for `$schema`).

Only a *tame* grammar is modelled — on it `Ref` (which clears RawPath/RawFragment and normalises) and
`SchemaURL` (which does not) print the same text:

    [ scheme "://" host ] path [ "#" fragment ]
    scheme   = [a-z][a-z0-9+.-]*          host = [a-z0-9.-]*  (empty only before a rooted path)
    path     : no ':' '?' '!' '\'' '(' ')' '*' '[' ']', no "//"
    fragment : no '\'' '[' ']'
    %XX      : upper-case hex of a byte that the component would escape anyway (so it is re-printed as is)
    any other character is printed as Go's `escape` prints it (per UTF-8 byte, upper-case hex).

Outside the grammar the answer is `oom` (out of model), except for the two failures that are certain:
a control character before the `#`, a malformed `%` escape (no query present).
-/
import SpecModel.Json

namespace SpecModel.Codec

inductive UrlRes where
  | ok (s : String)
  | err
  | oom
  deriving Repr, DecidableEq, Inhabited

inductive UrlMode where
  | path | fragment
  deriving DecidableEq, Repr

def isAlnum (c : Char) : Bool :=
  ('a' ≤ c && c ≤ 'z') || ('A' ≤ c && c ≤ 'Z') || ('0' ≤ c && c ≤ '9')

/-- `net/url.shouldEscape` for ASCII `c` in the two modes the model needs. -/
def shouldEscape (c : Char) (m : UrlMode) : Bool :=
  if isAlnum c then false
  else if c == '-' || c == '_' || c == '.' || c == '~' then false
  else if c == '$' || c == '&' || c == '+' || c == ',' || c == '/' || c == ':' || c == ';' || c == '=' || c == '@' then false
  else if c == '?' then m == .path
  else if m == .fragment && (c == '!' || c == '(' || c == ')' || c == '*') then false
  else true

/-- characters on which `Ref` and `SchemaURL` (or the parser) would have to be told apart: not modelled -/
def untame (c : Char) (m : UrlMode) : Bool :=
  match m with
  | .path => c == ':' || c == '?' || c == '!' || c == '\'' || c == '(' || c == ')' || c == '*' || c == '[' || c == ']'
  | .fragment => c == '\'' || c == '[' || c == ']'

def upperHex (n : Nat) : Char :=
  if n < 10 then Char.ofNat (48 + n) else Char.ofNat (55 + n)

def pctByte (b : Nat) : List Char := ['%', upperHex (b / 16), upperHex (b % 16)]

def utf8Bytes (c : Char) : List Nat :=
  let n := c.toNat
  if n < 0x80 then [n]
  else if n < 0x800 then [0xC0 + n / 64, 0x80 + n % 64]
  else if n < 0x10000 then [0xE0 + n / 4096, 0x80 + n / 64 % 64, 0x80 + n % 64]
  else [0xF0 + n / 262144, 0x80 + n / 4096 % 64, 0x80 + n / 64 % 64, 0x80 + n % 64]

def hexVal (c : Char) : Option Nat :=
  if '0' ≤ c ∧ c ≤ '9' then some (c.toNat - 48)
  else if 'A' ≤ c ∧ c ≤ 'F' then some (c.toNat - 55)
  else if 'a' ≤ c ∧ c ≤ 'f' then some (c.toNat - 87)
  else none

def isUpperHex (c : Char) : Bool := ('0' ≤ c && c ≤ '9') || ('A' ≤ c && c ≤ 'F')

/-- does the text contain a `%` that is not followed by two hex digits? -/
def badEscape : List Char → Bool
  | '%' :: a :: b :: rest => (hexVal a).isNone || (hexVal b).isNone || badEscape rest
  | '%' :: _ => true
  | _ :: rest => badEscape rest
  | [] => false

/-- one component, unescaped and escaped again; `none` = outside the tame grammar (escapes are well-formed) -/
def reescape (m : UrlMode) : List Char → Option (List Char)
  | '%' :: a :: b :: rest =>
    match hexVal a, hexVal b with
    | some x, some y =>
      let byte := 16 * x + y
      if isUpperHex a && isUpperHex b && (byte ≥ 0x80 || shouldEscape (Char.ofNat byte) m) then
        (reescape m rest).map (['%', a, b] ++ ·)
      else none
    | _, _ => none
  | '%' :: _ => none
  | c :: rest =>
    if untame c m then none
    else if c.toNat < 0x80 then
      (reescape m rest).map ((if shouldEscape c m then pctByte c.toNat else [c]) ++ ·)
    else (reescape m rest).map ((utf8Bytes c).flatMap pctByte ++ ·)
  | [] => some []

def hasDoubleSlash : List Char → Bool
  | '/' :: '/' :: _ => true
  | _ :: rest => hasDoubleSlash rest
  | [] => false

def isSchemeText : List Char → Bool
  | [] => false
  | c :: rest => ('a' ≤ c && c ≤ 'z') &&
      rest.all fun d => ('a' ≤ d && d ≤ 'z') || ('0' ≤ d && d ≤ '9') || d == '+' || d == '.' || d == '-'

def isHostText (cs : List Char) : Bool :=
  cs.all fun d => ('a' ≤ d && d ≤ 'z') || ('0' ≤ d && d ≤ '9') || d == '.' || d == '-'

/-- the part before `#`: `some (prefix, path)` with prefix = "" or "scheme://host" -/
def splitAuthority (u : List Char) : Option (List Char × List Char) :=
  if u.contains ':' then
    let scheme := u.takeWhile (· != ':')
    match u.dropWhile (· != ':') with
    | ':' :: '/' :: '/' :: rest =>
      let host := rest.takeWhile (· != '/')
      let path := rest.dropWhile (· != '/')
      if isSchemeText scheme && isHostText host && !(host.isEmpty && path.isEmpty) then
        some (scheme ++ [':', '/', '/'] ++ host, path)
      else none
    | _ => none
  else
    match u with
    | '/' :: '/' :: _ => none
    | _ => some ([], u)

def urlString (s : String) : UrlRes :=
  let cs := s.toList
  let u := cs.takeWhile (· != '#')
  let frag := (cs.dropWhile (· != '#')).drop 1
  -- `url.Parse` cuts the fragment off first and rejects control characters in what is left only; in the
  -- fragment they are escaped like any other character
  if u.any (fun c => c.toNat < 0x20 || c.toNat == 0x7f) then .err
  else
    if u.contains '?' then .oom
    else if badEscape u || badEscape frag then .err
    else
      match splitAuthority u with
      | none => .oom
      | some (pre, path) =>
        if hasDoubleSlash path then .oom
        else match reescape .path path, reescape .fragment frag with
          | some p, some f =>
            .ok (String.ofList (pre ++ p ++ (if f.isEmpty then [] else '#' :: f)))
          | _, _ => .oom

end SpecModel.Codec
