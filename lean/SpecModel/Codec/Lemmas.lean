/-
Lemmas about the generic part of the codec model (`Codec/Generic.lean`): Go maps print with strictly
increasing keys; the free-form payload codec `normAny` produces such values and is the identity on them.
Core Lean only.
-/
import SpecModel.Codec.Generic

namespace SpecModel.Codec
open SpecModel

theorem str_trichotomy (a b : String) : a < b ∨ a = b ∨ b < a := by
  by_cases h : a < b
  · exact .inl h
  · by_cases h2 : b < a
    · exact .inr (.inr h2)
    · exact .inr (.inl (String.le_antisymm (String.not_lt.mp h2) (String.not_lt.mp h)))

/-! ### Go maps: `insertKeep`, `toGoMap` -/

/-- keys strictly increasing (in particular: no duplicate) -/
def KeysSorted (ms : List (String × Json)) : Prop := (ms.map (·.1)).Pairwise (· < ·)

theorem keysSorted_nil : KeysSorted [] := List.Pairwise.nil

theorem keysSorted_cons {k : String} {v : Json} {ms : List (String × Json)} :
    KeysSorted ((k, v) :: ms) ↔ (∀ m ∈ ms, k < m.1) ∧ KeysSorted ms := by
  simp [KeysSorted, List.pairwise_cons]

theorem keysSorted_nodup {ms : List (String × Json)} (h : KeysSorted ms) : (ms.map (·.1)).Nodup := by
  unfold KeysSorted at h
  unfold List.Nodup
  refine h.imp ?_
  intro a b hab heq
  subst heq
  exact String.lt_irrefl a hab

theorem insertKeep_keys (k : String) (v : Json) (acc : List (String × Json)) :
    ∀ m ∈ insertKeep k v acc, m.1 = k ∨ m ∈ acc := by
  induction acc with
  | nil => intro m hm; simp [insertKeep] at hm; exact .inl (by simp [hm])
  | cons a rest ih =>
    obtain ⟨l, w⟩ := a
    intro m hm
    unfold insertKeep at hm
    split at hm
    · simp at hm; rcases hm with h | h | h
      · exact .inl (by simp [h])
      · exact .inr (by simp [h])
      · exact .inr (by simp [h])
    · split at hm
      · exact .inr hm
      · simp at hm; rcases hm with h | h
        · exact .inr (by simp [h])
        · rcases ih m h with h' | h'
          · exact .inl h'
          · exact .inr (by simp [h'])

theorem insertKeep_sorted (k : String) (v : Json) {acc : List (String × Json)} (h : KeysSorted acc) :
    KeysSorted (insertKeep k v acc) := by
  induction acc with
  | nil => simp [insertKeep, KeysSorted]
  | cons a rest ih =>
    obtain ⟨l, w⟩ := a
    have ⟨hl, hrest⟩ := keysSorted_cons.mp h
    unfold insertKeep
    split
    · rename_i hkl
      refine keysSorted_cons.mpr ⟨?_, h⟩
      intro m hm
      simp at hm
      rcases hm with hm | hm
      · simpa [hm] using hkl
      · exact String.lt_trans hkl (hl m hm)
    · split
      · exact h
      · rename_i hnlt hne
        refine keysSorted_cons.mpr ⟨?_, ih hrest⟩
        intro m hm
        rcases insertKeep_keys k v rest m hm with h' | h'
        · rw [h']
          rcases str_trichotomy k l with h1 | h1 | h1
          · exact absurd h1 hnlt
          · exact absurd h1 hne
          · exact h1
        · exact hl m h'

theorem toGoMap_sorted (ms : List (String × Json)) : KeysSorted (toGoMap ms) := by
  induction ms with
  | nil => exact keysSorted_nil
  | cons a rest ih => exact insertKeep_sorted a.1 a.2 ih

theorem insertKeep_of_lt {k : String} {v : Json} {acc : List (String × Json)} (h : ∀ m ∈ acc, k < m.1) :
    insertKeep k v acc = (k, v) :: acc := by
  cases acc with
  | nil => rfl
  | cons a rest =>
    obtain ⟨l, w⟩ := a
    have : k < l := h (l, w) (by simp)
    simp [insertKeep, this]

/-- A Go map that is printed and read again is the same map. -/
theorem toGoMap_of_sorted {ms : List (String × Json)} (h : KeysSorted ms) : toGoMap ms = ms := by
  induction ms with
  | nil => rfl
  | cons a rest ih =>
    obtain ⟨k, v⟩ := a
    have ⟨hk, hrest⟩ := keysSorted_cons.mp h
    show insertKeep k v (toGoMap rest) = (k, v) :: rest
    rw [ih hrest]
    exact insertKeep_of_lt hk

theorem toGoMap_idem (ms : List (String × Json)) : toGoMap (toGoMap ms) = toGoMap ms :=
  toGoMap_of_sorted (toGoMap_sorted ms)

/-! ### Free-form payloads: `normAny` -/

mutual
  /-- every object has strictly increasing keys and every number is exactly representable as `float64` -/
  def GoAny : Json → Prop
    | .num n => n.natAbs ≤ floatExact
    | .arr xs => GoAnyL xs
    | .obj ms => KeysSorted ms ∧ GoAnyM ms
    | _ => True
  def GoAnyL : List Json → Prop
    | [] => True
    | x :: xs => GoAny x ∧ GoAnyL xs
  def GoAnyM : List (String × Json) → Prop
    | [] => True
    | (_, x) :: xs => GoAny x ∧ GoAnyM xs
end

theorem goAnyM_iff {ms : List (String × Json)} : GoAnyM ms ↔ ∀ m ∈ ms, GoAny m.2 := by
  induction ms with
  | nil => simp [GoAnyM]
  | cons a rest ih => obtain ⟨k, v⟩ := a; simp [GoAnyM, ih]

theorem goAnyM_insertKeep {k : String} {v : Json} {acc : List (String × Json)} (hv : GoAny v) (h : GoAnyM acc) :
    GoAnyM (insertKeep k v acc) := by
  induction acc with
  | nil => simp [insertKeep, GoAnyM, hv]
  | cons a rest ih =>
    obtain ⟨l, w⟩ := a
    have ⟨hw, hr⟩ : GoAny w ∧ GoAnyM rest := by simpa [GoAnyM] using h
    unfold insertKeep
    split
    · simp [GoAnyM, hv, hw, hr]
    · split
      · simp [GoAnyM, hw, hr]
      · simp [GoAnyM, hw, ih hr]

theorem normFloat_ok {n : Int} {j : Json} (h : normFloat n = .ok j) : j = .num n ∧ n.natAbs ≤ floatExact := by
  unfold normFloat at h
  split at h
  · rename_i hle; simp [Except.ok.injEq] at h; exact ⟨h.symm, hle⟩
  · split at h <;> simp [goError, outOfModel] at h

mutual
  /-- what `normAny` returns is a value as Go prints it -/
  theorem normAny_goAny : ∀ (j j' : Json), normAny j = .ok j' → GoAny j'
    | .num n, j', h => by
        have h0 : normFloat n = .ok j' := by simpa [normAny] using h
        have ⟨h1, h2⟩ := normFloat_ok h0
        subst h1; simpa [GoAny] using h2
    | .arr xs, j', h => by
        simp only [normAny, bind, Except.bind] at h
        split at h
        · simp at h
        · rename_i ys hys
          simp [pure, Except.pure] at h; subst h
          simpa [GoAny] using normAnyList_goAny xs ys hys
    | .obj ms, j', h => by
        simp only [normAny, bind, Except.bind] at h
        split at h
        · simp at h
        · rename_i ys hys
          simp [pure, Except.pure] at h; subst h
          simpa [GoAny] using normAnyMembers_goAny ms ys hys
    | .null, j', h => by simp [normAny, pure, Except.pure] at h; subst h; simp [GoAny]
    | .bool b, j', h => by simp [normAny, pure, Except.pure] at h; subst h; simp [GoAny]
    | .str s, j', h => by simp [normAny, pure, Except.pure] at h; subst h; simp [GoAny]
  theorem normAnyList_goAny : ∀ (xs ys : List Json), normAnyList xs = .ok ys → GoAnyL ys
    | [], ys, h => by simp [normAnyList, pure, Except.pure] at h; subst h; simp [GoAnyL]
    | x :: xs, ys, h => by
        simp only [normAnyList, bind, Except.bind] at h
        split at h
        · simp at h
        · rename_i y hy
          split at h
          · simp at h
          · rename_i ys' hys'
            simp [pure, Except.pure] at h; subst h
            exact ⟨normAny_goAny x y hy, normAnyList_goAny xs ys' hys'⟩
  theorem normAnyMembers_goAny : ∀ (ms ys : List (String × Json)), normAnyMembers ms = .ok ys →
      KeysSorted ys ∧ GoAnyM ys
    | [], ys, h => by simp [normAnyMembers, pure, Except.pure] at h; subst h; exact ⟨keysSorted_nil, by simp [GoAnyM]⟩
    | (k, v) :: rest, ys, h => by
        simp only [normAnyMembers, bind, Except.bind] at h
        split at h
        · simp at h
        · rename_i w hw
          split at h
          · simp at h
          · rename_i acc hacc
            simp [pure, Except.pure] at h; subst h
            have ⟨h1, h2⟩ := normAnyMembers_goAny rest acc hacc
            exact ⟨insertKeep_sorted k w h1, goAnyM_insertKeep (normAny_goAny v w hw) h2⟩
end

mutual
  /-- `normAny` is the identity on values as Go prints them -/
  theorem normAny_of_goAny : ∀ (j : Json), GoAny j → normAny j = .ok j
    | .num n, h => by
        have : n.natAbs ≤ floatExact := by simpa [GoAny] using h
        simp [normAny, normFloat, this]
    | .arr xs, h => by
        have := normAnyList_of_goAny xs (by simpa [GoAny] using h)
        simp [normAny, this, bind, Except.bind, pure, Except.pure]
    | .obj ms, h => by
        have h' : KeysSorted ms ∧ GoAnyM ms := by simpa [GoAny] using h
        have := normAnyMembers_of_goAny ms h'.1 h'.2
        simp [normAny, this, bind, Except.bind, pure, Except.pure]
    | .null, _ => rfl
    | .bool _, _ => rfl
    | .str _, _ => rfl
  theorem normAnyList_of_goAny : ∀ (xs : List Json), GoAnyL xs → normAnyList xs = .ok xs
    | [], _ => rfl
    | x :: xs, h => by
        have h' : GoAny x ∧ GoAnyL xs := by simpa [GoAnyL] using h
        simp [normAnyList, normAny_of_goAny x h'.1, normAnyList_of_goAny xs h'.2, bind, Except.bind, pure, Except.pure]
  theorem normAnyMembers_of_goAny : ∀ (ms : List (String × Json)), KeysSorted ms → GoAnyM ms →
      normAnyMembers ms = .ok ms
    | [], _, _ => rfl
    | (k, v) :: rest, hs, h => by
        have h' : GoAny v ∧ GoAnyM rest := by simpa [GoAnyM] using h
        have ⟨hk, hrest⟩ := keysSorted_cons.mp hs
        simp [normAnyMembers, normAny_of_goAny v h'.1, normAnyMembers_of_goAny rest hrest h'.2, bind, Except.bind,
          pure, Except.pure, insertKeep_of_lt hk]
end

/-- Free-form payloads (default / example / enum / extension values / unknown schema keywords) reach a fixed
point after one decode+encode. -/
theorem normAny_idem {j j' : Json} (h : normAny j = .ok j') : normAny j' = .ok j' :=
  normAny_of_goAny j' (normAny_goAny j j' h)

theorem normAnyMembers_idem {ms ys : List (String × Json)} (h : normAnyMembers ms = .ok ys) :
    normAnyMembers ys = .ok ys :=
  let ⟨h1, h2⟩ := normAnyMembers_goAny ms ys h
  normAnyMembers_of_goAny ys h1 h2

end SpecModel.Codec
