/-
C07, whole documents: normalisation is idempotent.

    norm K j = ok j₁  →  Clean j₁  →  norm K j₁ = ok j₁

for every kind K, where `Clean` is a kind-agnostic, decidable condition on the OUTPUT of the first pass:
  * no object member, at any depth, has the value `null`  (a `null` written for an `omitempty` pointer field is
    read back as "absent": this is exactly how known finding K-C07-1, `items: true`, fails to be a fixed point);
  * no member name, at any depth, differs from a keyword of the model only by letter case (the property's own
    exception: `encoding/json` reads such a name as the keyword);
  * every number is exactly representable as a float64 (the model's domain);
  * every `$ref` / `$schema` text is a fixed point of the URL printing model (C13 is about that).

The proof re-runs the codec on its own output: every emitted member is read back by the field that emitted it
and by no other (names pairwise distinct across the parts of a kind: `norm_nd` and the table side conditions),
every field codec is the identity on its own image (`normFT_fixed`), the `omitempty` decision repeats, Go maps
are already sorted.  Side conditions on the GENERATED tables are collected in `IdemTablesOK` (`decide`).
-/
import SpecModel.Codec.NoDup
import SpecModel.Codec.SortLemmas

namespace SpecModel.Codec
open SpecModel

/-! ### the hypothesis on the output -/

/-- member names of all generated struct tables -/
def keywordList : List String := Gen.structs.flatMap fun e => tableNames e.2

/-- `k` is not a case variant of a keyword: whatever keyword it folds onto, it IS that keyword -/
def NameOK (k : String) : Prop := ∀ n ∈ keywordList, foldName k = foldName n → k = n

/-- a `$ref` / `$schema` member holds a text that the URL printing model leaves alone -/
def RefTextOK (k : String) (v : Json) : Prop :=
  (k = "$ref" ∨ k = "$schema") → ∀ t, v = .str t → urlString t = .ok t

mutual
  def Clean : Json → Prop
    | .num n => n.natAbs ≤ floatExact
    | .arr xs => CleanL xs
    | .obj ms => CleanM ms
    | _ => True
  def CleanL : List Json → Prop
    | [] => True
    | x :: xs => Clean x ∧ CleanL xs
  def CleanM : List (String × Json) → Prop
    | [] => True
    | (k, v) :: rest => NameOK k ∧ v ≠ .null ∧ RefTextOK k v ∧ Clean v ∧ CleanM rest
end

theorem cleanM_iff {ms : List (String × Json)} :
    CleanM ms ↔ ∀ m ∈ ms, NameOK m.1 ∧ m.2 ≠ .null ∧ RefTextOK m.1 m.2 ∧ Clean m.2 := by
  induction ms with
  | nil => simp [CleanM]
  | cons a rest ih =>
    obtain ⟨k, v⟩ := a
    simp only [CleanM, ih, List.mem_cons, forall_eq_or_imp]
    constructor
    · rintro ⟨h1, h2, h3, h4, h5⟩; exact ⟨⟨h1, h2, h3, h4⟩, h5⟩
    · rintro ⟨⟨h1, h2, h3, h4⟩, h5⟩; exact ⟨h1, h2, h3, h4, h5⟩

theorem cleanL_iff {xs : List Json} : CleanL xs ↔ ∀ x ∈ xs, Clean x := by
  induction xs with
  | nil => simp [CleanL]
  | cons a rest ih => simp [CleanL, ih]

/-! ### element-wise codecs on their own output -/

theorem mapR_fixed {f : Json → R Json} : ∀ (ys : List Json), (∀ y ∈ ys, f y = .ok y) → mapR f ys = .ok ys := by
  intro ys
  induction ys with
  | nil => intro _; rfl
  | cons y rest ih =>
    intro h
    simp [mapR, h y (by simp), ih (fun z hz => h z (by simp [hz])), bind, Except.bind, pure, Except.pure]

theorem mapMembersR_fixed {f : Json → R Json} : ∀ (ys : List (String × Json)), KeysSorted ys →
    (∀ m ∈ ys, f m.2 = .ok m.2) → mapMembersR f ys = .ok ys := by
  intro ys
  induction ys with
  | nil => intro _ _; rfl
  | cons a rest ih =>
    obtain ⟨k, v⟩ := a
    intro hs h
    have ⟨hk, hrest⟩ := keysSorted_cons.mp hs
    simp [mapMembersR, h (k, v) (by simp), ih hrest (fun m hm => h m (by simp [hm])), bind, Except.bind, pure,
      Except.pure, insertKeep_of_lt hk]

theorem mapR_mem {f : Json → R Json} : ∀ (xs ys : List Json), mapR f xs = .ok ys →
    ∀ y ∈ ys, ∃ x ∈ xs, f x = .ok y := by
  intro xs
  induction xs with
  | nil => intro ys h; simp [mapR, pure, Except.pure] at h; subst h; simp
  | cons x rest ih =>
    intro ys h
    simp only [mapR, bind, Except.bind] at h
    split at h
    · simp at h
    · rename_i y hy
      split at h
      · simp at h
      · rename_i ys' hys'
        simp only [pure, Except.pure, Except.ok.injEq] at h; subst h
        intro z hz
        rcases List.mem_cons.mp hz with rfl | hz
        · exact ⟨x, by simp, hy⟩
        · obtain ⟨x', hx', hf⟩ := ih ys' hys' z hz
          exact ⟨x', by simp [hx'], hf⟩

theorem insertKeep_mem {k : String} {v : Json} {acc : List (String × Json)} :
    ∀ m ∈ insertKeep k v acc, m = (k, v) ∨ m ∈ acc := by
  induction acc with
  | nil => intro m hm; simp [insertKeep] at hm; exact .inl hm
  | cons b acc' ih =>
    obtain ⟨l, w⟩ := b
    intro m hm
    unfold insertKeep at hm
    split at hm
    · simp at hm; rcases hm with h | h | h
      · exact .inl h
      · exact .inr (by simp [h])
      · exact .inr (by simp [h])
    · split at hm
      · exact .inr hm
      · simp at hm; rcases hm with h | h
        · exact .inr (by simp [h])
        · rcases ih m h with h2 | h2
          · exact .inl h2
          · exact .inr (by simp [h2])

theorem mapMembersR_mem {f : Json → R Json} : ∀ (ms ys : List (String × Json)), mapMembersR f ms = .ok ys →
    ∀ m ∈ ys, ∃ x ∈ ms, x.1 = m.1 ∧ f x.2 = .ok m.2 := by
  intro ms
  induction ms with
  | nil => intro ys h; simp [mapMembersR, pure, Except.pure] at h; subst h; simp
  | cons a rest ih =>
    obtain ⟨k, v⟩ := a
    intro ys h
    simp only [mapMembersR, bind, Except.bind] at h
    split at h
    · simp at h
    · rename_i w hw
      split at h
      · simp at h
      · rename_i acc hacc
        simp only [pure, Except.pure, Except.ok.injEq] at h; subst h
        intro m hm
        rcases insertKeep_mem m hm with rfl | hm
        · exact ⟨(k, v), by simp, rfl, hw⟩
        · obtain ⟨x, hx, h1, h2⟩ := ih acc hacc m hm
          exact ⟨x, by simp [hx], h1, h2⟩

theorem strElem_fixed {x y : Json} (h : strElem x = .ok y) : strElem y = .ok y := by
  cases x <;> simp [strElem, pure, Except.pure, goError] at h <;> subst h <;> rfl

theorem strsVal_fixed {x y : Json} (h : strsVal x = .ok y) : strsVal y = .ok y := by
  cases x with
  | arr xs =>
    simp only [strsVal, bind, Except.bind] at h
    split at h
    · simp at h
    · rename_i ys hys
      simp only [pure, Except.pure, Except.ok.injEq] at h; subst h
      have : mapR strElem ys = .ok ys := mapR_fixed ys (fun y hy => by
        obtain ⟨x, _, hx⟩ := mapR_mem xs ys hys y hy
        exact strElem_fixed hx)
      simp [strsVal, this, bind, Except.bind, pure, Except.pure]
  | null => simp [strsVal, pure, Except.pure] at h; subst h; rfl
  | bool _ => simp [strsVal, goError] at h
  | num _ => simp [strsVal, goError] at h
  | str _ => simp [strsVal, goError] at h
  | obj _ => simp [strsVal, goError] at h

theorem secReqVal_fixed {x y : Json} (h : secReqVal x = .ok y) : secReqVal y = .ok y := by
  cases x with
  | obj ms =>
    simp only [secReqVal, bind, Except.bind] at h
    split at h
    · simp at h
    · rename_i ys hys
      simp only [pure, Except.pure, Except.ok.injEq] at h; subst h
      have hs := (mapMembersR_nd (fun x y => strsVal_nd) ms ys hys).1
      have : mapMembersR strsVal ys = .ok ys := mapMembersR_fixed ys hs (fun m hm => by
        obtain ⟨x, _, _, hx⟩ := mapMembersR_mem ms ys hys m hm
        exact strsVal_fixed hx)
      simp [secReqVal, this, bind, Except.bind, pure, Except.pure]
  | null => simp [secReqVal, pure, Except.pure] at h; subst h; rfl
  | bool _ => simp [secReqVal, goError] at h
  | num _ => simp [secReqVal, goError] at h
  | str _ => simp [secReqVal, goError] at h
  | arr _ => simp [secReqVal, goError] at h

/-! ### what the recursion has to provide -/

structure RecGood (rec : Rec) : Prop where
  idem : ∀ t v r, rec t v = .ok r → Clean r → rec t r = .ok r
  isObj : ∀ k v r, rec (.kind k) v = .ok r → ∃ ms, r = .obj ms
  nd : RecND rec

theorem clean_arr {ys : List Json} (h : Clean (.arr ys)) : ∀ y ∈ ys, Clean y := by
  simpa [Clean] using cleanL_iff.mp (by simpa [Clean] using h)

theorem clean_obj {ys : List (String × Json)} (h : Clean (.obj ys)) :
    ∀ m ∈ ys, NameOK m.1 ∧ m.2 ≠ .null ∧ RefTextOK m.1 m.2 ∧ Clean m.2 := by
  simpa [Clean] using cleanM_iff.mp (by simpa [Clean] using h)

theorem ptrTo_fixed {rec : Rec} (hr : RecGood rec) (t : Target) {x y : Json} (h : ptrTo rec t x = .ok y)
    (hc : Clean y) (hn : y ≠ .null) : ptrTo rec t y = .ok y := by
  have h1 : rec t y = .ok y := by
    cases x with
    | null => simp [ptrTo, pure, Except.pure] at h; exact absurd h.symm hn
    | bool _ => exact hr.idem t _ _ (by simpa [ptrTo] using h) hc
    | num _ => exact hr.idem t _ _ (by simpa [ptrTo] using h) hc
    | str _ => exact hr.idem t _ _ (by simpa [ptrTo] using h) hc
    | arr _ => exact hr.idem t _ _ (by simpa [ptrTo] using h) hc
    | obj _ => exact hr.idem t _ _ (by simpa [ptrTo] using h) hc
  cases y with
  | null => exact absurd rfl hn
  | bool _ => simpa [ptrTo] using h1
  | num _ => simpa [ptrTo] using h1
  | str _ => simpa [ptrTo] using h1
  | arr _ => simpa [ptrTo] using h1
  | obj _ => simpa [ptrTo] using h1

/-- a list codec applied to its own (clean) output -/
theorem mapR_second {f : Json → R Json} {xs ys : List Json} (h : mapR f xs = .ok ys)
    (hf : ∀ x y, f x = .ok y → Clean y → f y = .ok y) (hc : ∀ y ∈ ys, Clean y) : mapR f ys = .ok ys :=
  mapR_fixed ys (fun y hy => by
    obtain ⟨x, _, hx⟩ := mapR_mem xs ys h y hy
    exact hf x y hx (hc y hy))

theorem mapMembersR_sorted {f : Json → R Json} : ∀ (ms ys : List (String × Json)), mapMembersR f ms = .ok ys →
    KeysSorted ys := by
  intro ms
  induction ms with
  | nil => intro ys h; simp [mapMembersR, pure, Except.pure] at h; subst h; exact keysSorted_nil
  | cons a rest ih =>
    obtain ⟨k, v⟩ := a
    intro ys h
    simp only [mapMembersR, bind, Except.bind] at h
    split at h
    · simp at h
    · split at h
      · simp at h
      · rename_i acc hacc
        simp only [pure, Except.pure, Except.ok.injEq] at h; subst h
        exact insertKeep_sorted _ _ (ih acc hacc)

theorem mapMembersR_second {f : Json → R Json} {ms ys : List (String × Json)} (h : mapMembersR f ms = .ok ys)
    (hf : ∀ x y, f x = .ok y → Clean y → y ≠ .null → f y = .ok y)
    (hc : ∀ m ∈ ys, Clean m.2 ∧ m.2 ≠ .null) : mapMembersR f ys = .ok ys :=
  mapMembersR_fixed ys (mapMembersR_sorted ms ys h) (fun m hm => by
    obtain ⟨x, _, _, hx⟩ := mapMembersR_mem ms ys h m hm
    exact hf x.2 m.2 hx (hc m hm).1 (hc m hm).2)

theorem normAnyList_idem {xs ys : List Json} (h : normAnyList xs = .ok ys) : normAnyList ys = .ok ys :=
  normAnyList_of_goAny ys (normAnyList_goAny xs ys h)

/-- **Lemma A**: a field codec is the identity on its own non-null, clean output -/
theorem normFT_fixed {rec : Rec} (hr : RecGood rec) (ft : FT) (v r : Json) (h : normFT rec ft v = .ok r)
    (hc : Clean r) (hn : r ≠ .null) : normFT rec ft r = .ok r := by
  unfold normFT at h
  split at h
  all_goals first
    | (simp only [pure, Except.pure, Except.ok.injEq] at h; subst h; rfl)
    | (simp [goError, outOfModel] at h; done)
    | skip
  -- int
  · unfold normInt64 at h; split at h
    · simp only [Except.ok.injEq] at h; subst h; simp [normFT, normInt64, *]
    · simp [goError] at h
  -- optInt
  · unfold normInt64 at h; split at h
    · simp only [Except.ok.injEq] at h; subst h; simp [normFT, normInt64, *]
    · simp [goError] at h
  -- float
  · have ⟨h1, h2⟩ := normFloat_ok h; subst h1; simp [normFT, normFloat, h2]
  -- optFloat
  · have ⟨h1, h2⟩ := normFloat_ok h; subst h1; simp [normFT, normFloat, h2]
  -- any
  · have := normAny_idem h
    simpa [normFT] using this
  -- strs
  · have := strsVal_fixed h
    simpa [normFT] using this
  -- anys
  · simp only [bind, Except.bind] at h
    split at h
    · simp at h
    · rename_i ys hys; simp only [pure, Except.pure, Except.ok.injEq] at h; subst h
      simp [normFT, normAnyList_idem hys, bind, Except.bind, pure, Except.pure]
  -- strMap
  · simp only [bind, Except.bind] at h
    split at h
    · simp at h
    · rename_i ys hys; simp only [pure, Except.pure, Except.ok.injEq] at h; subst h
      have := mapMembersR_second hys (fun x y hx _ _ => strElem_fixed hx)
        (fun m hm => ⟨(clean_obj hc m hm).2.2.2, (clean_obj hc m hm).2.1⟩)
      simp [normFT, this, bind, Except.bind, pure, Except.pure]
  -- anyMap
  · simp only [bind, Except.bind] at h
    split at h
    · simp at h
    · rename_i ys hys; simp only [pure, Except.pure, Except.ok.injEq] at h; subst h
      simp [normFT, normAnyMembers_idem hys, bind, Except.bind, pure, Except.pure]
  -- secReqs
  · simp only [bind, Except.bind] at h
    split at h
    · simp at h
    · rename_i ys hys; simp only [pure, Except.pure, Except.ok.injEq] at h; subst h
      have := mapR_second hys (fun x y hx _ => secReqVal_fixed hx) (clean_arr hc)
      simp [normFT, this, bind, Except.bind, pure, Except.pure]
  -- ptrKind
  · have := hr.idem _ _ _ h hc
    cases r <;> first | exact absurd rfl hn | simpa [normFT] using this
  -- valKind
  · have := hr.idem _ _ _ h hc
    cases r <;> first | exact absurd rfl hn | simpa [normFT] using this
  -- listKind
  · simp only [bind, Except.bind] at h
    split at h
    · simp at h
    · rename_i ys hys; simp only [pure, Except.pure, Except.ok.injEq] at h; subst h
      have := mapR_second hys (fun x y hx hy => hr.idem _ x y hx hy) (clean_arr hc)
      simp [normFT, this, bind, Except.bind, pure, Except.pure]
  -- mapKind
  · simp only [bind, Except.bind] at h
    split at h
    · simp at h
    · rename_i ys hys; simp only [pure, Except.pure, Except.ok.injEq] at h; subst h
      have := mapMembersR_second hys (fun x y hx hy _ => hr.idem _ x y hx hy)
        (fun m hm => ⟨(clean_obj hc m hm).2.2.2, (clean_obj hc m hm).2.1⟩)
      simp [normFT, this, bind, Except.bind, pure, Except.pure]
  -- ptrNamed
  · have := hr.idem _ _ _ h hc
    cases r <;> first | exact absurd rfl hn | simpa [normFT] using this
  -- mapNamed
  · simp only [bind, Except.bind] at h
    split at h
    · simp at h
    · rename_i ys hys; simp only [pure, Except.pure, Except.ok.injEq] at h; subst h
      have := mapMembersR_second hys (fun x y hx hy _ => hr.idem _ x y hx hy)
        (fun m hm => ⟨(clean_obj hc m hm).2.2.2, (clean_obj hc m hm).2.1⟩)
      simp [normFT, this, bind, Except.bind, pure, Except.pure]
  -- named
  · have := hr.idem _ _ _ h hc
    cases r <;> first | exact absurd rfl hn | simpa [normFT] using this
  -- SecurityDefinitions
  · simp only [bind, Except.bind] at h
    split at h
    · simp at h
    · rename_i ys hys; simp only [pure, Except.pure, Except.ok.injEq] at h; subst h
      have := mapMembersR_second hys (fun x y hx hy hn' => ptrTo_fixed hr _ hx hy hn')
        (fun m hm => ⟨(clean_obj hc m hm).2.2.2, (clean_obj hc m hm).2.1⟩)
      simp [normFT, this, bind, Except.bind, pure, Except.pure]


/-! ### one field of a struct, second pass -/

/-- the state of a field after decoding: zero, or an image of the field codec -/
def StImg (rec : Rec) (ft : FT) : Option Json → Prop
  | none => True
  | some j => (∃ v, normFT rec ft v = .ok j) ∨ (∃ k, ft = .valKind k ∧ rec (.kind k) .null = .ok j)

theorem decodeField_img {rec : Rec} (ft : FT) (cur st : Option Json) (v : Json)
    (hc : StImg rec ft cur) (h : decodeField rec ft cur v = .ok st) : StImg rec ft st := by
  unfold decodeField at h
  split at h
  · split at h
    · simp only [bind, Except.bind] at h
      split at h
      · simp at h
      · rename_i r hr'; simp only [pure, Except.pure, Except.ok.injEq] at h; subst h
        exact .inr ⟨_, rfl, hr'⟩
    · simp only [pure, Except.pure, Except.ok.injEq] at h; subst h
      split
      · exact hc
      · simp [StImg]
  · simp only [bind, Except.bind] at h
    split at h
    · simp at h
    · rename_i r hr'
      split at h
      · simp [outOfModel] at h
      · simp only [pure, Except.pure, Except.ok.injEq] at h; subst h
        exact .inl ⟨_, hr'⟩

theorem decodeAll_img {rec : Rec} (ft : FT) :
    ∀ (vs : List Json) (cur st : Option Json), StImg rec ft cur → decodeAll rec ft cur vs = .ok st → StImg rec ft st := by
  intro vs
  induction vs with
  | nil => intro cur st hc h; simp [decodeAll, pure, Except.pure] at h; subst h; exact hc
  | cons v rest ih =>
    intro cur st hc h
    simp only [decodeAll, bind, Except.bind] at h
    split at h
    · simp at h
    · rename_i st' hst'
      exact ih st' st (decodeField_img ft cur st' v hc hst') h

theorem fieldState_img {rec : Rec} (all : List Field) (f : Field) (ms : List (String × Json))
    (st : Option Json) (h : fieldState rec all f ms = .ok st) : StImg rec f.ft st :=
  decodeAll_img f.ft _ none st (by simp [StImg]) h

theorem stImg_fixed {rec : Rec} (hr : RecGood rec) {ft : FT} {j : Json} (hs : StImg rec ft (some j))
    (hc : Clean j) (hn : j ≠ .null) : normFT rec ft j = .ok j := by
  rcases hs with ⟨v, hv⟩ | ⟨k, hk, hv⟩
  · exact normFT_fixed hr ft v j hv hc hn
  · subst hk
    have := hr.idem _ _ _ hv hc
    cases j <;> first | exact absurd rfl hn | simpa [normFT] using this

theorem decodeOne {rec : Rec} {ft : FT} {j : Json} (hn : j ≠ .null) (h : normFT rec ft j = .ok j) :
    decodeAll rec ft none [j] = .ok (some j) := by
  cases j <;> first
    | exact absurd rfl hn
    | simp [decodeAll, decodeField, h, bind, Except.bind, pure, Except.pure]

/-- **Lemma B**: re-reading what a field wrote gives a state that writes the same again -/
theorem field_second {rec : Rec} (hr : RecGood rec) (f : Field) (st : Option Json) (hs : StImg rec f.ft st)
    (hc : ∀ m, encodeField f st = some m → Clean m.2 ∧ m.2 ≠ .null) :
    ∃ st', decodeAll rec f.ft none ((encodeField f st).map (·.2)).toList = .ok st' ∧
      encodeField f st' = encodeField f st := by
  cases st with
  | none =>
    cases hoe : f.omitEmpty with
    | true => exact ⟨none, by simp [encodeField, hoe, decodeAll, pure, Except.pure], rfl⟩
    | false =>
      have he : encodeField f none = some (f.jsonName, zeroEnc f.ft) := by simp [encodeField, hoe]
      have hz := (hc _ he).2
      refine ⟨some (zeroEnc f.ft), ?_, ?_⟩
      · rw [he]
        simp only [Option.map_some, Option.toList_some]
        apply decodeOne hz
        cases hft : f.ft <;> simp [hft, zeroEnc] at hz ⊢ <;>
          simp [normFT, normInt64, normFloat, floatExact, pure, Except.pure]
      · simp [encodeField, hoe]
  | some j =>
    cases he : encodeField f (some j) with
    | none =>
      refine ⟨none, by simp [decodeAll, pure, Except.pure], ?_⟩
      have : f.omitEmpty = true := by
        cases hoe : f.omitEmpty with
        | true => rfl
        | false => simp [encodeField, hoe] at he
      simp [encodeField, this]
    | some m =>
      have hm : m = (f.jsonName, j) := by
        unfold encodeField at he
        simp only at he
        split at he
        · simp at he
        · simpa using he.symm
      subst hm
      have ⟨h1, h2⟩ := hc _ he
      refine ⟨some j, ?_, he⟩
      simp only [Option.map_some, Option.toList_some]
      exact decodeOne h2 (stImg_fixed hr hs h1 h2)


/-! ### which member goes to which field, when no name is a case variant of a keyword -/

theorem goesTo_eq {all : List Field} (hsub : ∀ f ∈ all, f.jsonName ∈ keywordList) {k name : String}
    (hk : NameOK k) (hn : name ∈ all.map (·.jsonName)) : goesTo all name k = (k == name) := by
  unfold goesTo matchField
  cases h1 : all.find? (·.jsonName == k) with
  | some f =>
    have := List.find?_some h1
    simp only [beq_iff_eq] at this
    simp [this]
  | none =>
    have hnone := List.find?_eq_none.mp h1
    have hne : (k == name) = false := by
      obtain ⟨g, hg, rfl⟩ := List.mem_map.mp hn
      have := hnone g hg
      simp only [beq_iff_eq] at this
      simp only [beq_eq_false_iff_ne, ne_eq]
      exact fun h => this h.symm
    cases h2 : all.find? (fun f => foldName f.jsonName == foldName k) with
    | some f =>
      exfalso
      have hf := List.mem_of_find?_eq_some h2
      have hfold := List.find?_some h2
      simp only [beq_iff_eq] at hfold
      have := hk f.jsonName (hsub f hf) hfold.symm
      have h3 := hnone f hf
      simp [this] at h3
    | none => simp [hne]

theorem fieldVals_eq {all : List Field} (hsub : ∀ f ∈ all, f.jsonName ∈ keywordList) {name : String}
    (hn : name ∈ all.map (·.jsonName)) {out : List (String × Json)} (hk : ∀ m ∈ out, NameOK m.1) :
    fieldVals all name out = (out.filter (·.1 == name)).map (·.2) := by
  unfold fieldVals
  congr 1
  apply List.filter_congr
  intro m hm
  exact goesTo_eq hsub (hk m hm) hn

theorem lookupKey_none {ms : List (String × Json)} {n : String} (h : n ∉ keysOf ms) : lookupKey ms n = none := by
  unfold lookupKey
  rw [List.find?_eq_none.mpr]
  · rfl
  · intro m hm
    simp only [beq_iff_eq]
    intro heq
    exact h (by simp only [keysOf, List.mem_map]; exact ⟨m, hm, heq⟩)

theorem lookupKey_cons_ne {k n : String} {v : Json} {ms : List (String × Json)} (h : k ≠ n) :
    lookupKey ((k, v) :: ms) n = lookupKey ms n := by
  simp [lookupKey, List.find?_cons, h]

theorem lookupKey_cons_eq {k : String} {v : Json} {ms : List (String × Json)} :
    lookupKey ((k, v) :: ms) k = some v := by
  simp [lookupKey, List.find?_cons]

theorem filter_key_nodup {ms : List (String × Json)} (n : String) (h : (keysOf ms).Nodup) :
    (ms.filter (·.1 == n)).map (·.2) = (lookupKey ms n).toList := by
  induction ms with
  | nil => simp [lookupKey]
  | cons a rest ih =>
    obtain ⟨k, v⟩ := a
    simp only [keysOf, List.map_cons, List.nodup_cons] at h
    by_cases hk : k = n
    · subst hk
      have hnone : k ∉ keysOf rest := h.1
      have : rest.filter (·.1 == k) = [] := by
        apply List.filter_eq_nil_iff.mpr
        intro m hm
        simp only [beq_iff_eq]
        intro heq
        exact hnone (by simp only [keysOf, List.mem_map]; exact ⟨m, hm, heq⟩)
      simp [List.filter_cons, this, lookupKey_cons_eq]
    · rw [lookupKey_cons_ne hk]
      simp only [List.filter_cons, beq_iff_eq, hk, if_false]
      exact ih h.2

theorem lookupKey_mem {ms : List (String × Json)} {n : String} {v : Json} (h : lookupKey ms n = some v) : (n, v) ∈ ms := by
  unfold lookupKey at h
  cases hf : ms.find? (·.1 == n) with
  | none => simp [hf] at h
  | some m =>
    simp [hf] at h
    have h1 := List.mem_of_find?_eq_some hf
    have h2 := List.find?_some hf
    simp only [beq_iff_eq] at h2
    obtain ⟨k, w⟩ := m
    simp only at h2 h
    subst h2; subst h
    exact h1

theorem lookupKey_of_mem {ms : List (String × Json)} {n : String} {v : Json} (hnd : (keysOf ms).Nodup)
    (h : (n, v) ∈ ms) : lookupKey ms n = some v := by
  induction ms with
  | nil => simp at h
  | cons a rest ih =>
    obtain ⟨k, w⟩ := a
    simp only [keysOf, List.map_cons, List.nodup_cons] at hnd
    rcases List.mem_cons.mp h with heq | hmem
    · simp only [Prod.mk.injEq] at heq
      obtain ⟨rfl, rfl⟩ := heq
      exact lookupKey_cons_eq
    · have : k ≠ n := by
        intro heq; subst heq
        exact hnd.1 (by simp only [List.mem_map]; exact ⟨_, hmem, rfl⟩)
      rw [lookupKey_cons_ne this]
      exact ih hnd.2 hmem

theorem encodeField_key {f : Field} {st : Option Json} {m : String × Json} (h : encodeField f st = some m) :
    m.1 = f.jsonName := by
  unfold encodeField at h
  cases st with
  | none => simp only at h; split at h <;> simp at h; subst h; rfl
  | some j => simp only at h; split at h <;> simp at h; subst h; rfl

/-- **Lemma C**: the struct codec re-reads its own output (as seen through `fieldVals`) to the same output -/
theorem normFields_second {rec : Rec} (hr : RecGood rec) (all : List Field) (out : List (String × Json)) :
    ∀ (fs : List Field) (ms b : List (String × Json)), normFields rec all fs ms = .ok b →
      (fs.map (·.jsonName)).Nodup →
      (∀ f ∈ fs, fieldVals all f.jsonName out = (lookupKey b f.jsonName).toList) →
      (∀ m ∈ b, Clean m.2 ∧ m.2 ≠ .null) →
      normFields rec all fs out = .ok b := by
  intro fs
  induction fs with
  | nil => intro ms b h _ _ _; simpa [normFields] using h
  | cons f rest ih =>
    intro ms b h hnd hv hc
    simp only [normFields, bind, Except.bind] at h
    split at h
    · simp at h
    · rename_i st hst
      split at h
      · simp at h
      · rename_i rest' hrest'
        simp only [pure, Except.pure, Except.ok.injEq] at h
        simp only [List.map_cons, List.nodup_cons] at hnd
        have hsubl := (normFields_nd hr.nd all rest ms rest' hrest').1
        have hfnot : f.jsonName ∉ keysOf rest' := fun hm => hnd.1 (hsubl.subset hm)
        -- what `b` holds under the name of `f`, and under the names of the later fields
        have hb_f : lookupKey b f.jsonName = (encodeField f st).map (·.2) := by
          cases he : encodeField f st with
          | none => simp [he] at h; subst h; simpa using lookupKey_none hfnot
          | some m =>
            simp [he] at h; subst h
            obtain ⟨k, v⟩ := m
            have : k = f.jsonName := encodeField_key he
            subst this
            simp [lookupKey_cons_eq]
        have hb_rest : ∀ g ∈ rest, lookupKey b g.jsonName = lookupKey rest' g.jsonName := by
          intro g hg
          cases he : encodeField f st with
          | none => simp [he] at h; subst h; rfl
          | some m =>
            simp [he] at h; subst h
            obtain ⟨k, v⟩ := m
            have : k = f.jsonName := encodeField_key he
            subst this
            apply lookupKey_cons_ne
            intro heq
            exact hnd.1 (by simp only [List.mem_map]; exact ⟨g, hg, heq.symm⟩)
        have hrest_sub : ∀ m ∈ rest', m ∈ b := by
          intro m hm
          cases he : encodeField f st with
          | none => simp [he] at h; subst h; exact hm
          | some m' => simp [he] at h; subst h; exact List.mem_cons_of_mem _ hm
        have hIH := ih ms rest' hrest' hnd.2
          (fun g hg => by rw [hv g (by simp [hg]), hb_rest g hg])
          (fun m hm => hc m (hrest_sub m hm))
        have hcf : ∀ m, encodeField f st = some m → Clean m.2 ∧ m.2 ≠ .null := by
          intro m he
          apply hc
          simp [he] at h; subst h; simp
        obtain ⟨st', hst', he'⟩ := field_second hr f st (fieldState_img all f ms st hst) hcf
        have hfs : fieldState rec all f out = .ok st' := by
          unfold fieldState
          rw [hv f (by simp), hb_f]
          exact hst'
        simp only [normFields, bind, Except.bind, hfs, hIH, pure, Except.pure, he']
        rw [h]

end SpecModel.Codec
