/-
C07, whole documents: normalisation is idempotent.

    norm K j = ok j₁  →  Clean j₁  →  norm K j₁ = ok j₁

for every kind K, where `Clean` is a kind-agnostic, decidable condition on the OUTPUT of the first pass:
  * no object member, at any depth, has the value `null`  (a `null` written for an `omitempty` pointer field is
    read back as "absent": this is exactly how known finding K-C07-1, `items: true`, fails to be a fixed point);
  * no member name, at any depth, differs from a keyword of the model only by letter case (the property's own
    exception: `encoding/json` reads such a name as the keyword);
  * every number is exactly representable as a float64 (the model's domain);
  * every `$ref` / `$schema` text is a fixed point of the URL printing model (C13 is about that).

The proof re-runs the codec on its own output: every emitted member is read back by the field that emitted it
and by no other (names pairwise distinct across the parts of a kind: `norm_nd` and the table side conditions),
every field codec is the identity on its own image (`normFT_fixed`), the `omitempty` decision repeats, Go maps
are already sorted.  Side conditions on the GENERATED tables are collected in `IdemTablesOK` (`decide`).
-/
import SpecModel.Codec.NoDup
import SpecModel.Codec.SortLemmas
import SpecModel.Codec.UrlIdem

namespace SpecModel.Codec
open SpecModel

/-! ### the hypothesis on the output -/

/-- member names of all generated struct tables -/
def keywordList : List String := Gen.structs.flatMap fun e => tableNames e.2

/-- `k` is not a case variant of a keyword: whatever keyword it folds onto, it IS that keyword; and if it is a
vendor extension (`strings.HasPrefix(strings.ToLower(k), "x-")`) it is spelled with a lower-case `x-`
(`Responses.UnmarshalJSON` tests the prefix case-sensitively and would read `X-…` as a response) -/
def NameOK (k : String) : Prop :=
  (∀ n ∈ keywordList, foldName k = foldName n → k = n) ∧ (isExtKey k = true → hasXPrefix k = true)

mutual
  def Clean : Json → Prop
    | .num n => n.natAbs ≤ floatExact
    | .arr xs => CleanL xs
    | .obj ms => CleanM ms
    | _ => True
  def CleanL : List Json → Prop
    | [] => True
    | x :: xs => Clean x ∧ CleanL xs
  def CleanM : List (String × Json) → Prop
    | [] => True
    | (k, v) :: rest => NameOK k ∧ v ≠ .null ∧ Clean v ∧ CleanM rest
end

theorem cleanM_iff {ms : List (String × Json)} :
    CleanM ms ↔ ∀ m ∈ ms, NameOK m.1 ∧ m.2 ≠ .null ∧ Clean m.2 := by
  induction ms with
  | nil => simp [CleanM]
  | cons a rest ih =>
    obtain ⟨k, v⟩ := a
    simp only [CleanM, ih, List.mem_cons, forall_eq_or_imp]
    constructor
    · rintro ⟨h1, h2, h3, h5⟩; exact ⟨⟨h1, h2, h3⟩, h5⟩
    · rintro ⟨⟨h1, h2, h3⟩, h5⟩; exact ⟨h1, h2, h3, h5⟩

theorem cleanL_iff {xs : List Json} : CleanL xs ↔ ∀ x ∈ xs, Clean x := by
  induction xs with
  | nil => simp [CleanL]
  | cons a rest ih => simp [CleanL, ih]

/-! ### element-wise codecs on their own output -/

theorem mapR_fixed {f : Json → R Json} : ∀ (ys : List Json), (∀ y ∈ ys, f y = .ok y) → mapR f ys = .ok ys := by
  intro ys
  induction ys with
  | nil => intro _; rfl
  | cons y rest ih =>
    intro h
    simp [mapR, h y (by simp), ih (fun z hz => h z (by simp [hz])), bind, Except.bind, pure, Except.pure]

theorem mapMembersR_fixed {f : Json → R Json} : ∀ (ys : List (String × Json)), KeysSorted ys →
    (∀ m ∈ ys, f m.2 = .ok m.2) → mapMembersR f ys = .ok ys := by
  intro ys
  induction ys with
  | nil => intro _ _; rfl
  | cons a rest ih =>
    obtain ⟨k, v⟩ := a
    intro hs h
    have ⟨hk, hrest⟩ := keysSorted_cons.mp hs
    simp [mapMembersR, h (k, v) (by simp), ih hrest (fun m hm => h m (by simp [hm])), bind, Except.bind, pure,
      Except.pure, insertKeep_of_lt hk]

theorem mapR_mem {f : Json → R Json} : ∀ (xs ys : List Json), mapR f xs = .ok ys →
    ∀ y ∈ ys, ∃ x ∈ xs, f x = .ok y := by
  intro xs
  induction xs with
  | nil => intro ys h; simp [mapR, pure, Except.pure] at h; subst h; simp
  | cons x rest ih =>
    intro ys h
    simp only [mapR, bind, Except.bind] at h
    split at h
    · simp at h
    · rename_i y hy
      split at h
      · simp at h
      · rename_i ys' hys'
        simp only [pure, Except.pure, Except.ok.injEq] at h; subst h
        intro z hz
        rcases List.mem_cons.mp hz with rfl | hz
        · exact ⟨x, by simp, hy⟩
        · obtain ⟨x', hx', hf⟩ := ih ys' hys' z hz
          exact ⟨x', by simp [hx'], hf⟩

theorem insertKeep_mem {k : String} {v : Json} {acc : List (String × Json)} :
    ∀ m ∈ insertKeep k v acc, m = (k, v) ∨ m ∈ acc := by
  induction acc with
  | nil => intro m hm; simp [insertKeep] at hm; exact .inl hm
  | cons b acc' ih =>
    obtain ⟨l, w⟩ := b
    intro m hm
    unfold insertKeep at hm
    split at hm
    · simp at hm; rcases hm with h | h | h
      · exact .inl h
      · exact .inr (by simp [h])
      · exact .inr (by simp [h])
    · split at hm
      · exact .inr hm
      · simp at hm; rcases hm with h | h
        · exact .inr (by simp [h])
        · rcases ih m h with h2 | h2
          · exact .inl h2
          · exact .inr (by simp [h2])

theorem mapMembersR_mem {f : Json → R Json} : ∀ (ms ys : List (String × Json)), mapMembersR f ms = .ok ys →
    ∀ m ∈ ys, ∃ x ∈ ms, x.1 = m.1 ∧ f x.2 = .ok m.2 := by
  intro ms
  induction ms with
  | nil => intro ys h; simp [mapMembersR, pure, Except.pure] at h; subst h; simp
  | cons a rest ih =>
    obtain ⟨k, v⟩ := a
    intro ys h
    simp only [mapMembersR, bind, Except.bind] at h
    split at h
    · simp at h
    · rename_i w hw
      split at h
      · simp at h
      · rename_i acc hacc
        simp only [pure, Except.pure, Except.ok.injEq] at h; subst h
        intro m hm
        rcases insertKeep_mem m hm with rfl | hm
        · exact ⟨(k, v), by simp, rfl, hw⟩
        · obtain ⟨x, hx, h1, h2⟩ := ih acc hacc m hm
          exact ⟨x, by simp [hx], h1, h2⟩

theorem strElem_fixed {x y : Json} (h : strElem x = .ok y) : strElem y = .ok y := by
  cases x <;> simp [strElem, pure, Except.pure, goError] at h <;> subst h <;> rfl

theorem strsVal_fixed {x y : Json} (h : strsVal x = .ok y) : strsVal y = .ok y := by
  cases x with
  | arr xs =>
    simp only [strsVal, bind, Except.bind] at h
    split at h
    · simp at h
    · rename_i ys hys
      simp only [pure, Except.pure, Except.ok.injEq] at h; subst h
      have : mapR strElem ys = .ok ys := mapR_fixed ys (fun y hy => by
        obtain ⟨x, _, hx⟩ := mapR_mem xs ys hys y hy
        exact strElem_fixed hx)
      simp [strsVal, this, bind, Except.bind, pure, Except.pure]
  | null => simp [strsVal, pure, Except.pure] at h; subst h; rfl
  | bool _ => simp [strsVal, goError] at h
  | num _ => simp [strsVal, goError] at h
  | str _ => simp [strsVal, goError] at h
  | obj _ => simp [strsVal, goError] at h

theorem secReqVal_fixed {x y : Json} (h : secReqVal x = .ok y) : secReqVal y = .ok y := by
  cases x with
  | obj ms =>
    simp only [secReqVal, bind, Except.bind] at h
    split at h
    · simp at h
    · rename_i ys hys
      simp only [pure, Except.pure, Except.ok.injEq] at h; subst h
      have hs := (mapMembersR_nd (fun x y => strsVal_nd) ms ys hys).1
      have : mapMembersR strsVal ys = .ok ys := mapMembersR_fixed ys hs (fun m hm => by
        obtain ⟨x, _, _, hx⟩ := mapMembersR_mem ms ys hys m hm
        exact strsVal_fixed hx)
      simp [secReqVal, this, bind, Except.bind, pure, Except.pure]
  | null => simp [secReqVal, pure, Except.pure] at h; subst h; rfl
  | bool _ => simp [secReqVal, goError] at h
  | num _ => simp [secReqVal, goError] at h
  | str _ => simp [secReqVal, goError] at h
  | arr _ => simp [secReqVal, goError] at h

/-! ### what the recursion has to provide -/

structure RecGood (rec : Rec) : Prop where
  idem : ∀ t v r, rec t v = .ok r → Clean r → rec t r = .ok r
  isObj : ∀ k v r, rec (.kind k) v = .ok r → ∃ ms, r = .obj ms
  nd : RecND rec

theorem clean_arr {ys : List Json} (h : Clean (.arr ys)) : ∀ y ∈ ys, Clean y := by
  simpa [Clean] using cleanL_iff.mp (by simpa [Clean] using h)

theorem clean_obj {ys : List (String × Json)} (h : Clean (.obj ys)) :
    ∀ m ∈ ys, NameOK m.1 ∧ m.2 ≠ .null ∧ Clean m.2 := by
  simpa [Clean] using cleanM_iff.mp (by simpa [Clean] using h)

theorem ptrTo_fixed {rec : Rec} (hr : RecGood rec) (t : Target) {x y : Json} (h : ptrTo rec t x = .ok y)
    (hc : Clean y) (hn : y ≠ .null) : ptrTo rec t y = .ok y := by
  have h1 : rec t y = .ok y := by
    cases x with
    | null => simp [ptrTo, pure, Except.pure] at h; exact absurd h.symm hn
    | bool _ => exact hr.idem t _ _ (by simpa [ptrTo] using h) hc
    | num _ => exact hr.idem t _ _ (by simpa [ptrTo] using h) hc
    | str _ => exact hr.idem t _ _ (by simpa [ptrTo] using h) hc
    | arr _ => exact hr.idem t _ _ (by simpa [ptrTo] using h) hc
    | obj _ => exact hr.idem t _ _ (by simpa [ptrTo] using h) hc
  cases y with
  | null => exact absurd rfl hn
  | bool _ => simpa [ptrTo] using h1
  | num _ => simpa [ptrTo] using h1
  | str _ => simpa [ptrTo] using h1
  | arr _ => simpa [ptrTo] using h1
  | obj _ => simpa [ptrTo] using h1

/-- a list codec applied to its own (clean) output -/
theorem mapR_second {f : Json → R Json} {xs ys : List Json} (h : mapR f xs = .ok ys)
    (hf : ∀ x y, f x = .ok y → Clean y → f y = .ok y) (hc : ∀ y ∈ ys, Clean y) : mapR f ys = .ok ys :=
  mapR_fixed ys (fun y hy => by
    obtain ⟨x, _, hx⟩ := mapR_mem xs ys h y hy
    exact hf x y hx (hc y hy))

theorem mapMembersR_sorted {f : Json → R Json} : ∀ (ms ys : List (String × Json)), mapMembersR f ms = .ok ys →
    KeysSorted ys := by
  intro ms
  induction ms with
  | nil => intro ys h; simp [mapMembersR, pure, Except.pure] at h; subst h; exact keysSorted_nil
  | cons a rest ih =>
    obtain ⟨k, v⟩ := a
    intro ys h
    simp only [mapMembersR, bind, Except.bind] at h
    split at h
    · simp at h
    · split at h
      · simp at h
      · rename_i acc hacc
        simp only [pure, Except.pure, Except.ok.injEq] at h; subst h
        exact insertKeep_sorted _ _ (ih acc hacc)

theorem mapMembersR_second {f : Json → R Json} {ms ys : List (String × Json)} (h : mapMembersR f ms = .ok ys)
    (hf : ∀ x y, f x = .ok y → Clean y → y ≠ .null → f y = .ok y)
    (hc : ∀ m ∈ ys, Clean m.2 ∧ m.2 ≠ .null) : mapMembersR f ys = .ok ys :=
  mapMembersR_fixed ys (mapMembersR_sorted ms ys h) (fun m hm => by
    obtain ⟨x, _, _, hx⟩ := mapMembersR_mem ms ys h m hm
    exact hf x.2 m.2 hx (hc m hm).1 (hc m hm).2)

theorem normAnyList_idem {xs ys : List Json} (h : normAnyList xs = .ok ys) : normAnyList ys = .ok ys :=
  normAnyList_of_goAny ys (normAnyList_goAny xs ys h)

/-- **Lemma A**: a field codec is the identity on its own non-null, clean output -/
theorem normFT_fixed {rec : Rec} (hr : RecGood rec) (ft : FT) (v r : Json) (h : normFT rec ft v = .ok r)
    (hc : Clean r) (hn : r ≠ .null) : normFT rec ft r = .ok r := by
  unfold normFT at h
  split at h
  all_goals first
    | (simp only [pure, Except.pure, Except.ok.injEq] at h; subst h; rfl)
    | (simp [goError, outOfModel] at h; done)
    | skip
  -- int
  · unfold normInt64 at h; split at h
    · simp only [Except.ok.injEq] at h; subst h; simp [normFT, normInt64, *]
    · simp [goError] at h
  -- optInt
  · unfold normInt64 at h; split at h
    · simp only [Except.ok.injEq] at h; subst h; simp [normFT, normInt64, *]
    · simp [goError] at h
  -- float
  · have ⟨h1, h2⟩ := normFloat_ok h; subst h1; simp [normFT, normFloat, h2]
  -- optFloat
  · have ⟨h1, h2⟩ := normFloat_ok h; subst h1; simp [normFT, normFloat, h2]
  -- any
  · have := normAny_idem h
    simpa [normFT] using this
  -- strs
  · have := strsVal_fixed h
    simpa [normFT] using this
  -- anys
  · simp only [bind, Except.bind] at h
    split at h
    · simp at h
    · rename_i ys hys; simp only [pure, Except.pure, Except.ok.injEq] at h; subst h
      simp [normFT, normAnyList_idem hys, bind, Except.bind, pure, Except.pure]
  -- strMap
  · simp only [bind, Except.bind] at h
    split at h
    · simp at h
    · rename_i ys hys; simp only [pure, Except.pure, Except.ok.injEq] at h; subst h
      have := mapMembersR_second hys (fun x y hx _ _ => strElem_fixed hx)
        (fun m hm => ⟨(clean_obj hc m hm).2.2, (clean_obj hc m hm).2.1⟩)
      simp [normFT, this, bind, Except.bind, pure, Except.pure]
  -- anyMap
  · simp only [bind, Except.bind] at h
    split at h
    · simp at h
    · rename_i ys hys; simp only [pure, Except.pure, Except.ok.injEq] at h; subst h
      simp [normFT, normAnyMembers_idem hys, bind, Except.bind, pure, Except.pure]
  -- secReqs
  · simp only [bind, Except.bind] at h
    split at h
    · simp at h
    · rename_i ys hys; simp only [pure, Except.pure, Except.ok.injEq] at h; subst h
      have := mapR_second hys (fun x y hx _ => secReqVal_fixed hx) (clean_arr hc)
      simp [normFT, this, bind, Except.bind, pure, Except.pure]
  -- ptrKind
  · have := hr.idem _ _ _ h hc
    cases r <;> first | exact absurd rfl hn | simpa [normFT] using this
  -- valKind
  · have := hr.idem _ _ _ h hc
    cases r <;> first | exact absurd rfl hn | simpa [normFT] using this
  -- listKind
  · simp only [bind, Except.bind] at h
    split at h
    · simp at h
    · rename_i ys hys; simp only [pure, Except.pure, Except.ok.injEq] at h; subst h
      have := mapR_second hys (fun x y hx hy => hr.idem _ x y hx hy) (clean_arr hc)
      simp [normFT, this, bind, Except.bind, pure, Except.pure]
  -- mapKind
  · simp only [bind, Except.bind] at h
    split at h
    · simp at h
    · rename_i ys hys; simp only [pure, Except.pure, Except.ok.injEq] at h; subst h
      have := mapMembersR_second hys (fun x y hx hy _ => hr.idem _ x y hx hy)
        (fun m hm => ⟨(clean_obj hc m hm).2.2, (clean_obj hc m hm).2.1⟩)
      simp [normFT, this, bind, Except.bind, pure, Except.pure]
  -- ptrNamed
  · have := hr.idem _ _ _ h hc
    cases r <;> first | exact absurd rfl hn | simpa [normFT] using this
  -- mapNamed
  · simp only [bind, Except.bind] at h
    split at h
    · simp at h
    · rename_i ys hys; simp only [pure, Except.pure, Except.ok.injEq] at h; subst h
      have := mapMembersR_second hys (fun x y hx hy _ => hr.idem _ x y hx hy)
        (fun m hm => ⟨(clean_obj hc m hm).2.2, (clean_obj hc m hm).2.1⟩)
      simp [normFT, this, bind, Except.bind, pure, Except.pure]
  -- named
  · have := hr.idem _ _ _ h hc
    cases r <;> first | exact absurd rfl hn | simpa [normFT] using this
  -- SecurityDefinitions
  · simp only [bind, Except.bind] at h
    split at h
    · simp at h
    · rename_i ys hys; simp only [pure, Except.pure, Except.ok.injEq] at h; subst h
      have := mapMembersR_second hys (fun x y hx hy hn' => ptrTo_fixed hr _ hx hy hn')
        (fun m hm => ⟨(clean_obj hc m hm).2.2, (clean_obj hc m hm).2.1⟩)
      simp [normFT, this, bind, Except.bind, pure, Except.pure]


/-! ### one field of a struct, second pass -/

/-- the state of a field after decoding: zero, or an image of the field codec -/
def StImg (rec : Rec) (ft : FT) : Option Json → Prop
  | none => True
  | some j => (∃ v, normFT rec ft v = .ok j) ∨ (∃ k, ft = .valKind k ∧ rec (.kind k) .null = .ok j)

theorem decodeField_img {rec : Rec} (ft : FT) (cur st : Option Json) (v : Json)
    (hc : StImg rec ft cur) (h : decodeField rec ft cur v = .ok st) : StImg rec ft st := by
  unfold decodeField at h
  split at h
  · split at h
    · simp only [bind, Except.bind] at h
      split at h
      · simp at h
      · rename_i r hr'; simp only [pure, Except.pure, Except.ok.injEq] at h; subst h
        exact .inr ⟨_, rfl, hr'⟩
    · simp only [pure, Except.pure, Except.ok.injEq] at h; subst h
      split
      · exact hc
      · simp [StImg]
  · simp only [bind, Except.bind] at h
    split at h
    · simp at h
    · rename_i r hr'
      split at h
      · simp [outOfModel] at h
      · simp only [pure, Except.pure, Except.ok.injEq] at h; subst h
        exact .inl ⟨_, hr'⟩

theorem decodeAll_img {rec : Rec} (ft : FT) :
    ∀ (vs : List Json) (cur st : Option Json), StImg rec ft cur → decodeAll rec ft cur vs = .ok st → StImg rec ft st := by
  intro vs
  induction vs with
  | nil => intro cur st hc h; simp [decodeAll, pure, Except.pure] at h; subst h; exact hc
  | cons v rest ih =>
    intro cur st hc h
    simp only [decodeAll, bind, Except.bind] at h
    split at h
    · simp at h
    · rename_i st' hst'
      exact ih st' st (decodeField_img ft cur st' v hc hst') h

theorem fieldState_img {rec : Rec} (all : List Field) (f : Field) (ms : List (String × Json))
    (st : Option Json) (h : fieldState rec all f ms = .ok st) : StImg rec f.ft st :=
  decodeAll_img f.ft _ none st (by simp [StImg]) h

theorem stImg_fixed {rec : Rec} (hr : RecGood rec) {ft : FT} {j : Json} (hs : StImg rec ft (some j))
    (hc : Clean j) (hn : j ≠ .null) : normFT rec ft j = .ok j := by
  rcases hs with ⟨v, hv⟩ | ⟨k, hk, hv⟩
  · exact normFT_fixed hr ft v j hv hc hn
  · subst hk
    have := hr.idem _ _ _ hv hc
    cases j <;> first | exact absurd rfl hn | simpa [normFT] using this

theorem decodeOne {rec : Rec} {ft : FT} {j : Json} (hn : j ≠ .null) (h : normFT rec ft j = .ok j) :
    decodeAll rec ft none [j] = .ok (some j) := by
  cases j <;> first
    | exact absurd rfl hn
    | simp [decodeAll, decodeField, h, bind, Except.bind, pure, Except.pure]

/-- **Lemma B**: re-reading what a field wrote gives a state that writes the same again -/
theorem field_second {rec : Rec} (hr : RecGood rec) (f : Field) (st : Option Json) (hs : StImg rec f.ft st)
    (hc : ∀ m, encodeField f st = some m → Clean m.2 ∧ m.2 ≠ .null) :
    ∃ st', decodeAll rec f.ft none ((encodeField f st).map (·.2)).toList = .ok st' ∧
      encodeField f st' = encodeField f st := by
  cases st with
  | none =>
    cases hoe : f.omitEmpty with
    | true => exact ⟨none, by simp [encodeField, hoe, decodeAll, pure, Except.pure], rfl⟩
    | false =>
      have he : encodeField f none = some (f.jsonName, zeroEnc f.ft) := by simp [encodeField, hoe]
      have hz := (hc _ he).2
      refine ⟨some (zeroEnc f.ft), ?_, ?_⟩
      · rw [he]
        simp only [Option.map_some, Option.toList_some]
        apply decodeOne hz
        cases hft : f.ft <;> simp [hft, zeroEnc] at hz ⊢ <;>
          simp [normFT, normInt64, normFloat, floatExact, pure, Except.pure]
      · simp [encodeField, hoe]
  | some j =>
    cases he : encodeField f (some j) with
    | none =>
      refine ⟨none, by simp [decodeAll, pure, Except.pure], ?_⟩
      have : f.omitEmpty = true := by
        cases hoe : f.omitEmpty with
        | true => rfl
        | false => simp [encodeField, hoe] at he
      simp [encodeField, this]
    | some m =>
      have hm : m = (f.jsonName, j) := by
        unfold encodeField at he
        simp only at he
        split at he
        · simp at he
        · simpa using he.symm
      subst hm
      have ⟨h1, h2⟩ := hc _ he
      refine ⟨some j, ?_, he⟩
      simp only [Option.map_some, Option.toList_some]
      exact decodeOne h2 (stImg_fixed hr hs h1 h2)


/-! ### which member goes to which field, when no name is a case variant of a keyword -/

theorem goesTo_eq {all : List Field} (hsub : ∀ f ∈ all, f.jsonName ∈ keywordList) {k name : String}
    (hk : NameOK k) (hn : name ∈ all.map (·.jsonName)) : goesTo all name k = (k == name) := by
  unfold goesTo matchField
  cases h1 : all.find? (·.jsonName == k) with
  | some f =>
    have := List.find?_some h1
    simp only [beq_iff_eq] at this
    simp [this]
  | none =>
    have hnone := List.find?_eq_none.mp h1
    have hne : (k == name) = false := by
      obtain ⟨g, hg, rfl⟩ := List.mem_map.mp hn
      have := hnone g hg
      simp only [beq_iff_eq] at this
      simp only [beq_eq_false_iff_ne, ne_eq]
      exact fun h => this h.symm
    cases h2 : all.find? (fun f => foldName f.jsonName == foldName k) with
    | some f =>
      exfalso
      have hf := List.mem_of_find?_eq_some h2
      have hfold := List.find?_some h2
      simp only [beq_iff_eq] at hfold
      have := hk.1 f.jsonName (hsub f hf) hfold.symm
      have h3 := hnone f hf
      simp [this] at h3
    | none => simp [hne]

theorem fieldVals_eq {all : List Field} (hsub : ∀ f ∈ all, f.jsonName ∈ keywordList) {name : String}
    (hn : name ∈ all.map (·.jsonName)) {out : List (String × Json)} (hk : ∀ m ∈ out, NameOK m.1) :
    fieldVals all name out = (out.filter (·.1 == name)).map (·.2) := by
  unfold fieldVals
  congr 1
  apply List.filter_congr
  intro m hm
  exact goesTo_eq hsub (hk m hm) hn

theorem lookupKey_none {ms : List (String × Json)} {n : String} (h : n ∉ keysOf ms) : lookupKey ms n = none := by
  unfold lookupKey
  rw [List.find?_eq_none.mpr]
  · rfl
  · intro m hm
    simp only [beq_iff_eq]
    intro heq
    exact h (by simp only [keysOf, List.mem_map]; exact ⟨m, hm, heq⟩)

theorem lookupKey_cons_ne {k n : String} {v : Json} {ms : List (String × Json)} (h : k ≠ n) :
    lookupKey ((k, v) :: ms) n = lookupKey ms n := by
  simp [lookupKey, List.find?_cons, h]

theorem lookupKey_cons_eq {k : String} {v : Json} {ms : List (String × Json)} :
    lookupKey ((k, v) :: ms) k = some v := by
  simp [lookupKey, List.find?_cons]

theorem filter_key_nodup {ms : List (String × Json)} (n : String) (h : (keysOf ms).Nodup) :
    (ms.filter (·.1 == n)).map (·.2) = (lookupKey ms n).toList := by
  induction ms with
  | nil => simp [lookupKey]
  | cons a rest ih =>
    obtain ⟨k, v⟩ := a
    simp only [keysOf, List.map_cons, List.nodup_cons] at h
    by_cases hk : k = n
    · subst hk
      have hnone : k ∉ keysOf rest := h.1
      have : rest.filter (·.1 == k) = [] := by
        apply List.filter_eq_nil_iff.mpr
        intro m hm
        simp only [beq_iff_eq]
        intro heq
        exact hnone (by simp only [keysOf, List.mem_map]; exact ⟨m, hm, heq⟩)
      simp [List.filter_cons, this, lookupKey_cons_eq]
    · rw [lookupKey_cons_ne hk]
      simp only [List.filter_cons, beq_iff_eq, hk, if_false]
      exact ih h.2

theorem lookupKey_mem {ms : List (String × Json)} {n : String} {v : Json} (h : lookupKey ms n = some v) : (n, v) ∈ ms := by
  unfold lookupKey at h
  cases hf : ms.find? (·.1 == n) with
  | none => simp [hf] at h
  | some m =>
    simp [hf] at h
    have h1 := List.mem_of_find?_eq_some hf
    have h2 := List.find?_some hf
    simp only [beq_iff_eq] at h2
    obtain ⟨k, w⟩ := m
    simp only at h2 h
    subst h2; subst h
    exact h1

theorem lookupKey_of_mem {ms : List (String × Json)} {n : String} {v : Json} (hnd : (keysOf ms).Nodup)
    (h : (n, v) ∈ ms) : lookupKey ms n = some v := by
  induction ms with
  | nil => simp at h
  | cons a rest ih =>
    obtain ⟨k, w⟩ := a
    simp only [keysOf, List.map_cons, List.nodup_cons] at hnd
    rcases List.mem_cons.mp h with heq | hmem
    · simp only [Prod.mk.injEq] at heq
      obtain ⟨rfl, rfl⟩ := heq
      exact lookupKey_cons_eq
    · have : k ≠ n := by
        intro heq; subst heq
        exact hnd.1 (by simp only [List.mem_map]; exact ⟨_, hmem, rfl⟩)
      rw [lookupKey_cons_ne this]
      exact ih hnd.2 hmem

theorem encodeField_key {f : Field} {st : Option Json} {m : String × Json} (h : encodeField f st = some m) :
    m.1 = f.jsonName := by
  unfold encodeField at h
  cases st with
  | none => simp only at h; split at h <;> simp at h; subst h; rfl
  | some j => simp only at h; split at h <;> simp at h; subst h; rfl

/-- **Lemma C**: the struct codec re-reads its own output (as seen through `fieldVals`) to the same output -/
theorem normFields_second {rec : Rec} (hr : RecGood rec) (all : List Field) (out : List (String × Json)) :
    ∀ (fs : List Field) (ms b : List (String × Json)), normFields rec all fs ms = .ok b →
      (fs.map (·.jsonName)).Nodup →
      (∀ f ∈ fs, fieldVals all f.jsonName out = (lookupKey b f.jsonName).toList) →
      (∀ m ∈ b, Clean m.2 ∧ m.2 ≠ .null) →
      normFields rec all fs out = .ok b := by
  intro fs
  induction fs with
  | nil => intro ms b h _ _ _; simpa [normFields] using h
  | cons f rest ih =>
    intro ms b h hnd hv hc
    simp only [normFields, bind, Except.bind] at h
    split at h
    · simp at h
    · rename_i st hst
      split at h
      · simp at h
      · rename_i rest' hrest'
        simp only [pure, Except.pure, Except.ok.injEq] at h
        simp only [List.map_cons, List.nodup_cons] at hnd
        have hsubl := (normFields_nd hr.nd all rest ms rest' hrest').1
        have hfnot : f.jsonName ∉ keysOf rest' := fun hm => hnd.1 (hsubl.subset hm)
        -- what `b` holds under the name of `f`, and under the names of the later fields
        have hb_f : lookupKey b f.jsonName = (encodeField f st).map (·.2) := by
          cases he : encodeField f st with
          | none => simp [he] at h; subst h; simpa using lookupKey_none hfnot
          | some m =>
            simp [he] at h; subst h
            obtain ⟨k, v⟩ := m
            have : k = f.jsonName := encodeField_key he
            subst this
            simp [lookupKey_cons_eq]
        have hb_rest : ∀ g ∈ rest, lookupKey b g.jsonName = lookupKey rest' g.jsonName := by
          intro g hg
          cases he : encodeField f st with
          | none => simp [he] at h; subst h; rfl
          | some m =>
            simp [he] at h; subst h
            obtain ⟨k, v⟩ := m
            have : k = f.jsonName := encodeField_key he
            subst this
            apply lookupKey_cons_ne
            intro heq
            exact hnd.1 (by simp only [List.mem_map]; exact ⟨g, hg, heq.symm⟩)
        have hrest_sub : ∀ m ∈ rest', m ∈ b := by
          intro m hm
          cases he : encodeField f st with
          | none => simp [he] at h; subst h; exact hm
          | some m' => simp [he] at h; subst h; exact List.mem_cons_of_mem _ hm
        have hIH := ih ms rest' hrest' hnd.2
          (fun g hg => by rw [hv g (by simp [hg]), hb_rest g hg])
          (fun m hm => hc m (hrest_sub m hm))
        have hcf : ∀ m, encodeField f st = some m → Clean m.2 ∧ m.2 ≠ .null := by
          intro m he
          apply hc
          simp [he] at h; subst h; simp
        obtain ⟨st', hst', he'⟩ := field_second hr f st (fieldState_img all f ms st hst) hcf
        have hfs : fieldState rec all f out = .ok st' := by
          unfold fieldState
          rw [hv f (by simp), hb_f]
          exact hst'
        simp only [normFields, bind, Except.bind, hfs, hIH, pure, Except.pure, he']
        rw [h]


/-! ### who owns a member of the concatenated output -/

/-- part `d` may emit a member named `k` -/
def claims (d : PartDesc) (k : String) : Prop := k ∈ d.names ∨ (d.ext = true ∧ isExtKey k = true)

theorem partsOK_exclusive {d : PartDesc} {ds : List PartDesc} (hok : partsOK (d :: ds) = true) {k : String}
    (h1 : claims d k) : ¬ ∃ d' ∈ ds, claims d' k := by
  rintro ⟨d', hd', h2⟩
  simp only [partsOK, Bool.and_eq_true, decide_eq_true_eq, List.flatMap_cons, List.all_append] at hok
  obtain ⟨⟨hnd, hne⟩, hext⟩ := hok
  have hdis := (List.nodup_append.mp hnd).2.2
  have hmem : ∀ {k}, k ∈ d'.names → k ∈ ds.flatMap (·.names) := fun hk =>
    List.mem_flatMap.mpr ⟨d', hd', hk⟩
  rcases h1 with h1 | ⟨e1, x1⟩
  · rcases h2 with h2 | ⟨_, x2⟩
    · exact hdis k h1 k (hmem h2) rfl
    · have := List.all_eq_true.mp hne.1 k h1
      simp [x2] at this
  · rcases h2 with h2 | ⟨e2, _⟩
    · have := List.all_eq_true.mp hne.2 k (hmem h2)
      simp [x1] at this
    · simp only [List.filter_cons, e1, if_true, List.length_cons] at hext
      have : 0 < (ds.filter (·.ext)).length := List.length_pos_of_mem (List.mem_filter.mpr ⟨hd', e2⟩)
      omega

inductive OwnAll (out : List (String × Json)) : List PartDesc → List (List (String × Json)) → Prop
  | nil : OwnAll out [] []
  | cons {d ds p ps} : Conf d p → (∀ m ∈ p, m ∈ out) → (∀ m ∈ out, claims d m.1 → m ∈ p) → OwnAll out ds ps →
      OwnAll out (d :: ds) (p :: ps)

theorem confAll_claims {ds : List PartDesc} {ps : List (List (String × Json))} (h : ConfAll ds ps) :
    ∀ m ∈ ps.flatten, ∃ d ∈ ds, claims d m.1 := by
  intro m hm
  have : m.1 ∈ keysOf ps.flatten := by simp only [keysOf, List.mem_map]; exact ⟨m, hm, rfl⟩
  rcases confAll_mem_keys h m.1 this with h1 | ⟨h1, d, hd, he⟩
  · obtain ⟨d, hd, hk⟩ := List.mem_flatMap.mp h1
    exact ⟨d, hd, .inl hk⟩
  · exact ⟨d, hd, .inr ⟨he, h1⟩⟩

theorem ownAll_of_confAll {ds : List PartDesc} {ps : List (List (String × Json))} (h : ConfAll ds ps) :
    ∀ (out : List (String × Json)), partsOK ds = true → (∀ m ∈ ps.flatten, m ∈ out) →
      (∀ m ∈ out, m ∈ ps.flatten ∨ ¬ ∃ d ∈ ds, claims d m.1) → OwnAll out ds ps := by
  induction h with
  | nil => intro out _ _ _; exact .nil
  | @cons d ds p ps hc hrest ih =>
    intro out hok hsub hcov
    have hok' := partsOK_tail hok
    refine .cons hc (fun m hm => hsub m (by simp [hm])) ?_ (ih out hok' (fun m hm => hsub m (by simp [hm])) ?_)
    · intro m hm hcl
      rcases hcov m hm with h1 | h1
      · simp only [List.flatten_cons, List.mem_append] at h1
        rcases h1 with h1 | h1
        · exact h1
        · exact absurd (confAll_claims hrest m h1) (partsOK_exclusive hok hcl)
      · exact absurd ⟨d, by simp, hcl⟩ h1
    · intro m hm
      rcases hcov m hm with h1 | h1
      · simp only [List.flatten_cons, List.mem_append] at h1
        rcases h1 with h1 | h1
        · right
          have : claims d m.1 := by
            have := hc.2 m.1 (by simp only [keysOf, List.mem_map]; exact ⟨m, h1, rfl⟩)
            exact this
          exact partsOK_exclusive hok this
        · exact .inl h1
      · right
        rintro ⟨d', hd', hcl⟩
        exact h1 ⟨d', by simp [hd'], hcl⟩

/-- members of the output under a name that part `p` owns are looked up in `p` -/
theorem lookupKey_owner {out p : List (String × Json)} {n : String} (hnd : (keysOf out).Nodup)
    (hpnd : (keysOf p).Nodup) (hsub : ∀ m ∈ p, m ∈ out) (hown : ∀ m ∈ out, m.1 = n → m ∈ p) :
    lookupKey out n = lookupKey p n := by
  cases h1 : lookupKey out n with
  | some v =>
    have := hown _ (lookupKey_mem h1) rfl
    exact (lookupKey_of_mem hpnd this).symm
  | none =>
    cases h2 : lookupKey p n with
    | none => rfl
    | some v =>
      have := lookupKey_of_mem hnd (hsub _ (lookupKey_mem h2))
      rw [h1] at this; simp at this

/-! ### the generic map of the whole output -/

mutual
  theorem normAny_total : ∀ (j : Json), Clean j → ∃ j', normAny j = .ok j'
    | .num n, h => by
        have : n.natAbs ≤ floatExact := by simpa [Clean] using h
        exact ⟨.num n, by simp [normAny, normFloat, this]⟩
    | .arr xs, h => by
        obtain ⟨ys, hys⟩ := normAnyList_total xs (by simpa [Clean] using h)
        exact ⟨.arr ys, by simp [normAny, hys, bind, Except.bind, pure, Except.pure]⟩
    | .obj ms, h => by
        obtain ⟨ys, hys⟩ := normAnyMembers_total ms (by simpa [Clean] using h)
        exact ⟨.obj ys, by simp [normAny, hys, bind, Except.bind, pure, Except.pure]⟩
    | .null, _ => ⟨_, rfl⟩
    | .bool _, _ => ⟨_, rfl⟩
    | .str _, _ => ⟨_, rfl⟩
  theorem normAnyList_total : ∀ (xs : List Json), CleanL xs → ∃ ys, normAnyList xs = .ok ys
    | [], _ => ⟨[], rfl⟩
    | x :: xs, h => by
        have h' : Clean x ∧ CleanL xs := by simpa [CleanL] using h
        obtain ⟨y, hy⟩ := normAny_total x h'.1
        obtain ⟨ys, hys⟩ := normAnyList_total xs h'.2
        exact ⟨y :: ys, by simp [normAnyList, hy, hys, bind, Except.bind, pure, Except.pure]⟩
  theorem normAnyMembers_total : ∀ (ms : List (String × Json)), CleanM ms → ∃ ys, normAnyMembers ms = .ok ys
    | [], _ => ⟨[], rfl⟩
    | (k, v) :: rest, h => by
        have h' : Clean v ∧ CleanM rest := by
          simp only [CleanM] at h; exact ⟨h.2.2.1, h.2.2.2⟩
        obtain ⟨w, hw⟩ := normAny_total v h'.1
        obtain ⟨acc, hacc⟩ := normAnyMembers_total rest h'.2
        exact ⟨insertKeep k w acc, by simp [normAnyMembers, hw, hacc, bind, Except.bind, pure, Except.pure]⟩
end

theorem mem_insertKeep_of_not_key {k : String} {v : Json} {acc : List (String × Json)} (h : k ∉ keysOf acc) :
    ∀ m, m ∈ insertKeep k v acc ↔ m = (k, v) ∨ m ∈ acc := by
  induction acc with
  | nil => intro m; simp [insertKeep]
  | cons b acc' ih =>
    obtain ⟨l, w⟩ := b
    simp only [keysOf, List.map_cons, List.mem_cons, not_or] at h
    intro m
    unfold insertKeep
    split
    · simp
    · split
      · rename_i heq; exact absurd heq h.1
      · simp only [List.mem_cons, ih h.2 m]
        constructor
        · rintro (h1 | h1 | h1)
          · exact .inr (.inl h1)
          · exact .inl h1
          · exact .inr (.inr h1)
        · rintro (h1 | h1 | h1)
          · exact .inr (.inl h1)
          · exact .inl h1
          · exact .inr (.inr h1)

/-- the generic decode of an object without duplicate names: sorted, and member for member the `normAny` image -/
theorem normAnyMembers_char : ∀ (ms d : List (String × Json)), (keysOf ms).Nodup → normAnyMembers ms = .ok d →
    KeysSorted d ∧ (∀ k ∈ keysOf d, k ∈ keysOf ms) ∧
      ∀ m, m ∈ d ↔ ∃ x ∈ ms, x.1 = m.1 ∧ normAny x.2 = .ok m.2 := by
  intro ms
  induction ms with
  | nil =>
    intro d _ h
    simp [normAnyMembers, pure, Except.pure] at h; subst h
    exact ⟨keysSorted_nil, by simp [keysOf], by simp⟩
  | cons a rest ih =>
    obtain ⟨k, v⟩ := a
    intro d hnd h
    simp only [keysOf, List.map_cons, List.nodup_cons] at hnd
    simp only [normAnyMembers, bind, Except.bind] at h
    split at h
    · simp at h
    · rename_i w hw
      split at h
      · simp at h
      · rename_i acc hacc
        simp only [pure, Except.pure, Except.ok.injEq] at h; subst h
        have ⟨i1, i2, i3⟩ := ih acc hnd.2 hacc
        have hk : k ∉ keysOf acc := fun hm => hnd.1 (i2 k hm)
        refine ⟨insertKeep_sorted k w i1, ?_, ?_⟩
        · intro k' hk'
          have := keysOf_insertKeep_subset k w acc k' hk'
          simp only [keysOf, List.map_cons, List.mem_cons] at this ⊢
          rcases this with h1 | h1
          · exact .inl h1
          · exact .inr (i2 k' h1)
        · intro m
          rw [mem_insertKeep_of_not_key hk m, i3 m]
          constructor
          · rintro (h1 | ⟨x, hx, h1, h2⟩)
            · subst h1; exact ⟨(k, v), by simp, rfl, hw⟩
            · exact ⟨x, by simp [hx], h1, h2⟩
          · rintro ⟨x, hx, h1, h2⟩
            rcases List.mem_cons.mp hx with rfl | hx
            · left
              simp only at h1 h2
              rw [hw] at h2
              simp only [Except.ok.injEq] at h2
              obtain ⟨mk, mv⟩ := m
              simp only at h1 h2
              rw [h1, h2]
            · exact .inr ⟨x, hx, h1, h2⟩

theorem keysSorted_pairwise {ms : List (String × Json)} (h : KeysSorted ms) :
    ms.Pairwise (fun a b => a.1 < b.1) := by
  simpa [KeysSorted, List.pairwise_map] using h

/-- two sorted association lists with the same members are the same list -/
theorem sorted_ext {a b : List (String × Json)} (ha : KeysSorted a) (hb : KeysSorted b)
    (h : ∀ m, m ∈ a ↔ m ∈ b) : a = b := by
  have nd : ∀ {l : List (String × Json)}, KeysSorted l → l.Nodup := fun hl =>
    (keysSorted_pairwise hl).imp (fun {x y} hxy heq => by subst heq; exact String.lt_irrefl _ hxy)
  have hp := (List.perm_ext_iff_of_nodup (nd ha) (nd hb)).mpr h
  exact eq_of_perm_of_pairwise (fun x y h1 h2 => String.lt_asymm h1 h2)
    (keysSorted_pairwise ha) (keysSorted_pairwise hb) hp


/-! ### the parts of a concatenated kind, second pass -/

theorem cleanM_names {out : List (String × Json)} (h : CleanM out) : ∀ m ∈ out, NameOK m.1 :=
  fun m hm => (cleanM_iff.mp h m hm).1

theorem cleanM_vals {out : List (String × Json)} (h : CleanM out) : ∀ m ∈ out, Clean m.2 ∧ m.2 ≠ .null :=
  fun m hm => ⟨(cleanM_iff.mp h m hm).2.2, (cleanM_iff.mp h m hm).2.1⟩

theorem mem_keysOf {ms : List (String × Json)} {m : String × Json} (h : m ∈ ms) : m.1 ∈ keysOf ms := by
  simp only [keysOf, List.mem_map]; exact ⟨m, h, rfl⟩

theorem normFields_second_part {rec : Rec} (hr : RecGood rec) {all fs : List Field}
    (hkw : ∀ f ∈ all, f.jsonName ∈ keywordList) (hfs : ∀ f ∈ fs, f.jsonName ∈ all.map (·.jsonName))
    (hnd : (fs.map (·.jsonName)).Nodup) {ms b out : List (String × Json)}
    (h : normFields rec all fs ms = .ok b) (hout : (keysOf out).Nodup) (hclean : CleanM out)
    (hbsub : ∀ m ∈ b, m ∈ out) (hown : ∀ m ∈ out, m.1 ∈ fs.map (·.jsonName) → m ∈ b) :
    normFields rec all fs out = .ok b := by
  have hbnd : (keysOf b).Nodup := hnd.sublist (normFields_nd hr.nd all fs ms b h).1
  refine normFields_second hr all out fs ms b h hnd ?_ (fun m hm => cleanM_vals hclean m (hbsub m hm))
  intro f hf
  have hn : f.jsonName ∈ all.map (·.jsonName) := hfs f hf
  rw [fieldVals_eq hkw hn (cleanM_names hclean), filter_key_nodup _ hout]
  congr 1
  apply lookupKey_owner hout hbnd hbsub
  intro m hm heq
  exact hown m hm (by rw [heq]; exact List.mem_map.mpr ⟨f, hf, rfl⟩)

theorem keysSorted_filter {d : List (String × Json)} (q : String × Json → Bool) (h : KeysSorted d) :
    KeysSorted (d.filter q) := by
  unfold KeysSorted at *
  exact h.sublist ((List.filter_sublist (l := d)).map _)

theorem genericFilter_second {out d b : List (String × Json)} (q : String → Bool) (hout : (keysOf out).Nodup)
    (hd : normAnyMembers out = .ok d) (hbs : KeysSorted b) (hbg : GoAnyM b) (hbsub : ∀ m ∈ b, m ∈ out)
    (hbq : ∀ m ∈ b, q m.1 = true) (hown : ∀ m ∈ out, q m.1 = true → m ∈ b) :
    d.filter (fun m => q m.1) = b := by
  have ⟨c1, _, c3⟩ := normAnyMembers_char out d hout hd
  apply sorted_ext (keysSorted_filter _ c1) hbs
  intro m
  simp only [List.mem_filter, c3 m]
  constructor
  · rintro ⟨⟨x, hx, h1, h2⟩, hq⟩
    have hxb := hown x hx (by rw [h1]; exact hq)
    have := normAny_of_goAny x.2 (goAnyM_iff.mp hbg x hxb)
    rw [this] at h2
    simp only [Except.ok.injEq] at h2
    have : m = x := by
      obtain ⟨a, b'⟩ := m; obtain ⟨c, d'⟩ := x
      simp only at h1 h2; rw [h1, h2]
    rw [this]; exact hxb
  · intro hm
    exact ⟨⟨m, hbsub m hm, rfl, normAny_of_goAny m.2 (goAnyM_iff.mp hbg m hm)⟩, hbq m hm⟩

theorem lookupKey_generic_some {out d : List (String × Json)} (hout : (keysOf out).Nodup)
    (hd : normAnyMembers out = .ok d) {k : String} {v : Json} (hm : (k, v) ∈ out) (hv : normAny v = .ok v) :
    lookupKey d k = some v := by
  have ⟨c1, _, c3⟩ := normAnyMembers_char out d hout hd
  exact lookupKey_of_mem (keysSorted_nodup c1) ((c3 (k, v)).mpr ⟨(k, v), hm, rfl, hv⟩)

theorem lookupKey_generic_none {out d : List (String × Json)} (hout : (keysOf out).Nodup)
    (hd : normAnyMembers out = .ok d) {k : String} (hk : k ∉ keysOf out) : lookupKey d k = none := by
  have ⟨_, c2, _⟩ := normAnyMembers_char out d hout hd
  exact lookupKey_none (fun h => hk (c2 k h))

theorem genericMap_goAny {j : Json} {d : List (String × Json)} (h : genericMap j = .ok d) :
    KeysSorted d ∧ GoAnyM d := by
  cases j <;> simp [genericMap, pure, Except.pure, goError] at h
  · subst h; exact ⟨keysSorted_nil, by simp [GoAnyM]⟩
  · exact normAnyMembers_goAny _ _ h

theorem goAnyM_filter {d : List (String × Json)} (q : String × Json → Bool) (h : GoAnyM d) : GoAnyM (d.filter q) :=
  goAnyM_iff.mpr (fun m hm => goAnyM_iff.mp h m (List.mem_filter.mp hm).1)

theorem normExtensions_second {j : Json} {b out : List (String × Json)} (h : normExtensions j = .ok b)
    (hout : (keysOf out).Nodup) (hclean : CleanM out) (hbsub : ∀ m ∈ b, m ∈ out)
    (hown : ∀ m ∈ out, isExtKey m.1 = true → m ∈ b) : normExtensions (.obj out) = .ok b := by
  simp only [normExtensions, bind, Except.bind] at h
  split at h
  · simp at h
  · rename_i d0 hd0
    simp only [pure, Except.pure, Except.ok.injEq] at h
    obtain ⟨d, hd⟩ := normAnyMembers_total out hclean
    have ⟨g1, g2⟩ := genericMap_goAny hd0
    have := genericFilter_second isExtKey hout hd (b := b) (by rw [← h]; exact keysSorted_filter _ g1)
      (by rw [← h]; exact goAnyM_filter _ g2) hbsub
      (by rw [← h]; intro m hm; exact (List.mem_filter.mp hm).2) hown
    simp [normExtensions, genericMap, hd, bind, Except.bind, pure, Except.pure, this]

/-- the text `Ref.MarshalJSON` prints is one the URL printing model leaves alone (`urlString_idem`): this is what
the hypothesis `RefTextOK` of earlier versions of `Clean` asked of the output -/
theorem refOfMap_shape_fixed {strict : Bool} {d out : List (String × Json)} (h : refOfMap strict d = .ok out) :
    out = [] ∨ ∃ t, out = [("$ref", .str t)] ∧ urlString t = .ok t := by
  unfold refOfMap at h
  split at h
  · split at h
    · rename_i hus
      simp only [pure, Except.pure, Except.ok.injEq] at h
      exact .inr ⟨_, h.symm, urlString_idem hus⟩
    · split at h
      · simp [goError] at h
      · simp [pure, Except.pure] at h; exact .inl h
    · simp [outOfModel] at h
  · simp [pure, Except.pure] at h; exact .inl h

theorem str_goAny_fixed (t : String) : normAny (.str t) = .ok (.str t) := rfl

theorem refOfMap_second {strict : Bool} {d0 b out d : List (String × Json)} (h : refOfMap strict d0 = .ok b)
    (hout : (keysOf out).Nodup) (hclean : CleanM out) (hd : normAnyMembers out = .ok d)
    (hbsub : ∀ m ∈ b, m ∈ out) (hown : ∀ m ∈ out, m.1 = "$ref" → m ∈ b) : refOfMap strict d = .ok b := by
  rcases refOfMap_shape_fixed h with rfl | ⟨t, rfl, hu⟩
  · have : "$ref" ∉ keysOf out := by
      intro hk
      simp only [keysOf, List.mem_map] at hk
      obtain ⟨m, hm, heq⟩ := hk
      have := hown m hm heq
      simp at this
    simp [refOfMap, lookupKey_generic_none hout hd this, pure, Except.pure]
  · have hm := hbsub ("$ref", .str t) (by simp)
    simp [refOfMap, lookupKey_generic_some hout hd hm (str_goAny_fixed t), hu, pure, Except.pure]

theorem normRefable_second {j : Json} {b out : List (String × Json)} (h : normRefable j = .ok b)
    (hout : (keysOf out).Nodup) (hclean : CleanM out) (hbsub : ∀ m ∈ b, m ∈ out)
    (hown : ∀ m ∈ out, m.1 = "$ref" → m ∈ b) : normRefable (.obj out) = .ok b := by
  simp only [normRefable, bind, Except.bind] at h
  split at h
  · simp at h
  · obtain ⟨d, hd⟩ := normAnyMembers_total out hclean
    have := refOfMap_second h hout hclean hd hbsub hown
    simp [normRefable, genericMap, hd, bind, Except.bind, this]

theorem lookupStruct_mem (n : String) : lookupStruct Gen.structs n = [] ∨ ∃ e ∈ Gen.structs, e.2 = lookupStruct Gen.structs n := by
  unfold lookupStruct
  cases hf : Gen.structs.find? (·.1 == n) with
  | none => left; rfl
  | some e => right; exact ⟨e, List.mem_of_find?_eq_some hf, rfl⟩

theorem lookupStruct_keywords (n : String) : ∀ f ∈ visible (lookupStruct Gen.structs n), f.jsonName ∈ keywordList := by
  intro f hf
  rcases lookupStruct_mem n with h | ⟨e, he, h⟩
  · rw [h] at hf; simp [visible] at hf
  · unfold keywordList
    refine List.mem_flatMap.mpr ⟨e, he, ?_⟩
    rw [h]
    exact List.mem_map.mpr ⟨f, hf, rfl⟩

theorem normStruct_second {rec : Rec} (hr : RecGood rec) (hT : tablesNodup Gen.structs = true) (n : String)
    {j : Json} {b out : List (String × Json)} (h : normStruct rec (lookupStruct Gen.structs n) j = .ok b)
    (hout : (keysOf out).Nodup) (hclean : CleanM out) (hbsub : ∀ m ∈ b, m ∈ out)
    (hown : ∀ m ∈ out, m.1 ∈ tableNames (lookupStruct Gen.structs n) → m ∈ b) :
    normStruct rec (lookupStruct Gen.structs n) (.obj out) = .ok b := by
  simp only [normStruct, bind, Except.bind] at h
  split at h
  · simp at h
  · have := normFields_second_part hr (lookupStruct_keywords n) (fun f hf => List.mem_map.mpr ⟨f, hf, rfl⟩) (lookupStruct_nodup hT n) h
      hout hclean hbsub hown
    simpa [normStruct, structMembers, bind, Except.bind, pure, Except.pure] using this


theorem normOperationProps_second {rec : Rec} (hr : RecGood rec) (hT : tablesNodup Gen.structs = true)
    {j : Json} {b out : List (String × Json)} (h : normOperationProps rec j = .ok b)
    (hout : (keysOf out).Nodup) (hclean : CleanM out) (hbsub : ∀ m ∈ b, m ∈ out)
    (hown : ∀ m ∈ out, m.1 ∈ tableNames (lookupStruct Gen.structs "OperationProps") → m ∈ b) :
    normOperationProps rec (.obj out) = .ok b := by
  have hn := lookupStruct_nodup hT "OperationProps"
  have hkw : ∀ f ∈ tableOf "OperationProps", f.jsonName ∈ keywordList := lookupStruct_keywords "OperationProps"
  simp only [normOperationProps, bind, Except.bind] at h
  split at h
  · simp at h
  · rename_i ms _
    split at h
    · simp at h
    · rename_i others hothers
      have ⟨ho1, _⟩ := normFields_nd hr.nd _ _ _ _ hothers
      have hsubl : ((tableOf "OperationProps").filter (·.jsonName != "security")).map (·.jsonName) |>.Sublist
          (tableNames (lookupStruct Gen.structs "OperationProps")) := by
        simp only [tableNames, tableOf]
        exact (List.filter_sublist).map _
      have hno : ∀ m ∈ others, m.1 ≠ "security" := by
        intro m hm heq
        have := ho1.subset (mem_keysOf hm)
        simp only [List.mem_map, List.mem_filter] at this
        obtain ⟨f, ⟨_, hf⟩, hfe⟩ := this
        rw [heq] at hfe
        simp [hfe] at hf
      have hnames_no : ∀ k ∈ ((tableOf "OperationProps").filter (·.jsonName != "security")).map (·.jsonName),
          k ≠ "security" := by
        intro k hk heq
        simp only [List.mem_map, List.mem_filter] at hk
        obtain ⟨f, ⟨_, hf⟩, hfe⟩ := hk
        rw [heq] at hfe
        simp [hfe] at hf
      -- the second pass of the `others`
      have hothers2 : ∀ (sec : List (String × Json)), b = sec ++ others → (∀ m ∈ sec, m.1 = "security") →
          normFields rec (tableOf "OperationProps") ((tableOf "OperationProps").filter (·.jsonName != "security")) out
            = .ok others := by
        intro sec hb hsec
        refine normFields_second_part hr hkw (fun f hf => List.mem_map.mpr ⟨f, (List.mem_filter.mp hf).1, rfl⟩) (hn.sublist hsubl) hothers
          hout hclean (fun m hm => hbsub m (by rw [hb]; simp [hm])) ?_
        intro m hm hk
        have := hown m hm (hsubl.subset hk)
        rw [hb] at this
        rcases List.mem_append.mp this with h1 | h1
        · exact absurd (hsec m h1) (hnames_no _ hk)
        · exact h1
      split at h
      · rename_i f hf
        have hfname : f.jsonName = "security" := by simpa using List.find?_some hf
        have hfmem : f ∈ tableOf "OperationProps" := List.mem_of_find?_eq_some hf
        split at h
        · simp at h
        · rename_i st hst
          simp only [pure, Except.pure, Except.ok.injEq] at h
          have hvals : fieldVals (tableOf "OperationProps") f.jsonName out = (lookupKey out "security").toList := by
            rw [fieldVals_eq hkw (List.mem_map.mpr ⟨f, hfmem, rfl⟩) (cleanM_names hclean), filter_key_nodup _ hout,
              hfname]
          cases st with
          | none =>
            simp only [List.nil_append] at h
            have ho2 := hothers2 [] (by simpa using h.symm) (by simp)
            have hnokey : "security" ∉ keysOf out := by
              intro hk
              simp only [keysOf, List.mem_map] at hk
              obtain ⟨m, hm, heq⟩ := hk
              have hmb := hown m hm (by
                rw [heq, ← hfname]; exact List.mem_map.mpr ⟨f, hfmem, rfl⟩)
              rw [← h] at hmb
              exact hno m hmb heq
            have hst2 : fieldState rec (tableOf "OperationProps") f out = .ok none := by
              unfold fieldState
              rw [hvals, lookupKey_none hnokey]
              rfl
            simp only [normOperationProps, structMembers, bind, Except.bind, pure, Except.pure, ho2, hf, hst2]
            rw [← h]; rfl
          | some v =>
            have hb : b = [("security", v)] ++ others := by simpa using h.symm
            have ho2 := hothers2 [("security", v)] hb (by simp)
            have hmem : (("security", v) : String × Json) ∈ out := hbsub _ (by rw [hb]; simp)
            have ⟨hcv, hnv⟩ := cleanM_vals hclean _ hmem
            have hst2 : fieldState rec (tableOf "OperationProps") f out = .ok (some v) := by
              unfold fieldState
              rw [hvals, lookupKey_of_mem hout hmem]
              exact decodeOne hnv (stImg_fixed hr (fieldState_img _ f ms _ hst) hcv hnv)
            simp only [normOperationProps, structMembers, bind, Except.bind, pure, Except.pure, ho2, hf, hst2]
            rw [hb]
      · simp only [pure, Except.pure, Except.ok.injEq, List.nil_append] at h
        have ho2 := hothers2 [] (by simpa using h.symm) (by simp)
        rename_i hf
        simp only [normOperationProps, structMembers, bind, Except.bind, pure, Except.pure, ho2, hf]
        rw [← h]; rfl

/-- every part of a regular kind re-reads the concatenated output to itself -/
theorem normPart_second {rec : Rec} (hr : RecGood rec) (hT : tablesNodup Gen.structs = true) (p : String)
    {j : Json} {b out : List (String × Json)} (h : normPart rec p j = .ok b)
    (hout : (keysOf out).Nodup) (hclean : CleanM out) (hbsub : ∀ m ∈ b, m ∈ out)
    (hown : ∀ m ∈ out, claims (descOf p) m.1 → m ∈ b) : normPart rec p (.obj out) = .ok b := by
  unfold normPart at h ⊢
  unfold descOf at hown
  split at h
  · rename_i hp
    simp only [hp, if_true] at hown ⊢
    exact normExtensions_second h hout hclean hbsub (fun m hm hx => hown m hm (.inr ⟨rfl, hx⟩))
  · rename_i hp1
    split at h
    · rename_i hp
      simp only [hp1, hp, if_true] at hown ⊢
      exact normRefable_second h hout hclean hbsub (fun m hm hx => hown m hm (.inl (by simp [hx])))
    · rename_i hp2
      split at h
      · rename_i hp
        have : p = "OperationProps" := by simpa using hp
        subst this
        simp only [hp1, hp2, if_false, if_true] at hown ⊢
        exact normOperationProps_second hr hT h hout hclean hbsub (fun m hm hx => hown m hm (.inl hx))
      · rename_i hp3
        simp only [hp1, hp2, hp3, if_false] at hown ⊢
        exact normStruct_second hr hT p h hout hclean hbsub (fun m hm hx => hown m hm (.inl hx))

theorem normParts_second {rec : Rec} (hr : RecGood rec) (hT : tablesNodup Gen.structs = true) (j : Json)
    {out : List (String × Json)} (hout : (keysOf out).Nodup) (hclean : CleanM out) :
    ∀ (ps : List String) (bs : List (List (String × Json))), normParts rec j ps = .ok bs →
      OwnAll out (ps.map descOf) bs → normParts rec (.obj out) ps = .ok bs := by
  intro ps
  induction ps with
  | nil => intro bs h _; simpa [normParts] using h
  | cons p rest ih =>
    intro bs h hown
    simp only [normParts, bind, Except.bind] at h
    split at h
    · simp at h
    · rename_i b hb
      split at h
      · simp at h
      · rename_i bs' hbs'
        simp only [pure, Except.pure, Except.ok.injEq] at h; subst h
        cases hown with
        | cons _ hsub hcl hrest =>
          have h1 := normPart_second hr hT p hb hout hclean hsub hcl
          have h2 := ih bs' hbs' hrest
          simp [normParts, h1, h2, bind, Except.bind, pure, Except.pure]


/-! ### the regular kinds -/

theorem clean_concat {ps : List (List (String × Json))} (h : Clean (concatMembers ps)) : CleanM ps.flatten := by
  rw [concatMembers_eq] at h; simpa [Clean] using h

/-- parts of a regular kind that are decoded but never encoded (the tables have none) -/
def deadTargets (ki : KindInfo) : List String := ki.unmarshalTargets.filter fun p => !ki.marshalParts.contains p

theorem normConcatKind_second {rec : Rec} (hr : RecGood rec) (hT : tablesNodup Gen.structs = true) (ki : KindInfo)
    (hk : partsOK ((liveParts ki).map descOf) = true) (hdead : deadTargets ki = [])
    {j r : Json} (h : normConcatKind rec ki j = .ok r) (hc : Clean r) : normConcatKind rec ki r = .ok r := by
  simp only [normConcatKind, bind, Except.bind] at h
  split at h
  · simp at h
  · split at h
    · simp at h
    · rename_i bs hbs
      split at h
      · simp at h
      · rename_i zs hzs
        simp only [pure, Except.pure, Except.ok.injEq] at h; subst h
        have ⟨c1, _⟩ := normParts_conf hr.nd hT j _ bs hbs
        have hout := confAll_nodup c1 hk
        have hclean := clean_concat hc
        have hown := ownAll_of_confAll c1 bs.flatten hk (fun m hm => hm) (fun m hm => .inl hm)
        have h2 := normParts_second hr hT j hout hclean _ bs hbs hown
        have hd : ki.unmarshalTargets.filter (fun p => !ki.marshalParts.contains p) = [] := hdead
        rw [concatMembers_eq]
        simp only [normConcatKind, bind, Except.bind, hd, normParts, pure, Except.pure, h2, hzs]
        rw [concatMembers_eq]

theorem normReflect_second {rec : Rec} (hr : RecGood rec) (hT : tablesNodup Gen.structs = true) (n : String)
    {j : Json} {ms : List (String × Json)} (h : normStruct rec (lookupStruct Gen.structs n) j = .ok ms)
    (hc : Clean (.obj ms)) : normStruct rec (lookupStruct Gen.structs n) (.obj ms) = .ok ms := by
  have ⟨h1, _⟩ := normStruct_nd hr.nd _ j ms h
  exact normStruct_second hr hT n h ((lookupStruct_nodup hT n).sublist h1) (by simpa [Clean] using hc)
    (fun m hm => hm) (fun m hm _ => hm)


/-! ### Schema -/

theorem schemaURLOfMap_shape' {d out : List (String × Json)} (h : schemaURLOfMap d = .ok out) :
    out = [] ∨ ∃ t, t ≠ "" ∧ out = [("$schema", .str t)] ∧ urlString t = .ok t := by
  unfold schemaURLOfMap at h
  split at h
  · split at h
    · rename_i hus
      simp only [pure, Except.pure, Except.ok.injEq] at h
      split at h
      · exact .inl h.symm
      · rename_i hne; exact .inr ⟨_, by simpa using hne, h.symm, urlString_idem hus⟩
    · simp only [pure, Except.pure, Except.ok.injEq] at h; exact .inl h.symm
    · simp [outOfModel] at h
  · simp only [pure, Except.pure, Except.ok.injEq] at h; exact .inl h.symm

theorem schemaURLOfMap_second {d0 b out d : List (String × Json)} (h : schemaURLOfMap d0 = .ok b)
    (hout : (keysOf out).Nodup) (hclean : CleanM out) (hd : normAnyMembers out = .ok d)
    (hbsub : ∀ m ∈ b, m ∈ out) (hown : ∀ m ∈ out, m.1 = "$schema" → m ∈ b) : schemaURLOfMap d = .ok b := by
  rcases schemaURLOfMap_shape' h with rfl | ⟨t, hne, rfl, hu⟩
  · have : "$schema" ∉ keysOf out := by
      intro hk
      simp only [keysOf, List.mem_map] at hk
      obtain ⟨m, hm, heq⟩ := hk
      have := hown m hm heq
      simp at this
    simp [schemaURLOfMap, lookupKey_generic_none hout hd this, pure, Except.pure]
  · have hm := hbsub ("$schema", .str t) (by simp)
    simp [schemaURLOfMap, lookupKey_generic_some hout hd hm (str_goAny_fixed t), hu, pure, Except.pure, hne]

/-- "not one of the names `Schema.UnmarshalJSON` deletes from the generic map" -/
def schemaExtra (k : String) : Bool := !(k == "$ref" || k == "$schema" || schemaKnownNames.contains k)

theorem schemaDescs_claims {k : String} (h : ∃ d ∈ schemaDescs, claims d k) :
    schemaExtra k = false ∨ isExtKey k = true := by
  obtain ⟨d, hd, hc⟩ := h
  simp only [schemaDescs, List.mem_cons, List.not_mem_nil, or_false] at hd
  have hknown : ∀ {k}, (k ∈ tableNames (lookupStruct Gen.structs "SchemaProps") ∨
      k ∈ tableNames (lookupStruct Gen.structs "SwaggerSchemaProps")) → schemaExtra k = false := by
    intro k hk
    have : schemaKnownNames.contains k = true := by
      rw [schemaKnown_eq]; simpa using hk
    simp only [schemaExtra, this, Bool.or_true, Bool.not_true]
  rcases hd with rfl | rfl | rfl | rfl | rfl
  · rcases hc with hc | ⟨he, _⟩
    · exact .inl (hknown (.inl hc))
    · simp at he
  · rcases hc with hc | ⟨_, hx⟩
    · simp at hc
    · exact .inr hx
  · rcases hc with hc | ⟨he, _⟩
    · simp only [List.mem_cons, List.not_mem_nil, or_false] at hc; left; simp [schemaExtra, hc]
    · simp at he
  · rcases hc with hc | ⟨he, _⟩
    · simp only [List.mem_cons, List.not_mem_nil, or_false] at hc; left; simp [schemaExtra, hc]
    · simp at he
  · rcases hc with hc | ⟨he, _⟩
    · exact .inl (hknown (.inr hc))
    · simp at he

theorem normSchema_isObj {rec : Rec} {j r : Json} (h : normSchema rec j = .ok r) : ∃ ms, r = .obj ms := by
  cases j with
  | null => simp [normSchema, pure, Except.pure] at h; exact ⟨[], h.symm⟩
  | bool _ => simp [normSchema, goError] at h
  | num _ => simp [normSchema, goError] at h
  | str _ => simp [normSchema, goError] at h
  | arr _ => simp [normSchema, goError] at h
  | obj ms =>
    simp only [normSchema, bind, Except.bind] at h
    repeat (split at h; (· simp at h))
    simp only [pure, Except.pure, Except.ok.injEq] at h
    rw [concatMembers_eq] at h
    exact ⟨_, h.symm⟩

theorem normFields_nil {rec : Rec} (all : List Field) : ∀ (fs : List Field), (∀ f ∈ fs, f.omitEmpty = true) →
    normFields rec all fs [] = .ok [] := by
  intro fs
  induction fs with
  | nil => intro _; rfl
  | cons f rest ih =>
    intro h
    have h1 : f.omitEmpty = true := h f (by simp)
    simp [normFields, fieldState, fieldVals, decodeAll, ih (fun g hg => h g (by simp [hg])), encodeField, h1,
      bind, Except.bind, pure, Except.pure]

/-- side condition on the GENERATED tables: an empty schema prints as `{}` (every field is `omitempty`) -/
def schemaAllOmit : Bool :=
  (tableOf "SchemaProps").all (·.omitEmpty) && (tableOf "SwaggerSchemaProps").all (·.omitEmpty)

theorem normSchema_eval {rec : Rec} {out b1 b2 b3 b4 b5 b6 d : List (String × Json)}
    (h1 : normFields rec (tableOf "SchemaProps" ++ tableOf "SwaggerSchemaProps") (tableOf "SchemaProps") out = .ok b1)
    (h5 : normFields rec (tableOf "SchemaProps" ++ tableOf "SwaggerSchemaProps") (tableOf "SwaggerSchemaProps") out = .ok b5)
    (hd : normAnyMembers out = .ok d) (h3 : refOfMap false d = .ok b3) (h4 : schemaURLOfMap d = .ok b4)
    (h2 : d.filter (fun m => isExtKey m.1 && schemaExtra m.1) = b2)
    (h6 : d.filter (fun m => !isExtKey m.1 && schemaExtra m.1) = b6) :
    normSchema rec (.obj out) = .ok (concatMembers [b1, b2, b3, b4, b5, b6]) := by
  simp only [normSchema, bind, Except.bind, h1, h5, hd, h3, h4, pure, Except.pure, List.filter_filter]
  have e2 : (d.filter fun a => isExtKey a.1 && !(a.1 == "$ref" || a.1 == "$schema" || schemaKnownNames.contains a.1)) = b2 := h2
  have e6 : (d.filter fun a => !isExtKey a.1 && !(a.1 == "$ref" || a.1 == "$schema" || schemaKnownNames.contains a.1)) = b6 := h6
  rw [e2, e6]

theorem normSchema_second {rec : Rec} (hr : RecGood rec) (hT : tablesNodup Gen.structs = true)
    (hk : partsOK schemaDescs = true) (hom : schemaAllOmit = true) {j r : Json} (h : normSchema rec j = .ok r) (hc : Clean r) :
    normSchema rec r = .ok r := by
  cases j with
  | null =>
    simp [normSchema, pure, Except.pure] at h; subst h
    simp only [schemaAllOmit, Bool.and_eq_true, List.all_eq_true] at hom
    simp [normSchema, normFields_nil _ _ hom.1, normFields_nil _ _ hom.2, normAnyMembers, refOfMap, schemaURLOfMap,
      lookupKey, bind, Except.bind, pure, Except.pure, concatMembers, concatJSON]
  | bool _ => simp [normSchema, goError] at h
  | num _ => simp [normSchema, goError] at h
  | str _ => simp [normSchema, goError] at h
  | arr _ => simp [normSchema, goError] at h
  | obj ms =>
    have h0 := h
    simp only [normSchema, bind, Except.bind] at h
    split at h
    · simp at h
    · rename_i b1 hb1
      split at h
      · simp at h
      · rename_i b5 hb5
        split at h
        · simp at h
        · rename_i d0 hd0
          split at h
          · simp at h
          · rename_i b3 hb3
            split at h
            · simp at h
            · rename_i b4 hb4
              simp only [pure, Except.pure, Except.ok.injEq] at h
              have ⟨hds, hdg⟩ := normAnyMembers_goAny _ _ hd0
              have hlam : (fun m : String × Json => !(m.1 == "$ref" || m.1 == "$schema" || schemaKnownNames.contains m.1))
                  = fun m => schemaExtra m.1 := rfl
              rw [hlam] at h
              generalize hrest : d0.filter (fun m => schemaExtra m.1) = rest at h
              have hrs : KeysSorted rest := by rw [← hrest]; exact keysSorted_filter _ hds
              have hrg : GoAnyM rest := by rw [← hrest]; exact goAnyM_filter _ hdg
              have hrx : ∀ m ∈ rest, schemaExtra m.1 = true := by
                rw [← hrest]; intro m hm; exact (List.mem_filter.mp hm).2
              generalize hb2 : rest.filter (fun m => isExtKey m.1) = b2 at h
              generalize hb6 : rest.filter (fun m => !isExtKey m.1) = b6 at h
              -- the output and who owns what in it
              have hnd := normSchema_nd hr.nd hT hk h0
              subst h
              rw [concatMembers_eq] at hnd hc ⊢
              have hsplit : [b1, b2, b3, b4, b5, b6].flatten = [b1, b2, b3, b4, b5].flatten ++ b6 := by
                simp [List.flatten_cons]
              generalize hout_def : [b1, b2, b3, b4, b5, b6].flatten = out at hnd hc ⊢
              rw [hout_def] at hsplit
              have hout : (keysOf out).Nodup := by simpa [ND, keysOf] using hnd.1
              have hclean : CleanM out := by simpa [Clean] using hc
              have c1 := normFields_conf hr.nd (names := tableNames (lookupStruct Gen.structs "SchemaProps"))
                (by rw [tableOf_names]; exact List.Sublist.refl _) (lookupStruct_nodup hT _) hb1
              have c5 := normFields_conf hr.nd (names := tableNames (lookupStruct Gen.structs "SwaggerSchemaProps"))
                (by rw [tableOf_names]; exact List.Sublist.refl _) (lookupStruct_nodup hT _) hb5
              have c3 := conf_small (refOfMap_shape hb3)
              have c4 := conf_small (schemaURLOfMap_shape hb4)
              have c2 : Conf ⟨[], true⟩ b2 := by
                rw [← hb2]
                refine ⟨keysOf_filter_nodup _ (keysSorted_nodup hrs), ?_⟩
                intro k hk'
                simp only [keysOf, List.mem_map, List.mem_filter] at hk'
                obtain ⟨m, ⟨_, hm⟩, rfl⟩ := hk'
                exact .inr ⟨rfl, hm⟩
              have call : ConfAll schemaDescs [b1, b2, b3, b4, b5] :=
                .cons c1.1 (.cons c2 (.cons c3.1 (.cons c4.1 (.cons c5.1 .nil))))
              have hb6x : ∀ m ∈ b6, schemaExtra m.1 = true ∧ isExtKey m.1 = false := by
                rw [← hb6]; intro m hm
                have := List.mem_filter.mp hm
                exact ⟨hrx m this.1, by simpa using this.2⟩
              have hown := ownAll_of_confAll call out hk (fun m hm => by rw [hsplit]; exact List.mem_append.mpr (.inl hm)) (by
                intro m hm
                rw [hsplit] at hm
                rcases List.mem_append.mp hm with h1 | h1
                · exact .inl h1
                · right
                  intro hcl
                  have ⟨x1, x2⟩ := hb6x m h1
                  rcases schemaDescs_claims hcl with h2 | h2
                  · rw [x1] at h2; simp at h2
                  · rw [x2] at h2; simp at h2)
              have hown6 : ∀ m ∈ out, schemaExtra m.1 = true → isExtKey m.1 = false → m ∈ b6 := by
                intro m hm x1 x2
                rw [hsplit] at hm
                rcases List.mem_append.mp hm with h1 | h1
                · rcases schemaDescs_claims (confAll_claims call m h1) with h2 | h2
                  · rw [x1] at h2; simp at h2
                  · rw [x2] at h2; simp at h2
                · exact h1
              have hsub6 : ∀ m ∈ b6, m ∈ out := fun m hm => by rw [hsplit]; exact List.mem_append.mpr (.inr hm)
              cases hown with
              | cons _ s1 o1 hown =>
              cases hown with
              | cons _ s2 o2 hown =>
              cases hown with
              | cons _ s3 o3 hown =>
              cases hown with
              | cons _ s4 o4 hown =>
              cases hown with
              | cons _ s5 o5 _ =>
              have hkw : ∀ f ∈ tableOf "SchemaProps" ++ tableOf "SwaggerSchemaProps", f.jsonName ∈ keywordList := by
                intro f hf
                rcases List.mem_append.mp hf with h1 | h1
                · exact lookupStruct_keywords "SchemaProps" f h1
                · exact lookupStruct_keywords "SwaggerSchemaProps" f h1
              have h1 := normFields_second_part hr hkw (fun f hf => List.mem_map.mpr ⟨f, List.mem_append.mpr (.inl hf), rfl⟩)
                (lookupStruct_nodup hT "SchemaProps") hb1 hout hclean s1 (fun m hm hx => o1 m hm (.inl hx))
              have h5 := normFields_second_part hr hkw (fun f hf => List.mem_map.mpr ⟨f, List.mem_append.mpr (.inr hf), rfl⟩)
                (lookupStruct_nodup hT "SwaggerSchemaProps") hb5 hout hclean s5 (fun m hm hx => o5 m hm (.inl hx))
              obtain ⟨d, hd⟩ := normAnyMembers_total out hclean
              have h3 := refOfMap_second hb3 hout hclean hd s3 (fun m hm hx => o3 m hm (.inl (by simp [hx])))
              have h4 := schemaURLOfMap_second hb4 hout hclean hd s4 (fun m hm hx => o4 m hm (.inl (by simp [hx])))
              have h2 := genericFilter_second (fun k => isExtKey k && schemaExtra k) hout hd (b := b2)
                (by rw [← hb2]; exact keysSorted_filter _ hrs) (by rw [← hb2]; exact goAnyM_filter _ hrg) s2
                (by
                  rw [← hb2]; intro m hm
                  have := List.mem_filter.mp hm
                  simp [this.2, hrx m this.1])
                (fun m hm hq => o2 m hm (.inr ⟨rfl, by
                  simp only [Bool.and_eq_true] at hq; exact hq.1⟩))
              have h6 := genericFilter_second (fun k => !isExtKey k && schemaExtra k) hout hd (b := b6)
                (by rw [← hb6]; exact keysSorted_filter _ hrs) (by rw [← hb6]; exact goAnyM_filter _ hrg) hsub6
                (by intro m hm; have := hb6x m hm; simp [this.1, this.2])
                (fun m hm hq => by
                  simp only [Bool.and_eq_true, Bool.not_eq_true'] at hq
                  exact hown6 m hm hq.2 hq.1)
              have := normSchema_eval h1 h5 hd h3 h4 h2 h6
              rw [this, concatMembers_eq, hout_def]


/-! ### tables that differ only in an `omitempty` flag -/

theorem setOmitEmpty_cons (n : String) (f : Field) (fs : List Field) :
    setOmitEmpty n (f :: fs) = (if f.jsonName == n then { f with omitEmpty := true } else f) :: setOmitEmpty n fs := rfl

theorem normFields_setOmit {rec : Rec} (all : List Field) (n : String) :
    ∀ (fs : List Field) (ms lit : List (String × Json)), normFields rec all (setOmitEmpty n fs) ms = .ok lit →
      ∃ full, normFields rec all fs ms = .ok full ∧ ∀ k, k ≠ n → lookupKey full k = lookupKey lit k := by
  intro fs
  induction fs with
  | nil => intro ms lit h; exact ⟨lit, by simpa [setOmitEmpty, normFields] using h, fun _ _ => rfl⟩
  | cons f rest ih =>
    intro ms lit h
    rw [setOmitEmpty_cons] at h
    simp only [normFields, bind, Except.bind] at h
    split at h
    · simp at h
    · rename_i st hst
      split at h
      · simp at h
      · rename_i rest' hrest'
        simp only [pure, Except.pure, Except.ok.injEq] at h
        obtain ⟨full', hf', hl'⟩ := ih ms rest' hrest'
        have hst2 : fieldState rec all f ms = .ok st := by
          by_cases hn : (f.jsonName == n) = true
          · simpa [hn, fieldState] using hst
          · simpa [hn, fieldState] using hst
        refine ⟨_, by simp only [normFields, bind, Except.bind, hst2, hf', pure, Except.pure]; rfl, ?_⟩
        intro k hk
        rw [← h]
        by_cases hn : (f.jsonName == n) = true
        · have hname : f.jsonName = n := by simpa using hn
          have key1 : ∀ m, encodeField f st = some m → m.1 = n := fun m hm => by rw [encodeField_key hm, hname]
          have key2 : ∀ m, encodeField (if (f.jsonName == n) = true then { f with omitEmpty := true } else f) st = some m →
              m.1 = n := fun m hm => by rw [encodeField_key hm]; simp [hn, hname]
          generalize encodeField f st = e1 at key1
          generalize encodeField (if (f.jsonName == n) = true then { f with omitEmpty := true } else f) st = e2 at key2
          have step : ∀ (e : Option (String × Json)) (r : List (String × Json)), (∀ m, e = some m → m.1 = n) →
              lookupKey (match e with | some m => m :: r | none => r) k = lookupKey r k := by
            intro e r he
            cases e with
            | none => rfl
            | some m =>
              obtain ⟨a, b⟩ := m
              have : a = n := he (a, b) rfl
              subst this
              exact lookupKey_cons_ne (fun h => hk h.symm)
          cases e1 with
          | none =>
            cases e2 with
            | none => exact hl' k hk
            | some m2 =>
              obtain ⟨a, b⟩ := m2
              have : a = n := key2 (a, b) rfl
              subst this
              show lookupKey full' k = lookupKey ((a, b) :: rest') k
              rw [lookupKey_cons_ne (fun h => hk h.symm)]; exact hl' k hk
          | some m1 =>
            obtain ⟨a1, b1⟩ := m1
            have : a1 = n := key1 (a1, b1) rfl
            subst this
            cases e2 with
            | none =>
              show lookupKey ((a1, b1) :: full') k = lookupKey rest' k
              rw [lookupKey_cons_ne (fun h => hk h.symm)]; exact hl' k hk
            | some m2 =>
              obtain ⟨a, b⟩ := m2
              have : a = a1 := key2 (a, b) rfl
              subst this
              show lookupKey ((a, b1) :: full') k = lookupKey ((a, b) :: rest') k
              rw [lookupKey_cons_ne (fun h => hk h.symm), lookupKey_cons_ne (fun h => hk h.symm)]; exact hl' k hk
        · simp only [hn] at *
          simp only [Bool.false_eq_true, if_false]
          cases encodeField f st with
          | none => exact hl' k hk
          | some m =>
            obtain ⟨a, b⟩ := m
            by_cases hak : a = k
            · subst hak; simp [lookupKey_cons_eq]
            · show lookupKey ((a, b) :: full') k = lookupKey ((a, b) :: rest') k
              rw [lookupKey_cons_ne hak, lookupKey_cons_ne hak]; exact hl' k hk

/-! ### SecurityScheme -/

theorem normSecurityScheme_second {rec : Rec} (hr : RecGood rec) (hT : tablesNodup Gen.structs = true)
    (hk : partsOK securitySchemeDescs = true) {j r : Json} (h : normSecurityScheme rec j = .ok r) (hc : Clean r) :
    normSecurityScheme rec r = .ok r := by
  have hn := lookupStruct_nodup hT "SecuritySchemeProps"
  have hkw : ∀ f ∈ tableOf "SecuritySchemeProps", f.jsonName ∈ keywordList := lookupStruct_keywords "SecuritySchemeProps"
  simp only [normSecurityScheme, bind, Except.bind] at h
  split at h
  · simp at h
  · rename_i ms _
    split at h
    · simp at h
    · rename_i full hfull
      split at h
      · simp at h
      · rename_i b2 hb2
        have c2 := normExtensions_conf hb2
        split at h
        · -- oauth2 with a flow that needs the authorization URL: the full table
          rename_i hflow
          simp only [pure, Except.pure, Except.ok.injEq] at h; subst h
          have cf := normFields_conf hr.nd (names := tableNames (lookupStruct Gen.structs "SecuritySchemeProps"))
            (by rw [tableOf_names]; exact List.Sublist.refl _) hn hfull
          have call : ConfAll securitySchemeDescs [full, b2] := .cons cf.1 (.cons c2.1 .nil)
          have hout := confAll_nodup call hk
          have hclean := clean_concat hc
          have hown := ownAll_of_confAll call _ hk (fun m hm => hm) (fun m hm => .inl hm)
          cases hown with
          | cons _ s1 o1 hown =>
          cases hown with
          | cons _ s2 o2 _ =>
          have h1 := normFields_second_part hr hkw (fun f hf => List.mem_map.mpr ⟨f, hf, rfl⟩) hn hfull hout hclean s1
            (fun m hm hx => o1 m hm (.inl hx))
          have h2 := normExtensions_second hb2 hout hclean s2 (fun m hm hx => o2 m hm (.inr ⟨rfl, hx⟩))
          rw [concatMembers_eq]
          simp only [normSecurityScheme, structMembers, bind, Except.bind, pure, Except.pure, h1, h2, hflow, if_true]
          rw [concatMembers_eq]
        · rename_i hflow
          split at h
          · simp at h
          · rename_i lit hlit
            simp only [pure, Except.pure, Except.ok.injEq] at h; subst h
            have hsn : (setOmitEmpty "authorizationUrl" (tableOf "SecuritySchemeProps")).map (·.jsonName) =
                tableNames (lookupStruct Gen.structs "SecuritySchemeProps") := by
              rw [setOmitEmpty_names, tableOf_names]
            have cl := normFields_conf hr.nd (names := tableNames (lookupStruct Gen.structs "SecuritySchemeProps"))
              (by rw [hsn]; exact List.Sublist.refl _) hn hlit
            have call : ConfAll securitySchemeDescs [lit, b2] := .cons cl.1 (.cons c2.1 .nil)
            have hout := confAll_nodup call hk
            have hclean := clean_concat hc
            have hown := ownAll_of_confAll call _ hk (fun m hm => hm) (fun m hm => .inl hm)
            cases hown with
            | cons _ s1 o1 hown =>
            cases hown with
            | cons _ s2 o2 _ =>
            have h1 := normFields_second_part hr hkw
              (fun f hf => by
                have : f.jsonName ∈ (setOmitEmpty "authorizationUrl" (tableOf "SecuritySchemeProps")).map (·.jsonName) :=
                  List.mem_map.mpr ⟨f, hf, rfl⟩
                rw [setOmitEmpty_names] at this; exact this)
              (by rw [hsn]; exact hn) hlit hout hclean s1
              (fun m hm hx => o1 m hm (.inl (by rw [hsn] at hx; exact hx)))
            have h2 := normExtensions_second hb2 hout hclean s2 (fun m hm hx => o2 m hm (.inr ⟨rfl, hx⟩))
            -- the full table succeeds too and sees the same `type` and `flow`
            obtain ⟨full1, hf1, hl1⟩ := normFields_setOmit _ _ _ _ _ hlit
            obtain ⟨full2, hf2, hl2⟩ := normFields_setOmit _ _ _ _ _ h1
            rw [hfull] at hf1
            simp only [Except.ok.injEq] at hf1; subst hf1
            have e1 : lookupKey full2 "type" = lookupKey full "type" := by
              rw [hl2 _ (by decide), hl1 _ (by decide)]
            have e2 : lookupKey full2 "flow" = lookupKey full "flow" := by
              rw [hl2 _ (by decide), hl1 _ (by decide)]
            rw [concatMembers_eq]
            simp only [normSecurityScheme, structMembers, bind, Except.bind, pure, Except.pure, hf2, h2, e1, e2, hflow,
              h1]
            rw [concatMembers_eq]
            rfl

theorem normSecurityScheme_isObj {rec : Rec} {j r : Json} (h : normSecurityScheme rec j = .ok r) :
    ∃ ms, r = .obj ms := by
  simp only [normSecurityScheme, bind, Except.bind] at h
  repeat (split at h; (· simp at h))
  split at h
  · simp only [pure, Except.pure, Except.ok.injEq] at h; rw [concatMembers_eq] at h; exact ⟨_, h.symm⟩
  · split at h
    · simp at h
    · simp only [pure, Except.pure, Except.ok.injEq] at h; rw [concatMembers_eq] at h; exact ⟨_, h.symm⟩


/-! ### leaving fields out of a table -/

theorem normFields_filter {rec : Rec} (all : List Field) (q : String → Bool) :
    ∀ (fs : List Field) (ms b : List (String × Json)), normFields rec all fs ms = .ok b →
      normFields rec all (fs.filter (fun f => q f.jsonName)) ms = .ok (b.filter (fun m => q m.1)) := by
  intro fs
  induction fs with
  | nil => intro ms b h; simp [normFields, pure, Except.pure] at h; subst h; rfl
  | cons f rest ih =>
    intro ms b h
    simp only [normFields, bind, Except.bind] at h
    split at h
    · simp at h
    · rename_i st hst
      split at h
      · simp at h
      · rename_i rest' hrest'
        simp only [pure, Except.pure, Except.ok.injEq] at h
        have hi := ih ms rest' hrest'
        cases hq : q f.jsonName with
        | true =>
          simp only [List.filter_cons, hq, if_true, normFields, bind, Except.bind, hst, hi, pure, Except.pure]
          cases he : encodeField f st with
          | none => simp [he] at h ⊢; rw [← h]
          | some m =>
            simp [he] at h ⊢; rw [← h]
            have : q m.1 = true := by rw [encodeField_key he]; exact hq
            simp [List.filter_cons, this]
        | false =>
          simp only [List.filter_cons, hq, Bool.false_eq_true, if_false, hi]
          cases he : encodeField f st with
          | none => simp [he] at h; rw [← h]
          | some m =>
            simp [he] at h; rw [← h]
            have : q m.1 = false := by rw [encodeField_key he]; exact hq
            simp [List.filter_cons, this]

theorem normFields_unfilter {rec : Rec} (all : List Field) (q : String → Bool) :
    ∀ (fs : List Field) (ms b' : List (String × Json)),
      normFields rec all (fs.filter (fun f => q f.jsonName)) ms = .ok b' →
      (∀ f ∈ fs, q f.jsonName = false → ∃ st, fieldState rec all f ms = .ok st) →
      ∃ b, normFields rec all fs ms = .ok b ∧ b.filter (fun m => q m.1) = b' := by
  intro fs
  induction fs with
  | nil => intro ms b' h _; exact ⟨b', by simpa using h, by simp [normFields, pure, Except.pure] at h; subst h; rfl⟩
  | cons f rest ih =>
    intro ms b' h hst
    cases hq : q f.jsonName with
    | true =>
      simp only [List.filter_cons, hq, if_true, normFields, bind, Except.bind] at h
      split at h
      · simp at h
      · rename_i st hst'
        split at h
        · simp at h
        · rename_i r' hr'
          simp only [pure, Except.pure, Except.ok.injEq] at h
          obtain ⟨rb, hrb, hfb⟩ := ih ms r' hr' (fun g hg => hst g (by simp [hg]))
          cases he : encodeField f st with
          | none =>
            refine ⟨rb, by simp [normFields, bind, Except.bind, hst', hrb, he, pure, Except.pure], ?_⟩
            simp [he] at h; rw [hfb, h]
          | some m =>
            refine ⟨m :: rb, by simp [normFields, bind, Except.bind, hst', hrb, he, pure, Except.pure], ?_⟩
            simp [he] at h
            have : q m.1 = true := by rw [encodeField_key he]; exact hq
            simp [List.filter_cons, this, hfb, h]
    | false =>
      simp only [List.filter_cons, hq, Bool.false_eq_true, if_false] at h
      obtain ⟨rb, hrb, hfb⟩ := ih ms b' h (fun g hg => hst g (by simp [hg]))
      obtain ⟨st, hst'⟩ := hst f (by simp) hq
      cases he : encodeField f st with
      | none => exact ⟨rb, by simp [normFields, bind, Except.bind, hst', hrb, he, pure, Except.pure], hfb⟩
      | some m =>
        refine ⟨m :: rb, by simp [normFields, bind, Except.bind, hst', hrb, he, pure, Except.pure], ?_⟩
        have : q m.1 = false := by rw [encodeField_key he]; exact hq
        simp [List.filter_cons, this, hfb]


/-! ### Response -/

/-- the `hasRef` test of `Response.MarshalJSON`, on the encoded `Refable` part -/
def hasRefOf (b2 : List (String × Json)) : Bool :=
  match b2 with
  | [(_, .str t)] => t != ""
  | _ => false

theorem normResponse_unfold (rec : Rec) (j : Json) : normResponse rec j = (do
    let ms ← structMembers j
    let props := tableOf "ResponseProps"
    let full ← normFields rec props props ms
    let b2 ← normRefable j
    let b3 ← normExtensions j
    if hasRefOf b2 then do
      let lit ← normFields rec props (setOmitEmpty "description" props) ms
      pure (concatMembers [lit.filter (fun m => (fun k => k != "headers") m.1), b2, b3])
    else
      pure (concatMembers [full, b2, b3])) := rfl

theorem normResponse_second {rec : Rec} (hr : RecGood rec) (hT : tablesNodup Gen.structs = true)
    (hk : partsOK responseDescs = true) {j r : Json} (h : normResponse rec j = .ok r) (hc : Clean r) :
    normResponse rec r = .ok r := by
  have hn := lookupStruct_nodup hT "ResponseProps"
  have hkw : ∀ f ∈ tableOf "ResponseProps", f.jsonName ∈ keywordList := lookupStruct_keywords "ResponseProps"
  rw [normResponse_unfold] at h
  simp only [bind, Except.bind] at h
  split at h
  · simp at h
  · rename_i ms _
    split at h
    · simp at h
    · rename_i full hfull
      split at h
      · simp at h
      · rename_i b2 hb2
        split at h
        · simp at h
        · rename_i b3 hb3
          have c2 := normRefable_conf hb2
          have c3 := normExtensions_conf hb3
          cases hhr : hasRefOf b2 with
          | false =>
            simp only [hhr, Bool.false_eq_true, if_false, pure, Except.pure, Except.ok.injEq] at h; subst h
            have cf := normFields_conf hr.nd (names := tableNames (lookupStruct Gen.structs "ResponseProps"))
              (by rw [tableOf_names]; exact List.Sublist.refl _) hn hfull
            have call : ConfAll responseDescs [full, b2, b3] := .cons cf.1 (.cons c2.1 (.cons c3.1 .nil))
            have hout := confAll_nodup call hk
            have hclean := clean_concat hc
            have hown := ownAll_of_confAll call _ hk (fun m hm => hm) (fun m hm => .inl hm)
            cases hown with
            | cons _ s1 o1 hown =>
            cases hown with
            | cons _ s2 o2 hown =>
            cases hown with
            | cons _ s3 o3 _ =>
            have h1 := normFields_second_part hr hkw (fun f hf => List.mem_map.mpr ⟨f, hf, rfl⟩) hn hfull hout hclean s1
              (fun m hm hx => o1 m hm (.inl hx))
            have h2 := normRefable_second hb2 hout hclean s2 (fun m hm hx => o2 m hm (.inl (by simp [hx])))
            have h3 := normExtensions_second hb3 hout hclean s3 (fun m hm hx => o3 m hm (.inr ⟨rfl, hx⟩))
            rw [concatMembers_eq, normResponse_unfold]
            simp only [structMembers, bind, Except.bind, pure, Except.pure, h1, h2, h3, hhr, Bool.false_eq_true, if_false]
            rw [concatMembers_eq]
          | true =>
            simp only [hhr, if_true, bind, Except.bind] at h
            split at h
            · simp at h
            · rename_i lit hlit
              simp only [pure, Except.pure, Except.ok.injEq] at h; subst h
              have hsn : (setOmitEmpty "description" (tableOf "ResponseProps")).map (·.jsonName) =
                  tableNames (lookupStruct Gen.structs "ResponseProps") := by
                rw [setOmitEmpty_names, tableOf_names]
              -- the literal's table without `headers`
              have hlitF := normFields_filter (tableOf "ResponseProps") (fun k => k != "headers") _ _ _ hlit
              have hsubl : ((setOmitEmpty "description" (tableOf "ResponseProps")).filter
                  (fun f => (fun k => k != "headers") f.jsonName)).map (·.jsonName) |>.Sublist
                  (tableNames (lookupStruct Gen.structs "ResponseProps")) := by
                rw [← hsn]; exact (List.filter_sublist).map _
              have cl := normFields_conf hr.nd (names := tableNames (lookupStruct Gen.structs "ResponseProps")) hsubl hn hlitF
              have call : ConfAll responseDescs [lit.filter (fun m => (fun k => k != "headers") m.1), b2, b3] :=
                .cons cl.1 (.cons c2.1 (.cons c3.1 .nil))
              have hout := confAll_nodup call hk
              have hclean := clean_concat hc
              have hown := ownAll_of_confAll call _ hk (fun m hm => hm) (fun m hm => .inl hm)
              cases hown with
              | cons _ s1 o1 hown =>
              cases hown with
              | cons _ s2 o2 hown =>
              cases hown with
              | cons _ s3 o3 _ =>
              have h1 := normFields_second_part hr hkw
                (fun f hf => by
                  have : f.jsonName ∈ (setOmitEmpty "description" (tableOf "ResponseProps")).map (·.jsonName) :=
                    List.mem_map.mpr ⟨f, (List.mem_filter.mp hf).1, rfl⟩
                  rw [setOmitEmpty_names] at this; exact this)
                (hn.sublist hsubl) hlitF hout hclean s1 (fun m hm hx => o1 m hm (.inl (hsubl.subset hx)))
              have h2 := normRefable_second hb2 hout hclean s2 (fun m hm hx => o2 m hm (.inl (by simp [hx])))
              have h3 := normExtensions_second hb3 hout hclean s3 (fun m hm hx => o3 m hm (.inr ⟨rfl, hx⟩))
              -- `headers` is not in the output, so its field reads nothing
              have hnoh : "headers" ∉ keysOf [lit.filter (fun m => (fun k => k != "headers") m.1), b2, b3].flatten := by
                intro hkk
                simp only [keysOf, List.mem_map] at hkk
                obtain ⟨m, hm, heq⟩ := hkk
                by_cases hmem : "headers" ∈ tableNames (lookupStruct Gen.structs "ResponseProps")
                · have := o1 m hm (.inl (by rw [heq]; exact hmem))
                  have := (List.mem_filter.mp this).2
                  simp [heq] at this
                · -- not a member name of the table at all: then nobody may emit it
                  have hcl := confAll_claims call m hm
                  obtain ⟨d, hd, hcl⟩ := hcl
                  simp only [responseDescs, List.mem_cons, List.not_mem_nil, or_false] at hd
                  rcases hd with rfl | rfl | rfl
                  · rcases hcl with h' | ⟨h', _⟩
                    · rw [heq] at h'; exact hmem h'
                    · simp at h'
                  · rcases hcl with h' | ⟨h', _⟩
                    · rw [heq] at h'; simp at h'
                    · simp at h'
                  · rcases hcl with h' | ⟨_, h'⟩
                    · simp at h'
                    · rw [heq] at h'; simp [isExtKey] at h'
              obtain ⟨lit', hlit', hfl'⟩ := normFields_unfilter (tableOf "ResponseProps") (fun k => k != "headers") _ _ _ h1
                (by
                  intro f hf hq
                  have hname : f.jsonName = "headers" := by simpa using hq
                  have hfn : f.jsonName ∈ (tableOf "ResponseProps").map (·.jsonName) := by
                    have : f.jsonName ∈ (setOmitEmpty "description" (tableOf "ResponseProps")).map (·.jsonName) :=
                      List.mem_map.mpr ⟨f, hf, rfl⟩
                    rw [setOmitEmpty_names] at this; exact this
                  refine ⟨none, ?_⟩
                  unfold fieldState
                  rw [fieldVals_eq hkw hfn (cleanM_names hclean), filter_key_nodup _ hout, hname, lookupKey_none hnoh]
                  rfl)
              obtain ⟨full', hfull', _⟩ := normFields_setOmit _ _ _ _ _ hlit'
              rw [concatMembers_eq, normResponse_unfold]
              simp only [structMembers, bind, Except.bind, pure, Except.pure, hfull', h2, h3, hhr, if_true, hlit', hfl']
              rw [concatMembers_eq]

theorem normResponse_isObj {rec : Rec} {j r : Json} (h : normResponse rec j = .ok r) : ∃ ms, r = .obj ms := by
  rw [normResponse_unfold] at h
  simp only [bind, Except.bind] at h
  repeat (split at h; (· simp at h))
  split at h
  · split at h
    · simp at h
    · simp only [pure, Except.pure, Except.ok.injEq] at h; rw [concatMembers_eq] at h; exact ⟨_, h.symm⟩
  · simp only [pure, Except.pure, Except.ok.injEq] at h; rw [concatMembers_eq] at h; exact ⟨_, h.symm⟩


/-! ### the named union types -/

theorem strElem_isStr {x y : Json} (h : strElem x = .ok y) : ∃ s, y = .str s := by
  cases x <;> simp [strElem, pure, Except.pure, goError] at h <;> exact ⟨_, h.symm⟩

theorem mapR_strElem_fixed {xs ys : List Json} (h : mapR strElem xs = .ok ys) : mapR strElem ys = .ok ys :=
  mapR_fixed ys (fun y hy => by
    obtain ⟨x, _, hx⟩ := mapR_mem xs ys h y hy
    exact strElem_fixed hx)

theorem normStringOrArray_second {v r : Json} (h : normStringOrArray v = .ok r) : normStringOrArray r = .ok r := by
  cases v with
  | arr xs =>
    simp only [normStringOrArray, bind, Except.bind] at h
    split at h
    · simp at h
    · rename_i ys hys
      have hfix := mapR_strElem_fixed hys
      split at h
      · rename_i y
        simp only [pure, Except.pure, Except.ok.injEq] at h; subst h
        obtain ⟨x, _, hx⟩ := mapR_mem xs [y] hys y (by simp)
        obtain ⟨s, rfl⟩ := strElem_isStr hx
        rfl
      · rename_i hns
        simp only [pure, Except.pure, Except.ok.injEq] at h; subst h
        simp only [normStringOrArray, bind, Except.bind, hfix]
        rfl
  | str s => simp [normStringOrArray, pure, Except.pure] at h; subst h; rfl
  | null => simp [normStringOrArray, pure, Except.pure] at h; subst h; rfl
  | bool _ => simp [normStringOrArray, goError] at h
  | num _ => simp [normStringOrArray, goError] at h
  | obj _ => simp [normStringOrArray, goError] at h

theorem schemaObj_second {rec : Rec} (hr : RecGood rec) {v r : Json} (h : rec (.kind "schema") v = .ok r)
    (hc : Clean r) : ∃ ms, r = .obj ms ∧ rec (.kind "schema") (.obj ms) = .ok (.obj ms) := by
  obtain ⟨ms, rfl⟩ := hr.isObj _ _ _ h
  exact ⟨ms, rfl, hr.idem _ _ _ h hc⟩

/-- a map codec applied to a permutation of its own sorted output -/
theorem mapMembersR_of_fixed {f : Json → R Json} : ∀ (zs : List (String × Json)), (keysOf zs).Nodup →
    (∀ m ∈ zs, f m.2 = .ok m.2) →
    ∃ ys, mapMembersR f zs = .ok ys ∧ KeysSorted ys ∧ ∀ m, m ∈ ys ↔ m ∈ zs := by
  intro zs
  induction zs with
  | nil => intro _ _; exact ⟨[], rfl, keysSorted_nil, by simp⟩
  | cons a rest ih =>
    obtain ⟨k, v⟩ := a
    intro hnd hf
    simp only [keysOf, List.map_cons, List.nodup_cons] at hnd
    obtain ⟨acc, h1, h2, h3⟩ := ih hnd.2 (fun m hm => hf m (by simp [hm]))
    have hv : f v = .ok v := hf (k, v) (by simp)
    have hk : k ∉ keysOf acc := fun hm => hnd.1 (mapMembersR_keys rest acc h1 k hm)
    refine ⟨insertKeep k v acc, by simp [mapMembersR, hv, h1, bind, Except.bind, pure, Except.pure],
      insertKeep_sorted k v h2, ?_⟩
    intro m
    rw [mem_insertKeep_of_not_key hk m, h3 m]
    simp [List.mem_cons]

theorem normNamed_second {rec : Rec} (hr : RecGood rec) (n : String) {v r : Json} (h : normNamed rec n v = .ok r)
    (hc : Clean r) : normNamed rec n r = .ok r := by
  unfold normNamed at h ⊢
  split at h
  · rename_i hn; simp only [hn, if_true]; exact normStringOrArray_second h
  · rename_i hn1
    simp only [hn1, if_false]
    split at h
    · -- SchemaOrBool
      rename_i hn; simp only [hn, if_true]
      cases v with
      | obj ms =>
        obtain ⟨ms', rfl, h2⟩ := schemaObj_second hr (by simpa [normSchemaOrBool] using h) hc
        simpa [normSchemaOrBool] using h2
      | bool b =>
        cases b with
        | false => simp [normSchemaOrBool, pure, Except.pure] at h; subst h; rfl
        | true => simp [normSchemaOrBool, pure, Except.pure] at h; subst h; rfl
      | null => simp [normSchemaOrBool, pure, Except.pure] at h; subst h; rfl
      | num _ => simp [normSchemaOrBool, pure, Except.pure] at h; subst h; rfl
      | str _ => simp [normSchemaOrBool, pure, Except.pure] at h; subst h; rfl
      | arr _ => simp [normSchemaOrBool, pure, Except.pure] at h; subst h; rfl
    · rename_i hn2
      simp only [hn2, if_false]
      split at h
      · -- SchemaOrArray
        rename_i hn; simp only [hn, if_true]
        cases v with
        | obj ms =>
          obtain ⟨ms', rfl, h2⟩ := schemaObj_second hr (by simpa [normSchemaOrArray] using h) hc
          simpa [normSchemaOrArray] using h2
        | arr xs =>
          simp only [normSchemaOrArray, bind, Except.bind] at h
          split at h
          · simp at h
          · rename_i ys hys
            simp only [pure, Except.pure, Except.ok.injEq] at h; subst h
            have := mapR_second hys (fun x y hx hy => hr.idem _ x y hx hy) (clean_arr hc)
            simp [normSchemaOrArray, this, bind, Except.bind, pure, Except.pure]
        | null => simp [normSchemaOrArray, pure, Except.pure] at h; subst h; rfl
        | bool _ => simp [normSchemaOrArray, pure, Except.pure] at h; subst h; rfl
        | num _ => simp [normSchemaOrArray, pure, Except.pure] at h; subst h; rfl
        | str _ => simp [normSchemaOrArray, pure, Except.pure] at h; subst h; rfl
      · rename_i hn3
        simp only [hn3, if_false]
        split at h
        · -- SchemaOrStringArray
          rename_i hn; simp only [hn, if_true]
          cases v with
          | obj ms =>
            obtain ⟨ms', rfl, h2⟩ := schemaObj_second hr (by simpa [normSchemaOrStringArray] using h) hc
            simpa [normSchemaOrStringArray] using h2
          | arr xs =>
            simp only [normSchemaOrStringArray, bind, Except.bind] at h
            split at h
            · simp at h
            · rename_i ys hys
              simp only [pure, Except.pure, Except.ok.injEq] at h
              have hfix := mapR_strElem_fixed hys
              cases hemp : ys.isEmpty with
              | true => simp [hemp] at h; subst h; rfl
              | false =>
                simp [hemp] at h; subst h
                simp [normSchemaOrStringArray, hfix, bind, Except.bind, pure, Except.pure, hemp]
          | null => simp [normSchemaOrStringArray, pure, Except.pure] at h; subst h; rfl
          | bool _ => simp [normSchemaOrStringArray, pure, Except.pure] at h; subst h; rfl
          | num _ => simp [normSchemaOrStringArray, pure, Except.pure] at h; subst h; rfl
          | str _ => simp [normSchemaOrStringArray, pure, Except.pure] at h; subst h; rfl
        · rename_i hn4
          simp only [hn4, if_false]
          split at h
          · -- SchemaProperties
            rename_i hn; simp only [hn, if_true]
            cases v with
            | obj ms =>
              simp only [normSchemaProperties, bind, Except.bind] at h
              split at h
              · simp at h
              · rename_i ys hys
                simp only [pure, Except.pure, Except.ok.injEq] at h; subst h
                have hsorted := mapMembersR_sorted ms ys hys
                have hperm := sortBy_perm_generic lessItem ys
                have hcm := clean_obj hc
                obtain ⟨ys', e1, e2, e3⟩ := mapMembersR_of_fixed (f := rec (.kind "schema")) (sortBy lessItem ys)
                  (perm_nodup_keys hperm (keysSorted_nodup hsorted))
                  (fun m hm => by
                    obtain ⟨x, _, _, hx⟩ := mapMembersR_mem ms ys hys m (hperm.mem_iff.mp hm)
                    exact hr.idem _ _ _ hx (hcm m hm).2.2)
                have : ys' = ys := sorted_ext e2 hsorted (fun m => by rw [e3 m]; exact hperm.mem_iff)
                subst this
                simp [normSchemaProperties, e1, bind, Except.bind, pure, Except.pure]
            | null => simp [normSchemaProperties, pure, Except.pure] at h; subst h; rfl
            | bool _ => simp [normSchemaProperties, goError] at h
            | num _ => simp [normSchemaProperties, goError] at h
            | str _ => simp [normSchemaProperties, goError] at h
            | arr _ => simp [normSchemaProperties, goError] at h
          · simp [outOfModel] at h


/-! ### strconv.Atoi ∘ strconv.Itoa -/

theorem digitVal_of_isDigit {c : Char} (h : c.isDigit = true) : digitVal c = some (c.toNat - 48) := by
  unfold digitVal
  have : '0' ≤ c ∧ c ≤ '9' := by
    simp only [Char.isDigit, Bool.and_eq_true, decide_eq_true_eq] at h
    exact ⟨by simpa [Char.le_def] using h.1, by simpa [Char.le_def] using h.2⟩
  simp [this]

theorem digitsVal_eq : ∀ (cs : List Char) (acc : Nat), (∀ c ∈ cs, c.isDigit = true) →
    digitsVal cs acc = some (Nat.ofDigitChars 10 cs acc) := by
  intro cs
  induction cs with
  | nil => intro acc _; simp [digitsVal, Nat.ofDigitChars_nil]
  | cons c rest ih =>
    intro acc h
    simp only [digitsVal, digitVal_of_isDigit (h c (by simp)), Nat.ofDigitChars_cons]
    rw [ih _ (fun d hd => h d (by simp [hd]))]
    congr 2
    show acc * 10 + (c.toNat - 48) = 10 * acc + (c.toNat - '0'.toNat)
    have : '0'.toNat = 48 := rfl
    rw [this]; omega

theorem digitsVal_toDigits (m : Nat) : digitsVal (Nat.toDigits 10 m) 0 = some m := by
  rw [digitsVal_eq _ _ (fun c hc => Nat.isDigit_of_mem_toDigits (by decide) (by decide) hc)]
  simp


def int64Range (v : Int) : Prop := -9223372036854775808 ≤ v ∧ v ≤ 9223372036854775807

theorem atoi_itoa (n : Int) (hr : int64Range n) : atoi (itoa n) = some n := by
  unfold itoa atoi
  cases n with
  | ofNat m =>
    have hrepr : (toString (Int.ofNat m)).toList = Nat.toDigits 10 m := by
      show (toString m).toList = _
      exact Nat.toList_repr
    rw [hrepr]
    cases hd : Nat.toDigits 10 m with
    | nil => exact absurd hd Nat.toDigits_ne_nil
    | cons c rest =>
      have hc : c.isDigit := Nat.isDigit_of_mem_toDigits (by decide) (by decide) (hd ▸ List.mem_cons_self ..)
      have h1 : c ≠ '-' := by intro h'; subst h'; simp [Char.isDigit] at hc
      have h2 : c ≠ '+' := by intro h'; subst h'; simp [Char.isDigit] at hc
      have hv := digitsVal_toDigits m
      rw [hd] at hv
      split
      · rename_i heq; simp at heq; exact absurd heq.1 h1
      · rename_i heq; simp at heq; exact absurd heq.1 h2
      · have hr' : -9223372036854775808 ≤ (m : Int) ∧ (m : Int) ≤ 9223372036854775807 := hr
        simp [hv, hr']
  | negSucc m =>
    have hlist : (toString (Int.negSucc m)).toList = '-' :: Nat.toDigits 10 (m + 1) := by
      show ("-" ++ toString (m + 1)).toList = _
      simp [Nat.toList_repr]
    rw [hlist]
    have hv := digitsVal_toDigits (m + 1)
    cases hd : Nat.toDigits 10 (m + 1) with
    | nil => exact absurd hd Nat.toDigits_ne_nil
    | cons c rest =>
      rw [hd] at hv
      have hr' : -9223372036854775808 ≤ -((m + 1 : Nat) : Int) ∧ -((m + 1 : Nat) : Int) ≤ 9223372036854775807 := by
        have : Int.negSucc m = -((m + 1 : Nat) : Int) := rfl
        rw [← this]; exact hr
      simp [hv]
      have e : Int.negSucc m = -((m : Int) + 1) := by omega
      refine ⟨?_, by omega⟩
      unfold int64Range at hr
      omega


theorem atoi_range {s : String} {n : Int} (h : atoi s = some n) : int64Range n := by
  unfold atoi at h
  simp only at h
  repeat' split at h
  all_goals first
    | (simp at h; done)
    | (simp at h; unfold int64Range; omega)

theorem atoi_default : atoi "default" = none := by decide

theorem itoa_ne_default {n : Int} (hr : int64Range n) : itoa n ≠ "default" := by
  intro h
  have := atoi_itoa n hr
  rw [h, atoi_default] at this
  simp at this

theorem hasXPrefix_isExtKey {k : String} (h : hasXPrefix k = true) : isExtKey k = true := by
  unfold hasXPrefix at h
  unfold isExtKey
  split at h
  · rename_i heq; rw [heq]; rfl
  · simp at h

theorem hasXPrefix_itoa (n : Int) : hasXPrefix (itoa n) = false := by
  cases h : hasXPrefix (itoa n) with
  | false => rfl
  | true => have := hasXPrefix_isExtKey h; rw [isExtKey_itoa] at this; simp at this

/-! ### Go maps of objects without duplicate names -/

theorem toGoMap_mem_iff : ∀ (ms : List (String × Json)), (keysOf ms).Nodup → ∀ m, m ∈ toGoMap ms ↔ m ∈ ms := by
  intro ms
  induction ms with
  | nil => intro _ m; simp [toGoMap]
  | cons a rest ih =>
    obtain ⟨k, v⟩ := a
    intro hnd m
    simp only [keysOf, List.map_cons, List.nodup_cons] at hnd
    have hk : k ∉ keysOf (toGoMap rest) := fun hm => hnd.1 (toGoMap_keys rest k hm)
    show m ∈ insertKeep k v (toGoMap rest) ↔ _
    rw [mem_insertKeep_of_not_key hk m, ih hnd.2 m]
    simp [List.mem_cons]

theorem toGoMap_eq_of_sorted_mem {ms b : List (String × Json)} (hnd : (keysOf ms).Nodup) (hb : KeysSorted b)
    (h : ∀ m, m ∈ ms ↔ m ∈ b) : toGoMap ms = b :=
  sorted_ext (toGoMap_sorted ms) hb (fun m => by rw [toGoMap_mem_iff ms hnd m, h m])


/-! ### Responses -/

/-- keys `Responses.UnmarshalJSON` does not read as status codes -/
def skipKey (k : String) : Bool := k == "default" || hasXPrefix k

theorem statusEntries_img {rec : Rec} : ∀ (ms : List (String × Json)) (es : List (Int × Json)),
    statusEntries rec ms = .ok es → ∀ e ∈ es, int64Range e.1 ∧ ∃ v, rec (.kind "response") v = .ok e.2 := by
  intro ms
  induction ms with
  | nil => intro es h; simp [statusEntries, pure, Except.pure] at h; subst h; simp
  | cons a rest ih =>
    obtain ⟨k, v⟩ := a
    intro es h
    simp only [statusEntries] at h
    split at h
    · exact ih es h
    · simp only [bind, Except.bind] at h
      split at h
      · simp at h
      · rename_i r hr'
        split at h
        · simp at h
        · rename_i more hmore
          split at h
          · rename_i n hn
            simp only [pure, Except.pure, Except.ok.injEq] at h; subst h
            intro e he
            rcases List.mem_cons.mp he with rfl | he
            · exact ⟨atoi_range hn, v, hr'⟩
            · exact ih more hmore e he
          · simp only [pure, Except.pure, Except.ok.injEq] at h; subst h
            exact ih more hmore

/-- reading back a list whose status-code members are decimal numerals holding fixed points -/
theorem statusEntries_char {rec : Rec} : ∀ (zs : List (String × Json)),
    (∀ m ∈ zs, skipKey m.1 = true ∨ ∃ n, m.1 = itoa n ∧ int64Range n ∧ rec (.kind "response") m.2 = .ok m.2) →
    ∃ cs, statusEntries rec zs = .ok cs ∧
      cs.map (fun e => (itoa e.1, e.2)) = zs.filter (fun m => !skipKey m.1) := by
  intro zs
  induction zs with
  | nil => intro _; exact ⟨[], rfl, rfl⟩
  | cons a rest ih =>
    obtain ⟨k, v⟩ := a
    intro h
    obtain ⟨cs, h1, h2⟩ := ih (fun m hm => h m (by simp [hm]))
    cases hs : skipKey k with
    | true =>
      refine ⟨cs, ?_, by simp [List.filter_cons, hs, h2]⟩
      have : (k == "default" || hasXPrefix k) = true := hs
      simp [statusEntries, this, h1]
    | false =>
      rcases h (k, v) (by simp) with h' | ⟨n, hk, hr, hv⟩
      · simp only at h'; rw [hs] at h'; simp at h'
      · simp only at hk hv
        have hs' : (k == "default" || hasXPrefix k) = false := hs
        refine ⟨(n, v) :: cs, ?_, ?_⟩
        · simp only [statusEntries, hs', Bool.false_eq_true, if_false, bind, Except.bind, hv, h1]
          rw [hk, atoi_itoa n hr]
          rfl
        · have hs2 : skipKey (itoa n) = false := by rw [← hk]; exact hs
          simp [List.filter_cons, hs2, h2, hk]

theorem hasDupCodes_false : ∀ (cs : List (Int × Json)), (cs.map (fun e => itoa e.1)).Nodup → hasDupCodes cs = false := by
  intro cs
  induction cs with
  | nil => intro _; rfl
  | cons a rest ih =>
    obtain ⟨n, v⟩ := a
    intro h
    simp only [List.map_cons, List.nodup_cons] at h
    simp only [hasDupCodes, Bool.or_eq_false_iff, ih h.2, and_true]
    rw [List.any_eq_false]
    intro e he
    simp only [beq_iff_eq]
    intro heq
    exact h.1 (List.mem_map.mpr ⟨e, he, by rw [heq]⟩)

/-- what the first pass leaves in the `ResponsesProps` part -/
def RespMember (rec : Rec) (m : String × Json) : Prop :=
  (∃ v, rec (.kind "response") v = .ok m.2) ∧ (m.1 = "default" ∨ ∃ n, m.1 = itoa n ∧ int64Range n)

theorem normResponsesProps_img {rec : Rec} {j : Json} {b1 : List (String × Json)}
    (h : normResponsesProps rec j = .ok b1) : KeysSorted b1 ∧ ∀ m ∈ b1, RespMember rec m := by
  cases j with
  | null => simp [normResponsesProps, pure, Except.pure] at h; subst h; exact ⟨keysSorted_nil, by simp⟩
  | bool _ => simp [normResponsesProps, goError] at h
  | num _ => simp [normResponsesProps, goError] at h
  | str _ => simp [normResponsesProps, goError] at h
  | arr _ => simp [normResponsesProps, goError] at h
  | obj ms =>
    simp only [normResponsesProps, bind, Except.bind] at h
    split at h
    · simp at h
    · rename_i dflt hdflt
      split at h
      · simp at h
      · rename_i codes hcodes
        split at h
        · simp [outOfModel] at h
        · simp only [pure, Except.pure, Except.ok.injEq] at h; subst h
          refine ⟨toGoMap_sorted _, ?_⟩
          intro m hm
          have := toGoMap_members _ m hm
          rcases List.mem_append.mp this with h1 | h1
          · unfold defaultPart at hdflt
            split at hdflt
            · simp only [bind, Except.bind] at hdflt
              split at hdflt
              · simp at hdflt
              · rename_i v _ _ r hr'
                simp only [pure, Except.pure, Except.ok.injEq] at hdflt
                rw [← hdflt] at h1
                simp at h1; subst h1
                exact ⟨⟨v, hr'⟩, .inl rfl⟩
            · simp only [pure, Except.pure, Except.ok.injEq] at hdflt
              rw [← hdflt] at h1; simp at h1
          · obtain ⟨e, he, rfl⟩ := List.mem_map.mp h1
            have ⟨i1, i2⟩ := statusEntries_img _ codes hcodes e he
            exact ⟨i2, .inr ⟨e.1, rfl, i1⟩⟩


theorem lookupKey_none_not_mem {ms : List (String × Json)} {n : String} (hnd : (keysOf ms).Nodup)
    (h : lookupKey ms n = none) : n ∉ keysOf ms := by
  intro hk
  simp only [keysOf, List.mem_map] at hk
  obtain ⟨m, hm, rfl⟩ := hk
  have := lookupKey_of_mem hnd (show (m.1, m.2) ∈ ms from hm)
  rw [h] at this; simp at this

theorem normResponsesProps_second {rec : Rec} (hr : RecGood rec) {b1 b2 : List (String × Json)}
    (hs : KeysSorted b1) (himg : ∀ m ∈ b1, RespMember rec m) (hnd : (keysOf (b1 ++ b2)).Nodup)
    (hclean : CleanM (b1 ++ b2)) (hb2 : ∀ m ∈ b2, isExtKey m.1 = true) :
    normResponsesProps rec (.obj (b1 ++ b2)) = .ok b1 := by
  have hraw_mem := toGoMap_mem_iff (b1 ++ b2) hnd
  have hraw_sorted := toGoMap_sorted (b1 ++ b2)
  have hraw_nd := keysSorted_nodup hraw_sorted
  have hb1nd : (keysOf b1).Nodup := keysSorted_nodup hs
  have hfix : ∀ m ∈ b1, rec (.kind "response") m.2 = .ok m.2 := by
    intro m hm
    obtain ⟨⟨v, hv⟩, _⟩ := himg m hm
    exact hr.idem _ _ _ hv (cleanM_vals hclean m (List.mem_append.mpr (.inl hm))).1
  have hskip2 : ∀ m ∈ b2, skipKey m.1 = true := by
    intro m hm
    have := (cleanM_names hclean m (List.mem_append.mpr (.inr hm))).2 (hb2 m hm)
    simp [skipKey, this]
  have hb1_nonskip : ∀ m ∈ b1, m.1 ≠ "default" → skipKey m.1 = false := by
    intro m hm hne
    rcases (himg m hm).2 with h1 | ⟨n, h1, hrg⟩
    · exact absurd h1 hne
    · simp [skipKey, h1, hasXPrefix_itoa, itoa_ne_default hrg]
  -- the `default` member
  have hdflt : defaultPart rec (toGoMap (b1 ++ b2)) =
      .ok (match lookupKey b1 "default" with | some rd => [("default", rd)] | none => []) := by
    cases hl : lookupKey b1 "default" with
    | some rd =>
      have hm := lookupKey_mem hl
      have : lookupKey (toGoMap (b1 ++ b2)) "default" = some rd :=
        lookupKey_of_mem hraw_nd ((hraw_mem _).mpr (List.mem_append.mpr (.inl hm)))
      simp [defaultPart, this, hfix _ hm, bind, Except.bind, pure, Except.pure]
    | none =>
      have h1 := lookupKey_none_not_mem hb1nd hl
      have : "default" ∉ keysOf (toGoMap (b1 ++ b2)) := by
        intro hk
        have := toGoMap_keys _ _ hk
        simp only [keysOf, List.map_append, List.mem_append] at this
        rcases this with h' | h'
        · exact h1 h'
        · simp only [List.mem_map] at h'
          obtain ⟨m, hm, heq⟩ := h'
          have := hb2 m hm
          rw [heq] at this
          exact absurd this (by decide)
      simp [defaultPart, lookupKey_none this, pure, Except.pure]
  -- the status codes
  obtain ⟨cs, hcs, hcsm⟩ := statusEntries_char (rec := rec) (toGoMap (b1 ++ b2)) (by
    intro m hm
    rcases List.mem_append.mp ((hraw_mem m).mp hm) with h1 | h1
    · rcases (himg m h1).2 with h2 | ⟨n, h2, h3⟩
      · left; simp [skipKey, h2]
      · exact .inr ⟨n, h2, h3, hfix m h1⟩
    · exact .inl (hskip2 m h1))
  have hdup : hasDupCodes cs = false := by
    apply hasDupCodes_false
    have : cs.map (fun e => itoa e.1) = keysOf ((toGoMap (b1 ++ b2)).filter (fun m => !skipKey m.1)) := by
      rw [← hcsm]; simp [keysOf, List.map_map, Function.comp_def]
    rw [this]
    exact keysOf_filter_nodup _ hraw_nd
  -- the Go map built from them is the first pass's
  have hres : toGoMap ((match lookupKey b1 "default" with | some rd => [("default", rd)] | none => []) ++
      (toGoMap (b1 ++ b2)).filter (fun m => !skipKey m.1)) = b1 := by
    have hfilt_nd := keysOf_filter_nodup (fun m => !skipKey m.1) hraw_nd
    have hfilt_mem : ∀ m, m ∈ (toGoMap (b1 ++ b2)).filter (fun m => !skipKey m.1) ↔ (m ∈ b1 ∧ m.1 ≠ "default") := by
      intro m
      simp only [List.mem_filter, hraw_mem m, List.mem_append, Bool.not_eq_true']
      constructor
      · rintro ⟨h1 | h1, h2⟩
        · refine ⟨h1, ?_⟩
          intro heq; simp [skipKey, heq] at h2
        · rw [hskip2 m h1] at h2; simp at h2
      · rintro ⟨h1, h2⟩
        exact ⟨.inl h1, hb1_nonskip m h1 h2⟩
    apply toGoMap_eq_of_sorted_mem _ hs
    · intro m
      cases hl : lookupKey b1 "default" with
      | some rd =>
        have hm := lookupKey_mem hl
        simp only [List.mem_append, List.mem_cons, List.not_mem_nil, or_false, hfilt_mem m]
        constructor
        · rintro (h1 | ⟨h1, _⟩)
          · rw [h1]; exact hm
          · exact h1
        · intro h1
          by_cases hk : m.1 = "default"
          · left
            have := lookupKey_of_mem hb1nd (show (m.1, m.2) ∈ b1 from h1)
            rw [hk, hl] at this
            simp only [Option.some.injEq] at this
            obtain ⟨a, b⟩ := m
            simp only at hk this
            rw [hk, this]
          · exact .inr ⟨h1, hk⟩
      | none =>
        have h0 := lookupKey_none_not_mem hb1nd hl
        simp only [List.nil_append, hfilt_mem m]
        constructor
        · exact fun h1 => h1.1
        · intro h1
          exact ⟨h1, fun heq => h0 (by rw [← heq]; exact mem_keysOf h1)⟩
    · cases hl : lookupKey b1 "default" with
      | some rd =>
        simp only [keysOf, List.cons_append, List.nil_append, List.map_cons, List.nodup_cons]
        refine ⟨?_, hfilt_nd⟩
        intro hk
        simp only [List.mem_map] at hk
        obtain ⟨m, hm, heq⟩ := hk
        exact ((hfilt_mem m).mp hm).2 heq
      | none => simpa using hfilt_nd
  simp only [normResponsesProps, rawMap, bind, Except.bind, hdflt, hcs, hdup, Bool.false_eq_true, if_false, pure,
    Except.pure, hcsm, hres]

theorem normResponses_second {rec : Rec} (hr : RecGood rec) {j r : Json} (h : normResponses rec j = .ok r)
    (hc : Clean r) : normResponses rec r = .ok r := by
  have hnd := normResponses_nd hr.nd h
  simp only [normResponses, bind, Except.bind] at h
  split at h
  · simp at h
  · rename_i b1 hb1
    split at h
    · simp at h
    · rename_i b2 hb2
      simp only [pure, Except.pure, Except.ok.injEq] at h; subst h
      rw [concatMembers_eq] at hnd hc ⊢
      have hfl : [b1, b2].flatten = b1 ++ b2 := by simp
      rw [hfl] at hnd hc ⊢
      have hout : (keysOf (b1 ++ b2)).Nodup := by simpa [ND, keysOf] using hnd.1
      have hclean : CleanM (b1 ++ b2) := by simpa [Clean] using hc
      have ⟨i1, i2⟩ := normResponsesProps_img hb1
      have c2 := normExtensions_conf hb2
      have hb2x : ∀ m ∈ b2, isExtKey m.1 = true := by
        intro m hm
        rcases c2.1.2 m.1 (mem_keysOf hm) with h' | ⟨_, h'⟩
        · simp at h'
        · exact h'
      have ⟨_, _, hb1x⟩ := normResponsesProps_nd hr.nd hb1
      have h1 := normResponsesProps_second hr i1 i2 hout hclean hb2x
      have h2 := normExtensions_second hb2 hout hclean (fun m hm => List.mem_append.mpr (.inr hm)) (by
        intro m hm hx
        rcases List.mem_append.mp hm with h' | h'
        · have := hb1x m.1 (mem_keysOf h')
          rw [hx] at this; simp at this
        · exact h')
      simp only [normResponses, bind, Except.bind, h1, h2, pure, Except.pure]
      rw [concatMembers_eq, hfl]

theorem normResponses_isObj {rec : Rec} {j r : Json} (h : normResponses rec j = .ok r) : ∃ ms, r = .obj ms := by
  simp only [normResponses, bind, Except.bind] at h
  repeat (split at h; (· simp at h))
  simp only [pure, Except.pure, Except.ok.injEq] at h; rw [concatMembers_eq] at h; exact ⟨_, h.symm⟩


/-! ### Paths -/

theorem normPaths_second {rec : Rec} (hr : RecGood rec) {j r : Json} (h : normPaths rec j = .ok r)
    (hc : Clean r) : normPaths rec r = .ok r := by
  have hnd := normPaths_nd hr.nd h
  cases j with
  | null => simp [normPaths, pure, Except.pure] at h; subst h; rfl
  | bool _ => simp [normPaths, goError] at h
  | num _ => simp [normPaths, goError] at h
  | str _ => simp [normPaths, goError] at h
  | arr _ => simp [normPaths, goError] at h
  | obj ms =>
    simp only [normPaths, bind, Except.bind] at h
    split at h
    · simp at h
    · rename_i exts hexts
      split at h
      · simp at h
      · rename_i pths hpths
        simp only [pure, Except.pure, Except.ok.injEq] at h; subst h
        rw [concatMembers_eq] at hnd hc ⊢
        have hfl : [exts, pths].flatten = exts ++ pths := by simp
        rw [hfl] at hnd hc ⊢
        have hout : (keysOf (exts ++ pths)).Nodup := by simpa [ND, keysOf] using hnd.1
        have hclean : CleanM (exts ++ pths) := by simpa [Clean] using hc
        have hes := mapMembersR_sorted _ exts hexts
        have hps := mapMembersR_sorted _ pths hpths
        have hex : ∀ m ∈ exts, isExtKey m.1 = true := by
          intro m hm
          obtain ⟨x, hx, h1, _⟩ := mapMembersR_mem _ exts hexts m hm
          rw [← h1]; exact (List.mem_filter.mp hx).2
        have hpx : ∀ m ∈ pths, startsWithSlash m.1 = true := by
          intro m hm
          obtain ⟨x, hx, h1, _⟩ := mapMembersR_mem _ pths hpths m hm
          rw [← h1]; exact (List.mem_filter.mp hx).2
        have hraw_mem := toGoMap_mem_iff (exts ++ pths) hout
        have hraw_sorted := toGoMap_sorted (exts ++ pths)
        have he : (rawMap (exts ++ pths)).filter (fun m => isExtKey m.1) = exts := by
          apply sorted_ext (keysSorted_filter _ hraw_sorted) hes
          intro m
          simp only [rawMap, List.mem_filter, hraw_mem m, List.mem_append]
          constructor
          · rintro ⟨h1 | h1, h2⟩
            · exact h1
            · have := startsWithSlash_not_ext m.1 (hpx m h1); rw [h2] at this; simp at this
          · intro h1; exact ⟨.inl h1, hex m h1⟩
        have hp : (rawMap (exts ++ pths)).filter (fun m => startsWithSlash m.1) = pths := by
          apply sorted_ext (keysSorted_filter _ hraw_sorted) hps
          intro m
          simp only [rawMap, List.mem_filter, hraw_mem m, List.mem_append]
          constructor
          · rintro ⟨h1 | h1, h2⟩
            · have := startsWithSlash_not_ext m.1 h2; rw [hex m h1] at this; simp at this
            · exact h1
          · intro h1; exact ⟨.inr h1, hpx m h1⟩
        have h1 : mapMembersR normAny exts = .ok exts := mapMembersR_fixed exts hes (fun m hm => by
          obtain ⟨x, _, _, hx⟩ := mapMembersR_mem _ exts hexts m hm
          exact normAny_idem hx)
        have h2 : mapMembersR (rec (.kind "pathItem")) pths = .ok pths :=
          mapMembersR_second hpths (fun x y hx hy _ => hr.idem _ x y hx hy)
            (fun m hm => cleanM_vals hclean m (List.mem_append.mpr (.inr hm)))
        simp only [normPaths, bind, Except.bind, he, hp, h1, h2, pure, Except.pure]
        rw [concatMembers_eq, hfl]

theorem normPaths_isObj {rec : Rec} {j r : Json} (h : normPaths rec j = .ok r) : ∃ ms, r = .obj ms := by
  cases j with
  | null => simp [normPaths, pure, Except.pure] at h; exact ⟨[], h.symm⟩
  | bool _ => simp [normPaths, goError] at h
  | num _ => simp [normPaths, goError] at h
  | str _ => simp [normPaths, goError] at h
  | arr _ => simp [normPaths, goError] at h
  | obj ms =>
    simp only [normPaths, bind, Except.bind] at h
    repeat (split at h; (· simp at h))
    simp only [pure, Except.pure, Except.ok.injEq] at h; rw [concatMembers_eq] at h; exact ⟨_, h.symm⟩

/-! ### the dispatcher and the recursion -/

theorem normConcatKind_isObj {rec : Rec} {ki : KindInfo} {j r : Json} (h : normConcatKind rec ki j = .ok r) :
    ∃ ms, r = .obj ms := by
  simp only [normConcatKind, bind, Except.bind] at h
  repeat (split at h; (· simp at h))
  simp only [pure, Except.pure, Except.ok.injEq] at h; rw [concatMembers_eq] at h; exact ⟨_, h.symm⟩

/-- kinds that go through the generic `ConcatJSON` codec -/
def regularKinds : List KindInfo :=
  Gen.kinds.filter fun ki => !(["schema", "response", "responses", "paths", "securityScheme"].contains ki.kind) &&
    ki.marshalShape != "reflect"

/-- everything the idempotence argument needs from the GENERATED tables, beyond `TablesOK` -/
structure IdemTablesOK : Prop where
  base : TablesOK
  schemaOmit : schemaAllOmit = true
  noDead : regularKinds.all (fun ki => (deadTargets ki).isEmpty) = true

theorem normKind_isObj {rec : Rec} (k : String) {j r : Json} (h : normKind rec k j = .ok r) : ∃ ms, r = .obj ms := by
  unfold normKind at h
  split at h
  · exact normSchema_isObj h
  · split at h
    · exact normResponse_isObj h
    · split at h
      · exact normResponses_isObj h
      · split at h
        · exact normPaths_isObj h
        · split at h
          · exact normSecurityScheme_isObj h
          · split at h
            · simp at h
            · split at h
              · simp only [bind, Except.bind] at h
                split at h
                · simp at h
                · simp only [pure, Except.pure, Except.ok.injEq] at h; exact ⟨_, h.symm⟩
              · exact normConcatKind_isObj h

theorem normKind_second {rec : Rec} (hr : RecGood rec) (ok : IdemTablesOK) (k : String) {j r : Json}
    (h : normKind rec k j = .ok r) (hc : Clean r) : normKind rec k r = .ok r := by
  have hcu := ok.base.custom
  simp only [customKindsOK, Bool.and_eq_true] at hcu
  unfold normKind at h ⊢
  split at h
  · rename_i hk; simp only [hk, if_true]; exact normSchema_second hr ok.base.tables hcu.1.1 ok.schemaOmit h hc
  · rename_i hk1
    simp only [hk1, if_false]
    split at h
    · rename_i hk; simp only [hk, if_true]; exact normResponse_second hr ok.base.tables hcu.1.2 h hc
    · rename_i hk2
      simp only [hk2, if_false]
      split at h
      · rename_i hk; simp only [hk, if_true]; exact normResponses_second hr h hc
      · rename_i hk3
        simp only [hk3, if_false]
        split at h
        · rename_i hk; simp only [hk, if_true]; exact normPaths_second hr h hc
        · rename_i hk4
          simp only [hk4, if_false]
          split at h
          · rename_i hk; simp only [hk, if_true]; exact normSecurityScheme_second hr ok.base.tables hcu.2 h hc
          · rename_i hk5
            simp only [hk5, if_false]
            split at h
            · simp at h
            · rename_i ki hki
              simp only [Bool.false_eq_true, if_false]
              have hmem : ki ∈ Gen.kinds := List.mem_of_find?_eq_some hki
              have hkind : ki.kind = k := by simpa using List.find?_some hki
              split at h
              · rename_i hshape
                simp only [hshape, if_true]
                simp only [bind, Except.bind] at h ⊢
                split at h
                · simp at h
                · rename_i ms hms
                  simp only [pure, Except.pure, Except.ok.injEq] at h; subst h
                  rw [normReflect_second hr ok.base.tables _ hms hc]
                  rfl
              · rename_i hshape
                simp only [hshape, Bool.false_eq_true, if_false]
                have hparts := List.all_eq_true.mp ok.base.kinds ki hmem
                have hreg : ki ∈ regularKinds := by
                  unfold regularKinds
                  refine List.mem_filter.mpr ⟨hmem, ?_⟩
                  simp only [Bool.and_eq_true, Bool.not_eq_true', bne_iff_ne, ne_eq]
                  refine ⟨?_, by simpa using hshape⟩
                  rw [hkind]
                  simp only [List.contains_cons, List.contains_nil, Bool.or_false, Bool.or_eq_false_iff]
                  exact ⟨by simpa using hk1, by simpa using hk2, by simpa using hk3, by simpa using hk4, by simpa using hk5⟩
                have hdead : deadTargets ki = [] := by
                  have := List.all_eq_true.mp ok.noDead ki hreg
                  simpa using this
                exact normConcatKind_second hr ok.base.tables ki hparts hdead h hc

/-- the recursion closes -/
theorem normF_good (ok : IdemTablesOK) : ∀ fuel, RecGood (normF fuel) := by
  intro fuel
  induction fuel with
  | zero =>
    exact ⟨fun t v r h => by simp [normF] at h, fun k v r h => by simp [normF] at h, normF_nd ok.base 0⟩
  | succ n ih =>
    refine ⟨?_, ?_, normF_nd ok.base (n + 1)⟩
    · intro t v r h hc
      cases t with
      | kind k => simpa [normF] using normKind_second ih ok k (by simpa [normF] using h) hc
      | named nm => simpa [normF] using normNamed_second ih nm (by simpa [normF] using h) hc
    · intro k v r h
      exact normKind_isObj k (by simpa [normF] using h)

/-- **C07 for whole documents, at any fuel**: decoding and encoding the output again, with the same budget,
returns the output. -/
theorem normF_idem (ok : IdemTablesOK) (fuel : Nat) (k : String) (j j₁ : Json)
    (h : normF fuel (.kind k) j = .ok j₁) (hc : Clean j₁) : normF fuel (.kind k) j₁ = .ok j₁ :=
  (normF_good ok fuel).idem _ _ _ h hc


/-! ### an executable test for `Clean` (run by the driver on the implementation's outputs) -/

def nameOKB (k : String) : Bool :=
  keywordList.all (fun n => foldName k != foldName n || k == n) && (!isExtKey k || hasXPrefix k)

def notNull : Json → Bool
  | .null => false
  | _ => true

mutual
  def cleanB : Json → Bool
    | .num n => decide (n.natAbs ≤ floatExact)
    | .arr xs => cleanLB xs
    | .obj ms => cleanMB ms
    | _ => true
  def cleanLB : List Json → Bool
    | [] => true
    | x :: xs => cleanB x && cleanLB xs
  def cleanMB : List (String × Json) → Bool
    | [] => true
    | (k, v) :: rest => nameOKB k && notNull v && cleanB v && cleanMB rest
end

theorem nameOKB_sound {k : String} (h : nameOKB k = true) : NameOK k := by
  simp only [nameOKB, Bool.and_eq_true, List.all_eq_true, Bool.or_eq_true, bne_iff_ne, ne_eq, beq_iff_eq,
    Bool.not_eq_true'] at h
  refine ⟨?_, ?_⟩
  · intro n hn hf
    rcases h.1 n hn with h1 | h1
    · exact absurd hf h1
    · exact h1
  · intro hx
    rcases h.2 with h1 | h1
    · rw [hx] at h1; simp at h1
    · exact h1

theorem notNull_sound {v : Json} (h : notNull v = true) : v ≠ .null := by
  intro hv; subst hv; simp [notNull] at h

mutual
  theorem cleanB_sound : ∀ (j : Json), cleanB j = true → Clean j
    | .num n, h => by simpa [cleanB, Clean] using h
    | .arr xs, h => by simp only [Clean]; exact cleanLB_sound xs (by simpa [cleanB] using h)
    | .obj ms, h => by simp only [Clean]; exact cleanMB_sound ms (by simpa [cleanB] using h)
    | .null, _ => by simp [Clean]
    | .bool _, _ => by simp [Clean]
    | .str _, _ => by simp [Clean]
  theorem cleanLB_sound : ∀ (xs : List Json), cleanLB xs = true → CleanL xs
    | [], _ => by simp [CleanL]
    | x :: xs, h => by
        simp only [cleanLB, Bool.and_eq_true] at h
        exact ⟨cleanB_sound x h.1, cleanLB_sound xs h.2⟩
  theorem cleanMB_sound : ∀ (ms : List (String × Json)), cleanMB ms = true → CleanM ms
    | [], _ => by simp [CleanM]
    | (k, v) :: rest, h => by
        simp only [cleanMB, Bool.and_eq_true] at h
        obtain ⟨⟨⟨h1, h2⟩, h4⟩, h5⟩ := h
        exact ⟨nameOKB_sound h1, notNull_sound h2, cleanB_sound v h4, cleanMB_sound rest h5⟩
end

end SpecModel.Codec
