/-
Side conditions that tie the codec model and its theorems to the Go source: decidable predicates over the
tables that `harness/cmd/extract` regenerates on every run from /repo's working tree
(`SpecModel/Generated/Tables.lean`: struct tags and field types by reflection, the part lists of every
MarshalJSON / UnmarshalJSON / JSONLookup by go/ast) and over the PINNED vocabulary of Swagger 2.0 / JSON-Schema
draft-4 (`spec_vocab.json`, written from the standards, not from the code).  `Props/C01 … C19` discharge them by
`decide`: a keyword that is dropped, renamed or mis-tagged, a part that an encoder, decoder or pointer lookup
forgets, two parts that share a member name, a validation that stops being a pointer — each breaks a proof
obligation even if no generated document happens to exercise it.
-/
import SpecModel.Codec.Types
import SpecModel.Generated.Tables

namespace SpecModel.Codec.Side
open SpecModel.Codec SpecModel

def isExtKey (k : String) : Bool :=
  match k.toList with
  | c :: '-' :: _ => c == 'x' || c == 'X'
  | _ => false

/-- member names a part of a kind's MarshalJSON / UnmarshalJSON stands for -/
def partNames (p : String) : List String :=
  if p == "VendorExtensible" || p == "Extensions" || p == "ExtraProps" || p == "local:pths" || p == "Paths" then []
  else if p == "Refable" || p == "Ref" then ["$ref"]
  else if p == "Schema" then ["$schema"]
  else if p == "ResponsesProps" then ["default"]
  else jsonNames (lookupStruct Gen.structs p)

def encodedNames (ki : KindInfo) : List String :=
  if ki.marshalShape == "reflect" then jsonNames (lookupStruct Gen.structs ki.goType)
  else ki.marshalParts.flatMap partNames

/-- `Schema.UnmarshalJSON` assigns Ref, Schema, Extensions and ExtraProps from the generic map by hand: its
AST target list only shows the two reflective parts. -/
def decodedNames (ki : KindInfo) : List String :=
  if ki.marshalShape == "reflect" then jsonNames (lookupStruct Gen.structs ki.goType)
  else ki.unmarshalTargets.flatMap partNames ++ (if ki.kind == "schema" then ["$ref", "$schema"] else [])

def subset (a b : List String) : Bool := a.all b.contains

/-! ### C01 / C19: the whole vocabulary is carried -/

/-- every keyword the standards define for a kind is a member name of a part the kind both decodes and encodes -/
def coverage (kinds : List KindInfo) (vocab : List (String × List String × Bool × Bool)) : Bool :=
  vocab.all fun (k, names, _, _) =>
    match lookupKind kinds k with
    | none => false
    | some ki => subset names (encodedNames ki) && subset names (decodedNames ki)

/-- the kind keeps `x-` members: its encoder and its decoder both have the extensions part -/
def keepsExtensions (ki : KindInfo) : Bool :=
  ki.marshalParts.contains "VendorExtensible" &&
  (ki.unmarshalTargets.contains "VendorExtensible" || ki.unmarshalTargets.contains "Extensions" || ki.kind == "schema")

/-- kinds the standard allows `x-` members on but whose codec has no extensions part -/
def extensionGaps (kinds : List KindInfo) (vocab : List (String × List String × Bool × Bool)) : List String :=
  (vocab.filter fun (k, _, ext, _) =>
    ext && !(match lookupKind kinds k with
      | none => false
      | some ki => keepsExtensions ki)).map (·.1)

/-- unknown members survive exactly where the standard allows them (schemas): an ExtraProps part -/
def keepsUnknown (kinds : List KindInfo) (vocab : List (String × List String × Bool × Bool)) : Bool :=
  vocab.all fun (k, _, _, extra) =>
    !extra || (match lookupKind kinds k with
      | none => false
      | some ki => ki.marshalParts.contains "ExtraProps")

def numericValidations : List String :=
  ["maximum", "minimum", "multipleOf", "maxLength", "minLength", "maxItems", "minItems", "maxProperties", "minProperties"]

/-- numeric validations are pointers (so that the value 0 is not "empty") in every struct that has them -/
def zeroValidationsSurvive (structs : List (String × List Field)) : Bool :=
  structs.all fun (_, fs) =>
    fs.all fun f => !numericValidations.contains f.jsonName || f.skip || f.ft == .optInt || f.ft == .optFloat

/-! ### C06: no two parts of a kind can emit the same member name -/

/-- the statically named members of a kind are pairwise distinct and none looks like an extension -/
def partsDisjoint (kinds : List KindInfo) : Bool :=
  kinds.all fun ki => decide (encodedNames ki).Nodup && (encodedNames ki).all fun n => !isExtKey n

/-- a part that is encoded is also decoded, and conversely (otherwise a member is emitted from a zero value, or
read and lost); `Schema` is decoded by hand (see `decodedNames`) -/
def partsPaired (kinds : List KindInfo) : Bool :=
  kinds.all fun ki =>
    ki.kind == "schema" || ki.kind == "paths" ||
    (subset ki.marshalParts ki.unmarshalTargets && subset ki.unmarshalTargets ki.marshalParts)

/-! ### C15: JSONLookup consults every part the encoder emits -/

def lookupName (p : String) : List String :=
  if p == "VendorExtensible" then ["Extensions"]
  else if p == "Refable" then ["Ref"]
  else if p == "ResponsesProps" then ["Default", "StatusCodeResponses"]
  else if p == "local:pths" then ["Paths"]
  else [p]

/-- (kind, part) such that the kind's MarshalJSON emits the part but its JSONLookup never consults it.
Kinds without a hand-written JSONLookup (empty chain) are resolved by reflection and are not listed. -/
def lookupGaps (kinds : List KindInfo) : List (String × String) :=
  kinds.flatMap fun ki =>
    if ki.lookupChain.isEmpty then []
    else (ki.marshalParts.filter fun p => !subset (lookupName p) ki.lookupChain).map fun p => (ki.kind, p)

/-- kinds with a custom encoder but no custom JSONLookup -/
def noLookup (kinds : List KindInfo) : List String :=
  (kinds.filter fun ki => ki.marshalShape != "reflect" && ki.lookupChain.isEmpty).map (·.kind)

/-! ### C19: members the meta-schema requires -/

def fieldOf (structs : List (String × List Field)) (ki : KindInfo) (name : String) : Option Field :=
  let parts := if ki.marshalShape == "reflect" then [ki.goType] else ki.marshalParts
  (parts.flatMap fun p => visibleFields (lookupStruct structs p)).find? (·.jsonName == name)
where visibleFields (fs : List Field) : List Field := fs.filter fun f => !f.skip && !f.embedded

/-- (kind, member): the meta-schema requires the member, the codec tags it `omitempty` -/
def requiredOmitEmpty (kinds : List KindInfo) (structs : List (String × List Field))
    (req : List (String × List String)) : List (String × String) :=
  req.flatMap fun (k, names) =>
    match lookupKind kinds k with
    | none => []
    | some ki => (names.filter fun n =>
        match fieldOf structs ki n with
        | some f => f.omitEmpty
        | none => false).map fun n => (k, n)

/-- every required member has a field (of any tagging) in the kind's tables -/
def requiredPresent (kinds : List KindInfo) (structs : List (String × List Field))
    (req : List (String × List String)) : Bool :=
  req.all fun (k, names) =>
    match lookupKind kinds k with
    | none => false
    | some ki => names.all fun n => (fieldOf structs ki n).isSome

end SpecModel.Codec.Side
