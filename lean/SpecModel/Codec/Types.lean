/-
M1 (types) — descriptors of the Go struct layouts the codecs are driven by. The values of these types are
GENERATED (SpecModel/Generated/Tables.lean) by reflection over the compiled package and go/ast over the
custom (un)marshallers; the hand-written codec model and the theorems are generic in them.
-/
namespace SpecModel.Codec

/-- Go field types, as far as `encoding/json` distinguishes them for the model. -/
inductive FT where
  | str | bool | int | float | any
  | optInt | optFloat                 -- *int64, *float64
  | strs | anys                       -- []string, []interface{}
  | strMap | anyMap                   -- map[string]string, map[string]interface{}
  | secReqs                           -- []map[string][]string
  | ptrKind (k : String)              -- *T, T one of the object kinds
  | valKind (k : String)              -- T by value
  | listKind (k : String)             -- []T
  | mapKind (k : String)              -- map[string]T
  | ptrNamed (n : String)             -- *SchemaOrBool, *SchemaOrArray, …
  | mapNamed (n : String)
  | named (n : String)                -- named types with their own codec: StringOrArray, SchemaProperties, Ref, …
  | struct (n : String)               -- embedded / nested plain struct decoded reflectively
  | other (goType : String)
  deriving DecidableEq, Repr, Inhabited

structure Field where
  goName : String
  jsonName : String
  omitEmpty : Bool
  skip : Bool        -- `json:"-"`
  embedded : Bool
  ft : FT
  deriving DecidableEq, Repr, Inhabited

structure KindInfo where
  kind : String
  goType : String
  embedded : List String          -- embedded structs of the Go type (reflection)
  marshalShape : String           -- "concat" (swag.ConcatJSON of encoded parts) | "reflect" (no custom codec) | "custom"
  marshalParts : List String      -- arguments of ConcatJSON, resolved to the receiver parts they encode, in order
  unmarshalTargets : List String  -- receiver parts assigned by UnmarshalJSON (sorted)
  lookupChain : List String       -- receiver parts consulted by JSONLookup, in order
  deriving DecidableEq, Repr, Inhabited

/-- JSON names a struct table contributes to an object (embedded and skipped fields contribute none). -/
def jsonNames (fs : List Field) : List String :=
  (fs.filter fun f => !f.skip && !f.embedded).map (·.jsonName)

def lookupStruct (structs : List (String × List Field)) (n : String) : List Field :=
  ((structs.find? (·.1 == n)).map (·.2)).getD []

def lookupKind (kinds : List KindInfo) (k : String) : Option KindInfo :=
  kinds.find? (·.kind == k)

end SpecModel.Codec
