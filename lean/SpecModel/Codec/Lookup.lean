/-
C15 — a model of the hand-written `JSONLookup` methods (one token), expressed on the JSON encoding of the typed
value, driven by the GENERATED lookup chains; and the theorem that it finds every member the encoder emits.

`lookupTok K ms tok`: the answer of `K.JSONLookup(tok)` on the typed value whose encoding is `.obj ms`, as the JSON
encoding of what it returns (`none` = "object has no field"). The chain of parts consulted, in order, is
`lookupChain` of the kind (go/ast over the method bodies); what each part answers is written here by hand from
the Go code and tied to it by the `lookup` correspondence on every run:
  Extensions          the member of that exact name, if it is an `x-` name
  ExtraProps          (schema) a member that is neither an `x-` name, `$ref`, `$schema` nor a declared keyword
  Ref                 `$ref`: the Ref object itself (not the string: the property excludes `$ref`)
  a props struct      the field of that JSON name (name provider), i.e. the member if it is present
  Default             (responses) `default`
  StatusCodeResponses (responses) a decimal numeral: the member under the canonical numeral
  Paths               (paths) a member whose name starts with `/`
-/
import SpecModel.Codec.Idem

namespace SpecModel.Codec
open SpecModel

/-- what one consulted part answers for a token (`none` = not mine); `absent` stands for the encoding of the zero
value of a declared field whose member is not present (not compared: the property is about present members) -/
def partAnswer (k : String) (ms : List (String × Json)) (tok : String) (part : String) : Option Json :=
  if part == "Extensions" then (if isExtKey tok then lookupKey ms tok else none)
  else if part == "ExtraProps" then (if schemaExtra tok && !isExtKey tok then lookupKey ms tok else none)
  else if part == "Ref" then
    (if tok == "$ref" then some (.obj ((lookupKey ms "$ref").toList.map fun v => ("$ref", v))) else none)
  else if part == "Default" then (if tok == "default" then some ((lookupKey ms "default").getD .null) else none)
  else if part == "StatusCodeResponses" then
    (match atoi tok with
     | some n => lookupKey ms (itoa n)
     | none => none)
  else if part == "Paths" then (if startsWithSlash tok then lookupKey ms tok else none)
  else if (tableNames (lookupStruct Gen.structs part)).contains tok then some ((lookupKey ms tok).getD (.str "<absent>"))
  else none

def chainAnswer (k : String) (ms : List (String × Json)) (tok : String) : List String → Option Json
  | [] => none
  | p :: ps => match partAnswer k ms tok p with
    | some v => some v
    | none => chainAnswer k ms tok ps

def lookupTok (k : String) (ms : List (String × Json)) (tok : String) : Option Json :=
  match lookupKind Gen.kinds k with
  | some ki => chainAnswer k ms tok ki.lookupChain
  | none => none

/-! ### the chain finds every present member -/

/-- if some part of the chain answers with the member itself, and no EARLIER part answers with something else, the
walk returns the member -/
theorem chainAnswer_of {k : String} {ms : List (String × Json)} {tok : String} {v : Json} :
    ∀ (chain : List String), (∀ p ∈ chain, ∀ w, partAnswer k ms tok p = some w → w = v) →
      (∃ p ∈ chain, partAnswer k ms tok p = some v) → chainAnswer k ms tok chain = some v := by
  intro chain
  induction chain with
  | nil => intro _ ⟨p, hp, _⟩; simp at hp
  | cons q rest ih =>
    intro hall hex
    simp only [chainAnswer]
    cases hq : partAnswer k ms tok q with
    | some w => simp [hall q (by simp) w hq]
    | none =>
      simp only
      apply ih (fun p hp w hw => hall p (by simp [hp]) w hw)
      obtain ⟨p, hp, hpa⟩ := hex
      rcases List.mem_cons.mp hp with rfl | hp
      · rw [hq] at hpa; cases hpa
      · exact ⟨p, hp, hpa⟩

/-- every part answers a PRESENT member, if at all, with that member (`$ref` and non-canonical numerals excepted) -/
theorem partAnswer_present {k : String} {ms : List (String × Json)} {tok : String} {v : Json}
    (hl : lookupKey ms tok = some v) (hne : tok ≠ "$ref") (hcanon : ∀ n, atoi tok = some n → itoa n = tok)
    (hdef : tok = "default" → True) (part : String) (w : Json) (h : partAnswer k ms tok part = some w) : w = v := by
  unfold partAnswer at h
  split at h
  · split at h
    · rw [hl] at h; exact (Option.some.inj h).symm
    · cases h
  · split at h
    · split at h
      · rw [hl] at h; exact (Option.some.inj h).symm
      · cases h
    · split at h
      · split at h
        · rename_i heq; exact absurd (by simpa using heq) hne
        · cases h
      · split at h
        · split at h
          · rename_i heq
            have : tok = "default" := by simpa using heq
            subst this
            rw [hl] at h; simpa using h.symm
          · cases h
        · split at h
          · split at h
            · rename_i n hn
              rw [hcanon n hn, hl] at h; exact (Option.some.inj h).symm
            · cases h
          · split at h
            · split at h
              · rw [hl] at h; exact (Option.some.inj h).symm
              · cases h
            · split at h
              · rw [hl] at h; simpa using h.symm
              · cases h


/-- names of the chain entries that are not props structs -/
def specialParts : List String := ["Extensions", "ExtraProps", "Ref", "Default", "StatusCodeResponses", "Paths"]

theorem partAnswer_struct {k : String} {ms : List (String × Json)} {tok p : String} {v : Json}
    (hp : p ∉ specialParts) (ht : tok ∈ tableNames (lookupStruct Gen.structs p)) (hl : lookupKey ms tok = some v) :
    partAnswer k ms tok p = some v := by
  have h1 : (p == "Extensions") = false := by
    apply beq_false_of_ne; intro h; exact hp (by simp [specialParts, h])
  have h2 : (p == "ExtraProps") = false := by
    apply beq_false_of_ne; intro h; exact hp (by simp [specialParts, h])
  have h3 : (p == "Ref") = false := by
    apply beq_false_of_ne; intro h; exact hp (by simp [specialParts, h])
  have h4 : (p == "Default") = false := by
    apply beq_false_of_ne; intro h; exact hp (by simp [specialParts, h])
  have h5 : (p == "StatusCodeResponses") = false := by
    apply beq_false_of_ne; intro h; exact hp (by simp [specialParts, h])
  have h6 : (p == "Paths") = false := by
    apply beq_false_of_ne; intro h; exact hp (by simp [specialParts, h])
  simp only [partAnswer, h1, h2, h3, h4, h5, h6, Bool.false_eq_true, if_false]
  have h7 : (tableNames (lookupStruct Gen.structs p)).contains tok = true := by simpa using ht
  simp only [h7, if_true, hl, Option.getD_some]

theorem partAnswer_ext {k : String} {ms : List (String × Json)} {tok : String} {v : Json}
    (hx : isExtKey tok = true) (hl : lookupKey ms tok = some v) : partAnswer k ms tok "Extensions" = some v := by
  simp [partAnswer, hx, hl]

theorem partAnswer_extra {k : String} {ms : List (String × Json)} {tok : String} {v : Json}
    (he : schemaExtra tok = true) (hx : isExtKey tok = false) (hl : lookupKey ms tok = some v) :
    partAnswer k ms tok "ExtraProps" = some v := by
  simp [partAnswer, he, hx, hl]

theorem partAnswer_default {k : String} {ms : List (String × Json)} {v : Json}
    (hl : lookupKey ms "default" = some v) : partAnswer k ms "default" "Default" = some v := by
  simp [partAnswer, hl]

theorem partAnswer_status {k : String} {ms : List (String × Json)} {n : Int} {v : Json} (hr : int64Range n)
    (hl : lookupKey ms (itoa n) = some v) : partAnswer k ms (itoa n) "StatusCodeResponses" = some v := by
  simp [partAnswer, atoi_itoa n hr, hl]

theorem partAnswer_paths {k : String} {ms : List (String × Json)} {tok : String} {v : Json}
    (hs : startsWithSlash tok = true) (hl : lookupKey ms tok = some v) : partAnswer k ms tok "Paths" = some v := by
  simp [partAnswer, hs, hl]

/-- **the lookup of a kind finds a present member with its value as soon as ONE consulted part answers for it** -/
theorem lookupTok_of_answer {k : String} {ki : KindInfo} (hk : lookupKind Gen.kinds k = some ki)
    {ms : List (String × Json)} {tok : String} {v : Json} (hl : lookupKey ms tok = some v) (hne : tok ≠ "$ref")
    (hcanon : ∀ n, atoi tok = some n → itoa n = tok) {p : String} (hp : p ∈ ki.lookupChain)
    (ha : partAnswer k ms tok p = some v) : lookupTok k ms tok = some v := by
  simp only [lookupTok, hk]
  exact chainAnswer_of _ (fun q _ w hw => partAnswer_present hl hne hcanon (fun _ => trivial) q w hw) ⟨p, hp, ha⟩

/-! ### numerals -/

theorem hcanon_itoa {n : Int} (hr : int64Range n) : ∀ m, atoi (itoa n) = some m → itoa m = itoa n := by
  intro m hm
  rw [atoi_itoa n hr] at hm
  simp only [Option.some.injEq] at hm
  rw [hm]

/-- member names of the generated tables are not decimal numerals -/
def keywordsNotNumerals : Bool := keywordList.all fun n => (atoi n).isNone

theorem hcanon_keyword (hside : keywordsNotNumerals = true) {tok : String} (h : tok ∈ keywordList) :
    ∀ m, atoi tok = some m → itoa m = tok := by
  intro m hm
  have := List.all_eq_true.mp hside tok h
  rw [hm] at this; simp at this

theorem atoi_ext {tok : String} (hx : isExtKey tok = true) : atoi tok = none := by
  unfold isExtKey at hx
  unfold atoi
  split at hx
  · rename_i c rest heq
    simp only [heq]
    have hd : digitVal c = none := by
      unfold digitVal
      rcases Bool.or_eq_true_iff.mp hx with h | h
      · have : c = 'x' := by simpa using h
        subst this; decide
      · have : c = 'X' := by simpa using h
        subst this; decide
    have h1 : c ≠ '-' := by
      rintro rfl; simp at hx
    have h2 : c ≠ '+' := by
      rintro rfl; simp at hx
    split
    · rename_i heq2; simp at heq2; exact absurd heq2.1 h1
    · rename_i heq2; simp at heq2; exact absurd heq2.1 h2
    · simp [digitsVal, hd]
  · cases hx

theorem hcanon_ext {tok : String} (hx : isExtKey tok = true) : ∀ m, atoi tok = some m → itoa m = tok := by
  intro m hm; rw [atoi_ext hx] at hm; cases hm

theorem startsWithSlash_atoi {tok : String} (hs : startsWithSlash tok = true) : atoi tok = none := by
  unfold startsWithSlash at hs
  unfold atoi
  split at hs
  · rename_i rest heq
    simp only [heq]
    split
    · rename_i heq2; simp at heq2
    · rename_i heq2; simp at heq2
    · simp [digitsVal, digitVal]
  · cases hs


/-! ### side conditions on the regenerated chains, and the packaged theorems -/

/-- every live part of the kind is the extensions part, the reference part, or a props struct that the lookup chain
consults -/
def structCovered (ki : KindInfo) : Bool :=
  (liveParts ki).all fun p =>
    p == "VendorExtensible" || p == "Refable" || (ki.lookupChain.contains p && !specialParts.contains p)

def extCovered (ki : KindInfo) : Bool :=
  !(liveParts ki).contains "VendorExtensible" || ki.lookupChain.contains "Extensions"

theorem tableNames_keywords (p : String) : ∀ n ∈ tableNames (lookupStruct Gen.structs p), n ∈ keywordList := by
  intro n hn
  simp only [tableNames, List.mem_map] at hn
  obtain ⟨f, hf, rfl⟩ := hn
  exact lookupStruct_keywords p f hf

/-- **regular kinds** (operation, parameter, header, items, path item, swagger, info, tag, security scheme, response, …):
a present member that one of the kind's encoded parts may emit is found by the typed lookup, with its value -/
theorem member_found_regular {k : String} {ki : KindInfo} (hk : lookupKind Gen.kinds k = some ki)
    (hcov : structCovered ki = true) (hext : extCovered ki = true) (hkw : keywordsNotNumerals = true)
    {ms : List (String × Json)} {tok : String} {v : Json} (hl : lookupKey ms tok = some v) (hne : tok ≠ "$ref")
    {d : PartDesc} (hd : d ∈ (liveParts ki).map descOf) (hc : claims d tok) : lookupTok k ms tok = some v := by
  obtain ⟨p, hp, rfl⟩ := List.mem_map.mp hd
  have hcovp := List.all_eq_true.mp hcov p hp
  unfold descOf at hc
  by_cases h1 : (p == "VendorExtensible") = true
  · simp only [h1, if_true] at hc
    have hx : isExtKey tok = true := by
      rcases hc with h | ⟨_, h⟩
      · simp at h
      · exact h
    have hve : (liveParts ki).contains "VendorExtensible" = true := by
      have : p = "VendorExtensible" := by simpa using h1
      rw [← this]; simpa using hp
    have hch : "Extensions" ∈ ki.lookupChain := by
      unfold extCovered at hext
      rw [hve] at hext
      simpa using hext
    exact lookupTok_of_answer hk hl hne (hcanon_ext hx) hch (partAnswer_ext hx hl)
  · by_cases h2 : (p == "Refable") = true
    · simp only [h1, h2, if_true, Bool.false_eq_true, if_false] at hc
      rcases hc with h | ⟨h, _⟩
      · simp only [List.mem_cons, List.not_mem_nil, or_false] at h; exact absurd h hne
      · simp at h
    · simp only [h1, h2, Bool.false_eq_true, if_false] at hc
      have ht : tok ∈ tableNames (lookupStruct Gen.structs p) := by
        rcases hc with h | ⟨h, _⟩
        · exact h
        · simp at h
      simp only [h1, h2, Bool.false_eq_true, Bool.false_or, Bool.and_eq_true, Bool.not_eq_true'] at hcovp
      have hch : p ∈ ki.lookupChain := by simpa using hcovp.1
      have hsp : p ∉ specialParts := by
        intro h; have : specialParts.contains p = true := by simpa using h
        rw [hcovp.2] at this; cases this
      exact lookupTok_of_answer hk hl hne (hcanon_keyword hkw (tableNames_keywords p tok ht)) hch
        (partAnswer_struct hsp ht hl)

/-- what the encoder of a regular kind emits is claimed by one of its live parts -/
theorem normConcatKind_claims {rec : Rec} (hr : RecND rec) (hT : tablesNodup Gen.structs = true) (ki : KindInfo)
    {j : Json} {ms : List (String × Json)} (h : normConcatKind rec ki j = .ok (.obj ms)) :
    ∀ m ∈ ms, ∃ d ∈ (liveParts ki).map descOf, claims d m.1 := by
  simp only [normConcatKind, bind, Except.bind] at h
  split at h
  · simp at h
  · split at h
    · simp at h
    · rename_i bs hbs
      split at h
      · simp at h
      · simp only [pure, Except.pure, Except.ok.injEq] at h
        rw [concatMembers_eq] at h
        simp only [Json.obj.injEq] at h
        subst h
        have ⟨c1, _⟩ := normParts_conf hr hT j _ bs hbs
        exact confAll_claims c1

/-- **schema**: declared keywords, extensions and unknown keywords are all found (`$ref` and `$schema` excepted:
the property excludes the former, the latter is known finding K-C15-1) -/
theorem member_found_schema {ki : KindInfo} (hk : lookupKind Gen.kinds "schema" = some ki)
    (hchain : ["Extensions", "ExtraProps", "SchemaProps", "SwaggerSchemaProps"].all ki.lookupChain.contains = true)
    (hkw : keywordsNotNumerals = true) {ms : List (String × Json)} {tok : String} {v : Json}
    (hl : lookupKey ms tok = some v) (hne : tok ≠ "$ref") (hns : tok ≠ "$schema")
    (hcanon : ∀ n, atoi tok = some n → itoa n = tok) : lookupTok "schema" ms tok = some v := by
  simp only [List.all_cons, List.all_nil, Bool.and_true, Bool.and_eq_true, List.contains_eq_mem, decide_eq_true_eq] at hchain
  obtain ⟨c1, c2, c3, c4⟩ := hchain
  by_cases hx : isExtKey tok = true
  · exact lookupTok_of_answer hk hl hne hcanon c1 (partAnswer_ext hx hl)
  · have hx' : isExtKey tok = false := by simpa using hx
    by_cases he : schemaExtra tok = true
    · exact lookupTok_of_answer hk hl hne hcanon c2 (partAnswer_extra he hx' hl)
    · -- a declared keyword of one of the two props structs
      have he' : schemaExtra tok = false := by simpa using he
      have hknown : schemaKnownNames.contains tok = true := by
        unfold schemaExtra at he'
        have h1 : (tok == "$ref") = false := by simpa using hne
        have h2 : (tok == "$schema") = false := by simpa using hns
        simpa [h1, h2] using he'
      rw [schemaKnown_eq] at hknown
      have : tok ∈ tableNames (lookupStruct Gen.structs "SchemaProps") ∨
          tok ∈ tableNames (lookupStruct Gen.structs "SwaggerSchemaProps") := by simpa using hknown
      rcases this with ht | ht
      · exact lookupTok_of_answer hk hl hne hcanon c3 (partAnswer_struct (by decide) ht hl)
      · exact lookupTok_of_answer hk hl hne hcanon c4 (partAnswer_struct (by decide) ht hl)

/-- **responses**: `default`, status codes (canonical numerals) and extensions -/
theorem member_found_responses {ki : KindInfo} (hk : lookupKind Gen.kinds "responses" = some ki)
    (hchain : ["Default", "Extensions", "StatusCodeResponses"].all ki.lookupChain.contains = true)
    {ms : List (String × Json)} {tok : String} {v : Json} (hl : lookupKey ms tok = some v)
    (hem : tok = "default" ∨ isExtKey tok = true ∨ ∃ n, tok = itoa n ∧ int64Range n) :
    lookupTok "responses" ms tok = some v := by
  simp only [List.all_cons, List.all_nil, Bool.and_true, Bool.and_eq_true, List.contains_eq_mem, decide_eq_true_eq] at hchain
  obtain ⟨c1, c2, c3⟩ := hchain
  rcases hem with rfl | hx | ⟨n, rfl, hr⟩
  · exact lookupTok_of_answer hk hl (by decide) (by intro n hn; rw [atoi_default] at hn; cases hn) c1 (partAnswer_default hl)
  · have hne : tok ≠ "$ref" := by rintro rfl; simp [isExtKey] at hx
    exact lookupTok_of_answer hk hl hne (hcanon_ext hx) c2 (partAnswer_ext hx hl)
  · have hne : itoa n ≠ "$ref" := by
      intro h
      have := atoi_itoa n hr
      rw [h] at this
      have h0 : atoi "$ref" = none := by decide
      rw [h0] at this; cases this
    exact lookupTok_of_answer hk hl hne (hcanon_itoa hr) c3 (partAnswer_status hr hl)

/-- **paths**: path templates and extensions -/
theorem member_found_paths {ki : KindInfo} (hk : lookupKind Gen.kinds "paths" = some ki)
    (hchain : ["Paths", "Extensions"].all ki.lookupChain.contains = true)
    {ms : List (String × Json)} {tok : String} {v : Json} (hl : lookupKey ms tok = some v)
    (hem : startsWithSlash tok = true ∨ isExtKey tok = true) : lookupTok "paths" ms tok = some v := by
  simp only [List.all_cons, List.all_nil, Bool.and_true, Bool.and_eq_true, List.contains_eq_mem, decide_eq_true_eq] at hchain
  obtain ⟨c1, c2⟩ := hchain
  rcases hem with hs | hx
  · have hne : tok ≠ "$ref" := by rintro rfl; simp [startsWithSlash] at hs
    exact lookupTok_of_answer hk hl hne (by intro n hn; rw [startsWithSlash_atoi hs] at hn; cases hn) c1 (partAnswer_paths hs hl)
  · have hne : tok ≠ "$ref" := by rintro rfl; simp [isExtKey] at hx
    exact lookupTok_of_answer hk hl hne (hcanon_ext hx) c2 (partAnswer_ext hx hl)


/-! ### from `norm`: the statements about actual encodings -/

theorem nd_obj_lookup {ms : List (String × Json)} (h : ND (.obj ms)) {tok : String} {v : Json} (hm : (tok, v) ∈ ms) :
    lookupKey ms tok = some v := by
  simp only [ND] at h
  exact lookupKey_of_mem h.1 hm

/-- the kinds whose codec is the generic `ConcatJSON` one and that have a hand-written lookup -/
def concatLookupKind (ki : KindInfo) : Bool :=
  !(["schema", "response", "responses", "paths", "securityScheme"].contains ki.kind) &&
    ki.marshalShape != "reflect" && !ki.lookupChain.isEmpty

theorem normKind_concat {rec : Rec} {k : String} {ki : KindInfo} (hk : lookupKind Gen.kinds k = some ki)
    (hc : concatLookupKind ki = true) (j : Json) : normKind rec k j = normConcatKind rec ki j := by
  have hkind : ki.kind = k := by simpa using List.find?_some hk
  simp only [concatLookupKind, Bool.and_eq_true, Bool.not_eq_true', bne_iff_ne, ne_eq] at hc
  obtain ⟨⟨h1, h2⟩, _⟩ := hc
  rw [hkind] at h1
  simp only [List.contains_cons, List.contains_nil, Bool.or_false, Bool.or_eq_false_iff, beq_eq_false_iff_ne, ne_eq] at h1
  obtain ⟨a1, a2, a3, a4, a5⟩ := h1
  have b1 : (k == "schema") = false := by simpa using a1
  have b2 : (k == "response") = false := by simpa using a2
  have b3 : (k == "responses") = false := by simpa using a3
  have b4 : (k == "paths") = false := by simpa using a4
  have b5 : (k == "securityScheme") = false := by simpa using a5
  have b6 : (ki.marshalShape == "reflect") = false := by simpa using h2
  simp [normKind, b1, b2, b3, b4, b5, hk, b6]

/-- **regular kinds, on actual encodings**: every member of what `norm K` returns, other than `$ref`, is found by
the lookup model with its value -/
theorem norm_lookup_concat (ok : TablesOK) {k : String} {ki : KindInfo} (hk : lookupKind Gen.kinds k = some ki)
    (hc : concatLookupKind ki = true) (hcov : structCovered ki = true) (hext : extCovered ki = true)
    (hkw : keywordsNotNumerals = true) {j₀ : Json} {ms : List (String × Json)} (h : norm k j₀ = .ok (.obj ms))
    {tok : String} {v : Json} (hm : (tok, v) ∈ ms) (hne : tok ≠ "$ref") : lookupTok k ms tok = some v := by
  have hnd := norm_nd ok k j₀ _ h
  have hl := nd_obj_lookup hnd hm
  unfold norm at h
  cases hf : fuelFor j₀ with
  | zero => rw [hf] at h; simp [normF] at h
  | succ n =>
    rw [hf] at h
    have h1 : normConcatKind (normF n) ki j₀ = .ok (.obj ms) := by
      rw [← normKind_concat hk hc]; simpa [normF] using h
    obtain ⟨d, hd, hcl⟩ := normConcatKind_claims (normF_nd ok n) ok.tables ki h1 (tok, v) hm
    exact member_found_regular hk hcov hext hkw hl hne hd hcl

/-- **schema, on actual encodings** -/
theorem norm_lookup_schema (ok : TablesOK) {ki : KindInfo} (hk : lookupKind Gen.kinds "schema" = some ki)
    (hchain : ["Extensions", "ExtraProps", "SchemaProps", "SwaggerSchemaProps"].all ki.lookupChain.contains = true)
    (hkw : keywordsNotNumerals = true) {j₀ : Json} {ms : List (String × Json)} (h : norm "schema" j₀ = .ok (.obj ms))
    {tok : String} {v : Json} (hm : (tok, v) ∈ ms) (hne : tok ≠ "$ref") (hns : tok ≠ "$schema")
    (hcanon : ∀ n, atoi tok = some n → itoa n = tok) : lookupTok "schema" ms tok = some v :=
  member_found_schema hk hchain hkw (nd_obj_lookup (norm_nd ok "schema" j₀ _ h) hm) hne hns hcanon

end SpecModel.Codec
