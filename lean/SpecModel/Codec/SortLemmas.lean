/-
`OrderSchemaItems.Less` (x-order, then name) is a strict total order on members with distinct names, so the
insertion sort that models `sort.Sort` has exactly one possible result: the encoding of `properties` /
`patternProperties` does not depend on the order in which Go's map iteration hands the members over.
Core Lean only.
-/
import SpecModel.Codec.Norm
import SpecModel.Codec.Lemmas

namespace SpecModel.Codec
open SpecModel

/-! ### generic: insertion sort, uniqueness of strictly sorted permutations -/

section generic
variable {α : Type} (lt : α → α → Bool)

theorem insertBy_perm (a : α) (l : List α) : (insertBy lt a l).Perm (a :: l) := by
  induction l with
  | nil => exact List.Perm.refl _
  | cons b rest ih =>
    unfold insertBy
    split
    · exact ((List.Perm.cons b ih).trans (List.Perm.swap a b rest))
    · exact List.Perm.refl _

theorem sortBy_perm (l : List α) : (sortBy lt l).Perm l := by
  induction l with
  | nil => exact List.Perm.refl _
  | cons a rest ih =>
    show (insertBy lt a (sortBy lt rest)).Perm (a :: rest)
    exact (insertBy_perm lt a _).trans (List.Perm.cons a ih)

theorem mem_insertBy {a x : α} {l : List α} : x ∈ insertBy lt a l ↔ x = a ∨ x ∈ l := by
  rw [(insertBy_perm lt a l).mem_iff]; simp

theorem mem_sortBy {x : α} {l : List α} : x ∈ sortBy lt l ↔ x ∈ l := (sortBy_perm lt l).mem_iff

/-- inserting into a strictly sorted list keeps it strictly sorted, when `a` is comparable with every element
and `lt` is transitive -/
theorem insertBy_pairwise {a : α} {l : List α}
    (trans : ∀ x y z, lt x y = true → lt y z = true → lt x z = true)
    (total : ∀ b ∈ l, lt b a = true ∨ lt a b = true)
    (h : l.Pairwise (fun x y => lt x y = true)) :
    (insertBy lt a l).Pairwise (fun x y => lt x y = true) := by
  induction l with
  | nil => simp [insertBy]
  | cons b rest ih =>
    have ⟨hb, hrest⟩ := List.pairwise_cons.mp h
    unfold insertBy
    split
    · rename_i hba
      refine List.pairwise_cons.mpr ⟨?_, ih (fun c hc => total c (List.mem_cons_of_mem _ hc)) hrest⟩
      intro y hy
      rcases (mem_insertBy lt).mp hy with rfl | hy
      · exact hba
      · exact hb y hy
    · rename_i hnba
      have hab : lt a b = true := by
        rcases total b (List.mem_cons_self ..) with h1 | h1
        · exact absurd h1 hnba
        · exact h1
      refine List.pairwise_cons.mpr ⟨?_, h⟩
      intro y hy
      rcases List.mem_cons.mp hy with rfl | hy
      · exact hab
      · exact trans _ _ _ hab (hb y hy)

theorem eq_of_perm_of_pairwise {R : α → α → Prop} (asymm : ∀ a b, R a b → R b a → False) :
    ∀ {l₁ l₂ : List α}, l₁.Pairwise R → l₂.Pairwise R → l₁.Perm l₂ → l₁ = l₂
  | [], l₂, _, _, hp => (List.Perm.nil_eq hp)
  | a :: t₁, [], _, _, hp => absurd hp.symm (List.Perm.nil_eq · |> fun h => by simp at h)
  | a :: t₁, b :: t₂, h₁, h₂, hp => by
    have ⟨ha, ht₁⟩ := List.pairwise_cons.mp h₁
    have ⟨hb, ht₂⟩ := List.pairwise_cons.mp h₂
    have hab : a = b := by
      have ha2 : a ∈ b :: t₂ := hp.mem_iff.mp (List.mem_cons_self ..)
      have hb1 : b ∈ a :: t₁ := hp.mem_iff.mpr (List.mem_cons_self ..)
      rcases List.mem_cons.mp ha2 with h | h
      · exact h
      · rcases List.mem_cons.mp hb1 with h' | h'
        · exact h'.symm
        · exact (asymm a b (ha b h') (hb a h)).elim
    subst hab
    have := eq_of_perm_of_pairwise asymm ht₁ ht₂ (List.Perm.cons_inv hp)
    rw [this]

end generic

/-! ### `lessItem` -/

theorem lessItem_asymm (a b : String × Json) : lessItem a b = true → lessItem b a = true → False := by
  unfold lessItem
  cases xOrder a.2 <;> cases xOrder b.2 <;> simp
  · exact fun h1 h2 => String.lt_asymm h1 h2
  · rename_i i j
    intro h1 h2
    split at h1 <;> split at h2
    · exact String.lt_asymm h1 h2
    · rename_i h3 h4; exact h4 h3.symm
    · rename_i h3 h4; exact h3 h4.symm
    · omega

theorem lessItem_trans (a b c : String × Json) : lessItem a b = true → lessItem b c = true → lessItem a c = true := by
  unfold lessItem
  cases xOrder a.2 <;> cases xOrder b.2 <;> cases xOrder c.2 <;> simp
  · exact fun h1 h2 => String.lt_trans h1 h2
  · rename_i i j k
    intro h1 h2
    split at h1 <;> split at h2 <;> rename_i h3 h4
    · subst h3; subst h4; simp; exact String.lt_trans h1 h2
    · subst h3; simp [h4, h2]
    · subst h4; simp [h3, h1]
    · have : ¬ i = k := by omega
      simp [this]; omega

theorem lessItem_total (a b : String × Json) (h : a.1 ≠ b.1) : lessItem a b = true ∨ lessItem b a = true := by
  unfold lessItem
  cases xOrder a.2 <;> cases xOrder b.2 <;> simp
  · rcases str_trichotomy a.1 b.1 with h1 | h1 | h1
    · exact .inl h1
    · exact absurd h1 h
    · exact .inr h1
  · rename_i i j
    by_cases hij : i = j
    · subst hij; simp
      rcases str_trichotomy a.1 b.1 with h1 | h1 | h1
      · exact .inl h1
      · exact absurd h1 h
      · exact .inr h1
    · have : ¬ j = i := fun h => hij h.symm
      simp [hij, this]; omega

/-- the sorted member list is strictly sorted w.r.t. `OrderSchemaItems.Less` -/
theorem sortBy_lessItem_pairwise {l : List (String × Json)} (hn : (l.map (·.1)).Nodup) :
    (sortBy lessItem l).Pairwise (fun x y => lessItem x y = true) := by
  induction l with
  | nil => simp [sortBy]
  | cons a rest ih =>
    have ⟨ha, hrest⟩ := List.nodup_cons.mp hn
    show (insertBy lessItem a (sortBy lessItem rest)).Pairwise _
    refine insertBy_pairwise lessItem lessItem_trans ?_ (ih hrest)
    intro b hb
    have hb' : b ∈ rest := (mem_sortBy lessItem).mp hb
    have : b.1 ≠ a.1 := by
      intro heq
      have : b.1 ∈ rest.map (·.1) := List.mem_map_of_mem hb'
      rw [heq] at this
      exact ha this
    exact lessItem_total b a this

/-- **Determinism of the `properties` encoding**: whatever order the members arrive in (Go's map iteration),
the sorted list is the same. -/
theorem sortBy_lessItem_perm_invariant {l₁ l₂ : List (String × Json)} (hp : l₁.Perm l₂)
    (hn : (l₁.map (·.1)).Nodup) : sortBy lessItem l₁ = sortBy lessItem l₂ := by
  have hn₂ : (l₂.map (·.1)).Nodup := (hp.map _).nodup_iff.mp hn
  refine eq_of_perm_of_pairwise (R := fun x y => lessItem x y = true) lessItem_asymm
    (sortBy_lessItem_pairwise hn) (sortBy_lessItem_pairwise hn₂) ?_
  exact ((sortBy_perm lessItem l₁).trans hp).trans (sortBy_perm lessItem l₂).symm

/-- sorting an already sorted member list changes nothing (second round trip) -/
theorem sortBy_lessItem_idem {l : List (String × Json)} (hn : (l.map (·.1)).Nodup) :
    sortBy lessItem (sortBy lessItem l) = sortBy lessItem l :=
  (sortBy_lessItem_perm_invariant (sortBy_perm lessItem l).symm hn).symm

end SpecModel.Codec
