/-
Fuel monotonicity of the codec model: a larger recursion budget never changes a successful result.

`LeR a a'` = "if `a` succeeds then `a'` succeeds with the same value"; every codec function is monotone in its
`rec` argument with respect to the pointwise lift `RecLe`, because it is built from `rec` calls by `bind`,
`if` and `match` only.  Consequence: `normF n t j = ok r → n ≤ m → normF m t j = ok r`.
-/
import SpecModel.Codec.Norm

namespace SpecModel.Codec
open SpecModel

def LeR {α : Type} (a a' : R α) : Prop := ∀ x, a = .ok x → a' = .ok x

def RecLe (r r' : Rec) : Prop := ∀ t j, LeR (r t j) (r' t j)

theorem LeR.refl {α : Type} (a : R α) : LeR a a := fun _ h => h

theorem LeR.bind {α β : Type} {a a' : R α} {f f' : α → R β} (ha : LeR a a') (hf : ∀ x, LeR (f x) (f' x)) :
    LeR (a >>= f) (a' >>= f') := by
  intro y h
  cases a with
  | error e => exact absurd h (by intro h'; cases h')
  | ok x =>
    rw [ha x rfl]
    exact hf x y h

theorem LeR.ite {α : Type} {c : Prop} [Decidable c] {a a' b b' : R α} (ha : LeR a a') (hb : LeR b b') :
    LeR (if c then a else b) (if c then a' else b') := by
  split
  · exact ha
  · exact hb

/-- one step of a monotonicity proof: peel a bind / if / match, or close by reflexivity or a known lemma -/
macro "mono_step" : tactic => `(tactic| first
  | exact LeR.refl _
  | assumption
  | apply LeR.bind
  | apply LeR.ite
  | intro _
  | split)

theorem mapR_mono {f f' : Json → R Json} (h : ∀ x, LeR (f x) (f' x)) : ∀ xs, LeR (mapR f xs) (mapR f' xs) := by
  intro xs
  induction xs with
  | nil => exact LeR.refl _
  | cons x rest ih =>
    simp only [mapR]
    exact LeR.bind (h x) (fun y => LeR.bind ih (fun ys => LeR.refl _))

theorem mapMembersR_mono {f f' : Json → R Json} (h : ∀ x, LeR (f x) (f' x)) :
    ∀ ms, LeR (mapMembersR f ms) (mapMembersR f' ms) := by
  intro ms
  induction ms with
  | nil => exact LeR.refl _
  | cons a rest ih =>
    obtain ⟨k, v⟩ := a
    simp only [mapMembersR]
    exact LeR.bind (h v) (fun y => LeR.bind ih (fun ys => LeR.refl _))

theorem ptrTo_mono {r r' : Rec} (h : RecLe r r') (t : Target) (j : Json) : LeR (ptrTo r t j) (ptrTo r' t j) := by
  cases j <;> first | exact LeR.refl _ | exact h _ _

theorem normFT_mono {r r' : Rec} (h : RecLe r r') (ft : FT) (v : Json) : LeR (normFT r ft v) (normFT r' ft v) := by
  unfold normFT
  split
  all_goals first
    | exact LeR.refl _
    | exact h _ _
    | exact LeR.bind (mapR_mono (fun x => h _ x) _) (fun _ => LeR.refl _)
    | exact LeR.bind (mapMembersR_mono (fun x => h _ x) _) (fun _ => LeR.refl _)
    | exact LeR.bind (mapMembersR_mono (fun x => ptrTo_mono h _ x) _) (fun _ => LeR.refl _)

theorem decodeField_mono {r r' : Rec} (h : RecLe r r') (ft : FT) (cur : Option Json) (v : Json) :
    LeR (decodeField r ft cur v) (decodeField r' ft cur v) := by
  unfold decodeField
  split
  · split
    · exact LeR.bind (h _ _) (fun _ => LeR.refl _)
    · exact LeR.refl _
  · exact LeR.bind (normFT_mono h ft v) (fun _ => LeR.refl _)

theorem decodeAll_mono {r r' : Rec} (h : RecLe r r') (ft : FT) : ∀ (vs : List Json) (cur : Option Json),
    LeR (decodeAll r ft cur vs) (decodeAll r' ft cur vs) := by
  intro vs
  induction vs with
  | nil => intro cur; exact LeR.refl _
  | cons v rest ih =>
    intro cur
    simp only [decodeAll]
    exact LeR.bind (decodeField_mono h ft cur v) (fun st => ih st)

theorem fieldState_mono {r r' : Rec} (h : RecLe r r') (all : List Field) (f : Field) (ms : List (String × Json)) :
    LeR (fieldState r all f ms) (fieldState r' all f ms) :=
  decodeAll_mono h f.ft _ none

theorem normFields_mono {r r' : Rec} (h : RecLe r r') (all : List Field) : ∀ (fs : List Field) (ms : List (String × Json)),
    LeR (normFields r all fs ms) (normFields r' all fs ms) := by
  intro fs
  induction fs with
  | nil => intro ms; exact LeR.refl _
  | cons f rest ih =>
    intro ms
    simp only [normFields]
    exact LeR.bind (fieldState_mono h all f ms) (fun st => LeR.bind (ih ms) (fun _ => LeR.refl _))

theorem normStruct_mono {r r' : Rec} (h : RecLe r r') (fs : List Field) (j : Json) :
    LeR (normStruct r fs j) (normStruct r' fs j) := by
  unfold normStruct
  exact LeR.bind (LeR.refl _) (fun ms => normFields_mono h _ _ ms)


/-! ### Norm.lean -/

theorem normSchemaOrBool_mono {r r' : Rec} (h : RecLe r r') (j : Json) :
    LeR (normSchemaOrBool r j) (normSchemaOrBool r' j) := by
  unfold normSchemaOrBool
  split <;> first | exact LeR.refl _ | exact h _ _

theorem normSchemaOrArray_mono {r r' : Rec} (h : RecLe r r') (j : Json) :
    LeR (normSchemaOrArray r j) (normSchemaOrArray r' j) := by
  unfold normSchemaOrArray
  split
  · exact h _ _
  · exact LeR.bind (mapR_mono (fun x => h _ x) _) (fun _ => LeR.refl _)
  · exact LeR.refl _

theorem normSchemaOrStringArray_mono {r r' : Rec} (h : RecLe r r') (j : Json) :
    LeR (normSchemaOrStringArray r j) (normSchemaOrStringArray r' j) := by
  unfold normSchemaOrStringArray
  split <;> first | exact LeR.refl _ | exact h _ _

theorem normSchemaProperties_mono {r r' : Rec} (h : RecLe r r') (j : Json) :
    LeR (normSchemaProperties r j) (normSchemaProperties r' j) := by
  unfold normSchemaProperties
  split
  · exact LeR.bind (mapMembersR_mono (fun x => h _ x) _) (fun _ => LeR.refl _)
  · exact LeR.refl _
  · exact LeR.refl _

theorem normNamed_mono {r r' : Rec} (h : RecLe r r') (n : String) (j : Json) :
    LeR (normNamed r n j) (normNamed r' n j) := by
  unfold normNamed
  split
  · exact LeR.refl _
  · split
    · exact normSchemaOrBool_mono h j
    · split
      · exact normSchemaOrArray_mono h j
      · split
        · exact normSchemaOrStringArray_mono h j
        · split
          · exact normSchemaProperties_mono h j
          · exact LeR.refl _

theorem normSchema_mono {r r' : Rec} (h : RecLe r r') (j : Json) : LeR (normSchema r j) (normSchema r' j) := by
  unfold normSchema
  split
  · exact LeR.refl _
  · exact LeR.bind (normFields_mono h _ _ _) (fun _ => LeR.bind (normFields_mono h _ _ _) (fun _ => LeR.refl _))
  · exact LeR.refl _

theorem normResponse_mono {r r' : Rec} (h : RecLe r r') (j : Json) : LeR (normResponse r j) (normResponse r' j) := by
  unfold normResponse
  refine LeR.bind (LeR.refl _) (fun ms => LeR.bind (normFields_mono h _ _ _) (fun full => LeR.bind (LeR.refl _)
    (fun b2 => LeR.bind (LeR.refl _) (fun b3 => ?_))))
  simp only
  repeat' (first
    | exact LeR.refl _
    | exact LeR.bind (normFields_mono h _ _ _) (fun _ => LeR.refl _)
    | split)

theorem statusEntries_mono {r r' : Rec} (h : RecLe r r') : ∀ (ms : List (String × Json)),
    LeR (statusEntries r ms) (statusEntries r' ms) := by
  intro ms
  induction ms with
  | nil => exact LeR.refl _
  | cons a rest ih =>
    obtain ⟨k, v⟩ := a
    simp only [statusEntries]
    split
    · exact ih
    · exact LeR.bind (h _ _) (fun _ => LeR.bind ih (fun _ => LeR.refl _))

theorem defaultPart_mono {r r' : Rec} (h : RecLe r r') (raw : List (String × Json)) :
    LeR (defaultPart r raw) (defaultPart r' raw) := by
  unfold defaultPart
  split
  · exact LeR.bind (h _ _) (fun _ => LeR.refl _)
  · exact LeR.refl _

theorem normResponsesProps_mono {r r' : Rec} (h : RecLe r r') (j : Json) :
    LeR (normResponsesProps r j) (normResponsesProps r' j) := by
  unfold normResponsesProps
  split
  · exact LeR.refl _
  · exact LeR.bind (defaultPart_mono h _) (fun _ => LeR.bind (statusEntries_mono h _) (fun _ => LeR.refl _))
  · exact LeR.refl _

theorem normResponses_mono {r r' : Rec} (h : RecLe r r') (j : Json) : LeR (normResponses r j) (normResponses r' j) := by
  unfold normResponses
  exact LeR.bind (normResponsesProps_mono h j) (fun _ => LeR.refl _)

theorem normPaths_mono {r r' : Rec} (h : RecLe r r') (j : Json) : LeR (normPaths r j) (normPaths r' j) := by
  unfold normPaths
  split
  · exact LeR.refl _
  · exact LeR.bind (LeR.refl _) (fun _ => LeR.bind (mapMembersR_mono (fun x => h _ x) _) (fun _ => LeR.refl _))
  · exact LeR.refl _

theorem normSecurityScheme_mono {r r' : Rec} (h : RecLe r r') (j : Json) :
    LeR (normSecurityScheme r j) (normSecurityScheme r' j) := by
  unfold normSecurityScheme
  refine LeR.bind (LeR.refl _) (fun ms => LeR.bind (normFields_mono h _ _ _) (fun full => LeR.bind (LeR.refl _)
    (fun b2 => ?_)))
  simp only
  split
  · exact LeR.refl _
  · exact LeR.bind (normFields_mono h _ _ _) (fun _ => LeR.refl _)

theorem normOperationProps_mono {r r' : Rec} (h : RecLe r r') (j : Json) :
    LeR (normOperationProps r j) (normOperationProps r' j) := by
  unfold normOperationProps
  refine LeR.bind (LeR.refl _) (fun ms => LeR.bind (normFields_mono h _ _ _) (fun others => LeR.bind ?_ (fun _ => LeR.refl _)))
  first
    | exact fieldState_mono h _ _ _
    | (split
       · exact LeR.bind (fieldState_mono h _ _ _) (fun _ => LeR.refl _)
       · exact LeR.refl _)

theorem normPart_mono {r r' : Rec} (h : RecLe r r') (p : String) (j : Json) : LeR (normPart r p j) (normPart r' p j) := by
  unfold normPart
  split
  · exact LeR.refl _
  · split
    · exact LeR.refl _
    · split
      · exact normOperationProps_mono h j
      · exact normStruct_mono h _ j

theorem normParts_mono {r r' : Rec} (h : RecLe r r') (j : Json) : ∀ ps, LeR (normParts r j ps) (normParts r' j ps) := by
  intro ps
  induction ps with
  | nil => exact LeR.refl _
  | cons p rest ih =>
    simp only [normParts]
    exact LeR.bind (normPart_mono h p j) (fun _ => LeR.bind ih (fun _ => LeR.refl _))

theorem normConcatKind_mono {r r' : Rec} (h : RecLe r r') (ki : KindInfo) (j : Json) :
    LeR (normConcatKind r ki j) (normConcatKind r' ki j) := by
  unfold normConcatKind
  exact LeR.bind (normParts_mono h j _) (fun _ => LeR.bind (normParts_mono h j _) (fun _ =>
    LeR.bind (normParts_mono h _ _) (fun _ => LeR.refl _)))

theorem normKind_mono {r r' : Rec} (h : RecLe r r') (k : String) (j : Json) : LeR (normKind r k j) (normKind r' k j) := by
  unfold normKind
  split
  · exact normSchema_mono h j
  · split
    · exact normResponse_mono h j
    · split
      · exact normResponses_mono h j
      · split
        · exact normPaths_mono h j
        · split
          · exact normSecurityScheme_mono h j
          · split
            · exact LeR.refl _
            · split
              · exact LeR.bind (normStruct_mono h _ j) (fun _ => LeR.refl _)
              · exact normConcatKind_mono h _ j

/-- one more unit of budget never changes a successful result -/
theorem normF_succ : ∀ n, RecLe (normF n) (normF (n + 1)) := by
  intro n
  induction n with
  | zero => intro t j x h; simp [normF] at h
  | succ n ih =>
    intro t j
    cases t with
    | kind k => simpa [normF] using normKind_mono ih k j
    | named nm => simpa [normF] using normNamed_mono ih nm j

/-- **fuel monotonicity** -/
theorem normF_mono {n m : Nat} (hnm : n ≤ m) (t : Target) (j r : Json) (h : normF n t j = .ok r) :
    normF m t j = .ok r := by
  induction hnm with
  | refl => exact h
  | step _ ih => exact normF_succ _ t j r ih

end SpecModel.Codec
