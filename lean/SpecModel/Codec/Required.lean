/-
Members survive decode+encode (the codec side of C19).

For a regular kind (every kind except schema, response, responses, paths, securityScheme, which have hand-written
codecs), a member that is decoded into a field `f` of a struct part `P` and encoded from it:
* is always present in the output when `f` is not `omitempty`;
* when the last member of the input that goes to `f` has a non-null value `v`, the output carries `normFT f.ft v`
  under the field's name unless `omitempty` drops it as empty - in particular a non-empty string is kept as it is.
The part and the field are found by `memberField` in the tables REGENERATED from /repo; `Props/C19` instantiates
the theorem at every member the Swagger 2.0 meta-schema requires.
-/
import SpecModel.Codec.NoDup

namespace SpecModel.Codec
open SpecModel

/-! ### one field -/

theorem decodeAll_append (rec : Rec) (ft : FT) : ∀ (vs : List Json) (cur : Option Json) (v : Json),
    decodeAll rec ft cur (vs ++ [v]) = (decodeAll rec ft cur vs >>= fun st => decodeField rec ft st v) := by
  intro vs
  induction vs with
  | nil =>
    intro cur v
    simp only [List.nil_append, decodeAll, bind, Except.bind, pure, Except.pure]
    cases decodeField rec ft cur v <;> rfl
  | cons x xs ih =>
    intro cur v
    simp only [List.cons_append, decodeAll, bind, Except.bind]
    cases decodeField rec ft cur x with
    | error e => rfl
    | ok st => exact ih st v

theorem decodeField_nonnull {rec : Rec} {ft : FT} {cur st : Option Json} {v : Json} (hv : v ≠ .null)
    (h : decodeField rec ft cur v = .ok st) : ∃ r, normFT rec ft v = .ok r ∧ st = some r := by
  unfold decodeField at h
  split at h
  · exact absurd rfl hv
  · simp only [bind, Except.bind] at h
    cases hn : normFT rec ft v with
    | error e => rw [hn] at h; cases h
    | ok r =>
      rw [hn] at h
      simp only at h
      split at h
      · cases h
      · simp only [pure, Except.pure, Except.ok.injEq] at h
        exact ⟨r, rfl, h.symm⟩

/-- the state of a field is decided by the last member that goes to it, when that member is not `null` -/
theorem fieldState_last {rec : Rec} {all : List Field} {f : Field} {ms : List (String × Json)} {vs : List Json}
    {v : Json} {st : Option Json} (hvals : fieldVals all f.jsonName ms = vs ++ [v]) (hv : v ≠ .null)
    (h : fieldState rec all f ms = .ok st) : ∃ r, normFT rec f.ft v = .ok r ∧ st = some r := by
  unfold fieldState at h
  rw [hvals, decodeAll_append] at h
  simp only [bind, Except.bind] at h
  cases hd : decodeAll rec f.ft none vs with
  | error e => rw [hd] at h; cases h
  | ok st0 =>
    rw [hd] at h
    exact decodeField_nonnull hv h

/-! ### a struct part -/

theorem normFields_mem {rec : Rec} {all : List Field} : ∀ {fs : List Field} {ms out : List (String × Json)},
    normFields rec all fs ms = .ok out → ∀ {f : Field}, f ∈ fs →
      ∃ st, fieldState rec all f ms = .ok st ∧ ∀ m, encodeField f st = some m → m ∈ out := by
  intro fs
  induction fs with
  | nil => intro ms out _ f hf; cases hf
  | cons g gs ih =>
    intro ms out h f hf
    simp only [normFields, bind, Except.bind] at h
    cases hst : fieldState rec all g ms with
    | error e => rw [hst] at h; cases h
    | ok st =>
      rw [hst] at h
      simp only at h
      cases hrest : normFields rec all gs ms with
      | error e => rw [hrest] at h; cases h
      | ok rest =>
        rw [hrest] at h
        simp only [pure, Except.pure, Except.ok.injEq] at h
        rcases List.mem_cons.mp hf with rfl | hf
        · refine ⟨st, hst, ?_⟩
          intro m hm
          rw [hm] at h
          rw [← h]; exact List.mem_cons_self
        · obtain ⟨st', hs', hmem⟩ := ih hrest hf
          refine ⟨st', hs', ?_⟩
          intro m hm
          have := hmem m hm
          rw [← h]
          split
          · exact List.mem_cons_of_mem _ this
          · exact this

/-! ### the parts of a regular kind -/

theorem normParts_mem {rec : Rec} {j : Json} : ∀ {ps : List String} {bs : List (List (String × Json))},
    normParts rec j ps = .ok bs → ∀ {p : String}, p ∈ ps → ∃ b ∈ bs, normPart rec p j = .ok b := by
  intro ps
  induction ps with
  | nil => intro bs _ p hp; cases hp
  | cons q qs ih =>
    intro bs h p hp
    simp only [normParts, bind, Except.bind] at h
    cases hq : normPart rec q j with
    | error e => rw [hq] at h; cases h
    | ok b =>
      rw [hq] at h
      simp only at h
      cases hqs : normParts rec j qs with
      | error e => rw [hqs] at h; cases h
      | ok bs' =>
        rw [hqs] at h
        simp only [pure, Except.pure, Except.ok.injEq] at h
        subst h
        rcases List.mem_cons.mp hp with rfl | hp
        · exact ⟨b, List.mem_cons_self, hq⟩
        · obtain ⟨b', hb', hn⟩ := ih hqs hp
          exact ⟨b', List.mem_cons_of_mem _ hb', hn⟩

/-- the fields a part encodes, as far as this file follows them: plain struct parts, and `OperationProps` without
its `security` member (which has an encoder of its own) -/
def partFields (p : String) : List Field :=
  if p == "VendorExtensible" || p == "Refable" then []
  else if p == "OperationProps" then (tableOf p).filter (·.jsonName != "security")
  else tableOf p

theorem normPart_mem {rec : Rec} {p : String} {ms b : List (String × Json)} (h : normPart rec p (.obj ms) = .ok b)
    {f : Field} (hf : f ∈ partFields p) :
    ∃ st, fieldState rec (tableOf p) f ms = .ok st ∧ ∀ m, encodeField f st = some m → m ∈ b := by
  unfold partFields at hf
  unfold normPart at h
  by_cases h1 : (p == "VendorExtensible") = true
  · simp [h1] at hf
  · by_cases h2 : (p == "Refable") = true
    · simp [h2] at hf
    · simp only [h1, h2, Bool.false_eq_true, if_false, Bool.or_self] at hf h
      by_cases h3 : (p == "OperationProps") = true
      · simp only [h3, if_true] at hf h
        have hp : p = "OperationProps" := by simpa using h3
        subst hp
        simp only [normOperationProps, structMembers, bind, Except.bind, pure, Except.pure] at h
        cases ho : normFields rec (tableOf "OperationProps")
            ((tableOf "OperationProps").filter (·.jsonName != "security")) ms with
        | error e => rw [ho] at h; cases h
        | ok others =>
          rw [ho] at h
          simp only at h
          obtain ⟨st, hst, hmem⟩ := normFields_mem ho hf
          refine ⟨st, hst, ?_⟩
          intro m hm
          have hmo := hmem m hm
          split at h
          · rename_i fsec _
            cases hs : fieldState rec (tableOf "OperationProps") fsec ms with
            | error e => rw [hs] at h; cases h
            | ok st2 =>
              rw [hs] at h
              simp only [Except.ok.injEq] at h
              rw [← h]; exact List.mem_append_right _ hmo
          · simp only [Except.ok.injEq] at h
            rw [← h]; exact List.mem_append_right _ hmo
      · simp only [h3, Bool.false_eq_true, if_false] at hf h
        simp only [normStruct, structMembers, bind, Except.bind, pure, Except.pure] at h
        exact normFields_mem h hf

/-! ### where a member of a regular kind lives -/

def isSpecialKind (k : String) : Bool :=
  k == "schema" || k == "response" || k == "responses" || k == "paths" || k == "securityScheme"

/-- the parts of a regular kind that are decoded from the document and encoded again -/
def codecParts (ki : KindInfo) : List String :=
  if ki.marshalShape == "reflect" then [ki.goType] else liveParts ki

/-- the part and the field a member name of a regular kind is encoded from (searched in the generated tables) -/
def memberField (k n : String) : Option (String × Field) :=
  if isSpecialKind k then none
  else match lookupKind Gen.kinds k with
    | none => none
    | some ki => ((codecParts ki).flatMap fun p => (partFields p).map fun f => (p, f)).find? (·.2.jsonName == n)

theorem memberField_sound {k n P : String} {f : Field} (h : memberField k n = some (P, f)) :
    isSpecialKind k = false ∧ ∃ ki, lookupKind Gen.kinds k = some ki ∧ P ∈ codecParts ki ∧ f ∈ partFields P ∧
      f.jsonName = n := by
  unfold memberField at h
  split at h
  · cases h
  · rename_i hs
    split at h
    · cases h
    · rename_i ki hk
      have hm := List.mem_of_find?_eq_some h
      have hp := List.find?_some h
      simp only [List.mem_flatMap, List.mem_map] at hm
      obtain ⟨p, hp1, g, hg, heq⟩ := hm
      simp only [Prod.mk.injEq] at heq
      obtain ⟨rfl, rfl⟩ := heq
      exact ⟨by simpa using hs, ki, hk, hp1, hg, by simpa using hp⟩

/-- reflect kinds have no hand-written part names -/
theorem normKind_regular {rec : Rec} {k : String} {ki : KindInfo} (hs : isSpecialKind k = false)
    (hk : lookupKind Gen.kinds k = some ki) (j : Json) :
    normKind rec k j =
      (if ki.marshalShape == "reflect" then do
          let ms ← normStruct rec (lookupStruct Gen.structs ki.goType) j
          pure (.obj ms)
        else normConcatKind rec ki j) := by
  simp only [isSpecialKind, Bool.or_eq_false_iff] at hs
  obtain ⟨⟨⟨⟨h1, h2⟩, h3⟩, h4⟩, h5⟩ := hs
  simp only [normKind, h1, h2, h3, h4, h5, Bool.false_eq_true, if_false, hk]

/-- **a member of a regular kind survives decode+encode** -/
theorem normKind_member {rec : Rec} {k n P : String} {f : Field} (hm : memberField k n = some (P, f))
    {ms : List (String × Json)} {j' : Json} (h : normKind rec k (.obj ms) = .ok j') :
    ∃ out, j' = .obj out ∧ ∃ st, fieldState rec (tableOf P) f ms = .ok st ∧
      ∀ m, encodeField f st = some m → m ∈ out := by
  obtain ⟨hs, ki, hk, hP, hf, _⟩ := memberField_sound hm
  rw [normKind_regular hs hk] at h
  unfold codecParts at hP
  by_cases hr : (ki.marshalShape == "reflect") = true
  · simp only [hr, if_true] at h hP
    have hPe : P = ki.goType := by simpa using hP
    subst hPe
    simp only [bind, Except.bind, pure, Except.pure] at h
    cases hn : normStruct rec (lookupStruct Gen.structs ki.goType) (.obj ms) with
    | error e => rw [hn] at h; cases h
    | ok out =>
      rw [hn] at h
      simp only [Except.ok.injEq] at h
      refine ⟨out, h.symm, ?_⟩
      -- a reflect kind is a plain struct part
      have hpart : normPart rec ki.goType (.obj ms) = .ok out ∨ partFields ki.goType = [] := by
        by_cases h1 : (ki.goType == "VendorExtensible" || ki.goType == "Refable") = true
        · right; simp [partFields, h1]
        · by_cases h3 : (ki.goType == "OperationProps") = true
          · -- not a reflect kind in any table; the statement still holds through the generic lemma below
            left
            exact absurd hf (by
              intro _
              have : ki.goType = "OperationProps" := by simpa using h3
              -- `OperationProps` is not the Go type of any kind
              have hall : Gen.kinds.all (fun ki => !(ki.marshalShape == "reflect" && ki.goType == "OperationProps")) = true := by decide
              have hmem := List.mem_of_find?_eq_some hk
              have := List.all_eq_true.mp hall ki hmem
              simp [hr, h3] at this)
          · left
            simp only [Bool.or_eq_true, not_or] at h1
            simp only [normPart, h1.1, h1.2, h3, Bool.false_eq_true, if_false]
            exact hn
      rcases hpart with hp | hp
      · exact normPart_mem hp hf
      · rw [hp] at hf; cases hf
  · simp only [hr, Bool.false_eq_true, if_false] at h hP
    simp only [normConcatKind, bind, Except.bind] at h
    split at h
    · cases h
    · split at h
      · cases h
      · rename_i bs hbs
        split at h
        · cases h
        · simp only [pure, Except.pure, Except.ok.injEq] at h
          rw [concatMembers_eq] at h
          refine ⟨bs.flatten, h.symm, ?_⟩
          obtain ⟨b, hb, hnp⟩ := normParts_mem hbs (p := P) hP
          obtain ⟨st, hst, hmem⟩ := normPart_mem hnp hf
          exact ⟨st, hst, fun m hm' => List.mem_flatten.mpr ⟨b, hb, hmem m hm'⟩⟩

/-! ### response (hand-written codec) -/

theorem description_field : (⟨"Description", "description", false, false, false, .str⟩ : Field) ∈ tableOf "ResponseProps" := by
  decide

/-- **response**: unless it is given by reference (a non-empty `$ref` in the output), the encoding of a response
carries a `description` member, whatever the input object was -/
theorem response_description {rec : Rec} {ms : List (String × Json)} {j' : Json}
    (h : normKind rec "response" (.obj ms) = .ok j') :
    ∃ out, j' = .obj out ∧ ((∀ t, ("$ref", Json.str t) ∈ out → t = "") → ∃ r, ("description", r) ∈ out) := by
  have hk : normKind rec "response" (.obj ms) = normResponse rec (.obj ms) := by
    simp [normKind]
  rw [hk] at h
  simp only [normResponse, structMembers, bind, Except.bind, pure, Except.pure] at h
  cases hfull : normFields rec (tableOf "ResponseProps") (tableOf "ResponseProps") ms with
  | error e => rw [hfull] at h; cases h
  | ok full =>
    rw [hfull] at h
    simp only at h
    cases hb2 : normRefable (.obj ms) with
    | error e => rw [hb2] at h; cases h
    | ok b2 =>
      rw [hb2] at h
      simp only at h
      cases hb3 : normExtensions (.obj ms) with
      | error e => rw [hb3] at h; cases h
      | ok b3 =>
        rw [hb3] at h
        simp only at h
        have hdesc : ∃ r, ("description", r) ∈ full := by
          obtain ⟨st, _, hmem⟩ := normFields_mem hfull description_field
          obtain ⟨v, hv⟩ : ∃ v, encodeField ⟨"Description", "description", false, false, false, .str⟩ st = some ("description", v) := by
            unfold encodeField; cases st <;> simp
          exact ⟨v, hmem _ hv⟩
        split at h
        · -- b2 is a single string member
          rename_i k t
          by_cases ht : (t != "") = true
          · rw [if_pos ht] at h
            cases hlit : normFields rec (tableOf "ResponseProps") (setOmitEmpty "description" (tableOf "ResponseProps")) ms with
            | error e => rw [hlit] at h; cases h
            | ok lit =>
              rw [hlit] at h
              simp only [Except.ok.injEq] at h
              rw [concatMembers_eq] at h
              refine ⟨_, h.symm, ?_⟩
              intro hno
              exfalso
              -- the member name is `$ref`: what `refOfMap` returns
              have hk : k = "$ref" := by
                simp only [normRefable, bind, Except.bind] at hb2
                cases hg : genericMap (.obj ms) with
                | error e => rw [hg] at hb2; cases hb2
                | ok d =>
                  rw [hg] at hb2
                  simp only [refOfMap] at hb2
                  split at hb2
                  · split at hb2
                    · simp only [pure, Except.pure, Except.ok.injEq, List.cons.injEq, Prod.mk.injEq, and_true] at hb2
                      exact hb2.1.symm
                    · split at hb2 <;> simp [goError, pure, Except.pure] at hb2
                    · simp [outOfModel] at hb2
                  · simp [pure, Except.pure] at hb2
              subst hk
              have : t = "" := hno t (List.mem_flatten.mpr ⟨[("$ref", .str t)], by simp, by simp⟩)
              simp [this] at ht
          · rw [if_neg ht] at h
            simp only [Except.ok.injEq] at h
            rw [concatMembers_eq] at h
            obtain ⟨r, hr⟩ := hdesc
            exact ⟨_, h.symm, fun _ => ⟨r, List.mem_flatten.mpr ⟨full, by simp, hr⟩⟩⟩
        · rw [if_neg (by decide)] at h
          simp only [Except.ok.injEq] at h
          rw [concatMembers_eq] at h
          obtain ⟨r, hr⟩ := hdesc
          exact ⟨_, h.symm, fun _ => ⟨r, List.mem_flatten.mpr ⟨full, by simp, hr⟩⟩⟩
end SpecModel.Codec
