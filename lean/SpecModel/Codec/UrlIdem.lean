/-
The URL printing model is idempotent: `urlString s = ok t → urlString t = ok t`.

(`urlString` models `url.Parse` followed by `URL.String()` on the tame grammar: this is the canonicalisation every
`$ref` / `$schema` text goes through; C13 states its idempotence for the implementation, C07's whole-document
theorem needs it for the model.)
-/
import SpecModel.Codec.Url

namespace SpecModel.Codec

/-- the shape of what `reescape` prints: plain characters that need no escape, and upper-case `%XX` triples of bytes
that do -/
inductive PctOK (m : UrlMode) : List Char → Prop
  | nil : PctOK m []
  | keep {c rest} : untame c m = false → c.toNat < 0x80 → shouldEscape c m = false → PctOK m rest → PctOK m (c :: rest)
  | pct {a b x y rest} : hexVal a = some x → hexVal b = some y → isUpperHex a = true → isUpperHex b = true →
      (16 * x + y ≥ 0x80 ∨ shouldEscape (Char.ofNat (16 * x + y)) m = true) → PctOK m rest →
      PctOK m ('%' :: a :: b :: rest)

theorem pctOK_append {m : UrlMode} {a b : List Char} (ha : PctOK m a) (hb : PctOK m b) : PctOK m (a ++ b) := by
  induction ha with
  | nil => exact hb
  | keep h1 h2 h3 _ ih => exact .keep h1 h2 h3 ih
  | pct h1 h2 h3 h4 h5 _ ih => exact .pct h1 h2 h3 h4 h5 ih

theorem shouldEscape_pct (m : UrlMode) : shouldEscape '%' m = true := by cases m <;> decide

/-- reading the shape back gives the same text -/
theorem reescape_of_pctOK {m : UrlMode} {cs : List Char} (h : PctOK m cs) : reescape m cs = some cs := by
  induction h with
  | nil => rfl
  | @keep c rest h1 h2 h3 _ ih =>
    have hc : c ≠ '%' := by
      rintro rfl; rw [shouldEscape_pct] at h3; cases h3
    have : reescape m (c :: rest) =
        (if untame c m then none
         else if c.toNat < 0x80 then
           (reescape m rest).map ((if shouldEscape c m then pctByte c.toNat else [c]) ++ ·)
         else (reescape m rest).map ((utf8Bytes c).flatMap pctByte ++ ·)) := by
      cases rest with
      | nil => simp [reescape, hc]
      | cons r1 rest1 =>
        cases rest1 with
        | nil => simp [reescape, hc]
        | cons r2 rest2 => simp [reescape, hc]
    rw [this, h1, ih]
    simp [h2, h3]
  | @pct a b x y rest h1 h2 h3 h4 h5 _ ih =>
    have hcond : (decide (16 * x + y ≥ 0x80) || shouldEscape (Char.ofNat (16 * x + y)) m) = true := by
      rcases h5 with h | h
      · simp [h]
      · simp [h]
    simp only [reescape, h1, h2, h3, h4, Bool.true_and, ih, Option.map_some]
    simp only [ge_iff_le] at hcond ⊢
    rw [if_pos (by simpa using hcond)]
    rfl


/-! ### what `reescape` prints has that shape -/

theorem hexVal_upperHex : ∀ n, n < 16 → hexVal (upperHex n) = some n ∧ isUpperHex (upperHex n) = true := by decide

theorem pctOK_pctByte {m : UrlMode} {b : Nat} (hb : b < 256)
    (hc : b ≥ 0x80 ∨ shouldEscape (Char.ofNat b) m = true) {rest : List Char} (hr : PctOK m rest) :
    PctOK m (pctByte b ++ rest) := by
  have h1 := hexVal_upperHex (b / 16) (by omega)
  have h2 := hexVal_upperHex (b % 16) (by omega)
  have hb' : 16 * (b / 16) + b % 16 = b := by omega
  exact .pct h1.1 h2.1 h1.2 h2.2 (by rw [hb']; exact hc) hr

theorem utf8Bytes_range (c : Char) (h : ¬ c.toNat < 0x80) : ∀ b ∈ utf8Bytes c, 0x80 ≤ b ∧ b < 256 := by
  have hv : c.toNat < 0x110000 := by
    have := c.valid
    rcases this with h1 | h1
    · have : c.toNat = c.val.toNat := rfl
      omega
    · have : c.toNat = c.val.toNat := rfl
      omega
  intro b hb
  unfold utf8Bytes at hb
  simp only at hb
  split at hb
  · omega
  · split at hb
    · simp only [List.mem_cons, List.not_mem_nil, or_false] at hb
      rcases hb with rfl | rfl <;> omega
    · split at hb
      · simp only [List.mem_cons, List.not_mem_nil, or_false] at hb
        rcases hb with rfl | rfl | rfl <;> omega
      · simp only [List.mem_cons, List.not_mem_nil, or_false] at hb
        rcases hb with rfl | rfl | rfl | rfl <;> omega

theorem pctOK_bytes {m : UrlMode} : ∀ (bs : List Nat), (∀ b ∈ bs, 0x80 ≤ b ∧ b < 256) → ∀ {rest}, PctOK m rest →
    PctOK m (bs.flatMap pctByte ++ rest) := by
  intro bs
  induction bs with
  | nil => intro _ rest hr; simpa using hr
  | cons b more ih =>
    intro h rest hr
    have hb := h b (by simp)
    simp only [List.flatMap_cons, List.append_assoc]
    exact pctOK_pctByte hb.2 (.inl hb.1) (ih (fun x hx => h x (by simp [hx])) hr)

theorem pctOK_of_reescape {m : UrlMode} : ∀ (cs out : List Char), reescape m cs = some out → PctOK m out := by
  intro cs
  fun_induction reescape m cs with
  | case1 a b rest x y hy hx byte hcond ih =>
    intro out h
    simp only [Option.map_eq_some_iff] at h
    obtain ⟨r, hr, rfl⟩ := h
    simp only [Bool.and_eq_true, Bool.or_eq_true, decide_eq_true_eq] at hcond
    exact .pct hx hy hcond.1.1 hcond.1.2 hcond.2 (ih r hr)
  | case2 => intro out h; cases h
  | case3 => intro out h; cases h
  | case4 => intro out h; cases h
  | case5 c rest _ _ hunt => intro out h; cases h
  | case6 c rest _ _ hunt hascii ih =>
    intro out h
    simp only [Option.map_eq_some_iff] at h
    obtain ⟨r, hr, rfl⟩ := h
    have hu : untame c m = false := by simpa using hunt
    by_cases hs : shouldEscape c m = true
    · simp only [hs, if_true]
      exact pctOK_pctByte (by omega) (.inr (by rw [Char.ofNat_toNat]; exact hs)) (ih r hr)
    · have hs' : shouldEscape c m = false := by simpa using hs
      simp only [hs', Bool.false_eq_true, if_false, List.cons_append, List.nil_append]
      exact .keep hu hascii hs' (ih r hr)
  | case7 c rest _ _ hunt hascii ih =>
    intro out h
    simp only [Option.map_eq_some_iff] at h
    obtain ⟨r, hr, rfl⟩ := h
    exact pctOK_bytes _ (utf8Bytes_range c hascii) (ih r hr)
  | case8 => intro out h; simp at h; subst h; exact .nil


/-- `reescape` is idempotent -/
theorem reescape_idem {m : UrlMode} {cs out : List Char} (h : reescape m cs = some out) : reescape m out = some out :=
  reescape_of_pctOK (pctOK_of_reescape cs out h)

/-! ### the characters of a printed component -/

/-- an ordinary printable character of a printed component: not a control, not `#`, not `%`; in a path also
neither `?` nor `:` -/
def PlainChar (m : UrlMode) (c : Char) : Prop :=
  0x21 ≤ c.toNat ∧ c.toNat < 0x7f ∧ c ≠ '#' ∧ (m = .path → c ≠ '?' ∧ c ≠ ':')

def keptOK (m : UrlMode) (n : Nat) : Bool :=
  !(shouldEscape (Char.ofNat n) m == false && untame (Char.ofNat n) m == false) ||
    (decide (0x21 ≤ n) && decide (n < 0x7f) && n != 35 && n != 37 && (m != .path || (n != 63 && n != 58)))

theorem keptOK_all : (List.range 128).all (fun n => keptOK .path n && keptOK .fragment n) = true := by decide

theorem kept_ascii (n : Nat) (hn : n < 128) (m : UrlMode)
    (h1 : shouldEscape (Char.ofNat n) m = false) (h2 : untame (Char.ofNat n) m = false) :
    0x21 ≤ n ∧ n < 0x7f ∧ n ≠ 35 ∧ n ≠ 37 ∧ (m = .path → n ≠ 63 ∧ n ≠ 58) := by
  have := List.all_eq_true.mp keptOK_all n (List.mem_range.mpr hn)
  simp only [Bool.and_eq_true] at this
  have hk : keptOK m n = true := by cases m; exact this.1; exact this.2
  simp only [keptOK, h1, h2, beq_self_eq_true, Bool.and_self, Bool.not_true, Bool.false_or, Bool.and_eq_true,
    decide_eq_true_eq, bne_iff_ne, ne_eq, Bool.or_eq_true] at hk
  obtain ⟨⟨⟨⟨a1, a2⟩, a3⟩, a4⟩, a5⟩ := hk
  refine ⟨a1, a2, a3, a4, ?_⟩
  intro hm
  rcases a5 with h | h
  · exact absurd hm h
  · exact h

theorem toNat_eq_of_char {c : Char} {k : Nat} (h : c.toNat = k) (hk : k < 128) : c = Char.ofNat k := by
  rw [← h, Char.ofNat_toNat]

theorem kept_plain {m : UrlMode} {c : Char} (h1 : untame c m = false) (h2 : c.toNat < 0x80)
    (h3 : shouldEscape c m = false) : PlainChar m c ∧ c ≠ '%' := by
  have := kept_ascii c.toNat h2 m (by rw [Char.ofNat_toNat]; exact h3) (by rw [Char.ofNat_toNat]; exact h1)
  obtain ⟨a1, a2, a3, a4, a5⟩ := this
  refine ⟨⟨a1, a2, ?_, ?_⟩, ?_⟩
  · rintro rfl; exact a3 rfl
  · intro hm
    have := a5 hm
    exact ⟨by rintro rfl; exact this.1 rfl, by rintro rfl; exact this.2 rfl⟩
  · rintro rfl; exact a4 rfl

theorem char_le_toNat {a b : Char} (h : a ≤ b) : a.toNat ≤ b.toNat := by
  have := Char.le_def.mp h
  exact UInt32.le_iff_toNat_le.mp this

theorem upperHex_range {a : Char} (h : isUpperHex a = true) : (48 ≤ a.toNat ∧ a.toNat ≤ 57) ∨ (65 ≤ a.toNat ∧ a.toNat ≤ 70) := by
  simp only [isUpperHex, Bool.or_eq_true, Bool.and_eq_true, decide_eq_true_eq] at h
  rcases h with ⟨h1, h2⟩ | ⟨h1, h2⟩
  · left; exact ⟨char_le_toNat h1, char_le_toNat h2⟩
  · right; exact ⟨char_le_toNat h1, char_le_toNat h2⟩

end SpecModel.Codec
