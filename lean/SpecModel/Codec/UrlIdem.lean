/-
The URL printing model is idempotent: `urlString s = ok t → urlString t = ok t`.

(`urlString` models `url.Parse` followed by `URL.String()` on the tame grammar: this is the canonicalisation every
`$ref` / `$schema` text goes through; C13 states its idempotence for the implementation, C07's whole-document
theorem needs it for the model.)
-/
import SpecModel.Codec.Url

namespace SpecModel.Codec

/-- the shape of what `reescape` prints: plain characters that need no escape, and upper-case `%XX` triples of bytes
that do -/
inductive PctOK (m : UrlMode) : List Char → Prop
  | nil : PctOK m []
  | keep {c rest} : untame c m = false → c.toNat < 0x80 → shouldEscape c m = false → PctOK m rest → PctOK m (c :: rest)
  | pct {a b x y rest} : hexVal a = some x → hexVal b = some y → isUpperHex a = true → isUpperHex b = true →
      (16 * x + y ≥ 0x80 ∨ shouldEscape (Char.ofNat (16 * x + y)) m = true) → PctOK m rest →
      PctOK m ('%' :: a :: b :: rest)

theorem pctOK_append {m : UrlMode} {a b : List Char} (ha : PctOK m a) (hb : PctOK m b) : PctOK m (a ++ b) := by
  induction ha with
  | nil => exact hb
  | keep h1 h2 h3 _ ih => exact .keep h1 h2 h3 ih
  | pct h1 h2 h3 h4 h5 _ ih => exact .pct h1 h2 h3 h4 h5 ih

theorem shouldEscape_pct (m : UrlMode) : shouldEscape '%' m = true := by cases m <;> decide

/-- reading the shape back gives the same text -/
theorem reescape_of_pctOK {m : UrlMode} {cs : List Char} (h : PctOK m cs) : reescape m cs = some cs := by
  induction h with
  | nil => rfl
  | @keep c rest h1 h2 h3 _ ih =>
    have hc : c ≠ '%' := by
      rintro rfl; rw [shouldEscape_pct] at h3; cases h3
    have : reescape m (c :: rest) =
        (if untame c m then none
         else if c.toNat < 0x80 then
           (reescape m rest).map ((if shouldEscape c m then pctByte c.toNat else [c]) ++ ·)
         else (reescape m rest).map ((utf8Bytes c).flatMap pctByte ++ ·)) := by
      cases rest with
      | nil => simp [reescape, hc]
      | cons r1 rest1 =>
        cases rest1 with
        | nil => simp [reescape, hc]
        | cons r2 rest2 => simp [reescape, hc]
    rw [this, h1, ih]
    simp [h2, h3]
  | @pct a b x y rest h1 h2 h3 h4 h5 _ ih =>
    have hcond : (decide (16 * x + y ≥ 0x80) || shouldEscape (Char.ofNat (16 * x + y)) m) = true := by
      rcases h5 with h | h
      · simp [h]
      · simp [h]
    simp only [reescape, h1, h2, h3, h4, Bool.true_and, ih, Option.map_some]
    simp only [ge_iff_le] at hcond ⊢
    rw [if_pos (by simpa using hcond)]
    rfl


/-! ### what `reescape` prints has that shape -/

theorem hexVal_upperHex : ∀ n, n < 16 → hexVal (upperHex n) = some n ∧ isUpperHex (upperHex n) = true := by decide

theorem pctOK_pctByte {m : UrlMode} {b : Nat} (hb : b < 256)
    (hc : b ≥ 0x80 ∨ shouldEscape (Char.ofNat b) m = true) {rest : List Char} (hr : PctOK m rest) :
    PctOK m (pctByte b ++ rest) := by
  have h1 := hexVal_upperHex (b / 16) (by omega)
  have h2 := hexVal_upperHex (b % 16) (by omega)
  have hb' : 16 * (b / 16) + b % 16 = b := by omega
  exact .pct h1.1 h2.1 h1.2 h2.2 (by rw [hb']; exact hc) hr

theorem utf8Bytes_range (c : Char) (h : ¬ c.toNat < 0x80) : ∀ b ∈ utf8Bytes c, 0x80 ≤ b ∧ b < 256 := by
  have hv : c.toNat < 0x110000 := by
    have := c.valid
    rcases this with h1 | h1
    · have : c.toNat = c.val.toNat := rfl
      omega
    · have : c.toNat = c.val.toNat := rfl
      omega
  intro b hb
  unfold utf8Bytes at hb
  simp only at hb
  split at hb
  · omega
  · split at hb
    · simp only [List.mem_cons, List.not_mem_nil, or_false] at hb
      rcases hb with rfl | rfl <;> omega
    · split at hb
      · simp only [List.mem_cons, List.not_mem_nil, or_false] at hb
        rcases hb with rfl | rfl | rfl <;> omega
      · simp only [List.mem_cons, List.not_mem_nil, or_false] at hb
        rcases hb with rfl | rfl | rfl | rfl <;> omega

theorem pctOK_bytes {m : UrlMode} : ∀ (bs : List Nat), (∀ b ∈ bs, 0x80 ≤ b ∧ b < 256) → ∀ {rest}, PctOK m rest →
    PctOK m (bs.flatMap pctByte ++ rest) := by
  intro bs
  induction bs with
  | nil => intro _ rest hr; simpa using hr
  | cons b more ih =>
    intro h rest hr
    have hb := h b (by simp)
    simp only [List.flatMap_cons, List.append_assoc]
    exact pctOK_pctByte hb.2 (.inl hb.1) (ih (fun x hx => h x (by simp [hx])) hr)

theorem pctOK_of_reescape {m : UrlMode} : ∀ (cs out : List Char), reescape m cs = some out → PctOK m out := by
  intro cs
  fun_induction reescape m cs with
  | case1 a b rest x y hy hx byte hcond ih =>
    intro out h
    simp only [Option.map_eq_some_iff] at h
    obtain ⟨r, hr, rfl⟩ := h
    simp only [Bool.and_eq_true, Bool.or_eq_true, decide_eq_true_eq] at hcond
    exact .pct hx hy hcond.1.1 hcond.1.2 hcond.2 (ih r hr)
  | case2 => intro out h; cases h
  | case3 => intro out h; cases h
  | case4 => intro out h; cases h
  | case5 c rest _ _ hunt => intro out h; cases h
  | case6 c rest _ _ hunt hascii ih =>
    intro out h
    simp only [Option.map_eq_some_iff] at h
    obtain ⟨r, hr, rfl⟩ := h
    have hu : untame c m = false := by simpa using hunt
    by_cases hs : shouldEscape c m = true
    · simp only [hs, if_true]
      exact pctOK_pctByte (by omega) (.inr (by rw [Char.ofNat_toNat]; exact hs)) (ih r hr)
    · have hs' : shouldEscape c m = false := by simpa using hs
      simp only [hs', Bool.false_eq_true, if_false, List.cons_append, List.nil_append]
      exact .keep hu hascii hs' (ih r hr)
  | case7 c rest _ _ hunt hascii ih =>
    intro out h
    simp only [Option.map_eq_some_iff] at h
    obtain ⟨r, hr, rfl⟩ := h
    exact pctOK_bytes _ (utf8Bytes_range c hascii) (ih r hr)
  | case8 => intro out h; simp at h; subst h; exact .nil


/-- `reescape` is idempotent -/
theorem reescape_idem {m : UrlMode} {cs out : List Char} (h : reescape m cs = some out) : reescape m out = some out :=
  reescape_of_pctOK (pctOK_of_reescape cs out h)

/-! ### the characters of a printed component -/

/-- an ordinary printable character of a printed component: not a control, not `#`, not `%`; in a path also
neither `?` nor `:` -/
def PlainChar (m : UrlMode) (c : Char) : Prop :=
  0x21 ≤ c.toNat ∧ c.toNat < 0x7f ∧ c ≠ '#' ∧ (m = .path → c ≠ '?' ∧ c ≠ ':')

def keptOK (m : UrlMode) (n : Nat) : Bool :=
  !(shouldEscape (Char.ofNat n) m == false && untame (Char.ofNat n) m == false) ||
    (decide (0x21 ≤ n) && decide (n < 0x7f) && n != 35 && n != 37 && (m != .path || (n != 63 && n != 58)))

theorem keptOK_all : (List.range 128).all (fun n => keptOK .path n && keptOK .fragment n) = true := by decide

theorem kept_ascii (n : Nat) (hn : n < 128) (m : UrlMode)
    (h1 : shouldEscape (Char.ofNat n) m = false) (h2 : untame (Char.ofNat n) m = false) :
    0x21 ≤ n ∧ n < 0x7f ∧ n ≠ 35 ∧ n ≠ 37 ∧ (m = .path → n ≠ 63 ∧ n ≠ 58) := by
  have := List.all_eq_true.mp keptOK_all n (List.mem_range.mpr hn)
  simp only [Bool.and_eq_true] at this
  have hk : keptOK m n = true := by cases m; exact this.1; exact this.2
  simp only [keptOK, h1, h2, beq_self_eq_true, Bool.and_self, Bool.not_true, Bool.false_or, Bool.and_eq_true,
    decide_eq_true_eq, bne_iff_ne, ne_eq, Bool.or_eq_true] at hk
  obtain ⟨⟨⟨⟨a1, a2⟩, a3⟩, a4⟩, a5⟩ := hk
  refine ⟨a1, a2, a3, a4, ?_⟩
  intro hm
  rcases a5 with h | h
  · exact absurd hm h
  · exact h

theorem toNat_eq_of_char {c : Char} {k : Nat} (h : c.toNat = k) (hk : k < 128) : c = Char.ofNat k := by
  rw [← h, Char.ofNat_toNat]

theorem kept_plain {m : UrlMode} {c : Char} (h1 : untame c m = false) (h2 : c.toNat < 0x80)
    (h3 : shouldEscape c m = false) : PlainChar m c ∧ c ≠ '%' := by
  have := kept_ascii c.toNat h2 m (by rw [Char.ofNat_toNat]; exact h3) (by rw [Char.ofNat_toNat]; exact h1)
  obtain ⟨a1, a2, a3, a4, a5⟩ := this
  refine ⟨⟨a1, a2, ?_, ?_⟩, ?_⟩
  · rintro rfl; exact a3 rfl
  · intro hm
    have := a5 hm
    exact ⟨by rintro rfl; exact this.1 rfl, by rintro rfl; exact this.2 rfl⟩
  · rintro rfl; exact a4 rfl

theorem char_le_toNat {a b : Char} (h : a ≤ b) : a.toNat ≤ b.toNat := by
  have := Char.le_def.mp h
  exact UInt32.le_iff_toNat_le.mp this

theorem upperHex_range {a : Char} (h : isUpperHex a = true) : (48 ≤ a.toNat ∧ a.toNat ≤ 57) ∨ (65 ≤ a.toNat ∧ a.toNat ≤ 70) := by
  simp only [isUpperHex, Bool.or_eq_true, Bool.and_eq_true, decide_eq_true_eq] at h
  rcases h with ⟨h1, h2⟩ | ⟨h1, h2⟩
  · left; exact ⟨char_le_toNat h1, char_le_toNat h2⟩
  · right; exact ⟨char_le_toNat h1, char_le_toNat h2⟩


/-! ### slashes: what `reescape` does to them -/


theorem hds_cons (c : Char) (rest : List Char) :
    hasDoubleSlash (c :: rest) = ((c == '/' && rest.head? == some '/') || hasDoubleSlash rest) := by
  cases rest with
  | nil => by_cases hc : c = '/' <;> simp [hasDoubleSlash, hc]
  | cons d rest =>
    by_cases hc : c = '/'
    · by_cases hd : d = '/'
      · subst hc; subst hd; simp [hasDoubleSlash]
      · subst hc; simp [hasDoubleSlash, hd]
    · simp [hasDoubleSlash, hc]

theorem hds_append_noslash {piece : List Char} (h : ∀ x ∈ piece, x ≠ '/') (r : List Char) :
    hasDoubleSlash (piece ++ r) = hasDoubleSlash r := by
  induction piece with
  | nil => rfl
  | cons x more ih =>
    have hx : x ≠ '/' := h x (by simp)
    rw [List.cons_append, hds_cons, ih (fun y hy => h y (by simp [hy]))]
    simp [hx]

/-- input and output of `reescape`, as far as slashes are concerned -/
inductive Esc : List Char → List Char → Prop
  | nil : Esc [] []
  | slash {rest r} : Esc rest r → Esc ('/' :: rest) ('/' :: r)
  | other {c piece rest r} : c ≠ '/' → piece ≠ [] → (∀ x ∈ piece, x ≠ '/') → Esc rest r → Esc (c :: rest) (piece ++ r)

theorem esc_nil_iff {cs out : List Char} (h : Esc cs out) : out = [] ↔ cs = [] := by
  cases h with
  | nil => simp
  | slash _ => simp
  | other _ hp _ _ => simp [hp]

theorem esc_head {cs out : List Char} (h : Esc cs out) : out.head? = some '/' ↔ cs.head? = some '/' := by
  cases h with
  | nil => simp
  | slash _ => simp
  | @other c piece rest r hc hp hall _ =>
    cases piece with
    | nil => exact absurd rfl hp
    | cons x more =>
      have hx : x ≠ '/' := hall x (by simp)
      simp [hx, hc]

theorem esc_hds {cs out : List Char} (h : Esc cs out) : hasDoubleSlash out = hasDoubleSlash cs := by
  induction h with
  | nil => rfl
  | @slash rest r hr ih =>
    rw [hds_cons, hds_cons, ih]
    have := esc_head hr
    by_cases h1 : rest.head? = some '/'
    · simp [h1, this.mpr h1]
    · have h2 : r.head? ≠ some '/' := fun h => h1 (this.mp h)
      rw [beq_eq_false_iff_ne.mpr h1, beq_eq_false_iff_ne.mpr h2]
  | @other c piece rest r hc hp hall hr ih =>
    rw [hds_append_noslash hall, hds_cons, ih]
    simp [hc]
theorem upperHex_noslash : ∀ n, n < 16 → upperHex n ≠ '/' ∧ upperHex n ≠ '#' ∧ upperHex n ≠ '%' := by decide

theorem pctByte_noslash {b : Nat} (hb : b < 256) : ∀ x ∈ pctByte b, x ≠ '/' := by
  intro x hx
  simp only [pctByte, List.mem_cons, List.not_mem_nil, or_false] at hx
  rcases hx with rfl | rfl | rfl
  · decide
  · exact (upperHex_noslash _ (by omega)).1
  · exact (upperHex_noslash _ (by omega)).1

theorem utf8Bytes_ne_nil (c : Char) : utf8Bytes c ≠ [] := by
  unfold utf8Bytes
  simp only
  split
  · simp
  · split
    · simp
    · split <;> simp

theorem bytes_noslash : ∀ (bs : List Nat), (∀ b ∈ bs, b < 256) → ∀ x ∈ bs.flatMap pctByte, x ≠ '/' := by
  intro bs h x hx
  simp only [List.mem_flatMap] at hx
  obtain ⟨b, hb, hxb⟩ := hx
  exact pctByte_noslash (h b hb) x hxb

theorem isUpperHex_noslash {a : Char} (h : isUpperHex a = true) : a ≠ '/' := by
  rintro rfl
  revert h; decide

theorem shouldEscape_slash (m : UrlMode) : shouldEscape '/' m = false := by cases m <;> decide

theorem esc_of_reescape {m : UrlMode} : ∀ (cs out : List Char), reescape m cs = some out → Esc cs out := by
  intro cs
  fun_induction reescape m cs with
  | case1 a b rest x y hy hx byte hcond ih =>
    intro out h
    simp only [Option.map_eq_some_iff] at h
    obtain ⟨r, hr, rfl⟩ := h
    simp only [Bool.and_eq_true, Bool.or_eq_true, decide_eq_true_eq] at hcond
    have e1 := Esc.other (c := b) (piece := [b]) (isUpperHex_noslash hcond.1.2) (by simp)
      (by intro z hz; simp at hz; subst hz; exact isUpperHex_noslash hcond.1.2) (ih r hr)
    have e2 := Esc.other (c := a) (piece := [a]) (isUpperHex_noslash hcond.1.1) (by simp)
      (by intro z hz; simp at hz; subst hz; exact isUpperHex_noslash hcond.1.1) e1
    have e3 := Esc.other (c := '%') (piece := ['%']) (by decide) (by simp)
      (by intro z hz; simp at hz; subst hz; decide) e2
    simpa using e3
  | case2 => intro out h; cases h
  | case3 => intro out h; cases h
  | case4 => intro out h; cases h
  | case5 c rest _ _ hunt => intro out h; cases h
  | case6 c rest _ _ hunt hascii ih =>
    intro out h
    simp only [Option.map_eq_some_iff] at h
    obtain ⟨r, hr, rfl⟩ := h
    by_cases hs : shouldEscape c m = true
    · simp only [hs, if_true]
      have hc : c ≠ '/' := by rintro rfl; rw [shouldEscape_slash] at hs; cases hs
      exact .other hc (by simp [pctByte]) (pctByte_noslash (by omega)) (ih r hr)
    · have hs' : shouldEscape c m = false := by simpa using hs
      simp only [hs', Bool.false_eq_true, if_false]
      by_cases hc : c = '/'
      · subst hc; exact .slash (ih r hr)
      · exact .other hc (by simp) (by intro z hz; simp at hz; subst hz; exact hc) (ih r hr)
  | case7 c rest _ _ hunt hascii ih =>
    intro out h
    simp only [Option.map_eq_some_iff] at h
    obtain ⟨r, hr, rfl⟩ := h
    have hc : c ≠ '/' := by rintro rfl; exact hascii (by decide)
    refine .other hc ?_ (bytes_noslash _ (fun b hb => (utf8Bytes_range c hascii b hb).2)) (ih r hr)
    have hne := utf8Bytes_ne_nil c
    cases hb : utf8Bytes c with
    | nil => exact absurd hb hne
    | cons b more => simp [pctByte]
  | case8 => intro out h; simp at h; subst h; exact .nil

/-! ### characters of printed components and of the authority part -/

theorem plain_of_toNat {m : UrlMode} {c : Char} (h1 : 0x21 ≤ c.toNat) (h2 : c.toNat < 0x7f) (h3 : c.toNat ≠ 35)
    (h4 : c.toNat ≠ 63) (h5 : c.toNat ≠ 58) : PlainChar m c := by
  refine ⟨h1, h2, ?_, fun _ => ⟨?_, ?_⟩⟩
  · rintro rfl; exact h3 rfl
  · rintro rfl; exact h4 rfl
  · rintro rfl; exact h5 rfl

theorem pctOK_chars {m : UrlMode} {out : List Char} (h : PctOK m out) : ∀ c ∈ out, PlainChar m c := by
  induction h with
  | nil => intro c hc; cases hc
  | keep h1 h2 h3 _ ih =>
    intro c hc
    rcases List.mem_cons.mp hc with rfl | hc
    · exact (kept_plain h1 h2 h3).1
    · exact ih c hc
  | @pct a b x y rest h1 h2 h3 h4 h5 _ ih =>
    intro c hc
    simp only [List.mem_cons] at hc
    rcases hc with rfl | rfl | rfl | hc
    · exact plain_of_toNat (by decide) (by decide) (by decide) (by decide) (by decide)
    · rcases upperHex_range h3 with h | h <;> exact plain_of_toNat (by omega) (by omega) (by omega) (by omega) (by omega)
    · rcases upperHex_range h4 with h | h <;> exact plain_of_toNat (by omega) (by omega) (by omega) (by omega) (by omega)
    · exact ih c hc

theorem badEscape_cons_ne {c : Char} (hc : c ≠ '%') (rest : List Char) : badEscape (c :: rest) = badEscape rest := by
  cases rest with
  | nil => simp [badEscape]
  | cons r1 rest1 =>
    cases rest1 with
    | nil => simp [badEscape]
    | cons r2 rest2 => simp [badEscape, hc]

theorem pctOK_badEscape {m : UrlMode} {out : List Char} (h : PctOK m out) : badEscape out = false := by
  induction h with
  | nil => rfl
  | keep h1 h2 h3 _ ih => rw [badEscape_cons_ne (kept_plain h1 h2 h3).2, ih]
  | pct h1 h2 _ _ _ _ ih => simp [badEscape, h1, h2, ih]

theorem badEscape_append_nopct {a : List Char} (h : ∀ c ∈ a, c ≠ '%') (b : List Char) :
    badEscape (a ++ b) = badEscape b := by
  induction a with
  | nil => rfl
  | cons x more ih =>
    rw [List.cons_append, badEscape_cons_ne (h x (by simp)), ih (fun y hy => h y (by simp [hy]))]

/-- a character of a scheme or host name -/
def SafeChar (c : Char) : Prop :=
  0x21 ≤ c.toNat ∧ c.toNat < 0x7f ∧ c ≠ '#' ∧ c ≠ '?' ∧ c ≠ ':' ∧ c ≠ '/' ∧ c ≠ '%'

theorem safe_of_toNat {c : Char} (h1 : 0x21 ≤ c.toNat) (h2 : c.toNat < 0x7f) (h3 : c.toNat ≠ 35)
    (h4 : c.toNat ≠ 63) (h5 : c.toNat ≠ 58) (h6 : c.toNat ≠ 47) (h7 : c.toNat ≠ 37) : SafeChar c := by
  refine ⟨h1, h2, ?_, ?_, ?_, ?_, ?_⟩
  · rintro rfl; exact h3 rfl
  · rintro rfl; exact h4 rfl
  · rintro rfl; exact h5 rfl
  · rintro rfl; exact h6 rfl
  · rintro rfl; exact h7 rfl

theorem safe_of_authChar {d : Char}
    (h : (('a' ≤ d && d ≤ 'z') || ('0' ≤ d && d ≤ '9') || d == '+' || d == '.' || d == '-') = true) : SafeChar d := by
  simp only [Bool.or_eq_true, Bool.and_eq_true, decide_eq_true_eq, beq_iff_eq] at h
  rcases h with (((⟨h1, h2⟩ | ⟨h1, h2⟩) | rfl) | rfl) | rfl
  · have a := char_le_toNat h1; have b := char_le_toNat h2
    have : ('a' : Char).toNat = 97 := rfl
    have : ('z' : Char).toNat = 122 := rfl
    exact safe_of_toNat (by omega) (by omega) (by omega) (by omega) (by omega) (by omega) (by omega)
  · have a := char_le_toNat h1; have b := char_le_toNat h2
    have : ('0' : Char).toNat = 48 := rfl
    have : ('9' : Char).toNat = 57 := rfl
    exact safe_of_toNat (by omega) (by omega) (by omega) (by omega) (by omega) (by omega) (by omega)
  · exact safe_of_toNat (by decide) (by decide) (by decide) (by decide) (by decide) (by decide) (by decide)
  · exact safe_of_toNat (by decide) (by decide) (by decide) (by decide) (by decide) (by decide) (by decide)
  · exact safe_of_toNat (by decide) (by decide) (by decide) (by decide) (by decide) (by decide) (by decide)

theorem scheme_chars {s : List Char} (h : isSchemeText s = true) : ∀ c ∈ s, SafeChar c := by
  cases s with
  | nil => cases h
  | cons c rest =>
    simp only [isSchemeText, Bool.and_eq_true, List.all_eq_true] at h
    intro d hd
    rcases List.mem_cons.mp hd with rfl | hd
    · exact safe_of_authChar (by simp [h.1])
    · exact safe_of_authChar (h.2 d hd)

theorem host_chars {s : List Char} (h : isHostText s = true) : ∀ c ∈ s, SafeChar c := by
  simp only [isHostText, List.all_eq_true] at h
  intro d hd
  have := h d hd
  exact safe_of_authChar (by
    simp only [Bool.or_eq_true, Bool.and_eq_true, decide_eq_true_eq, beq_iff_eq] at this ⊢
    rcases this with ((h | h) | h) | h
    · exact .inl (.inl (.inl (.inl h)))
    · exact .inl (.inl (.inl (.inr h)))
    · exact .inl (.inr h)
    · exact .inr h)

/-! ### the authority split -/

theorem dropWhile_slash_shape (l : List Char) :
    l.dropWhile (· != '/') = [] ∨ (l.dropWhile (· != '/')).head? = some '/' := by
  induction l with
  | nil => left; rfl
  | cons c rest ih =>
    by_cases hc : c = '/'
    · right; subst hc; simp
    · have : (c != '/') = true := by simpa using hc
      simp only [List.dropWhile_cons, this, if_true]; exact ih

theorem splitAuthority_plain {u : List Char} (h1 : u.contains ':' = false) (h2 : hasDoubleSlash u = false) :
    splitAuthority u = some ([], u) := by
  unfold splitAuthority
  rw [if_neg (by rw [h1]; simp)]
  split
  · simp [hasDoubleSlash] at h2
  · rfl

theorem splitAuthority_inv {u pre path : List Char} (h : splitAuthority u = some (pre, path)) :
    (pre = [] ∧ path = u ∧ u.contains ':' = false) ∨
    (∃ scheme host, pre = scheme ++ [':', '/', '/'] ++ host ∧ isSchemeText scheme = true ∧ isHostText host = true ∧
      (path = [] ∨ path.head? = some '/') ∧ (host.isEmpty && path.isEmpty) = false) := by
  unfold splitAuthority at h
  by_cases hc : u.contains ':' = true
  · rw [if_pos hc] at h
    right
    simp only at h
    split at h
    · rename_i rest hrest
      split at h
      · rename_i hcond
        simp only [Bool.and_eq_true, Bool.not_eq_true'] at hcond
        simp only [Option.some.injEq, Prod.mk.injEq] at h
        refine ⟨_, _, h.1.symm, hcond.1.1, hcond.1.2, ?_, ?_⟩
        · rw [← h.2]; exact dropWhile_slash_shape rest
        · rw [← h.2]; exact hcond.2
      · cases h
    · cases h
  · rw [if_neg hc] at h
    left
    split at h
    · cases h
    · simp only [Option.some.injEq, Prod.mk.injEq] at h
      exact ⟨h.1.symm, h.2.symm, by simpa using hc⟩

theorem splitAuthority_auth {scheme host p : List Char} (hs : isSchemeText scheme = true) (hh : isHostText host = true)
    (hp : p = [] ∨ p.head? = some '/') (hne : (host.isEmpty && p.isEmpty) = false) :
    splitAuthority (scheme ++ [':', '/', '/'] ++ host ++ p) = some (scheme ++ [':', '/', '/'] ++ host, p) := by
  have hsc := scheme_chars hs
  have hhc := host_chars hh
  have e0 : scheme ++ [':', '/', '/'] ++ host ++ p = scheme ++ (':' :: '/' :: '/' :: (host ++ p)) := by simp
  have hcont : (scheme ++ [':', '/', '/'] ++ host ++ p).contains ':' = true := by simp
  have htw : (scheme ++ (':' :: '/' :: '/' :: (host ++ p))).takeWhile (· != ':') = scheme := by
    rw [List.takeWhile_append_of_pos (by intro c hc; simpa using (hsc c hc).2.2.2.2.1)]
    simp
  have hdw : (scheme ++ (':' :: '/' :: '/' :: (host ++ p))).dropWhile (· != ':') = ':' :: '/' :: '/' :: (host ++ p) := by
    rw [List.dropWhile_append_of_pos (by intro c hc; simpa using (hsc c hc).2.2.2.2.1)]
    simp
  have hpos : ∀ c ∈ host, (c != '/') = true := by intro c hc; simpa using (hhc c hc).2.2.2.2.2.1
  have htw2 : (host ++ p).takeWhile (· != '/') = host := by
    rw [List.takeWhile_append_of_pos hpos]
    rcases hp with rfl | hp
    · simp
    · cases p with
      | nil => simp
      | cons c rest => simp at hp; subst hp; simp
  have hdw2 : (host ++ p).dropWhile (· != '/') = p := by
    rw [List.dropWhile_append_of_pos hpos]
    rcases hp with rfl | hp
    · simp
    · cases p with
      | nil => simp
      | cons c rest => simp at hp; subst hp; simp
  unfold splitAuthority
  rw [if_pos hcont]
  simp only [e0, htw, hdw, htw2, hdw2, hs, hh, hne]
  simp

/-! ### the printing model is idempotent -/

theorem urlString_ok_inv {s t : String} (h : urlString s = .ok t) : ∃ pre path p f,
    splitAuthority (s.toList.takeWhile (· != '#')) = some (pre, path) ∧ hasDoubleSlash path = false ∧
    reescape .path path = some p ∧ reescape .fragment ((s.toList.dropWhile (· != '#')).drop 1) = some f ∧
    t = String.ofList (pre ++ p ++ (if f.isEmpty then [] else '#' :: f)) := by
  unfold urlString at h
  simp only at h
  split at h
  · cases h
  · split at h
    · cases h
    · split at h
      · cases h
      · split at h
        · cases h
        · rename_i pre path hsplit
          split at h
          · cases h
          · rename_i hds
            split at h
            · rename_i p f hp hf
              simp only [UrlRes.ok.injEq] at h
              exact ⟨pre, path, p, f, hsplit, by simpa using hds, hp, hf, h.symm⟩
            · cases h

theorem urlString_ok_intro {cs pre path p f : List Char}
    (h0 : (cs.takeWhile (· != '#')).any (fun c => c.toNat < 0x20 || c.toNat == 0x7f) = false)
    (h1 : (cs.takeWhile (· != '#')).contains '?' = false)
    (h2 : badEscape (cs.takeWhile (· != '#')) = false) (h2' : badEscape ((cs.dropWhile (· != '#')).drop 1) = false)
    (h3 : splitAuthority (cs.takeWhile (· != '#')) = some (pre, path)) (h4 : hasDoubleSlash path = false)
    (h5 : reescape .path path = some p) (h6 : reescape .fragment ((cs.dropWhile (· != '#')).drop 1) = some f) :
    urlString (String.ofList cs) = .ok (String.ofList (pre ++ p ++ (if f.isEmpty then [] else '#' :: f))) := by
  unfold urlString
  simp only [String.toList_ofList, h0, h1, h2, h2', h3, h4, h5, h6]
  simp

/-- a character of the authority prefix `scheme://host` -/
def PreChar (c : Char) : Prop := 0x21 ≤ c.toNat ∧ c.toNat < 0x7f ∧ c ≠ '#' ∧ c ≠ '?' ∧ c ≠ '%'

theorem preChar_of_safe {c : Char} (h : SafeChar c) : PreChar c := ⟨h.1, h.2.1, h.2.2.1, h.2.2.2.1, h.2.2.2.2.2.2⟩

theorem pre_chars {scheme host : List Char} (hs : isSchemeText scheme = true) (hh : isHostText host = true) :
    ∀ c ∈ scheme ++ [':', '/', '/'] ++ host, PreChar c := by
  intro c hc
  simp only [List.mem_append, List.mem_cons, List.not_mem_nil, or_false] at hc
  rcases hc with (hc | rfl | rfl | rfl) | hc
  · exact preChar_of_safe (scheme_chars hs c hc)
  · exact ⟨by decide, by decide, by decide, by decide, by decide⟩
  · exact ⟨by decide, by decide, by decide, by decide, by decide⟩
  · exact ⟨by decide, by decide, by decide, by decide, by decide⟩
  · exact preChar_of_safe (host_chars hh c hc)

theorem urlString_idem {s t : String} (h : urlString s = .ok t) : urlString t = .ok t := by
  obtain ⟨pre, path, p, f, hsplit, hds, hp, hf, rfl⟩ := urlString_ok_inv h
  have okp := pctOK_of_reescape _ _ hp
  have okf := pctOK_of_reescape _ _ hf
  have hpc := pctOK_chars okp
  have esc := esc_of_reescape _ _ hp
  have hdsp : hasDoubleSlash p = false := by rw [esc_hds esc]; exact hds
  -- the prefix
  have hpre : (∀ c ∈ pre, PreChar c) ∧ splitAuthority (pre ++ p) = some (pre, p) := by
    rcases splitAuthority_inv hsplit with ⟨rfl, rfl, _⟩ | ⟨scheme, host, rfl, hs, hh, hshape, hne⟩
    · refine ⟨(by intro c hc; cases hc), ?_⟩
      rw [List.nil_append]
      refine splitAuthority_plain ?_ hdsp
      rw [Bool.eq_false_iff]
      intro hc
      have hm : ':' ∈ p := by simpa using hc
      exact ((hpc _ hm).2.2.2 rfl).2 rfl
    · refine ⟨pre_chars hs hh, ?_⟩
      refine splitAuthority_auth hs hh ?_ ?_
      · rcases hshape with h1 | h1
        · left; exact (esc_nil_iff esc).mpr h1
        · right; exact (esc_head esc).mpr h1
      · cases hhost : host.isEmpty with
        | false => simp
        | true =>
          rw [hhost] at hne
          simp only [Bool.true_and, List.isEmpty_eq_false_iff] at hne ⊢
          intro hpnil; exact hne ((esc_nil_iff esc).mp hpnil)
  obtain ⟨hprec, hsplit'⟩ := hpre
  have hpos : ∀ c ∈ pre ++ p, (c != '#') = true := by
    intro c hc
    rcases List.mem_append.mp hc with hc | hc
    · simpa using (hprec c hc).2.2.1
    · simpa using (hpc c hc).2.2.1
  have hu : (pre ++ p ++ (if f.isEmpty then [] else '#' :: f)).takeWhile (· != '#') = pre ++ p := by
    rw [List.takeWhile_append_of_pos hpos]
    split <;> simp
  have hfr : ((pre ++ p ++ (if f.isEmpty then [] else '#' :: f)).dropWhile (· != '#')).drop 1 = f := by
    rw [List.dropWhile_append_of_pos hpos]
    split
    · rename_i hfe; simp at hfe; simp [hfe]
    · simp
  refine urlString_ok_intro (cs := pre ++ p ++ (if f.isEmpty then [] else '#' :: f)) (pre := pre) (path := p) (p := p)
    (f := f) ?_ ?_ ?_ ?_ (by rw [hu]; exact hsplit') hdsp (reescape_idem hp) (by rw [hfr]; exact reescape_idem hf)
  · -- no control character
    rw [hu, List.any_eq_false]
    intro c hc
    have hrange : 0x21 ≤ c.toNat ∧ c.toNat < 0x7f := by
      simp only [List.mem_append] at hc
      rcases hc with hc | hc
      · exact ⟨(hprec c hc).1, (hprec c hc).2.1⟩
      · exact ⟨(hpc c hc).1, (hpc c hc).2.1⟩
    simp only [Bool.or_eq_true, decide_eq_true_eq, beq_iff_eq, not_or]
    omega
  · rw [hu, Bool.eq_false_iff]
    intro hc
    have hm : '?' ∈ pre ++ p := by simpa using hc
    rcases List.mem_append.mp hm with hm | hm
    · exact (hprec _ hm).2.2.2.1 rfl
    · exact ((hpc _ hm).2.2.2 rfl).1 rfl
  · rw [hu, badEscape_append_nopct (fun c hc => (hprec c hc).2.2.2.2), pctOK_badEscape okp]
  · rw [hfr, pctOK_badEscape okf]
end SpecModel.Codec
