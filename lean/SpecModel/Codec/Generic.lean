/-
M1 (generic part) — what `encoding/json` does with values that carry no Go type information:
`interface{}`, `map[string]interface{}`, `[]interface{}`; Go's map-key ordering; `strconv.Atoi`.

Everything here is *decode followed by encode*: the result is the ordered JSON value that `json.Marshal`
prints for the Go value that `json.Unmarshal` built.

Results: `.ok j` | `.error "error…"` (Go returns an error) | `.error "out-of-model…"` (the input leaves the
domain in which the model speaks: a number that is not an exactly representable integer, a URL outside the
tame grammar, a duplicate member that Go would *merge* into an existing value).
-/
import SpecModel.Json

namespace SpecModel.Codec
open SpecModel

abbrev R := Except String

def goError {α} (what : String) : R α := .error ("error:" ++ what)
def outOfModel {α} (what : String) : R α := .error ("out-of-model:" ++ what)

/-- 2^53: integers up to this magnitude survive the trip through `float64` and print as integers. -/
def floatExact : Nat := 9007199254740992

/-- A JSON number decoded into `float64` / `interface{}` and printed again. -/
def normFloat (n : Int) : R Json :=
  if n.natAbs ≤ floatExact then .ok (.num n)
  else if n.natAbs ≥ 2 ^ 1024 then goError "number out of float64 range"
  else outOfModel "number beyond 2^53 in a float64 position"

/-- A JSON number decoded into `int64` and printed again. -/
def normInt64 (n : Int) : R Json :=
  if -9223372036854775808 ≤ n ∧ n ≤ 9223372036854775807 then .ok (.num n) else goError "number out of int64 range"

/-- Go's `map` encoding: keys sorted (bytewise = by code point), one entry per key.
`insertKeep k v acc` adds `k` to the sorted association list unless it is already there
(members are folded from the right, so "already there" means a *later* duplicate: the later one wins). -/
def insertKeep (k : String) (v : Json) : List (String × Json) → List (String × Json)
  | [] => [(k, v)]
  | (l, w) :: rest =>
    if k < l then (k, v) :: (l, w) :: rest
    else if k = l then (l, w) :: rest
    else (l, w) :: insertKeep k v rest

/-- decode into a Go map, encode again: sorted keys, the last duplicate wins. -/
def toGoMap (ms : List (String × Json)) : List (String × Json) :=
  ms.foldr (fun m acc => insertKeep m.1 m.2 acc) []

mutual
  /-- `interface{}`: objects become maps (sorted, de-duplicated), numbers become `float64`. -/
  def normAny : Json → R Json
    | .num n => normFloat n
    | .arr xs => do let ys ← normAnyList xs; pure (.arr ys)
    | .obj ms => do let ys ← normAnyMembers ms; pure (.obj ys)
    | .null => pure .null
    | .bool b => pure (.bool b)
    | .str s => pure (.str s)
  def normAnyList : List Json → R (List Json)
    | [] => pure []
    | x :: xs => do let y ← normAny x; let ys ← normAnyList xs; pure (y :: ys)
  /-- `map[string]interface{}` -/
  def normAnyMembers : List (String × Json) → R (List (String × Json))
    | [] => pure []
    | (k, v) :: rest => do
        let w ← normAny v
        let acc ← normAnyMembers rest
        pure (insertKeep k w acc)
end

/-- Apply an element codec to every element (left to right; the first failure is the result). -/
def mapR {α β} (f : α → R β) : List α → R (List β)
  | [] => pure []
  | x :: xs => do let y ← f x; let ys ← mapR f xs; pure (y :: ys)

/-- Apply a value codec to every member value, then store in a Go map. -/
def mapMembersR (f : Json → R Json) : List (String × Json) → R (List (String × Json))
  | [] => pure []
  | (k, v) :: rest => do
      let w ← f v
      let acc ← mapMembersR f rest
      pure (insertKeep k w acc)

/-! ### strconv.Atoi / Itoa -/

def digitVal (c : Char) : Option Nat :=
  if '0' ≤ c ∧ c ≤ '9' then some (c.toNat - 48) else none

def digitsVal : List Char → Nat → Option Nat
  | [], acc => some acc
  | c :: cs, acc => match digitVal c with
    | some d => digitsVal cs (acc * 10 + d)
    | none => none

/-- `strconv.Atoi` on a 64-bit platform: optional sign, at least one decimal digit, nothing else, in range. -/
def atoi (s : String) : Option Int :=
  let body (neg : Bool) (cs : List Char) : Option Int :=
    match cs with
    | [] => none
    | _ => match digitsVal cs 0 with
      | none => none
      | some n =>
        let v : Int := if neg then -(n : Int) else (n : Int)
        if -9223372036854775808 ≤ v ∧ v ≤ 9223372036854775807 then some v else none
  match s.toList with
  | '-' :: cs => body true cs
  | '+' :: cs => body false cs
  | cs => body false cs

def itoa (n : Int) : String := toString n

/-! ### Insertion sort with a Boolean "less" (the model of `sort.Sort` when `less` is a strict total order) -/

def insertBy {α} (lt : α → α → Bool) (a : α) : List α → List α
  | [] => [a]
  | b :: rest => if lt b a then b :: insertBy lt a rest else a :: b :: rest

def sortBy {α} (lt : α → α → Bool) (l : List α) : List α :=
  l.foldr (insertBy lt) []

/-! ### depth (fuel for the recursive codec) -/

mutual
  def depth : Json → Nat
    | .arr xs => depthList xs + 1
    | .obj ms => depthMembers ms + 1
    | _ => 0
  def depthList : List Json → Nat
    | [] => 0
    | x :: xs => max (depth x) (depthList xs)
  def depthMembers : List (String × Json) → Nat
    | [] => 0
    | (_, x) :: xs => max (depth x) (depthMembers xs)
end

end SpecModel.Codec
