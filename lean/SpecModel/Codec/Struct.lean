/-
M1 (reflective part) — `encoding/json` on a plain Go struct, driven by a `List Field` table.

`normFields rec all fs ms` is "decode the members `ms` into a fresh struct whose visible fields are `all`,
then encode the fields `fs` of it" (`fs = all` for an ordinary struct; `fs ⊂ all` when several embedded
structs were decoded together and are encoded one by one, as `Schema.UnmarshalJSON` does).

`rec` is the codec of the nested types (object kinds and the named union types): the recursion of the
whole model is tied in `Norm.lean`; everything here is a plain function of `rec`.

The state of a field while the members are consumed is `Option Json`:
`none` = the Go zero value (nil pointer / slice / map / interface, "", false, 0),
`some j` = a non-zero-or-non-nil value whose encoding is `j`.
-/
import SpecModel.Codec.Types
import SpecModel.Codec.Generic

namespace SpecModel.Codec
open SpecModel

/-- what a nested position is decoded as -/
inductive Target where
  | kind (k : String)      -- one of the object kinds
  | named (n : String)     -- StringOrArray, SchemaOrBool, SchemaOrArray, SchemaOrStringArray, SchemaProperties
  deriving DecidableEq, Repr, Inhabited

abbrev Rec := Target → Json → R Json

/-! ### member ↦ field (exact name first, else Go's case folding) -/

/-- `encoding/json.foldName` as far as it can reach an ASCII field name:
ASCII letters to upper case, U+017F (ſ) to S, U+212A (Kelvin sign) to K. -/
def foldChar (c : Char) : Char :=
  if 'a' ≤ c ∧ c ≤ 'z' then Char.ofNat (c.toNat - 32)
  else if c.toNat = 0x17F then 'S'
  else if c.toNat = 0x212A then 'K'
  else c

def foldName (s : String) : List Char := s.toList.map foldChar

/-- fields that take part in (un)marshalling by name -/
def visible (fs : List Field) : List Field := fs.filter fun f => !f.skip && !f.embedded

def matchField (all : List Field) (k : String) : Option Field :=
  match all.find? (·.jsonName == k) with
  | some f => some f
  | none => all.find? (fun f => foldName f.jsonName == foldName k)

/-- does member name `k` go to the field named `name`? -/
def goesTo (all : List Field) (name : String) (k : String) : Bool :=
  match matchField all k with
  | some f => f.jsonName == name
  | none => false

/-- the values the decoder stores into field `name`, in document order -/
def fieldVals (all : List Field) (name : String) (ms : List (String × Json)) : List Json :=
  (ms.filter fun m => goesTo all name m.1).map (·.2)

/-! ### one field: decode a (non-null) value and encode it again -/

def strElem : Json → R Json
  | .str s => pure (.str s)
  | .null => pure (.str "")          -- null leaves the zero value of a fresh element
  | _ => goError "string expected"

def strsVal : Json → R Json
  | .arr xs => do let ys ← mapR strElem xs; pure (.arr ys)
  | .null => pure .null              -- nil slice
  | _ => goError "array of strings expected"

def secReqVal : Json → R Json
  | .obj ms => do let ys ← mapMembersR strsVal ms; pure (.obj ys)
  | .null => pure .null              -- nil map
  | _ => goError "object expected"

def ptrTo (rec : Rec) (t : Target) : Json → R Json
  | .null => pure .null              -- nil pointer
  | j => rec t j

/-- `decode ∘ encode` of a non-null JSON value at a field of type `ft` -/
def normFT (rec : Rec) (ft : FT) (v : Json) : R Json :=
  match ft, v with
  | .str, .str s => pure (.str s)
  | .str, _ => goError "string expected"
  | .bool, .bool b => pure (.bool b)
  | .bool, _ => goError "bool expected"
  | .int, .num n => normInt64 n
  | .int, _ => goError "number expected"
  | .optInt, .num n => normInt64 n
  | .optInt, _ => goError "number expected"
  | .float, .num n => normFloat n
  | .float, _ => goError "number expected"
  | .optFloat, .num n => normFloat n
  | .optFloat, _ => goError "number expected"
  | .any, j => normAny j
  | .strs, j => strsVal j
  | .anys, .arr xs => do let ys ← normAnyList xs; pure (.arr ys)
  | .anys, _ => goError "array expected"
  | .strMap, .obj ms => do let ys ← mapMembersR strElem ms; pure (.obj ys)
  | .strMap, _ => goError "object expected"
  | .anyMap, .obj ms => do let ys ← normAnyMembers ms; pure (.obj ys)
  | .anyMap, _ => goError "object expected"
  | .secReqs, .arr xs => do let ys ← mapR secReqVal xs; pure (.arr ys)
  | .secReqs, _ => goError "array expected"
  | .ptrKind k, j => rec (.kind k) j
  | .valKind k, j => rec (.kind k) j
  | .listKind k, .arr xs => do let ys ← mapR (rec (.kind k)) xs; pure (.arr ys)
  | .listKind _, _ => goError "array expected"
  | .mapKind k, .obj ms => do let ys ← mapMembersR (rec (.kind k)) ms; pure (.obj ys)
  | .mapKind _, _ => goError "object expected"
  | .ptrNamed n, j => rec (.named n) j
  | .mapNamed n, .obj ms => do let ys ← mapMembersR (rec (.named n)) ms; pure (.obj ys)
  | .mapNamed _, _ => goError "object expected"
  | .named n, j => rec (.named n) j
  | .struct _, _ => outOfModel "nested plain struct field"
  -- `SecurityDefinitions` = map[string]*SecurityScheme (the only `other` the tables contain)
  | .other "spec.SecurityDefinitions", .obj ms => do
      let ys ← mapMembersR (ptrTo rec (.kind "securityScheme")) ms; pure (.obj ys)
  | .other "spec.SecurityDefinitions", _ => goError "object expected"
  | .other _, _ => outOfModel "field type not modelled"

/-- Types whose decoder writes into the existing Go value (a second member of the same name would be merged
into the first): everything except scalars, slices, and the custom decoders that build a fresh value. -/
def mergesInPlace : FT → Bool
  | .strMap | .anyMap | .mapKind _ | .mapNamed _ | .other _ | .struct _ => true
  | .ptrKind k | .valKind k => !(k == "schema" || k == "items" || k == "swagger")
  | .named n => n == "SchemaProperties"
  | _ => false

/-- `null` at a field: scalars (and `StringOrArray`, whose decoder returns early) keep what they have,
pointers / slices / maps / interfaces become nil. -/
def nullKeeps : FT → Bool
  | .str | .bool | .int | .float => true
  | .named n => n == "StringOrArray"
  | .struct _ => true
  | _ => false

def decodeField (rec : Rec) (ft : FT) (cur : Option Json) (v : Json) : R (Option Json) :=
  match v with
  | .null =>
    match ft with
    | .valKind k => do let r ← rec (.kind k) .null; pure (some r)   -- custom decoder called with `null`
    | _ => pure (if nullKeeps ft then cur else none)
  | _ => do
    let r ← normFT rec ft v
    if cur.isSome && mergesInPlace ft then outOfModel "duplicate member on a field that Go merges in place"
    else pure (some r)

def decodeAll (rec : Rec) (ft : FT) : Option Json → List Json → R (Option Json)
  | cur, [] => pure cur
  | cur, v :: vs => do let st ← decodeField rec ft cur v; decodeAll rec ft st vs

/-- `omitempty` on the encoded form of a non-nil value -/
def isEmptyEnc (ft : FT) (j : Json) : Bool :=
  match ft, j with
  | .str, .str s => s == ""
  | .bool, .bool b => b == false
  | .int, .num n => n == 0
  | .float, .num n => n == 0
  | .strs, .arr [] => true
  | .anys, .arr [] => true
  | .secReqs, .arr [] => true
  | .listKind _, .arr [] => true
  | .strMap, .obj [] => true
  | .anyMap, .obj [] => true
  | .mapKind _, .obj [] => true
  | .mapNamed _, .obj [] => true
  | .other _, .obj [] => true
  | .named "StringOrArray", .arr [] => true
  | .named "SchemaProperties", .obj [] => true
  | _, _ => false

/-- encoding of the zero value of a field that is not `omitempty` -/
def zeroEnc (ft : FT) : Json :=
  match ft with
  | .str => .str ""
  | .bool => .bool false
  | .int | .float => .num 0
  | _ => .null

def encodeField (f : Field) (st : Option Json) : Option (String × Json) :=
  match st with
  | none => if f.omitEmpty then none else some (f.jsonName, zeroEnc f.ft)
  | some j => if f.omitEmpty && isEmptyEnc f.ft j then none else some (f.jsonName, j)

/-- the state of field `f` after all members have been consumed -/
def fieldState (rec : Rec) (all : List Field) (f : Field) (ms : List (String × Json)) : R (Option Json) :=
  decodeAll rec f.ft none (fieldVals all f.jsonName ms)

def normFields (rec : Rec) (all : List Field) : List Field → List (String × Json) → R (List (String × Json))
  | [], _ => pure []
  | f :: fs, ms => do
    let st ← fieldState rec all f ms
    let rest ← normFields rec all fs ms
    pure (match encodeField f st with
      | some m => m :: rest
      | none => rest)

/-- members of a JSON value handed to a struct decoder: `null` is a no-op, anything but an object an error -/
def structMembers : Json → R (List (String × Json))
  | .null => pure []
  | .obj ms => pure ms
  | _ => goError "object expected"

/-- decode+encode of a plain struct with table `fs` -/
def normStruct (rec : Rec) (fs : List Field) (j : Json) : R (List (String × Json)) := do
  let ms ← structMembers j
  normFields rec (visible fs) (visible fs) ms

end SpecModel.Codec
