/-
M2 — the hand-written codecs of go-openapi/spec, one function per custom `MarshalJSON`/`UnmarshalJSON`
pair, composed as *decode then encode*; `swag.ConcatJSON`; and `norm`, the model of

    v := new(T); json.Unmarshal(text, v); json.Marshal(v)

for the Go type `T` of each of the 17 object kinds. Every struct layout comes from the GENERATED tables
(`SpecModel.Gen.structs`, `SpecModel.Gen.kinds`); what is written by hand is the control flow.
-/
import SpecModel.Codec.Struct
import SpecModel.Codec.Url
import SpecModel.Generated.Tables

namespace SpecModel.Codec
open SpecModel

/-! ### swag.ConcatJSON

All call sites pass blobs that are JSON objects, or nil / `null` (skipped). The textual splice drops the
closing brace of every non-empty blob but the last and the opening brace of every non-empty blob but the
first, and joins with commas: on values, the member lists are appended — duplicates are kept.
Blobs shorter than three bytes (`{}`) contribute nothing; if nothing was written the result is `{}`. -/
def concatJSON (blobs : List (Option Json)) : Json :=
  .obj (blobs.flatMap fun b => match b with
    | some (.obj ms) => ms
    | _ => [])

def concatMembers (parts : List (List (String × Json))) : Json :=
  concatJSON (parts.map fun ms => some (.obj ms))

/-! ### VendorExtensible -/

/-- `strings.HasPrefix(strings.ToLower(k), "x-")` -/
def isExtKey (k : String) : Bool :=
  match k.toList with
  | c :: '-' :: _ => c == 'x' || c == 'X'
  | _ => false

/-- the generic decode `var d map[string]interface{}; json.Unmarshal(data, &d)` -/
def genericMap : Json → R (List (String × Json))
  | .null => pure []
  | .obj ms => normAnyMembers ms
  | _ => goError "object expected"

/-- VendorExtensible.UnmarshalJSON then MarshalJSON: the `x-` members, as a Go map -/
def normExtensions (j : Json) : R (List (String × Json)) := do
  let d ← genericMap j
  pure (d.filter fun m => isExtKey m.1)

/-! ### Ref / Refable / SchemaURL -/

def lookupKey (d : List (String × Json)) (k : String) : Option Json :=
  (d.find? (·.1 == k)).map (·.2)

/-- `Ref.fromMap` then `Ref.MarshalJSON`, given the generic map.
`strict = true`: a parse failure is the decoder's error (Refable); `false`: it is discarded (Schema). -/
def refOfMap (strict : Bool) (d : List (String × Json)) : R (List (String × Json)) :=
  match lookupKey d "$ref" with
  | some (.str s) =>
    match urlString s with
    | .ok t => pure [("$ref", .str t)]      -- "" prints as {"$ref":""} too: such a Ref IsRoot
    | .err => if strict then goError "invalid $ref" else pure []
    | .oom => outOfModel "$ref outside the tame URL grammar"
  | _ => pure []

/-- Refable.UnmarshalJSON then MarshalJSON -/
def normRefable (j : Json) : R (List (String × Json)) := do
  let d ← genericMap j
  refOfMap true d

/-- `SchemaURL.fromMap` then `SchemaURL.MarshalJSON` (errors discarded by `Schema.UnmarshalJSON`) -/
def schemaURLOfMap (d : List (String × Json)) : R (List (String × Json)) :=
  match lookupKey d "$schema" with
  | some (.str s) =>
    match urlString s with
    | .ok t => pure (if t == "" then [] else [("$schema", .str t)])
    | .err => pure []
    | .oom => outOfModel "$schema outside the tame URL grammar"
  | _ => pure []

/-! ### Tables -/

def tableOf (n : String) : List Field := visible (lookupStruct Gen.structs n)

def setOmitEmpty (name : String) (fs : List Field) : List Field :=
  fs.map fun f => if f.jsonName == name then { f with omitEmpty := true } else f

/-! ### the union types -/

/-- StringOrArray (non-null input; `null` is a no-op handled at the field) -/
def normStringOrArray : Json → R Json
  | .arr xs => do
      let ys ← mapR strElem xs
      match ys with
      | [y] => pure y
      | _ => pure (.arr ys)
  | .str s => pure (.str s)
  | .null => pure .null
  | _ => goError "only string or array is allowed"

def normSchemaOrBool (rec : Rec) : Json → R Json
  | .obj ms => rec (.kind "schema") (.obj ms)
  | .bool false => pure (.bool false)
  | _ => pure (.bool true)

/-- anything that is neither an object nor an array leaves the zero value, which prints as `null` -/
def normSchemaOrArray (rec : Rec) : Json → R Json
  | .obj ms => rec (.kind "schema") (.obj ms)
  | .arr xs => do let ys ← mapR (rec (.kind "schema")) xs; pure (.arr ys)
  | _ => pure .null

def normSchemaOrStringArray (rec : Rec) : Json → R Json
  | .obj ms => rec (.kind "schema") (.obj ms)
  | .arr xs => do
      let ys ← mapR strElem xs
      pure (if ys.isEmpty then .null else .arr ys)
  | _ => pure .null

/-! ### SchemaProperties / OrderSchemaItems -/

/-- `Extensions.GetInt("x-order")` on an encoded schema: a string that `Atoi` accepts, or a number -/
def xOrder (schema : Json) : Option Int :=
  match schema.get? "x-order" with
  | some (.str s) => atoi s
  | some (.num n) => some n
  | _ => none

/-- `OrderSchemaItems.Less` -/
def lessItem (a b : String × Json) : Bool :=
  match xOrder a.2, xOrder b.2 with
  | some i, some j => if i == j then a.1 < b.1 else i < j
  | some _, none => true
  | none, some _ => false
  | none, none => a.1 < b.1

/-- map[string]Schema decoded reflectively, encoded by `SchemaProperties.MarshalJSON` -/
def normSchemaProperties (rec : Rec) : Json → R Json
  | .obj ms => do
      let ys ← mapMembersR (rec (.kind "schema")) ms
      pure (.obj (sortBy lessItem ys))
  | .null => pure .null
  | _ => goError "object expected"

/-! ### Schema -/

def schemaKnownNames : List String :=
  jsonNames (lookupStruct Gen.structs "SchemaProps") ++ jsonNames (lookupStruct Gen.structs "SwaggerSchemaProps")

def normSchema (rec : Rec) : Json → R Json
  | .null => pure (.obj [])
  | .obj ms => do
      let p1 := tableOf "SchemaProps"
      let p2 := tableOf "SwaggerSchemaProps"
      let all := p1 ++ p2
      let b1 ← normFields rec all p1 ms
      let b5 ← normFields rec all p2 ms
      let d ← normAnyMembers ms
      let b3 ← refOfMap false d
      let b4 ← schemaURLOfMap d
      let rest := d.filter fun m => !(m.1 == "$ref" || m.1 == "$schema" || schemaKnownNames.contains m.1)
      let b2 := rest.filter fun m => isExtKey m.1
      let b6 := rest.filter fun m => !isExtKey m.1
      pure (concatMembers [b1, b2, b3, b4, b5, b6])
  | _ => goError "object expected"

/-! ### Response -/

def normResponse (rec : Rec) (j : Json) : R Json := do
  let ms ← structMembers j
  let props := tableOf "ResponseProps"
  let full ← normFields rec props props ms
  let b2 ← normRefable j
  let b3 ← normExtensions j
  let hasRef := match b2 with
    | [(_, .str t)] => t != ""
    | _ => false
  if hasRef then do
    -- the anonymous struct of Response.MarshalJSON: description is omitempty, Headers is not copied
    let lit ← normFields rec props (setOmitEmpty "description" props) ms
    pure (concatMembers [lit.filter (·.1 != "headers"), b2, b3])
  else
    pure (concatMembers [full, b2, b3])

/-! ### Responses / ResponsesProps -/

/-- map[string]json.RawMessage: one entry per name, the last one wins, order irrelevant -/
def rawMap (ms : List (String × Json)) : List (String × Json) := toGoMap ms

def hasXPrefix (k : String) : Bool :=
  match k.toList with
  | 'x' :: '-' :: _ => true
  | _ => false

def statusEntries (rec : Rec) : List (String × Json) → R (List (Int × Json))
  | [] => pure []
  | (k, v) :: rest => do
      if k == "default" || hasXPrefix k then statusEntries rec rest
      else
        let r ← rec (.kind "response") v       -- decoded (and checked) whether or not the key is a number
        let more ← statusEntries rec rest
        match atoi k with
        | some n => pure ((n, r) :: more)
        | none => pure more

def hasDupCodes : List (Int × Json) → Bool
  | [] => false
  | (n, _) :: rest => rest.any (·.1 == n) || hasDupCodes rest

/-- the `default` member of a responses object, decoded as a response -/
def defaultPart (rec : Rec) (raw : List (String × Json)) : R (List (String × Json)) :=
  match lookupKey raw "default" with
  | some v => do let r ← rec (.kind "response") v; pure [("default", r)]
  | none => pure []

def normResponsesProps (rec : Rec) : Json → R (List (String × Json))
  | .null => pure []
  | .obj ms => do
      let raw := rawMap ms
      let dflt ← defaultPart rec raw
      let codes ← statusEntries rec raw
      if hasDupCodes codes then outOfModel "two status-code keys denote the same integer (map order decides)"
      else pure (toGoMap (dflt ++ codes.map fun e => (itoa e.1, e.2)))
  | _ => goError "object expected"

def normResponses (rec : Rec) (j : Json) : R Json := do
  let b1 ← normResponsesProps rec j
  let b2 ← normExtensions j
  pure (concatMembers [b1, b2])

/-! ### Paths -/

def startsWithSlash (k : String) : Bool :=
  match k.toList with
  | '/' :: _ => true
  | _ => false

def normPaths (rec : Rec) : Json → R Json
  | .null => pure (.obj [])
  | .obj ms => do
      let raw := rawMap ms
      let exts ← mapMembersR normAny (raw.filter fun m => isExtKey m.1)
      let pths ← mapMembersR (rec (.kind "pathItem")) (raw.filter fun m => startsWithSlash m.1)
      pure (concatMembers [exts, pths])
  | _ => goError "object expected"

/-! ### SecurityScheme -/

def normSecurityScheme (rec : Rec) (j : Json) : R Json := do
  let ms ← structMembers j
  let props := tableOf "SecuritySchemeProps"
  let full ← normFields rec props props ms
  let b2 ← normExtensions j
  let oauthFlow :=
    lookupKey full "type" == some (.str "oauth2") &&
    (lookupKey full "flow" == some (.str "implicit") || lookupKey full "flow" == some (.str "accessCode"))
  if oauthFlow then pure (concatMembers [full, b2])
  else do
    let lit ← normFields rec props (setOmitEmpty "authorizationUrl" props) ms
    pure (concatMembers [lit, b2])

/-! ### OperationProps: `security` first; omitted when nil, kept when empty-but-present -/

def normOperationProps (rec : Rec) (j : Json) : R (List (String × Json)) := do
  let ms ← structMembers j
  let props := tableOf "OperationProps"
  let others ← normFields rec props (props.filter (·.jsonName != "security")) ms
  let sec ← match props.find? (·.jsonName == "security") with
    | some f => do
        let st ← fieldState rec props f ms
        pure (match st with
          | some v => [("security", v)]
          | none => [])
    | none => pure []
  pure (sec ++ others)

/-! ### the regular kinds: `ConcatJSON` of independently decoded and encoded parts (part list GENERATED) -/

def normPart (rec : Rec) (part : String) (j : Json) : R (List (String × Json)) :=
  if part == "VendorExtensible" then normExtensions j
  else if part == "Refable" then normRefable j
  else if part == "OperationProps" then normOperationProps rec j
  else normStruct rec (lookupStruct Gen.structs part) j

def normParts (rec : Rec) (j : Json) : List String → R (List (List (String × Json)))
  | [] => pure []
  | p :: ps => do let b ← normPart rec p j; let bs ← normParts rec j ps; pure (b :: bs)

def normConcatKind (rec : Rec) (ki : KindInfo) (j : Json) : R Json := do
  -- parts that are decoded but not encoded can still fail
  let _ ← normParts rec j (ki.unmarshalTargets.filter fun p => !ki.marshalParts.contains p)
  -- a part that is encoded but never decoded stays zero
  let bs ← normParts rec j (ki.marshalParts.filter fun p => ki.unmarshalTargets.contains p)
  let zs ← normParts rec .null (ki.marshalParts.filter fun p => !ki.unmarshalTargets.contains p)
  let _ := zs
  pure (concatMembers bs)

def normKind (rec : Rec) (k : String) (j : Json) : R Json :=
  if k == "schema" then normSchema rec j
  else if k == "response" then normResponse rec j
  else if k == "responses" then normResponses rec j
  else if k == "paths" then normPaths rec j
  else if k == "securityScheme" then normSecurityScheme rec j
  else match lookupKind Gen.kinds k with
    | none => .error ("bad-op:unknown kind " ++ k)
    | some ki =>
      if ki.marshalShape == "reflect" then do
        let ms ← normStruct rec (lookupStruct Gen.structs ki.goType) j
        pure (.obj ms)
      else normConcatKind rec ki j

def normNamed (rec : Rec) (n : String) (j : Json) : R Json :=
  if n == "StringOrArray" then normStringOrArray j
  else if n == "SchemaOrBool" then normSchemaOrBool rec j
  else if n == "SchemaOrArray" then normSchemaOrArray rec j
  else if n == "SchemaOrStringArray" then normSchemaOrStringArray rec j
  else if n == "SchemaProperties" then normSchemaProperties rec j
  else outOfModel ("named type not modelled: " ++ n)

/-! ### tying the recursion (fuel; `norm` supplies enough of it) -/

def normF : Nat → Target → Json → R Json
  | 0, _, _ => .error "error:fuel"
  | fuel + 1, .kind k, j => normKind (normF fuel) k j
  | fuel + 1, .named n, j => normNamed (normF fuel) n j

/-- every level of nesting of the input costs at most three calls (kind → map of named → kind) -/
def fuelFor (j : Json) : Nat := 3 * depth j + 4

def norm (kind : String) (j : Json) : R Json :=
  normF (fuelFor j) (.kind kind) j

end SpecModel.Codec
