/-
C15, the remaining kinds with a hand-written lookup, on actual encodings: response, security scheme, responses,
paths (`Lookup.lean` has the regular kinds and schema).
-/
import SpecModel.Codec.Lookup

namespace SpecModel.Codec
open SpecModel

theorem normResponse_claims {rec : Rec} (hr : RecND rec) (hT : tablesNodup Gen.structs = true) {j : Json}
    {ms : List (String × Json)} (h : normResponse rec j = .ok (.obj ms)) :
    ∀ m ∈ ms, ∃ d ∈ responseDescs, claims d m.1 := by
  have hn := lookupStruct_nodup hT "ResponseProps"
  rw [normResponse_unfold] at h
  simp only [bind, Except.bind] at h
  split at h
  · simp at h
  · rename_i ms0 _
    split at h
    · simp at h
    · rename_i full hfull
      split at h
      · simp at h
      · rename_i b2 hb2
        split at h
        · simp at h
        · rename_i b3 hb3
          have c2 := normRefable_conf hb2
          have c3 := normExtensions_conf hb3
          cases hhr : hasRefOf b2 with
          | false =>
            simp only [hhr, Bool.false_eq_true, if_false, pure, Except.pure, Except.ok.injEq] at h
            rw [concatMembers_eq] at h
            simp only [Json.obj.injEq] at h
            subst h
            have cf := normFields_conf hr (names := tableNames (lookupStruct Gen.structs "ResponseProps"))
              (by rw [tableOf_names]; exact List.Sublist.refl _) hn hfull
            exact confAll_claims (ds := responseDescs) (.cons cf.1 (.cons c2.1 (.cons c3.1 .nil)))
          | true =>
            simp only [hhr, if_true, bind, Except.bind] at h
            split at h
            · simp at h
            · rename_i lit hlit
              simp only [pure, Except.pure, Except.ok.injEq] at h
              rw [concatMembers_eq] at h
              simp only [Json.obj.injEq] at h
              subst h
              have hsn : (setOmitEmpty "description" (tableOf "ResponseProps")).map (·.jsonName) =
                  tableNames (lookupStruct Gen.structs "ResponseProps") := by
                rw [setOmitEmpty_names, tableOf_names]
              have hlitF := normFields_filter (tableOf "ResponseProps") (fun k => k != "headers") _ _ _ hlit
              have hsubl : ((setOmitEmpty "description" (tableOf "ResponseProps")).filter
                  (fun f => (fun k => k != "headers") f.jsonName)).map (·.jsonName) |>.Sublist
                  (tableNames (lookupStruct Gen.structs "ResponseProps")) := by
                rw [← hsn]; exact (List.filter_sublist).map _
              have cl := normFields_conf hr (names := tableNames (lookupStruct Gen.structs "ResponseProps")) hsubl hn hlitF
              exact confAll_claims (ds := responseDescs) (.cons cl.1 (.cons c2.1 (.cons c3.1 .nil)))

theorem normSecurityScheme_claims {rec : Rec} (hr : RecND rec) (hT : tablesNodup Gen.structs = true) {j : Json}
    {ms : List (String × Json)} (h : normSecurityScheme rec j = .ok (.obj ms)) :
    ∀ m ∈ ms, ∃ d ∈ securitySchemeDescs, claims d m.1 := by
  have hn := lookupStruct_nodup hT "SecuritySchemeProps"
  simp only [normSecurityScheme, bind, Except.bind] at h
  split at h
  · simp at h
  · split at h
    · simp at h
    · rename_i full hfull
      split at h
      · simp at h
      · rename_i b2 hb2
        have c2 := normExtensions_conf hb2
        split at h
        · simp only [pure, Except.pure, Except.ok.injEq] at h
          rw [concatMembers_eq] at h
          simp only [Json.obj.injEq] at h
          subst h
          have cf := normFields_conf hr (names := tableNames (lookupStruct Gen.structs "SecuritySchemeProps"))
            (by rw [tableOf_names]; exact List.Sublist.refl _) hn hfull
          exact confAll_claims (ds := securitySchemeDescs) (.cons cf.1 (.cons c2.1 .nil))
        · split at h
          · simp at h
          · rename_i lit hlit
            simp only [pure, Except.pure, Except.ok.injEq] at h
            rw [concatMembers_eq] at h
            simp only [Json.obj.injEq] at h
            subst h
            have cl := normFields_conf hr (names := tableNames (lookupStruct Gen.structs "SecuritySchemeProps"))
              (by rw [setOmitEmpty_names, tableOf_names]; exact List.Sublist.refl _) hn hlit
            exact confAll_claims (ds := securitySchemeDescs) (.cons cl.1 (.cons c2.1 .nil))

/-- the descriptors of the hand-written response / security-scheme encoders are those of their live parts -/
theorem responseDescs_eq {ki : KindInfo} (h : liveParts ki = ["ResponseProps", "Refable", "VendorExtensible"]) :
    (liveParts ki).map descOf = responseDescs := by rw [h]; rfl

theorem securitySchemeDescs_eq {ki : KindInfo} (h : liveParts ki = ["SecuritySchemeProps", "VendorExtensible"]) :
    (liveParts ki).map descOf = securitySchemeDescs := by rw [h]; rfl

theorem normResponses_members {rec : Rec} {j : Json} {ms : List (String × Json)}
    (h : normResponses rec j = .ok (.obj ms)) :
    ∀ m ∈ ms, m.1 = "default" ∨ isExtKey m.1 = true ∨ ∃ n, m.1 = itoa n ∧ int64Range n := by
  simp only [normResponses, bind, Except.bind] at h
  split at h
  · simp at h
  · rename_i b1 hb1
    split at h
    · simp at h
    · rename_i b2 hb2
      simp only [pure, Except.pure, Except.ok.injEq] at h
      rw [concatMembers_eq] at h
      simp only [Json.obj.injEq] at h
      subst h
      have ⟨_, i2⟩ := normResponsesProps_img hb1
      have c2 := normExtensions_conf hb2
      intro m hm
      simp only [List.flatten_cons, List.flatten_nil, List.append_nil, List.mem_append] at hm
      rcases hm with h1 | h1
      · rcases (i2 m h1).2 with h2 | ⟨n, h2, h3⟩
        · exact .inl h2
        · exact .inr (.inr ⟨n, h2, h3⟩)
      · rcases c2.1.2 m.1 (mem_keysOf h1) with h' | ⟨_, h'⟩
        · simp at h'
        · exact .inr (.inl h')

theorem normPaths_members {rec : Rec} {j : Json} {ms : List (String × Json)} (h : normPaths rec j = .ok (.obj ms)) :
    ∀ m ∈ ms, startsWithSlash m.1 = true ∨ isExtKey m.1 = true := by
  cases j with
  | null =>
    simp [normPaths, pure, Except.pure] at h; subst h; intro m hm; simp at hm
  | bool _ => simp [normPaths, goError] at h
  | num _ => simp [normPaths, goError] at h
  | str _ => simp [normPaths, goError] at h
  | arr _ => simp [normPaths, goError] at h
  | obj ms0 =>
    simp only [normPaths, bind, Except.bind] at h
    split at h
    · simp at h
    · rename_i exts hexts
      split at h
      · simp at h
      · rename_i pths hpths
        simp only [pure, Except.pure, Except.ok.injEq] at h
        rw [concatMembers_eq] at h
        simp only [Json.obj.injEq] at h
        subst h
        intro m hm
        simp only [List.flatten_cons, List.flatten_nil, List.append_nil, List.mem_append] at hm
        rcases hm with h1 | h1
        · obtain ⟨x, hx, hk, _⟩ := mapMembersR_mem _ exts hexts m h1
          right; rw [← hk]; exact (List.mem_filter.mp hx).2
        · obtain ⟨x, hx, hk, _⟩ := mapMembersR_mem _ pths hpths m h1
          left; rw [← hk]; exact (List.mem_filter.mp hx).2


/-! ### on actual encodings -/

theorem norm_succ {k : String} {j r : Json} (h : norm k j = .ok r) : ∃ n, normKind (normF n) k j = .ok r := by
  unfold norm at h
  cases hf : fuelFor j with
  | zero => rw [hf] at h; simp [normF] at h
  | succ n => rw [hf] at h; exact ⟨n, by simpa [normF] using h⟩

theorem norm_lookup_response (ok : TablesOK) {ki : KindInfo} (hk : lookupKind Gen.kinds "response" = some ki)
    (hlive : liveParts ki = ["ResponseProps", "Refable", "VendorExtensible"])
    (hcov : structCovered ki = true) (hext : extCovered ki = true) (hkw : keywordsNotNumerals = true)
    {j₀ : Json} {ms : List (String × Json)} (h : norm "response" j₀ = .ok (.obj ms))
    {tok : String} {v : Json} (hm : (tok, v) ∈ ms) (hne : tok ≠ "$ref") : lookupTok "response" ms tok = some v := by
  have hl := nd_obj_lookup (norm_nd ok "response" j₀ _ h) hm
  obtain ⟨n, hn⟩ := norm_succ h
  have h1 : normResponse (normF n) j₀ = .ok (.obj ms) := by simpa [normKind] using hn
  obtain ⟨d, hd, hcl⟩ := normResponse_claims (normF_nd ok n) ok.tables h1 (tok, v) hm
  exact member_found_regular hk hcov hext hkw hl hne (by rw [responseDescs_eq hlive]; exact hd) hcl

theorem norm_lookup_securityScheme (ok : TablesOK) {ki : KindInfo}
    (hk : lookupKind Gen.kinds "securityScheme" = some ki)
    (hlive : liveParts ki = ["SecuritySchemeProps", "VendorExtensible"])
    (hcov : structCovered ki = true) (hext : extCovered ki = true) (hkw : keywordsNotNumerals = true)
    {j₀ : Json} {ms : List (String × Json)} (h : norm "securityScheme" j₀ = .ok (.obj ms))
    {tok : String} {v : Json} (hm : (tok, v) ∈ ms) (hne : tok ≠ "$ref") :
    lookupTok "securityScheme" ms tok = some v := by
  have hl := nd_obj_lookup (norm_nd ok "securityScheme" j₀ _ h) hm
  obtain ⟨n, hn⟩ := norm_succ h
  have h1 : normSecurityScheme (normF n) j₀ = .ok (.obj ms) := by simpa [normKind] using hn
  obtain ⟨d, hd, hcl⟩ := normSecurityScheme_claims (normF_nd ok n) ok.tables h1 (tok, v) hm
  exact member_found_regular hk hcov hext hkw hl hne (by rw [securitySchemeDescs_eq hlive]; exact hd) hcl

theorem norm_lookup_responses (ok : TablesOK) {ki : KindInfo} (hk : lookupKind Gen.kinds "responses" = some ki)
    (hchain : ["Default", "Extensions", "StatusCodeResponses"].all ki.lookupChain.contains = true)
    {j₀ : Json} {ms : List (String × Json)} (h : norm "responses" j₀ = .ok (.obj ms))
    {tok : String} {v : Json} (hm : (tok, v) ∈ ms) : lookupTok "responses" ms tok = some v := by
  have hl := nd_obj_lookup (norm_nd ok "responses" j₀ _ h) hm
  obtain ⟨n, hn⟩ := norm_succ h
  have h1 : normResponses (normF n) j₀ = .ok (.obj ms) := by simpa [normKind] using hn
  exact member_found_responses hk hchain hl (normResponses_members h1 (tok, v) hm)

theorem norm_lookup_paths (ok : TablesOK) {ki : KindInfo} (hk : lookupKind Gen.kinds "paths" = some ki)
    (hchain : ["Paths", "Extensions"].all ki.lookupChain.contains = true)
    {j₀ : Json} {ms : List (String × Json)} (h : norm "paths" j₀ = .ok (.obj ms))
    {tok : String} {v : Json} (hm : (tok, v) ∈ ms) : lookupTok "paths" ms tok = some v := by
  have hl := nd_obj_lookup (norm_nd ok "paths" j₀ _ h) hm
  obtain ⟨n, hn⟩ := norm_succ h
  have h1 : normPaths (normF n) j₀ = .ok (.obj ms) := by simpa [normKind] using hn
  exact member_found_paths hk hchain hl (normPaths_members h1 (tok, v) hm)

end SpecModel.Codec
