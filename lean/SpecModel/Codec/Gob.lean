/-
M6 — what `encoding/gob` transport does to a decoded document, expressed on its JSON encoding.

gob omits zero-valued struct fields and cannot tell an empty slice from a nil one, so for a value `v` of one
of the model kinds, `json.Marshal(gobDecode(gobEncode v))` differs from `json.Marshal v` in exactly two ways
(observed on the real code and tied to it by the `gob` correspondence on every run):

* a numeric validation held through a pointer (`*float64`, `*int64`) whose value is 0 comes back as a nil
  pointer: the member disappears;
* inside free-form values (`interface{}`: default, example, enum elements, examples, extension values, unknown
  schema keywords) an empty array `[]interface{}{}` comes back nil: it prints as `null`; likewise an empty
  `items` tuple.
Everything else — empty-but-present security requirements (padded by the custom GobEncode of Swagger and
Operation), references (gob of their JSON form), boolean-or-schema unions, nested kinds — is preserved.

`gobJ kind j` computes the JSON after transport from the JSON before, by kind, from the GENERATED tables.
-/
import SpecModel.Codec.Norm

namespace SpecModel.Codec
open SpecModel

mutual
  /-- a free-form value after gob transport -/
  def gobAny : Json → Json
    | .arr [] => .null
    | .arr (x :: xs) => .arr (gobAny x :: gobAnyList xs)
    | .obj ms => .obj (gobAnyMembers ms)
    | j => j
  def gobAnyList : List Json → List Json
    | [] => []
    | x :: xs => gobAny x :: gobAnyList xs
  def gobAnyMembers : List (String × Json) → List (String × Json)
    | [] => []
    | (k, v) :: rest => (k, gobAny v) :: gobAnyMembers rest
end

abbrev GRec := Target → Json → Json

def mapVals (f : Json → Json) (ms : List (String × Json)) : List (String × Json) := ms.map fun m => (m.1, f m.2)

/-- a member of field type `ft` with encoded value `v`; `none` = the member disappears -/
def gobFT (rec : GRec) (ft : FT) (v : Json) : Option Json :=
  match ft, v with
  | .optInt, .num 0 => none
  | .optFloat, .num 0 => none
  | .any, j => some (gobAny j)
  | .anys, .arr xs => some (.arr (gobAnyList xs))
  | .anyMap, .obj ms => some (.obj (gobAnyMembers ms))
  | .ptrKind k, j => some (rec (.kind k) j)
  | .valKind k, j => some (rec (.kind k) j)
  | .listKind k, .arr xs => some (.arr (xs.map (rec (.kind k))))
  | .mapKind k, .obj ms => some (.obj (mapVals (rec (.kind k)) ms))
  | .ptrNamed n, j => some (rec (.named n) j)
  | .mapNamed n, .obj ms => some (.obj (mapVals (rec (.named n)) ms))
  | .named n, j => some (rec (.named n) j)
  | .other "spec.SecurityDefinitions", .obj ms => some (.obj (mapVals (rec (.kind "securityScheme")) ms))
  | _, j => some j

/-- the struct tables whose fields a kind's encoding is made of -/
def partsOfKind (k : String) : List String :=
  if k == "schema" then ["SchemaProps", "SwaggerSchemaProps"]
  else match lookupKind Gen.kinds k with
    | none => []
    | some ki => if ki.marshalShape == "reflect" then [ki.goType] else ki.marshalParts

def fieldsOfKind (k : String) : List Field := (partsOfKind k).flatMap tableOf

def gobMember (rec : GRec) (k : String) (fs : List Field) (m : String × Json) : Option (String × Json) :=
  if isExtKey m.1 then some (m.1, gobAny m.2)
  else match fs.find? (·.jsonName == m.1) with
    | some f => (gobFT rec f.ft m.2).map fun v => (m.1, v)
    | none =>
      if k == "schema" && !(m.1 == "$ref" || m.1 == "$schema") then some (m.1, gobAny m.2)   -- ExtraProps
      else if k == "responses" then some (m.1, rec (.kind "response") m.2)                    -- default / status codes
      else if k == "paths" then some (m.1, rec (.kind "pathItem") m.2)
      else some m

def gobKind (rec : GRec) (k : String) : Json → Json
  | .obj ms => .obj (ms.filterMap (gobMember rec k (fieldsOfKind k)))
  | j => j

def gobNamed (rec : GRec) (n : String) : Json → Json
  | .obj ms =>
      if n == "SchemaProperties" then .obj (mapVals (rec (.kind "schema")) ms)
      else rec (.kind "schema") (.obj ms)          -- SchemaOrBool / SchemaOrArray / SchemaOrStringArray holding a schema
  | .arr [] => if n == "SchemaOrArray" then .null else .arr []   -- an empty tuple comes back nil
  | .arr xs => if n == "SchemaOrArray" then .arr (xs.map (rec (.kind "schema"))) else .arr xs
  | j => j

def gobF : Nat → Target → Json → Json
  | 0, _, j => j
  | fuel + 1, .kind k, j => gobKind (gobF fuel) k j
  | fuel + 1, .named n, j => gobNamed (gobF fuel) n j

/-- the JSON encoding after gob transport of the value whose JSON encoding is `j` -/
def gobJ (kind : String) (j : Json) : Json := gobF (fuelFor j) (.kind kind) j

/-! ### what survives -/

mutual
  /-- no empty array anywhere inside -/
  def NoEmptyArr : Json → Prop
    | .arr [] => False
    | .arr (x :: xs) => NoEmptyArr x ∧ NoEmptyArrL xs
    | .obj ms => NoEmptyArrM ms
    | _ => True
  def NoEmptyArrL : List Json → Prop
    | [] => True
    | x :: xs => NoEmptyArr x ∧ NoEmptyArrL xs
  def NoEmptyArrM : List (String × Json) → Prop
    | [] => True
    | (_, x) :: xs => NoEmptyArr x ∧ NoEmptyArrM xs
end

mutual
  theorem gobAny_of_noEmptyArr : ∀ j : Json, NoEmptyArr j → gobAny j = j
    | .arr [], h => by simp [NoEmptyArr] at h
    | .arr (x :: xs), h => by
        have h' : NoEmptyArr x ∧ NoEmptyArrL xs := by simpa [NoEmptyArr] using h
        simp [gobAny, gobAny_of_noEmptyArr x h'.1, gobAnyList_of_noEmptyArr xs h'.2]
    | .obj ms, h => by
        have h' : NoEmptyArrM ms := by simpa [NoEmptyArr] using h
        simp [gobAny, gobAnyMembers_of_noEmptyArr ms h']
    | .null, _ => rfl
    | .bool _, _ => rfl
    | .num _, _ => rfl
    | .str _, _ => rfl
  theorem gobAnyList_of_noEmptyArr : ∀ xs : List Json, NoEmptyArrL xs → gobAnyList xs = xs
    | [], _ => rfl
    | x :: xs, h => by
        have h' : NoEmptyArr x ∧ NoEmptyArrL xs := by simpa [NoEmptyArrL] using h
        simp [gobAnyList, gobAny_of_noEmptyArr x h'.1, gobAnyList_of_noEmptyArr xs h'.2]
  theorem gobAnyMembers_of_noEmptyArr : ∀ ms : List (String × Json), NoEmptyArrM ms → gobAnyMembers ms = ms
    | [], _ => rfl
    | (k, v) :: rest, h => by
        have h' : NoEmptyArr v ∧ NoEmptyArrM rest := by simpa [NoEmptyArrM] using h
        simp [gobAnyMembers, gobAny_of_noEmptyArr v h'.1, gobAnyMembers_of_noEmptyArr rest h'.2]
end

end SpecModel.Codec
