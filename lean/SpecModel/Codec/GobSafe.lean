/-
C14 for whole documents: gob transport (as modelled by `gobJ`) changes NOTHING in a document that has no empty
array and no member whose value is the number 0, for every kind, at any depth.  The two exclusions are exactly
the two known findings (K-C14-2: an empty array in a free-form payload or an empty `items` tuple comes back
`null`; K-C14-1: a pointer-held numeric validation equal to 0 disappears); the hypothesis is a little wider than
necessary (it also excludes `"default": 0`, which survives), which keeps it kind-agnostic and decidable.
-/
import SpecModel.Codec.Gob

namespace SpecModel.Codec
open SpecModel

mutual
  /-- no member, at any depth, whose value is the number 0 -/
  def ZeroFree : Json → Prop
    | .arr xs => ZeroFreeL xs
    | .obj ms => ZeroFreeM ms
    | _ => True
  def ZeroFreeL : List Json → Prop
    | [] => True
    | x :: xs => ZeroFree x ∧ ZeroFreeL xs
  def ZeroFreeM : List (String × Json) → Prop
    | [] => True
    | (_, v) :: rest => v ≠ .num 0 ∧ ZeroFree v ∧ ZeroFreeM rest
end

def GobSafe (j : Json) : Prop := NoEmptyArr j ∧ ZeroFree j

theorem noEmptyArrL_iff {xs : List Json} : NoEmptyArrL xs ↔ ∀ x ∈ xs, NoEmptyArr x := by
  induction xs with
  | nil => simp [NoEmptyArrL]
  | cons a rest ih => simp [NoEmptyArrL, ih]

theorem noEmptyArrM_iff {ms : List (String × Json)} : NoEmptyArrM ms ↔ ∀ m ∈ ms, NoEmptyArr m.2 := by
  induction ms with
  | nil => simp [NoEmptyArrM]
  | cons a rest ih => obtain ⟨k, v⟩ := a; simp [NoEmptyArrM, ih]

theorem zeroFreeL_iff {xs : List Json} : ZeroFreeL xs ↔ ∀ x ∈ xs, ZeroFree x := by
  induction xs with
  | nil => simp [ZeroFreeL]
  | cons a rest ih => simp [ZeroFreeL, ih]

theorem zeroFreeM_iff {ms : List (String × Json)} : ZeroFreeM ms ↔ ∀ m ∈ ms, m.2 ≠ .num 0 ∧ ZeroFree m.2 := by
  induction ms with
  | nil => simp [ZeroFreeM]
  | cons a rest ih =>
    obtain ⟨k, v⟩ := a
    simp only [ZeroFreeM, ih, List.mem_cons, forall_eq_or_imp]
    constructor
    · rintro ⟨h1, h2, h3⟩; exact ⟨⟨h1, h2⟩, h3⟩
    · rintro ⟨⟨h1, h2⟩, h3⟩; exact ⟨h1, h2, h3⟩

theorem noEmptyArr_arr {xs : List Json} (h : NoEmptyArr (.arr xs)) : xs ≠ [] ∧ ∀ x ∈ xs, NoEmptyArr x := by
  cases xs with
  | nil => simp [NoEmptyArr] at h
  | cons a rest =>
    refine ⟨by simp, ?_⟩
    have : NoEmptyArr a ∧ NoEmptyArrL rest := by simpa [NoEmptyArr] using h
    intro x hx
    rcases List.mem_cons.mp hx with rfl | hx
    · exact this.1
    · exact noEmptyArrL_iff.mp this.2 x hx

theorem gobSafe_arr {xs : List Json} (h : GobSafe (.arr xs)) : xs ≠ [] ∧ ∀ x ∈ xs, GobSafe x := by
  have ⟨h1, h2⟩ := noEmptyArr_arr h.1
  refine ⟨h1, fun x hx => ⟨h2 x hx, ?_⟩⟩
  have : ZeroFreeL xs := by simpa [ZeroFree] using h.2
  exact zeroFreeL_iff.mp this x hx

theorem gobSafe_obj {ms : List (String × Json)} (h : GobSafe (.obj ms)) :
    ∀ m ∈ ms, GobSafe m.2 ∧ m.2 ≠ .num 0 := by
  intro m hm
  have h1 : NoEmptyArrM ms := by simpa [NoEmptyArr] using h.1
  have h2 : ZeroFreeM ms := by simpa [ZeroFree] using h.2
  have := zeroFreeM_iff.mp h2 m hm
  exact ⟨⟨noEmptyArrM_iff.mp h1 m hm, this.2⟩, this.1⟩

theorem map_id_on {α : Type} {f : α → α} {xs : List α} (h : ∀ x ∈ xs, f x = x) : xs.map f = xs := by
  induction xs with
  | nil => rfl
  | cons a rest ih => simp [h a (by simp), ih (fun x hx => h x (by simp [hx]))]

theorem mapVals_id_on {f : Json → Json} {ms : List (String × Json)} (h : ∀ m ∈ ms, f m.2 = m.2) : mapVals f ms = ms := by
  unfold mapVals
  apply map_id_on
  intro m hm
  obtain ⟨k, v⟩ := m
  simp [h (k, v) hm]

theorem filterMap_id_on {α : Type} {f : α → Option α} {xs : List α} (h : ∀ x ∈ xs, f x = some x) : xs.filterMap f = xs := by
  induction xs with
  | nil => rfl
  | cons a rest ih => simp [List.filterMap_cons, h a (by simp), ih (fun x hx => h x (by simp [hx]))]

/-- the recursion leaves safe values alone -/
def GRecSafe (rec : GRec) : Prop := ∀ t v, GobSafe v → rec t v = v

theorem gobFT_safe {rec : GRec} (hr : GRecSafe rec) (ft : FT) (v : Json) (hs : GobSafe v) (hz : v ≠ .num 0) :
    gobFT rec ft v = some v := by
  unfold gobFT
  split
  all_goals first
    | exact absurd rfl hz
    | rfl
    | (simp only [Option.some.injEq]; exact gobAny_of_noEmptyArr _ hs.1)
    | (simp only [Option.some.injEq]; exact hr _ _ hs)
    | (simp only [Option.some.injEq, Json.arr.injEq]
       exact gobAnyList_of_noEmptyArr _ (noEmptyArrL_iff.mpr (noEmptyArr_arr hs.1).2))
    | (simp only [Option.some.injEq, Json.obj.injEq]
       exact gobAnyMembers_of_noEmptyArr _ (by simpa [NoEmptyArr] using hs.1))
    | (simp only [Option.some.injEq, Json.arr.injEq]
       exact map_id_on (fun x hx => hr _ x ((gobSafe_arr hs).2 x hx)))
    | (simp only [Option.some.injEq, Json.obj.injEq]
       exact mapVals_id_on (fun m hm => hr _ m.2 (gobSafe_obj hs m hm).1))

theorem gobMember_safe {rec : GRec} (hr : GRecSafe rec) (k : String) (fs : List Field) (m : String × Json)
    (hs : GobSafe m.2) (hz : m.2 ≠ .num 0) : gobMember rec k fs m = some m := by
  unfold gobMember
  split
  · simp [gobAny_of_noEmptyArr _ hs.1]
  · split
    · simp [gobFT_safe hr _ _ hs hz]
    · split
      · simp [gobAny_of_noEmptyArr _ hs.1]
      · split
        · simp [hr _ _ hs]
        · split
          · simp [hr _ _ hs]
          · rfl

theorem gobKind_safe {rec : GRec} (hr : GRecSafe rec) (k : String) (j : Json) (hs : GobSafe j) : gobKind rec k j = j := by
  unfold gobKind
  split
  · rename_i ms
    simp only [Json.obj.injEq]
    exact filterMap_id_on (fun m hm => gobMember_safe hr k _ m (gobSafe_obj hs m hm).1 (gobSafe_obj hs m hm).2)
  · rfl

theorem gobNamed_safe {rec : GRec} (hr : GRecSafe rec) (n : String) (j : Json) (hs : GobSafe j) : gobNamed rec n j = j := by
  unfold gobNamed
  split
  · rename_i ms
    split
    · simp only [Json.obj.injEq]
      exact mapVals_id_on (fun m hm => hr _ m.2 (gobSafe_obj hs m hm).1)
    · exact hr _ _ hs
  · exact absurd hs.1 (by simp [NoEmptyArr])
  · rename_i xs _
    split
    · simp only [Json.arr.injEq]
      exact map_id_on (fun x hx => hr _ x ((gobSafe_arr hs).2 x hx))
    · rfl
  · rfl

theorem gobF_safe : ∀ n, GRecSafe (gobF n) := by
  intro n
  induction n with
  | zero => intro t v _; rfl
  | succ n ih =>
    intro t v hs
    cases t with
    | kind k => simpa [gobF] using gobKind_safe ih k v hs
    | named nm => simpa [gobF] using gobNamed_safe ih nm v hs

/-- **gob transport preserves every safe document, whatever its kind** -/
theorem gobJ_safe (k : String) (j : Json) (hs : GobSafe j) : gobJ k j = j := gobF_safe _ _ _ hs


/-! ### an executable test for `GobSafe` (run by the driver on the implementation's encodings) -/

def isZeroNum : Json → Bool
  | .num n => n == 0
  | _ => false

mutual
  def gobSafeB : Json → Bool
    | .arr [] => false
    | .arr (x :: xs) => gobSafeB x && gobSafeLB xs
    | .obj ms => gobSafeMB ms
    | _ => true
  def gobSafeLB : List Json → Bool
    | [] => true
    | x :: xs => gobSafeB x && gobSafeLB xs
  def gobSafeMB : List (String × Json) → Bool
    | [] => true
    | (_, v) :: rest => !isZeroNum v && gobSafeB v && gobSafeMB rest
end

theorem isZeroNum_false {v : Json} (h : isZeroNum v = false) : v ≠ .num 0 := by
  intro hv; subst hv; simp [isZeroNum] at h

mutual
  theorem gobSafeB_sound : ∀ (j : Json), gobSafeB j = true → GobSafe j
    | .arr [], h => by simp [gobSafeB] at h
    | .arr (x :: xs), h => by
        simp only [gobSafeB, Bool.and_eq_true] at h
        have h1 := gobSafeB_sound x h.1
        have h2 := gobSafeLB_sound xs h.2
        exact ⟨by simp only [NoEmptyArr]; exact ⟨h1.1, h2.1⟩, by simp only [ZeroFree, ZeroFreeL]; exact ⟨h1.2, h2.2⟩⟩
    | .obj ms, h => by
        have := gobSafeMB_sound ms (by simpa [gobSafeB] using h)
        exact ⟨by simp only [NoEmptyArr]; exact this.1, by simp only [ZeroFree]; exact this.2⟩
    | .null, _ => ⟨by simp [NoEmptyArr], by simp [ZeroFree]⟩
    | .bool _, _ => ⟨by simp [NoEmptyArr], by simp [ZeroFree]⟩
    | .num _, _ => ⟨by simp [NoEmptyArr], by simp [ZeroFree]⟩
    | .str _, _ => ⟨by simp [NoEmptyArr], by simp [ZeroFree]⟩
  theorem gobSafeLB_sound : ∀ (xs : List Json), gobSafeLB xs = true → NoEmptyArrL xs ∧ ZeroFreeL xs
    | [], _ => ⟨by simp [NoEmptyArrL], by simp [ZeroFreeL]⟩
    | x :: xs, h => by
        simp only [gobSafeLB, Bool.and_eq_true] at h
        have h1 := gobSafeB_sound x h.1
        have h2 := gobSafeLB_sound xs h.2
        exact ⟨by simp only [NoEmptyArrL]; exact ⟨h1.1, h2.1⟩, by simp only [ZeroFreeL]; exact ⟨h1.2, h2.2⟩⟩
  theorem gobSafeMB_sound : ∀ (ms : List (String × Json)), gobSafeMB ms = true → NoEmptyArrM ms ∧ ZeroFreeM ms
    | [], _ => ⟨by simp [NoEmptyArrM], by simp [ZeroFreeM]⟩
    | (k, v) :: rest, h => by
        simp only [gobSafeMB, Bool.and_eq_true, Bool.not_eq_true'] at h
        have h1 := gobSafeB_sound v h.1.2
        have h2 := gobSafeMB_sound rest h.2
        exact ⟨by simp only [NoEmptyArrM]; exact ⟨h1.1, h2.1⟩,
          by simp only [ZeroFreeM]; exact ⟨isZeroNum_false h.1.1, h1.2, h2.2⟩⟩
end

end SpecModel.Codec
