/-
C06, whole documents: whatever `norm K` (decode as kind K, then encode) returns has no object, at any depth,
that carries the same member name twice.

Structure of the proof: `ND` (no duplicate member anywhere) is established for every building block of the
codec model — Go maps (strictly increasing keys), free-form payloads, the reflective struct codec (member names
are a sublist of the table's names), the hand-written kinds (parts with pairwise disjoint names) — under the
hypothesis that the recursive codec `rec` only returns `ND` values, and closed by induction on the fuel of
`normF`.  The facts about the GENERATED tables that the argument needs (names of a table pairwise distinct, no
name looks like an extension, no name is `$ref`/`$schema`, parts of a kind pairwise disjoint) are `decide`
side conditions collected in `TablesOK`, discharged in `Props/C06.lean`.
-/
import SpecModel.Codec.Norm
import SpecModel.Codec.Lemmas

namespace SpecModel.Codec
open SpecModel

mutual
  /-- no object, at any depth, has two members of the same name -/
  def ND : Json → Prop
    | .obj ms => (ms.map (·.1)).Nodup ∧ NDM ms
    | .arr xs => NDL xs
    | _ => True
  def NDL : List Json → Prop
    | [] => True
    | x :: xs => ND x ∧ NDL xs
  def NDM : List (String × Json) → Prop
    | [] => True
    | (_, x) :: xs => ND x ∧ NDM xs
end

theorem ndm_iff {ms : List (String × Json)} : NDM ms ↔ ∀ m ∈ ms, ND m.2 := by
  induction ms with
  | nil => simp [NDM]
  | cons a rest ih => obtain ⟨k, v⟩ := a; simp [NDM, ih]

theorem ndl_iff {xs : List Json} : NDL xs ↔ ∀ x ∈ xs, ND x := by
  induction xs with
  | nil => simp [NDL]
  | cons a rest ih => simp [NDL, ih]

theorem nd_obj {ms : List (String × Json)} (h1 : (ms.map (·.1)).Nodup) (h2 : NDM ms) : ND (.obj ms) := by
  simp [ND, h1, h2]

theorem ndm_append {a b : List (String × Json)} (ha : NDM a) (hb : NDM b) : NDM (a ++ b) := by
  rw [ndm_iff] at *
  intro m hm
  rcases List.mem_append.mp hm with h | h
  · exact ha m h
  · exact hb m h

theorem ndm_filter {a : List (String × Json)} (p : String × Json → Bool) (ha : NDM a) : NDM (a.filter p) := by
  rw [ndm_iff] at *
  intro m hm
  exact ha m (List.mem_filter.mp hm).1

/-! ### Go maps and free-form payloads -/

mutual
  theorem nd_of_goAny : ∀ j : Json, GoAny j → ND j
    | .obj ms, h => by
        have h' : KeysSorted ms ∧ GoAnyM ms := by simpa [GoAny] using h
        exact nd_obj (keysSorted_nodup h'.1) (ndm_of_goAnyM ms h'.2)
    | .arr xs, h => by
        have h' : GoAnyL xs := by simpa [GoAny] using h
        simpa [ND] using ndl_of_goAnyL xs h'
    | .null, _ => by simp [ND]
    | .bool _, _ => by simp [ND]
    | .num _, _ => by simp [ND]
    | .str _, _ => by simp [ND]
  theorem ndl_of_goAnyL : ∀ xs : List Json, GoAnyL xs → NDL xs
    | [], _ => by simp [NDL]
    | x :: xs, h => by
        have h' : GoAny x ∧ GoAnyL xs := by simpa [GoAnyL] using h
        exact ⟨nd_of_goAny x h'.1, ndl_of_goAnyL xs h'.2⟩
  theorem ndm_of_goAnyM : ∀ ms : List (String × Json), GoAnyM ms → NDM ms
    | [], _ => by simp [NDM]
    | (_, v) :: rest, h => by
        have h' : GoAny v ∧ GoAnyM rest := by simpa [GoAnyM] using h
        exact ⟨nd_of_goAny v h'.1, ndm_of_goAnyM rest h'.2⟩
end

theorem normAny_nd {j j' : Json} (h : normAny j = .ok j') : ND j' := nd_of_goAny j' (normAny_goAny j j' h)

theorem normAnyList_nd {xs ys : List Json} (h : normAnyList xs = .ok ys) : NDL ys :=
  ndl_of_goAnyL ys (normAnyList_goAny xs ys h)

theorem normAnyMembers_nd {ms ys : List (String × Json)} (h : normAnyMembers ms = .ok ys) :
    KeysSorted ys ∧ NDM ys :=
  let ⟨h1, h2⟩ := normAnyMembers_goAny ms ys h
  ⟨h1, ndm_of_goAnyM ys h2⟩

theorem ndm_insertKeep {k : String} {v : Json} {acc : List (String × Json)} (hv : ND v) (h : NDM acc) :
    NDM (insertKeep k v acc) := by
  rw [ndm_iff] at *
  intro m hm
  induction acc with
  | nil => simp [insertKeep] at hm; subst hm; exact hv
  | cons a rest ih =>
    obtain ⟨l, w⟩ := a
    unfold insertKeep at hm
    split at hm
    · simp at hm
      rcases hm with h1 | h1 | h1
      · subst h1; exact hv
      · subst h1; exact h (l, w) (by simp)
      · exact h m (by simp [h1])
    · split at hm
      · exact h m hm
      · simp at hm
        rcases hm with h1 | h1
        · subst h1; exact h (l, w) (by simp)
        · exact ih (fun m hm => h m (by simp [hm])) h1

/-! ### element-wise codecs -/

theorem mapR_nd {f : Json → R Json} (hf : ∀ x y, f x = .ok y → ND y) :
    ∀ (xs ys : List Json), mapR f xs = .ok ys → NDL ys := by
  intro xs
  induction xs with
  | nil => intro ys h; simp [mapR, pure, Except.pure] at h; subst h; simp [NDL]
  | cons x rest ih =>
    intro ys h
    simp only [mapR, bind, Except.bind] at h
    split at h
    · simp at h
    · rename_i y hy
      split at h
      · simp at h
      · rename_i ys' hys'
        simp [pure, Except.pure] at h; subst h
        exact ⟨hf x y hy, ih ys' hys'⟩

theorem mapMembersR_nd {f : Json → R Json} (hf : ∀ x y, f x = .ok y → ND y) :
    ∀ (ms ys : List (String × Json)), mapMembersR f ms = .ok ys → KeysSorted ys ∧ NDM ys := by
  intro ms
  induction ms with
  | nil => intro ys h; simp [mapMembersR, pure, Except.pure] at h; subst h; exact ⟨keysSorted_nil, by simp [NDM]⟩
  | cons a rest ih =>
    obtain ⟨k, v⟩ := a
    intro ys h
    simp only [mapMembersR, bind, Except.bind] at h
    split at h
    · simp at h
    · rename_i w hw
      split at h
      · simp at h
      · rename_i acc hacc
        simp [pure, Except.pure] at h; subst h
        have ⟨h1, h2⟩ := ih acc hacc
        exact ⟨insertKeep_sorted k w h1, ndm_insertKeep (hf v w hw) h2⟩

theorem mapMembersR_obj_nd {f : Json → R Json} (hf : ∀ x y, f x = .ok y → ND y)
    {ms ys : List (String × Json)} (h : mapMembersR f ms = .ok ys) : ND (.obj ys) :=
  let ⟨h1, h2⟩ := mapMembersR_nd hf ms ys h
  nd_obj (keysSorted_nodup h1) h2

theorem strElem_nd {x y : Json} (h : strElem x = .ok y) : ND y := by
  cases x <;> simp [strElem, pure, Except.pure, goError] at h <;> subst h <;> simp [ND]

theorem strsVal_nd {x y : Json} (h : strsVal x = .ok y) : ND y := by
  cases x with
  | arr xs =>
    simp only [strsVal, bind, Except.bind] at h
    split at h
    · simp at h
    · rename_i ys hys
      simp [pure, Except.pure] at h; subst h
      simpa [ND] using mapR_nd (fun x y => strElem_nd) xs ys hys
  | null => simp [strsVal, pure, Except.pure] at h; subst h; simp [ND]
  | bool _ => simp [strsVal, goError] at h
  | num _ => simp [strsVal, goError] at h
  | str _ => simp [strsVal, goError] at h
  | obj _ => simp [strsVal, goError] at h

theorem secReqVal_nd {x y : Json} (h : secReqVal x = .ok y) : ND y := by
  cases x with
  | obj ms =>
    simp only [secReqVal, bind, Except.bind] at h
    split at h
    · simp at h
    · rename_i ys hys
      simp [pure, Except.pure] at h; subst h
      exact mapMembersR_obj_nd (fun x y => strsVal_nd) hys
  | null => simp [secReqVal, pure, Except.pure] at h; subst h; simp [ND]
  | bool _ => simp [secReqVal, goError] at h
  | num _ => simp [secReqVal, goError] at h
  | str _ => simp [secReqVal, goError] at h
  | arr _ => simp [secReqVal, goError] at h

end SpecModel.Codec

namespace SpecModel.Codec
open SpecModel

/-- the recursive codec only returns values without duplicate members -/
def RecND (rec : Rec) : Prop := ∀ t j j', rec t j = .ok j' → ND j'

theorem normInt64_nd {n : Int} {j : Json} (h : normInt64 n = .ok j) : ND j := by
  unfold normInt64 at h; split at h
  · simp at h; subst h; simp [ND]
  · simp [goError] at h

theorem normFloat_nd {n : Int} {j : Json} (h : normFloat n = .ok j) : ND j := by
  have := (normFloat_ok h).1; subst this; simp [ND]

theorem ptrTo_nd {rec : Rec} (hr : RecND rec) (t : Target) {j j' : Json} (h : ptrTo rec t j = .ok j') : ND j' := by
  cases j <;> first
    | (simp [ptrTo, pure, Except.pure] at h; subst h; simp [ND])
    | exact hr t _ _ (by simpa [ptrTo] using h)

/-- `decode ∘ encode` at a field never produces a duplicate member -/
theorem normFT_nd {rec : Rec} (hr : RecND rec) (ft : FT) (v r : Json) (h : normFT rec ft v = .ok r) : ND r := by
  unfold normFT at h
  split at h
  all_goals first
    | (simp [pure, Except.pure] at h; subst h; simp [ND]; done)
    | (simp [goError, outOfModel] at h; done)
    | exact normInt64_nd h
    | exact normFloat_nd h
    | exact normAny_nd h
    | exact strsVal_nd h
    | exact hr _ _ _ h
    | skip
  -- anys
  · simp only [bind, Except.bind] at h
    split at h
    · simp at h
    · rename_i ys hys; simp [pure, Except.pure] at h; subst h; simpa [ND] using normAnyList_nd hys
  -- strMap
  · simp only [bind, Except.bind] at h
    split at h
    · simp at h
    · rename_i ys hys; simp [pure, Except.pure] at h; subst h
      exact mapMembersR_obj_nd (fun x y => strElem_nd) hys
  -- anyMap
  · simp only [bind, Except.bind] at h
    split at h
    · simp at h
    · rename_i ys hys; simp [pure, Except.pure] at h; subst h
      have ⟨h1, h2⟩ := normAnyMembers_nd hys
      exact nd_obj (keysSorted_nodup h1) h2
  -- secReqs
  · simp only [bind, Except.bind] at h
    split at h
    · simp at h
    · rename_i ys hys; simp [pure, Except.pure] at h; subst h
      simpa [ND] using mapR_nd (fun x y => secReqVal_nd) _ ys hys
  -- listKind
  · simp only [bind, Except.bind] at h
    split at h
    · simp at h
    · rename_i ys hys; simp [pure, Except.pure] at h; subst h
      simpa [ND] using mapR_nd (fun x y => hr _ x y) _ ys hys
  -- mapKind
  · simp only [bind, Except.bind] at h
    split at h
    · simp at h
    · rename_i ys hys; simp [pure, Except.pure] at h; subst h
      exact mapMembersR_obj_nd (fun x y => hr _ x y) hys
  -- mapNamed
  · simp only [bind, Except.bind] at h
    split at h
    · simp at h
    · rename_i ys hys; simp [pure, Except.pure] at h; subst h
      exact mapMembersR_obj_nd (fun x y => hr _ x y) hys
  -- SecurityDefinitions
  · simp only [bind, Except.bind] at h
    split at h
    · simp at h
    · rename_i ys hys; simp [pure, Except.pure] at h; subst h
      exact mapMembersR_obj_nd (fun x y => ptrTo_nd hr _) hys

end SpecModel.Codec

namespace SpecModel.Codec
open SpecModel

/-- the state of a field while members are consumed: zero, or a value without duplicate members -/
def StND : Option Json → Prop
  | none => True
  | some j => ND j

theorem decodeField_nd {rec : Rec} (hr : RecND rec) (ft : FT) (cur st : Option Json) (v : Json)
    (hc : StND cur) (h : decodeField rec ft cur v = .ok st) : StND st := by
  unfold decodeField at h
  split at h
  · -- null
    split at h
    · simp only [bind, Except.bind] at h
      split at h
      · simp at h
      · rename_i r hr'; simp [pure, Except.pure] at h; subst h; exact hr _ _ _ hr'
    · simp [pure, Except.pure] at h; subst h
      split
      · exact hc
      · simp [StND]
  · simp only [bind, Except.bind] at h
    split at h
    · simp at h
    · rename_i r hr'
      split at h
      · simp [outOfModel] at h
      · simp [pure, Except.pure] at h; subst h
        exact normFT_nd hr ft v r hr'

theorem decodeAll_nd {rec : Rec} (hr : RecND rec) (ft : FT) :
    ∀ (vs : List Json) (cur st : Option Json), StND cur → decodeAll rec ft cur vs = .ok st → StND st := by
  intro vs
  induction vs with
  | nil => intro cur st hc h; simp [decodeAll, pure, Except.pure] at h; subst h; exact hc
  | cons v rest ih =>
    intro cur st hc h
    simp only [decodeAll, bind, Except.bind] at h
    split at h
    · simp at h
    · rename_i st' hst'
      exact ih st' st (decodeField_nd hr ft cur st' v hc hst') h

theorem fieldState_nd {rec : Rec} (hr : RecND rec) (all : List Field) (f : Field) (ms : List (String × Json))
    (st : Option Json) (h : fieldState rec all f ms = .ok st) : StND st :=
  decodeAll_nd hr f.ft _ none st (by simp [StND]) h

theorem zeroEnc_nd (ft : FT) : ND (zeroEnc ft) := by
  unfold zeroEnc; split <;> simp [ND]

theorem encodeField_nd (f : Field) (st : Option Json) (m : String × Json) (hs : StND st)
    (h : encodeField f st = some m) : m.1 = f.jsonName ∧ ND m.2 := by
  unfold encodeField at h
  cases st with
  | none =>
    simp only at h
    split at h
    · simp at h
    · simp at h; subst h; exact ⟨rfl, zeroEnc_nd _⟩
  | some j =>
    simp only at h
    split at h
    · simp at h
    · simp at h; subst h; exact ⟨rfl, hs⟩

/-- the reflective struct codec emits, in table order, a sub-list of the table's member names -/
theorem normFields_nd {rec : Rec} (hr : RecND rec) (all : List Field) :
    ∀ (fs : List Field) (ms out : List (String × Json)), normFields rec all fs ms = .ok out →
      (out.map (·.1)).Sublist (fs.map (·.jsonName)) ∧ NDM out := by
  intro fs
  induction fs with
  | nil => intro ms out h; simp [normFields, pure, Except.pure] at h; subst h; simp [NDM]
  | cons f rest ih =>
    intro ms out h
    simp only [normFields, bind, Except.bind] at h
    split at h
    · simp at h
    · rename_i st hst
      split at h
      · simp at h
      · rename_i rest' hrest'
        simp [pure, Except.pure] at h
        have ⟨ih1, ih2⟩ := ih ms rest' hrest'
        have hs := fieldState_nd hr all f ms st hst
        cases he : encodeField f st with
        | none =>
          simp [he] at h; subst h
          exact ⟨List.Sublist.cons _ ih1, ih2⟩
        | some m =>
          simp [he] at h; subst h
          have ⟨h1, h2⟩ := encodeField_nd f st m hs he
          refine ⟨?_, ?_⟩
          · simp only [List.map_cons]; rw [h1]; exact List.Sublist.cons_cons _ ih1
          · obtain ⟨k, v⟩ := m; exact ⟨h2, ih2⟩

theorem structMembers_ok {j : Json} {ms : List (String × Json)} (h : structMembers j = .ok ms) :
    j = .null ∧ ms = [] ∨ j = .obj ms := by
  cases j <;> simp [structMembers, pure, Except.pure, goError] at h
  · exact .inl ⟨rfl, h⟩
  · exact .inr (by rw [h])

/-- names of the fields of a table that take part in (un)marshalling -/
def tableNames (fs : List Field) : List String := (visible fs).map (·.jsonName)

theorem normStruct_nd {rec : Rec} (hr : RecND rec) (fs : List Field) (j : Json) (out : List (String × Json))
    (h : normStruct rec fs j = .ok out) : (out.map (·.1)).Sublist (tableNames fs) ∧ NDM out := by
  simp only [normStruct, bind, Except.bind] at h
  split at h
  · simp at h
  · exact normFields_nd hr _ _ _ _ h

theorem sublist_nodup {α : Type} {a b : List α} (h : a.Sublist b) (hb : b.Nodup) : a.Nodup := hb.sublist h

end SpecModel.Codec

namespace SpecModel.Codec
open SpecModel

/-! ### parts of a concatenated kind -/

def keysOf (ms : List (String × Json)) : List String := ms.map (·.1)

/-- what a part may emit: statically known member names, and/or any `x-` name -/
structure PartDesc where
  names : List String
  ext : Bool

/-- `out` conforms to `d`: no name twice, every name is one of `d.names` or (for the extensions part) an `x-` name -/
def Conf (d : PartDesc) (out : List (String × Json)) : Prop :=
  (keysOf out).Nodup ∧ ∀ k ∈ keysOf out, k ∈ d.names ∨ (d.ext = true ∧ isExtKey k = true)

/-- static names pairwise distinct across all parts, none looks like an extension, at most one extensions part -/
def partsOK (ds : List PartDesc) : Bool :=
  decide (ds.flatMap (·.names)).Nodup && (ds.flatMap (·.names)).all (fun n => !isExtKey n) &&
    decide ((ds.filter (·.ext)).length ≤ 1)

inductive ConfAll : List PartDesc → List (List (String × Json)) → Prop
  | nil : ConfAll [] []
  | cons {d ds p ps} : Conf d p → ConfAll ds ps → ConfAll (d :: ds) (p :: ps)

theorem confAll_mem_keys {ds : List PartDesc} {ps : List (List (String × Json))} (h : ConfAll ds ps) :
    ∀ k ∈ keysOf ps.flatten, k ∈ ds.flatMap (·.names) ∨ (isExtKey k = true ∧ ∃ d ∈ ds, d.ext = true) := by
  induction h with
  | nil => intro k hk; simp [keysOf] at hk
  | @cons d ds p ps hc _ ih =>
    intro k hk
    simp only [keysOf, List.flatten_cons, List.map_append, List.mem_append] at hk
    rcases hk with hk | hk
    · rcases hc.2 k hk with h1 | ⟨h1, h2⟩
      · exact .inl (by simp [List.flatMap_cons, h1])
      · exact .inr ⟨h2, d, by simp, h1⟩
    · rcases ih k hk with h1 | ⟨h1, d', hd', he⟩
      · exact .inl (by simp only [List.flatMap_cons, List.mem_append]; exact .inr h1)
      · exact .inr ⟨h1, d', by simp [hd'], he⟩

theorem partsOK_tail {d : PartDesc} {ds : List PartDesc} (h : partsOK (d :: ds) = true) : partsOK ds = true := by
  simp only [partsOK, Bool.and_eq_true, decide_eq_true_eq, List.flatMap_cons, List.all_append] at h ⊢
  obtain ⟨⟨h1, h2⟩, h3⟩ := h
  refine ⟨⟨(List.nodup_append.mp h1).2.1, h2.2⟩, ?_⟩
  simp only [List.filter_cons] at h3
  split at h3
  · simp only [List.length_cons] at h3; omega
  · exact h3

/-- **the concatenation of conforming parts has no duplicate member** -/
theorem confAll_nodup {ds : List PartDesc} {ps : List (List (String × Json))} (h : ConfAll ds ps)
    (hok : partsOK ds = true) : (keysOf ps.flatten).Nodup := by
  induction h with
  | nil => simp [keysOf]
  | @cons d ds p ps hc hrest ih =>
    have hok' := partsOK_tail hok
    simp only [keysOf, List.flatten_cons, List.map_append]
    refine List.nodup_append.mpr ⟨hc.1, ih hok', ?_⟩
    intro a ha b hb hab
    subst hab
    simp only [partsOK, Bool.and_eq_true, decide_eq_true_eq, List.flatMap_cons, List.all_append] at hok
    obtain ⟨⟨h1, h2⟩, h3⟩ := hok
    have hdis := (List.nodup_append.mp h1).2.2
    rcases hc.2 a ha with ha1 | ⟨ha1, ha2⟩
    · rcases confAll_mem_keys hrest a hb with hb1 | ⟨hb1, _⟩
      · exact hdis a ha1 a hb1 rfl
      · have := List.all_eq_true.mp h2.1 a ha1
        simp [hb1] at this
    · rcases confAll_mem_keys hrest a hb with hb1 | ⟨_, d', hd', he⟩
      · have := List.all_eq_true.mp h2.2 a hb1
        simp [ha2] at this
      · -- two extension parts
        simp only [List.filter_cons, ha1, if_true, List.length_cons] at h3
        have : 0 < (ds.filter (·.ext)).length := List.length_pos_of_mem (List.mem_filter.mpr ⟨hd', he⟩)
        omega

theorem ndm_flatten {ps : List (List (String × Json))} (h : ∀ p ∈ ps, NDM p) : NDM ps.flatten := by
  induction ps with
  | nil => simp [NDM]
  | cons p rest ih =>
    simp only [List.flatten_cons]
    exact ndm_append (h p (by simp)) (ih (fun q hq => h q (by simp [hq])))

theorem concatMembers_eq (ps : List (List (String × Json))) : concatMembers ps = .obj ps.flatten := by
  simp only [concatMembers, concatJSON]
  congr 1
  induction ps with
  | nil => rfl
  | cons p rest ih => simp [List.flatMap_cons, ih]

theorem concatMembers_nd {ds : List PartDesc} {ps : List (List (String × Json))} (h : ConfAll ds ps)
    (hok : partsOK ds = true) (hnd : ∀ p ∈ ps, NDM p) : ND (concatMembers ps) := by
  rw [concatMembers_eq]
  exact nd_obj (confAll_nodup h hok) (ndm_flatten hnd)

end SpecModel.Codec

namespace SpecModel.Codec
open SpecModel

/-! ### the parts -/

/-- every generated struct table has pairwise distinct member names -/
def tablesNodup (structs : List (String × List Field)) : Bool :=
  structs.all fun e => decide (tableNames e.2).Nodup

theorem lookupStruct_nodup {structs : List (String × List Field)} (h : tablesNodup structs = true) (n : String) :
    (tableNames (lookupStruct structs n)).Nodup := by
  unfold lookupStruct
  cases hf : structs.find? (·.1 == n) with
  | none => simp [tableNames, visible]
  | some e =>
    have hm := List.mem_of_find?_eq_some hf
    have := List.all_eq_true.mp h e hm
    simpa using this

theorem genericMap_nd {j : Json} {d : List (String × Json)} (h : genericMap j = .ok d) : KeysSorted d ∧ NDM d := by
  cases j <;> simp [genericMap, pure, Except.pure, goError] at h
  · subst h; exact ⟨keysSorted_nil, by simp [NDM]⟩
  · exact normAnyMembers_nd h

theorem keysOf_filter_nodup {ms : List (String × Json)} (p : String × Json → Bool) (h : (keysOf ms).Nodup) :
    (keysOf (ms.filter p)).Nodup := by
  unfold keysOf at *
  exact h.sublist ((List.filter_sublist (l := ms)).map _)

theorem normExtensions_conf {j : Json} {out : List (String × Json)} (h : normExtensions j = .ok out) :
    Conf ⟨[], true⟩ out ∧ NDM out := by
  simp only [normExtensions, bind, Except.bind] at h
  split at h
  · simp at h
  · rename_i d hd
    simp [pure, Except.pure] at h; subst h
    have ⟨h1, h2⟩ := genericMap_nd hd
    refine ⟨⟨keysOf_filter_nodup _ (keysSorted_nodup h1), ?_⟩, ndm_filter _ h2⟩
    intro k hk
    simp only [keysOf, List.mem_map, List.mem_filter] at hk
    obtain ⟨m, ⟨_, hm⟩, rfl⟩ := hk
    exact .inr ⟨rfl, hm⟩

theorem refOfMap_shape {strict : Bool} {d out : List (String × Json)} (h : refOfMap strict d = .ok out) :
    out = [] ∨ ∃ t, out = [("$ref", .str t)] := by
  unfold refOfMap at h
  split at h
  · split at h
    · simp [pure, Except.pure] at h; exact .inr ⟨_, h.symm⟩
    · split at h
      · simp [goError] at h
      · simp [pure, Except.pure] at h; exact .inl h
    · simp [outOfModel] at h
  · simp [pure, Except.pure] at h; exact .inl h

theorem normRefable_conf {j : Json} {out : List (String × Json)} (h : normRefable j = .ok out) :
    Conf ⟨["$ref"], false⟩ out ∧ NDM out := by
  simp only [normRefable, bind, Except.bind] at h
  split at h
  · simp at h
  · rcases refOfMap_shape h with rfl | ⟨t, rfl⟩
    · exact ⟨⟨by simp [keysOf], by simp [keysOf]⟩, by simp [NDM]⟩
    · exact ⟨⟨by simp [keysOf], by simp [keysOf]⟩, by simp [NDM, ND]⟩

theorem normStruct_conf {rec : Rec} (hr : RecND rec) {fs : List Field} (hn : (tableNames fs).Nodup) {j : Json}
    {out : List (String × Json)} (h : normStruct rec fs j = .ok out) : Conf ⟨tableNames fs, false⟩ out ∧ NDM out := by
  have ⟨h1, h2⟩ := normStruct_nd hr fs j out h
  exact ⟨⟨hn.sublist h1, fun k hk => .inl (h1.subset hk)⟩, h2⟩

theorem normOperationProps_conf {rec : Rec} (hr : RecND rec)
    (hn : (tableNames (lookupStruct Gen.structs "OperationProps")).Nodup) {j : Json}
    {out : List (String × Json)} (h : normOperationProps rec j = .ok out) :
    Conf ⟨tableNames (lookupStruct Gen.structs "OperationProps"), false⟩ out ∧ NDM out := by
  simp only [normOperationProps, bind, Except.bind] at h
  split at h
  · simp at h
  · rename_i ms _
    split at h
    · simp at h
    · rename_i others hothers
      have ⟨ho1, ho2⟩ := normFields_nd hr _ _ _ _ hothers
      -- names of the table without `security`
      have hsub : ((tableOf "OperationProps").filter (·.jsonName != "security")).map (·.jsonName) |>.Sublist
          (tableNames (lookupStruct Gen.structs "OperationProps")) := by
        simp only [tableNames, tableOf]
        exact (List.filter_sublist).map _
      have hno : ∀ k ∈ keysOf others, k ≠ "security" := by
        intro k hk heq
        have := ho1.subset hk
        simp only [List.mem_map, List.mem_filter] at this
        obtain ⟨f, ⟨_, hf⟩, rfl⟩ := this
        simp [heq] at hf
      split at h
      · -- the table has a `security` field
        rename_i f hf
        split at h
        · simp at h
        · rename_i st hst
          have hs := fieldState_nd hr _ f ms st hst
          simp [pure, Except.pure] at h
          have hfmem : "security" ∈ tableNames (lookupStruct Gen.structs "OperationProps") := by
            have := List.mem_of_find?_eq_some hf
            have hname := List.find?_some hf
            simp only [tableNames, tableOf] at this ⊢
            simp only [beq_iff_eq] at hname
            exact List.mem_map.mpr ⟨f, this, hname⟩
          cases st with
          | none =>
            simp at h; subst h
            exact ⟨⟨hn.sublist (ho1.trans hsub), fun k hk => .inl ((ho1.trans hsub).subset hk)⟩, ho2⟩
          | some v =>
            simp at h; subst h
            refine ⟨⟨?_, ?_⟩, ⟨hs, ho2⟩⟩
            · simp only [keysOf, List.map_cons, List.nodup_cons]
              exact ⟨fun hm => hno _ hm rfl, hn.sublist (ho1.trans hsub)⟩
            · intro k hk
              simp only [keysOf, List.map_cons, List.mem_cons] at hk
              rcases hk with rfl | hk
              · exact .inl hfmem
              · exact .inl ((ho1.trans hsub).subset hk)
      · simp [pure, Except.pure] at h; subst h
        exact ⟨⟨hn.sublist (ho1.trans hsub), fun k hk => .inl ((ho1.trans hsub).subset hk)⟩, ho2⟩

/-- what a named part of a regular kind may emit -/
def descOf (p : String) : PartDesc :=
  if p == "VendorExtensible" then ⟨[], true⟩
  else if p == "Refable" then ⟨["$ref"], false⟩
  else ⟨tableNames (lookupStruct Gen.structs p), false⟩

theorem normPart_conf {rec : Rec} (hr : RecND rec) (hT : tablesNodup Gen.structs = true) (p : String) {j : Json}
    {out : List (String × Json)} (h : normPart rec p j = .ok out) : Conf (descOf p) out ∧ NDM out := by
  unfold normPart at h
  unfold descOf
  split at h
  · rename_i hp; simp [hp]; exact normExtensions_conf h
  · rename_i hp1
    split at h
    · rename_i hp; simp [hp1, hp]; exact normRefable_conf h
    · rename_i hp2
      split at h
      · rename_i hp
        have : p = "OperationProps" := by simpa using hp
        subst this
        simp [hp1, hp2]
        exact normOperationProps_conf hr (lookupStruct_nodup hT _) h
      · simp [hp1, hp2]
        exact normStruct_conf hr (lookupStruct_nodup hT _) h

theorem normParts_conf {rec : Rec} (hr : RecND rec) (hT : tablesNodup Gen.structs = true) (j : Json) :
    ∀ (ps : List String) (outs : List (List (String × Json))), normParts rec j ps = .ok outs →
      ConfAll (ps.map descOf) outs ∧ ∀ o ∈ outs, NDM o := by
  intro ps
  induction ps with
  | nil => intro outs h; simp [normParts, pure, Except.pure] at h; subst h; exact ⟨.nil, by simp⟩
  | cons p rest ih =>
    intro outs h
    simp only [normParts, bind, Except.bind] at h
    split at h
    · simp at h
    · rename_i b hb
      split at h
      · simp at h
      · rename_i bs hbs
        simp [pure, Except.pure] at h; subst h
        have ⟨c1, c2⟩ := normPart_conf hr hT p hb
        have ⟨i1, i2⟩ := ih bs hbs
        refine ⟨.cons c1 i1, ?_⟩
        intro o ho
        rcases List.mem_cons.mp ho with rfl | ho
        · exact c2
        · exact i2 o ho

end SpecModel.Codec

namespace SpecModel.Codec
open SpecModel

/-! ### helpers for the hand-written kinds -/

theorem setOmitEmpty_names (n : String) (fs : List Field) :
    (setOmitEmpty n fs).map (·.jsonName) = fs.map (·.jsonName) := by
  unfold setOmitEmpty
  induction fs with
  | nil => rfl
  | cons f rest ih =>
    simp only [List.map_cons]
    rw [ih]
    congr 1
    split <;> rfl

theorem keysOf_insertKeep_subset (k : String) (v : Json) (acc : List (String × Json)) :
    ∀ x ∈ keysOf (insertKeep k v acc), x = k ∨ x ∈ keysOf acc := by
  intro x hx
  simp only [keysOf, List.mem_map] at hx
  obtain ⟨m, hm, rfl⟩ := hx
  rcases insertKeep_keys k v acc m hm with h | h
  · exact .inl h
  · exact .inr (List.mem_map.mpr ⟨m, h, rfl⟩)

theorem mapMembersR_keys {f : Json → R Json} :
    ∀ (ms ys : List (String × Json)), mapMembersR f ms = .ok ys → ∀ k ∈ keysOf ys, k ∈ keysOf ms := by
  intro ms
  induction ms with
  | nil => intro ys h; simp [mapMembersR, pure, Except.pure] at h; subst h; simp [keysOf]
  | cons a rest ih =>
    obtain ⟨k0, v⟩ := a
    intro ys h
    simp only [mapMembersR, bind, Except.bind] at h
    split at h
    · simp at h
    · split at h
      · simp at h
      · rename_i acc hacc
        simp [pure, Except.pure] at h; subst h
        intro k hk
        rcases keysOf_insertKeep_subset _ _ _ k hk with h1 | h1
        · simp [keysOf, h1]
        · have := ih acc hacc k h1
          simp only [keysOf, List.map_cons, List.mem_cons] at this ⊢
          exact .inr this

theorem toGoMap_keys (ms : List (String × Json)) : ∀ k ∈ keysOf (toGoMap ms), k ∈ keysOf ms := by
  induction ms with
  | nil => simp [toGoMap, keysOf]
  | cons a rest ih =>
    intro k hk
    have : toGoMap (a :: rest) = insertKeep a.1 a.2 (toGoMap rest) := rfl
    rw [this] at hk
    rcases keysOf_insertKeep_subset _ _ _ k hk with h1 | h1
    · simp [keysOf, h1]
    · have := ih k h1
      simp only [keysOf, List.map_cons, List.mem_cons] at this ⊢
      exact .inr this

theorem ndm_toGoMap {ms : List (String × Json)} (h : NDM ms) : NDM (toGoMap ms) := by
  induction ms with
  | nil => simp [toGoMap, NDM]
  | cons a rest ih =>
    obtain ⟨k, v⟩ := a
    have h' : ND v ∧ NDM rest := by simpa [NDM] using h
    exact ndm_insertKeep h'.1 (ih h'.2)

theorem toGoMap_members (ms : List (String × Json)) : ∀ m ∈ toGoMap ms, m ∈ ms := by
  induction ms with
  | nil => simp [toGoMap]
  | cons a rest ih =>
    intro m hm
    have : toGoMap (a :: rest) = insertKeep a.1 a.2 (toGoMap rest) := rfl
    rw [this] at hm
    -- members of insertKeep are the new pair or old members
    have key : ∀ (acc : List (String × Json)) (m : String × Json), m ∈ insertKeep a.1 a.2 acc → m = a ∨ m ∈ acc := by
      intro acc
      induction acc with
      | nil => intro m hm; simp [insertKeep] at hm; exact .inl hm
      | cons b acc' ih' =>
        obtain ⟨l, w⟩ := b
        intro m hm
        unfold insertKeep at hm
        split at hm
        · simp at hm; rcases hm with h | h | h
          · exact .inl h
          · exact .inr (by simp [h])
          · exact .inr (by simp [h])
        · split at hm
          · exact .inr hm
          · simp at hm; rcases hm with h | h
            · exact .inr (by simp [h])
            · rcases ih' m h with h2 | h2
              · exact .inl h2
              · exact .inr (by simp [h2])
    rcases key _ m hm with h | h
    · simp [h]
    · exact List.mem_cons_of_mem _ (ih m h)

/-- a decimal numeral never looks like a vendor extension -/
theorem isExtKey_itoa (n : Int) : isExtKey (itoa n) = false := by
  unfold itoa isExtKey
  cases n with
  | ofNat m =>
    have hrepr : (toString (Int.ofNat m)).toList = Nat.toDigits 10 m := by
      show (toString m).toList = _
      exact Nat.toList_repr
    rw [hrepr]
    cases hd : Nat.toDigits 10 m with
    | nil => rfl
    | cons c rest =>
      have : c.isDigit := Nat.isDigit_of_mem_toDigits (by decide) (by decide) (hd ▸ List.mem_cons_self ..)
      cases rest with
      | nil => rfl
      | cons c2 rest2 =>
        by_cases h2 : c2 = '-'
        · subst h2
          have hx : (c == 'x') = false := by
            apply beq_false_of_ne; intro h'; subst h'; simp [Char.isDigit] at this
          have hX : (c == 'X') = false := by
            apply beq_false_of_ne; intro h'; subst h'; simp [Char.isDigit] at this
          simp [hx, hX]
        · split
          · rename_i heq; simp at heq; exact absurd heq.2.1 h2
          · rfl
  | negSucc m =>
    have : (toString (Int.negSucc m)).toList = '-' :: (toString (m + 1)).toList := by
      show ("-" ++ toString (m + 1)).toList = _
      simp
    rw [this]
    cases (toString (m + 1)).toList with
    | nil => rfl
    | cons c2 rest =>
      split
      · rename_i heq; simp at heq; simp [← heq.1]
      · rfl

theorem perm_nodup_keys {a b : List (String × Json)} (h : a.Perm b) (hb : (keysOf b).Nodup) : (keysOf a).Nodup :=
  (h.map _).nodup_iff.mpr hb

theorem perm_ndm {a b : List (String × Json)} (h : a.Perm b) (hb : NDM b) : NDM a := by
  rw [ndm_iff] at *
  intro m hm
  exact hb m (h.mem_iff.mp hm)

end SpecModel.Codec

namespace SpecModel.Codec
open SpecModel

/-! ### the kinds -/

/-- the parts of a regular kind that are both decoded and encoded -/
def liveParts (ki : KindInfo) : List String := ki.marshalParts.filter fun p => ki.unmarshalTargets.contains p

/-- side condition on the GENERATED tables: for every kind, the member names of its live parts are pairwise
distinct, none looks like an extension, and there is at most one extensions part -/
def kindsPartsOK (kinds : List KindInfo) : Bool := kinds.all fun ki => partsOK ((liveParts ki).map descOf)

theorem normConcatKind_nd {rec : Rec} (hr : RecND rec) (hT : tablesNodup Gen.structs = true) (ki : KindInfo)
    (hk : partsOK ((liveParts ki).map descOf) = true) {j j' : Json} (h : normConcatKind rec ki j = .ok j') : ND j' := by
  simp only [normConcatKind, bind, Except.bind] at h
  split at h
  · simp at h
  · split at h
    · simp at h
    · rename_i bs hbs
      split at h
      · simp at h
      · simp [pure, Except.pure] at h; subst h
        have ⟨c1, c2⟩ := normParts_conf hr hT j _ bs hbs
        exact concatMembers_nd c1 hk c2

theorem normStruct_obj_nd {rec : Rec} (hr : RecND rec) {fs : List Field} (hn : (tableNames fs).Nodup) {j : Json}
    {ms : List (String × Json)} (h : normStruct rec fs j = .ok ms) : ND (.obj ms) := by
  have ⟨h1, h2⟩ := normStruct_nd hr fs j ms h
  exact nd_obj (hn.sublist h1) h2

/-- static descriptors of the parts of the hand-written kinds -/
def schemaDescs : List PartDesc :=
  [⟨tableNames (lookupStruct Gen.structs "SchemaProps"), false⟩, ⟨[], true⟩, ⟨["$ref"], false⟩, ⟨["$schema"], false⟩,
   ⟨tableNames (lookupStruct Gen.structs "SwaggerSchemaProps"), false⟩]
def responseDescs : List PartDesc :=
  [⟨tableNames (lookupStruct Gen.structs "ResponseProps"), false⟩, ⟨["$ref"], false⟩, ⟨[], true⟩]
def securitySchemeDescs : List PartDesc :=
  [⟨tableNames (lookupStruct Gen.structs "SecuritySchemeProps"), false⟩, ⟨[], true⟩]

/-- side conditions for the hand-written kinds -/
def customKindsOK : Bool := partsOK schemaDescs && partsOK responseDescs && partsOK securitySchemeDescs

theorem schemaURLOfMap_shape {d out : List (String × Json)} (h : schemaURLOfMap d = .ok out) :
    out = [] ∨ ∃ t, out = [("$schema", .str t)] := by
  unfold schemaURLOfMap at h
  split at h
  · split at h
    · simp [pure, Except.pure] at h
      split at h
      · exact .inl h.symm
      · exact .inr ⟨_, h.symm⟩
    · simp [pure, Except.pure] at h; exact .inl h
    · simp [outOfModel] at h
  · simp [pure, Except.pure] at h; exact .inl h

theorem conf_small {name : String} {out : List (String × Json)} (h : out = [] ∨ ∃ t, out = [(name, .str t)]) :
    Conf ⟨[name], false⟩ out ∧ NDM out := by
  rcases h with rfl | ⟨t, rfl⟩
  · exact ⟨⟨by simp [keysOf], by simp [keysOf]⟩, by simp [NDM]⟩
  · exact ⟨⟨by simp [keysOf], by simp [keysOf]⟩, by simp [NDM, ND]⟩

theorem normFields_conf {rec : Rec} (hr : RecND rec) {all fs : List Field} {names : List String}
    (hsub : (fs.map (·.jsonName)).Sublist names) (hn : names.Nodup)
    {ms out : List (String × Json)} (h : normFields rec all fs ms = .ok out) : Conf ⟨names, false⟩ out ∧ NDM out := by
  have ⟨h1, h2⟩ := normFields_nd hr all fs ms out h
  exact ⟨⟨hn.sublist (h1.trans hsub), fun k hk => .inl ((h1.trans hsub).subset hk)⟩, h2⟩

theorem tableOf_names (n : String) : (tableOf n).map (·.jsonName) = tableNames (lookupStruct Gen.structs n) := rfl

theorem schemaKnown_eq : schemaKnownNames =
    tableNames (lookupStruct Gen.structs "SchemaProps") ++ tableNames (lookupStruct Gen.structs "SwaggerSchemaProps") := rfl

theorem normSchema_nd {rec : Rec} (hr : RecND rec) (hT : tablesNodup Gen.structs = true)
    (hk : partsOK schemaDescs = true) {j j' : Json} (h : normSchema rec j = .ok j') : ND j' := by
  cases j with
  | null => simp [normSchema, pure, Except.pure] at h; subst h; simp [ND, NDM]
  | bool _ => simp [normSchema, goError] at h
  | num _ => simp [normSchema, goError] at h
  | str _ => simp [normSchema, goError] at h
  | arr _ => simp [normSchema, goError] at h
  | obj ms =>
    simp only [normSchema, bind, Except.bind] at h
    split at h
    · simp at h
    · rename_i b1 hb1
      split at h
      · simp at h
      · rename_i b5 hb5
        split at h
        · simp at h
        · rename_i d hd
          split at h
          · simp at h
          · rename_i b3 hb3
            split at h
            · simp at h
            · rename_i b4 hb4
              simp only [pure, Except.pure, Except.ok.injEq] at h
              subst h
              have ⟨hds, hdn⟩ := normAnyMembers_nd hd
              have hdk := keysSorted_nodup hds
              have c1 := normFields_conf hr (names := tableNames (lookupStruct Gen.structs "SchemaProps"))
                (by rw [tableOf_names]; exact List.Sublist.refl _) (lookupStruct_nodup hT _) hb1
              have c5 := normFields_conf hr (names := tableNames (lookupStruct Gen.structs "SwaggerSchemaProps"))
                (by rw [tableOf_names]; exact List.Sublist.refl _) (lookupStruct_nodup hT _) hb5
              have c3 := conf_small (refOfMap_shape hb3)
              have c4 := conf_small (schemaURLOfMap_shape hb4)
              -- the rest of the generic map, split into extensions and extra properties
              generalize hrest : (d.filter fun m => !(m.1 == "$ref" || m.1 == "$schema" || schemaKnownNames.contains m.1)) = rest
              have hrk : (keysOf rest).Nodup := by rw [← hrest]; exact keysOf_filter_nodup _ hdk
              have hrn : NDM rest := by rw [← hrest]; exact ndm_filter _ hdn
              have c2 : Conf ⟨[], true⟩ (rest.filter fun m => isExtKey m.1) ∧ NDM (rest.filter fun m => isExtKey m.1) := by
                refine ⟨⟨keysOf_filter_nodup _ hrk, ?_⟩, ndm_filter _ hrn⟩
                intro k hk'
                simp only [keysOf, List.mem_map, List.mem_filter] at hk'
                obtain ⟨m, ⟨_, hm⟩, rfl⟩ := hk'
                exact .inr ⟨rfl, hm⟩
              have call : ConfAll schemaDescs [b1, rest.filter (fun m => isExtKey m.1), b3, b4, b5] :=
                .cons c1.1 (.cons c2.1 (.cons c3.1 (.cons c4.1 (.cons c5.1 .nil))))
              have hfirst := confAll_nodup call hk
              have hmem := confAll_mem_keys call
              -- b6: extra properties
              have hb6k : (keysOf (rest.filter fun m => !isExtKey m.1)).Nodup := keysOf_filter_nodup _ hrk
              have hb6n : NDM (rest.filter fun m => !isExtKey m.1) := ndm_filter _ hrn
              rw [concatMembers_eq]
              have hsplit : [b1, rest.filter (fun m => isExtKey m.1), b3, b4, b5, rest.filter (fun m => !isExtKey m.1)].flatten
                  = [b1, rest.filter (fun m => isExtKey m.1), b3, b4, b5].flatten ++ rest.filter (fun m => !isExtKey m.1) := by
                simp [List.flatten_cons]
              rw [hsplit]
              refine nd_obj ?_ (ndm_append (ndm_flatten ?_) hb6n)
              · show (keysOf _).Nodup
                simp only [keysOf, List.map_append]
                refine List.nodup_append.mpr ⟨hfirst, hb6k, ?_⟩
                intro a ha b hb hab
                subst hab
                -- a is a key of b6: not an extension, not a known name, not $ref / $schema
                simp only [keysOf, List.mem_map, List.mem_filter] at hb
                obtain ⟨m, ⟨hmr, hmx⟩, rfl⟩ := hb
                rw [← hrest] at hmr
                have hmr2 := (List.mem_filter.mp hmr).2
                simp only [Bool.not_eq_true', Bool.or_eq_false_iff, beq_eq_false_iff_ne, ne_eq] at hmr2
                rcases hmem m.1 ha with h1 | ⟨h1, _⟩
                · simp only [schemaDescs, List.flatMap_cons, List.flatMap_nil, List.append_nil, List.nil_append,
                    List.mem_append, List.mem_cons, List.not_mem_nil, or_false] at h1
                  have hkn : schemaKnownNames.contains m.1 = false := hmr2.2
                  rw [schemaKnown_eq] at hkn
                  rcases h1 with h1 | h1 | h1 | h1
                  · have : (tableNames (lookupStruct Gen.structs "SchemaProps") ++ tableNames (lookupStruct Gen.structs "SwaggerSchemaProps")).contains m.1 = true := by
                      simp [h1]
                    rw [hkn] at this; exact absurd this (by simp)
                  · exact hmr2.1.1 h1
                  · exact hmr2.1.2 h1
                  · have : (tableNames (lookupStruct Gen.structs "SchemaProps") ++ tableNames (lookupStruct Gen.structs "SwaggerSchemaProps")).contains m.1 = true := by
                      simp [h1]
                    rw [hkn] at this; exact absurd this (by simp)
                · simp [h1] at hmx
              · intro p hp
                simp only [List.mem_cons, List.not_mem_nil, or_false] at hp
                rcases hp with rfl | rfl | rfl | rfl | rfl
                · exact c1.2
                · exact c2.2
                · exact c3.2
                · exact c4.2
                · exact c5.2

end SpecModel.Codec

namespace SpecModel.Codec
open SpecModel

theorem normResponse_nd {rec : Rec} (hr : RecND rec) (hT : tablesNodup Gen.structs = true)
    (hk : partsOK responseDescs = true) {j j' : Json} (h : normResponse rec j = .ok j') : ND j' := by
  simp only [normResponse, bind, Except.bind] at h
  split at h
  · simp at h
  · rename_i ms _
    split at h
    · simp at h
    · rename_i full hfull
      split at h
      · simp at h
      · rename_i b2 hb2
        split at h
        · simp at h
        · rename_i b3 hb3
          have hn := lookupStruct_nodup hT "ResponseProps"
          have c2 := normRefable_conf hb2
          have c3 := normExtensions_conf hb3
          -- the two possible results
          have hfullND : ND (concatMembers [full, b2, b3]) := by
            have cf := normFields_conf hr (names := tableNames (lookupStruct Gen.structs "ResponseProps"))
              (by rw [tableOf_names]; exact List.Sublist.refl _) hn hfull
            refine concatMembers_nd (ds := responseDescs) (.cons cf.1 (.cons c2.1 (.cons c3.1 .nil))) hk ?_
            intro p hp
            simp only [List.mem_cons, List.not_mem_nil, or_false] at hp
            rcases hp with rfl | rfl | rfl
            · exact cf.2
            · exact c2.2
            · exact c3.2
          have hlitND : ∀ lit, normFields rec (tableOf "ResponseProps") (setOmitEmpty "description" (tableOf "ResponseProps")) ms = .ok lit →
              ND (concatMembers [lit.filter (·.1 != "headers"), b2, b3]) := by
            intro lit hlit
            have cl := normFields_conf hr (names := tableNames (lookupStruct Gen.structs "ResponseProps"))
              (by rw [setOmitEmpty_names, tableOf_names]; exact List.Sublist.refl _) hn hlit
            have cl' : Conf ⟨tableNames (lookupStruct Gen.structs "ResponseProps"), false⟩ (lit.filter (·.1 != "headers")) ∧
                NDM (lit.filter (·.1 != "headers")) := by
              refine ⟨⟨keysOf_filter_nodup _ cl.1.1, ?_⟩, ndm_filter _ cl.2⟩
              intro k hk'
              simp only [keysOf, List.mem_map, List.mem_filter] at hk'
              obtain ⟨m, ⟨hm, _⟩, rfl⟩ := hk'
              exact cl.1.2 m.1 (List.mem_map.mpr ⟨m, hm, rfl⟩)
            refine concatMembers_nd (ds := responseDescs) (.cons cl'.1 (.cons c2.1 (.cons c3.1 .nil))) hk ?_
            intro p hp
            simp only [List.mem_cons, List.not_mem_nil, or_false] at hp
            rcases hp with rfl | rfl | rfl
            · exact cl'.2
            · exact c2.2
            · exact c3.2
          -- whichever branch was taken
          simp only [pure, Except.pure] at h
          split at h
          · split at h
            · split at h
              · simp at h
              · rename_i lit hlit
                simp only [Except.ok.injEq] at h; subst h; exact hlitND lit hlit
            · simp only [Except.ok.injEq] at h; subst h; exact hfullND
          · simp only [Bool.false_eq_true, if_false, Except.ok.injEq] at h; subst h; exact hfullND

theorem normSecurityScheme_nd {rec : Rec} (hr : RecND rec) (hT : tablesNodup Gen.structs = true)
    (hk : partsOK securitySchemeDescs = true) {j j' : Json} (h : normSecurityScheme rec j = .ok j') : ND j' := by
  simp only [normSecurityScheme, bind, Except.bind] at h
  split at h
  · simp at h
  · split at h
    · simp at h
    · rename_i full hfull
      split at h
      · simp at h
      · rename_i b2 hb2
        have hn := lookupStruct_nodup hT "SecuritySchemeProps"
        have c2 := normExtensions_conf hb2
        split at h
        · simp only [pure, Except.pure, Except.ok.injEq] at h
          subst h
          have cf := normFields_conf hr (names := tableNames (lookupStruct Gen.structs "SecuritySchemeProps"))
            (by rw [tableOf_names]; exact List.Sublist.refl _) hn hfull
          refine concatMembers_nd (ds := securitySchemeDescs) (.cons cf.1 (.cons c2.1 .nil)) hk ?_
          intro p hp
          simp only [List.mem_cons, List.not_mem_nil, or_false] at hp
          rcases hp with rfl | rfl
          · exact cf.2
          · exact c2.2
        · split at h
          · simp at h
          · rename_i lit hlit
            simp only [pure, Except.pure, Except.ok.injEq] at h
            subst h
            have cl := normFields_conf hr (names := tableNames (lookupStruct Gen.structs "SecuritySchemeProps"))
              (by rw [setOmitEmpty_names, tableOf_names]; exact List.Sublist.refl _) hn hlit
            refine concatMembers_nd (ds := securitySchemeDescs) (.cons cl.1 (.cons c2.1 .nil)) hk ?_
            intro p hp
            simp only [List.mem_cons, List.not_mem_nil, or_false] at hp
            rcases hp with rfl | rfl
            · exact cl.2
            · exact c2.2

end SpecModel.Codec

namespace SpecModel.Codec
open SpecModel

theorem statusEntries_nd {rec : Rec} (hr : RecND rec) :
    ∀ (ms : List (String × Json)) (es : List (Int × Json)), statusEntries rec ms = .ok es → ∀ e ∈ es, ND e.2 := by
  intro ms
  induction ms with
  | nil => intro es h; simp [statusEntries, pure, Except.pure] at h; subst h; simp
  | cons a rest ih =>
    obtain ⟨k, v⟩ := a
    intro es h
    simp only [statusEntries] at h
    split at h
    · exact ih es h
    · simp only [bind, Except.bind] at h
      split at h
      · simp at h
      · rename_i r hr'
        split at h
        · simp at h
        · rename_i more hmore
          split at h
          · simp only [pure, Except.pure, Except.ok.injEq] at h; subst h
            intro e he
            rcases List.mem_cons.mp he with rfl | he
            · exact hr _ _ _ hr'
            · exact ih more hmore e he
          · simp only [pure, Except.pure, Except.ok.injEq] at h; subst h
            exact ih more hmore

theorem defaultPart_shape {rec : Rec} (hr : RecND rec) {raw dflt : List (String × Json)}
    (h : defaultPart rec raw = .ok dflt) : dflt = [] ∨ ∃ r, dflt = [("default", r)] ∧ ND r := by
  unfold defaultPart at h
  split at h
  · simp only [bind, Except.bind] at h
    split at h
    · simp at h
    · rename_i r hr'
      simp only [pure, Except.pure, Except.ok.injEq] at h
      exact .inr ⟨r, h.symm, hr _ _ _ hr'⟩
  · simp only [pure, Except.pure, Except.ok.injEq] at h; exact .inl h.symm

theorem normResponsesProps_nd {rec : Rec} (hr : RecND rec) {j : Json} {out : List (String × Json)}
    (h : normResponsesProps rec j = .ok out) :
    (keysOf out).Nodup ∧ NDM out ∧ ∀ k ∈ keysOf out, isExtKey k = false := by
  cases j with
  | null => simp [normResponsesProps, pure, Except.pure] at h; subst h; simp [keysOf, NDM]
  | bool _ => simp [normResponsesProps, goError] at h
  | num _ => simp [normResponsesProps, goError] at h
  | str _ => simp [normResponsesProps, goError] at h
  | arr _ => simp [normResponsesProps, goError] at h
  | obj ms =>
    simp only [normResponsesProps, bind, Except.bind] at h
    split at h
    · simp at h
    · rename_i dflt hdflt
      split at h
      · simp at h
      · rename_i codes hcodes
        split at h
        · simp [outOfModel] at h
        · simp only [pure, Except.pure, Except.ok.injEq] at h; subst h
          have hd := defaultPart_shape hr hdflt
          have hc := statusEntries_nd hr _ codes hcodes
          have hsrc : NDM (dflt ++ codes.map fun e => (itoa e.1, e.2)) := by
            rw [ndm_iff]
            intro m hm
            rcases List.mem_append.mp hm with h1 | h1
            · rcases hd with rfl | ⟨r, rfl, hrnd⟩
              · simp at h1
              · simp at h1; subst h1; exact hrnd
            · obtain ⟨e, he, rfl⟩ := List.mem_map.mp h1
              exact hc e he
          refine ⟨keysSorted_nodup (toGoMap_sorted _), ndm_toGoMap hsrc, ?_⟩
          intro k hk
          have := toGoMap_keys _ k hk
          simp only [keysOf, List.map_append, List.mem_append, List.mem_map] at this
          rcases this with ⟨m, hm, rfl⟩ | ⟨m, hm, rfl⟩
          · rcases hd with rfl | ⟨r, rfl, _⟩
            · simp at hm
            · simp at hm; subst hm; show isExtKey "default" = false; decide
          · obtain ⟨e, _, rfl⟩ := hm
            exact isExtKey_itoa e.1

theorem nodup_append_ext {a b : List (String × Json)} (ha : (keysOf a).Nodup) (hb : (keysOf b).Nodup)
    (hna : ∀ k ∈ keysOf a, isExtKey k = false) (hxb : ∀ k ∈ keysOf b, isExtKey k = true) :
    (keysOf (a ++ b)).Nodup := by
  simp only [keysOf, List.map_append]
  refine List.nodup_append.mpr ⟨ha, hb, ?_⟩
  intro x hx y hy hxy
  subst hxy
  have h1 := hna x hx
  have h2 := hxb x hy
  rw [h1] at h2; exact absurd h2 (by simp)

theorem normResponses_nd {rec : Rec} (hr : RecND rec) {j j' : Json} (h : normResponses rec j = .ok j') : ND j' := by
  simp only [normResponses, bind, Except.bind] at h
  split at h
  · simp at h
  · rename_i b1 hb1
    split at h
    · simp at h
    · rename_i b2 hb2
      simp only [pure, Except.pure, Except.ok.injEq] at h; subst h
      have ⟨h1, h2, h3⟩ := normResponsesProps_nd hr hb1
      have c2 := normExtensions_conf hb2
      rw [concatMembers_eq]
      have : [b1, b2].flatten = b1 ++ b2 := by simp
      rw [this]
      refine nd_obj (nodup_append_ext h1 c2.1.1 h3 ?_) (ndm_append h2 c2.2)
      intro k hk
      rcases c2.1.2 k hk with h' | ⟨_, h'⟩
      · simp at h'
      · exact h'

theorem startsWithSlash_not_ext (k : String) (h : startsWithSlash k = true) : isExtKey k = false := by
  unfold startsWithSlash at h
  unfold isExtKey
  cases hk : k.toList with
  | nil => rfl
  | cons c rest =>
    rw [hk] at h
    have hc : c = '/' := by
      revert h; cases rest <;> intro h <;> (split at h <;> simp_all)
    subst hc
    cases rest with
    | nil => rfl
    | cons c2 rest2 =>
      split
      · rename_i heq; simp at heq; obtain ⟨h1, _⟩ := heq; subst h1; decide
      · rfl

theorem normPaths_nd {rec : Rec} (hr : RecND rec) {j j' : Json} (h : normPaths rec j = .ok j') : ND j' := by
  cases j with
  | null => simp [normPaths, pure, Except.pure] at h; subst h; simp [ND, NDM]
  | bool _ => simp [normPaths, goError] at h
  | num _ => simp [normPaths, goError] at h
  | str _ => simp [normPaths, goError] at h
  | arr _ => simp [normPaths, goError] at h
  | obj ms =>
    simp only [normPaths, bind, Except.bind] at h
    split at h
    · simp at h
    · rename_i exts hexts
      split at h
      · simp at h
      · rename_i pths hpths
        simp only [pure, Except.pure, Except.ok.injEq] at h; subst h
        have ⟨e1, e2⟩ := mapMembersR_nd (fun x y h => normAny_nd h) _ exts hexts
        have ⟨p1, p2⟩ := mapMembersR_nd (fun x y h => hr _ x y h) _ pths hpths
        have ek := mapMembersR_keys _ exts hexts
        have pk := mapMembersR_keys _ pths hpths
        rw [concatMembers_eq]
        have : [exts, pths].flatten = exts ++ pths := by simp
        rw [this]
        refine nd_obj ?_ (ndm_append e2 p2)
        simp only [List.map_append]
        refine List.nodup_append.mpr ⟨keysSorted_nodup e1, keysSorted_nodup p1, ?_⟩
        intro x hx y hy hxy
        subst hxy
        have hxe := ek x hx
        have hxp := pk x hy
        simp only [keysOf, List.mem_map, List.mem_filter] at hxe hxp
        obtain ⟨m1, ⟨_, hm1⟩, rfl⟩ := hxe
        obtain ⟨m2, ⟨_, hm2⟩, heq⟩ := hxp
        have := startsWithSlash_not_ext m2.1 hm2
        rw [heq, hm1] at this
        exact absurd this (by simp)

end SpecModel.Codec

namespace SpecModel.Codec
open SpecModel

/-! ### the union types, the dispatcher, the recursion -/

theorem insertBy_perm_generic {α : Type} (lt : α → α → Bool) (a : α) (l : List α) : (insertBy lt a l).Perm (a :: l) := by
  induction l with
  | nil => exact List.Perm.refl _
  | cons b rest ih =>
    unfold insertBy
    split
    · exact ((List.Perm.cons b ih).trans (List.Perm.swap a b rest))
    · exact List.Perm.refl _

theorem sortBy_perm_generic {α : Type} (lt : α → α → Bool) (l : List α) : (sortBy lt l).Perm l := by
  induction l with
  | nil => exact List.Perm.refl _
  | cons a rest ih =>
    show (insertBy lt a (sortBy lt rest)).Perm (a :: rest)
    exact (insertBy_perm_generic lt a _).trans (List.Perm.cons a ih)

theorem normStringOrArray_nd {j j' : Json} (h : normStringOrArray j = .ok j') : ND j' := by
  cases j with
  | arr xs =>
    simp only [normStringOrArray, bind, Except.bind] at h
    split at h
    · simp at h
    · rename_i ys hys
      have hnd := mapR_nd (fun x y => strElem_nd) xs ys hys
      split at h
      · simp only [pure, Except.pure, Except.ok.injEq] at h; subst h
        exact (by simpa [NDL] using hnd : ND _ ∧ True).1
      · simp only [pure, Except.pure, Except.ok.injEq] at h; subst h; simpa [ND] using hnd
  | str s => simp [normStringOrArray, pure, Except.pure] at h; subst h; simp [ND]
  | null => simp [normStringOrArray, pure, Except.pure] at h; subst h; simp [ND]
  | bool _ => simp [normStringOrArray, goError] at h
  | num _ => simp [normStringOrArray, goError] at h
  | obj _ => simp [normStringOrArray, goError] at h

theorem normSchemaOrBool_nd {rec : Rec} (hr : RecND rec) {j j' : Json} (h : normSchemaOrBool rec j = .ok j') : ND j' := by
  cases j with
  | obj ms => exact hr _ _ _ (by simpa [normSchemaOrBool] using h)
  | bool b =>
    cases b with
    | false => simp [normSchemaOrBool, pure, Except.pure] at h; subst h; simp [ND]
    | true => simp [normSchemaOrBool, pure, Except.pure] at h; subst h; simp [ND]
  | null => simp [normSchemaOrBool, pure, Except.pure] at h; subst h; simp [ND]
  | num _ => simp [normSchemaOrBool, pure, Except.pure] at h; subst h; simp [ND]
  | str _ => simp [normSchemaOrBool, pure, Except.pure] at h; subst h; simp [ND]
  | arr _ => simp [normSchemaOrBool, pure, Except.pure] at h; subst h; simp [ND]

theorem normNamed_nd {rec : Rec} (hr : RecND rec) (n : String) {j j' : Json} (h : normNamed rec n j = .ok j') : ND j' := by
  unfold normNamed at h
  split at h
  · exact normStringOrArray_nd h
  · split at h
    · exact normSchemaOrBool_nd hr h
    · split at h
      · -- SchemaOrArray
        cases j with
        | obj ms => exact hr _ _ _ (by simpa [normSchemaOrArray] using h)
        | arr xs =>
          simp only [normSchemaOrArray, bind, Except.bind] at h
          split at h
          · simp at h
          · rename_i ys hys
            simp only [pure, Except.pure, Except.ok.injEq] at h; subst h
            simpa [ND] using mapR_nd (fun x y => hr _ x y) xs ys hys
        | null => simp [normSchemaOrArray, pure, Except.pure] at h; subst h; simp [ND]
        | bool _ => simp [normSchemaOrArray, pure, Except.pure] at h; subst h; simp [ND]
        | num _ => simp [normSchemaOrArray, pure, Except.pure] at h; subst h; simp [ND]
        | str _ => simp [normSchemaOrArray, pure, Except.pure] at h; subst h; simp [ND]
      · split at h
        · -- SchemaOrStringArray
          cases j with
          | obj ms => exact hr _ _ _ (by simpa [normSchemaOrStringArray] using h)
          | arr xs =>
            simp only [normSchemaOrStringArray, bind, Except.bind] at h
            split at h
            · simp at h
            · rename_i ys hys
              simp only [pure, Except.pure, Except.ok.injEq] at h; subst h
              split
              · simp [ND]
              · simpa [ND] using mapR_nd (fun x y => strElem_nd) xs ys hys
          | null => simp [normSchemaOrStringArray, pure, Except.pure] at h; subst h; simp [ND]
          | bool _ => simp [normSchemaOrStringArray, pure, Except.pure] at h; subst h; simp [ND]
          | num _ => simp [normSchemaOrStringArray, pure, Except.pure] at h; subst h; simp [ND]
          | str _ => simp [normSchemaOrStringArray, pure, Except.pure] at h; subst h; simp [ND]
        · split at h
          · -- SchemaProperties
            cases j with
            | obj ms =>
              simp only [normSchemaProperties, bind, Except.bind] at h
              split at h
              · simp at h
              · rename_i ys hys
                simp only [pure, Except.pure, Except.ok.injEq] at h; subst h
                have ⟨h1, h2⟩ := mapMembersR_nd (fun x y => hr _ x y) ms ys hys
                exact nd_obj (perm_nodup_keys (sortBy_perm_generic lessItem ys) (keysSorted_nodup h1))
                  (perm_ndm (sortBy_perm_generic lessItem ys) h2)
            | null => simp [normSchemaProperties, pure, Except.pure] at h; subst h; simp [ND]
            | bool _ => simp [normSchemaProperties, goError] at h
            | num _ => simp [normSchemaProperties, goError] at h
            | str _ => simp [normSchemaProperties, goError] at h
            | arr _ => simp [normSchemaProperties, goError] at h
          · simp [outOfModel] at h

end SpecModel.Codec

namespace SpecModel.Codec
open SpecModel

/-- everything the argument needs from the GENERATED tables -/
structure TablesOK : Prop where
  tables : tablesNodup Gen.structs = true
  kinds : kindsPartsOK Gen.kinds = true
  custom : customKindsOK = true

theorem normKind_nd {rec : Rec} (hr : RecND rec) (ok : TablesOK) (k : String) {j j' : Json}
    (h : normKind rec k j = .ok j') : ND j' := by
  have hc := ok.custom
  simp only [customKindsOK, Bool.and_eq_true] at hc
  unfold normKind at h
  split at h
  · exact normSchema_nd hr ok.tables hc.1.1 h
  · split at h
    · exact normResponse_nd hr ok.tables hc.1.2 h
    · split at h
      · exact normResponses_nd hr h
      · split at h
        · exact normPaths_nd hr h
        · split at h
          · exact normSecurityScheme_nd hr ok.tables hc.2 h
          · split at h
            · simp at h
            · rename_i ki hki
              split at h
              · -- a kind without a custom codec
                simp only [bind, Except.bind] at h
                split at h
                · simp at h
                · rename_i ms hms
                  simp only [pure, Except.pure, Except.ok.injEq] at h; subst h
                  exact normStruct_obj_nd hr (lookupStruct_nodup ok.tables _) hms
              · have hmem : ki ∈ Gen.kinds := List.mem_of_find?_eq_some hki
                have := List.all_eq_true.mp ok.kinds ki hmem
                exact normConcatKind_nd hr ok.tables ki this h

/-- the recursion closes: at every fuel, the codec only returns values without duplicate members -/
theorem normF_nd (ok : TablesOK) : ∀ fuel, RecND (normF fuel) := by
  intro fuel
  induction fuel with
  | zero => intro t j j' h; simp [normF] at h
  | succ n ih =>
    intro t j j' h
    cases t with
    | kind k => exact normKind_nd ih ok k (by simpa [normF] using h)
    | named nm => exact normNamed_nd ih nm (by simpa [normF] using h)

/-- **C06 for whole documents.** Whatever decoding `j` as kind `k` and encoding it again returns has no object,
at any depth, with two members of the same name. -/
theorem norm_nd (ok : TablesOK) (k : String) (j j' : Json) (h : norm k j = .ok j') : ND j' :=
  normF_nd ok _ (.kind k) j j' h

end SpecModel.Codec
