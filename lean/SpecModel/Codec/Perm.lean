/-
C01, whole documents: the codec does not depend on the order in which an object's members are written.

    Eqv c j  →  Tidy c  →  Tidy j  →  norm K c = ok r  →  norm K j = ok r

`Eqv c j`: `j` is `c` with the members of any of its objects, at any depth, written in another order (arrays keep
their order).  `Tidy`: no object has two members of the same name, and no member name is a case variant of a
keyword (two such names would be read into the same Go field and the later would win: order would matter).
Consequence (`Props/C01`): if ONE ordering `c` of a document is reproduced by decode+encode, every reordering of it
decodes and encodes to `c` — the round trip is lossless up to member order.
-/
import SpecModel.Codec.Idem
import SpecModel.Codec.Mono

namespace SpecModel.Codec
open SpecModel

mutual
  def Eqv : Json → Json → Prop
    | .obj ms, .obj ms' => EqvM ms ms' ∧ (∀ k ∈ keysOf ms', k ∈ keysOf ms)
    | .arr xs, .arr ys => EqvL xs ys
    | .num a, .num b => a = b
    | .str a, .str b => a = b
    | .bool a, .bool b => a = b
    | .null, .null => True
    | _, _ => False
  def EqvL : List Json → List Json → Prop
    | [], [] => True
    | x :: xs, y :: ys => Eqv x y ∧ EqvL xs ys
    | _, _ => False
  /-- every member of the first list has a partner of the same name in the second -/
  def EqvM : List (String × Json) → List (String × Json) → Prop
    | [], _ => True
    | (k, v) :: rest, ms' => (∃ v', (k, v') ∈ ms' ∧ Eqv v v') ∧ EqvM rest ms'
end

mutual
  def Tidy : Json → Prop
    | .arr xs => TidyL xs
    | .obj ms => (keysOf ms).Nodup ∧ TidyM ms
    | _ => True
  def TidyL : List Json → Prop
    | [] => True
    | x :: xs => Tidy x ∧ TidyL xs
  def TidyM : List (String × Json) → Prop
    | [] => True
    | (k, v) :: rest => NameOK k ∧ Tidy v ∧ TidyM rest
end

theorem tidyM_iff {ms : List (String × Json)} : TidyM ms ↔ ∀ m ∈ ms, NameOK m.1 ∧ Tidy m.2 := by
  induction ms with
  | nil => simp [TidyM]
  | cons a rest ih =>
    obtain ⟨k, v⟩ := a
    simp only [TidyM, ih, List.mem_cons, forall_eq_or_imp]
    constructor
    · rintro ⟨h1, h2, h3⟩; exact ⟨⟨h1, h2⟩, h3⟩
    · rintro ⟨⟨h1, h2⟩, h3⟩; exact ⟨h1, h2, h3⟩

theorem tidyL_iff {xs : List Json} : TidyL xs ↔ ∀ x ∈ xs, Tidy x := by
  induction xs with
  | nil => simp [TidyL]
  | cons a rest ih => simp [TidyL, ih]

theorem eqvM_iff {ms ms' : List (String × Json)} :
    EqvM ms ms' ↔ ∀ m ∈ ms, ∃ v', (m.1, v') ∈ ms' ∧ Eqv m.2 v' := by
  induction ms with
  | nil => simp [EqvM]
  | cons a rest ih =>
    obtain ⟨k, v⟩ := a
    simp only [EqvM, ih, List.mem_cons, forall_eq_or_imp]

theorem tidy_obj {ms : List (String × Json)} (h : Tidy (.obj ms)) :
    (keysOf ms).Nodup ∧ ∀ m ∈ ms, NameOK m.1 ∧ Tidy m.2 := by
  simp only [Tidy] at h; exact ⟨h.1, tidyM_iff.mp h.2⟩

theorem tidy_arr {xs : List Json} (h : Tidy (.arr xs)) : ∀ x ∈ xs, Tidy x := by
  simp only [Tidy] at h; exact tidyL_iff.mp h

/-- the shape of the second value is the shape of the first -/
theorem eqv_obj_left {ms : List (String × Json)} {j : Json} (h : Eqv (.obj ms) j) :
    ∃ ms', j = .obj ms' ∧ EqvM ms ms' ∧ ∀ k ∈ keysOf ms', k ∈ keysOf ms := by
  cases j <;> simp [Eqv] at h
  exact ⟨_, rfl, h.1, h.2⟩

theorem eqv_arr_left {xs : List Json} {j : Json} (h : Eqv (.arr xs) j) : ∃ ys, j = .arr ys ∧ EqvL xs ys := by
  cases j <;> simp [Eqv] at h
  exact ⟨_, rfl, h⟩

theorem eqv_scalar {v j : Json} (h : Eqv v j) (hv : (∀ ms, v ≠ .obj ms) ∧ (∀ xs, v ≠ .arr xs)) : j = v := by
  cases v with
  | obj ms => exact absurd rfl (hv.1 ms)
  | arr xs => exact absurd rfl (hv.2 xs)
  | null => cases j <;> simp [Eqv] at h; rfl
  | bool b => cases j <;> simp [Eqv] at h; rw [h]
  | num n => cases j <;> simp [Eqv] at h; rw [h]
  | str s => cases j <;> simp [Eqv] at h; rw [h]

/-- looking a name up in a reordered object -/
theorem lookupKey_eqv {ms ms' : List (String × Json)} (he : EqvM ms ms') (hk : ∀ k ∈ keysOf ms', k ∈ keysOf ms)
    (hn : (keysOf ms).Nodup) (hn' : (keysOf ms').Nodup) (k : String) :
    (∀ v, lookupKey ms k = some v → ∃ v', lookupKey ms' k = some v' ∧ Eqv v v') ∧
    (lookupKey ms k = none → lookupKey ms' k = none) := by
  constructor
  · intro v hv
    obtain ⟨v', hm, he'⟩ := eqvM_iff.mp he _ (lookupKey_mem hv)
    exact ⟨v', lookupKey_of_mem hn' hm, he'⟩
  · intro hnone
    apply lookupKey_none
    intro hmem
    exact lookupKey_none_not_mem hn hnone (hk k hmem)


/-! ### map codecs on reordered objects -/

theorem mapMembersR_char {f : Json → R Json} : ∀ (ms d : List (String × Json)), (keysOf ms).Nodup →
    mapMembersR f ms = .ok d →
    KeysSorted d ∧ (∀ k ∈ keysOf d, k ∈ keysOf ms) ∧ ∀ m, m ∈ d ↔ ∃ x ∈ ms, x.1 = m.1 ∧ f x.2 = .ok m.2 := by
  intro ms
  induction ms with
  | nil =>
    intro d _ h
    simp [mapMembersR, pure, Except.pure] at h; subst h
    exact ⟨keysSorted_nil, by simp [keysOf], by simp⟩
  | cons a rest ih =>
    obtain ⟨k, v⟩ := a
    intro d hnd h
    simp only [keysOf, List.map_cons, List.nodup_cons] at hnd
    simp only [mapMembersR, bind, Except.bind] at h
    split at h
    · simp at h
    · rename_i w hw
      split at h
      · simp at h
      · rename_i acc hacc
        simp only [pure, Except.pure, Except.ok.injEq] at h; subst h
        have ⟨i1, i2, i3⟩ := ih acc hnd.2 hacc
        have hk : k ∉ keysOf acc := fun hm => hnd.1 (i2 k hm)
        refine ⟨insertKeep_sorted k w i1, ?_, ?_⟩
        · intro k' hk'
          have := keysOf_insertKeep_subset k w acc k' hk'
          simp only [keysOf, List.map_cons, List.mem_cons] at this ⊢
          rcases this with h1 | h1
          · exact .inl h1
          · exact .inr (i2 k' h1)
        · intro m
          rw [mem_insertKeep_of_not_key hk m, i3 m]
          constructor
          · rintro (h1 | ⟨x, hx, h1, h2⟩)
            · subst h1; exact ⟨(k, v), by simp, rfl, hw⟩
            · exact ⟨x, by simp [hx], h1, h2⟩
          · rintro ⟨x, hx, h1, h2⟩
            rcases List.mem_cons.mp hx with rfl | hx
            · left
              simp only at h1 h2
              rw [hw] at h2
              simp only [Except.ok.injEq] at h2
              obtain ⟨mk, mv⟩ := m
              simp only at h1 h2
              rw [h1, h2]
            · exact .inr ⟨x, hx, h1, h2⟩

theorem mapMembersR_total {f : Json → R Json} : ∀ (ms : List (String × Json)),
    (∀ m ∈ ms, ∃ y, f m.2 = .ok y) → ∃ ys, mapMembersR f ms = .ok ys := by
  intro ms
  induction ms with
  | nil => intro _; exact ⟨[], rfl⟩
  | cons a rest ih =>
    obtain ⟨k, v⟩ := a
    intro h
    obtain ⟨y, hy⟩ := h (k, v) (by simp)
    obtain ⟨acc, hacc⟩ := ih (fun m hm => h m (by simp [hm]))
    exact ⟨insertKeep k y acc, by simp [mapMembersR, hy, hacc, bind, Except.bind, pure, Except.pure]⟩

theorem mapMembersR_ok_each {f : Json → R Json} : ∀ (ms ys : List (String × Json)), mapMembersR f ms = .ok ys →
    ∀ m ∈ ms, ∃ y, f m.2 = .ok y := by
  intro ms
  induction ms with
  | nil => intro _ _ m hm; simp at hm
  | cons a rest ih =>
    obtain ⟨k, v⟩ := a
    intro ys h
    simp only [mapMembersR, bind, Except.bind] at h
    split at h
    · simp at h
    · rename_i w hw
      split at h
      · simp at h
      · rename_i acc hacc
        intro m hm
        rcases List.mem_cons.mp hm with rfl | hm
        · exact ⟨w, hw⟩
        · exact ih acc hacc m hm

/-- a map codec gives the same Go map on a reordered object whose values it treats alike -/
theorem mapMembersR_eqv {f f' : Json → R Json} {ms ms' : List (String × Json)}
    (hn : (keysOf ms).Nodup) (hn' : (keysOf ms').Nodup) (hk : ∀ k ∈ keysOf ms', k ∈ keysOf ms)
    (hf : ∀ m ∈ ms, ∃ v', (m.1, v') ∈ ms' ∧ LeR (f m.2) (f' v')) :
    LeR (mapMembersR f ms) (mapMembersR f' ms') := by
  intro ys hys
  have ⟨c1, _, c3⟩ := mapMembersR_char ms ys hn hys
  have heach := mapMembersR_ok_each ms ys hys
  -- every member of the reordered object is the partner of a member of the original
  have hpartner : ∀ m' ∈ ms', ∃ m ∈ ms, m.1 = m'.1 ∧ LeR (f m.2) (f' m'.2) := by
    intro m' hm'
    have := hk m'.1 (mem_keysOf hm')
    simp only [keysOf, List.mem_map] at this
    obtain ⟨m, hm, hkey⟩ := this
    obtain ⟨v', hv', hle⟩ := hf m hm
    have : v' = m'.2 := by
      have h1 := lookupKey_of_mem hn' hv'
      have h2 := lookupKey_of_mem hn' (show (m'.1, m'.2) ∈ ms' from hm')
      rw [hkey, h2] at h1
      simpa using h1.symm
    subst this
    exact ⟨m, hm, hkey, hle⟩
  obtain ⟨ys', hys'⟩ := mapMembersR_total (f := f') ms' (by
    intro m' hm'
    obtain ⟨m, hm, _, hle⟩ := hpartner m' hm'
    obtain ⟨y, hy⟩ := heach m hm
    exact ⟨y, hle y hy⟩)
  have ⟨d1, _, d3⟩ := mapMembersR_char ms' ys' hn' hys'
  have : ys' = ys := by
    apply sorted_ext d1 c1
    intro x
    rw [d3 x, c3 x]
    constructor
    · rintro ⟨m', hm', h1, h2⟩
      obtain ⟨m, hm, hkey, hle⟩ := hpartner m' hm'
      obtain ⟨y, hy⟩ := heach m hm
      have := hle y hy
      rw [h2] at this
      simp only [Except.ok.injEq] at this
      exact ⟨m, hm, by rw [hkey, h1], by rw [hy, this]⟩
    · rintro ⟨m, hm, h1, h2⟩
      obtain ⟨v', hv', hle⟩ := hf m hm
      exact ⟨(m.1, v'), hv', h1, hle _ h2⟩
  rw [hys', this]

theorem normAnyMembers_eq_map : ∀ (ms : List (String × Json)), normAnyMembers ms = mapMembersR normAny ms := by
  intro ms
  induction ms with
  | nil => rfl
  | cons a rest ih => obtain ⟨k, v⟩ := a; simp [normAnyMembers, mapMembersR, ih]

theorem mapR_eqv {f f' : Json → R Json} : ∀ (xs ys : List Json), EqvL xs ys →
    (∀ x ∈ xs, ∀ y, Eqv x y → y ∈ ys → LeR (f x) (f' y)) → LeR (mapR f xs) (mapR f' ys) := by
  intro xs
  induction xs with
  | nil =>
    intro ys he _
    cases ys with
    | nil => exact LeR.refl _
    | cons _ _ => simp [EqvL] at he
  | cons x rest ih =>
    intro ys he hf
    cases ys with
    | nil => simp [EqvL] at he
    | cons y ys' =>
      simp only [EqvL] at he
      simp only [mapR]
      exact LeR.bind (hf x (by simp) y he.1 (by simp))
        (fun _ => LeR.bind (ih ys' he.2 (fun a ha b hab hb => hf a (by simp [ha]) b hab (by simp [hb]))) (fun _ => LeR.refl _))

theorem eqvL_mem {xs ys : List Json} (he : EqvL xs ys) : ∀ y ∈ ys, ∃ x ∈ xs, Eqv x y := by
  induction xs generalizing ys with
  | nil =>
    cases ys with
    | nil => intro y hy; simp at hy
    | cons _ _ => simp [EqvL] at he
  | cons x rest ih =>
    cases ys with
    | nil => simp [EqvL] at he
    | cons y ys' =>
      simp only [EqvL] at he
      intro z hz
      rcases List.mem_cons.mp hz with rfl | hz
      · exact ⟨x, by simp, he.1⟩
      · obtain ⟨a, ha, hab⟩ := ih he.2 z hz
        exact ⟨a, by simp [ha], hab⟩


/-! ### free-form values -/

mutual
  theorem normAny_eqv : ∀ (v v' : Json), Eqv v v' → Tidy v → Tidy v' → LeR (normAny v) (normAny v')
    | .obj ms, v', he, ht, ht' => by
        obtain ⟨ms', rfl, hem, hk⟩ := eqv_obj_left he
        have ⟨hn, hm⟩ := tidy_obj ht
        have ⟨hn', hm'⟩ := tidy_obj ht'
        have aux := normAnyMembers_eqvAux ms
        have : LeR (mapMembersR normAny ms) (mapMembersR normAny ms') := by
          apply mapMembersR_eqv hn hn' hk
          intro m hmem
          obtain ⟨v', hv', hev⟩ := eqvM_iff.mp hem m hmem
          exact ⟨v', hv', aux m hmem v' hev (hm m hmem).2 (hm' _ hv').2⟩
        simp only [normAny, normAnyMembers_eq_map]
        exact LeR.bind this (fun _ => LeR.refl _)
    | .arr xs, v', he, ht, ht' => by
        obtain ⟨ys, rfl, hel⟩ := eqv_arr_left he
        simp only [normAny]
        exact LeR.bind (normAnyList_eqv xs ys hel (by simpa [Tidy] using ht) (by simpa [Tidy] using ht')) (fun _ => LeR.refl _)
    | .null, v', he, _, _ => by rw [eqv_scalar he ⟨by simp, by simp⟩]; exact LeR.refl _
    | .bool _, v', he, _, _ => by rw [eqv_scalar he ⟨by simp, by simp⟩]; exact LeR.refl _
    | .num _, v', he, _, _ => by rw [eqv_scalar he ⟨by simp, by simp⟩]; exact LeR.refl _
    | .str _, v', he, _, _ => by rw [eqv_scalar he ⟨by simp, by simp⟩]; exact LeR.refl _
  theorem normAnyList_eqv : ∀ (xs ys : List Json), EqvL xs ys → TidyL xs → TidyL ys →
      LeR (normAnyList xs) (normAnyList ys)
    | [], ys, he, _, _ => by
        cases ys with
        | nil => exact LeR.refl _
        | cons _ _ => simp [EqvL] at he
    | x :: xs, ys, he, ht, ht' => by
        cases ys with
        | nil => simp [EqvL] at he
        | cons y ys' =>
          simp only [EqvL] at he
          simp only [TidyL] at ht ht'
          simp only [normAnyList]
          exact LeR.bind (normAny_eqv x y he.1 ht.1 ht'.1)
            (fun _ => LeR.bind (normAnyList_eqv xs ys' he.2 ht.2 ht'.2) (fun _ => LeR.refl _))
  theorem normAnyMembers_eqvAux : ∀ (ms : List (String × Json)), ∀ m ∈ ms, ∀ v', Eqv m.2 v' → Tidy m.2 → Tidy v' →
      LeR (normAny m.2) (normAny v')
    | [], m, hm => by simp at hm
    | (k, v) :: rest, m, hm => by
        intro v' he ht ht'
        by_cases hmk : m = (k, v)
        · subst hmk; exact normAny_eqv v v' he ht ht'
        · have : m ∈ rest := by
            rcases List.mem_cons.mp hm with h | h
            · exact absurd h hmk
            · exact h
          exact normAnyMembers_eqvAux rest m this v' he ht ht'
end

theorem normAnyMembers_eqv {ms ms' : List (String × Json)} (he : Eqv (.obj ms) (.obj ms'))
    (ht : Tidy (.obj ms)) (ht' : Tidy (.obj ms')) : LeR (normAnyMembers ms) (normAnyMembers ms') := by
  intro d hd
  have h1 : normAny (.obj ms) = .ok (.obj d) := by simp [normAny, hd, bind, Except.bind, pure, Except.pure]
  have h2 := normAny_eqv _ _ he ht ht' _ h1
  simp only [normAny, bind, Except.bind] at h2
  split at h2
  · simp at h2
  · rename_i d' hd'
    simp only [pure, Except.pure, Except.ok.injEq, Json.obj.injEq] at h2
    rw [hd', h2]

theorem genericMap_eqv {j j' : Json} (he : Eqv j j') (ht : Tidy j) (ht' : Tidy j') :
    LeR (genericMap j) (genericMap j') := by
  cases j with
  | obj ms =>
    obtain ⟨ms', rfl, _, _⟩ := eqv_obj_left he
    simpa [genericMap] using normAnyMembers_eqv he ht ht'
  | arr xs => obtain ⟨ys, rfl, _⟩ := eqv_arr_left he; exact LeR.refl _
  | null => rw [eqv_scalar he ⟨by simp, by simp⟩]; exact LeR.refl _
  | bool _ => rw [eqv_scalar he ⟨by simp, by simp⟩]; exact LeR.refl _
  | num _ => rw [eqv_scalar he ⟨by simp, by simp⟩]; exact LeR.refl _
  | str _ => rw [eqv_scalar he ⟨by simp, by simp⟩]; exact LeR.refl _


/-! ### Struct.lean -/

/-- the recursion treats reordered values alike -/
def RecEqv (r : Rec) : Prop := ∀ t v v', Eqv v v' → Tidy v → Tidy v' → LeR (r t v) (r t v')

theorem strElem_eqv {x y : Json} (he : Eqv x y) : LeR (strElem x) (strElem y) := by
  cases x with
  | obj ms => intro r h; simp [strElem, goError] at h
  | arr xs => intro r h; simp [strElem, goError] at h
  | null => rw [eqv_scalar he ⟨by simp, by simp⟩]; exact LeR.refl _
  | bool _ => rw [eqv_scalar he ⟨by simp, by simp⟩]; exact LeR.refl _
  | num _ => rw [eqv_scalar he ⟨by simp, by simp⟩]; exact LeR.refl _
  | str _ => rw [eqv_scalar he ⟨by simp, by simp⟩]; exact LeR.refl _

theorem strsVal_eqv {x y : Json} (he : Eqv x y) : LeR (strsVal x) (strsVal y) := by
  cases x with
  | obj ms => intro r h; simp [strsVal, goError] at h
  | arr xs =>
    obtain ⟨ys, rfl, hel⟩ := eqv_arr_left he
    simp only [strsVal]
    exact LeR.bind (mapR_eqv xs ys hel (fun a _ b hab _ => strElem_eqv hab)) (fun _ => LeR.refl _)
  | null => rw [eqv_scalar he ⟨by simp, by simp⟩]; exact LeR.refl _
  | bool _ => rw [eqv_scalar he ⟨by simp, by simp⟩]; exact LeR.refl _
  | num _ => rw [eqv_scalar he ⟨by simp, by simp⟩]; exact LeR.refl _
  | str _ => rw [eqv_scalar he ⟨by simp, by simp⟩]; exact LeR.refl _

/-- a map codec on a reordered object, given what the value codec does on partners -/
theorem mapMembersR_obj_eqv {f : Json → R Json} {ms ms' : List (String × Json)} (he : Eqv (.obj ms) (.obj ms'))
    (ht : Tidy (.obj ms)) (ht' : Tidy (.obj ms'))
    (hf : ∀ m ∈ ms, ∀ v', (m.1, v') ∈ ms' → Eqv m.2 v' → Tidy m.2 → Tidy v' → LeR (f m.2) (f v')) :
    LeR (mapMembersR f ms) (mapMembersR f ms') := by
  simp only [Eqv] at he
  have ⟨hn, hm⟩ := tidy_obj ht
  have ⟨hn', hm'⟩ := tidy_obj ht'
  apply mapMembersR_eqv hn hn' he.2
  intro m hmem
  obtain ⟨v', hv', hev⟩ := eqvM_iff.mp he.1 m hmem
  exact ⟨v', hv', hf m hmem v' hv' hev (hm m hmem).2 (hm' _ hv').2⟩

theorem secReqVal_eqv {x y : Json} (he : Eqv x y) (ht : Tidy x) (ht' : Tidy y) : LeR (secReqVal x) (secReqVal y) := by
  cases x with
  | obj ms =>
    obtain ⟨ms', rfl, _, _⟩ := eqv_obj_left he
    simp only [secReqVal]
    exact LeR.bind (mapMembersR_obj_eqv he ht ht' (fun _ _ _ _ hev _ _ => strsVal_eqv hev)) (fun _ => LeR.refl _)
  | arr xs => intro r h; simp [secReqVal, goError] at h
  | null => rw [eqv_scalar he ⟨by simp, by simp⟩]; exact LeR.refl _
  | bool _ => rw [eqv_scalar he ⟨by simp, by simp⟩]; exact LeR.refl _
  | num _ => rw [eqv_scalar he ⟨by simp, by simp⟩]; exact LeR.refl _
  | str _ => rw [eqv_scalar he ⟨by simp, by simp⟩]; exact LeR.refl _

theorem ptrTo_eqv {r : Rec} (hr : RecEqv r) (t : Target) {x y : Json} (he : Eqv x y) (ht : Tidy x) (ht' : Tidy y) :
    LeR (ptrTo r t x) (ptrTo r t y) := by
  cases x with
  | null => rw [eqv_scalar he ⟨by simp, by simp⟩]; exact LeR.refl _
  | obj ms =>
    obtain ⟨ms', rfl, _, _⟩ := eqv_obj_left he
    simpa [ptrTo] using hr t _ _ he ht ht'
  | arr xs =>
    obtain ⟨ys, rfl, _⟩ := eqv_arr_left he
    simpa [ptrTo] using hr t _ _ he ht ht'
  | bool _ => rw [eqv_scalar he ⟨by simp, by simp⟩]; exact LeR.refl _
  | num _ => rw [eqv_scalar he ⟨by simp, by simp⟩]; exact LeR.refl _
  | str _ => rw [eqv_scalar he ⟨by simp, by simp⟩]; exact LeR.refl _

/-- elements of a reordered array, with tidiness -/
theorem mapR_arr_eqv {f : Json → R Json} {xs ys : List Json} (hel : EqvL xs ys) (ht : Tidy (.arr xs)) (ht' : Tidy (.arr ys))
    (hf : ∀ x y, Eqv x y → Tidy x → Tidy y → LeR (f x) (f y)) : LeR (mapR f xs) (mapR f ys) :=
  mapR_eqv xs ys hel (fun a ha b hab hb => hf a b hab (tidy_arr ht a ha) (tidy_arr ht' b hb))

theorem normFT_other_ne {r : Rec} {g : String} (v : Json) (h : g ≠ "spec.SecurityDefinitions") :
    normFT r (.other g) v = outOfModel "field type not modelled" := by
  unfold normFT
  split
  all_goals first
    | rfl
    | simp_all

theorem normFT_secdefs_obj {r : Rec} (ms : List (String × Json)) :
    normFT r (.other "spec.SecurityDefinitions") (.obj ms) =
      (do let ys ← mapMembersR (ptrTo r (.kind "securityScheme")) ms; pure (.obj ys)) := by
  simp [normFT]

theorem normFT_secdefs_arr {r : Rec} (xs : List Json) :
    normFT r (.other "spec.SecurityDefinitions") (.arr xs) = goError "object expected" := by
  simp [normFT]

theorem normFT_eqv {r : Rec} (hr : RecEqv r) (ft : FT) {v v' : Json} (he : Eqv v v') (ht : Tidy v) (ht' : Tidy v') :
    LeR (normFT r ft v) (normFT r ft v') := by
  cases v with
  | null => rw [eqv_scalar he ⟨by simp, by simp⟩]; exact LeR.refl _
  | bool _ => rw [eqv_scalar he ⟨by simp, by simp⟩]; exact LeR.refl _
  | num _ => rw [eqv_scalar he ⟨by simp, by simp⟩]; exact LeR.refl _
  | str _ => rw [eqv_scalar he ⟨by simp, by simp⟩]; exact LeR.refl _
  | arr xs =>
    obtain ⟨ys, rfl, hel⟩ := eqv_arr_left he
    have hany := normAny_eqv _ _ he ht ht'
    have hstrs := strsVal_eqv he
    have hlist : LeR (normAnyList xs) (normAnyList ys) :=
      normAnyList_eqv xs ys hel (by simpa [Tidy] using ht) (by simpa [Tidy] using ht')
    have hsec : LeR (mapR secReqVal xs) (mapR secReqVal ys) :=
      mapR_arr_eqv hel ht ht' (fun a b hab ha hb => secReqVal_eqv hab ha hb)
    have hrec : ∀ t, LeR (r t (.arr xs)) (r t (.arr ys)) := fun t => hr t _ _ he ht ht'
    have hmap : ∀ t, LeR (mapR (r t) xs) (mapR (r t) ys) := fun t =>
      mapR_arr_eqv hel ht ht' (fun a b hab ha hb => hr _ a b hab ha hb)
    cases ft
    case other g =>
      by_cases hg : g = "spec.SecurityDefinitions"
      · subst hg; rw [normFT_secdefs_arr, normFT_secdefs_arr]; exact LeR.refl _
      · rw [normFT_other_ne _ hg, normFT_other_ne _ hg]; exact LeR.refl _
    all_goals (simp only [normFT]; first
      | exact LeR.refl _
      | exact hany
      | exact hstrs
      | exact hrec _
      | exact LeR.bind hlist (fun _ => LeR.refl _)
      | exact LeR.bind hsec (fun _ => LeR.refl _)
      | exact LeR.bind (hmap _) (fun _ => LeR.refl _))
  | obj ms =>
    obtain ⟨ms', rfl, _, _⟩ := eqv_obj_left he
    have hany := normAny_eqv _ _ he ht ht'
    have hstrs := strsVal_eqv he
    have hrec : ∀ t, LeR (r t (.obj ms)) (r t (.obj ms')) := fun t => hr t _ _ he ht ht'
    have hstrMap : LeR (mapMembersR strElem ms) (mapMembersR strElem ms') :=
      mapMembersR_obj_eqv he ht ht' (fun _ _ _ _ hev _ _ => strElem_eqv hev)
    have hanyMap := normAnyMembers_eqv he ht ht'
    have hmap : ∀ t, LeR (mapMembersR (r t) ms) (mapMembersR (r t) ms') := fun t =>
      mapMembersR_obj_eqv he ht ht' (fun _ _ _ _ hev h1 h2 => hr _ _ _ hev h1 h2)
    have hptr : ∀ t, LeR (mapMembersR (ptrTo r t) ms) (mapMembersR (ptrTo r t) ms') := fun t =>
      mapMembersR_obj_eqv he ht ht' (fun _ _ _ _ hev h1 h2 => ptrTo_eqv hr _ hev h1 h2)
    cases ft
    case other g =>
      by_cases hg : g = "spec.SecurityDefinitions"
      · subst hg; rw [normFT_secdefs_obj, normFT_secdefs_obj]; exact LeR.bind (hptr _) (fun _ => LeR.refl _)
      · rw [normFT_other_ne _ hg, normFT_other_ne _ hg]; exact LeR.refl _
    all_goals (simp only [normFT]; first
      | exact LeR.refl _
      | exact hany
      | exact hstrs
      | exact hrec _
      | exact LeR.bind hstrMap (fun _ => LeR.refl _)
      | exact LeR.bind hanyMap (fun _ => LeR.refl _)
      | exact LeR.bind (hmap _) (fun _ => LeR.refl _))


theorem eqv_null_right {v : Json} (h : Eqv v .null) : v = .null := by
  cases v <;> simp [Eqv] at h; rfl

theorem decodeField_eqv {r : Rec} (hr : RecEqv r) (ft : FT) (cur : Option Json) {v v' : Json} (he : Eqv v v')
    (ht : Tidy v) (ht' : Tidy v') : LeR (decodeField r ft cur v) (decodeField r ft cur v') := by
  by_cases hv : v = .null
  · subst hv; rw [eqv_scalar he ⟨by simp, by simp⟩]; exact LeR.refl _
  · have hv' : v' ≠ .null := fun h => hv (by subst h; exact eqv_null_right he)
    have h1 : decodeField r ft cur v = (do
        let x ← normFT r ft v
        if cur.isSome && mergesInPlace ft then outOfModel "duplicate member on a field that Go merges in place"
        else pure (some x)) := by
      cases v <;> first | exact absurd rfl hv | rfl
    have h2 : decodeField r ft cur v' = (do
        let x ← normFT r ft v'
        if cur.isSome && mergesInPlace ft then outOfModel "duplicate member on a field that Go merges in place"
        else pure (some x)) := by
      cases v' <;> first | exact absurd rfl hv' | rfl
    rw [h1, h2]
    exact LeR.bind (normFT_eqv hr ft he ht ht') (fun _ => LeR.refl _)

theorem fieldState_eqv {r : Rec} (hr : RecEqv r) {all : List Field} (hkw : ∀ f ∈ all, f.jsonName ∈ keywordList)
    (f : Field) (hf : f.jsonName ∈ all.map (·.jsonName)) {ms ms' : List (String × Json)}
    (he : Eqv (.obj ms) (.obj ms')) (ht : Tidy (.obj ms)) (ht' : Tidy (.obj ms')) :
    LeR (fieldState r all f ms) (fieldState r all f ms') := by
  have ⟨hn, hm⟩ := tidy_obj ht
  have ⟨hn', hm'⟩ := tidy_obj ht'
  simp only [Eqv] at he
  unfold fieldState
  rw [fieldVals_eq hkw hf (fun m hmem => (hm m hmem).1), filter_key_nodup _ hn,
    fieldVals_eq hkw hf (fun m hmem => (hm' m hmem).1), filter_key_nodup _ hn']
  have ⟨l1, l2⟩ := lookupKey_eqv he.1 he.2 hn hn' f.jsonName
  cases hl : lookupKey ms f.jsonName with
  | none => rw [l2 hl]; exact LeR.refl _
  | some v =>
    obtain ⟨v', hl', hev⟩ := l1 v hl
    rw [hl']
    simp only [Option.toList_some, decodeAll]
    exact LeR.bind (decodeField_eqv hr f.ft none hev (hm _ (lookupKey_mem hl)).2 (hm' _ (lookupKey_mem hl')).2)
      (fun _ => LeR.refl _)

theorem normFields_eqv {r : Rec} (hr : RecEqv r) {all : List Field} (hkw : ∀ f ∈ all, f.jsonName ∈ keywordList)
    {ms ms' : List (String × Json)} (he : Eqv (.obj ms) (.obj ms')) (ht : Tidy (.obj ms)) (ht' : Tidy (.obj ms')) :
    ∀ (fs : List Field), (∀ f ∈ fs, f.jsonName ∈ all.map (·.jsonName)) →
      LeR (normFields r all fs ms) (normFields r all fs ms') := by
  intro fs
  induction fs with
  | nil => intro _; exact LeR.refl _
  | cons f rest ih =>
    intro hfs
    simp only [normFields]
    exact LeR.bind (fieldState_eqv hr hkw f (hfs f (by simp)) he ht ht')
      (fun _ => LeR.bind (ih (fun g hg => hfs g (by simp [hg]))) (fun _ => LeR.refl _))

/-- `structMembers` of a reordered value: both fail, both are empty, or both are objects -/
theorem bind_structMembers_eqv {α : Type} {j j' : Json} (he : Eqv j j') {f f' : List (String × Json) → R α}
    (hobj : ∀ ms ms', j = .obj ms → j' = .obj ms' → LeR (f ms) (f' ms'))
    (hnull : j = .null → j' = .null → LeR (f []) (f' [])) :
    LeR (structMembers j >>= f) (structMembers j' >>= f') := by
  cases j with
  | obj ms =>
    obtain ⟨ms', rfl, _, _⟩ := eqv_obj_left he
    exact hobj ms ms' rfl rfl
  | arr xs => obtain ⟨ys, rfl, _⟩ := eqv_arr_left he; intro y hy; cases hy
  | null => rw [eqv_scalar he ⟨by simp, by simp⟩]; exact hnull rfl (eqv_scalar he ⟨by simp, by simp⟩)
  | bool _ => rw [eqv_scalar he ⟨by simp, by simp⟩]; intro y hy; cases hy
  | num _ => rw [eqv_scalar he ⟨by simp, by simp⟩]; intro y hy; cases hy
  | str _ => rw [eqv_scalar he ⟨by simp, by simp⟩]; intro y hy; cases hy

theorem self_names {fs : List Field} : ∀ f ∈ fs, f.jsonName ∈ fs.map (·.jsonName) :=
  fun f hf => List.mem_map.mpr ⟨f, hf, rfl⟩

theorem normStruct_eqv {r : Rec} (hr : RecEqv r) (n : String) {j j' : Json} (he : Eqv j j') (ht : Tidy j) (ht' : Tidy j') :
    LeR (normStruct r (lookupStruct Gen.structs n) j) (normStruct r (lookupStruct Gen.structs n) j') := by
  unfold normStruct
  apply bind_structMembers_eqv he
  · intro ms ms' h1 h2
    subst h1; subst h2
    exact normFields_eqv hr (lookupStruct_keywords n) he ht ht' _ self_names
  · intro _ _; exact LeR.refl _


/-! ### the named union types -/

/-- a codec that only looks at scalars and arrays of scalars behaves alike on both -/
theorem scalar_or (v v' : Json) (he : Eqv v v') :
    (∃ ms ms', v = .obj ms ∧ v' = .obj ms') ∨ (∃ xs ys, v = .arr xs ∧ v' = .arr ys ∧ EqvL xs ys) ∨
      (v' = v ∧ (∀ ms, v ≠ .obj ms) ∧ (∀ xs, v ≠ .arr xs)) := by
  cases v with
  | obj ms => obtain ⟨ms', rfl, _, _⟩ := eqv_obj_left he; exact .inl ⟨ms, ms', rfl, rfl⟩
  | arr xs => obtain ⟨ys, rfl, hel⟩ := eqv_arr_left he; exact .inr (.inl ⟨xs, ys, rfl, rfl, hel⟩)
  | null => exact .inr (.inr ⟨eqv_scalar he ⟨by simp, by simp⟩, by simp, by simp⟩)
  | bool _ => exact .inr (.inr ⟨eqv_scalar he ⟨by simp, by simp⟩, by simp, by simp⟩)
  | num _ => exact .inr (.inr ⟨eqv_scalar he ⟨by simp, by simp⟩, by simp, by simp⟩)
  | str _ => exact .inr (.inr ⟨eqv_scalar he ⟨by simp, by simp⟩, by simp, by simp⟩)

theorem normStringOrArray_eqv {v v' : Json} (he : Eqv v v') : LeR (normStringOrArray v) (normStringOrArray v') := by
  rcases scalar_or v v' he with ⟨ms, ms', rfl, rfl⟩ | ⟨xs, ys, rfl, rfl, hel⟩ | ⟨h, _, _⟩
  · exact LeR.refl _
  · simp only [normStringOrArray]
    exact LeR.bind (mapR_eqv xs ys hel (fun a _ b hab _ => strElem_eqv hab)) (fun _ => LeR.refl _)
  · rw [h]; exact LeR.refl _

theorem normSchemaOrBool_eqv {r : Rec} (hr : RecEqv r) {v v' : Json} (he : Eqv v v') (ht : Tidy v) (ht' : Tidy v') :
    LeR (normSchemaOrBool r v) (normSchemaOrBool r v') := by
  rcases scalar_or v v' he with ⟨ms, ms', rfl, rfl⟩ | ⟨xs, ys, rfl, rfl, _⟩ | ⟨h, _, _⟩
  · simpa [normSchemaOrBool] using hr _ _ _ he ht ht'
  · exact LeR.refl _
  · rw [h]; exact LeR.refl _

theorem normSchemaOrArray_eqv {r : Rec} (hr : RecEqv r) {v v' : Json} (he : Eqv v v') (ht : Tidy v) (ht' : Tidy v') :
    LeR (normSchemaOrArray r v) (normSchemaOrArray r v') := by
  rcases scalar_or v v' he with ⟨ms, ms', rfl, rfl⟩ | ⟨xs, ys, rfl, rfl, hel⟩ | ⟨h, _, _⟩
  · simpa [normSchemaOrArray] using hr _ _ _ he ht ht'
  · simp only [normSchemaOrArray]
    exact LeR.bind (mapR_arr_eqv hel ht ht' (fun a b hab ha hb => hr _ a b hab ha hb)) (fun _ => LeR.refl _)
  · rw [h]; exact LeR.refl _

theorem normSchemaOrStringArray_eqv {r : Rec} (hr : RecEqv r) {v v' : Json} (he : Eqv v v') (ht : Tidy v)
    (ht' : Tidy v') : LeR (normSchemaOrStringArray r v) (normSchemaOrStringArray r v') := by
  rcases scalar_or v v' he with ⟨ms, ms', rfl, rfl⟩ | ⟨xs, ys, rfl, rfl, hel⟩ | ⟨h, _, _⟩
  · simpa [normSchemaOrStringArray] using hr _ _ _ he ht ht'
  · simp only [normSchemaOrStringArray]
    exact LeR.bind (mapR_eqv xs ys hel (fun a _ b hab _ => strElem_eqv hab)) (fun _ => LeR.refl _)
  · rw [h]; exact LeR.refl _

theorem normSchemaProperties_eqv {r : Rec} (hr : RecEqv r) {v v' : Json} (he : Eqv v v') (ht : Tidy v)
    (ht' : Tidy v') : LeR (normSchemaProperties r v) (normSchemaProperties r v') := by
  rcases scalar_or v v' he with ⟨ms, ms', rfl, rfl⟩ | ⟨xs, ys, rfl, rfl, _⟩ | ⟨h, _, _⟩
  · simp only [normSchemaProperties]
    exact LeR.bind (mapMembersR_obj_eqv he ht ht' (fun _ _ _ _ hev h1 h2 => hr _ _ _ hev h1 h2)) (fun _ => LeR.refl _)
  · exact LeR.refl _
  · rw [h]; exact LeR.refl _

theorem normNamed_eqv {r : Rec} (hr : RecEqv r) (n : String) {v v' : Json} (he : Eqv v v') (ht : Tidy v)
    (ht' : Tidy v') : LeR (normNamed r n v) (normNamed r n v') := by
  unfold normNamed
  split
  · exact normStringOrArray_eqv he
  · split
    · exact normSchemaOrBool_eqv hr he ht ht'
    · split
      · exact normSchemaOrArray_eqv hr he ht ht'
      · split
        · exact normSchemaOrStringArray_eqv hr he ht ht'
        · split
          · exact normSchemaProperties_eqv hr he ht ht'
          · exact LeR.refl _

/-! ### kinds -/

theorem schema_keywords : ∀ f ∈ tableOf "SchemaProps" ++ tableOf "SwaggerSchemaProps", f.jsonName ∈ keywordList := by
  intro f hf
  rcases List.mem_append.mp hf with h1 | h1
  · exact lookupStruct_keywords "SchemaProps" f h1
  · exact lookupStruct_keywords "SwaggerSchemaProps" f h1

theorem normSchema_eqv {r : Rec} (hr : RecEqv r) {v v' : Json} (he : Eqv v v') (ht : Tidy v) (ht' : Tidy v') :
    LeR (normSchema r v) (normSchema r v') := by
  rcases scalar_or v v' he with ⟨ms, ms', rfl, rfl⟩ | ⟨xs, ys, rfl, rfl, _⟩ | ⟨h, _, _⟩
  · simp only [normSchema]
    refine LeR.bind (normFields_eqv hr schema_keywords he ht ht' _
        (fun f hf => List.mem_map.mpr ⟨f, List.mem_append.mpr (.inl hf), rfl⟩)) (fun _ => ?_)
    refine LeR.bind (normFields_eqv hr schema_keywords he ht ht' _
        (fun f hf => List.mem_map.mpr ⟨f, List.mem_append.mpr (.inr hf), rfl⟩)) (fun _ => ?_)
    exact LeR.bind (normAnyMembers_eqv he ht ht') (fun _ => LeR.refl _)
  · exact LeR.refl _
  · rw [h]; exact LeR.refl _

theorem normExtensions_eqv {j j' : Json} (he : Eqv j j') (ht : Tidy j) (ht' : Tidy j') :
    LeR (normExtensions j) (normExtensions j') := by
  unfold normExtensions
  exact LeR.bind (genericMap_eqv he ht ht') (fun _ => LeR.refl _)

theorem normRefable_eqv {j j' : Json} (he : Eqv j j') (ht : Tidy j) (ht' : Tidy j') :
    LeR (normRefable j) (normRefable j') := by
  unfold normRefable
  exact LeR.bind (genericMap_eqv he ht ht') (fun _ => LeR.refl _)

theorem normResponse_eqv {r : Rec} (hr : RecEqv r) {j j' : Json} (he : Eqv j j') (ht : Tidy j) (ht' : Tidy j') :
    LeR (normResponse r j) (normResponse r j') := by
  have hkw : ∀ f ∈ tableOf "ResponseProps", f.jsonName ∈ keywordList := lookupStruct_keywords "ResponseProps"
  rw [normResponse_unfold, normResponse_unfold]
  apply bind_structMembers_eqv he
  · intro ms ms' h1 h2
    subst h1; subst h2
    refine LeR.bind (normFields_eqv hr hkw he ht ht' _ self_names) (fun _ => ?_)
    refine LeR.bind (normRefable_eqv he ht ht') (fun _ => ?_)
    refine LeR.bind (normExtensions_eqv he ht ht') (fun _ => ?_)
    split
    · refine LeR.bind (normFields_eqv hr hkw he ht ht' _ (fun f hf => ?_)) (fun _ => LeR.refl _)
      have : f.jsonName ∈ (setOmitEmpty "description" (tableOf "ResponseProps")).map (·.jsonName) :=
        List.mem_map.mpr ⟨f, hf, rfl⟩
      rw [setOmitEmpty_names] at this; exact this
    · exact LeR.refl _
  · intro h1 h2; subst h1; subst h2; exact LeR.refl _

theorem normSecurityScheme_eqv {r : Rec} (hr : RecEqv r) {j j' : Json} (he : Eqv j j') (ht : Tidy j) (ht' : Tidy j') :
    LeR (normSecurityScheme r j) (normSecurityScheme r j') := by
  have hkw : ∀ f ∈ tableOf "SecuritySchemeProps", f.jsonName ∈ keywordList := lookupStruct_keywords "SecuritySchemeProps"
  unfold normSecurityScheme
  apply bind_structMembers_eqv he
  · intro ms ms' h1 h2
    subst h1; subst h2
    refine LeR.bind (normFields_eqv hr hkw he ht ht' _ self_names) (fun _ => ?_)
    refine LeR.bind (normExtensions_eqv he ht ht') (fun _ => ?_)
    simp only
    split
    · exact LeR.refl _
    · refine LeR.bind (normFields_eqv hr hkw he ht ht' _ (fun f hf => ?_)) (fun _ => LeR.refl _)
      have : f.jsonName ∈ (setOmitEmpty "authorizationUrl" (tableOf "SecuritySchemeProps")).map (·.jsonName) :=
        List.mem_map.mpr ⟨f, hf, rfl⟩
      rw [setOmitEmpty_names] at this; exact this
  · intro h1 h2; subst h1; subst h2; exact LeR.refl _

theorem normOperationProps_eqv {r : Rec} (hr : RecEqv r) {j j' : Json} (he : Eqv j j') (ht : Tidy j) (ht' : Tidy j') :
    LeR (normOperationProps r j) (normOperationProps r j') := by
  have hkw : ∀ f ∈ tableOf "OperationProps", f.jsonName ∈ keywordList := lookupStruct_keywords "OperationProps"
  unfold normOperationProps
  apply bind_structMembers_eqv he
  · intro ms ms' h1 h2
    subst h1; subst h2
    refine LeR.bind (normFields_eqv hr hkw he ht ht' _
      (fun f hf => List.mem_map.mpr ⟨f, (List.mem_filter.mp hf).1, rfl⟩)) (fun _ => ?_)
    refine LeR.bind ?_ (fun _ => LeR.refl _)
    first
      | exact LeR.refl _
      | (refine fieldState_eqv hr hkw _ ?_ he ht ht'; decide)
      | (split
         · rename_i f hf
           exact LeR.bind (fieldState_eqv hr hkw f (List.mem_map.mpr ⟨f, List.mem_of_find?_eq_some hf, rfl⟩) he ht ht')
             (fun _ => LeR.refl _)
         · exact LeR.refl _)
  · intro h1 h2; subst h1; subst h2; exact LeR.refl _

theorem normPart_eqv {r : Rec} (hr : RecEqv r) (p : String) {j j' : Json} (he : Eqv j j') (ht : Tidy j) (ht' : Tidy j') :
    LeR (normPart r p j) (normPart r p j') := by
  unfold normPart
  split
  · exact normExtensions_eqv he ht ht'
  · split
    · exact normRefable_eqv he ht ht'
    · split
      · exact normOperationProps_eqv hr he ht ht'
      · exact normStruct_eqv hr p he ht ht'

theorem normParts_eqv {r : Rec} (hr : RecEqv r) {j j' : Json} (he : Eqv j j') (ht : Tidy j) (ht' : Tidy j') :
    ∀ ps, LeR (normParts r j ps) (normParts r j' ps) := by
  intro ps
  induction ps with
  | nil => exact LeR.refl _
  | cons p rest ih =>
    simp only [normParts]
    exact LeR.bind (normPart_eqv hr p he ht ht') (fun _ => LeR.bind ih (fun _ => LeR.refl _))

theorem normConcatKind_eqv {r : Rec} (hr : RecEqv r) (ki : KindInfo) {j j' : Json} (he : Eqv j j') (ht : Tidy j)
    (ht' : Tidy j') : LeR (normConcatKind r ki j) (normConcatKind r ki j') := by
  unfold normConcatKind
  exact LeR.bind (normParts_eqv hr he ht ht' _) (fun _ => LeR.bind (normParts_eqv hr he ht ht' _) (fun _ => LeR.refl _))


/-! ### Go maps of reordered objects: same keys in the same (sorted) order, partner values -/

/-- the value the reordered object holds under the name of `m` -/
def partnerIn (ms' : List (String × Json)) (m : String × Json) : Json := (lookupKey ms' m.1).getD m.2

theorem keysOf_map_partner (ms' l : List (String × Json)) :
    keysOf (l.map (fun m => (m.1, partnerIn ms' m))) = keysOf l := by
  simp [keysOf, List.map_map, Function.comp_def]

theorem toGoMap_eqv {ms ms' : List (String × Json)} (he : Eqv (.obj ms) (.obj ms')) (ht : Tidy (.obj ms))
    (ht' : Tidy (.obj ms')) :
    toGoMap ms' = (toGoMap ms).map (fun m => (m.1, partnerIn ms' m)) ∧
      ∀ m ∈ toGoMap ms, Eqv m.2 (partnerIn ms' m) ∧ Tidy m.2 ∧ Tidy (partnerIn ms' m) := by
  simp only [Eqv] at he
  have ⟨hn, hm⟩ := tidy_obj ht
  have ⟨hn', hm'⟩ := tidy_obj ht'
  have hmem := toGoMap_mem_iff ms hn
  have hpartner : ∀ m ∈ ms, ∃ v', (m.1, v') ∈ ms' ∧ Eqv m.2 v' ∧ partnerIn ms' m = v' := by
    intro m hmm
    obtain ⟨v', hv', hev⟩ := eqvM_iff.mp he.1 m hmm
    exact ⟨v', hv', hev, by simp [partnerIn, lookupKey_of_mem hn' hv']⟩
  constructor
  · apply toGoMap_eq_of_sorted_mem hn'
    · unfold KeysSorted
      have := keysOf_map_partner ms' (toGoMap ms)
      simp only [keysOf] at this
      rw [this]
      exact toGoMap_sorted ms
    · intro x
      constructor
      · intro hx
        have hk := he.2 x.1 (mem_keysOf hx)
        simp only [keysOf, List.mem_map] at hk
        obtain ⟨m, hmm, hkey⟩ := hk
        obtain ⟨v', hv', _, hp⟩ := hpartner m hmm
        have : v' = x.2 := by
          have h1 := lookupKey_of_mem hn' hv'
          have h2 := lookupKey_of_mem hn' (show (x.1, x.2) ∈ ms' from hx)
          rw [hkey, h2] at h1
          simpa using h1.symm
        refine List.mem_map.mpr ⟨m, (hmem m).mpr hmm, ?_⟩
        rw [hp, this, hkey]
      · intro hx
        obtain ⟨m, hmm, rfl⟩ := List.mem_map.mp hx
        obtain ⟨v', hv', _, hp⟩ := hpartner m ((hmem m).mp hmm)
        simp only [hp]; exact hv'
  · intro m hmm
    have hmm' := (hmem m).mp hmm
    obtain ⟨v', hv', hev, hp⟩ := hpartner m hmm'
    rw [hp]
    exact ⟨hev, (hm m hmm').2, (hm' _ hv').2⟩

theorem lookupKey_map_partner (ms' : List (String × Json)) (l : List (String × Json)) (k : String) :
    lookupKey (l.map (fun m => (m.1, partnerIn ms' m))) k = (l.find? (·.1 == k)).map (partnerIn ms') := by
  simp [lookupKey, List.find?_map, Option.map_map, Function.comp_def]

theorem statusEntries_partner {r : Rec} (hr : RecEqv r) (ms' : List (String × Json)) : ∀ (l : List (String × Json)),
    (∀ m ∈ l, Eqv m.2 (partnerIn ms' m) ∧ Tidy m.2 ∧ Tidy (partnerIn ms' m)) →
    LeR (statusEntries r l) (statusEntries r (l.map (fun m => (m.1, partnerIn ms' m)))) := by
  intro l
  induction l with
  | nil => intro _; exact LeR.refl _
  | cons a rest ih =>
    obtain ⟨k, v⟩ := a
    intro h
    have hrest := ih (fun m hm => h m (by simp [hm]))
    have ⟨h1, h2, h3⟩ := h (k, v) (by simp)
    simp only [List.map_cons, statusEntries]
    split
    · exact hrest
    · exact LeR.bind (hr _ _ _ h1 h2 h3) (fun _ => LeR.bind hrest (fun _ => LeR.refl _))

theorem normResponsesProps_eqv {r : Rec} (hr : RecEqv r) {j j' : Json} (he : Eqv j j') (ht : Tidy j) (ht' : Tidy j') :
    LeR (normResponsesProps r j) (normResponsesProps r j') := by
  rcases scalar_or j j' he with ⟨ms, ms', rfl, rfl⟩ | ⟨xs, ys, rfl, rfl, _⟩ | ⟨h, _, _⟩
  · have ⟨e1, e2⟩ := toGoMap_eqv he ht ht'
    simp only [normResponsesProps, rawMap]
    rw [e1]
    refine LeR.bind ?_ (fun _ => LeR.bind (statusEntries_partner hr ms' _ e2) (fun _ => LeR.refl _))
    -- the `default` member
    unfold defaultPart
    rw [lookupKey_map_partner]
    cases hf : (toGoMap ms).find? (·.1 == "default") with
    | none => simp [lookupKey, hf]; exact LeR.refl _
    | some m =>
      have hmm := List.mem_of_find?_eq_some hf
      have ⟨h1, h2, h3⟩ := e2 m hmm
      simp only [lookupKey, hf, Option.map_some]
      exact LeR.bind (hr _ _ _ h1 h2 h3) (fun _ => LeR.refl _)
  · exact LeR.refl _
  · rw [h]; exact LeR.refl _

theorem normResponses_eqv {r : Rec} (hr : RecEqv r) {j j' : Json} (he : Eqv j j') (ht : Tidy j) (ht' : Tidy j') :
    LeR (normResponses r j) (normResponses r j') := by
  unfold normResponses
  exact LeR.bind (normResponsesProps_eqv hr he ht ht') (fun _ => LeR.bind (normExtensions_eqv he ht ht') (fun _ => LeR.refl _))

theorem normPaths_eqv {r : Rec} (hr : RecEqv r) {j j' : Json} (he : Eqv j j') (ht : Tidy j) (ht' : Tidy j') :
    LeR (normPaths r j) (normPaths r j') := by
  rcases scalar_or j j' he with ⟨ms, ms', rfl, rfl⟩ | ⟨xs, ys, rfl, rfl, _⟩ | ⟨h, _, _⟩
  · have he0 := he
    simp only [Eqv] at he
    have ⟨hn, hm⟩ := tidy_obj ht
    have ⟨hn', hm'⟩ := tidy_obj ht'
    have hmem := toGoMap_mem_iff ms hn
    have hmem' := toGoMap_mem_iff ms' hn'
    -- the filtered Go maps of both objects, for any predicate on names
    have hfilt : ∀ (p : String → Bool) (f : Json → R Json),
        (∀ m ∈ ms, ∀ v', (m.1, v') ∈ ms' → Eqv m.2 v' → LeR (f m.2) (f v')) →
        LeR (mapMembersR f ((rawMap ms).filter (fun m => p m.1))) (mapMembersR f ((rawMap ms').filter (fun m => p m.1))) := by
      intro p f hf
      apply mapMembersR_eqv
      · exact keysOf_filter_nodup _ (keysSorted_nodup (toGoMap_sorted ms))
      · exact keysOf_filter_nodup _ (keysSorted_nodup (toGoMap_sorted ms'))
      · intro k hk
        simp only [keysOf, List.mem_map, List.mem_filter, rawMap] at hk ⊢
        obtain ⟨m', ⟨hm1, hm2⟩, rfl⟩ := hk
        have := he.2 m'.1 (mem_keysOf ((hmem' m').mp hm1))
        simp only [keysOf, List.mem_map] at this
        obtain ⟨m, hmm, hkey⟩ := this
        exact ⟨m, ⟨(hmem m).mpr hmm, by rw [hkey]; exact hm2⟩, hkey⟩
      · intro m hmf
        simp only [List.mem_filter, rawMap] at hmf
        have hmm := (hmem m).mp hmf.1
        obtain ⟨v', hv', hev⟩ := eqvM_iff.mp he.1 m hmm
        refine ⟨v', ?_, hf m hmm v' hv' hev⟩
        simp only [List.mem_filter, rawMap]
        exact ⟨(hmem' _).mpr hv', hmf.2⟩
    simp only [normPaths]
    refine LeR.bind (hfilt isExtKey normAny (fun m hmm v' hv' hev => normAny_eqv _ _ hev (hm m hmm).2 (hm' _ hv').2)) (fun _ => ?_)
    exact LeR.bind (hfilt startsWithSlash (r (.kind "pathItem")) (fun m hmm v' hv' hev => hr _ _ _ hev (hm m hmm).2 (hm' _ hv').2))
      (fun _ => LeR.refl _)
  · exact LeR.refl _
  · rw [h]; exact LeR.refl _

/-! ### the dispatcher and the recursion -/

theorem normKind_eqv {r : Rec} (hr : RecEqv r) (k : String) {j j' : Json} (he : Eqv j j') (ht : Tidy j) (ht' : Tidy j') :
    LeR (normKind r k j) (normKind r k j') := by
  unfold normKind
  split
  · exact normSchema_eqv hr he ht ht'
  · split
    · exact normResponse_eqv hr he ht ht'
    · split
      · exact normResponses_eqv hr he ht ht'
      · split
        · exact normPaths_eqv hr he ht ht'
        · split
          · exact normSecurityScheme_eqv hr he ht ht'
          · split
            · exact LeR.refl _
            · split
              · exact LeR.bind (normStruct_eqv hr _ he ht ht') (fun _ => LeR.refl _)
              · exact normConcatKind_eqv hr _ he ht ht'

theorem normF_eqv : ∀ n, RecEqv (normF n) := by
  intro n
  induction n with
  | zero => intro t v v' _ _ _ x h; simp [normF] at h
  | succ n ih =>
    intro t v v' he ht ht'
    cases t with
    | kind k => simpa [normF] using normKind_eqv ih k he ht ht'
    | named nm => simpa [normF] using normNamed_eqv ih nm he ht ht'


/-! ### `Tidy` from the two facts already known about codec outputs -/

mutual
  theorem tidy_of_clean_nd : ∀ (j : Json), Clean j → ND j → Tidy j
    | .obj ms, hc, hn => by
        simp only [Clean] at hc
        simp only [ND] at hn
        simp only [Tidy]
        exact ⟨hn.1, tidyM_of_clean_nd ms hc hn.2⟩
    | .arr xs, hc, hn => by
        simp only [Clean] at hc
        simp only [ND] at hn
        simp only [Tidy]
        exact tidyL_of_clean_nd xs hc hn
    | .null, _, _ => by simp [Tidy]
    | .bool _, _, _ => by simp [Tidy]
    | .num _, _, _ => by simp [Tidy]
    | .str _, _, _ => by simp [Tidy]
  theorem tidyL_of_clean_nd : ∀ (xs : List Json), CleanL xs → NDL xs → TidyL xs
    | [], _, _ => by simp [TidyL]
    | x :: xs, hc, hn => by
        simp only [CleanL] at hc
        simp only [NDL] at hn
        exact ⟨tidy_of_clean_nd x hc.1 hn.1, tidyL_of_clean_nd xs hc.2 hn.2⟩
  theorem tidyM_of_clean_nd : ∀ (ms : List (String × Json)), CleanM ms → NDM ms → TidyM ms
    | [], _, _ => by simp [TidyM]
    | (k, v) :: rest, hc, hn => by
        simp only [CleanM] at hc
        simp only [NDM] at hn
        exact ⟨hc.1, tidy_of_clean_nd v hc.2.2.1 hn.1, tidyM_of_clean_nd rest hc.2.2.2 hn.2⟩
end


theorem eqv_obj_intro {ms ms' : List (String × Json)} (h1 : ∀ m ∈ ms, ∃ v', (m.1, v') ∈ ms' ∧ Eqv m.2 v')
    (h2 : ∀ k ∈ keysOf ms', k ∈ keysOf ms) : Eqv (.obj ms) (.obj ms') := by
  simp only [Eqv]; exact ⟨eqvM_iff.mpr h1, h2⟩

theorem eqv_num (n : Int) : Eqv (.num n) (.num n) := by simp only [Eqv]
theorem eqv_str (s : String) : Eqv (.str s) (.str s) := by simp only [Eqv]
theorem eqv_null : Eqv .null .null := by simp only [Eqv]
theorem eqv_arr_swap_false : ¬ Eqv (.arr [.num 1, .num 2]) (.arr [.num 2, .num 1]) := by
  simp only [Eqv, EqvL]
  intro h
  exact absurd h.1 (by decide)


/-! ### an executable test for `Tidy` (run by the driver on generated documents) -/

def nodupB : List String → Bool
  | [] => true
  | k :: ks => !ks.contains k && nodupB ks

theorem nodupB_sound : ∀ (ks : List String), nodupB ks = true → ks.Nodup
  | [], _ => List.nodup_nil
  | k :: ks, h => by
      simp only [nodupB, Bool.and_eq_true, Bool.not_eq_true'] at h
      refine List.nodup_cons.mpr ⟨?_, nodupB_sound ks h.2⟩
      intro hm
      have : ks.contains k = true := by simpa using hm
      rw [h.1] at this; cases this

mutual
  def tidyB : Json → Bool
    | .arr xs => tidyLB xs
    | .obj ms => nodupB (keysOf ms) && tidyMB ms
    | _ => true
  def tidyLB : List Json → Bool
    | [] => true
    | x :: xs => tidyB x && tidyLB xs
  def tidyMB : List (String × Json) → Bool
    | [] => true
    | (k, v) :: rest => nameOKB k && tidyB v && tidyMB rest
end

mutual
  theorem tidyB_sound : ∀ (j : Json), tidyB j = true → Tidy j
    | .obj ms, h => by
        simp only [tidyB, Bool.and_eq_true] at h
        simp only [Tidy]
        exact ⟨nodupB_sound _ h.1, tidyMB_sound ms h.2⟩
    | .arr xs, h => by simp only [Tidy]; exact tidyLB_sound xs (by simpa [tidyB] using h)
    | .null, _ => by simp [Tidy]
    | .bool _, _ => by simp [Tidy]
    | .num _, _ => by simp [Tidy]
    | .str _, _ => by simp [Tidy]
  theorem tidyLB_sound : ∀ (xs : List Json), tidyLB xs = true → TidyL xs
    | [], _ => by simp [TidyL]
    | x :: xs, h => by
        simp only [tidyLB, Bool.and_eq_true] at h
        exact ⟨tidyB_sound x h.1, tidyLB_sound xs h.2⟩
  theorem tidyMB_sound : ∀ (ms : List (String × Json)), tidyMB ms = true → TidyM ms
    | [], _ => by simp [TidyM]
    | (k, v) :: rest, h => by
        simp only [tidyMB, Bool.and_eq_true] at h
        exact ⟨nameOKB_sound h.1.1, tidyB_sound v h.1.2, tidyMB_sound rest h.2⟩
end

end SpecModel.Codec
