/-
The recursion budget `norm` gives itself is enough: if ANY budget makes `normF` succeed on `(t, j)`, then
`need t j` does, with the same result — and `fuelFor j ≥ need (kind k) j`.  Together with fuel monotonicity
(`Mono.lean`) the budget disappears from statements about successful runs of `norm`.

`need`: a kind at depth d calls named types and kinds on values of depth ≤ d-1; a named type calls the schema
codec on the SAME value, or on elements of it.
-/
import SpecModel.Codec.Mono
import SpecModel.Codec.NoDup

namespace SpecModel.Codec
open SpecModel

def need : Target → Json → Nat
  | .kind _, j => 2 * depth j + 1
  | .named _, j => 2 * depth j + 2

/-- `r'` does at least what `r` does on every call that fits in budget `B` -/
def RecLeOn (B : Nat) (r r' : Rec) : Prop := ∀ t v, need t v ≤ B → LeR (r t v) (r' t v)

/-! ### depth -/

theorem depth_mem_list {xs : List Json} {x : Json} (h : x ∈ xs) : depth x ≤ depthList xs := by
  induction xs with
  | nil => simp at h
  | cons a rest ih =>
    simp only [depthList]
    rcases List.mem_cons.mp h with rfl | h
    · exact Nat.le_max_left _ _
    · exact Nat.le_trans (ih h) (Nat.le_max_right _ _)

theorem depth_mem_members {ms : List (String × Json)} {m : String × Json} (h : m ∈ ms) :
    depth m.2 ≤ depthMembers ms := by
  induction ms with
  | nil => simp at h
  | cons a rest ih =>
    obtain ⟨k, v⟩ := a
    simp only [depthMembers]
    rcases List.mem_cons.mp h with rfl | h
    · exact Nat.le_max_left _ _
    · exact Nat.le_trans (ih h) (Nat.le_max_right _ _)

theorem depth_arr_mem {xs : List Json} {x : Json} (h : x ∈ xs) : depth x + 1 ≤ depth (.arr xs) := by
  simp only [depth]; exact Nat.succ_le_succ (depth_mem_list h)

theorem depth_obj_mem {ms : List (String × Json)} {m : String × Json} (h : m ∈ ms) : depth m.2 + 1 ≤ depth (.obj ms) := by
  simp only [depth]; exact Nat.succ_le_succ (depth_mem_members h)

theorem lookupKey_mem' {ms : List (String × Json)} {n : String} {v : Json} (h : lookupKey ms n = some v) : (n, v) ∈ ms := by
  unfold lookupKey at h
  cases hf : ms.find? (·.1 == n) with
  | none => simp [hf] at h
  | some m =>
    simp [hf] at h
    have h1 := List.mem_of_find?_eq_some hf
    have h2 := List.find?_some hf
    simp only [beq_iff_eq] at h2
    obtain ⟨k, w⟩ := m
    simp only at h2 h
    subst h2; subst h
    exact h1

/-! ### element-wise codecs, restricted to the elements actually present -/

theorem mapR_monoOn {f f' : Json → R Json} : ∀ (xs : List Json), (∀ x ∈ xs, LeR (f x) (f' x)) →
    LeR (mapR f xs) (mapR f' xs) := by
  intro xs
  induction xs with
  | nil => intro _; exact LeR.refl _
  | cons x rest ih =>
    intro h
    simp only [mapR]
    exact LeR.bind (h x (by simp)) (fun y => LeR.bind (ih (fun z hz => h z (by simp [hz]))) (fun ys => LeR.refl _))

theorem mapMembersR_monoOn {f f' : Json → R Json} : ∀ (ms : List (String × Json)),
    (∀ m ∈ ms, LeR (f m.2) (f' m.2)) → LeR (mapMembersR f ms) (mapMembersR f' ms) := by
  intro ms
  induction ms with
  | nil => intro _; exact LeR.refl _
  | cons a rest ih =>
    obtain ⟨k, v⟩ := a
    intro h
    simp only [mapMembersR]
    exact LeR.bind (h (k, v) (by simp)) (fun y => LeR.bind (ih (fun z hz => h z (by simp [hz]))) (fun ys => LeR.refl _))

/-! ### Struct.lean -/

theorem ptrTo_monoOn {B : Nat} {r r' : Rec} (h : RecLeOn B r r') (t : Target) (j : Json) (hj : need t j ≤ B) :
    LeR (ptrTo r t j) (ptrTo r' t j) := by
  cases j <;> first | exact LeR.refl _ | exact h _ _ hj

theorem need_kind_le {B : Nat} {k : String} {v : Json} (h : 2 * depth v + 2 ≤ B) : need (.kind k) v ≤ B := by
  simp only [need]; omega

theorem need_named_le {B : Nat} {n : String} {v : Json} (h : 2 * depth v + 2 ≤ B) : need (.named n) v ≤ B := by
  simp only [need]; omega

theorem normFT_monoOn {B : Nat} {r r' : Rec} (h : RecLeOn B r r') (ft : FT) (v : Json) (hv : 2 * depth v + 2 ≤ B) :
    LeR (normFT r ft v) (normFT r' ft v) := by
  unfold normFT
  split
  all_goals first
    | exact LeR.refl _
    | exact h _ _ (need_kind_le hv)
    | exact h _ _ (need_named_le hv)
    | exact LeR.bind (mapR_monoOn _ (fun x hx => h _ x (need_kind_le (by have := depth_arr_mem hx; omega)))) (fun _ => LeR.refl _)
    | exact LeR.bind (mapMembersR_monoOn _ (fun m hm => h _ m.2 (need_kind_le (by have := depth_obj_mem hm; omega)))) (fun _ => LeR.refl _)
    | exact LeR.bind (mapMembersR_monoOn _ (fun m hm => h _ m.2 (need_named_le (by have := depth_obj_mem hm; omega)))) (fun _ => LeR.refl _)
    | exact LeR.bind (mapMembersR_monoOn _ (fun m hm => ptrTo_monoOn h _ m.2 (need_kind_le (by have := depth_obj_mem hm; omega)))) (fun _ => LeR.refl _)

theorem decodeField_monoOn {B : Nat} {r r' : Rec} (h : RecLeOn B r r') (ft : FT) (cur : Option Json) (v : Json)
    (hv : 2 * depth v + 2 ≤ B) : LeR (decodeField r ft cur v) (decodeField r' ft cur v) := by
  unfold decodeField
  split
  · split
    · exact LeR.bind (h _ _ (need_kind_le hv)) (fun _ => LeR.refl _)
    · exact LeR.refl _
  · exact LeR.bind (normFT_monoOn h ft v hv) (fun _ => LeR.refl _)

theorem decodeAll_monoOn {B : Nat} {r r' : Rec} (h : RecLeOn B r r') (ft : FT) : ∀ (vs : List Json) (cur : Option Json),
    (∀ v ∈ vs, 2 * depth v + 2 ≤ B) → LeR (decodeAll r ft cur vs) (decodeAll r' ft cur vs) := by
  intro vs
  induction vs with
  | nil => intro cur _; exact LeR.refl _
  | cons v rest ih =>
    intro cur hvs
    simp only [decodeAll]
    exact LeR.bind (decodeField_monoOn h ft cur v (hvs v (by simp))) (fun st => ih st (fun z hz => hvs z (by simp [hz])))

/-- every member value fits -/
def MembersFit (B : Nat) (ms : List (String × Json)) : Prop := ∀ m ∈ ms, 2 * depth m.2 + 2 ≤ B

theorem membersFit_of_obj {B : Nat} {ms : List (String × Json)} (h : 2 * depth (.obj ms) ≤ B) : MembersFit B ms := by
  intro m hm; have := depth_obj_mem hm; omega

theorem fieldState_monoOn {B : Nat} {r r' : Rec} (h : RecLeOn B r r') (all : List Field) (f : Field)
    (ms : List (String × Json)) (hms : MembersFit B ms) : LeR (fieldState r all f ms) (fieldState r' all f ms) := by
  refine decodeAll_monoOn h f.ft _ none ?_
  intro v hv
  simp only [fieldVals, List.mem_map, List.mem_filter] at hv
  obtain ⟨m, ⟨hm, _⟩, rfl⟩ := hv
  exact hms m hm

theorem normFields_monoOn {B : Nat} {r r' : Rec} (h : RecLeOn B r r') (all : List Field) (ms : List (String × Json))
    (hms : MembersFit B ms) : ∀ (fs : List Field), LeR (normFields r all fs ms) (normFields r' all fs ms) := by
  intro fs
  induction fs with
  | nil => exact LeR.refl _
  | cons f rest ih =>
    simp only [normFields]
    exact LeR.bind (fieldState_monoOn h all f ms hms) (fun st => LeR.bind ih (fun _ => LeR.refl _))

theorem structMembers_fit {B : Nat} {j : Json} (hj : 2 * depth j ≤ B) :
    ∀ ms, structMembers j = .ok ms → MembersFit B ms := by
  intro ms h
  rcases structMembers_ok h with ⟨_, rfl⟩ | rfl
  · intro m hm; simp at hm
  · exact membersFit_of_obj hj

theorem bind_structMembers {B : Nat} {α : Type} {j : Json} (hj : 2 * depth j ≤ B) {f f' : List (String × Json) → R α}
    (hf : ∀ ms, MembersFit B ms → LeR (f ms) (f' ms)) : LeR (structMembers j >>= f) (structMembers j >>= f') := by
  intro y hy
  cases hs : structMembers j with
  | error e => rw [hs] at hy; cases hy
  | ok ms =>
    rw [hs] at hy
    exact hf ms (structMembers_fit hj ms hs) y hy

theorem normStruct_monoOn {B : Nat} {r r' : Rec} (h : RecLeOn B r r') (fs : List Field) (j : Json)
    (hj : 2 * depth j ≤ B) : LeR (normStruct r fs j) (normStruct r' fs j) := by
  unfold normStruct
  exact bind_structMembers hj (fun ms hms => normFields_monoOn h _ ms hms _)


/-! ### Norm.lean -/

theorem need_kind_same {B : Nat} {k : String} {v : Json} (h : 2 * depth v + 1 ≤ B) : need (.kind k) v ≤ B := by
  simp only [need]; omega

theorem normSchemaOrBool_monoOn {B : Nat} {r r' : Rec} (h : RecLeOn B r r') (j : Json) (hj : 2 * depth j + 1 ≤ B) :
    LeR (normSchemaOrBool r j) (normSchemaOrBool r' j) := by
  unfold normSchemaOrBool
  split <;> first | exact LeR.refl _ | exact h _ _ (need_kind_same hj)

theorem normSchemaOrArray_monoOn {B : Nat} {r r' : Rec} (h : RecLeOn B r r') (j : Json) (hj : 2 * depth j + 1 ≤ B) :
    LeR (normSchemaOrArray r j) (normSchemaOrArray r' j) := by
  unfold normSchemaOrArray
  split
  · exact h _ _ (need_kind_same hj)
  · exact LeR.bind (mapR_monoOn _ (fun x hx => h _ x (need_kind_same (by have := depth_arr_mem hx; omega))))
      (fun _ => LeR.refl _)
  · exact LeR.refl _

theorem normSchemaOrStringArray_monoOn {B : Nat} {r r' : Rec} (h : RecLeOn B r r') (j : Json)
    (hj : 2 * depth j + 1 ≤ B) : LeR (normSchemaOrStringArray r j) (normSchemaOrStringArray r' j) := by
  unfold normSchemaOrStringArray
  split <;> first | exact LeR.refl _ | exact h _ _ (need_kind_same hj)

theorem normSchemaProperties_monoOn {B : Nat} {r r' : Rec} (h : RecLeOn B r r') (j : Json)
    (hj : 2 * depth j + 1 ≤ B) : LeR (normSchemaProperties r j) (normSchemaProperties r' j) := by
  unfold normSchemaProperties
  split
  · exact LeR.bind (mapMembersR_monoOn _ (fun m hm => h _ m.2 (need_kind_same (by have := depth_obj_mem hm; omega))))
      (fun _ => LeR.refl _)
  · exact LeR.refl _
  · exact LeR.refl _

theorem normNamed_monoOn {B : Nat} {r r' : Rec} (h : RecLeOn B r r') (n : String) (j : Json)
    (hj : 2 * depth j + 1 ≤ B) : LeR (normNamed r n j) (normNamed r' n j) := by
  unfold normNamed
  split
  · exact LeR.refl _
  · split
    · exact normSchemaOrBool_monoOn h j hj
    · split
      · exact normSchemaOrArray_monoOn h j hj
      · split
        · exact normSchemaOrStringArray_monoOn h j hj
        · split
          · exact normSchemaProperties_monoOn h j hj
          · exact LeR.refl _

theorem normSchema_monoOn {B : Nat} {r r' : Rec} (h : RecLeOn B r r') (j : Json) (hj : 2 * depth j ≤ B) :
    LeR (normSchema r j) (normSchema r' j) := by
  unfold normSchema
  split
  · exact LeR.refl _
  · have hms := membersFit_of_obj hj
    exact LeR.bind (normFields_monoOn h _ _ hms _) (fun _ => LeR.bind (normFields_monoOn h _ _ hms _) (fun _ => LeR.refl _))
  · exact LeR.refl _

theorem normResponse_monoOn {B : Nat} {r r' : Rec} (h : RecLeOn B r r') (j : Json) (hj : 2 * depth j ≤ B) :
    LeR (normResponse r j) (normResponse r' j) := by
  unfold normResponse
  refine bind_structMembers hj (fun ms hms => LeR.bind (normFields_monoOn h _ _ hms _) (fun full => LeR.bind (LeR.refl _)
    (fun b2 => LeR.bind (LeR.refl _) (fun b3 => ?_))))
  simp only
  repeat' (first
    | exact LeR.refl _
    | exact LeR.bind (normFields_monoOn h _ _ hms _) (fun _ => LeR.refl _)
    | split)

theorem membersFit_sub {B : Nat} {a b : List (String × Json)} (hsub : ∀ m ∈ a, m ∈ b) (hb : MembersFit B b) :
    MembersFit B a := fun m hm => hb m (hsub m hm)

theorem statusEntries_monoOn {B : Nat} {r r' : Rec} (h : RecLeOn B r r') : ∀ (ms : List (String × Json)),
    MembersFit B ms → LeR (statusEntries r ms) (statusEntries r' ms) := by
  intro ms
  induction ms with
  | nil => intro _; exact LeR.refl _
  | cons a rest ih =>
    obtain ⟨k, v⟩ := a
    intro hms
    have hrest : MembersFit B rest := fun m hm => hms m (by simp [hm])
    simp only [statusEntries]
    split
    · exact ih hrest
    · exact LeR.bind (h _ _ (need_kind_le (hms (k, v) (by simp)))) (fun _ => LeR.bind (ih hrest) (fun _ => LeR.refl _))

theorem defaultPart_monoOn {B : Nat} {r r' : Rec} (h : RecLeOn B r r') (raw : List (String × Json))
    (hms : MembersFit B raw) : LeR (defaultPart r raw) (defaultPart r' raw) := by
  unfold defaultPart
  split
  · rename_i v hv
    have := lookupKey_mem' hv
    exact LeR.bind (h _ _ (need_kind_le (hms _ this))) (fun _ => LeR.refl _)
  · exact LeR.refl _

theorem normResponsesProps_monoOn {B : Nat} {r r' : Rec} (h : RecLeOn B r r') (j : Json) (hj : 2 * depth j ≤ B) :
    LeR (normResponsesProps r j) (normResponsesProps r' j) := by
  unfold normResponsesProps
  split
  · exact LeR.refl _
  · have hraw : MembersFit B (rawMap _) := membersFit_sub (toGoMap_members _) (membersFit_of_obj hj)
    exact LeR.bind (defaultPart_monoOn h _ hraw) (fun _ => LeR.bind (statusEntries_monoOn h _ hraw) (fun _ => LeR.refl _))
  · exact LeR.refl _

theorem normResponses_monoOn {B : Nat} {r r' : Rec} (h : RecLeOn B r r') (j : Json) (hj : 2 * depth j ≤ B) :
    LeR (normResponses r j) (normResponses r' j) := by
  unfold normResponses
  exact LeR.bind (normResponsesProps_monoOn h j hj) (fun _ => LeR.refl _)

theorem normPaths_monoOn {B : Nat} {r r' : Rec} (h : RecLeOn B r r') (j : Json) (hj : 2 * depth j ≤ B) :
    LeR (normPaths r j) (normPaths r' j) := by
  unfold normPaths
  split
  · exact LeR.refl _
  · have hraw : MembersFit B (rawMap _) := membersFit_sub (toGoMap_members _) (membersFit_of_obj hj)
    exact LeR.bind (LeR.refl _) (fun _ => LeR.bind (mapMembersR_monoOn _ (fun m hm =>
      h _ m.2 (need_kind_le (hraw m (List.mem_filter.mp hm).1)))) (fun _ => LeR.refl _))
  · exact LeR.refl _

theorem normSecurityScheme_monoOn {B : Nat} {r r' : Rec} (h : RecLeOn B r r') (j : Json) (hj : 2 * depth j ≤ B) :
    LeR (normSecurityScheme r j) (normSecurityScheme r' j) := by
  unfold normSecurityScheme
  refine bind_structMembers hj (fun ms hms => LeR.bind (normFields_monoOn h _ _ hms _) (fun full => LeR.bind (LeR.refl _)
    (fun b2 => ?_)))
  simp only
  split
  · exact LeR.refl _
  · exact LeR.bind (normFields_monoOn h _ _ hms _) (fun _ => LeR.refl _)

theorem normOperationProps_monoOn {B : Nat} {r r' : Rec} (h : RecLeOn B r r') (j : Json) (hj : 2 * depth j ≤ B) :
    LeR (normOperationProps r j) (normOperationProps r' j) := by
  unfold normOperationProps
  refine bind_structMembers hj (fun ms hms => LeR.bind (normFields_monoOn h _ _ hms _) (fun others =>
    LeR.bind ?_ (fun _ => LeR.refl _)))
  first
    | exact fieldState_monoOn h _ _ _ hms
    | exact LeR.refl _
    | (split
       · exact LeR.bind (fieldState_monoOn h _ _ _ hms) (fun _ => LeR.refl _)
       · exact LeR.refl _)

theorem normPart_monoOn {B : Nat} {r r' : Rec} (h : RecLeOn B r r') (p : String) (j : Json) (hj : 2 * depth j ≤ B) :
    LeR (normPart r p j) (normPart r' p j) := by
  unfold normPart
  split
  · exact LeR.refl _
  · split
    · exact LeR.refl _
    · split
      · exact normOperationProps_monoOn h j hj
      · exact normStruct_monoOn h _ j hj

theorem normParts_monoOn {B : Nat} {r r' : Rec} (h : RecLeOn B r r') (j : Json) (hj : 2 * depth j ≤ B) :
    ∀ ps, LeR (normParts r j ps) (normParts r' j ps) := by
  intro ps
  induction ps with
  | nil => exact LeR.refl _
  | cons p rest ih =>
    simp only [normParts]
    exact LeR.bind (normPart_monoOn h p j hj) (fun _ => LeR.bind ih (fun _ => LeR.refl _))

theorem normConcatKind_monoOn {B : Nat} {r r' : Rec} (h : RecLeOn B r r') (ki : KindInfo) (j : Json)
    (hj : 2 * depth j ≤ B) : LeR (normConcatKind r ki j) (normConcatKind r' ki j) := by
  unfold normConcatKind
  exact LeR.bind (normParts_monoOn h j hj _) (fun _ => LeR.bind (normParts_monoOn h j hj _) (fun _ =>
    LeR.bind (normParts_monoOn h .null (by simp [depth]) _) (fun _ => LeR.refl _)))

theorem normKind_monoOn {B : Nat} {r r' : Rec} (h : RecLeOn B r r') (k : String) (j : Json) (hj : 2 * depth j ≤ B) :
    LeR (normKind r k j) (normKind r' k j) := by
  unfold normKind
  split
  · exact normSchema_monoOn h j hj
  · split
    · exact normResponse_monoOn h j hj
    · split
      · exact normResponses_monoOn h j hj
      · split
        · exact normPaths_monoOn h j hj
        · split
          · exact normSecurityScheme_monoOn h j hj
          · split
            · exact LeR.refl _
            · split
              · exact LeR.bind (normStruct_monoOn h _ j hj) (fun _ => LeR.refl _)
              · exact normConcatKind_monoOn h _ j hj

/-! ### the budget `need t j` is enough -/

theorem normF_need : ∀ (n : Nat) (t : Target) (j r : Json), normF n t j = .ok r → normF (need t j) t j = .ok r := by
  intro n
  induction n with
  | zero => intro t j r h; simp [normF] at h
  | succ n ih =>
    intro t j r h
    -- what the smaller budget does on calls that fit in `B`, budget `B` does too
    have hOn : ∀ B, RecLeOn B (normF n) (normF B) := by
      intro B t' v hv x hx
      exact normF_mono hv t' v x (ih t' v x hx)
    cases t with
    | kind k =>
      have h1 : normKind (normF n) k j = .ok r := by simpa [normF] using h
      have := normKind_monoOn (hOn (2 * depth j)) k j (Nat.le_refl _) r h1
      simpa [need, normF] using this
    | named nm =>
      have h1 : normNamed (normF n) nm j = .ok r := by simpa [normF] using h
      have := normNamed_monoOn (hOn (2 * depth j + 1)) nm j (Nat.le_refl _) r h1
      simpa [need, normF] using this

/-- **`norm` has enough budget**: whatever any budget returns, `norm` returns -/
theorem norm_of_normF {n : Nat} {k : String} {j r : Json} (h : normF n (.kind k) j = .ok r) : norm k j = .ok r := by
  unfold norm
  refine normF_mono ?_ _ _ _ (normF_need n _ j r h)
  simp only [need, fuelFor]; omega

end SpecModel.Codec
