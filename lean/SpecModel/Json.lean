/-
M0 — JSON values as the models see them.

Objects keep member order and duplicates (the decoder models need both).
Numbers are integers; anything else is outside the model (`Wire` refuses it).
-/
namespace SpecModel

inductive Json where
  | null
  | bool (b : Bool)
  | num (n : Int)
  | str (s : String)
  | arr (xs : List Json)
  | obj (ms : List (String × Json))
  deriving Repr, Inhabited

namespace Json

mutual
  def beq : Json → Json → Bool
    | .null, .null => true
    | .bool a, .bool b => a == b
    | .num a, .num b => a == b
    | .str a, .str b => a == b
    | .arr a, .arr b => beqList a b
    | .obj a, .obj b => beqMembers a b
    | _, _ => false
  def beqList : List Json → List Json → Bool
    | [], [] => true
    | x :: xs, y :: ys => beq x y && beqList xs ys
    | _, _ => false
  def beqMembers : List (String × Json) → List (String × Json) → Bool
    | [], [] => true
    | (k, x) :: xs, (l, y) :: ys => k == l && beq x y && beqMembers xs ys
    | _, _ => false
end

instance : BEq Json := ⟨beq⟩

/-- Member lookup: the first member with that name. -/
def get? : Json → String → Option Json
  | .obj ms, k => (ms.find? (·.1 == k)).map (·.2)
  | _, _ => none

def keys : Json → List String
  | .obj ms => ms.map (·.1)
  | _ => []

def isObj : Json → Bool
  | .obj _ => true
  | _ => false

/-- Replace (first occurrence) or append a member. -/
def setMember (ms : List (String × Json)) (k : String) (v : Json) : List (String × Json) :=
  match ms with
  | [] => [(k, v)]
  | (l, w) :: rest => if l == k then (k, v) :: rest else (l, w) :: setMember rest k v

def eraseMember (ms : List (String × Json)) (k : String) : List (String × Json) :=
  ms.filter (·.1 != k)

/-! ### Rendering (Go's compact `encoding/json` output, HTML escaping on) -/

def hexDigit (n : Nat) : Char :=
  if n < 10 then Char.ofNat (48 + n) else Char.ofNat (87 + n)

def escapeChar (c : Char) : List Char :=
  if c = '"' then ['\\', '"']
  else if c = '\\' then ['\\', '\\']
  else if c = '\n' then ['\\', 'n']
  else if c = '\r' then ['\\', 'r']
  else if c = '\t' then ['\\', 't']
  else if c.toNat = 8 then ['\\', 'b']
  else if c.toNat = 12 then ['\\', 'f']
  else if c.toNat < 0x20 ∨ c = '<' ∨ c = '>' ∨ c = '&' ∨ c.toNat = 0x2028 ∨ c.toNat = 0x2029 then
    let n := c.toNat
    ['\\', 'u', hexDigit (n / 4096 % 16), hexDigit (n / 256 % 16), hexDigit (n / 16 % 16), hexDigit (n % 16)]
  else [c]

def escapeChars (cs : List Char) : List Char := cs.flatMap escapeChar

def renderString (s : String) : String :=
  String.ofList ('"' :: escapeChars s.toList ++ ['"'])

mutual
  def render : Json → String
    | .null => "null"
    | .bool true => "true"
    | .bool false => "false"
    | .num n => toString n
    | .str s => renderString s
    | .arr xs => "[" ++ renderList xs ++ "]"
    | .obj ms => "{" ++ renderMembers ms ++ "}"
  def renderList : List Json → String
    | [] => ""
    | [x] => render x
    | x :: xs => render x ++ "," ++ renderList xs
  def renderMembers : List (String × Json) → String
    | [] => ""
    | [(k, x)] => renderString k ++ ":" ++ render x
    | (k, x) :: xs => renderString k ++ ":" ++ render x ++ "," ++ renderMembers xs
end

end Json
end SpecModel
