/-
Cache / loader protocol model (properties C16, C17, C18).

What is modelled (Go: cache.go, schema_loader.go `load` / `setSchemaID` / `transitiveResolver`,
expander.go `baseForRoot`, `cacheOrDefault`):

* a `ResolutionCache` is a finite map URL → document; `Get` and `Set` are atomic (RWMutex);
* `schemaLoader.load u` = `Get u`; on a hit return it; on a miss call the loader (`PathLoader` followed by
  `json.Unmarshal`, together the function `L`); on an error return it and cache nothing; otherwise
  `Set u doc` and return the document;
* pseudo documents: `baseForRoot` and `setSchemaID` call `cache.Set` directly (`setPseudo`);
* two places read the cache directly without going through `load` (`baseForRoot` with a nil root and
  `transitiveResolver`): `peek`.  This constructor is an addition to the three-constructor language of the
  design note; it is needed because real traces contain such bare `Get`s.  The transparency and
  schedule-independence theorems are stated for programs whose bare reads are harmless (see `PeekFree`,
  `Ideal`), because a bare `Get` *does* observe whether a document was already fetched.

Everything else the expander does is a deterministic function of the responses, which is what the
continuations of `Prog` express.

Core Lean only.
-/
namespace SpecModel.Cache

abbrev Url := String

/-! ### Caches -/

/-- A cache is an association list, most recent binding first; lookup takes the first match. -/
abbrev Cache (δ : Type) := List (Url × δ)

namespace Cache
variable {δ : Type}

def get : Cache δ → Url → Option δ
  | [], _ => none
  | (k, d) :: rest, u => if k = u then some d else get rest u

/-- `Set`: the new binding shadows any older one. -/
def set (C : Cache δ) (u : Url) (d : δ) : Cache δ := (u, d) :: C

def keys (C : Cache δ) : List Url := C.map (·.1)

/-- `ShallowClone`: a new object with the same bindings (documents are shared, never mutated). -/
def clone (C : Cache δ) : Cache δ := C

end Cache

/-- What a `load u` answers when the cache is `C` and the loader is `L`. -/
def view {δ ε : Type} (C : Cache δ) (L : Url → Except ε δ) (u : Url) : Except ε δ :=
  match C.get u with
  | some d => .ok d
  | none => L u

/-- The cache only holds what the loader would return, or one of the pseudo documents `Ps`. -/
def Coherent {δ ε : Type} (C : Cache δ) (L : Url → Except ε δ) (Ps : List (Url × δ)) : Prop :=
  ∀ u d, C.get u = some d → L u = .ok d ∨ (u, d) ∈ Ps

/-! ### Programs -/

inductive Prog (δ ε α : Type) where
  | ret (a : α)
  /-- obtain document `u` through cache-then-loader (`schemaLoader.load`) -/
  | load (u : Url) (k : Except ε δ → Prog δ ε α)
  /-- direct `cache.Set` (`baseForRoot`, `setSchemaID`) -/
  | setPseudo (u : Url) (d : δ) (k : Unit → Prog δ ε α)
  /-- direct `cache.Get` (`baseForRoot` with nil root, `transitiveResolver`) -/
  | peek (u : Url) (k : Option δ → Prog δ ε α)

/-- No bare cache read anywhere in the program. -/
inductive PeekFree {δ ε α : Type} : Prog δ ε α → Prop
  | ret (a) : PeekFree (.ret a)
  | load (u k) : (∀ r, PeekFree (k r)) → PeekFree (.load u k)
  | setPseudo (u d k) : PeekFree (k ()) → PeekFree (.setPseudo u d k)

/-- Only `load` requests. -/
inductive LoadOnly {δ ε α : Type} : Prog δ ε α → Prop
  | ret (a) : LoadOnly (.ret a)
  | load (u k) : (∀ r, LoadOnly (k r)) → LoadOnly (.load u k)

/-! ### Events -/

inductive Event where
  | get (u : Url) (hit : Bool)
  | fetch (u : Url) (ok : Bool)
  | set (u : Url)
  deriving DecidableEq, Repr

/-- URLs passed to the loader, in order. -/
def fetches : List Event → List Url
  | [] => []
  | .fetch u _ :: t => u :: fetches t
  | _ :: t => fetches t

/-- URLs for which the loader call succeeded, in order. -/
def okFetches : List Event → List Url
  | [] => []
  | .fetch u true :: t => u :: okFetches t
  | _ :: t => okFetches t

/-! ### Sequential interpreter -/

structure Run (δ α : Type) where
  result : α
  cache : Cache δ
  /-- loader calls, in order (failed ones included) -/
  log : List Url
  trace : List Event
  /-- direct pseudo writes, in order -/
  pseudo : List (Url × δ)

def Run.prepend {δ α : Type} (r : Run δ α) (l : List Url) (t : List Event) (ps : List (Url × δ)) : Run δ α :=
  { r with log := l ++ r.log, trace := t ++ r.trace, pseudo := ps ++ r.pseudo }

def isOk {ε δ : Type} : Except ε δ → Bool
  | .ok _ => true
  | .error _ => false

def runSeq {δ ε α : Type} : Prog δ ε α → Cache δ → (Url → Except ε δ) → Run δ α
  | .ret a, C, _ => ⟨a, C, [], [], []⟩
  | .load u k, C, L =>
    match C.get u with
    | some d => (runSeq (k (.ok d)) C L).prepend [] [.get u true] []
    | none =>
      match L u with
      | .ok d => (runSeq (k (.ok d)) (C.set u d) L).prepend [u] [.get u false, .fetch u true, .set u] []
      | .error e => (runSeq (k (.error e)) C L).prepend [u] [.get u false, .fetch u false] []
  | .setPseudo u d k, C, L => (runSeq (k ()) (C.set u d) L).prepend [] [.set u] [(u, d)]
  | .peek u k, C, L => (runSeq (k (C.get u)) C L).prepend [] [.get u (C.get u).isSome] []

/-- Several programs one after another on the same cache object (a caller-supplied cache that is reused). -/
def runMany {δ ε α : Type} : List (Prog δ ε α) → Cache δ → (Url → Except ε δ) → List (Run δ α)
  | [], _, _ => []
  | p :: ps, C, L => let r := runSeq p C L; r :: runMany ps r.cache L

def lastCache {δ α : Type} (C : Cache δ) : List (Run δ α) → Cache δ
  | [] => C
  | r :: rs => lastCache r.cache rs

/-! ### Trace validation (executable; run by the driver on traces recorded from the Go code) -/

/-- Where a thread is inside `load`. -/
inductive Phase where
  | idle
  /-- just did `get u miss` -/
  | missed (u : Url)
  /-- just did `fetch u ok`: the next action must be `set u` -/
  | fetched (u : Url)
  deriving DecidableEq, Repr

/-- One event of a single-thread trace against the set of keys currently in the cache.
`.error reason` when the event does not conform to the protocol. -/
def checkEvent (keys : List Url) (ph : Phase) (e : Event) : Except String (List Url × Phase) :=
  match ph, e with
  | .fetched u, .set v => if u = v then .ok (v :: keys, .idle) else .error "set of another url after fetch"
  | .fetched _, _ => .error "successful fetch not followed by set"
  | _, .get u true => if u ∈ keys then .ok (keys, .idle) else .error "hit on absent key"
  | _, .get u false => if u ∈ keys then .error "miss on present key" else .ok (keys, .missed u)
  | _, .set u => .ok (u :: keys, .idle)
  | .missed u, .fetch v ok =>
      if u = v then .ok (keys, if ok then .fetched u else .idle) else .error "fetch of another url after miss"
  | .idle, .fetch _ _ => .error "fetch not preceded by miss"

/-- Index and reason of the first offending event, or the final state. -/
def checkTrace (keys : List Url) (ph : Phase) (i : Nat) : List Event → Except (Nat × String) (List Url × Phase)
  | [] => .ok (keys, ph)
  | e :: t =>
    match checkEvent keys ph e with
    | .error r => .error (i, r)
    | .ok (keys', ph') => checkTrace keys' ph' (i + 1) t

def phaseFinal : Phase → Bool
  | .fetched _ => false
  | _ => true

def validFrom (keys : List Url) (ph : Phase) (t : List Event) : Bool :=
  match checkTrace keys ph 0 t with
  | .ok (_, ph') => phaseFinal ph'
  | .error _ => false

/-- A complete single-thread trace conforms to the protocol, starting from a cache holding `keys`. -/
def validTrace (keys : List Url) (t : List Event) : Bool := validFrom keys .idle t

/-- Later calls on a reused cache: the trace never reads (`get`) a key of `K` before writing (`set`) it. -/
def avoids : List Url → List Event → Bool
  | _, [] => true
  | K, .get u _ :: t => !(K.contains u) && avoids K t
  | K, .fetch _ _ :: t => avoids K t
  | K, .set u :: t => avoids (K.filter (· != u)) t

/-! ### Small-step semantics, N threads on one cache -/

inductive TState (δ ε α : Type) where
  /-- not inside a `load` -/
  | run (p : Prog δ ε α)
  /-- between the `Get` miss and the loader call -/
  | fetching (u : Url) (k : Except ε δ → Prog δ ε α)
  /-- between the successful loader call and the `Set` -/
  | storing (u : Url) (d : δ) (p : Prog δ ε α)

def TState.finished {δ ε α : Type} : TState δ ε α → Bool
  | .run (.ret _) => true
  | _ => false

def TState.result? {δ ε α : Type} : TState δ ε α → Option α
  | .run (.ret a) => some a
  | _ => none

/-- One atomic action of a thread.  A finished thread does nothing. -/
def step {δ ε α : Type} (C : Cache δ) (L : Url → Except ε δ) : TState δ ε α → Cache δ × TState δ ε α × List Event
  | .run (.ret a) => (C, .run (.ret a), [])
  | .run (.load u k) =>
    match C.get u with
    | some d => (C, .run (k (.ok d)), [.get u true])
    | none => (C, .fetching u k, [.get u false])
  | .fetching u k =>
    match L u with
    | .ok d => (C, .storing u d (k (.ok d)), [.fetch u true])
    | .error e => (C, .run (k (.error e)), [.fetch u false])
  | .storing u d p => (C.set u d, .run p, [.set u])
  | .run (.setPseudo u d k) => (C.set u d, .run (k ()), [.set u])
  | .run (.peek u k) => (C, .run (k (C.get u)), [.get u (C.get u).isSome])

structure Config (δ ε α : Type) where
  threads : List (TState δ ε α)
  cache : Cache δ
  /-- global order of the atomic actions, tagged with the thread -/
  trace : List (Nat × Event)

def Config.init {δ ε α : Type} (ps : List (Prog δ ε α)) (C : Cache δ) : Config δ ε α :=
  ⟨ps.map .run, C, []⟩

/-- Schedule thread `i` for one atomic action (an index out of range is a no-op). -/
def Config.stepThread {δ ε α : Type} (c : Config δ ε α) (L : Url → Except ε δ) (i : Nat) : Config δ ε α :=
  match c.threads[i]? with
  | none => c
  | some s =>
    let (C', s', ev) := step c.cache L s
    ⟨c.threads.set i s', C', c.trace ++ ev.map (fun e => (i, e))⟩

def runSched {δ ε α : Type} (c : Config δ ε α) (L : Url → Except ε δ) : List Nat → Config δ ε α
  | [] => c
  | i :: sched => runSched (c.stepThread L i) L sched

def Config.allFinished {δ ε α : Type} (c : Config δ ε α) : Bool := c.threads.all TState.finished

def Config.results {δ ε α : Type} (c : Config δ ε α) : List (Option α) := c.threads.map TState.result?

/-! #### Validation of a multi-thread trace (global order of the atomic actions, as recorded by a cache
wrapper that logs inside its own critical section) -/

def phaseOf : List (Nat × Phase) → Nat → Phase
  | [], _ => .idle
  | (j, ph) :: rest, i => if j = i then ph else phaseOf rest i

/-- Each event is checked against the *shared* key set and the phase of *its own* thread. -/
def checkTraceMT (keys : List Url) (phs : List (Nat × Phase)) (idx : Nat) :
    List (Nat × Event) → Except (Nat × String) (List Url × List (Nat × Phase))
  | [] => .ok (keys, phs)
  | (i, e) :: t =>
    match checkEvent keys (phaseOf phs i) e with
    | .error r => .error (idx, r)
    | .ok (keys', ph') => checkTraceMT keys' ((i, ph') :: phs) (idx + 1) t

/-- A complete multi-thread trace conforms to the protocol.  Note that "fetched at most once" is *not* part
of it: two threads may both miss on `u` and both fetch it (the Get–fetch–Set of `load` is not atomic). -/
def validTraceMT (keys : List Url) (t : List (Nat × Event)) : Bool :=
  match checkTraceMT keys [] 0 t with
  | .ok (_, phs) => phs.all fun x => phaseFinal (phaseOf phs x.1)
  | .error _ => false

/-- "`s'` is what a thread in the unfinished state `s` becomes after one action", whatever cache and loader. -/
def Next {δ ε α : Type} (s' s : TState δ ε α) : Prop :=
  s.finished = false ∧ ∃ (C : Cache δ) (L : Url → Except ε δ), (step C L s).2.1 = s'

/-! #### Discipline under which sharing a cache between threads is harmless

`P` is the table of pseudo documents all threads agree on.  `V` is the view of the initial shared cache.
`Ideal P V own p a` : following `p`, every pseudo write is the one `P` prescribes, every `load` of a pseudo
key (and every bare `Get`) happens after the thread's *own* write of that key (`own`), every other `load`
is answered by `V`, and the outcome is `a`.  Only the path actually taken is constrained. -/
inductive Ideal {δ ε α : Type} (P : Url → Option δ) (V : Url → Except ε δ) : List Url → Prog δ ε α → α → Prop
  | ret (own a) : Ideal P V own (.ret a) a
  | loadOwn (own u d k a) : u ∈ own → P u = some d → Ideal P V own (k (.ok d)) a → Ideal P V own (.load u k) a
  | loadExt (own u k a) : P u = none → Ideal P V own (k (V u)) a → Ideal P V own (.load u k) a
  | setPseudo (own u d k a) : P u = some d → Ideal P V (u :: own) (k ()) a → Ideal P V own (.setPseudo u d k) a
  | peekOwn (own u d k a) : u ∈ own → P u = some d → Ideal P V own (k (some d)) a → Ideal P V own (.peek u k) a

/-! ### Heap of caches and call histories (C16) -/

abbrev Heap (δ : Type) := List (Cache δ)

/-- The `cache ResolutionCache` argument of a public entry point: `nil` or a caller-owned object. -/
inductive CacheArg where
  | none
  | some (id : Nat)
  deriving DecidableEq, Repr

structure Call (δ ε α : Type) where
  prog : Prog δ ε α
  /-- the loader as it behaves during this call -/
  loader : Url → Except ε δ
  arg : CacheArg

/-- `cacheOrDefault` followed by the call body.  Object 0 is the package-level `resCache`.
With `nil` a fresh clone of object 0 is allocated (appended to the heap) and the body runs on it; with a caller
object the body runs on that object (a dangling id behaves as a throw-away empty cache).
Nothing here prevents a call from writing object 0: `arg = .some 0` does. -/
def runCall {δ ε α : Type} (H : Heap δ) (c : Call δ ε α) : Heap δ × Run δ α :=
  match c.arg with
  | .none =>
    let r := runSeq c.prog (Cache.clone (H.getD 0 [])) c.loader
    (H ++ [r.cache], r)
  | .some id =>
    let r := runSeq c.prog (H.getD id []) c.loader
    (H.set id r.cache, r)

def runHistory {δ ε α : Type} : Heap δ → List (Call δ ε α) → Heap δ × List (Run δ α)
  | H, [] => (H, [])
  | H, c :: cs =>
    let (H', r) := runCall H c
    let (H'', rs) := runHistory H' cs
    (H'', r :: rs)

/-- No call is handed the package-level object itself (the public API offers no way to obtain it). -/
def NoGlobalArg {δ ε α : Type} (h : List (Call δ ε α)) : Prop := ∀ c ∈ h, c.arg ≠ .some 0

end SpecModel.Cache
