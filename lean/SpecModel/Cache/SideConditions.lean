/-
Side conditions that tie the cache / loader protocol model (`SpecModel/Cache/Model.lean`) to the Go source.
Each is a decidable predicate over the tables that `harness/cmd/extract` regenerates from /repo's working
tree on every run (`SpecModel/Generated/CacheFacts.lean`); `Props/C16.lean`, `C17.lean`, `C18.lean` discharge
them by `decide`, so a source change that invalidates an assumption of the model breaks a proof obligation.
-/
namespace SpecModel.Cache.Side

def lookup {β : Type} (k : String) : List (String × β) → Option β
  | [] => none
  | (k', v) :: rest => if k' = k then some v else lookup k rest

/-- Package-level variables are never assigned after initialisation, with the two listed exceptions:
`resCache` (assigned by `initResolutionCache` only) and the debug logger. -/
def pkgVarsStable (vars : List (String × List String)) : Bool :=
  vars.all fun (v, ws) =>
    ws.isEmpty || (v == "resCache" && ws == ["initResolutionCache"]) || (v == "specLogger" && ws == ["debugOptions"])

/-- The variables the model speaks about exist (a rename must not make the conditions vacuous). -/
def pkgVarsPresent (vars : List (String × List String)) : Bool :=
  (lookup "resCache" vars).isSome && (lookup "onceCache" vars).isSome && (lookup "PathLoader" vars).isSome

/-- `initResolutionCache` runs only as the argument of `onceCache.Do`, and does so somewhere. -/
def initOnlyOnce (calls : List (String × String)) : Bool :=
  !calls.isEmpty && calls.all fun (_, how) => how == "once"

/-- The package-level cache object is only ever assigned (by its initialiser), cloned, or guarded:
no function returns it, stores it or passes it on (this is `NoGlobalArg` of the model). -/
def globalNeverEscapes (uses : List (String × String × String)) : Bool :=
  uses.all (fun (v, f, how) =>
    (v == "resCache" && ((how == "assign" && f == "initResolutionCache") || how == "clone")) ||
    (v == "onceCache" && how == "do")) &&
  uses.any (fun (v, _, how) => v == "resCache" && how == "clone")

/-- `ShallowClone` is only applied to the package-level cache. -/
def onlyGlobalCloned (calls : List (String × String)) : Bool :=
  calls.all fun (_, recv) => recv == "resCache"

def headIs (k : String) (uses : List (String × String)) : Bool :=
  match uses with
  | (k', _) :: _ => k' == k
  | [] => false

/-- does function `g` clone its options before any other use, possibly after handing them unchanged to
another function that does (at most `fuel` hops)? -/
def clonesFirst (flow : List (String × Bool × List (String × String))) : Nat → String → Bool
  | 0, _ => false
  | fuel + 1, g =>
    match lookup g flow with
    | none => false
    | some (_, uses) =>
      headIs "clone" uses ||
      (match uses with
       | [("pass", callee)] => clonesFirst flow fuel callee
       | _ => false)

/-- Every exported function that receives a caller's `*ExpandOptions` clones it (`optionsOrDefault`) before
reading or writing anything through the pointer. -/
def callerOptionsCloned (flow : List (String × Bool × List (String × String))) : Bool :=
  flow.all fun (f, exported, _) => !exported || clonesFirst flow 4 f

/-- Lock discipline of `simpleCache`, for EVERY field of the receiver other than the lock: reads under the read
or write lock, writes under the write lock only (a write under the read lock races with the other readers);
the one unlocked access is the `len` used as a capacity hint in `ShallowClone`. -/
def lockDiscipline (acc : List (String × String × String × String)) : Bool :=
  !acc.isEmpty &&
  acc.all fun (m, kind, lock, _field) =>
    (kind == "read" && (lock == "R" || lock == "W")) ||
    (kind == "write" && lock == "W") ||
    (kind == "len" && m == "ShallowClone")

/-- `Get` reads, `Set` writes: both methods touch the map (under lock, by `lockDiscipline`). -/
def getSetPresent (acc : List (String × String × String × String)) : Bool :=
  acc.any (fun (m, kind, _, f) => m == "Get" && kind == "read" && f == "store") &&
  acc.any (fun (m, kind, _, f) => m == "Set" && kind == "write" && f == "store")

/-- `schemaLoader.load` is lookup-before-fetch-then-store under one key. -/
def loadProtocol (shape : List String) : Bool :=
  shape == ["get:normalized", "fetch:normalized", "unmarshal:&doc", "set:normalized:doc"]

/-- The direct cache accesses outside `load` are exactly the ones the model has constructors for:
`baseForRoot` (peek, setPseudo), `setSchemaID` (setPseudo), `transitiveResolver` (peek). -/
def directAccessesModelled (sites : List (String × String)) : Bool :=
  sites.all fun s =>
    s == ("baseForRoot", "get") || s == ("baseForRoot", "set") ||
    s == ("schemaLoader.setSchemaID", "set") || s == ("schemaLoader.transitiveResolver", "get")

end SpecModel.Cache.Side
