/-
Helper lemmas for the cache / loader protocol model (C16, C17, C18).  Statements of record are in
`SpecModel/Props/C16.lean`, `C17.lean`, `C18.lean`.
-/
import SpecModel.Cache.Model

namespace SpecModel.Cache

variable {δ ε α : Type}

/-! ### Cache invariants -/

namespace Cache

@[simp] theorem get_nil (u : Url) : get ([] : Cache δ) u = none := rfl

theorem get_set (C : Cache δ) (u v : Url) (d : δ) :
    (C.set u d).get v = if u = v then some d else C.get v := rfl

@[simp] theorem get_set_self (C : Cache δ) (u : Url) (d : δ) : (C.set u d).get u = some d := by
  simp [get_set]

theorem get_set_ne (C : Cache δ) {u v : Url} (d : δ) (h : u ≠ v) : (C.set u d).get v = C.get v := by
  simp [get_set, h]

@[simp] theorem keys_set (C : Cache δ) (u : Url) (d : δ) : (C.set u d).keys = u :: C.keys := rfl

theorem get_eq_none_iff (C : Cache δ) (u : Url) : C.get u = none ↔ u ∉ C.keys := by
  induction C with
  | nil => simp [keys]
  | cons hd tl ih =>
    obtain ⟨k, d⟩ := hd
    by_cases h : k = u
    · simp [get, keys, h]
    · have h' : ¬ u = k := fun e => h e.symm
      simpa [get, keys, h, h'] using ih

theorem get_isSome_iff (C : Cache δ) (u : Url) : (C.get u).isSome = true ↔ u ∈ C.keys := by
  cases hg : C.get u with
  | none => simpa using (get_eq_none_iff C u).1 hg
  | some d =>
    have : ¬ C.get u = none := by simp [hg]
    simpa using fun h => this ((get_eq_none_iff C u).2 h)

theorem mem_keys_of_get {C : Cache δ} {u : Url} {d : δ} (h : C.get u = some d) : u ∈ C.keys := by
  apply (get_isSome_iff C u).1; simp [h]

theorem mem_of_get {C : Cache δ} {u : Url} {d : δ} (h : C.get u = some d) : (u, d) ∈ C := by
  induction C with
  | nil => simp at h
  | cons hd tl ih =>
    obtain ⟨k, e⟩ := hd
    by_cases hk : k = u
    · simp [get, hk] at h; simp [hk, h]
    · simp [get, hk] at h; exact List.mem_cons_of_mem _ (ih h)

@[simp] theorem clone_eq (C : Cache δ) : C.clone = C := rfl

end Cache

/-! ### Views -/

theorem view_nil (L : Url → Except ε δ) : view ([] : Cache δ) L = L := by
  funext u; simp [view]

theorem view_of_get {C : Cache δ} {L : Url → Except ε δ} {u : Url} {d : δ} (h : C.get u = some d) :
    view C L u = .ok d := by simp [view, h]

theorem view_of_miss {C : Cache δ} {L : Url → Except ε δ} {u : Url} (h : C.get u = none) :
    view C L u = L u := by simp [view, h]

theorem view_set (C : Cache δ) (L : Url → Except ε δ) (u v : Url) (d : δ) :
    view (C.set u d) L v = if u = v then .ok d else view C L v := by
  by_cases h : u = v <;> simp [view, Cache.get_set, h]

/-- Storing what the loader answered does not change the view. -/
theorem view_set_loaded {C : Cache δ} {L : Url → Except ε δ} {u : Url} {d : δ}
    (hm : C.get u = none) (hl : L u = .ok d) : view (C.set u d) L = view C L := by
  funext v
  rw [view_set]
  by_cases h : u = v
  · subst h; simp [view, hm, hl]
  · simp [h]

/-- Strict coherence is "the view is the loader". -/
theorem coherent_nil_iff (C : Cache δ) (L : Url → Except ε δ) : Coherent C L [] ↔ view C L = L := by
  constructor
  · intro h; funext u
    cases hg : C.get u with
    | none => simp [view, hg]
    | some d =>
      have := h u d hg
      simp at this
      simp [view, hg, this]
  · intro h u d hg
    left
    have := congrFun h u
    simpa [view, hg] using this.symm

theorem coherent_empty (L : Url → Except ε δ) (Ps : List (Url × δ)) : Coherent ([] : Cache δ) L Ps := by
  intro u d h; simp at h

theorem Coherent.mono {C : Cache δ} {L : Url → Except ε δ} {Ps Qs : List (Url × δ)}
    (h : Coherent C L Ps) (hs : ∀ x ∈ Ps, x ∈ Qs) : Coherent C L Qs := by
  intro u d hg
  cases h u d hg with
  | inl h => exact .inl h
  | inr h => exact .inr (hs _ h)

/-! ### `runSeq`: unfolding lemmas -/

@[simp] theorem runSeq_ret (a : α) (C : Cache δ) (L : Url → Except ε δ) :
    runSeq (.ret a : Prog δ ε α) C L = ⟨a, C, [], [], []⟩ := rfl

theorem runSeq_load_hit {u : Url} {k : Except ε δ → Prog δ ε α} {C : Cache δ} {L : Url → Except ε δ} {d : δ}
    (h : C.get u = some d) :
    runSeq (.load u k) C L = (runSeq (k (.ok d)) C L).prepend [] [.get u true] [] := by
  simp [runSeq, h]

theorem runSeq_load_ok {u : Url} {k : Except ε δ → Prog δ ε α} {C : Cache δ} {L : Url → Except ε δ} {d : δ}
    (h : C.get u = none) (hl : L u = .ok d) :
    runSeq (.load u k) C L =
      (runSeq (k (.ok d)) (C.set u d) L).prepend [u] [.get u false, .fetch u true, .set u] [] := by
  simp [runSeq, h, hl]

theorem runSeq_load_err {u : Url} {k : Except ε δ → Prog δ ε α} {C : Cache δ} {L : Url → Except ε δ} {e : ε}
    (h : C.get u = none) (hl : L u = .error e) :
    runSeq (.load u k) C L = (runSeq (k (.error e)) C L).prepend [u] [.get u false, .fetch u false] [] := by
  simp [runSeq, h, hl]

@[simp] theorem runSeq_setPseudo (u : Url) (d : δ) (k : Unit → Prog δ ε α) (C : Cache δ) (L : Url → Except ε δ) :
    runSeq (.setPseudo u d k) C L = (runSeq (k ()) (C.set u d) L).prepend [] [.set u] [(u, d)] := rfl

@[simp] theorem runSeq_peek (u : Url) (k : Option δ → Prog δ ε α) (C : Cache δ) (L : Url → Except ε δ) :
    runSeq (.peek u k) C L = (runSeq (k (C.get u)) C L).prepend [] [.get u (C.get u).isSome] [] := rfl

@[simp] theorem prepend_result (r : Run δ α) (l t ps) : (r.prepend l t ps).result = r.result := rfl
@[simp] theorem prepend_cache (r : Run δ α) (l t ps) : (r.prepend l t ps).cache = r.cache := rfl
@[simp] theorem prepend_log (r : Run δ α) (l t ps) : (r.prepend l t ps).log = l ++ r.log := rfl
@[simp] theorem prepend_trace (r : Run δ α) (l t ps) : (r.prepend l t ps).trace = t ++ r.trace := rfl
@[simp] theorem prepend_pseudo (r : Run δ α) (l t ps) : (r.prepend l t ps).pseudo = ps ++ r.pseudo := rfl

/-- The result of a `load` is the view; afterwards the view is unchanged. -/
theorem runSeq_load_view (u : Url) (k : Except ε δ → Prog δ ε α) (C : Cache δ) (L : Url → Except ε δ) :
    ∃ C', view C' L = view C L ∧ (∀ v, C.get v = none → v ≠ u → C'.get v = none) ∧
      (runSeq (.load u k) C L).result = (runSeq (k (view C L u)) C' L).result ∧
      (runSeq (.load u k) C L).cache = (runSeq (k (view C L u)) C' L).cache := by
  cases hg : C.get u with
  | some d =>
    exact ⟨C, rfl, fun v h _ => h, by simp [runSeq_load_hit hg, view, hg], by simp [runSeq_load_hit hg, view, hg]⟩
  | none =>
    cases hl : L u with
    | ok d =>
      refine ⟨C.set u d, view_set_loaded hg hl, ?_, by simp [runSeq_load_ok hg hl, view, hg, hl],
        by simp [runSeq_load_ok hg hl, view, hg, hl]⟩
      intro v hv hne
      rw [Cache.get_set_ne _ _ (fun e => hne e.symm)]; exact hv
    | error e =>
      exact ⟨C, rfl, fun v h _ => h, by simp [runSeq_load_err hg hl, view, hg, hl],
        by simp [runSeq_load_err hg hl, view, hg, hl]⟩

/-! ### C18: the result depends on the cache only through the view -/

theorem result_congr_view {p : Prog δ ε α} (hp : PeekFree p) :
    ∀ (C C' : Cache δ) (L L' : Url → Except ε δ), view C L = view C' L' →
      (runSeq p C L).result = (runSeq p C' L').result := by
  induction hp with
  | ret a => intros; rfl
  | load u k _ ih =>
    intro C C' L L' hv
    obtain ⟨C1, h1, -, r1, -⟩ := runSeq_load_view u k C L
    obtain ⟨C2, h2, -, r2, -⟩ := runSeq_load_view u k C' L'
    rw [r1, r2, hv]
    exact ih _ C1 C2 L L' (by rw [h1, h2, hv])
  | setPseudo u d k _ ih =>
    intro C C' L L' hv
    simp only [runSeq_setPseudo, prepend_result]
    apply ih
    funext v
    rw [view_set, view_set, hv]

/-! ### C18: coherence is preserved -/

theorem coherent_runSeq (p : Prog δ ε α) :
    ∀ (C : Cache δ) (L : Url → Except ε δ) (Ps : List (Url × δ)), Coherent C L Ps →
      Coherent (runSeq p C L).cache L (Ps ++ (runSeq p C L).pseudo) := by
  induction p with
  | ret a => intro C L Ps h; simpa using h
  | load u k ih =>
    intro C L Ps h
    cases hg : C.get u with
    | some d => rw [runSeq_load_hit hg]; simpa using ih _ C L Ps h
    | none =>
      cases hl : L u with
      | ok d =>
        rw [runSeq_load_ok hg hl]
        have hc : Coherent (C.set u d) L Ps := by
          intro v e hv
          rw [Cache.get_set] at hv
          by_cases huv : u = v
          · subst huv; simp at hv; subst hv; exact .inl hl
          · simp [huv] at hv; exact h v e hv
        simpa using ih _ _ L Ps hc
      | error e => rw [runSeq_load_err hg hl]; simpa using ih _ C L Ps h
  | setPseudo u d k ih =>
    intro C L Ps h
    have hc : Coherent (C.set u d) L (Ps ++ [(u, d)]) := by
      intro v e hv
      rw [Cache.get_set] at hv
      by_cases huv : u = v
      · subst huv; simp at hv; subst hv; right; simp
      · simp [huv] at hv
        cases h v e hv with
        | inl h => exact .inl h
        | inr h => right; simp [h]
    have := ih () _ L _ hc
    simpa [List.append_assoc] using this
  | peek u k ih => intro C L Ps h; simpa using ih _ C L Ps h

theorem pseudo_nil_of_loadOnly {p : Prog δ ε α} (hp : LoadOnly p) :
    ∀ (C : Cache δ) (L : Url → Except ε δ), (runSeq p C L).pseudo = [] := by
  induction hp with
  | ret a => intros; rfl
  | load u k _ ih =>
    intro C L
    cases hg : C.get u with
    | some d => rw [runSeq_load_hit hg]; simpa using ih _ C L
    | none =>
      cases hl : L u with
      | ok d => rw [runSeq_load_ok hg hl]; simpa using ih _ _ L
      | error e => rw [runSeq_load_err hg hl]; simpa using ih _ C L

theorem LoadOnly.peekFree {p : Prog δ ε α} (hp : LoadOnly p) : PeekFree p := by
  induction hp with
  | ret a => exact .ret a
  | load u k _ ih => exact .load u k ih

/-! ### Traces: log and trace tell the same story -/

@[simp] theorem fetches_nil : fetches [] = [] := rfl
@[simp] theorem fetches_get (u h t) : fetches (.get u h :: t) = fetches t := rfl
@[simp] theorem fetches_set (u t) : fetches (.set u :: t) = fetches t := rfl
@[simp] theorem fetches_fetch (u b t) : fetches (.fetch u b :: t) = u :: fetches t := rfl
@[simp] theorem okFetches_nil : okFetches [] = [] := rfl
@[simp] theorem okFetches_get (u h t) : okFetches (.get u h :: t) = okFetches t := rfl
@[simp] theorem okFetches_set (u t) : okFetches (.set u :: t) = okFetches t := rfl
@[simp] theorem okFetches_fetch_true (u t) : okFetches (.fetch u true :: t) = u :: okFetches t := rfl
@[simp] theorem okFetches_fetch_false (u t) : okFetches (.fetch u false :: t) = okFetches t := rfl

theorem okFetches_sub_fetches : ∀ (t : List Event) (u : Url), u ∈ okFetches t → u ∈ fetches t
  | [], _, h => by simp at h
  | .get _ _ :: t, u, h => by simpa using okFetches_sub_fetches t u (by simpa using h)
  | .set _ :: t, u, h => by simpa using okFetches_sub_fetches t u (by simpa using h)
  | .fetch v true :: t, u, h => by
      simp at h ⊢
      exact h.imp id (okFetches_sub_fetches t u)
  | .fetch v false :: t, u, h => by
      simp at h ⊢
      exact .inr (okFetches_sub_fetches t u h)

theorem log_eq_fetches (p : Prog δ ε α) :
    ∀ (C : Cache δ) (L : Url → Except ε δ), (runSeq p C L).log = fetches (runSeq p C L).trace := by
  induction p with
  | ret a => intros; rfl
  | load u k ih =>
    intro C L
    cases hg : C.get u with
    | some d => rw [runSeq_load_hit hg]; simpa using ih _ C L
    | none =>
      cases hl : L u with
      | ok d => rw [runSeq_load_ok hg hl]; simpa using ih _ _ L
      | error e => rw [runSeq_load_err hg hl]; simpa using ih _ C L
  | setPseudo u d k ih => intro C L; simpa using ih () _ L
  | peek u k ih => intro C L; simpa using ih _ C L

/-- "Successful" made precise twice, and the two agree: the `fetch u ok` events of the trace are the
logged loader calls on which the loader answers with a document. -/
theorem okFetches_eq_filter (p : Prog δ ε α) :
    ∀ (C : Cache δ) (L : Url → Except ε δ),
      okFetches (runSeq p C L).trace = (runSeq p C L).log.filter (fun u => isOk (L u)) := by
  induction p with
  | ret a => intros; rfl
  | load u k ih =>
    intro C L
    cases hg : C.get u with
    | some d => rw [runSeq_load_hit hg]; simpa using ih _ C L
    | none =>
      cases hl : L u with
      | ok d => rw [runSeq_load_ok hg hl]; simpa [List.filter_cons, hl, isOk] using ih _ _ L
      | error e => rw [runSeq_load_err hg hl]; simpa [List.filter_cons, hl, isOk] using ih _ C L
  | setPseudo u d k ih => intro C L; simpa using ih () _ L
  | peek u k ih => intro C L; simpa using ih _ C L

/-! ### The trace validator -/

/-- The checker's key set and the cache's key set have the same members. -/
def KeysEq (keys : List Url) (C : Cache δ) : Prop := ∀ u, u ∈ keys ↔ u ∈ C.keys

theorem KeysEq.set {keys : List Url} {C : Cache δ} (h : KeysEq keys C) (u : Url) (d : δ) :
    KeysEq (u :: keys) (C.set u d) := by
  intro v; simp [h v]

theorem KeysEq.refl (C : Cache δ) : KeysEq C.keys C := fun _ => Iff.rfl

theorem checkEvent_get_hit {keys : List Url} {ph : Phase} (hp : phaseFinal ph = true) {u : Url} (h : u ∈ keys) :
    checkEvent keys ph (.get u true) = .ok (keys, .idle) := by
  cases ph <;> simp_all [checkEvent, phaseFinal]

theorem checkEvent_get_miss {keys : List Url} {ph : Phase} (hp : phaseFinal ph = true) {u : Url} (h : u ∉ keys) :
    checkEvent keys ph (.get u false) = .ok (keys, .missed u) := by
  cases ph <;> simp_all [checkEvent, phaseFinal]

theorem checkEvent_set {keys : List Url} {ph : Phase} (hp : phaseFinal ph = true) (u : Url) :
    checkEvent keys ph (.set u) = .ok (u :: keys, .idle) := by
  cases ph <;> simp_all [checkEvent, phaseFinal]

theorem checkEvent_fetch (keys : List Url) (u : Url) (b : Bool) :
    checkEvent keys (.missed u) (.fetch u b) = .ok (keys, if b then .fetched u else .idle) := by
  simp [checkEvent]

theorem checkEvent_store (keys : List Url) (u : Url) :
    checkEvent keys (.fetched u) (.set u) = .ok (u :: keys, .idle) := by
  simp [checkEvent]

theorem checkTrace_cons_ok {keys keys' : List Url} {ph ph' : Phase} {e : Event}
    (h : checkEvent keys ph e = .ok (keys', ph')) (i : Nat) (t : List Event) :
    checkTrace keys ph i (e :: t) = checkTrace keys' ph' (i + 1) t := by
  simp [checkTrace, h]

/-- The model only produces protocol-conforming traces (generalised over the checker state). -/
theorem trace_ok (p : Prog δ ε α) :
    ∀ (C : Cache δ) (L : Url → Except ε δ) (keys : List Url) (ph : Phase) (i : Nat),
      KeysEq keys C → phaseFinal ph = true →
      ∃ keys' ph', checkTrace keys ph i (runSeq p C L).trace = .ok (keys', ph') ∧
        KeysEq keys' (runSeq p C L).cache ∧ phaseFinal ph' = true := by
  induction p with
  | ret a => intro C L keys ph i hk hp; exact ⟨keys, ph, rfl, hk, hp⟩
  | load u k ih =>
    intro C L keys ph i hk hp
    cases hg : C.get u with
    | some d =>
      have hu : u ∈ keys := (hk u).2 (Cache.mem_keys_of_get hg)
      rw [runSeq_load_hit hg]
      simp only [prepend_trace, prepend_cache, List.singleton_append]
      rw [checkTrace_cons_ok (checkEvent_get_hit hp hu)]
      exact ih _ C L keys .idle _ hk rfl
    | none =>
      have hu : u ∉ keys := fun h => (Cache.get_eq_none_iff C u).1 hg ((hk u).1 h)
      cases hl : L u with
      | ok d =>
        rw [runSeq_load_ok hg hl]
        simp only [prepend_trace, prepend_cache, List.cons_append, List.nil_append]
        rw [checkTrace_cons_ok (checkEvent_get_miss hp hu), checkTrace_cons_ok (checkEvent_fetch keys u true)]
        simp only [if_true]
        rw [checkTrace_cons_ok (checkEvent_store keys u)]
        exact ih _ _ L (u :: keys) .idle _ (hk.set u d) rfl
      | error e =>
        rw [runSeq_load_err hg hl]
        simp only [prepend_trace, prepend_cache, List.cons_append, List.nil_append]
        rw [checkTrace_cons_ok (checkEvent_get_miss hp hu), checkTrace_cons_ok (checkEvent_fetch keys u false)]
        exact ih _ C L keys .idle _ hk rfl
  | setPseudo u d k ih =>
    intro C L keys ph i hk hp
    simp only [runSeq_setPseudo, prepend_trace, prepend_cache, List.singleton_append]
    rw [checkTrace_cons_ok (checkEvent_set hp u)]
    exact ih () _ L (u :: keys) .idle _ (hk.set u d) rfl
  | peek u k ih =>
    intro C L keys ph i hk hp
    simp only [runSeq_peek, prepend_trace, prepend_cache, List.singleton_append]
    cases hg : C.get u with
    | some d =>
      have hu : u ∈ keys := (hk u).2 (Cache.mem_keys_of_get hg)
      simp only [Option.isSome_some]
      rw [checkTrace_cons_ok (checkEvent_get_hit hp hu)]
      exact ih _ C L keys .idle _ hk rfl
    | none =>
      have hu : u ∉ keys := fun h => (Cache.get_eq_none_iff C u).1 hg ((hk u).1 h)
      simp only [Option.isSome_none]
      rw [checkTrace_cons_ok (checkEvent_get_miss hp hu)]
      exact ih _ C L keys (.missed u) _ hk rfl

/-- Keys the checker considers unavailable for a fetch: those present, plus the one being stored. -/
def held (keys : List Url) : Phase → List Url
  | .fetched u => u :: keys
  | _ => keys

/-- A thread that missed on `u` (or is storing `u`) did so because `u` was absent. -/
def PhInv (keys : List Url) : Phase → Prop
  | .idle => True
  | .missed u => u ∉ keys
  | .fetched u => u ∉ keys

/-- One accepted event: the invariant is kept, held keys only grow, a fetch is for a key not held and
a successful one makes the key held. -/
theorem checkEvent_spec {keys keys' : List Url} {ph ph' : Phase} {e : Event}
    (hi : PhInv keys ph) (h : checkEvent keys ph e = .ok (keys', ph')) :
    PhInv keys' ph' ∧ (∀ v, v ∈ held keys ph → v ∈ held keys' ph') ∧
      (∀ u b, e = .fetch u b → u ∉ held keys ph ∧ (b = true → u ∈ held keys' ph')) := by
  cases ph with
  | idle =>
    cases e with
    | get u b =>
      cases b <;> simp only [checkEvent] at h <;> split at h <;> simp_all
      all_goals (obtain ⟨rfl, rfl⟩ := h; simp_all [PhInv, held])
    | fetch u b => simp [checkEvent] at h
    | set u =>
      simp only [checkEvent] at h
      simp only [Except.ok.injEq, Prod.mk.injEq] at h
      obtain ⟨rfl, rfl⟩ := h; simp [PhInv, held]; intro v hv; exact .inr hv
  | missed w =>
    cases e with
    | get u b =>
      cases b <;> simp only [checkEvent] at h <;> split at h <;> simp_all
      all_goals (obtain ⟨rfl, rfl⟩ := h; simp_all [PhInv, held])
    | fetch u b =>
      simp only [checkEvent] at h
      split at h
      · rename_i hw; subst hw
        simp only [Except.ok.injEq, Prod.mk.injEq] at h
        obtain ⟨rfl, rfl⟩ := h
        cases b <;> simp_all [PhInv, held]
      · simp at h
    | set u =>
      simp only [checkEvent] at h
      simp only [Except.ok.injEq, Prod.mk.injEq] at h
      obtain ⟨rfl, rfl⟩ := h; simp [PhInv, held]; intro v hv; exact .inr hv
  | fetched w =>
    cases e with
    | get u b => cases b <;> simp [checkEvent] at h
    | fetch u b => simp [checkEvent] at h
    | set u =>
      simp only [checkEvent] at h
      split at h
      · rename_i hw; subst hw
        simp only [Except.ok.injEq, Prod.mk.injEq] at h
        obtain ⟨rfl, rfl⟩ := h; simp [PhInv, held]
      · simp at h

theorem checkTrace_cons_inv {keys keys' : List Url} {ph ph' : Phase} {e : Event} {t : List Event} {i : Nat}
    (h : checkTrace keys ph i (e :: t) = .ok (keys', ph')) :
    ∃ k1 p1, checkEvent keys ph e = .ok (k1, p1) ∧ checkTrace k1 p1 (i + 1) t = .ok (keys', ph') := by
  simp only [checkTrace] at h
  split at h
  · simp at h
  · rename_i k1 p1 he; exact ⟨k1, p1, he, h⟩

/-- Any accepted trace (even a truncated one) fetches only keys that are not held, and fetches no key
successfully twice. -/
theorem check_fetch_once :
    ∀ (t : List Event) (keys : List Url) (ph : Phase) (i : Nat) (keys' : List Url) (ph' : Phase),
      PhInv keys ph → checkTrace keys ph i t = .ok (keys', ph') →
      (∀ v ∈ fetches t, v ∉ held keys ph) ∧ (okFetches t).Nodup := by
  intro t
  induction t with
  | nil => intros; simp
  | cons e t ih =>
    intro keys ph i keys' ph' hi h
    obtain ⟨k1, p1, he, ht⟩ := checkTrace_cons_inv h
    obtain ⟨hi1, hmono, hf⟩ := checkEvent_spec hi he
    obtain ⟨ih1, ih2⟩ := ih k1 p1 (i + 1) keys' ph' hi1 ht
    have hrest : ∀ v ∈ fetches t, v ∉ held keys ph := fun v hv hh => ih1 v hv (hmono v hh)
    cases e with
    | get u b => exact ⟨by simpa using hrest, by simpa using ih2⟩
    | set u => exact ⟨by simpa using hrest, by simpa using ih2⟩
    | fetch u b =>
      obtain ⟨hu, hb⟩ := hf u b rfl
      refine ⟨?_, ?_⟩
      · intro v hv
        simp at hv
        cases hv with
        | inl hv => subst hv; exact hu
        | inr hv => exact hrest v hv
      · cases b with
        | false => simpa using ih2
        | true =>
          simp only [okFetches_fetch_true, List.nodup_cons]
          exact ⟨fun hm => ih1 u (okFetches_sub_fetches t u hm) (hb rfl), ih2⟩

theorem validFrom_ok {keys : List Url} {ph : Phase} {t : List Event} (h : validFrom keys ph t = true) :
    ∃ keys' ph', checkTrace keys ph 0 t = .ok (keys', ph') := by
  unfold validFrom at h
  split at h
  · rename_i k p hk; exact ⟨k, p, hk⟩
  · simp at h

/-! ### Reuse of a cache that holds foreign pseudo entries

`K` is a set of keys on which the two caches may disagree (entries left by earlier calls).  If the run never
reads a key of `K` before writing it, the disagreement is not observable. -/

theorem filter_ne_of_not_mem {K : List Url} {u : Url} (h : u ∉ K) : K.filter (· != u) = K := by
  apply List.filter_eq_self.2
  intro a ha
  simp only [bne_iff_ne, ne_eq]
  intro e; subst e; exact h ha

theorem avoids_load_inv (u : Url) (k : Except ε δ → Prog δ ε α) (C : Cache δ) (L : Url → Except ε δ) (K : List Url)
    (h : avoids K (runSeq (.load u k) C L).trace = true) :
    u ∉ K ∧ ∃ C1, view C1 L = view C L ∧
      (runSeq (.load u k) C L).result = (runSeq (k (view C L u)) C1 L).result ∧
      avoids K (runSeq (k (view C L u)) C1 L).trace = true := by
  cases hg : C.get u with
  | some d =>
    rw [runSeq_load_hit hg] at h ⊢
    simp [avoids] at h
    exact ⟨h.1, C, rfl, by simp [view, hg], by simpa [view, hg] using h.2⟩
  | none =>
    cases hl : L u with
    | ok d =>
      rw [runSeq_load_ok hg hl] at h ⊢
      simp [avoids] at h
      refine ⟨h.1, C.set u d, view_set_loaded hg hl, by simp [view, hg, hl], ?_⟩
      have := h.2
      rw [filter_ne_of_not_mem h.1] at this
      simpa [view, hg, hl] using this
    | error e =>
      rw [runSeq_load_err hg hl] at h ⊢
      simp [avoids] at h
      exact ⟨h.1, C, rfl, by simp [view, hg, hl], by simpa [view, hg, hl] using h.2⟩

theorem result_congr_avoiding {p : Prog δ ε α} (hp : PeekFree p) :
    ∀ (C C' : Cache δ) (L : Url → Except ε δ) (K : List Url),
      (∀ u, u ∉ K → view C L u = view C' L u) → avoids K (runSeq p C L).trace = true →
      (runSeq p C L).result = (runSeq p C' L).result := by
  induction hp with
  | ret a => intros; rfl
  | load u k _ ih =>
    intro C C' L K hv ha
    obtain ⟨huK, C1, h1, r1, a1⟩ := avoids_load_inv u k C L K ha
    obtain ⟨C2, h2, -, r2, -⟩ := runSeq_load_view u k C' L
    rw [r1, r2, ← hv u huK]
    exact ih _ C1 C2 L K (by intro v hvK; rw [h1, h2]; exact hv v hvK) a1
  | setPseudo u d k _ ih =>
    intro C C' L K hv ha
    simp only [runSeq_setPseudo, prepend_result, prepend_trace, List.singleton_append, avoids] at ha ⊢
    apply ih _ _ L (K.filter (· != u)) _ ha
    intro v hvK
    rw [view_set, view_set]
    by_cases huv : u = v
    · simp [huv]
    · simp only [huv, if_false]
      apply hv
      intro hm
      apply hvK
      simp only [List.mem_filter, bne_iff_ne, ne_eq]
      exact ⟨hm, fun e => huv e.symm⟩

/-! ### C16: heap of caches -/

theorem runCall_head (G : Cache δ) (T : Heap δ) (c : Call δ ε α) (h : c.arg ≠ .some 0) :
    ∃ T', (runCall (G :: T) c).1 = G :: T' := by
  unfold runCall
  cases hc : c.arg with
  | none => exact ⟨T ++ [_], rfl⟩
  | some id =>
    cases id with
    | zero => exact absurd hc h
    | succ n => exact ⟨T.set n _, rfl⟩

theorem runCall_none (G : Cache δ) (T : Heap δ) (c : Call δ ε α) (h : c.arg = .none) :
    (runCall (G :: T) c).2 = runSeq c.prog G.clone c.loader := by
  unfold runCall; rw [h]; rfl

theorem runHistory_cons (H : Heap δ) (c : Call δ ε α) (cs : List (Call δ ε α)) :
    runHistory H (c :: cs) =
      ((runHistory (runCall H c).1 cs).1, (runCall H c).2 :: (runHistory (runCall H c).1 cs).2) := rfl

theorem runHistory_length (h : List (Call δ ε α)) : ∀ H : Heap δ, (runHistory H h).2.length = h.length := by
  induction h with
  | nil => intro H; rfl
  | cons c cs ih => intro H; rw [runHistory_cons]; simp [ih]

theorem history_inv (G : Cache δ) (h : List (Call δ ε α)) :
    ∀ (T : Heap δ), NoGlobalArg h →
      (∃ T', (runHistory (G :: T) h).1 = G :: T') ∧
      ∀ (i : Nat) (c : Call δ ε α), h[i]? = some c → c.arg = .none →
        (runHistory (G :: T) h).2[i]? = some (runSeq c.prog G.clone c.loader) := by
  induction h with
  | nil => intro T _; exact ⟨⟨T, rfl⟩, by simp⟩
  | cons c cs ih =>
    intro T hn
    have hc : c.arg ≠ .some 0 := hn c (by simp)
    have hcs : NoGlobalArg cs := fun x hx => hn x (by simp [hx])
    obtain ⟨T1, hT1⟩ := runCall_head G T c hc
    rw [runHistory_cons, hT1]
    obtain ⟨⟨T2, hT2⟩, hres⟩ := ih T1 hcs
    refine ⟨⟨T2, hT2⟩, ?_⟩
    intro i c' hi harg
    cases i with
    | zero =>
      simp at hi; subst hi
      simp [runCall_none G T c harg]
    | succ n =>
      simp at hi
      simpa using hres n c' hi harg

/-! ### C17: the sharing discipline -/

section Discipline
variable (P : Url → Option δ) (L : Url → Except ε δ) (V : Url → Except ε δ)

/-- Off the pseudo keys the shared cache shows what the initial cache showed. -/
def CInv (C : Cache δ) : Prop := ∀ u, P u = none → view C L u = V u

/-- The keys a thread has written itself hold the agreed pseudo documents. -/
def OwnOK (C : Cache δ) (own : List Url) : Prop := ∀ u ∈ own, ∃ d, P u = some d ∧ C.get u = some d

/-- A cache write that respects the table `P`: a pseudo key only ever receives its agreed document. -/
def Compat (C C' : Cache δ) : Prop :=
  C' = C ∨ ∃ u d, C' = C.set u d ∧ ∀ e, P u = some e → e = d

/-- State of a thread that is on its ideal path towards the result `a`. -/
def Good (own : List Url) : TState δ ε α → α → Prop
  | .run p, a => Ideal P V own p a
  | .fetching u k, a => P u = none ∧ L u = V u ∧ Ideal P V own (k (V u)) a
  | .storing u d p, a => P u = none ∧ L u = .ok d ∧ V u = .ok d ∧ Ideal P V own p a

variable {P L V}

theorem OwnOK.compat {C C' : Cache δ} {own : List Url} (h : OwnOK P C own) (hc : Compat P C C') :
    OwnOK P C' own := by
  cases hc with
  | inl hc => subst hc; exact h
  | inr hc =>
    obtain ⟨u, d, rfl, hP⟩ := hc
    intro w hw
    obtain ⟨e, he, hg⟩ := h w hw
    refine ⟨e, he, ?_⟩
    by_cases huw : u = w
    · subst huw; rw [hP e he]; simp
    · rw [Cache.get_set_ne _ _ huw]; exact hg

theorem CInv.set_loaded {C : Cache δ} (h : CInv P L V C) {u : Url} {d : δ} (hV : V u = .ok d) :
    CInv P L V (C.set u d) := by
  intro v hv
  rw [view_set]
  by_cases huv : u = v
  · subst huv; simp [hV]
  · simp [huv, h v hv]

theorem CInv.set_pseudo {C : Cache δ} (h : CInv P L V C) {u : Url} {d : δ} (hP : P u = some d) :
    CInv P L V (C.set u d) := by
  intro v hv
  rw [view_set]
  by_cases huv : u = v
  · subst huv; rw [hP] at hv; simp at hv
  · simp [huv, h v hv]

/-- One atomic action of a well-behaved thread keeps every invariant, and its write is compatible
(so the other threads' invariants survive too). -/
theorem step_good {C : Cache δ} {own : List Url} {s : TState δ ε α} {a : α}
    (hC : CInv P L V C) (hg : Good P L V own s a) (ho : OwnOK P C own) :
    CInv P L V (step C L s).1 ∧ Compat P C (step C L s).1 ∧
      ∃ own', Good P L V own' (step C L s).2.1 a ∧ OwnOK P (step C L s).1 own' := by
  cases s with
  | run p =>
    cases p with
    | ret b => exact ⟨hC, .inl rfl, own, hg, ho⟩
    | load u k =>
      simp only [Good] at hg
      cases hg with
      | loadOwn _ _ d _ _ hu hP hk =>
        obtain ⟨e, he, hget⟩ := ho u hu
        rw [hP] at he; cases he
        simp only [step, hget]
        exact ⟨hC, .inl rfl, own, hk, ho⟩
      | loadExt _ _ _ _ hP hk =>
        cases hget : C.get u with
        | some d =>
          simp only [step, hget]
          have : V u = .ok d := by rw [← hC u hP]; simp [view, hget]
          rw [this] at hk
          exact ⟨hC, .inl rfl, own, hk, ho⟩
        | none =>
          simp only [step, hget]
          have : L u = V u := by rw [← hC u hP]; simp [view, hget]
          exact ⟨hC, .inl rfl, own, ⟨hP, this, hk⟩, ho⟩
    | setPseudo u d k =>
      simp only [Good] at hg
      cases hg with
      | setPseudo _ _ _ _ _ hP hk =>
        simp only [step]
        have hc : Compat P C (C.set u d) := .inr ⟨u, d, rfl, fun e he => by rw [hP] at he; cases he; rfl⟩
        refine ⟨hC.set_pseudo hP, hc, u :: own, hk, ?_⟩
        intro w hw
        cases List.mem_cons.1 hw with
        | inl h => subst h; exact ⟨d, hP, by simp⟩
        | inr h => exact (ho.compat hc) w h
    | peek u k =>
      simp only [Good] at hg
      cases hg with
      | peekOwn _ _ d _ _ hu hP hk =>
        obtain ⟨e, he, hget⟩ := ho u hu
        rw [hP] at he; cases he
        simp only [step, hget]
        exact ⟨hC, .inl rfl, own, hk, ho⟩
  | fetching u k =>
    obtain ⟨hP, hLV, hk⟩ := hg
    cases hl : L u with
    | ok d =>
      simp only [step, hl]
      have hV : V u = .ok d := by rw [← hLV, hl]
      rw [hV] at hk
      exact ⟨hC, .inl rfl, own, ⟨hP, hl, hV, hk⟩, ho⟩
    | error e =>
      simp only [step, hl]
      have hV : V u = .error e := by rw [← hLV, hl]
      rw [hV] at hk
      exact ⟨hC, .inl rfl, own, hk, ho⟩
  | storing u d p =>
    obtain ⟨hP, hl, hV, hk⟩ := hg
    simp only [step]
    have hc : Compat P C (C.set u d) := .inr ⟨u, d, rfl, fun e he => by rw [hP] at he; cases he⟩
    exact ⟨hC.set_loaded hV, hc, own, hk, ho.compat hc⟩

/-- Alone on a cache satisfying the invariants, a thread on its ideal path gets the ideal result. -/
theorem ideal_runSeq {own : List Url} {p : Prog δ ε α} {a : α} (hi : Ideal P V own p a) :
    ∀ C : Cache δ, CInv P L V C → OwnOK P C own → (runSeq p C L).result = a := by
  induction hi with
  | ret own a => intros; rfl
  | loadOwn own u d k a hu hP _ ih =>
    intro C hC ho
    obtain ⟨e, he, hget⟩ := ho u hu
    rw [hP] at he; cases he
    rw [runSeq_load_hit hget]; exact ih C hC ho
  | loadExt own u k a hP _ ih =>
    intro C hC ho
    have hv := hC u hP
    cases hget : C.get u with
    | some d =>
      rw [runSeq_load_hit hget]
      have : V u = .ok d := by rw [← hv]; simp [view, hget]
      rw [this] at ih; exact ih C hC ho
    | none =>
      have hLV : L u = V u := by rw [← hv]; simp [view, hget]
      cases hl : L u with
      | ok d =>
        rw [runSeq_load_ok hget hl]
        have hV : V u = .ok d := by rw [← hLV, hl]
        rw [hV] at ih
        have hc : Compat P C (C.set u d) := .inr ⟨u, d, rfl, fun e he => by rw [hP] at he; cases he⟩
        exact ih _ (hC.set_loaded hV) (ho.compat hc)
      | error e =>
        rw [runSeq_load_err hget hl]
        have hV : V u = .error e := by rw [← hLV, hl]
        rw [hV] at ih; exact ih C hC ho
  | setPseudo own u d k a hP _ ih =>
    intro C hC ho
    simp only [runSeq_setPseudo, prepend_result]
    have hc : Compat P C (C.set u d) := .inr ⟨u, d, rfl, fun e he => by rw [hP] at he; cases he; rfl⟩
    apply ih _ (hC.set_pseudo hP)
    intro w hw
    cases List.mem_cons.1 hw with
    | inl h => subst h; exact ⟨d, hP, by simp⟩
    | inr h => exact (ho.compat hc) w h
  | peekOwn own u d k a hu hP _ ih =>
    intro C hC ho
    obtain ⟨e, he, hget⟩ := ho u hu
    rw [hP] at he; cases he
    simp only [runSeq_peek, prepend_result, hget]; exact ih C hC ho

theorem ideal_runSeq_init {p : Prog δ ε α} {a : α} {C₀ : Cache δ} (hi : Ideal P (view C₀ L) [] p a) :
    (runSeq p C₀ L).result = a :=
  ideal_runSeq hi C₀ (fun _ _ => rfl) (fun _ h => by simp at h)

/-- Programs that only `load` follow the discipline with the empty pseudo table, whatever the view. -/
theorem LoadOnly.ideal {p : Prog δ ε α} (hp : LoadOnly p) (V : Url → Except ε δ) :
    ∃ a, Ideal (fun _ => none) V [] p a := by
  induction hp with
  | ret a => exact ⟨a, .ret [] a⟩
  | load u k _ ih =>
    obtain ⟨a, ha⟩ := ih (V u)
    exact ⟨a, .loadExt [] u k a rfl ha⟩

end Discipline

/-! ### C17: configurations -/

theorem stepThread_of_get {c : Config δ ε α} {L : Url → Except ε δ} {i : Nat} {s : TState δ ε α}
    (h : c.threads[i]? = some s) :
    c.stepThread L i = ⟨c.threads.set i (step c.cache L s).2.1, (step c.cache L s).1,
      c.trace ++ (step c.cache L s).2.2.map (fun e => (i, e))⟩ := by
  simp [Config.stepThread, h]

theorem stepThread_of_none {c : Config δ ε α} {L : Url → Except ε δ} {i : Nat}
    (h : c.threads[i]? = none) : c.stepThread L i = c := by
  simp [Config.stepThread, h]

theorem stepThread_length (c : Config δ ε α) (L : Url → Except ε δ) (i : Nat) :
    (c.stepThread L i).threads.length = c.threads.length := by
  cases h : c.threads[i]? with
  | none => rw [stepThread_of_none h]
  | some s => rw [stepThread_of_get h]; simp

theorem stepThread_other (c : Config δ ε α) (L : Url → Except ε δ) {i j : Nat} (hij : i ≠ j) :
    (c.stepThread L i).threads[j]? = c.threads[j]? := by
  cases h : c.threads[i]? with
  | none => rw [stepThread_of_none h]
  | some s => rw [stepThread_of_get h]; simp [hij]

theorem stepThread_self {c : Config δ ε α} (L : Url → Except ε δ) {i : Nat} {s : TState δ ε α}
    (h : c.threads[i]? = some s) :
    (c.stepThread L i).threads[i]? = some (step c.cache L s).2.1 := by
  rw [stepThread_of_get h]
  have : i < c.threads.length := by
    rcases Nat.lt_or_ge i c.threads.length with h' | h'
    · exact h'
    · rw [List.getElem?_eq_none h'] at h; cases h
  simp [this]

theorem runSched_append (c : Config δ ε α) (L : Url → Except ε δ) (l₁ l₂ : List Nat) :
    runSched c L (l₁ ++ l₂) = runSched (runSched c L l₁) L l₂ := by
  induction l₁ generalizing c with
  | nil => rfl
  | cons i l ih => simp [runSched, ih]

theorem runSched_length (c : Config δ ε α) (L : Url → Except ε δ) (l : List Nat) :
    (runSched c L l).threads.length = c.threads.length := by
  induction l generalizing c with
  | nil => rfl
  | cons i l ih => simp [runSched, ih, stepThread_length]

section SchedInv
variable (P : Url → Option δ) (L : Url → Except ε δ) (V : Url → Except ε δ)

/-- Invariant of a shared-cache configuration whose thread `i` is heading for `as[i]`. -/
def SInv (as : List α) (c : Config δ ε α) : Prop :=
  CInv P L V c.cache ∧
    ∀ (i : Nat) (s : TState δ ε α), c.threads[i]? = some s → ∃ a own, as[i]? = some a ∧ Good P L V own s a ∧ OwnOK P c.cache own

variable {P L V}

theorem SInv.stepThread {as : List α} {c : Config δ ε α} (h : SInv P L V as c) (i : Nat) :
    SInv P L V as (c.stepThread L i) := by
  cases hi : c.threads[i]? with
  | none => rw [stepThread_of_none hi]; exact h
  | some s =>
    obtain ⟨hC, hT⟩ := h
    obtain ⟨a, own, ha, hg, ho⟩ := hT i s hi
    obtain ⟨hC', hcomp, own', hg', ho'⟩ := step_good hC hg ho
    refine ⟨by rw [stepThread_of_get hi]; exact hC', ?_⟩
    intro j sj hj
    by_cases hij : i = j
    · subst hij
      rw [stepThread_self L hi] at hj
      cases hj
      exact ⟨a, own', ha, hg', by rw [stepThread_of_get hi]; exact ho'⟩
    · rw [stepThread_other c L hij] at hj
      obtain ⟨b, ownj, hb, hgj, hoj⟩ := hT j sj hj
      exact ⟨b, ownj, hb, hgj, by rw [stepThread_of_get hi]; exact hoj.compat hcomp⟩

theorem SInv.runSched {as : List α} (sched : List Nat) :
    ∀ {c : Config δ ε α}, SInv P L V as c → SInv P L V as (runSched c L sched) := by
  induction sched with
  | nil => intro c h; exact h
  | cons i l ih => intro c h; exact ih (h.stepThread i)

theorem SInv.result {as : List α} {c : Config δ ε α} (h : SInv P L V as c) {i : Nat} {a : α}
    (hr : c.results[i]? = some (some a)) : as[i]? = some a := by
  simp only [Config.results, List.getElem?_map] at hr
  cases hs : c.threads[i]? with
  | none => simp [hs] at hr
  | some s =>
    simp only [hs, Option.map_some, Option.some.injEq] at hr
    obtain ⟨b, own, hb, hg, -⟩ := h.2 i s hs
    cases s with
    | run p =>
      cases p with
      | ret x =>
        simp only [TState.result?, Option.some.injEq] at hr; subst hr
        simp only [Good] at hg
        cases hg; exact hb
      | load _ _ => simp [TState.result?] at hr
      | setPseudo _ _ _ => simp [TState.result?] at hr
      | peek _ _ => simp [TState.result?] at hr
    | fetching _ _ => simp [TState.result?] at hr
    | storing _ _ _ => simp [TState.result?] at hr

end SchedInv

theorem sinv_init {P : Url → Option δ} {L : Url → Except ε δ} {C₀ : Cache δ} {ps : List (Prog δ ε α)}
    (h : ∀ p ∈ ps, ∃ a, Ideal P (view C₀ L) [] p a) :
    SInv P L (view C₀ L) (ps.map fun p => (runSeq p C₀ L).result) (Config.init ps C₀) := by
  refine ⟨fun _ _ => rfl, ?_⟩
  intro i s hs
  simp only [Config.init, List.getElem?_map] at hs
  cases hp : ps[i]? with
  | none => simp [hp] at hs
  | some p =>
    simp only [hp, Option.map_some, Option.some.injEq] at hs; subst hs
    obtain ⟨a, ha⟩ := h p (List.mem_of_getElem? hp)
    refine ⟨a, [], ?_, ha, fun _ hm => by simp at hm⟩
    simp [hp, ideal_runSeq_init ha]

/-! ### C17: progress and termination -/

theorem step_finished {C : Cache δ} {L : Url → Except ε δ} {s : TState δ ε α} (h : s.finished = true) :
    step C L s = (C, s, []) := by
  cases s with
  | run p => cases p <;> simp_all [TState.finished, step]
  | fetching _ _ => simp [TState.finished] at h
  | storing _ _ _ => simp [TState.finished] at h

/-- An unfinished thread performs exactly one atomic action when scheduled. -/
theorem step_one_event (C : Cache δ) (L : Url → Except ε δ) {s : TState δ ε α} (h : s.finished = false) :
    ∃ e, (step C L s).2.2 = [e] := by
  cases s with
  | run p =>
    cases p with
    | ret a => simp [TState.finished] at h
    | load u k => simp only [step]; cases C.get u <;> simp
    | setPseudo u d k => simp [step]
    | peek u k => simp [step]
  | fetching u k => simp only [step]; cases L u <;> simp
  | storing u d p => simp [step]

theorem acc_run (p : Prog δ ε α) : Acc Next (TState.run p : TState δ ε α) := by
  induction p with
  | ret a =>
    constructor; intro s' ⟨hf, _⟩; simp [TState.finished] at hf
  | load u k ih =>
    have hst : ∀ d, Acc Next (TState.storing u d (k (.ok d)) : TState δ ε α) := by
      intro d; constructor; intro s' ⟨_, C, L, hs⟩
      simp only [step] at hs; subst hs; exact ih _
    have hfe : Acc Next (TState.fetching u k : TState δ ε α) := by
      constructor; intro s' ⟨_, C, L, hs⟩
      simp only [step] at hs
      cases hl : L u with
      | ok d => simp only [hl] at hs; subst hs; exact hst d
      | error e => simp only [hl] at hs; subst hs; exact ih _
    constructor; intro s' ⟨_, C, L, hs⟩
    simp only [step] at hs
    cases hg : C.get u with
    | some d => simp only [hg] at hs; subst hs; exact ih _
    | none => simp only [hg] at hs; subst hs; exact hfe
  | setPseudo u d k ih =>
    constructor; intro s' ⟨_, C, L, hs⟩
    simp only [step] at hs; subst hs; exact ih _
  | peek u k ih =>
    constructor; intro s' ⟨_, C, L, hs⟩
    simp only [step] at hs; subst hs; exact ih _

/-- No thread can perform infinitely many actions, whatever the other threads and the loader do. -/
theorem next_wf : WellFounded (Next : TState δ ε α → TState δ ε α → Prop) := by
  constructor
  intro s
  cases s with
  | run p => exact acc_run p
  | fetching u k =>
    constructor; intro s' ⟨_, C, L, hs⟩
    simp only [step] at hs
    cases hl : L u with
    | ok d =>
      simp only [hl] at hs; subst hs
      constructor; intro s'' ⟨_, C', L', hs'⟩
      simp only [step] at hs'; subst hs'; exact acc_run _
    | error e => simp only [hl] at hs; subst hs; exact acc_run _
  | storing u d p =>
    constructor; intro s' ⟨_, C, L, hs⟩
    simp only [step] at hs; subst hs; exact acc_run _

/-- The first `n` choices of an infinite schedule. -/
def schedPrefix (σ : Nat → Nat) (n : Nat) : List Nat := (List.range n).map σ

theorem schedPrefix_succ (σ : Nat → Nat) (n : Nat) : schedPrefix σ (n + 1) = schedPrefix σ n ++ [σ n] := by
  simp [schedPrefix, List.range_succ]

theorem runSched_prefix_succ (c : Config δ ε α) (L : Url → Except ε δ) (σ : Nat → Nat) (n : Nat) :
    runSched c L (schedPrefix σ (n + 1)) = (runSched c L (schedPrefix σ n)).stepThread L (σ n) := by
  rw [schedPrefix_succ, runSched_append]; rfl

/-- Every thread is scheduled again and again. -/
def Fair (n : Nat) (σ : Nat → Nat) : Prop := ∀ i, i < n → ∀ t, ∃ t', t ≤ t' ∧ σ t' = i

theorem finished_stays (c : Config δ ε α) (L : Url → Except ε δ) (σ : Nat → Nat) {i : Nat} {s : TState δ ε α}
    (hf : s.finished = true) :
    ∀ (d t : Nat), (runSched c L (schedPrefix σ t)).threads[i]? = some s →
      (runSched c L (schedPrefix σ (t + d))).threads[i]? = some s := by
  intro d
  induction d with
  | zero => intro t h; exact h
  | succ d ih =>
    intro t h
    have := ih t h
    rw [← Nat.add_assoc, runSched_prefix_succ]
    by_cases hi : σ (t + d) = i
    · rw [hi, stepThread_self L this, step_finished hf]
    · rw [stepThread_other _ L hi]; exact this

theorem thread_terminates (c : Config δ ε α) (L : Url → Except ε δ) (σ : Nat → Nat) (i : Nat)
    (hfair : ∀ t, ∃ t', t ≤ t' ∧ σ t' = i) (s : TState δ ε α) :
    ∀ t, (runSched c L (schedPrefix σ t)).threads[i]? = some s →
      ∃ N s', (runSched c L (schedPrefix σ N)).threads[i]? = some s' ∧ s'.finished = true := by
  induction s using next_wf.induction with
  | _ s ih =>
    intro t ht
    cases hf : s.finished with
    | true => exact ⟨t, s, ht, hf⟩
    | false =>
      obtain ⟨t', hle, ht'⟩ := hfair t
      -- walk from `t` to the next time `i` is scheduled
      have walk : ∀ (d t : Nat), t + d = t' → (runSched c L (schedPrefix σ t)).threads[i]? = some s →
          ∃ N s', (runSched c L (schedPrefix σ N)).threads[i]? = some s' ∧ s'.finished = true := by
        intro d
        induction d with
        | zero =>
          intro t htt hs
          have htt : t = t' := by omega
          subst htt
          have h1 := runSched_prefix_succ c L σ t
          have h2 : (runSched c L (schedPrefix σ (t + 1))).threads[i]? =
              some (step (runSched c L (schedPrefix σ t)).cache L s).2.1 := by
            rw [h1, ht', stepThread_self L hs]
          exact ih _ ⟨hf, _, L, rfl⟩ (t + 1) h2
        | succ d ihd =>
          intro t htt hs
          have h1 := runSched_prefix_succ c L σ t
          by_cases hi : σ t = i
          · have h2 : (runSched c L (schedPrefix σ (t + 1))).threads[i]? =
                some (step (runSched c L (schedPrefix σ t)).cache L s).2.1 := by
              rw [h1, hi, stepThread_self L hs]
            exact ih _ ⟨hf, _, L, rfl⟩ (t + 1) h2
          · apply ihd (t + 1) (by omega)
            rw [h1, stepThread_other _ L hi]; exact hs
      exact walk (t' - t) t (by omega) ht

theorem all_terminate (c : Config δ ε α) (L : Url → Except ε δ) (σ : Nat → Nat)
    (hfair : Fair c.threads.length σ) :
    ∀ m, m ≤ c.threads.length → ∃ N, ∀ N', N ≤ N' → ∀ i, i < m →
      ∃ s, (runSched c L (schedPrefix σ N')).threads[i]? = some s ∧ s.finished = true := by
  intro m
  induction m with
  | zero => intro _; exact ⟨0, fun _ _ i hi => absurd hi (Nat.not_lt_zero i)⟩
  | succ m ih =>
    intro hm
    obtain ⟨N, hN⟩ := ih (by omega)
    have hlt : m < (runSched c L (schedPrefix σ 0)).threads.length := by
      rw [runSched_length]; omega
    obtain ⟨Nm, s', hs', hf'⟩ :=
      thread_terminates c L σ m (hfair m (by omega)) _ 0 (List.getElem?_eq_getElem hlt)
    refine ⟨max N Nm, ?_⟩
    intro N' hN' i hi
    by_cases him : i = m
    · subst him
      have := finished_stays c L σ hf' (N' - Nm) Nm hs'
      rw [show Nm + (N' - Nm) = N' by omega] at this
      exact ⟨s', this, hf'⟩
    · exact hN N' (by omega) i (by omega)

theorem allFinished_of_index {c : Config δ ε α}
    (h : ∀ i, i < c.threads.length → ∃ s, c.threads[i]? = some s ∧ s.finished = true) :
    c.allFinished = true := by
  simp only [Config.allFinished, List.all_eq_true]
  intro s hs
  obtain ⟨i, hi, rfl⟩ := List.getElem_of_mem hs
  obtain ⟨s', hs', hf⟩ := h i hi
  rw [List.getElem?_eq_getElem hi] at hs'
  cases hs'; exact hf

/-! ### C18: a chain of calls on one cache object -/

theorem checkTrace_append {keys k1 : List Url} {ph p1 : Phase} {i : Nat} {t1 : List Event}
    (h : checkTrace keys ph i t1 = .ok (k1, p1)) (t2 : List Event) :
    checkTrace keys ph i (t1 ++ t2) = checkTrace k1 p1 (i + t1.length) t2 := by
  induction t1 generalizing keys ph i with
  | nil => simp only [checkTrace] at h; cases h; rfl
  | cons e t ih =>
    obtain ⟨k', p', he, ht⟩ := checkTrace_cons_inv h
    rw [List.cons_append, checkTrace_cons_ok he, ih ht]
    simp [Nat.add_assoc, Nat.add_comm 1]

/-- All traces of a chain, concatenated. -/
def chainTrace (rs : List (Run δ α)) : List Event := rs.flatMap (·.trace)

theorem chain_trace_ok (ps : List (Prog δ ε α)) (L : Url → Except ε δ) :
    ∀ (C : Cache δ) (keys : List Url) (ph : Phase) (i : Nat), KeysEq keys C → phaseFinal ph = true →
      ∃ keys' ph', checkTrace keys ph i (chainTrace (runMany ps C L)) = .ok (keys', ph') ∧
        phaseFinal ph' = true := by
  induction ps with
  | nil => intro C keys ph i _ hp; exact ⟨keys, ph, rfl, hp⟩
  | cons p ps ih =>
    intro C keys ph i hk hp
    obtain ⟨k1, p1, h1, hk1, hp1⟩ := trace_ok p C L keys ph i hk hp
    obtain ⟨k2, p2, h2, hp2⟩ := ih (runSeq p C L).cache k1 p1 (i + (runSeq p C L).trace.length) hk1 hp1
    refine ⟨k2, p2, ?_, hp2⟩
    simp only [runMany, chainTrace, List.flatMap_cons]
    rw [checkTrace_append h1]; exact h2

theorem okFetches_append (t1 t2 : List Event) : okFetches (t1 ++ t2) = okFetches t1 ++ okFetches t2 := by
  induction t1 with
  | nil => rfl
  | cons e t ih =>
    cases e with
    | get u b => simpa using ih
    | set u => simpa using ih
    | fetch u b => cases b <;> simpa using ih

theorem fetches_append (t1 t2 : List Event) : fetches (t1 ++ t2) = fetches t1 ++ fetches t2 := by
  induction t1 with
  | nil => rfl
  | cons e t ih => cases e <;> simpa using ih

theorem runMany_coherent (ps : List (Prog δ ε α)) (L : Url → Except ε δ) (hps : ∀ p ∈ ps, LoadOnly p) :
    ∀ C : Cache δ, Coherent C L [] →
      Coherent (lastCache C (runMany ps C L)) L [] ∧
      ∀ (i : Nat) (p : Prog δ ε α), ps[i]? = some p →
        ∃ r, (runMany ps C L)[i]? = some r ∧ r.result = (runSeq p [] L).result := by
  induction ps with
  | nil => intro C h; exact ⟨h, by simp⟩
  | cons p ps ih =>
    intro C h
    have hp : LoadOnly p := hps p (by simp)
    have hc : Coherent (runSeq p C L).cache L [] := by
      have := coherent_runSeq p C L [] h
      simpa [pseudo_nil_of_loadOnly hp] using this
    obtain ⟨h1, h2⟩ := ih (fun q hq => hps q (by simp [hq])) _ hc
    refine ⟨h1, ?_⟩
    intro i q hi
    cases i with
    | zero =>
      simp at hi; subst hi
      refine ⟨runSeq p C L, rfl, ?_⟩
      apply result_congr_view hp.peekFree
      rw [(coherent_nil_iff C L).1 h, view_nil]
    | succ n => simp at hi; simpa [runMany] using h2 n q hi

/-! ### C17: traces of the concurrent semantics are accepted by the multi-thread validator -/

theorem checkTraceMT_append {keys k1 : List Url} {phs ph1 : List (Nat × Phase)} {i : Nat} {t1 : List (Nat × Event)}
    (h : checkTraceMT keys phs i t1 = .ok (k1, ph1)) (t2 : List (Nat × Event)) :
    checkTraceMT keys phs i (t1 ++ t2) = checkTraceMT k1 ph1 (i + t1.length) t2 := by
  induction t1 generalizing keys phs i with
  | nil => simp only [checkTraceMT] at h; cases h; rfl
  | cons x t ih =>
    obtain ⟨j, e⟩ := x
    simp only [checkTraceMT] at h
    simp only [List.cons_append, checkTraceMT]
    split at h
    · simp at h
    · rename_i k' p' he
      rw [ih h]
      simp [Nat.add_assoc, Nat.add_comm 1]

theorem checkTraceMT_single {keys k1 : List Url} {phs : List (Nat × Phase)} {p1 : Phase} {i : Nat} {e : Event}
    (h : checkEvent keys (phaseOf phs i) e = .ok (k1, p1)) (idx : Nat) :
    checkTraceMT keys phs idx [(i, e)] = .ok (k1, (i, p1) :: phs) := by
  simp [checkTraceMT, h]

/-- The validator's phase for a thread matches the thread's state. -/
def PhaseMatch : TState δ ε α → Phase → Prop
  | .run _, ph => phaseFinal ph = true
  | .fetching u _, ph => ph = .missed u
  | .storing u _ _, ph => ph = .fetched u

theorem phaseOf_cons_self (phs : List (Nat × Phase)) (i : Nat) (ph : Phase) : phaseOf ((i, ph) :: phs) i = ph := by
  simp [phaseOf]

theorem phaseOf_cons_ne (phs : List (Nat × Phase)) {i j : Nat} (ph : Phase) (h : i ≠ j) :
    phaseOf ((i, ph) :: phs) j = phaseOf phs j := by
  simp [phaseOf, h]

/-- One step of one thread, seen by the validator. -/
theorem step_checked {C : Cache δ} (L : Url → Except ε δ) {s : TState δ ε α} {keys : List Url} {ph : Phase}
    (hk : KeysEq keys C) (hm : PhaseMatch s ph) (hf : s.finished = false) :
    ∃ e keys' ph', (step C L s).2.2 = [e] ∧ checkEvent keys ph e = .ok (keys', ph') ∧
      KeysEq keys' (step C L s).1 ∧ PhaseMatch (step C L s).2.1 ph' := by
  cases s with
  | run p =>
    simp only [PhaseMatch] at hm
    cases p with
    | ret a => simp [TState.finished] at hf
    | load u k =>
      cases hg : C.get u with
      | some d =>
        have hu : u ∈ keys := (hk u).2 (Cache.mem_keys_of_get hg)
        exact ⟨_, _, _, by simp [step, hg], checkEvent_get_hit hm hu, by simpa [step, hg] using hk,
          by simp [step, hg, PhaseMatch, phaseFinal]⟩
      | none =>
        have hu : u ∉ keys := fun h => (Cache.get_eq_none_iff C u).1 hg ((hk u).1 h)
        exact ⟨_, _, _, by simp [step, hg], checkEvent_get_miss hm hu, by simpa [step, hg] using hk,
          by simp [step, hg, PhaseMatch]⟩
    | setPseudo u d k =>
      exact ⟨_, _, _, by simp [step], checkEvent_set hm u, by simpa [step] using hk.set u d,
        by simp [step, PhaseMatch, phaseFinal]⟩
    | peek u k =>
      cases hg : C.get u with
      | some d =>
        have hu : u ∈ keys := (hk u).2 (Cache.mem_keys_of_get hg)
        exact ⟨_, _, _, by simp [step, hg], checkEvent_get_hit hm hu, by simpa [step, hg] using hk,
          by simp [step, PhaseMatch, phaseFinal]⟩
      | none =>
        have hu : u ∉ keys := fun h => (Cache.get_eq_none_iff C u).1 hg ((hk u).1 h)
        exact ⟨_, _, _, by simp [step, hg], checkEvent_get_miss hm hu, by simpa [step, hg] using hk,
          by simp [step, PhaseMatch, phaseFinal]⟩
  | fetching u k =>
    simp only [PhaseMatch] at hm; subst hm
    cases hl : L u with
    | ok d =>
      exact ⟨_, _, _, by simp [step, hl], checkEvent_fetch keys u true, by simpa [step, hl] using hk,
        by simp [step, hl, PhaseMatch]⟩
    | error e =>
      exact ⟨_, _, _, by simp [step, hl], checkEvent_fetch keys u false, by simpa [step, hl] using hk,
        by simp [step, hl, PhaseMatch, phaseFinal]⟩
  | storing u d p =>
    simp only [PhaseMatch] at hm; subst hm
    exact ⟨_, _, _, by simp [step], checkEvent_store keys u, by simpa [step] using hk.set u d,
      by simp [step, PhaseMatch, phaseFinal]⟩

/-- Invariant tying a configuration to the validator's state after reading its trace. -/
def MTInv (keys0 : List Url) (c : Config δ ε α) : Prop :=
  ∃ keys phs, checkTraceMT keys0 [] 0 c.trace = .ok (keys, phs) ∧ KeysEq keys c.cache ∧
    (∀ (i : Nat) (s : TState δ ε α), c.threads[i]? = some s → PhaseMatch s (phaseOf phs i)) ∧
    (∀ i : Nat, c.threads[i]? = none → phaseOf phs i = .idle)

theorem MTInv.stepThread {keys0 : List Url} {c : Config δ ε α} (h : MTInv keys0 c) (L : Url → Except ε δ) (i : Nat) :
    MTInv keys0 (c.stepThread L i) := by
  cases hi : c.threads[i]? with
  | none => rw [stepThread_of_none hi]; exact h
  | some s =>
    cases hf : s.finished with
    | true =>
      have : c.stepThread L i = c := by
        rw [stepThread_of_get hi, step_finished hf]
        have hset : c.threads.set i s = c.threads := by
          apply List.ext_getElem?
          intro j
          by_cases hij : i = j
          · subst hij; rw [List.getElem?_set]; simp [hi]
            rcases Nat.lt_or_ge i c.threads.length with hlt | hlt
            · exact hlt
            · rw [List.getElem?_eq_none hlt] at hi; cases hi
          · simp [hij]
        rw [hset]
        cases c; simp
      rw [this]; exact h
    | false =>
      obtain ⟨keys, phs, hc, hk, hm, hn⟩ := h
      obtain ⟨e, keys', ph', he, hce, hk', hm'⟩ := step_checked L hk (hm i s hi) hf
      refine ⟨keys', (i, ph') :: phs, ?_, ?_, ?_, ?_⟩
      · rw [stepThread_of_get hi, he]
        simp only [List.map_cons, List.map_nil]
        rw [checkTraceMT_append hc, checkTraceMT_single hce]
      · rw [stepThread_of_get hi]; exact hk'
      · intro j sj hj
        by_cases hij : i = j
        · subst hij
          rw [stepThread_self L hi] at hj; cases hj
          rw [phaseOf_cons_self]; exact hm'
        · rw [stepThread_other c L hij] at hj
          rw [phaseOf_cons_ne _ _ hij]; exact hm j sj hj
      · intro j hj
        by_cases hij : i = j
        · subst hij; rw [stepThread_self L hi] at hj; cases hj
        · rw [stepThread_other c L hij] at hj
          rw [phaseOf_cons_ne _ _ hij]; exact hn j hj

theorem MTInv.runSched {keys0 : List Url} (L : Url → Except ε δ) (sched : List Nat) :
    ∀ {c : Config δ ε α}, MTInv keys0 c → MTInv keys0 (runSched c L sched) := by
  induction sched with
  | nil => intro c h; exact h
  | cons i l ih => intro c h; exact ih (h.stepThread L i)

theorem mtinv_init (ps : List (Prog δ ε α)) (C : Cache δ) : MTInv C.keys (Config.init ps C) := by
  refine ⟨C.keys, [], rfl, KeysEq.refl C, ?_, fun _ _ => rfl⟩
  intro i s hs
  simp only [Config.init, List.getElem?_map] at hs
  cases hp : ps[i]? with
  | none => simp [hp] at hs
  | some p => simp only [hp, Option.map_some, Option.some.injEq] at hs; subst hs; rfl

theorem phaseMatch_finished {s : TState δ ε α} {ph : Phase} (hf : s.finished = true) (hm : PhaseMatch s ph) :
    phaseFinal ph = true := by
  cases s with
  | run p => exact hm
  | fetching _ _ => simp [TState.finished] at hf
  | storing _ _ _ => simp [TState.finished] at hf

/-! ### The two semantics agree: one thread alone, stepped to completion, is `runSeq` -/

theorem runSched_cons_replicate (c : Config δ ε α) (L : Url → Except ε δ) (n : Nat) :
    runSched c L (List.replicate (n + 1) 0) = runSched (c.stepThread L 0) L (List.replicate n 0) := rfl

theorem runSched_solo (p : Prog δ ε α) (L : Url → Except ε δ) :
    ∀ (C : Cache δ) (tr : List (Nat × Event)),
      ∃ n, runSched ⟨[.run p], C, tr⟩ L (List.replicate n 0) =
        ⟨[.run (.ret (runSeq p C L).result)], (runSeq p C L).cache,
          tr ++ (runSeq p C L).trace.map (fun e => (0, e))⟩ := by
  induction p with
  | ret a => intro C tr; exact ⟨0, by simp [runSched]⟩
  | load u k ih =>
    intro C tr
    cases hg : C.get u with
    | some d =>
      obtain ⟨n, hn⟩ := ih (.ok d) C (tr ++ [(0, .get u true)])
      refine ⟨n + 1, ?_⟩
      rw [runSched_cons_replicate, runSeq_load_hit hg]
      simp only [Config.stepThread, List.getElem?_cons_zero, step, hg, List.set_cons_zero, List.map_cons,
        List.map_nil]
      rw [hn]; simp
    | none =>
      cases hl : L u with
      | ok d =>
        obtain ⟨n, hn⟩ := ih (.ok d) (C.set u d) (tr ++ [(0, .get u false)] ++ [(0, .fetch u true)] ++ [(0, .set u)])
        refine ⟨n + 3, ?_⟩
        rw [runSched_cons_replicate, runSched_cons_replicate, runSched_cons_replicate, runSeq_load_ok hg hl]
        simp only [Config.stepThread, List.getElem?_cons_zero, step, hg, hl, List.set_cons_zero, List.map_cons,
          List.map_nil]
        rw [hn]; simp
      | error e =>
        obtain ⟨n, hn⟩ := ih (.error e) C (tr ++ [(0, .get u false)] ++ [(0, .fetch u false)])
        refine ⟨n + 2, ?_⟩
        rw [runSched_cons_replicate, runSched_cons_replicate, runSeq_load_err hg hl]
        simp only [Config.stepThread, List.getElem?_cons_zero, step, hg, hl, List.set_cons_zero, List.map_cons,
          List.map_nil]
        rw [hn]; simp
  | setPseudo u d k ih =>
    intro C tr
    obtain ⟨n, hn⟩ := ih () (C.set u d) (tr ++ [(0, .set u)])
    refine ⟨n + 1, ?_⟩
    rw [runSched_cons_replicate, runSeq_setPseudo]
    simp only [Config.stepThread, List.getElem?_cons_zero, step, List.set_cons_zero, List.map_cons, List.map_nil]
    rw [hn]; simp
  | peek u k ih =>
    intro C tr
    obtain ⟨n, hn⟩ := ih (C.get u) C (tr ++ [(0, .get u (C.get u).isSome)])
    refine ⟨n + 1, ?_⟩
    rw [runSched_cons_replicate, runSeq_peek]
    simp only [Config.stepThread, List.getElem?_cons_zero, step, List.set_cons_zero, List.map_cons, List.map_nil]
    rw [hn]; simp

end SpecModel.Cache
