/-
Driver ops for C20: run a sequence of accessor calls on the *generated* definitions.
-/
import SpecModel.Wire
import SpecModel.Generated.Validations

namespace SpecModel.ValidationsOps
open SpecModel SpecModel.Gen SpecModel.ValidationsPrelude

def optInt (j : Json) (k : String) : Except String (Option Int) :=
  match j.get? k with
  | none | some .null => pure none
  | some (.num n) => pure (some n)
  | _ => throw s!"bad-op:{k}"

def boolOf (j : Json) (k : String) : Except String Bool :=
  match j.get? k with
  | none => pure false
  | some (.bool b) => pure b
  | _ => throw s!"bad-op:{k}"

def strOf (j : Json) (k : String) : Except String String :=
  match j.get? k with
  | none => pure ""
  | some (.str b) => pure b
  | _ => throw s!"bad-op:{k}"

def listOf (j : Json) (k : String) : Except String (Option (List String)) :=
  match j.get? k with
  | none | some .null => pure none
  | some (.arr xs) => do
      let ys ← xs.mapM fun x => match x with | .str s => pure s | _ => throw s!"bad-op:{k}"
      pure (some ys)
  | _ => throw s!"bad-op:{k}"

def propsOf (j : Json) (k : String) : Except String (Option (List (String × String))) :=
  match j.get? k with
  | none | some .null => pure none
  | some (.arr xs) => do
      let ys ← xs.mapM fun x => match x with
        | .arr [.str a, .str b] => pure (a, b)
        | _ => throw s!"bad-op:{k}"
      pure (some ys)
  | _ => throw s!"bad-op:{k}"

def readCommon (j : Json) : Except String CommonValidations := do
  pure { Maximum := ← optInt j "maximum", ExclusiveMaximum := ← boolOf j "exclusiveMaximum",
         Minimum := ← optInt j "minimum", ExclusiveMinimum := ← boolOf j "exclusiveMinimum",
         MaxLength := ← optInt j "maxLength", MinLength := ← optInt j "minLength", Pattern := ← strOf j "pattern",
         MaxItems := ← optInt j "maxItems", MinItems := ← optInt j "minItems", UniqueItems := ← boolOf j "uniqueItems",
         MultipleOf := ← optInt j "multipleOf", Enum := ← listOf j "enum" }

def readSV (j : Json) : Except String SchemaValidations := do
  pure { CommonValidations := ← readCommon j, PatternProperties := ← propsOf j "patternProperties",
         MaxProperties := ← optInt j "maxProperties", MinProperties := ← optInt j "minProperties" }

def jOptInt : Option Int → Json
  | none => .null
  | some n => .num n
def jList : Option (List String) → Json
  | none => .null
  | some l => .arr (l.map .str)
def jProps : Option (List (String × String)) → Json
  | none => .null
  | some l => .arr (l.map fun p => .arr [.str p.1, .str p.2])

def showCommon (v : CommonValidations) : List (String × Json) :=
  [("maximum", jOptInt v.Maximum), ("exclusiveMaximum", .bool v.ExclusiveMaximum), ("minimum", jOptInt v.Minimum),
   ("exclusiveMinimum", .bool v.ExclusiveMinimum), ("maxLength", jOptInt v.MaxLength), ("minLength", jOptInt v.MinLength),
   ("pattern", .str v.Pattern), ("maxItems", jOptInt v.MaxItems), ("minItems", jOptInt v.MinItems),
   ("uniqueItems", .bool v.UniqueItems), ("multipleOf", jOptInt v.MultipleOf), ("enum", jList v.Enum)]

def showSV (v : SchemaValidations) : Json :=
  .obj (showCommon v.CommonValidations ++
    [("patternProperties", jProps v.PatternProperties), ("maxProperties", jOptInt v.MaxProperties),
     ("minProperties", jOptInt v.MinProperties)])

def showVal : Val → Json
  | .optInt v => jOptInt v
  | .bool b => .bool b
  | .str s => .str s
  | .list l => jList l
  | .props p => jProps p
  | .opaque o => .obj [("opaque", .num o.id)]

def showTrace (t : List (Nat × String × Val)) : Json :=
  .arr (t.map fun c => .arr [.num c.1, .str c.2.1, showVal c.2.2])

/-- The carrier kinds, with the rest of the object held at its zero value except for one marker field
(`description`-like) so that "every other field untouched" is observable. -/
inductive Carrier where
  | common (v : CommonValidations)
  | sv (v : SchemaValidations)
  | schema (s : Schema)
  | parameter (p : Parameter)
  | header (h : Header)
  | items (i : Items)

def svOfSchema (s : Schema) : SchemaValidations := s.Validations

def Carrier.validations : Carrier → SchemaValidations
  | .common v => v.Validations
  | .sv v => v.Validations
  | .schema s => s.Validations
  | .parameter p => p.Validations
  | .header h => h.Validations
  | .items i => i.Validations

def Carrier.set (val : SchemaValidations) : Carrier → Carrier
  | .common v => .common (v.SetValidations val)
  | .sv v => .sv (v.SetValidations val)
  | .schema s => .schema (s.SetValidations val)
  | .parameter p => .parameter (p.SetValidations val)
  | .header h => .header (h.SetValidations val)
  | .items i => .items (i.SetValidations val)

def Carrier.clear (fam : String) (ncb : Nat) : Carrier → Except String (Carrier × List (Nat × String × Val))
  | .common v => match fam with
      | "number" => let r := v.ClearNumberValidations ncb; pure (.common r.1, r.2)
      | "string" => let r := v.ClearStringValidations ncb; pure (.common r.1, r.2)
      | "array" => let r := v.ClearArrayValidations ncb; pure (.common r.1, r.2)
      | _ => throw "no-such-method"
  | .sv v => match fam with
      | "number" => let r := v.CommonValidations.ClearNumberValidations ncb; pure (.sv { v with CommonValidations := r.1 }, r.2)
      | "string" => let r := v.CommonValidations.ClearStringValidations ncb; pure (.sv { v with CommonValidations := r.1 }, r.2)
      | "array" => let r := v.CommonValidations.ClearArrayValidations ncb; pure (.sv { v with CommonValidations := r.1 }, r.2)
      | "object" => let r := v.ClearObjectValidations ncb; pure (.sv r.1, r.2)
      | _ => throw "no-such-method"
  | .schema _ => throw "no-such-method"
  | .parameter p => match fam with
      | "number" => let r := p.ClearNumberValidations ncb; pure (.parameter r.1, r.2)
      | "string" => let r := p.ClearStringValidations ncb; pure (.parameter r.1, r.2)
      | "array" => let r := p.ClearArrayValidations ncb; pure (.parameter r.1, r.2)
      | _ => throw "no-such-method"
  | .header p => match fam with
      | "number" => let r := p.ClearNumberValidations ncb; pure (.header r.1, r.2)
      | "string" => let r := p.ClearStringValidations ncb; pure (.header r.1, r.2)
      | "array" => let r := p.ClearArrayValidations ncb; pure (.header r.1, r.2)
      | _ => throw "no-such-method"
  | .items p => match fam with
      | "number" => let r := p.ClearNumberValidations ncb; pure (.items r.1, r.2)
      | "string" => let r := p.ClearStringValidations ncb; pure (.items r.1, r.2)
      | "array" => let r := p.ClearArrayValidations ncb; pure (.items r.1, r.2)
      | _ => throw "no-such-method"

def Carrier.has : Carrier → Json
  | .common v => .arr [.bool v.HasNumberValidations, .bool v.HasStringValidations, .bool v.HasArrayValidations, .bool v.HasEnum]
  | .sv v => .arr [.bool v.CommonValidations.HasNumberValidations, .bool v.CommonValidations.HasStringValidations,
                  .bool v.CommonValidations.HasArrayValidations, .bool v.CommonValidations.HasEnum, .bool v.HasObjectValidations]
  | .schema _ => .arr []
  | .parameter v => .arr [.bool v.HasNumberValidations, .bool v.HasStringValidations, .bool v.HasArrayValidations, .bool v.HasEnum]
  | .header v => .arr [.bool v.HasNumberValidations, .bool v.HasStringValidations, .bool v.HasArrayValidations, .bool v.HasEnum]
  | .items v => .arr [.bool v.HasNumberValidations, .bool v.HasStringValidations, .bool v.HasArrayValidations, .bool v.HasEnum]

/-- The non-validation part of a carrier, rendered so that "other fields untouched" is observable:
the harness sets `description`/`title`/`name` markers. -/
def Carrier.marker : Carrier → Json
  | .common _ | .sv _ => .null
  | .schema s => .arr [.str s.SchemaProps.Title, .str s.SchemaProps.Description, .str s.SchemaProps.Format,
                       .bool s.SchemaProps.Nullable, .str s.SwaggerSchemaProps.Discriminator, .bool s.SwaggerSchemaProps.ReadOnly]
  | .parameter p => .arr [.str p.ParamProps.Name, .str p.ParamProps.In, .str p.ParamProps.Description, .bool p.ParamProps.Required,
                          .str p.SimpleSchema.«Type», .str p.SimpleSchema.Format, .str p.SimpleSchema.CollectionFormat]
  | .header h => .arr [.str h.HeaderProps.Description, .str h.SimpleSchema.«Type», .str h.SimpleSchema.Format,
                       .str h.SimpleSchema.CollectionFormat]
  | .items i => .arr [.str i.SimpleSchema.«Type», .str i.SimpleSchema.Format, .str i.SimpleSchema.CollectionFormat]

def mkCarrier (kind : String) (init : SchemaValidations) (m : List String) : Except String Carrier :=
  let g (i : Nat) : String := m.getD i ""
  match kind with
  | "common" => pure (.common init.CommonValidations)
  | "sv" => pure (.sv init)
  | "schema" =>
      let s := Schema.zero
      let s := { s with SchemaProps := { s.SchemaProps with Title := g 0, Description := g 1, Format := g 2, Nullable := true },
                        SwaggerSchemaProps := { s.SwaggerSchemaProps with Discriminator := g 3, ReadOnly := true } }
      pure (.schema (s.SetValidations init))
  | "parameter" =>
      let p := Parameter.zero
      let p := { p with ParamProps := { p.ParamProps with Name := g 0, In := g 1, Description := g 2, Required := true },
                        SimpleSchema := { p.SimpleSchema with «Type» := g 3, Format := g 4, CollectionFormat := g 5 },
                        CommonValidations := init.CommonValidations }
      pure (.parameter p)
  | "header" =>
      let h := Header.zero
      let h := { h with HeaderProps := { h.HeaderProps with Description := g 0 },
                        SimpleSchema := { h.SimpleSchema with «Type» := g 1, Format := g 2, CollectionFormat := g 3 },
                        CommonValidations := init.CommonValidations }
      pure (.header h)
  | "items" =>
      let i := Items.zero
      let i := { i with SimpleSchema := { i.SimpleSchema with «Type» := g 0, Format := g 1, CollectionFormat := g 2 },
                        CommonValidations := init.CommonValidations }
      pure (.items i)
  | _ => throw "bad-op:carrier"

/-- One step: ["set", sv] | ["get"] | ["clear", family, ncb] | ["has"]; each yields one output entry. -/
def step (c : Carrier) (s : Json) : Except String (Carrier × Json) :=
  match s with
  | .arr [.str "set", v] => do
      let val ← readSV v
      pure (c.set val, .str "ok")
  | .arr [.str "get"] => pure (c, showSV c.validations)
  | .arr [.str "has"] => pure (c, c.has)
  | .arr [.str "clear", .str fam, .num n] => do
      match c.clear fam n.toNat with
      | .ok (c', t) => pure (c', showTrace t)
      | .error e => pure (c, .str e)
  | _ => throw "bad-op:step"

def runSteps (c : Carrier) : List Json → Except String (List Json × Carrier)
  | [] => pure ([], c)
  | s :: rest => do
      let (c', o) ← step c s
      let (os, cf) ← runSteps c' rest
      pure (o :: os, cf)

def op (j : Lean.Json) : Except String String := do
  let kind ← Wire.strField j "carrier"
  let init ← readSV (← Wire.jsonField j "init")
  let markers ← Wire.strList j "markers"
  let steps ← match (← Wire.jsonField j "steps") with
    | .arr xs => pure xs
    | _ => throw "bad-op:steps"
  let c ← mkCarrier kind init markers
  let (outs, cf) ← runSteps c steps
  pure (Json.obj [("outs", .arr outs), ("final", showSV cf.validations), ("marker", cf.marker)]).render

end SpecModel.ValidationsOps
