/-
C05 — Resolving a reference returns exactly the designated sub-document.

Model (`SpecModel/Pointer.lean`): `resolve docs base ref kind` = RFC 3986 resolution of the URI part against the
base (`Url.normalizeURI`, whose agreement with the RFC is C12), fetch of that document, RFC 6901 evaluation of
the fragment (tokens split at '/', `~1` then `~0` unescaped, objects by member name, arrays by decimal index),
then the codec of the requested kind (`Codec.norm`, the model of swag.DynamicJSONToStruct + json.Marshal).
It is tied to `ResolveRefWithBase` / `ResolveParameterWithBase` / … by the `resolve` correspondence on every
run (location-only and generic roots); the agreement of typed roots with generic ones is the oracle's job here
and C15's in general.

Proved for all inputs:
* `token_roundtrip` — any member name (whatever characters: '/', '~', '%', '#', spaces, non-ASCII) written as a
  pointer token and read back through jsonpointer's two-pass `Unescape` is the name; an escaped token contains
  no separator (`escaped_token_has_no_separator`), so names never split;
* `eval_compositional` — evaluating a pointer is evaluating its prefix, then the rest from there (nested
  pointers through properties / items / allOf are chains of single steps);
* `resolve_is_designated` — the result is the codec of `designated`, nothing else: no nested `$ref` is followed
  (the model has no such step) and the documents are values (nothing can be modified);
* `designates_nothing_is_error` — a reference that designates nothing is an error, never a value;
* `fragment_only_stays_in_base`, `empty_ref_is_base_document` (via C12).
-/
import SpecModel.PointerLemmas
import SpecModel.Props.C12

namespace SpecModel.Props.C05
open SpecModel SpecModel.Pointer

theorem token_roundtrip (name : List Char) : unescape (escape name) = name := unescape_escape name

theorem escaped_token_has_no_separator (name : List Char) : '/' ∉ escape name := escape_no_slash name

example : unescape (escape "a/b~c~1~01%2F é".toList) = "a/b~c~1~01%2F é".toList := token_roundtrip _
example : String.ofList (escape "a/b~c".toList) = "a~1b~0c" := by decide

theorem eval_compositional (j : Json) (a b : List String) :
    eval j (a ++ b) = (eval j a).bind fun x => eval x b := eval_append j a b

theorem resolve_is_designated (docs : List Doc) (base ref : Url.URL) (kind : String) (v : Json)
    (h : designated docs base ref = some v) :
    resolve docs base ref kind = decodeAs kind v := by
  simp [resolve, h]

theorem designates_nothing_is_error (docs : List Doc) (base ref : Url.URL) (kind : String)
    (h : designated docs base ref = none) : ∃ e, resolve docs base ref kind = .error e := by
  simp [resolve, h]

/-- a dangling pointer designates nothing -/
theorem dangling_pointer (docs : List Doc) (base ref : Url.URL) (doc : Json) (toks : List String)
    (hd : fetch docs (Url.normalizeURI ref base) = some doc)
    (ht : tokens (Url.normalizeURI ref base).fragment = some toks) (he : eval doc toks = none) :
    designated docs base ref = none := by
  simp [designated, hd, ht, he]

/-- a dangling document designates nothing -/
theorem dangling_document (docs : List Doc) (base ref : Url.URL)
    (hd : fetch docs (Url.normalizeURI ref base) = none) : designated docs base ref = none := by
  simp [designated, hd]

/-- a fragment-only (or empty) reference designates a place in the base document itself -/
theorem fragment_only_stays_in_base (r base : Url.URL) (hs : r.scheme = "") (hh : r.host = "") (hp : r.path = "") :
    Url.normalizeURI r base = { base with fragment := r.fragment } := C12.fragment_only_is_base r base hs hh hp

/-! non-vacuity -/
def exDoc : Json := .obj [("definitions", .obj [("a/b", .obj [("items", .arr [.str "x", .obj [("k", .num 1)]])])])]
example : ((tokens "/definitions/a~1b/items/1/k").bind (eval exDoc)).map Json.render = some "1" := by decide
example : ((tokens "/definitions/a~1b/items/2").bind (eval exDoc)).isNone = true := by decide
example : ((tokens "/definitions/a/b").bind (eval exDoc)).isNone = true := by decide

end SpecModel.Props.C05
