/-
C15 — Pointer lookups on typed documents agree with their JSON form.

A typed lookup `/tok` on a value of kind K goes through K's hand-written `JSONLookup`, which consults a chain
of parts (extensions map, then each embedded props struct by JSON name through the name provider).  The JSON
form of the same value is the concatenation of the parts K's `MarshalJSON` emits.  The two agree on every
member iff every emitted part is consulted.  Both lists are REGENERATED from the source (go/ast) on every run.

* `lookup_consults_every_encoded_part`: the only (kind, part) pairs that are emitted but never consulted are
  `schema/Ref` (`$ref`, which the property excludes) and `schema/Schema` (`$schema`: known finding K-C15-1);
* `kinds_without_custom_lookup`: exactly `contact` and `license` rely on reflection;
* on the model: a member the kind emits from a consulted struct part is found under the same name
  (`member_found_by_chain`).
* a MODEL of the hand-written `JSONLookup` methods, one token at a time, on the encoding of the typed value
  (`Codec/Lookup.lean`: `lookupTok`, driven by the regenerated chains, tied to the methods by the `lookup`
  correspondence on every run), and the theorems that it finds, with its value, every present member the kind's
  encoder can emit: `regular_kinds_find_their_members` (any member claimed by a live part — the descriptors of
  C06's proof; `normConcatKind_claims` shows every emitted member is claimed), `schema_finds_its_members` (declared
  keywords, extensions, unknown keywords; not `$ref`, not `$schema`), `responses_find_their_members` (`default`,
  canonical status codes, extensions), `paths_find_their_members`. Side conditions on the regenerated chains by
  `decide`.
The agreement for whole pointers on real documents (several tokens, name provider, ~0/~1 unescaping, array
indices) is decided per run by the harness oracle over every pointer of every generated document.
-/
import SpecModel.Codec.SideConditions
import SpecModel.Codec.Lookup
import SpecModel.Codec.LookupMore
import SpecModel.Props.C06

namespace SpecModel.Props.C15
open SpecModel SpecModel.Codec

theorem lookup_consults_every_encoded_part :
    Side.lookupGaps Gen.kinds = [("schema", "Ref"), ("schema", "Schema")] := by decide

theorem kinds_without_custom_lookup : Side.noLookup Gen.kinds = ["contact", "license"] := by decide

/-- model of the chain walk of a `JSONLookup`: the first consulted struct part that has a field of that JSON
name answers -/
def chainFinds (structs : List (String × List Field)) (chain : List String) (tok : String) : Option String :=
  chain.find? fun p => (jsonNames (lookupStruct structs p)).contains tok

/-- if the encoder emits member `tok` from struct part `p`, and `p` is consulted, then the chain walk finds a
part for `tok` — and, member names being pairwise distinct across parts (C06 `side_parts_disjoint`), it is a
part holding the same field -/
theorem member_found_by_chain (structs : List (String × List Field)) (chain : List String) (p tok : String)
    (hp : p ∈ chain) (ht : tok ∈ jsonNames (lookupStruct structs p)) :
    ∃ q, chainFinds structs chain tok = some q ∧ q ∈ chain ∧ tok ∈ jsonNames (lookupStruct structs q) := by
  unfold chainFinds
  have : (chain.find? fun p => (jsonNames (lookupStruct structs p)).contains tok).isSome := by
    rw [List.find?_isSome]
    exact ⟨p, hp, by simpa using ht⟩
  obtain ⟨q, hq⟩ := Option.isSome_iff_exists.mp this
  refine ⟨q, hq, List.mem_of_find?_eq_some hq, ?_⟩
  have := List.find?_some hq
  simpa using this

example : chainFinds Gen.structs ["SchemaProps", "SwaggerSchemaProps"] "discriminator" = some "SwaggerSchemaProps" := by
  decide

/-! ### the lookup model finds what the encoder emits -/

theorem keywords_not_numerals : keywordsNotNumerals = true := by decide

/-- every kind with a hand-written lookup other than schema, responses and paths consults all its live parts -/
theorem chains_cover_parts :
    (Gen.kinds.filter fun ki => !ki.lookupChain.isEmpty && !(["schema", "responses", "paths"].contains ki.kind)).all
      (fun ki => structCovered ki && extCovered ki) = true := by decide

theorem regular_kinds_find_their_members {k : String} {ki : KindInfo} (hk : lookupKind Gen.kinds k = some ki)
    (hcustom : ki.lookupChain.isEmpty = false) (hreg : (["schema", "responses", "paths"].contains ki.kind) = false)
    {ms : List (String × Json)} {tok : String} {v : Json} (hl : lookupKey ms tok = some v) (hne : tok ≠ "$ref")
    {d : PartDesc} (hd : d ∈ (liveParts ki).map descOf) (hc : claims d tok) : lookupTok k ms tok = some v := by
  have hmem : ki ∈ Gen.kinds := List.mem_of_find?_eq_some hk
  have := List.all_eq_true.mp chains_cover_parts ki (List.mem_filter.mpr ⟨hmem, by rw [hcustom, hreg]; rfl⟩)
  simp only [Bool.and_eq_true] at this
  exact member_found_regular hk this.1 this.2 keywords_not_numerals hl hne hd hc

theorem schema_finds_its_members {ms : List (String × Json)} {tok : String} {v : Json}
    (hl : lookupKey ms tok = some v) (hne : tok ≠ "$ref") (hns : tok ≠ "$schema")
    (hcanon : ∀ n, atoi tok = some n → itoa n = tok) : lookupTok "schema" ms tok = some v := by
  have hk : ∃ ki, lookupKind Gen.kinds "schema" = some ki ∧
      ["Extensions", "ExtraProps", "SchemaProps", "SwaggerSchemaProps"].all ki.lookupChain.contains = true := by decide
  obtain ⟨ki, h1, h2⟩ := hk
  exact member_found_schema h1 h2 keywords_not_numerals hl hne hns hcanon

theorem responses_find_their_members {ms : List (String × Json)} {tok : String} {v : Json}
    (hl : lookupKey ms tok = some v)
    (hem : tok = "default" ∨ isExtKey tok = true ∨ ∃ n, tok = itoa n ∧ int64Range n) :
    lookupTok "responses" ms tok = some v := by
  have hk : ∃ ki, lookupKind Gen.kinds "responses" = some ki ∧
      ["Default", "Extensions", "StatusCodeResponses"].all ki.lookupChain.contains = true := by decide
  obtain ⟨ki, h1, h2⟩ := hk
  exact member_found_responses h1 h2 hl hem

theorem paths_find_their_members {ms : List (String × Json)} {tok : String} {v : Json}
    (hl : lookupKey ms tok = some v) (hem : startsWithSlash tok = true ∨ isExtKey tok = true) :
    lookupTok "paths" ms tok = some v := by
  have hk : ∃ ki, lookupKind Gen.kinds "paths" = some ki ∧ ["Paths", "Extensions"].all ki.lookupChain.contains = true := by
    decide
  obtain ⟨ki, h1, h2⟩ := hk
  exact member_found_paths h1 h2 hl hem

/-- **on actual encodings, regular kinds** (operation, parameter, header, items, path item, swagger, info, tag):
every member of what decode+encode returns, other than `$ref`, is found by the lookup with its value -/
theorem lookup_agrees_on_regular_encodings {k : String} {ki : KindInfo} (hk : lookupKind Gen.kinds k = some ki)
    (hc : concatLookupKind ki = true) {j₀ : Json} {ms : List (String × Json)} (h : norm k j₀ = .ok (.obj ms))
    {tok : String} {v : Json} (hm : (tok, v) ∈ ms) (hne : tok ≠ "$ref") : lookupTok k ms tok = some v := by
  have hmem : ki ∈ Gen.kinds := List.mem_of_find?_eq_some hk
  have hc0 := hc
  simp only [concatLookupKind, Bool.and_eq_true, Bool.not_eq_true', bne_iff_ne, ne_eq] at hc
  have hreg : (["schema", "responses", "paths"].contains ki.kind) = false := by
    have := hc.1.1
    simp only [List.contains_cons, List.contains_nil, Bool.or_false, Bool.or_eq_false_iff] at this ⊢
    exact ⟨this.1, this.2.2.1, this.2.2.2.1⟩
  have hcustom : ki.lookupChain.isEmpty = false := hc.2
  have := List.all_eq_true.mp chains_cover_parts ki (List.mem_filter.mpr ⟨hmem, by rw [hcustom, hreg]; rfl⟩)
  simp only [Bool.and_eq_true] at this
  exact norm_lookup_concat C06.tables_ok hk hc0 this.1 this.2 keywords_not_numerals h hm hne

/-- the kinds this covers -/
example : (Gen.kinds.filter concatLookupKind).map (·.kind) =
    ["swagger", "info", "tag", "parameter", "items", "header", "operation", "pathItem"] := by decide

/-- **on actual encodings, schema** -/
theorem lookup_agrees_on_schema_encodings {j₀ : Json} {ms : List (String × Json)} (h : norm "schema" j₀ = .ok (.obj ms))
    {tok : String} {v : Json} (hm : (tok, v) ∈ ms) (hne : tok ≠ "$ref") (hns : tok ≠ "$schema")
    (hcanon : ∀ n, atoi tok = some n → itoa n = tok) : lookupTok "schema" ms tok = some v := by
  have hk : ∃ ki, lookupKind Gen.kinds "schema" = some ki ∧
      ["Extensions", "ExtraProps", "SchemaProps", "SwaggerSchemaProps"].all ki.lookupChain.contains = true := by decide
  obtain ⟨ki, h1, h2⟩ := hk
  exact norm_lookup_schema C06.tables_ok h1 h2 keywords_not_numerals h hm hne hns hcanon

/-- **on actual encodings, response and security scheme** -/
theorem lookup_agrees_on_response_encodings {j₀ : Json} {ms : List (String × Json)} (h : norm "response" j₀ = .ok (.obj ms))
    {tok : String} {v : Json} (hm : (tok, v) ∈ ms) (hne : tok ≠ "$ref") : lookupTok "response" ms tok = some v := by
  have hk : ∃ ki, lookupKind Gen.kinds "response" = some ki ∧
      liveParts ki = ["ResponseProps", "Refable", "VendorExtensible"] ∧ structCovered ki = true ∧ extCovered ki = true := by
    decide
  obtain ⟨ki, h1, h2, h3, h4⟩ := hk
  exact norm_lookup_response C06.tables_ok h1 h2 h3 h4 keywords_not_numerals h hm hne

theorem lookup_agrees_on_securityScheme_encodings {j₀ : Json} {ms : List (String × Json)}
    (h : norm "securityScheme" j₀ = .ok (.obj ms)) {tok : String} {v : Json} (hm : (tok, v) ∈ ms) (hne : tok ≠ "$ref") :
    lookupTok "securityScheme" ms tok = some v := by
  have hk : ∃ ki, lookupKind Gen.kinds "securityScheme" = some ki ∧
      liveParts ki = ["SecuritySchemeProps", "VendorExtensible"] ∧ structCovered ki = true ∧ extCovered ki = true := by
    decide
  obtain ⟨ki, h1, h2, h3, h4⟩ := hk
  exact norm_lookup_securityScheme C06.tables_ok h1 h2 h3 h4 keywords_not_numerals h hm hne

/-- **on actual encodings, responses and paths**: every member, without exception -/
theorem lookup_agrees_on_responses_encodings {j₀ : Json} {ms : List (String × Json)}
    (h : norm "responses" j₀ = .ok (.obj ms)) {tok : String} {v : Json} (hm : (tok, v) ∈ ms) :
    lookupTok "responses" ms tok = some v := by
  have hk : ∃ ki, lookupKind Gen.kinds "responses" = some ki ∧
      ["Default", "Extensions", "StatusCodeResponses"].all ki.lookupChain.contains = true := by decide
  obtain ⟨ki, h1, h2⟩ := hk
  exact norm_lookup_responses C06.tables_ok h1 h2 h hm

theorem lookup_agrees_on_paths_encodings {j₀ : Json} {ms : List (String × Json)} (h : norm "paths" j₀ = .ok (.obj ms))
    {tok : String} {v : Json} (hm : (tok, v) ∈ ms) : lookupTok "paths" ms tok = some v := by
  have hk : ∃ ki, lookupKind Gen.kinds "paths" = some ki ∧ ["Paths", "Extensions"].all ki.lookupChain.contains = true := by
    decide
  obtain ⟨ki, h1, h2⟩ := hk
  exact norm_lookup_paths C06.tables_ok h1 h2 h hm

/-- non-vacuity: the model on a small operation, a schema with an unknown keyword, and a responses object -/
example : lookupTok "operation" [("operationId", .str "op"), ("x-a", .num 1)] "operationId" = some (.str "op") := by rfl
example : lookupTok "schema" [("title", .str "t"), ("custom", .num 1)] "custom" = some (.num 1) := by rfl
example : lookupTok "responses" [("200", .obj []), ("default", .obj [])] "200" = some (.obj []) := by rfl
example : lookupTok "schema" [("$schema", .str "u")] "$schema" = none := by rfl   -- K-C15-1

end SpecModel.Props.C15
