/-
C15 — Pointer lookups on typed documents agree with their JSON form.

A typed lookup `/tok` on a value of kind K goes through K's hand-written `JSONLookup`, which consults a chain
of parts (extensions map, then each embedded props struct by JSON name through the name provider).  The JSON
form of the same value is the concatenation of the parts K's `MarshalJSON` emits.  The two agree on every
member iff every emitted part is consulted.  Both lists are REGENERATED from the source (go/ast) on every run.

* `lookup_consults_every_encoded_part`: the only (kind, part) pairs that are emitted but never consulted are
  `schema/Ref` (`$ref`, which the property excludes) and `schema/Schema` (`$schema`: known finding K-C15-1);
* `kinds_without_custom_lookup`: exactly `contact` and `license` rely on reflection;
* on the model: a member the kind emits from a consulted struct part is found under the same name
  (`member_found_by_chain`).
The per-pointer agreement on real documents (name provider, ~0/~1 unescaping, array and status-code tokens) is
decided per run by the harness oracle over every pointer of every generated document.
-/
import SpecModel.Codec.SideConditions

namespace SpecModel.Props.C15
open SpecModel SpecModel.Codec

theorem lookup_consults_every_encoded_part :
    Side.lookupGaps Gen.kinds = [("schema", "Ref"), ("schema", "Schema")] := by decide

theorem kinds_without_custom_lookup : Side.noLookup Gen.kinds = ["contact", "license"] := by decide

/-- model of the chain walk of a `JSONLookup`: the first consulted struct part that has a field of that JSON
name answers -/
def chainFinds (structs : List (String × List Field)) (chain : List String) (tok : String) : Option String :=
  chain.find? fun p => (jsonNames (lookupStruct structs p)).contains tok

/-- if the encoder emits member `tok` from struct part `p`, and `p` is consulted, then the chain walk finds a
part for `tok` — and, member names being pairwise distinct across parts (C06 `side_parts_disjoint`), it is a
part holding the same field -/
theorem member_found_by_chain (structs : List (String × List Field)) (chain : List String) (p tok : String)
    (hp : p ∈ chain) (ht : tok ∈ jsonNames (lookupStruct structs p)) :
    ∃ q, chainFinds structs chain tok = some q ∧ q ∈ chain ∧ tok ∈ jsonNames (lookupStruct structs q) := by
  unfold chainFinds
  have : (chain.find? fun p => (jsonNames (lookupStruct structs p)).contains tok).isSome := by
    rw [List.find?_isSome]
    exact ⟨p, hp, by simpa using ht⟩
  obtain ⟨q, hq⟩ := Option.isSome_iff_exists.mp this
  refine ⟨q, hq, List.mem_of_find?_eq_some hq, ?_⟩
  have := List.find?_some hq
  simpa using this

example : chainFinds Gen.structs ["SchemaProps", "SwaggerSchemaProps"] "discriminator" = some "SwaggerSchemaProps" := by
  decide

end SpecModel.Props.C15
