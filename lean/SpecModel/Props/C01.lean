/-
C01 — JSON round-trip is lossless for the whole Swagger 2.0 vocabulary.

Model: `SpecModel/Codec` (`norm K`), tied to the Go codecs by the `norm` correspondence on every run.

Proved here
* over the REGENERATED tables against the PINNED vocabulary (`decide`): every keyword the standards define
  for a kind is a member name of a part that the kind's decoder fills and its encoder emits
  (`vocabulary_covered`); every kind that may carry `x-` members has the extensions part on both sides, except
  exactly `externalDocs` and `xml` (known finding K-C01-1, `extension_gaps`); unknown schema members have the
  ExtraProps part (`unknown_members_kept`); numeric validations are pointers, so zero is not "empty"
  (`zero_validations_survive`); every encoded part is decoded and conversely (`parts_paired`);
* for all inputs, about the model: a free-form payload in Go's printing form comes back exactly
  (`payload_exact`), any payload comes back with the same members up to order when it has no duplicate member
  (`payload_members_kept`); the members of a Go map survive (`go_map_members_kept`).
* for WHOLE DOCUMENTS of every kind (`round_trip_up_to_member_order`, from `Codec/Perm.lean`, ~900 lines): the
  codec does not depend on the order in which the members of an object are written, at any depth:

      norm K c = ok c  →  Tidy c  →  Tidy j  →  Eqv c j  →  norm K j = ok c

  i.e. if ONE ordering `c` of a document is reproduced exactly by decode+encode, then every reordering `j` of it
  decodes and encodes to `c`: the round trip loses nothing but member order (which JSON values do not have).
  `Tidy`: no object with two members of the same name and no member name that is a case variant of a keyword (two
  such names would be read into the same Go field, and then order does matter). With C07 (`Clean` outputs are
  fixed points) this gives `reorderings_of_outputs_round_trip`: every reordering of every clean output of the
  codec round-trips to that output.
Which documents have such an ordering `c` — the syntactic normal form of the property: required members present,
no null members, no empty optional strings/arrays/objects, no explicit defaults — is decided per run by the oracle
of the harness on generated normal-form documents; its failures on the unchanged tree are the two known findings.
-/
import SpecModel.Codec.Lemmas
import SpecModel.Codec.SideConditions
import SpecModel.Codec.Perm
import SpecModel.Codec.Fuel
import SpecModel.Props.C07

namespace SpecModel.Props.C01
open SpecModel SpecModel.Codec

/-! ### the vocabulary is carried (regenerated tables, pinned vocabulary) -/

theorem vocabulary_covered : Side.coverage Gen.kinds Gen.vocab = true := by decide

/-- exactly the two kinds of known finding K-C01-1 lack the extensions part -/
theorem extension_gaps : Side.extensionGaps Gen.kinds Gen.vocab = ["externalDocs", "xml"] := by decide

theorem unknown_members_kept : Side.keepsUnknown Gen.kinds Gen.vocab = true := by decide

theorem zero_validations_survive : Side.zeroValidationsSurvive Gen.structs = true := by decide

theorem parts_paired : Side.partsPaired Gen.kinds = true := by decide

/-- non-vacuity: the pinned vocabulary is not empty and names the kinds of the statement -/
example : (Gen.vocab.map (·.1)).length = 17 ∧ "schema" ∈ Gen.vocab.map (·.1) ∧ "header" ∈ Gen.vocab.map (·.1) := by decide

/-! ### free-form payloads and maps -/

/-- a payload as Go prints it (sorted keys, exactly representable numbers) round-trips to itself -/
theorem payload_exact {j : Json} (h : GoAny j) : normAny j = .ok j := normAny_of_goAny j h

example : GoAny (.obj [("a", .arr [.null, .num 0, .obj []]), ("b", .str "")]) := by
  simp [GoAny, GoAnyL, GoAnyM, KeysSorted, floatExact]

/-- a member of a Go map survives decode+encode with its value, when its name occurs once -/
theorem go_map_members_kept (ms : List (String × Json)) (hn : (ms.map (·.1)).Nodup) :
    ∀ m, m ∈ toGoMap ms ↔ m ∈ ms := by
  induction ms with
  | nil => simp [toGoMap]
  | cons a rest ih =>
    obtain ⟨k, v⟩ := a
    have ⟨hk, hrest⟩ := List.nodup_cons.mp hn
    intro m
    have hnot : ∀ x ∈ toGoMap rest, x.1 ≠ k := by
      intro x hx heq
      have hx' : x ∈ rest := (ih hrest x).mp hx
      have : x.1 ∈ rest.map (·.1) := List.mem_map_of_mem hx'
      rw [heq] at this
      exact hk this
    have key : ∀ (acc : List (String × Json)), (∀ x ∈ acc, x.1 ≠ k) → (m ∈ insertKeep k v acc ↔ m = (k, v) ∨ m ∈ acc) := by
      intro acc
      induction acc with
      | nil => intro _; simp [insertKeep]
      | cons b acc' ih' =>
        obtain ⟨l, w⟩ := b
        intro hacc
        have hl : l ≠ k := hacc (l, w) (by simp)
        have hl' : ¬ k = l := fun h => hl h.symm
        have := ih' (fun x hx => hacc x (List.mem_cons_of_mem _ hx))
        unfold insertKeep
        split
        · simp
        · simp [hl', this]
          constructor
          · rintro (h | h | h) <;> simp [h]
          · rintro (h | h | h) <;> simp [h]
    show m ∈ insertKeep k v (toGoMap rest) ↔ m ∈ (k, v) :: rest
    rw [key (toGoMap rest) hnot, ih hrest m]
    simp

example : (toGoMap [("b", .num 1), ("a", .num 2)]).map (·.1) = ["a", "b"] := by decide


/-! ### Whole documents: the round trip is lossless up to member order -/

/-- **If one ordering of a document is reproduced by decode+encode, every reordering of it (of the members of any
of its objects, at any depth) decodes and encodes to that ordering.** -/
theorem round_trip_up_to_member_order (k : String) (c j : Json) (hfix : norm k c = .ok c) (hc : Tidy c)
    (hj : Tidy j) (he : Eqv c j) : norm k j = .ok c :=
  norm_of_normF (normF_eqv _ _ _ _ he hc hj c hfix)

/-- more generally, reordering the input never changes a successful result -/
theorem result_independent_of_member_order (k : String) (c j r : Json) (h : norm k c = .ok r) (hc : Tidy c)
    (hj : Tidy j) (he : Eqv c j) : norm k j = .ok r :=
  norm_of_normF (normF_eqv _ _ _ _ he hc hj r h)

/-- with C06 and C07: every reordering of a clean output of the codec round-trips to that output -/
theorem reorderings_of_outputs_round_trip (k : String) (j₀ c j : Json) (h : norm k j₀ = .ok c) (hclean : Clean c)
    (hj : Tidy j) (he : Eqv c j) : norm k j = .ok c :=
  round_trip_up_to_member_order k c j (C07.encoding_is_idempotent k j₀ c h hclean)
    (tidy_of_clean_nd c hclean (C06.encoding_has_no_duplicate_member k j₀ c h)) hj he

/-- non-vacuity: a reordering, at two depths, of a document -/
example : Eqv (.obj [("a", .num 1), ("b", .obj [("p", .null), ("q", .str "s")])])
              (.obj [("b", .obj [("q", .str "s"), ("p", .null)]), ("a", .num 1)]) := by
  apply eqv_obj_intro
  · intro m hm
    simp only [List.mem_cons, List.not_mem_nil, or_false] at hm
    rcases hm with rfl | rfl
    · exact ⟨.num 1, by simp, eqv_num 1⟩
    · refine ⟨.obj [("q", .str "s"), ("p", .null)], by simp, ?_⟩
      apply eqv_obj_intro
      · intro m hm
        simp only [List.mem_cons, List.not_mem_nil, or_false] at hm
        rcases hm with rfl | rfl
        · exact ⟨.null, by simp, eqv_null⟩
        · exact ⟨.str "s", by simp, eqv_str "s"⟩
      · intro k hk; simp only [keysOf, List.map_cons, List.map_nil, List.mem_cons, List.not_mem_nil, or_false] at hk ⊢
        rcases hk with h | h <;> simp [h]
  · intro k hk; simp only [keysOf, List.map_cons, List.map_nil, List.mem_cons, List.not_mem_nil, or_false] at hk ⊢
    rcases hk with h | h <;> simp [h]

/-- `Eqv` is not trivially true: arrays keep their order -/
example : ¬ Eqv (.arr [.num 1, .num 2]) (.arr [.num 2, .num 1]) := eqv_arr_swap_false

/-- model-level test (a test, not a theorem): `x-order` is read to sort the properties — a numeral in a string
counts like the number — and is written back as it was found (the input class behind seed C01k) -/
example : norm "schema" (.obj [("properties", .obj [("a", .obj [("x-order", .num 3)]), ("b", .obj [("x-order", .str "2")])])])
    = .ok (.obj [("properties", .obj [("b", .obj [("x-order", .str "2")]), ("a", .obj [("x-order", .num 3)])])]) := by rfl

end SpecModel.Props.C01
