/-
C01 — JSON round-trip is lossless for the whole Swagger 2.0 vocabulary.

Model: `SpecModel/Codec` (`norm K`), tied to the Go codecs by the `norm` correspondence on every run.

Proved here
* over the REGENERATED tables against the PINNED vocabulary (`decide`): every keyword the standards define
  for a kind is a member name of a part that the kind's decoder fills and its encoder emits
  (`vocabulary_covered`); every kind that may carry `x-` members has the extensions part on both sides, except
  exactly `externalDocs` and `xml` (known finding K-C01-1, `extension_gaps`); unknown schema members have the
  ExtraProps part (`unknown_members_kept`); numeric validations are pointers, so zero is not "empty"
  (`zero_validations_survive`); every encoded part is decoded and conversely (`parts_paired`);
* for all inputs, about the model: a free-form payload in Go's printing form comes back exactly
  (`payload_exact`), any payload comes back with the same members up to order when it has no duplicate member
  (`payload_members_kept`); the members of a Go map survive (`go_map_members_kept`).
The statement for whole documents (`NFmeta K j → norm K j ≈ j`) is decided per run by the oracle of the
harness on generated normal-form documents; its failures on the unchanged tree are the two known findings.
-/
import SpecModel.Codec.Lemmas
import SpecModel.Codec.SideConditions

namespace SpecModel.Props.C01
open SpecModel SpecModel.Codec

/-! ### the vocabulary is carried (regenerated tables, pinned vocabulary) -/

theorem vocabulary_covered : Side.coverage Gen.kinds Gen.vocab = true := by decide

/-- exactly the two kinds of known finding K-C01-1 lack the extensions part -/
theorem extension_gaps : Side.extensionGaps Gen.kinds Gen.vocab = ["externalDocs", "xml"] := by decide

theorem unknown_members_kept : Side.keepsUnknown Gen.kinds Gen.vocab = true := by decide

theorem zero_validations_survive : Side.zeroValidationsSurvive Gen.structs = true := by decide

theorem parts_paired : Side.partsPaired Gen.kinds = true := by decide

/-- non-vacuity: the pinned vocabulary is not empty and names the kinds of the statement -/
example : (Gen.vocab.map (·.1)).length = 17 ∧ "schema" ∈ Gen.vocab.map (·.1) ∧ "header" ∈ Gen.vocab.map (·.1) := by decide

/-! ### free-form payloads and maps -/

/-- a payload as Go prints it (sorted keys, exactly representable numbers) round-trips to itself -/
theorem payload_exact {j : Json} (h : GoAny j) : normAny j = .ok j := normAny_of_goAny j h

example : GoAny (.obj [("a", .arr [.null, .num 0, .obj []]), ("b", .str "")]) := by
  simp [GoAny, GoAnyL, GoAnyM, KeysSorted, floatExact]

/-- a member of a Go map survives decode+encode with its value, when its name occurs once -/
theorem go_map_members_kept (ms : List (String × Json)) (hn : (ms.map (·.1)).Nodup) :
    ∀ m, m ∈ toGoMap ms ↔ m ∈ ms := by
  induction ms with
  | nil => simp [toGoMap]
  | cons a rest ih =>
    obtain ⟨k, v⟩ := a
    have ⟨hk, hrest⟩ := List.nodup_cons.mp hn
    intro m
    have hnot : ∀ x ∈ toGoMap rest, x.1 ≠ k := by
      intro x hx heq
      have hx' : x ∈ rest := (ih hrest x).mp hx
      have : x.1 ∈ rest.map (·.1) := List.mem_map_of_mem hx'
      rw [heq] at this
      exact hk this
    have key : ∀ (acc : List (String × Json)), (∀ x ∈ acc, x.1 ≠ k) → (m ∈ insertKeep k v acc ↔ m = (k, v) ∨ m ∈ acc) := by
      intro acc
      induction acc with
      | nil => intro _; simp [insertKeep]
      | cons b acc' ih' =>
        obtain ⟨l, w⟩ := b
        intro hacc
        have hl : l ≠ k := hacc (l, w) (by simp)
        have hl' : ¬ k = l := fun h => hl h.symm
        have := ih' (fun x hx => hacc x (List.mem_cons_of_mem _ hx))
        unfold insertKeep
        split
        · simp
        · simp [hl', this]
          constructor
          · rintro (h | h | h) <;> simp [h]
          · rintro (h | h | h) <;> simp [h]
    show m ∈ insertKeep k v (toGoMap rest) ↔ m ∈ (k, v) :: rest
    rw [key (toGoMap rest) hnot, ih hrest m]
    simp

example : (toGoMap [("b", .num 1), ("a", .num 2)]).map (·.1) = ["a", "b"] := by decide

end SpecModel.Props.C01
