/-
C07 — Decoding is total and its normalisation is idempotent.

Totality: `norm` (`SpecModel/Codec/Norm.lean`) is a total Lean function into `Except`; every partial
operation of the Go decoders (first-byte dispatch, type assertions on the generic map, nil maps) is an explicit
branch of it, and the `norm` correspondence compares it with the real decoders on the malformed stream of the
harness on every run — this part is carried by the correspondence, not by a theorem.

Idempotence, proved for all inputs for the components that are not plain `encoding/json` struct handling:
* free-form payloads (`default`, `example`, `enum`, extension values, unknown schema keywords): one decode+encode
  reaches a fixed point (`payload_idempotent`);
* Go maps: printing and reading again gives the same map (`go_map_idempotent`);
* `properties` / `patternProperties`: sorting the sorted member list changes nothing (`properties_idempotent`);
* `StringOrArray`, `SchemaOrStringArray` (the non-schema arms).
The full statement `norm K j = ok j₁ → norm K j₁ = ok j₁` is FALSE on the current tree: `items` holding a
scalar is accepted, printed as `null`, and `null` then leaves the field empty (known finding K-C07-1); the
mechanism is exhibited below (`items_scalar_not_fixed`).
-/
import SpecModel.Codec.SortLemmas

namespace SpecModel.Props.C07
open SpecModel SpecModel.Codec

theorem payload_idempotent {j j' : Json} (h : normAny j = .ok j') : normAny j' = .ok j' := normAny_idem h

example : normAny (.obj [("b", .num 1), ("a", .arr [.obj [("z", .null), ("y", .null)]]), ("b", .num 2)])
    = .ok (.obj [("a", .arr [.obj [("y", .null), ("z", .null)]]), ("b", .num 2)]) := by rfl

theorem extension_members_idempotent {ms ys : List (String × Json)} (h : normAnyMembers ms = .ok ys) :
    normAnyMembers ys = .ok ys := normAnyMembers_idem h

theorem go_map_idempotent (ms : List (String × Json)) : toGoMap (toGoMap ms) = toGoMap ms := toGoMap_idem ms

theorem properties_idempotent {l : List (String × Json)} (hn : (l.map (·.1)).Nodup) :
    sortBy lessItem (sortBy lessItem l) = sortBy lessItem l := sortBy_lessItem_idem hn

theorem stringOrArray_idempotent {j j' : Json} (h : normStringOrArray j = .ok j') : normStringOrArray j' = .ok j' := by
  cases j with
  | arr xs =>
    simp only [normStringOrArray, bind, Except.bind] at h
    split at h
    · simp at h
    · rename_i ys hys
      have hstr : ∀ (xs ys : List Json), mapR strElem xs = .ok ys → mapR strElem ys = .ok ys ∧ ∀ y ∈ ys, ∃ s, y = .str s := by
        intro xs
        induction xs with
        | nil => intro ys h; simp [mapR, pure, Except.pure] at h; subst h; simp [mapR, pure, Except.pure]
        | cons x rest ih =>
          intro ys h
          simp only [mapR, bind, Except.bind] at h
          split at h
          · simp at h
          · rename_i y hy
            split at h
            · simp at h
            · rename_i ys' hys'
              simp [pure, Except.pure] at h; subst h
              have ⟨h1, h2⟩ := ih ys' hys'
              have hy' : ∃ s, y = .str s := by
                cases x <;> simp [strElem, pure, Except.pure, goError] at hy <;> exact ⟨_, hy.symm⟩
              obtain ⟨s, rfl⟩ := hy'
              refine ⟨by simp [mapR, strElem, h1, bind, Except.bind, pure, Except.pure], ?_⟩
              intro z hz
              rcases List.mem_cons.mp hz with rfl | hz
              · exact ⟨s, rfl⟩
              · exact h2 z hz
      have ⟨h1, h2⟩ := hstr xs ys hys
      match ys, h, h1, h2 with
      | [y], h, _, h2 =>
        simp [pure, Except.pure] at h; subst h
        obtain ⟨s, rfl⟩ := h2 y (by simp)
        rfl
      | [], h, _, _ => simp [pure, Except.pure] at h; subst h; rfl
      | y :: z :: rest, h, h1, _ =>
        simp [pure, Except.pure] at h; subst h
        simp [normStringOrArray, h1, bind, Except.bind, pure, Except.pure]
  | str s => simp [normStringOrArray, pure, Except.pure] at h; subst h; rfl
  | null => simp [normStringOrArray, pure, Except.pure] at h; subst h; rfl
  | bool b => simp [normStringOrArray, goError] at h
  | num n => simp [normStringOrArray, goError] at h
  | obj ms => simp [normStringOrArray, goError] at h

example : normStringOrArray (.arr [.str "a"]) = .ok (.str "a") := rfl

/-! ### The known non-fixed-point (K-C07-1): a scalar `items`

`SchemaOrArray.UnmarshalJSON` leaves the zero value for anything that is neither an object nor an array; the
zero value prints as `null`; a `null` member then leaves the pointer field nil, which `omitempty` drops. -/
theorem items_scalar_not_fixed (rec : Rec) :
    normSchemaOrArray rec (.bool true) = .ok .null ∧
    decodeField rec (.ptrNamed "SchemaOrArray") none .null = .ok none := ⟨rfl, rfl⟩

end SpecModel.Props.C07
