/-
C07 — Decoding is total and its normalisation is idempotent.

Totality: `norm` (`SpecModel/Codec/Norm.lean`) is a total Lean function into `Except`; every partial
operation of the Go decoders (first-byte dispatch, type assertions on the generic map, nil maps) is an explicit
branch of it, and the `norm` correspondence compares it with the real decoders on the malformed stream of the
harness on every run — this part is carried by the correspondence, not by a theorem.

Idempotence for WHOLE DOCUMENTS of every kind (`encoding_is_idempotent`, from `Codec/Idem.lean`):

    norm K j = ok j₁  →  Clean j₁  →  norm K j₁ = ok j₁

where `Clean` is a decidable, kind-agnostic condition on the first output: no member with value `null`, no
member name that is a case variant of a keyword (the property's own exception) or an upper-case `X-` spelling
of the extension prefix, numbers exactly representable in a float64 (that the printed `$ref`/`$schema` texts are fixed
under the URL printing model is proved inside, from `urlString_idem`, not assumed).  Side conditions on the REGENERATED tables are discharged by `decide`
(`idem_tables_ok`).  Without `Clean` the statement is FALSE on the current tree (K-C07-1 below: the first
output holds `"items": null`, which is exactly what `Clean` excludes).

Idempotence of the components, without any hypothesis on the output:
* free-form payloads (`default`, `example`, `enum`, extension values, unknown schema keywords): one decode+encode
  reaches a fixed point (`payload_idempotent`);
* Go maps: printing and reading again gives the same map (`go_map_idempotent`);
* `properties` / `patternProperties`: sorting the sorted member list changes nothing (`properties_idempotent`);
* `StringOrArray`, `SchemaOrStringArray` (the non-schema arms).
The unconditional statement `norm K j = ok j₁ → norm K j₁ = ok j₁` is FALSE on the current tree: `items` holding
a scalar is accepted, printed as `null`, and `null` then leaves the field empty (known finding K-C07-1); the
mechanism is exhibited below (`items_scalar_not_fixed`).
-/
import SpecModel.Codec.SortLemmas
import SpecModel.Codec.Idem
import SpecModel.Codec.Fuel
import SpecModel.Props.C06

namespace SpecModel.Props.C07
open SpecModel SpecModel.Codec

theorem payload_idempotent {j j' : Json} (h : normAny j = .ok j') : normAny j' = .ok j' := normAny_idem h

example : normAny (.obj [("b", .num 1), ("a", .arr [.obj [("z", .null), ("y", .null)]]), ("b", .num 2)])
    = .ok (.obj [("a", .arr [.obj [("y", .null), ("z", .null)]]), ("b", .num 2)]) := by rfl

theorem extension_members_idempotent {ms ys : List (String × Json)} (h : normAnyMembers ms = .ok ys) :
    normAnyMembers ys = .ok ys := normAnyMembers_idem h

theorem go_map_idempotent (ms : List (String × Json)) : toGoMap (toGoMap ms) = toGoMap ms := toGoMap_idem ms

theorem properties_idempotent {l : List (String × Json)} (hn : (l.map (·.1)).Nodup) :
    sortBy lessItem (sortBy lessItem l) = sortBy lessItem l := sortBy_lessItem_idem hn

theorem stringOrArray_idempotent {j j' : Json} (h : normStringOrArray j = .ok j') : normStringOrArray j' = .ok j' := by
  cases j with
  | arr xs =>
    simp only [normStringOrArray, bind, Except.bind] at h
    split at h
    · simp at h
    · rename_i ys hys
      have hstr : ∀ (xs ys : List Json), mapR strElem xs = .ok ys → mapR strElem ys = .ok ys ∧ ∀ y ∈ ys, ∃ s, y = .str s := by
        intro xs
        induction xs with
        | nil => intro ys h; simp [mapR, pure, Except.pure] at h; subst h; simp [mapR, pure, Except.pure]
        | cons x rest ih =>
          intro ys h
          simp only [mapR, bind, Except.bind] at h
          split at h
          · simp at h
          · rename_i y hy
            split at h
            · simp at h
            · rename_i ys' hys'
              simp [pure, Except.pure] at h; subst h
              have ⟨h1, h2⟩ := ih ys' hys'
              have hy' : ∃ s, y = .str s := by
                cases x <;> simp [strElem, pure, Except.pure, goError] at hy <;> exact ⟨_, hy.symm⟩
              obtain ⟨s, rfl⟩ := hy'
              refine ⟨by simp [mapR, strElem, h1, bind, Except.bind, pure, Except.pure], ?_⟩
              intro z hz
              rcases List.mem_cons.mp hz with rfl | hz
              · exact ⟨s, rfl⟩
              · exact h2 z hz
      have ⟨h1, h2⟩ := hstr xs ys hys
      match ys, h, h1, h2 with
      | [y], h, _, h2 =>
        simp [pure, Except.pure] at h; subst h
        obtain ⟨s, rfl⟩ := h2 y (by simp)
        rfl
      | [], h, _, _ => simp [pure, Except.pure] at h; subst h; rfl
      | y :: z :: rest, h, h1, _ =>
        simp [pure, Except.pure] at h; subst h
        simp [normStringOrArray, h1, bind, Except.bind, pure, Except.pure]
  | str s => simp [normStringOrArray, pure, Except.pure] at h; subst h; rfl
  | null => simp [normStringOrArray, pure, Except.pure] at h; subst h; rfl
  | bool b => simp [normStringOrArray, goError] at h
  | num n => simp [normStringOrArray, goError] at h
  | obj ms => simp [normStringOrArray, goError] at h

example : normStringOrArray (.arr [.str "a"]) = .ok (.str "a") := rfl

/-! ### The known non-fixed-point (K-C07-1): a scalar `items`

`SchemaOrArray.UnmarshalJSON` leaves the zero value for anything that is neither an object nor an array; the
zero value prints as `null`; a `null` member then leaves the pointer field nil, which `omitempty` drops. -/
theorem items_scalar_not_fixed (rec : Rec) :
    normSchemaOrArray rec (.bool true) = .ok .null ∧
    decodeField rec (.ptrNamed "SchemaOrArray") none .null = .ok none := ⟨rfl, rfl⟩

/-! ### Whole documents -/

/-- side conditions on the tables regenerated from /repo on this run: the C06 ones (names pairwise distinct
inside and across the parts of every kind), every Schema field is `omitempty` (so that a `null` schema, printed
as `{}`, reads back as `{}`), and no regular kind decodes a part it never encodes -/
theorem idem_tables_ok : IdemTablesOK := ⟨C06.tables_ok, by decide, by decide⟩

/-- **Normalisation is idempotent on clean outputs, for every kind and every input.**
(`norm` derives its recursion budget from its input; `Codec/Fuel.lean` shows that budget is always enough:
whatever any budget returns, `norm` returns — `norm_of_normF`, from fuel monotonicity and a depth bound on the
calls each codec makes.) -/
theorem encoding_is_idempotent (k : String) (j j₁ : Json) (h : norm k j = .ok j₁) (hc : Clean j₁) :
    norm k j₁ = .ok j₁ :=
  norm_of_normF (normF_idem idem_tables_ok _ k j j₁ h hc)

/-- the recursion budget is irrelevant to successful runs: more never changes the answer, and `norm`'s own is enough -/
theorem budget_irrelevant {n : Nat} {k : String} {j r : Json} (h : normF n (.kind k) j = .ok r) :
    norm k j = .ok r ∧ ∀ m, n ≤ m → normF m (.kind k) j = .ok r :=
  ⟨norm_of_normF h, fun _ hm => normF_mono hm _ _ _ h⟩

/-- the same at any recursion budget: whatever budget produced `j₁`, that budget reproduces it -/
theorem encoding_is_idempotent_at (fuel : Nat) (k : String) (j j₁ : Json)
    (h : normF fuel (.kind k) j = .ok j₁) (hc : Clean j₁) : normF fuel (.kind k) j₁ = .ok j₁ :=
  normF_idem idem_tables_ok fuel k j j₁ h hc

/-! non-vacuity: a concrete document that is reordered by the first pass, whose output is `Clean` -/

instance (k : String) : Decidable (NameOK k) := by unfold NameOK; exact inferInstance

example : norm "license" (.obj [("url", .str "u"), ("name", .str "MIT"), ("x-a", .num 1)])
    = .ok (.obj [("name", .str "MIT"), ("url", .str "u"), ("x-a", .num 1)]) := by rfl

set_option maxRecDepth 100000 in
example : Clean (.obj [("name", .str "MIT"), ("url", .str "u"), ("x-a", .num 1)]) := by
  simp only [Clean, CleanM]
  exact ⟨by decide, by simp, trivial,
    by decide, by simp, trivial,
    by decide, by simp, by decide, trivial⟩

/-- `Clean` is not trivially true: the output behind K-C07-1 is rejected, and so is a case variant of a keyword -/
example : ¬ Clean (.obj [("items", .null)]) := by simp [Clean, CleanM]
set_option maxRecDepth 100000 in
example : ¬ NameOK "Title" := by decide
set_option maxRecDepth 100000 in
example : ¬ NameOK "X-internal" := by decide

end SpecModel.Props.C07
