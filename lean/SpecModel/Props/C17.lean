/-
C17 — Concurrent use gives the sequential answers.

Model: `SpecModel/Cache/Model.lean`, `step` / `runSched`: N threads share ONE cache object and are
interleaved by an arbitrary schedule at the granularity of the atomic actions of the Go code: the `Get` of
`load`, the loader call, the `Set` of `load`, a direct `Set`, a direct `Get`.  Between its `Get` miss and its
`Set` a thread is in an intermediate state (`fetching`, `storing`), so the lost-update / double-fetch
interleavings of the non-atomic `load` are all present in the model.

OUT OF SCOPE (cannot be exhibited by this model): data races in the sense of the Go memory model.  The model
assumes each `Get` / `Set` is atomic (the RWMutex of `simpleCache`; for a caller-supplied `ResolutionCache`
this is the caller's obligation) and that documents are never mutated after being stored.  Those are side
conditions checked on the source (lock discipline, `sync.Once`) and by `-race` runs, not theorems here.

What sharing requires (`Ideal`, the discipline): there is one table `P` of pseudo documents such that every
direct `Set u d` of every thread has `P u = some d` (threads agree on common pseudo keys — e.g. all expand
against the same root), and a thread `load`s / directly `Get`s a pseudo key only after it has itself written
it.  Every other `load` may race freely.  Without the second clause the answers really do depend on the
schedule (last example): thread B `load`ing a URL that thread A registers as a pseudo document (`id`) gets
the loader's document or A's, depending on who comes first.  Threads that do not share a cache object
(callers passing `nil`) are covered by C16.
-/
import SpecModel.Cache.Lemmas
import SpecModel.Cache.SideConditions
import SpecModel.Generated.CacheFacts

namespace SpecModel.Props.C17
open SpecModel.Cache

variable {δ ε α : Type}

/-- All threads use the same loader `L` and follow the discipline for one common pseudo table `P`, starting
from a shared cache `C₀` (any content).  Then under EVERY schedule (complete or not), any thread that has
finished holds exactly the result of its solo sequential run from `C₀`. -/
theorem sched_independent (P : Url → Option δ) (ps : List (Prog δ ε α)) (C₀ : Cache δ) (L : Url → Except ε δ)
    (hd : ∀ p ∈ ps, ∃ a, Ideal P (view C₀ L) [] p a) (sched : List Nat) (i : Nat) (a : α)
    (hfin : (runSched (Config.init ps C₀) L sched).results[i]? = some (some a)) :
    ∃ p, ps[i]? = some p ∧ a = (runSeq p C₀ L).result := by
  have hinv := (sinv_init hd).runSched sched
  have := hinv.result hfin
  simp only [List.getElem?_map] at this
  cases hp : ps[i]? with
  | none => simp [hp] at this
  | some p => simp only [hp, Option.map_some, Option.some.injEq] at this; exact ⟨p, rfl, this.symm⟩

/-- For a schedule that runs all threads to completion: the vector of results is the vector of solo results. -/
theorem sched_independent_complete (P : Url → Option δ) (ps : List (Prog δ ε α)) (C₀ : Cache δ)
    (L : Url → Except ε δ) (hd : ∀ p ∈ ps, ∃ a, Ideal P (view C₀ L) [] p a) (sched : List Nat)
    (hall : (runSched (Config.init ps C₀) L sched).allFinished = true) :
    (runSched (Config.init ps C₀) L sched).results = ps.map fun p => some (runSeq p C₀ L).result := by
  apply List.ext_getElem?
  intro i
  have hlen : (runSched (Config.init ps C₀) L sched).threads.length = ps.length := by
    rw [runSched_length]; simp [Config.init]
  cases hp : ps[i]? with
  | none =>
    have hi : ps.length ≤ i := by
      rcases Nat.lt_or_ge i ps.length with h | h
      · rw [List.getElem?_eq_getElem h] at hp; cases hp
      · exact h
    simp [Config.results, hlen, hi]
  | some p =>
    have hi : i < ps.length := by
      rcases Nat.lt_or_ge i ps.length with h | h
      · exact h
      · rw [List.getElem?_eq_none h] at hp; cases hp
    have hi' : i < (runSched (Config.init ps C₀) L sched).threads.length := by omega
    have hfin : ((runSched (Config.init ps C₀) L sched).threads[i]).finished = true := by
      have := List.all_eq_true.1 hall _ (List.getElem_mem hi')
      exact this
    -- a finished thread has a result
    obtain ⟨a, ha⟩ : ∃ a, ((runSched (Config.init ps C₀) L sched).threads[i]).result? = some a := by
      generalize (runSched (Config.init ps C₀) L sched).threads[i] = s at hfin
      cases s with
      | run q => cases q <;> simp_all [TState.finished, TState.result?]
      | fetching _ _ => simp [TState.finished] at hfin
      | storing _ _ _ => simp [TState.finished] at hfin
    have hres : (runSched (Config.init ps C₀) L sched).results[i]? = some (some a) := by
      simp [Config.results, List.getElem?_eq_getElem hi', ha]
    obtain ⟨q, hq, hqa⟩ := sched_independent P ps C₀ L hd sched i a hres
    rw [hp] at hq; cases hq
    rw [hres]; simp [hp, hqa]

/-- Threads that only `load` (no direct cache access) need no discipline at all; if moreover the shared
cache is coherent with the loader, every thread gets the answer of a run on an empty private cache. -/
theorem sched_independent_loadOnly (ps : List (Prog δ ε α)) (hps : ∀ p ∈ ps, LoadOnly p) (C₀ : Cache δ)
    (L : Url → Except ε δ) (hc : Coherent C₀ L []) (sched : List Nat) (i : Nat) (a : α)
    (hfin : (runSched (Config.init ps C₀) L sched).results[i]? = some (some a)) :
    ∃ p, ps[i]? = some p ∧ a = (runSeq p C₀ L).result ∧ a = (runSeq p [] L).result := by
  obtain ⟨p, hp, ha⟩ := sched_independent (fun _ => none) ps C₀ L
    (fun p hp => (hps p hp).ideal _) sched i a hfin
  refine ⟨p, hp, ha, ?_⟩
  rw [ha]
  apply result_congr_view (hps p (List.mem_of_getElem? hp)).peekFree
  rw [(coherent_nil_iff C₀ L).1 hc, view_nil]

/-- Progress: no configuration is stuck.  A scheduled unfinished thread performs exactly one atomic action
(one event is appended, tagged with the thread), and its state moves down the well-founded order `Next`.
(The only blocking primitive, the lock around one map access, is inside an atomic action.) -/
theorem no_stuck (c : Config δ ε α) (L : Url → Except ε δ) (i : Nat) (s : TState δ ε α)
    (hs : c.threads[i]? = some s) (hf : s.finished = false) :
    ∃ e s', (c.stepThread L i).trace = c.trace ++ [(i, e)] ∧
      (c.stepThread L i).threads[i]? = some s' ∧ Next s' s := by
  obtain ⟨e, he⟩ := step_one_event c.cache L hf
  refine ⟨e, (step c.cache L s).2.1, ?_, stepThread_self L hs, hf, c.cache, L, rfl⟩
  rw [stepThread_of_get hs, he]; rfl

/-- A thread cannot perform infinitely many actions, whatever the cache, the loader and the others do. -/
theorem steps_wellFounded : WellFounded (Next : TState δ ε α → TState δ ε α → Prop) := next_wf

/-- Termination: under any schedule that keeps scheduling every thread (`Fair`), some finite prefix brings
all threads to completion, and they stay complete under every longer prefix.
(A uniform numeric bound does not exist in general: a program is a well-founded but infinitely branching
tree, the number of actions depends on the answers received.) -/
theorem sched_terminates (ps : List (Prog δ ε α)) (C₀ : Cache δ) (L : Url → Except ε δ) (σ : Nat → Nat)
    (hfair : Fair ps.length σ) :
    ∃ N, ∀ N', N ≤ N' → (runSched (Config.init ps C₀) L (schedPrefix σ N')).allFinished = true := by
  have hlen : (Config.init ps C₀ : Config δ ε α).threads.length = ps.length := by simp [Config.init]
  obtain ⟨N, hN⟩ := all_terminate (Config.init ps C₀) L σ (by rw [hlen]; exact hfair) ps.length (by omega)
  refine ⟨N, fun N' hN' => allFinished_of_index ?_⟩
  intro i hi
  rw [runSched_length, hlen] at hi
  exact hN N' hN' i hi

/-- Every trace of the concurrent semantics is accepted by the executable multi-thread validator
(run by the driver on traces recorded from concurrent Go runs), once all threads have finished. -/
theorem runSched_trace_valid (ps : List (Prog δ ε α)) (C₀ : Cache δ) (L : Url → Except ε δ) (sched : List Nat)
    (hall : (runSched (Config.init ps C₀) L sched).allFinished = true) :
    validTraceMT C₀.keys (runSched (Config.init ps C₀) L sched).trace = true := by
  obtain ⟨keys, phs, hc, -, hm, hn⟩ := (mtinv_init ps C₀).runSched L sched
  simp only [validTraceMT, hc, List.all_eq_true]
  intro x _
  cases hx : (runSched (Config.init ps C₀) L sched).threads[x.1]? with
  | none => rw [hn _ hx]; rfl
  | some s =>
    have hf : s.finished = true := List.all_eq_true.1 hall s (List.mem_of_getElem? hx)
    exact phaseMatch_finished hf (hm _ s hx)

/-- The two semantics are the same thing at two granularities: one thread alone on the cache, stepped often
enough, ends with the result, the cache and the trace of `runSeq`. -/
theorem runSched_single_is_runSeq (p : Prog δ ε α) (C : Cache δ) (L : Url → Except ε δ) :
    ∃ n, runSched (Config.init [p] C) L (List.replicate n 0) =
      ⟨[.run (.ret (runSeq p C L).result)], (runSeq p C L).cache,
        (runSeq p C L).trace.map (fun e => (0, e))⟩ := by
  obtain ⟨n, hn⟩ := runSched_solo p L C []
  exact ⟨n, by simpa [Config.init] using hn⟩

/-! ### Non-vacuity -/

section Examples

def L₁ : Url → Except String String := fun u =>
  if u = "a" then .ok "A" else if u = "b" then .ok "B" else .error "404"

def show' : Except String String → String
  | .ok d => d
  | .error e => "!" ++ e

/-- writes the common root, reads it back, loads two documents -/
def t₁ : Prog String String (List String) :=
  .setPseudo ".root" "R" fun _ => .load ".root" fun r0 => .load "a" fun r1 => .load "b" fun r2 =>
    .ret [show' r0, show' r1, show' r2]
def t₂ : Prog String String (List String) :=
  .setPseudo ".root" "R" fun _ => .load "b" fun r1 => .load ".root" fun r0 => .load "x" fun r2 =>
    .ret [show' r1, show' r0, show' r2]

def P₁ : Url → Option String := fun u => if u = ".root" then some "R" else none

theorem t₁_ideal : Ideal P₁ (view [] L₁) [] t₁ ["R", "A", "B"] :=
  .setPseudo _ _ _ _ _ rfl (.loadOwn _ _ "R" _ _ (by simp) rfl
    (.loadExt _ _ _ _ rfl (.loadExt _ _ _ _ rfl (.ret _ _))))
theorem t₂_ideal : Ideal P₁ (view [] L₁) [] t₂ ["B", "R", "!404"] :=
  .setPseudo _ _ _ _ _ rfl (.loadExt _ _ _ _ rfl (.loadOwn _ _ "R" _ _ (by simp) rfl
    (.loadExt _ _ _ _ rfl (.ret _ _))))

/-- the hypothesis of `sched_independent` holds for these two threads -/
example : ∀ p ∈ [t₁, t₂], ∃ a, Ideal P₁ (view [] L₁) [] p a := by
  intro p hp
  simp at hp
  rcases hp with rfl | rfl
  · exact ⟨_, t₁_ideal⟩
  · exact ⟨_, t₂_ideal⟩

/-- an interleaving in which both threads miss on "b" and both fetch it (double fetch), yet the answers
are the solo answers -/
def sched₁ : List Nat := [0, 1, 0, 0, 0, 0, 1, 0, 1, 0, 1, 0, 1, 1, 1]

example : (runSched (Config.init [t₁, t₂] []) L₁ sched₁).allFinished = true := by decide
example : (runSched (Config.init [t₁, t₂] []) L₁ sched₁).results = [some ["R", "A", "B"], some ["B", "R", "!404"]] := by
  decide
example : ((runSched (Config.init [t₁, t₂] []) L₁ sched₁).trace.filter (· matches (_, .fetch "b" true))).length = 2 := by
  decide
example : validTraceMT [] (runSched (Config.init [t₁, t₂] []) L₁ sched₁).trace = true := by decide
example : [(runSeq t₁ [] L₁).result, (runSeq t₂ [] L₁).result] = [["R", "A", "B"], ["B", "R", "!404"]] := by decide

/-- an unfair / too short schedule leaves a thread unfinished, and a thread in the middle of `load` -/
example : (runSched (Config.init [t₁, t₂] []) L₁ [0, 0, 0, 0, 0, 0, 0, 0, 0, 0]).results = [some ["R", "A", "B"], none] := by
  decide
example : ((runSched (Config.init [t₁, t₂] []) L₁ [1, 1, 1]).threads.map fun s => s matches .storing "b" "B" _) = [false, true] := by
  decide

/-- The discipline is needed: thread B loads a URL that thread A registers as a pseudo document.
B's answer depends on the schedule. -/
def tA : Prog String String String := .setPseudo "a" "ID-SCHEMA" fun _ => .ret "done"
def tB : Prog String String String := .load "a" fun r => .ret (show' r)

example : (runSched (Config.init [tA, tB] []) L₁ [0, 1, 1, 1]).results = [some "done", some "ID-SCHEMA"] := by decide
example : (runSched (Config.init [tA, tB] []) L₁ [1, 1, 1, 0]).results = [some "done", some "A"] := by decide
/-- ... and the non-atomic `load` can even overwrite the pseudo document afterwards (lost update): -/
example : ((runSched (Config.init [tA, tB] []) L₁ [1, 1, 0, 1]).cache.get "a") = some "A" := by decide

/-- fairness: round-robin over two threads -/
example : Fair 2 (fun t => t % 2) := by
  intro i hi t
  exact ⟨2 * t + i, by omega, show (2 * t + i) % 2 = i by omega⟩

end Examples

/-! ### Side conditions on the Go source (regenerated facts, `decide`)

The model's atomic `Get` / `Set` are the critical sections of `simpleCache`; the package-level cache is
written once under `sync.Once` and only read (cloned) afterwards; nothing outside `simpleCache` touches its
map.  These are the facts the data-race clause rests on besides the `-race` runs of the harness. -/

open SpecModel.Cache.Side in
theorem side_lock_discipline : lockDiscipline SpecModel.Gen.storeAccesses = true := by decide
open SpecModel.Cache.Side in
theorem side_get_set_present : getSetPresent SpecModel.Gen.storeAccesses = true := by decide
theorem side_store_private : SpecModel.Gen.storeOutside = [] := by decide
open SpecModel.Cache.Side in
theorem side_init_only_once : initOnlyOnce SpecModel.Gen.initCalls = true := by decide
open SpecModel.Cache.Side in
theorem side_only_global_cloned : onlyGlobalCloned SpecModel.Gen.cloneCalls = true := by decide
open SpecModel.Cache.Side in
theorem side_pkgVars_stable : pkgVarsStable SpecModel.Gen.pkgVars = true := by decide

end SpecModel.Props.C17
