/-
C02 — Expansion preserves the meaning of every element.

Specification side (`Expand/Sem.lean`): the meaning of an element is the possibly infinite tree obtained by
replacing, for ever, every `$ref` by its target ("a $ref replaces its holder"); `Equiv W t W' t'` says that `t`
read in world `W` and `t'` read in world `W'` denote the same tree at every depth.  A reference is a KEY: the
canonical target obtained by resolving the `$ref` against the document that textually contains it (RFC 3986,
C12) and evaluating the fragment (RFC 6901) — so "interpreted relative to the containing document" is built
into the abstraction the harness performs with `net/url`, independently of the code.

Two layers:
* about the ALGORITHM (`Expand/Core.lean`, a line-for-line abstraction of expandSchema / expandSchemaRef /
  isCircular; tied to the code by the `xexpand` correspondence, which reproduces the real output exactly on
  acyclic graphs): `expand_preserves_meaning` — for every world, stack, memo, fuel and both modes;
* about EVERY REAL RUN (`Expand/Check.lean`): `run_validated` — the executable checker that the driver runs on
  the abstraction of the actual input and output is sound, so an accepted run is meaning-preserving whatever
  the order in which Go's map iteration made the code visit things.
-/
import SpecModel.Props.ExpandCore
import SpecModel.Expand.Check
import SpecModel.Expand.SideConditions

namespace SpecModel.Props.C02
open SpecModel.Expand SpecModel.Props

variable {K L : Type} [DecidableEq K]

/-- the output of the model's expander, read in a world where any set of keys has been replaced by expansions
of their own targets (the live, partially expanded root document), denotes what the input denoted -/
theorem expand_preserves_meaning {W W' : World K L} (rs : List K)
    (hrs : ∀ k, k ∈ rs → ∃ s s' c n p m m', W k = some s ∧ expand W c n p m s = .ok (s', m') ∧ W' k = some s')
    (hother : ∀ k, k ∉ rs → W' k = W k)
    {c : Bool} {n : Nat} {p m m' : List K} {t t' : Tree K L} (h : expand W c n p m t = .ok (t', m')) :
    Equiv W t W' t' := ExpandCore.expand_preserves_meaning rs hrs hother h

/-- every key of the output world denotes what it denoted in the input world -/
theorem world_preserved {W W' : World K L} (hW : WorldExp W W') (k : K) : Equiv W (.ref k) W' (.ref k) :=
  ExpandCore.world_equiv hW k

/-- **per run**: what the compiled checker accepts is meaning-preserving -/
theorem run_validated [DecidableEq L] {W W' : World K L} {n m : Nat} {ks : List K} {t t' : Tree K L}
    (hw : checkWorld W W' n ks = true) (hout : ∀ k, k ∉ ks → W k = none ∧ W' k = none)
    (he : checkExp W [] m t t' = true) : Equiv W t W' t' := check_sound hw hout he

/-- the meaning relation is an equivalence, and a reference means what its target means -/
theorem equiv_refl (W : World K L) (t : Tree K L) : Equiv W t W t := ExpandCore.equiv_refl W t
theorem equiv_symm {W W' : World K L} {t t' : Tree K L} (h : Equiv W t W' t') : Equiv W' t' W t :=
  ExpandCore.equiv_symm h
theorem equiv_trans {W W' W'' : World K L} {t t' t'' : Tree K L} (h : Equiv W t W' t')
    (h' : Equiv W' t' W'' t'') : Equiv W t W'' t'' := ExpandCore.equiv_trans h h'
theorem ref_means_target {W : World K L} {k : K} {s : Tree K L} (hs : W k = some s) : Equiv W (.ref k) W s :=
  ExpandCore.equiv_ref hs

/-- the relation is not trivial: a dangling reference and a node never mean the same -/
theorem dangling_differs_from_node {W W' : World K L} {k : K} (hk : W k = none) {l : L} {cs : List (Tree K L)} :
    ¬ Equiv W (.ref k) W' (.node l cs) := ExpandCore.not_equiv_dangling_node hk

/-! non-vacuity: the checker accepts the real shape of an expansion of the running example, and rejects a
wrong one -/
example : checkExp ExpandCore.Wx [] 40 ExpandCore.tx
    (.node "root" [.node "a" [.node "b" [.ref 0], .node "c" [.node "d" []]], .node "c" [.node "d" []]]) = true := by
  decide
example : checkExp ExpandCore.Wx [] 40 ExpandCore.tx
    (.node "root" [.node "a" [.node "b" [.ref 0], .node "c" [.node "WRONG" []]], .node "c" [.node "d" []]]) = false := by
  decide
example : checkWorld ExpandCore.Wx ExpandCore.Wx' 40 ExpandCore.ksx = true := by decide


/-! ### Side conditions on the shape of expander.go (regenerated facts, `decide`) -/

/-- every schema keyword that can hold a sub-schema (regenerated struct table of SchemaProps) is a position
`expandSchema` / `expandItems` recurse into (regenerated from their AST), and conversely -/
theorem side_positions_complete :
    SpecModel.Expand.Side.positionsComplete SpecModel.Gen.structs SpecModel.Gen.expandPositions = true := by decide

theorem side_sections_complete : SpecModel.Expand.Side.sectionsComplete SpecModel.Gen.specSections = true := by decide

theorem side_operations_complete :
    SpecModel.Expand.Side.operationsComplete SpecModel.Gen.pathItemOperations SpecModel.Gen.pathItemOperationFields = true := by
  decide

end SpecModel.Props.C02
