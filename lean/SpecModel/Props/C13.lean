/-
C13 — Reference values (URL part): `NormalizeURL` is idempotent and the classification of a reference
(five flags, `IsRoot`, `IsCanonical`) is a function of the normalised URL.

Model: SpecModel/Url/Url.lean (`normalizeURL`, `Ref.new` = `jsonreference.New` on a parsed URL).
The JSON / gob codec part of C13 lives with the codec models. Statements only here.
-/
import SpecModel.Url.Lemmas

namespace SpecModel.Props.C13
open SpecModel.Url

/-- The host has at most one port: at most one `:`. -/
abbrev OnePort (u : URL) : Prop := u.host.toList.count ':' ≤ 1

/-- `NormalizeURL` is idempotent when the host has at most one port. -/
theorem normalizeURL_idem (u : URL) (h : OnePort u) : normalizeURL (normalizeURL u) = normalizeURL u :=
  normalizeURL_idem_of (not_stacked_of_one_colon h)

example : OnePort ⟨"HTTP", "H.Com:80", "/a//b", "q", "f"⟩ ∧
    normalizeURL ⟨"HTTP", "H.Com:80", "/a//b", "q", "f"⟩ = ⟨"http", "h.com", "/a/b", "q", "f"⟩ := by
  refine ⟨by decide, by decide⟩

/-- The exact condition: idempotent unless the scheme's default port is stacked on itself
(`…:80:80` for http, `…:443:443` for https), compared after lower-casing. -/
theorem normalizeURL_idem_exact (u : URL) (h : ¬ StackedPort (lower u.scheme) (lowerL u.host.toList)) :
    normalizeURL (normalizeURL u) = normalizeURL u :=
  normalizeURL_idem_of h

example : ¬ StackedPort (lower "http") (lowerL "h:8080:80".toList) := by
  unfold StackedPort
  rw [← List.isSuffixOf_iff_suffix, ← List.isSuffixOf_iff_suffix]
  decide

/-- Outside that domain idempotence fails (known finding: the regular expression removes one `:80` per pass). -/
theorem normalizeURL_not_idem_stacked :
    normalizeURL (normalizeURL ⟨"http", "h:80:80", "", "", ""⟩) ≠ normalizeURL ⟨"http", "h:80:80", "", "", ""⟩ := by
  decide

/-- The classification is a function of the normalised URL: building a reference from the URL of a
reference gives the same reference. -/
theorem flags_function_of_url (u : URL) (h : OnePort u) : Ref.new (Ref.new u).url = Ref.new u := by
  show Ref.classify (normalizeURL (normalizeURL u)) = Ref.classify (normalizeURL u)
  rw [normalizeURL_idem u h]

example : OnePort ⟨"File", "", "//r//root.json", "", "/definitions/x"⟩ ∧
    (Ref.new ⟨"File", "", "//r//root.json", "", "/definitions/x"⟩).flags = [false, true, false, true, true] ∧
    (Ref.new ⟨"File", "", "//r//root.json", "", "/definitions/x"⟩).isCanonical = true := by
  refine ⟨by decide, by decide, by decide⟩

/-- Flags, `IsRoot` and `IsCanonical` are determined by the URL of the reference (no other state). -/
theorem ref_determined_by_url (u v : URL) (h : (Ref.new u).url = (Ref.new v).url) : Ref.new u = Ref.new v := by
  show Ref.classify (normalizeURL u) = Ref.classify (normalizeURL v)
  have : normalizeURL u = normalizeURL v := h
  rw [this]

example : (Ref.new ⟨"HTTP", "h.com:80", "/a", "", ""⟩).url = (Ref.new ⟨"http", "H.com", "//a", "", ""⟩).url := by
  decide

end SpecModel.Props.C13
