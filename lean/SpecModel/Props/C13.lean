/-
C13 — Reference values (URL part): `NormalizeURL` is idempotent and the classification of a reference
(five flags, `IsRoot`, `IsCanonical`) is a function of the normalised URL.

Model: SpecModel/Url/Url.lean (`normalizeURL`, `Ref.new` = `jsonreference.New` on a parsed URL).
The JSON / gob codec part of C13 lives with the codec models. Statements only here.
-/
import SpecModel.Url.Lemmas
import SpecModel.Codec.UrlIdem

namespace SpecModel.Props.C13
open SpecModel.Url

/-- The host has at most one port: at most one `:`. -/
abbrev OnePort (u : URL) : Prop := u.host.toList.count ':' ≤ 1

/-- `NormalizeURL` is idempotent when the host has at most one port. -/
theorem normalizeURL_idem (u : URL) (h : OnePort u) : normalizeURL (normalizeURL u) = normalizeURL u :=
  normalizeURL_idem_of (not_stacked_of_one_colon h)

example : OnePort ⟨"HTTP", "H.Com:80", "/a//b", "q", "f"⟩ ∧
    normalizeURL ⟨"HTTP", "H.Com:80", "/a//b", "q", "f"⟩ = ⟨"http", "h.com", "/a/b", "q", "f"⟩ := by
  refine ⟨by decide, by decide⟩

/-- The exact condition: idempotent unless the scheme's default port is stacked on itself
(`…:80:80` for http, `…:443:443` for https), compared after lower-casing. -/
theorem normalizeURL_idem_exact (u : URL) (h : ¬ StackedPort (lower u.scheme) (lowerL u.host.toList)) :
    normalizeURL (normalizeURL u) = normalizeURL u :=
  normalizeURL_idem_of h

example : ¬ StackedPort (lower "http") (lowerL "h:8080:80".toList) := by
  unfold StackedPort
  rw [← List.isSuffixOf_iff_suffix, ← List.isSuffixOf_iff_suffix]
  decide

/-- Outside that domain idempotence fails (known finding: the regular expression removes one `:80` per pass). -/
theorem normalizeURL_not_idem_stacked :
    normalizeURL (normalizeURL ⟨"http", "h:80:80", "", "", ""⟩) ≠ normalizeURL ⟨"http", "h:80:80", "", "", ""⟩ := by
  decide

/-- The classification is a function of the normalised URL: building a reference from the URL of a
reference gives the same reference. -/
theorem flags_function_of_url (u : URL) (h : OnePort u) : Ref.new (Ref.new u).url = Ref.new u := by
  show Ref.classify (normalizeURL (normalizeURL u)) = Ref.classify (normalizeURL u)
  rw [normalizeURL_idem u h]

example : OnePort ⟨"File", "", "//r//root.json", "", "/definitions/x"⟩ ∧
    (Ref.new ⟨"File", "", "//r//root.json", "", "/definitions/x"⟩).flags = [false, true, false, true, true] ∧
    (Ref.new ⟨"File", "", "//r//root.json", "", "/definitions/x"⟩).isCanonical = true := by
  refine ⟨by decide, by decide, by decide⟩

/-- Flags, `IsRoot` and `IsCanonical` are determined by the URL of the reference (no other state). -/
theorem ref_determined_by_url (u v : URL) (h : (Ref.new u).url = (Ref.new v).url) : Ref.new u = Ref.new v := by
  show Ref.classify (normalizeURL u) = Ref.classify (normalizeURL v)
  have : normalizeURL u = normalizeURL v := h
  rw [this]

example : (Ref.new ⟨"HTTP", "h.com:80", "/a", "", ""⟩).url = (Ref.new ⟨"http", "H.com", "//a", "", ""⟩).url := by
  decide

/-! ### text level: parse → print is idempotent

`Codec.urlString` models `NewRef(s).String()` (url.Parse, jsonreference normalisation, URL.String) on the tame
grammar of Codec/Url.lean, and is tied to the code by the `refprint` correspondence of this property (and, for the
`$ref` / `$schema` members of whole documents, by the `norm` correspondence of the codec properties). -/

open SpecModel.Codec in
/-- Printing a parsed reference gives a text that parses and prints as itself: whatever `s` is (escapes, blanks,
non-ASCII, with or without authority and fragment), if it parses, its printed form is a fixed point. -/
theorem printing_is_idempotent {s t : String} (h : urlString s = .ok t) : urlString t = .ok t :=
  urlString_idem h

/-- one more parse/print round on a result -/
def again : SpecModel.Codec.UrlRes → SpecModel.Codec.UrlRes
  | .ok x => SpecModel.Codec.urlString x
  | r => r

open SpecModel.Codec in
/-- hence a printed reference survives any number of further parse/print rounds (the JSON and gob codecs of `Ref`
carry exactly this text) -/
theorem printed_text_is_stable {s t : String} (h : urlString s = .ok t) (n : Nat) :
    Nat.repeat again n (.ok t) = .ok t := by
  induction n with
  | zero => rfl
  | succ k ih =>
    show again (Nat.repeat again k (.ok t)) = .ok t
    rw [ih]; exact urlString_idem h

open SpecModel.Codec in
example : urlString "http://h.example/a b/é.json#/definitions/x y" =
    .ok "http://h.example/a%20b/%C3%A9.json#/definitions/x%20y" := by decide

open SpecModel.Codec in
example : urlString "../models/tree node.json#/definitions/a~1b" = .ok "../models/tree%20node.json#/definitions/a~1b" := by
  decide

end SpecModel.Props.C13
