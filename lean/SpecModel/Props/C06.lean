/-
C06 — Encoding is well-formed, collision-free and deterministic.

Model: `SpecModel/Codec` (`norm K = decode as kind K, then encode`; tied to the Go codecs by the `norm`
correspondence on every run).  What is proved here, for all inputs:

* determinism of the one place where Go's map iteration order could leak into the bytes — the hand-written
  `SchemaProperties.MarshalJSON`: `OrderSchemaItems.Less` (x-order, then name) is asymmetric, transitive and
  total on members with distinct names, so the sorted member list is the same for every arrival order
  (`properties_order_deterministic`), it is ordered by x-order then name (`properties_sorted`);
* Go maps (`map[string]T`, extensions, free-form payloads) are printed with strictly increasing keys, hence
  never with the same member twice (`go_map_keys_strictly_increasing`, `payload_no_duplicate_member`);
* the statically named members of a kind cannot collide: the member names of all parts that a kind's
  `MarshalJSON` concatenates are pairwise distinct, none of them looks like a vendor extension, and each part
  that is encoded is also decoded (regenerated struct tables and part lists, `decide`).
Everything else of the encoder is Go's `encoding/json` on structs (modelled, tied by correspondence).
-/
import SpecModel.Codec.SortLemmas
import SpecModel.Codec.SideConditions
import SpecModel.Codec.NoDup

namespace SpecModel.Props.C06
open SpecModel SpecModel.Codec

/-- Whatever order Go's map iteration hands the properties over in, `SchemaProperties.MarshalJSON` emits the
same member list. -/
theorem properties_order_deterministic {l₁ l₂ : List (String × Json)} (hp : l₁.Perm l₂)
    (hn : (l₁.map (·.1)).Nodup) : sortBy lessItem l₁ = sortBy lessItem l₂ :=
  sortBy_lessItem_perm_invariant hp hn

example : sortBy lessItem [("b", .obj [("x-order", .num 1)]), ("a", .obj [("x-order", .num 1)]), ("c", .obj [])]
        = sortBy lessItem [("c", .obj []), ("a", .obj [("x-order", .num 1)]), ("b", .obj [("x-order", .num 1)])] :=
  properties_order_deterministic
    ((List.Perm.swap _ _ _).trans (List.perm_append_comm (l₁ := [_, _]) (l₂ := [_]))) (by decide)

/-- … and that list is ordered by `x-order`, then by name (strictly: each member precedes every later one). -/
theorem properties_sorted {l : List (String × Json)} (hn : (l.map (·.1)).Nodup) :
    (sortBy lessItem l).Pairwise (fun x y => lessItem x y = true) ∧ (sortBy lessItem l).Perm l :=
  ⟨sortBy_lessItem_pairwise hn, sortBy_perm lessItem l⟩

example : (sortBy lessItem [("b", .obj [("x-order", .num 1)]), ("a", .obj [("x-order", .num 1)]), ("c", .obj [])]).map (·.1)
    = ["a", "b", "c"] := by decide

/-- the ordering relation itself: x-order first (members without one last), ties broken by name -/
theorem less_is_xorder_then_name (a b : String × Json) :
    lessItem a b = (match xOrder a.2, xOrder b.2 with
      | some i, some j => if i == j then decide (a.1 < b.1) else decide (i < j)
      | some _, none => true
      | none, some _ => false
      | none, none => decide (a.1 < b.1)) := by
  unfold lessItem; rfl

theorem less_asymm (a b : String × Json) : lessItem a b = true → lessItem b a = true → False := lessItem_asymm a b
theorem less_trans (a b c : String × Json) : lessItem a b = true → lessItem b c = true → lessItem a c = true :=
  lessItem_trans a b c
theorem less_total (a b : String × Json) (h : a.1 ≠ b.1) : lessItem a b = true ∨ lessItem b a = true :=
  lessItem_total a b h

/-- A Go map is printed with strictly increasing keys: in particular no member name occurs twice. -/
theorem go_map_keys_strictly_increasing (ms : List (String × Json)) :
    KeysSorted (toGoMap ms) ∧ ((toGoMap ms).map (·.1)).Nodup :=
  ⟨toGoMap_sorted ms, keysSorted_nodup (toGoMap_sorted ms)⟩

example : (toGoMap [("b", .num 1), ("a", .num 2), ("b", .num 3)]).map (·.1) = ["a", "b"] := by decide

/-- Free-form payloads are printed in Go's normal form: every object inside has strictly increasing keys. -/
theorem payload_no_duplicate_member {j j' : Json} (h : normAny j = .ok j') : GoAny j' := normAny_goAny j j' h

/-! ### Whole documents: no member name twice, at any depth

`norm K` is the model of "decode as kind K, then encode" for all seventeen kinds (tied to the Go codecs by the
`norm` correspondence).  The theorem is proved once for any tables satisfying `TablesOK`; `tables_ok` discharges
`TablesOK` for the tables REGENERATED from /repo on this run (`decide`): member names of every struct table
pairwise distinct; for every kind, the names of all parts its MarshalJSON concatenates pairwise distinct, none
of them an `x-` name, at most one extensions part; the same for the hand-written kinds (schema, response,
security scheme).  A source change that makes two parts of a kind emit the same member breaks `tables_ok`. -/

theorem tables_ok : TablesOK := ⟨by decide, by decide, by decide⟩

/-- **Every encoding of a decoded value is collision-free**: whatever `norm K j` returns has no object, at any
depth, carrying the same member name twice. -/
theorem encoding_has_no_duplicate_member (k : String) (j j' : Json) (h : norm k j = .ok j') : ND j' :=
  norm_nd tables_ok k j j' h

/-- `ND` says what it should on a small example, and is not trivially true -/
example : ND (.obj [("a", .arr [.obj [("x", .null), ("y", .null)]]), ("b", .num 1)]) := by
  simp [ND, NDL, NDM]
example : ¬ ND (.obj [("a", .obj [("x", .null), ("x", .null)])]) := by
  simp [ND, NDM]

/-! ### Side conditions on the regenerated tables -/

theorem side_parts_disjoint : Side.partsDisjoint Gen.kinds = true := by decide
theorem side_parts_paired : Side.partsPaired Gen.kinds = true := by decide

/-- model-level test (a test, not a theorem): a tuple with no position is still written as a tuple — the input class
behind seed C06k and fix 21bfdbf -/
example : norm "schema" (.obj [("type", .str "array"), ("items", .arr []), ("additionalItems", .bool false)])
    = .ok (.obj [("type", .str "array"), ("items", .arr []), ("additionalItems", .bool false)]) := by rfl

end SpecModel.Props.C06
