/-
C08 — Expansion never fails silently.

About the algorithm (`Expand/Core.lean`; `W k = none` = missing document, missing pointer target, or a target
that is a string / number / boolean / array), for every finite world:
* `strict_error_iff` — strict mode fails IFF some reference reachable from the input is unresolvable: no
  silent failure and no spurious error;
* `continue_ok` — with ContinueOnError there is always a result;
* `continue_verbatim` — every unresolvable reference reachable from the input is still there, as it was;
* `continue_remaining` — whatever else remains is a cycle cut;
and per run (`Expand/Check.lean`): `run_continue_validated`.
The model is tied to the code on faulted graphs by the `xexpand` status correspondence (error / no error).
-/
import SpecModel.Props.ExpandCore
import SpecModel.Expand.Check
import SpecModel.Expand.SideConditions

namespace SpecModel.Props.C08
open SpecModel.Expand SpecModel.Props

variable {K L : Type} [DecidableEq K]

theorem strict_error_iff {W : World K L} {ks : List K} (hW : FiniteWorld W ks) (t : Tree K L) {n : Nat}
    (hn : ExpandCore.fuelBound W ks t ≤ n) :
    (∃ k, expand W false n [] [] t = .err k) ↔ ∃ k, ReachFrom W t k ∧ W k = none :=
  ExpandCore.strict_error_iff hW t hn

theorem continue_ok {W : World K L} {ks : List K} (hW : FiniteWorld W ks) (p m : List K) (t : Tree K L)
    {n : Nat} (hn : ExpandCore.fuelBound W ks t ≤ n) : ∃ r, expand W true n p m t = .ok r :=
  ExpandCore.continue_ok hW p m t hn

theorem continue_verbatim {W : World K L} {n : Nat} {m' : List K} {t t' : Tree K L} {k : K}
    (h : expand W true n [] [] t = .ok (t', m')) (hr : ReachFrom W t k) (hk : W k = none) : k ∈ refsOf t' :=
  ExpandCore.continue_verbatim h hr hk

theorem continue_remaining {W : World K L} {n : Nat} {m' : List K} {t t' : Tree K L}
    (h : expand W true n [] [] t = .ok (t', m')) : ∀ k, k ∈ refsOf t' → OnCycle W k ∨ W k = none :=
  ExpandCore.continue_remaining h

theorem run_continue_validated [DecidableEq L] {W : World K L} {n : Nat} {t' : Tree K L}
    (h : checkCutsOrDangling W n t' = true) : ∀ k, k ∈ refsOf t' → W k = none ∨ OnCycle W k :=
  checkCutsOrDangling_sound h

example : expand ExpandCore.Wx false 40 [] [] ExpandCore.tBad = .err 9 := rfl
example : ∃ r, expand ExpandCore.Wx true 40 [] [] ExpandCore.tBad = .ok r :=
  continue_ok ExpandCore.finiteWorld_Wx [] [] ExpandCore.tBad (by decide)


/-! ### Side condition on the shape of expander.go (regenerated facts, `decide`) -/

/-- no recursive call of the expander drops an error: each is tested by `shouldStopOnError` or returned -/
theorem side_errors_propagated : SpecModel.Expand.Side.errorsPropagated SpecModel.Gen.expandErrorSites = true := by decide

end SpecModel.Props.C08
