/-
C20 — Validation accessors are lossless and the clear operations are exact.

The definitions these theorems are about live in `SpecModel.Generated.Validations`, which is re-translated
from /repo's validations.go / schema.go on every run. Statements only here; no helper lemmas are needed.
-/
import SpecModel.Generated.Validations

namespace SpecModel.Props.C20
open SpecModel.Gen SpecModel.ValidationsPrelude

/-! ### read-then-write and write-then-read -/

/-- Reading the validation set of a simple carrier and writing it back changes nothing. -/
theorem common_set_get (v : CommonValidations) : v.SetValidations v.Validations = v := by
  cases v; rfl

/-- Writing a set on a simple carrier makes exactly its simple-schema validations readable back
(object validations are documented as ignored by simple carriers). -/
theorem common_get_set (v : CommonValidations) (val : SchemaValidations) :
    (v.SetValidations val).Validations = { SchemaValidations.zero with CommonValidations := val.CommonValidations } := by
  cases v; cases val; rename_i c _ _ _; cases c; rfl

theorem schemaValidations_set_get (v : SchemaValidations) : v.SetValidations v.Validations = v := by
  cases v; rename_i c _ _ _; cases c; rfl

theorem schemaValidations_get_set (v val : SchemaValidations) : (v.SetValidations val).Validations = val := by
  cases v; cases val; rename_i c _ _ _ d _ _ _; cases c; cases d; rfl

theorem schema_set_get (s : Schema) : s.SetValidations s.Validations = s := by
  cases s; rename_i _ p _ _; cases p; rfl

theorem schema_get_set (s : Schema) (val : SchemaValidations) : (s.SetValidations val).Validations = val := by
  cases s; cases val; rename_i _ p _ _ c _ _ _; cases p; cases c; rfl

/-- Writing a set on a schema touches the fifteen validation fields only. -/
theorem schema_set_frame (s : Schema) (val : SchemaValidations) :
    s.SetValidations val =
      { s with SchemaProps := { s.SchemaProps with
          Maximum := val.CommonValidations.Maximum, ExclusiveMaximum := val.CommonValidations.ExclusiveMaximum,
          Minimum := val.CommonValidations.Minimum, ExclusiveMinimum := val.CommonValidations.ExclusiveMinimum,
          MaxLength := val.CommonValidations.MaxLength, MinLength := val.CommonValidations.MinLength,
          Pattern := val.CommonValidations.Pattern, MaxItems := val.CommonValidations.MaxItems,
          MinItems := val.CommonValidations.MinItems, UniqueItems := val.CommonValidations.UniqueItems,
          MultipleOf := val.CommonValidations.MultipleOf, Enum := val.CommonValidations.Enum,
          MinProperties := val.MinProperties, MaxProperties := val.MaxProperties,
          PatternProperties := val.PatternProperties } } := by
  rfl

/-! the three carriers that embed `CommonValidations` -/

theorem parameter_set_get (p : Parameter) : p.SetValidations p.Validations = p := by
  cases p; rename_i _ c _ _ _; cases c; rfl
theorem parameter_get_set (p : Parameter) (val : SchemaValidations) :
    (p.SetValidations val).Validations = { SchemaValidations.zero with CommonValidations := val.CommonValidations } := by
  cases p; cases val; rename_i _ c _ _ _ d _ _ _; cases c; cases d; rfl
theorem parameter_set_frame (p : Parameter) (val : SchemaValidations) :
    p.SetValidations val = { p with CommonValidations := val.CommonValidations } := by
  cases p; cases val; rename_i _ c _ _ _ d _ _ _; cases c; cases d; rfl

theorem header_set_get (p : Header) : p.SetValidations p.Validations = p := by
  cases p; rename_i c _ _ _; cases c; rfl
theorem header_get_set (p : Header) (val : SchemaValidations) :
    (p.SetValidations val).Validations = { SchemaValidations.zero with CommonValidations := val.CommonValidations } := by
  cases p; cases val; rename_i c _ _ _ d _ _ _; cases c; cases d; rfl
theorem header_set_frame (p : Header) (val : SchemaValidations) :
    p.SetValidations val = { p with CommonValidations := val.CommonValidations } := by
  cases p; cases val; rename_i c _ _ _ d _ _ _; cases c; cases d; rfl

theorem items_set_get (p : Items) : p.SetValidations p.Validations = p := by
  cases p; rename_i _ c _ _; cases c; rfl
theorem items_get_set (p : Items) (val : SchemaValidations) :
    (p.SetValidations val).Validations = { SchemaValidations.zero with CommonValidations := val.CommonValidations } := by
  cases p; cases val; rename_i _ c _ _ d _ _ _; cases c; cases d; rfl
theorem items_set_frame (p : Items) (val : SchemaValidations) :
    p.SetValidations val = { p with CommonValidations := val.CommonValidations } := by
  cases p; cases val; rename_i _ c _ _ d _ _ _; cases c; cases d; rfl

/-! ### clear operations

The specification of a clear: which (keyword, previous value) pairs a family holds. Written independently of
the code (the standard says which keyword belongs to which family); order is the documentation order. -/

def present (k : String) (v : Val) (isSet : Bool) : List (String × Val) := if isSet then [(k, v)] else []

def numberFamily (v : CommonValidations) : List (String × Val) :=
  present "minimum" (.optInt v.Minimum) v.Minimum.isSome ++
  present "maximum" (.optInt v.Maximum) v.Maximum.isSome ++
  present "exclusiveMaximum" (.bool v.ExclusiveMaximum) v.ExclusiveMaximum ++
  present "exclusiveMinimum" (.bool v.ExclusiveMinimum) v.ExclusiveMinimum ++
  present "multipleOf" (.optInt v.MultipleOf) v.MultipleOf.isSome

def stringFamily (v : CommonValidations) : List (String × Val) :=
  present "pattern" (.str v.Pattern) (v.Pattern != "") ++
  present "minLength" (.optInt v.MinLength) v.MinLength.isSome ++
  present "maxLength" (.optInt v.MaxLength) v.MaxLength.isSome

def arrayFamily (v : CommonValidations) : List (String × Val) :=
  present "maxItems" (.optInt v.MaxItems) v.MaxItems.isSome ++
  present "minItems" (.optInt v.MinItems) v.MinItems.isSome ++
  present "uniqueItems" (.bool v.UniqueItems) v.UniqueItems

def objectFamily (v : SchemaValidations) : List (String × Val) :=
  present "maxProperties" (.optInt v.MaxProperties) v.MaxProperties.isSome ++
  present "minProperties" (.optInt v.MinProperties) v.MinProperties.isSome ++
  present "patternProperties" (.props v.PatternProperties) v.PatternProperties.isSome

/-- What every callback must see: each removed pair exactly once per callback, callbacks in order. -/
def expectedTrace (removed : List (String × Val)) (ncb : Nat) : List (Nat × String × Val) :=
  (List.range ncb).flatMap fun i => removed.map fun c => (i, c.1, c.2)

/-- Clearing the number family zeroes exactly its five fields (every other field is the old one),
and reports exactly the pairs that were present, once to each callback. -/
theorem clearNumber_exact (v : CommonValidations) (ncb : Nat) :
    v.ClearNumberValidations ncb =
      ({ v with Minimum := none, Maximum := none, ExclusiveMaximum := false, ExclusiveMinimum := false, MultipleOf := none },
       expectedTrace (numberFamily v) ncb) := by
  obtain ⟨mx, emx, mn, emn, _, _, _, _, _, _, mo, _⟩ := v
  cases mx <;> cases mn <;> cases mo <;> cases emx <;> cases emn <;> rfl

theorem clearNumber_has (v : CommonValidations) (ncb : Nat) :
    (v.ClearNumberValidations ncb).1.HasNumberValidations = false := by
  rw [clearNumber_exact]; rfl

theorem clearString_exact (v : CommonValidations) (ncb : Nat) :
    v.ClearStringValidations ncb =
      ({ v with Pattern := "", MinLength := none, MaxLength := none }, expectedTrace (stringFamily v) ncb) := by
  obtain ⟨_, _, _, _, mxl, mnl, pat, _, _, _, _, _⟩ := v
  by_cases hp : pat = "" <;> cases mxl <;> cases mnl <;>
    simp [CommonValidations.ClearStringValidations, stringFamily, present, expectedTrace, clearedValidations.apply, hp]

theorem clearString_has (v : CommonValidations) (ncb : Nat) :
    (v.ClearStringValidations ncb).1.HasStringValidations = false := by
  rw [clearString_exact]; rfl

theorem clearArray_exact (v : CommonValidations) (ncb : Nat) :
    v.ClearArrayValidations ncb =
      ({ v with MaxItems := none, MinItems := none, UniqueItems := false }, expectedTrace (arrayFamily v) ncb) := by
  obtain ⟨_, _, _, _, _, _, _, mxi, mni, u, _, _⟩ := v
  cases mxi <;> cases mni <;> cases u <;> rfl

theorem clearArray_has (v : CommonValidations) (ncb : Nat) :
    (v.ClearArrayValidations ncb).1.HasArrayValidations = false := by
  rw [clearArray_exact]; rfl

theorem clearObject_exact (v : SchemaValidations) (ncb : Nat) :
    v.ClearObjectValidations ncb =
      ({ v with MaxProperties := none, MinProperties := none, PatternProperties := none },
       expectedTrace (objectFamily v) ncb) := by
  obtain ⟨_, pp, mxp, mnp⟩ := v
  cases pp <;> cases mxp <;> cases mnp <;> rfl

theorem clearObject_has (v : SchemaValidations) (ncb : Nat) :
    (v.ClearObjectValidations ncb).1.HasObjectValidations = false := by
  rw [clearObject_exact]; rfl

/-- "exactly once per callback": the trace seen by callback `i` is the removed list, for every `i < ncb`. -/
theorem expectedTrace_per_callback (removed : List (String × Val)) (ncb i : Nat) (h : i < ncb) :
    ((expectedTrace removed ncb).filter (fun c => c.1 == i)).map (fun c => (c.2.1, c.2.2)) = removed := by
  induction ncb with
  | zero => omega
  | succ n ih =>
    simp only [expectedTrace, List.range_succ, List.flatMap_append, List.filter_append, List.map_append] at *
    by_cases hi : i < n
    · have := ih hi
      rw [this]
      simp [List.filter_map, Function.comp_def]
      intro _ _ _ ; omega
    · have hin : i = n := by omega
      subst hin
      have : (List.filter (fun c => c.1 == i)
          (List.flatMap (fun i => List.map (fun c => (i, c.1, c.2)) removed) (List.range i))) = [] := by
        simp [List.filter_eq_nil_iff]
        intro a b c x hx _ _ h1 _ _; omega
      rw [this]
      simp [List.filter_map, Function.comp_def]

/-- The promoted clear operations on parameters, headers and items change the embedded validations only. -/
theorem parameter_clearNumber_frame (p : Parameter) (ncb : Nat) :
    p.ClearNumberValidations ncb =
      ({ p with CommonValidations := (p.CommonValidations.ClearNumberValidations ncb).1 },
       (p.CommonValidations.ClearNumberValidations ncb).2) := rfl
theorem parameter_clearString_frame (p : Parameter) (ncb : Nat) :
    p.ClearStringValidations ncb =
      ({ p with CommonValidations := (p.CommonValidations.ClearStringValidations ncb).1 },
       (p.CommonValidations.ClearStringValidations ncb).2) := rfl
theorem parameter_clearArray_frame (p : Parameter) (ncb : Nat) :
    p.ClearArrayValidations ncb =
      ({ p with CommonValidations := (p.CommonValidations.ClearArrayValidations ncb).1 },
       (p.CommonValidations.ClearArrayValidations ncb).2) := rfl
theorem header_clearNumber_frame (p : Header) (ncb : Nat) :
    p.ClearNumberValidations ncb =
      ({ p with CommonValidations := (p.CommonValidations.ClearNumberValidations ncb).1 },
       (p.CommonValidations.ClearNumberValidations ncb).2) := rfl
theorem header_clearString_frame (p : Header) (ncb : Nat) :
    p.ClearStringValidations ncb =
      ({ p with CommonValidations := (p.CommonValidations.ClearStringValidations ncb).1 },
       (p.CommonValidations.ClearStringValidations ncb).2) := rfl
theorem header_clearArray_frame (p : Header) (ncb : Nat) :
    p.ClearArrayValidations ncb =
      ({ p with CommonValidations := (p.CommonValidations.ClearArrayValidations ncb).1 },
       (p.CommonValidations.ClearArrayValidations ncb).2) := rfl
theorem items_clearNumber_frame (p : Items) (ncb : Nat) :
    p.ClearNumberValidations ncb =
      ({ p with CommonValidations := (p.CommonValidations.ClearNumberValidations ncb).1 },
       (p.CommonValidations.ClearNumberValidations ncb).2) := rfl
theorem items_clearString_frame (p : Items) (ncb : Nat) :
    p.ClearStringValidations ncb =
      ({ p with CommonValidations := (p.CommonValidations.ClearStringValidations ncb).1 },
       (p.CommonValidations.ClearStringValidations ncb).2) := rfl
theorem items_clearArray_frame (p : Items) (ncb : Nat) :
    p.ClearArrayValidations ncb =
      ({ p with CommonValidations := (p.CommonValidations.ClearArrayValidations ncb).1 },
       (p.CommonValidations.ClearArrayValidations ncb).2) := rfl

/-- `has` queries say exactly whether the family list is non-empty (so they are false iff nothing would be
reported), except for the two exclusive flags, which `HasNumberValidations` does not count. -/
theorem hasString_iff (v : CommonValidations) : v.HasStringValidations = !(stringFamily v).isEmpty := by
  obtain ⟨_, _, _, _, mxl, mnl, pat, _, _, _, _, _⟩ := v
  by_cases hp : pat = "" <;> cases mxl <;> cases mnl <;>
    simp [CommonValidations.HasStringValidations, stringFamily, present, hp]

theorem hasArray_iff (v : CommonValidations) : v.HasArrayValidations = !(arrayFamily v).isEmpty := by
  obtain ⟨_, _, _, _, _, _, _, mxi, mni, u, _, _⟩ := v
  cases mxi <;> cases mni <;> cases u <;> rfl

theorem hasObject_iff (v : SchemaValidations) : v.HasObjectValidations = !(objectFamily v).isEmpty := by
  obtain ⟨_, pp, mxp, mnp⟩ := v
  cases pp <;> cases mxp <;> cases mnp <;> rfl

/-! non-vacuity: a concrete carrier with every family populated -/
def sample : CommonValidations :=
  { Maximum := some 0, ExclusiveMaximum := true, Minimum := some 0, ExclusiveMinimum := false, MaxLength := some 0,
    MinLength := some 3, Pattern := "^a", MaxItems := some 0, MinItems := none, UniqueItems := true,
    MultipleOf := some 0, Enum := some [] }

example : (sample.ClearNumberValidations 2).2.length = 8 := by decide
example : numberFamily sample ≠ [] ∧ stringFamily sample ≠ [] ∧ arrayFamily sample ≠ [] := by decide

end SpecModel.Props.C20
