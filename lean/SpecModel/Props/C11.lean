/-
C11 — Equivalent spellings of the root location.

`normalizeBase cwd u` is /repo/normalizer.go `normalizeBase` on an already parsed URL `u`, with the working
directory as a parameter (model: SpecModel/Url/Normalizer.lean; helper lemmas: SpecModel/Url/Lemmas.lean).
Statements only here.
-/
import SpecModel.Url.Lemmas

namespace SpecModel.Props.C11
open SpecModel.Url SpecModel.Url.Path

/-- (1) Normalising a normalised base changes nothing. -/
theorem normalizeBase_idem {cwd : String} (hc : CwdOk cwd) (u : URL) :
    normalizeBase cwd (normalizeBase cwd u) = normalizeBase cwd u := by
  unfold normalizeBase
  simp only []
  split
  · next h =>
    by_cases hf : u.scheme = fileScheme
    · simp only [hf, if_true, cleanPath_idem, isAbs_cleanPath] at h ⊢
      have habs : isAbs u.path = true := by
        rcases h.2 with h2 | h2
        · exact h2
        · exact absurd rfl h2
      simp [habs, fileScheme]
    · simp only [hf, if_false, cleanPath_idem, isAbs_cleanPath] at h ⊢
      simp [h, hf]
  · next h =>
    simp only [cleanPath_absPath hc, absPath_abs hc, fileScheme]
    simp

example : CwdOk "/home/u" ∧
    normalizeBase "/home/u" (normalizeBase "/home/u" ⟨"", "", "a/../spec//root.json", "q=1", "/definitions/x"⟩)
      = ⟨"file", "", "/home/u/spec/root.json", "", ""⟩ := by
  refine ⟨⟨by decide, by decide⟩, by decide⟩

/-- (2) The result is canonical: it has a scheme, no fragment, a path that is empty or cleaned, and for the
`file` scheme an absolute path. -/
theorem normalizeBase_canonical {cwd : String} (hc : CwdOk cwd) (u : URL) :
    let n := normalizeBase cwd u
    n.scheme ≠ "" ∧ n.fragment = "" ∧ (n.path = "" ∨ clean n.path = n.path) ∧
      (n.scheme = "file" → isAbs n.path = true) := by
  unfold normalizeBase
  simp only []
  split
  · next h =>
    by_cases hf : u.scheme = fileScheme
    · simp only [hf, if_true] at h ⊢
      refine ⟨by simp [fileScheme], trivial, cleanPath_fixed _, ?_⟩
      intro _
      rcases h.2 with h2 | h2
      · exact h2
      · exact absurd rfl h2
    · simp only [hf, if_false] at h ⊢
      refine ⟨h.1, trivial, cleanPath_fixed _, ?_⟩
      intro hf'
      exact absurd hf' hf
  · next h =>
    refine ⟨by simp [fileScheme], rfl, Or.inr (absPath_clean hc _), fun _ => absPath_abs hc _⟩

example : CwdOk "/w" ∧ normalizeBase "/w" ⟨"file", "", "x/./y.json", "", "f"⟩ = ⟨"file", "", "/w/x/y.json", "", ""⟩ := by
  refine ⟨⟨by decide, by decide⟩, by decide⟩

/-- (3) Spelling invariance: the result depends on the path only through `clean`. -/
theorem spelling_invariant (cwd : String) (u : URL) {p p' : String} (h : clean p = clean p') :
    normalizeBase cwd { u with path := p } = normalizeBase cwd { u with path := p' } := by
  unfold normalizeBase cleanPath
  simp only [h]

example : clean "/r/./x/../root.json" = clean "/r//root.json" ∧
    normalizeBase "/w" ⟨"file", "", "/r/./x/../root.json", "", ""⟩ = normalizeBase "/w" ⟨"file", "", "/r//root.json", "", ""⟩ := by
  refine ⟨by decide, by decide⟩

/-! The spelling rewrites of the property preserve `clean` (these are facts about Go's `path.Clean`). -/

/-- inserting a `.` element -/
theorem clean_insert_dot (a b : String) : clean (a ++ "/./" ++ b) = clean (a ++ "/" ++ b) := by
  apply String.ext
  simpa using cleanL_insert_dot a.toList b.toList

example : clean ("/r" ++ "/./" ++ "root.json") = "/r/root.json" := by decide

/-- doubling a slash -/
theorem clean_double_slash (a b : String) : clean (a ++ "//" ++ b) = clean (a ++ "/" ++ b) := by
  apply String.ext
  simpa using cleanL_double_slash a.toList b.toList

example : clean ("/r" ++ "//" ++ "root.json") = "/r/root.json" := by decide

/-- A plain path element: non-empty, without `/`, and neither `.` nor `..`. -/
def PlainSeg (x : String) : Prop := x ≠ "" ∧ x ≠ "." ∧ x ≠ ".." ∧ '/' ∉ x.toList

/-- inserting `x/..` for a plain element `x` -/
theorem clean_insert_updown (a b x : String) (hx : PlainSeg x) :
    clean (a ++ "/" ++ x ++ "/../" ++ b) = clean (a ++ "/" ++ b) := by
  apply String.ext
  obtain ⟨h1, h2, h3, h4⟩ := hx
  have hp : Plain x.toList := by
    refine ⟨toList_ne_nil h1, ?_, ?_⟩
    · intro e; exact h2 (String.toList_inj.mp (by rw [e]; decide))
    · intro e; exact h3 (String.toList_inj.mp (by rw [e]; decide))
  simpa using cleanL_insert_updown a.toList b.toList hp h4

example : PlainSeg "tmp" ∧ clean ("/r" ++ "/" ++ "tmp" ++ "/../" ++ "root.json") = "/r/root.json" := by
  refine ⟨⟨by decide, by decide, by decide, by decide⟩, by decide⟩

/-- adding a trailing slash -/
theorem clean_trailing_slash (a : String) (h : a ≠ "") : clean (a ++ "/") = clean a := by
  apply String.ext
  simpa using cleanL_trailing_slash (toList_ne_nil h)

example : clean ("/r/root.json" ++ "/") = "/r/root.json" := by decide

/-- a leading `./` on a relative path -/
theorem clean_leading_dot (b : String) (h : isAbs b = false) : clean ("./" ++ b) = clean b := by
  apply String.ext
  simpa using cleanL_leading_dot h

example : isAbs "r/root.json" = false ∧ clean ("./" ++ "r/root.json") = "r/root.json" := by
  refine ⟨by decide, by decide⟩

/-- (4) A fragment on the base is irrelevant. -/
theorem fragment_irrelevant (cwd : String) (u : URL) (f : String) :
    normalizeBase cwd { u with fragment := f } = normalizeBase cwd u := by
  unfold normalizeBase
  rfl

example : normalizeBase "/w" ⟨"http", "h.com", "/r/root.json", "", "/definitions/x"⟩ =
    normalizeBase "/w" ⟨"http", "h.com", "/r/root.json", "", ""⟩ := by decide

/-- (5) A relative plain path and the same path anchored at the working directory are the same base. -/
theorem relative_is_anchored {cwd : String} (hc : CwdOk cwd) (u : URL) (hs : u.scheme = "") {p : String}
    (hp : isAbs p = false) :
    normalizeBase cwd { u with path := p } = normalizeBase cwd { u with path := join cwd p } := by
  have ha : isAbs (join cwd p) = true := isAbs_join hc.abs p
  have hf : clean (join cwd p) = join cwd p := clean_join (ne_empty_of_isAbs hc.abs) p
  have hcp : cleanPath (join cwd p) = join cwd p := cleanPath_of_fixed hf (ne_dot_of_isAbs ha)
  unfold normalizeBase
  simp only [hs, hcp]
  simp only [ne_eq, not_true_eq_false, false_and, if_false]
  have h1 : absPath cwd (cleanPath p) = join cwd p := by
    unfold absPath
    rw [isAbs_cleanPath, hp]
    simp only [Bool.false_eq_true, if_false]
    exact join_cleanPath hc hp
  rw [h1, absPath_of_abs_fixed ha hf]

example : CwdOk "/home/u" ∧ isAbs "spec/../root.json" = false ∧
    normalizeBase "/home/u" ⟨"", "", "spec/../root.json", "", ""⟩ = ⟨"file", "", "/home/u/root.json", "", ""⟩ ∧
    normalizeBase "/home/u" ⟨"", "", join "/home/u" "spec/../root.json", "", ""⟩ = ⟨"file", "", "/home/u/root.json", "", ""⟩ := by
  refine ⟨⟨by decide, by decide⟩, by decide, by decide, by decide⟩

/-- (6) For a local file (no scheme, or the `file` scheme) a query on the location is irrelevant. -/
theorem query_irrelevant_for_files (cwd : String) (u : URL) (q : String)
    (h : u.scheme = "" ∨ u.scheme = "file") :
    normalizeBase cwd { u with query := q } = normalizeBase cwd u := by
  unfold normalizeBase
  rcases h with h | h <;> simp [h, fileScheme]

example : normalizeBase "/w" ⟨"file", "", "/r/root.json", "q=1", ""⟩ = normalizeBase "/w" ⟨"file", "", "/r/root.json", "", ""⟩ ∧
    normalizeBase "/w" ⟨"", "", "root.json", "q=1", ""⟩ = ⟨"file", "", "/w/root.json", "", ""⟩ := by
  refine ⟨by decide, by decide⟩

end SpecModel.Props.C11
