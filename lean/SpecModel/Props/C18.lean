/-
C18 — A resolution cache is transparent, and documents are fetched at most once.

Model: `SpecModel/Cache/Model.lean` (`runSeq` = the Get / loader / Set protocol of `schemaLoader.load`,
plus the direct `Set`s of `baseForRoot` / `setSchemaID` and the direct `Get`s of `baseForRoot` /
`transitiveResolver`).  Statements only here; helper lemmas in `SpecModel/Cache/Lemmas.lean`.

Reading guide.
* `Coherent C L Ps` : every entry of `C` is what the loader `L` answers for that URL, or a pseudo entry of `Ps`.
* `PeekFree p` : `p` has no direct `cache.Get`.  A direct `Get` *does* observe whether a document was already
  fetched, so transparency cannot hold for arbitrary programs containing it; the two direct reads of the Go
  code only choose between "use the cached document" and "`load` the same URL", which is what the expander
  model (M4) has to show on top of this.
* "successful loader call" : a `fetch u true` event of the trace (`okFetches`), equivalently a logged URL on
  which `L` answers with a document (`fetch_at_most_once`, second clause).
-/
import SpecModel.Cache.Lemmas
import SpecModel.Cache.SideConditions
import SpecModel.Generated.CacheFacts

namespace SpecModel.Props.C18
open SpecModel.Cache

variable {δ ε α : Type}

/-! ### Transparency -/

/-- A cache whose entries are all what the loader would answer does not change any result. -/
theorem cache_transparent {p : Prog δ ε α} (hp : PeekFree p) (C : Cache δ) (L : Url → Except ε δ)
    (h : Coherent C L []) : (runSeq p C L).result = (runSeq p [] L).result := by
  apply result_congr_view hp
  rw [(coherent_nil_iff C L).1 h, view_nil]

/-- General form, no coherence needed: a cache acts exactly like an override of the loader. -/
theorem cache_as_loader_override {p : Prog δ ε α} (hp : PeekFree p) (C : Cache δ) (L : Url → Except ε δ) :
    (runSeq p C L).result = (runSeq p [] (view C L)).result := by
  apply result_congr_view hp
  rw [view_nil]

/-- Two caches giving the same view give the same result (the simulation relation behind both theorems). -/
theorem cache_congr {p : Prog δ ε α} (hp : PeekFree p) (C C' : Cache δ) (L : Url → Except ε δ)
    (h : view C L = view C' L) : (runSeq p C L).result = (runSeq p C' L).result :=
  result_congr_view hp C C' L L h

/-- A cache that also holds foreign pseudo entries `Ps` (left by earlier calls) is still transparent for a
run that never reads one of those keys before overwriting it (`avoids`, checkable on a recorded trace). -/
theorem cache_transparent_avoiding {p : Prog δ ε α} (hp : PeekFree p) (C : Cache δ) (L : Url → Except ε δ)
    (Ps : List (Url × δ)) (h : Coherent C L Ps)
    (ha : avoids (Ps.map (·.1)) (runSeq p C L).trace = true) :
    (runSeq p C L).result = (runSeq p [] L).result := by
  apply result_congr_avoiding hp C [] L (Ps.map (·.1)) _ ha
  intro u hu
  rw [view_nil]
  cases hg : C.get u with
  | none => simp [view, hg]
  | some d =>
    cases h u d hg with
    | inl hl => simp [view, hg, hl]
    | inr hm => exact absurd (List.mem_map.2 ⟨(u, d), hm, rfl⟩) hu

/-! ### At most one successful fetch per URL -/

/-- In one run: no URL is fetched successfully twice; "successful" read off the trace is the same as
"the loader answers with a document"; and no URL held by the initial cache is passed to the loader at all
(successful or not).  A *failing* URL may be requested again: nothing is cached on failure. -/
theorem fetch_at_most_once (p : Prog δ ε α) (C : Cache δ) (L : Url → Except ε δ) :
    (okFetches (runSeq p C L).trace).Nodup ∧
    okFetches (runSeq p C L).trace = (runSeq p C L).log.filter (fun u => isOk (L u)) ∧
    ∀ u ∈ (runSeq p C L).log, u ∉ C.keys := by
  obtain ⟨k', p', hc, -, -⟩ := trace_ok p C L C.keys .idle 0 (KeysEq.refl C) rfl
  obtain ⟨h1, h2⟩ := check_fetch_once _ _ _ _ _ _ (by simp [PhInv]) hc
  refine ⟨h2, okFetches_eq_filter p C L, ?_⟩
  intro u hu
  rw [log_eq_fetches] at hu
  exact h1 u hu

/-- The same over a chain of calls reusing one cache object: over the whole chain no URL is fetched
successfully twice, and nothing the initial cache held is fetched. -/
theorem fetch_at_most_once_chain (ps : List (Prog δ ε α)) (C : Cache δ) (L : Url → Except ε δ) :
    (okFetches (chainTrace (runMany ps C L))).Nodup ∧
    ∀ u ∈ fetches (chainTrace (runMany ps C L)), u ∉ C.keys := by
  obtain ⟨k', p', hc, -⟩ := chain_trace_ok ps L C C.keys .idle 0 (KeysEq.refl C) rfl
  obtain ⟨h1, h2⟩ := check_fetch_once _ _ _ _ _ _ (by simp [PhInv]) hc
  exact ⟨h2, h1⟩

/-! ### Coherence is kept, so reuse composes -/

/-- After a run the cache is coherent again, the pseudo entries being those it had plus those the run wrote. -/
theorem coherent_preserved (p : Prog δ ε α) (C : Cache δ) (L : Url → Except ε δ) (Ps : List (Url × δ))
    (h : Coherent C L Ps) : Coherent (runSeq p C L).cache L (Ps ++ (runSeq p C L).pseudo) :=
  coherent_runSeq p C L Ps h

/-- For programs that only `load`, strict coherence is kept. -/
theorem coherent_preserved_loadOnly {p : Prog δ ε α} (hp : LoadOnly p) (C : Cache δ) (L : Url → Except ε δ)
    (h : Coherent C L []) : Coherent (runSeq p C L).cache L [] := by
  have := coherent_runSeq p C L [] h
  simpa [pseudo_nil_of_loadOnly hp] using this

/-- Composed: programs run one after another on the same (initially coherent) cache each give the result
they would give on an empty cache, and the cache ends coherent. -/
theorem reuse_transparent (ps : List (Prog δ ε α)) (hps : ∀ p ∈ ps, LoadOnly p) (C : Cache δ)
    (L : Url → Except ε δ) (h : Coherent C L []) :
    Coherent (lastCache C (runMany ps C L)) L [] ∧
    ∀ (i : Nat) (p : Prog δ ε α), ps[i]? = some p →
      ∃ r, (runMany ps C L)[i]? = some r ∧ r.result = (runSeq p [] L).result :=
  runMany_coherent ps L hps C h

/-- Composed, with pseudo writes: every call of a chain sees the cache as a loader override, and the
accumulated pseudo entries are accounted for.  (With `cache_transparent_avoiding` this gives transparency
of each call whose trace avoids the earlier calls' pseudo keys.) -/
theorem reuse_coherent (p q : Prog δ ε α) (C : Cache δ) (L : Url → Except ε δ) (Ps : List (Url × δ))
    (h : Coherent C L Ps) :
    let r := runSeq p C L
    Coherent (runSeq q r.cache L).cache L (Ps ++ r.pseudo ++ (runSeq q r.cache L).pseudo) := by
  intro r
  exact coherent_runSeq q r.cache L _ (coherent_runSeq p C L Ps h)

/-! ### The executable trace validator -/

/-- The model only produces protocol-conforming traces. -/
theorem runSeq_trace_valid (p : Prog δ ε α) (C : Cache δ) (L : Url → Except ε δ) :
    validTrace C.keys (runSeq p C L).trace = true := by
  obtain ⟨k', p', hc, -, hp⟩ := trace_ok p C L C.keys .idle 0 (KeysEq.refl C) rfl
  simp [validTrace, validFrom, hc, hp]

/-- Any accepted single-thread trace — in particular one recorded from the Go code — has the at-most-once
property: no successful fetch twice, and no fetch (successful or not) of a key held initially. -/
theorem validTrace_fetch_once (keys : List Url) (t : List Event) (h : validTrace keys t = true) :
    (okFetches t).Nodup ∧ ∀ u ∈ fetches t, u ∉ keys := by
  obtain ⟨k', p', hc⟩ := validFrom_ok h
  obtain ⟨h1, h2⟩ := check_fetch_once _ _ _ _ _ _ (by simp [PhInv]) hc
  exact ⟨h2, h1⟩

/-! ### Non-vacuity -/

section Examples

def L₁ : Url → Except String String := fun u =>
  if u = "a" then .ok "A" else if u = "b" then .ok "B" else .error "404"

/-- load a, load a again, load missing twice, pseudo-write b, load b (no fetch). -/
def p₁ : Prog String String (List String) :=
  .load "a" fun r1 => .load "a" fun r2 => .load "x" fun r3 => .load "x" fun r4 =>
  .setPseudo "b" "ROOT" fun _ => .load "b" fun r5 =>
    .ret ([r1, r2, r3, r4, r5].map fun r => match r with | .ok d => d | .error e => "!" ++ e)

def p₂ : Prog String String String :=
  .load "a" fun r => .load "b" fun s => .ret (match r, s with | .ok x, .ok y => x ++ y | _, _ => "?")

example : (runSeq p₁ [] L₁).result = ["A", "A", "!404", "!404", "ROOT"] := by decide
example : (runSeq p₁ [] L₁).log = ["a", "x", "x"] := by decide
example : okFetches (runSeq p₁ [] L₁).trace = ["a"] := by decide
example : (runSeq p₁ [("a", "A")] L₁).log = ["x", "x"] := by decide
example : (runSeq p₁ [] L₁).pseudo = [("b", "ROOT")] := by decide

/-- The coherence hypothesis of `cache_transparent` is satisfiable and is needed. -/
example : Coherent [("a", "A")] L₁ [] := by
  intro u d h
  by_cases hu : "a" = u
  · subst hu; simp [Cache.get] at h; subst h; left; rfl
  · simp [Cache.get, hu] at h
example : (runSeq p₂ [("a", "A")] L₁).result = (runSeq p₂ [] L₁).result := by decide
example : (runSeq p₂ [("a", "STALE")] L₁).result ≠ (runSeq p₂ [] L₁).result := by decide

/-- Without coherence the cache is still exactly a loader override. -/
example : (runSeq p₂ [("a", "STALE")] L₁).result = (runSeq p₂ [] (view [("a", "STALE")] L₁)).result := by decide

/-- `PeekFree` is needed: a bare `Get` tells a warm cache from a cold one. -/
example : (runSeq (.peek "a" fun r => .ret r.isSome : Prog String String Bool) [("a", "A")] L₁).result
    ≠ (runSeq (.peek "a" fun r => .ret r.isSome : Prog String String Bool) [] L₁).result := by decide

example : PeekFree p₂ := .load _ _ fun _ => .load _ _ fun _ => .ret _
example : LoadOnly p₂ := .load _ _ fun _ => .load _ _ fun _ => .ret _

/-- A foreign pseudo entry is observable unless avoided. -/
example : (runSeq p₂ [("b", "ROOT")] L₁).result ≠ (runSeq p₂ [] L₁).result := by decide
example : avoids ["b"] (runSeq p₂ [("b", "ROOT")] L₁).trace = false := by decide
example : avoids ["b"] (runSeq p₁ [("b", "OLDROOT")] L₁).trace = true := by decide
example : (runSeq p₁ [("b", "OLDROOT")] L₁).result = (runSeq p₁ [] L₁).result := by decide

/-- The validator accepts a model trace and rejects each kind of protocol breach. -/
example : validTrace [] (runSeq p₁ [] L₁).trace = true := by decide
example : validTrace [] [.fetch "a" true, .set "a"] = false := by decide
example : validTrace [] [.get "a" false, .fetch "a" true] = false := by decide
example : validTrace ["a"] [.get "a" false, .fetch "a" true, .set "a"] = false := by decide
example : validTrace [] [.get "a" false, .fetch "a" true, .set "a", .get "a" false, .fetch "a" true, .set "a"] = false := by
  decide
example : validTrace [] [.get "a" false, .fetch "a" false, .get "a" false, .fetch "a" true, .set "a"] = true := by decide
example : validTrace [] [.get "a" false, .get "b" false, .fetch "a" true, .set "a"] = false := by decide

/-- Reuse chain: the second program fetches only what the first did not. -/
example : (runMany [p₂, p₂] [] L₁).map (·.log) = [["a", "b"], []] := by decide

end Examples

/-! ### Side conditions on the Go source (regenerated facts, `decide`)

`schemaLoader.load` has the shape the model's `load` has (one key for lookup, fetch and store, in that
order), and every other cache access of the package is one of the model's `peek` / `setPseudo` sites. -/

open SpecModel.Cache.Side in
theorem side_load_protocol : loadProtocol SpecModel.Gen.loadShape = true := by decide
open SpecModel.Cache.Side in
theorem side_direct_accesses_modelled : directAccessesModelled SpecModel.Gen.directCacheCalls = true := by decide

end SpecModel.Props.C18
