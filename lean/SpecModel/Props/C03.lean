/-
C03 — Expansion leaves only resolvable cycle cut-points; acyclic specifications end `$ref`-free.

* about the algorithm (`Expand/Core.lean`): `remaining_on_cycle`, `acyclic_ref_free`, `acyclic_deterministic`
  (the output of an acyclic input does not depend on fuel, stack, memo: a function of the input), for every
  world and both modes;
* about every real run: `run_cuts_validated` — the compiled checker's verdict "every `$ref` left in the output
  resolves from the root location to a node on a cycle of the INPUT graph" is sound;
* how a cut is WRITTEN (`Props/C03Denorm.lean`, model of `denormalizeRef` / `rebase` tied by the `denorm`
  correspondence): `denormalize_resolves` — the relative text resolves back, from the root location, to the
  canonical target; with the proved traps where it does not (root path as string prefix: known finding).
-/
import SpecModel.Props.ExpandCore
import SpecModel.Expand.Check
import SpecModel.Expand.SideConditions
import SpecModel.Props.C03Denorm

namespace SpecModel.Props.C03
open SpecModel.Expand SpecModel.Props

variable {K L : Type} [DecidableEq K]

/-- every reference left by a successful strict expansion from the empty stack lies on a cycle of the input -/
theorem remaining_on_cycle {W : World K L} {n : Nat} {m' : List K} {t t' : Tree K L}
    (h : expand W false n [] [] t = .ok (t', m')) : ∀ k, k ∈ refsOf t' → OnCycle W k ∧ W k ≠ none :=
  ExpandCore.remaining_on_cycle h

/-- an acyclic input comes out without any reference -/
theorem acyclic_ref_free {W : World K L} {n : Nat} {m : List K} {t t' : Tree K L}
    (ha : Acyclic W t) (h : expand W false n [] [] t = .ok (t', m)) : refsOf t' = [] ∧ m = [] :=
  ExpandCore.acyclic_ref_free ha h

/-- … and that output is a function of the input alone -/
theorem acyclic_deterministic {W : World K L} {c₁ c₂ : Bool} {n₁ n₂ : Nat} {p₁ p₂ m₁ m₂ m₁' m₂' : List K}
    {t t₁ t₂ : Tree K L} (ha : Acyclic W t)
    (hm₁ : ∀ k, k ∈ m₁ → OnCycle W k) (hm₂ : ∀ k, k ∈ m₂ → OnCycle W k)
    (hp₁ : StackInv W p₁ t) (hp₂ : StackInv W p₂ t)
    (h₁ : expand W c₁ n₁ p₁ m₁ t = .ok (t₁, m₁')) (h₂ : expand W c₂ n₂ p₂ m₂ t = .ok (t₂, m₂')) : t₁ = t₂ :=
  ExpandCore.acyclic_memo_irrelevant ha hm₁ hp₁ hm₂ hp₂ h₁ h₂

/-- **per run** -/
theorem run_cuts_validated [DecidableEq L] {W : World K L} {n : Nat} {t' : Tree K L}
    (h : checkCuts W n t' = true) : ∀ k, k ∈ refsOf t' → W k ≠ none ∧ OnCycle W k := checkCuts_sound h

theorem onCycle_checker_sound [DecidableEq L] {W : World K L} {n : Nat} {k : K} (h : onCycleB W n k = true) :
    OnCycle W k := onCycleB_sound h

example : onCycleB ExpandCore.Wx 10 0 = true ∧ onCycleB ExpandCore.Wx 10 2 = false := by decide
example : checkCuts ExpandCore.Wx 10 (.node "root" [.node "a" [.node "b" [.ref 0]]] : Tree Nat String) = true := by decide
example : checkCuts ExpandCore.Wx 10 (.node "root" [.ref 2] : Tree Nat String) = false := by decide


/-! ### Side conditions on the shape of expander.go (regenerated facts, `decide`) -/

/-- every schema keyword that can hold a sub-schema (regenerated struct table of SchemaProps) is a position
`expandSchema` / `expandItems` recurse into (regenerated from their AST), and conversely -/
theorem side_positions_complete :
    SpecModel.Expand.Side.positionsComplete SpecModel.Gen.structs SpecModel.Gen.expandPositions = true := by decide

theorem side_sections_complete : SpecModel.Expand.Side.sectionsComplete SpecModel.Gen.specSections = true := by decide

theorem side_operations_complete :
    SpecModel.Expand.Side.operationsComplete SpecModel.Gen.pathItemOperations SpecModel.Gen.pathItemOperationFields = true := by
  decide

end SpecModel.Props.C03
