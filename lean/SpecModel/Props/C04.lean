/-
C04 — Expansion terminates without crashing on every reference graph.

About the algorithm (`Expand/Core.lean`), for every finite world (cyclic or not, with dangling or ill-typed
targets = keys mapped to `none`), every start tree, stack, memo and both modes:
* `expand_terminates` — fuel `size t + |keys| · maxSize` is enough: the recursion never runs out of it;
* `expand_total` — there is exactly one outcome, the same for every larger fuel;
* `stack_depth_le` — the stack of parents never holds more than the keys of the world plus what it started with
  (recursion depth, i.e. Go stack use, is bounded by the acyclic unfolding);
* running out of fuel is a THIRD outcome of the model (not an error, not a default), so these are real
  statements about divergence; a panic is likewise not an outcome the model can hide: every partial operation
  of the Go code (nil schema, type assertion, MustCreateRef) is an explicit branch or lies outside the
  abstraction (see trusted base).
NOT covered by the abstraction: schemas carrying `id`, which re-scope the base path.  On the current tree a
relative `id` with a directory component makes the real expander recurse without bound (known finding
K-C04-1); the harness exhibits it in a child process on every run.
-/
import SpecModel.Props.ExpandCore

namespace SpecModel.Props.C04
open SpecModel.Expand SpecModel.Props

variable {K L : Type} [DecidableEq K]

theorem expand_terminates {W : World K L} {ks : List K} (hW : FiniteWorld W ks) (c : Bool)
    (p m : List K) (t : Tree K L) {n : Nat} (hn : ExpandCore.fuelBound W ks t ≤ n) :
    expand W c n p m t ≠ .outOfFuel := ExpandCore.expand_terminates hW c p m t hn

theorem expand_total {W : World K L} {ks : List K} (hW : FiniteWorld W ks) (c : Bool)
    (p m : List K) (t : Tree K L) :
    ∃ r, r ≠ .outOfFuel ∧ ∀ n, ExpandCore.fuelBound W ks t ≤ n → expand W c n p m t = r :=
  ExpandCore.expand_total hW c p m t

theorem stack_depth_le {W : World K L} {ks : List K} (hW : FiniteWorld W ks) (c : Bool) (n : Nat)
    (p m : List K) (t : Tree K L) : stackDepth W c n p m t ≤ ks.length + p.length :=
  ExpandCore.stack_depth_le hW c n p m t

/-- the bound is explicit -/
theorem fuel_bound_eq (W : World K L) (ks : List K) (t : Tree K L) :
    ExpandCore.fuelBound W ks t = size t + ks.length * maxSize W ks := rfl

example : expand ExpandCore.Wx false (ExpandCore.fuelBound ExpandCore.Wx ExpandCore.ksx ExpandCore.tx) [] [] ExpandCore.tx ≠ .outOfFuel :=
  expand_terminates ExpandCore.finiteWorld_Wx false [] [] ExpandCore.tx (Nat.le_refl _)
/-- with too little fuel the model does report divergence: the third outcome is reachable -/
example : expand ExpandCore.Wx false 3 [] [] ExpandCore.tx = .outOfFuel := rfl

end SpecModel.Props.C04
