/-
C19 — Round trip and expansion keep a valid Swagger 2.0 document valid.

What can break validity in a decode+encode is a member the meta-schema REQUIRES being dropped, or a member's
value changing type.  Proved here
* over the regenerated tables and the `required` lists taken from the pinned vocabulary (`decide`): every
  required member has a field in the kind's tables (`required_members_have_fields`); the required members that
  are tagged `omitempty` are exactly the pinned list (`required_omitempty_exactly`) — for the string-typed ones
  an empty string is dropped and a valid document becomes invalid: known finding K-C19-1; a new `omitempty` on
  any other required member (`paths`, `responses`, …) breaks this obligation;
* on the model, for all inputs: a field that is not `omitempty` is always emitted (`non_omitempty_always_emitted`),
  an `omitempty` field is emitted whenever its decoded value is not empty (`nonempty_emitted`).
Validity itself (draft-4 semantics, `oneOf` over parameter and security-scheme flavours) is decided per run by
an independent validator (python `jsonschema`, Draft4Validator over the meta-schema shipped in /repo) on every
generated valid document before and after round trip and expansion; that part is exploration, not proof.
-/
import SpecModel.Codec.Struct
import SpecModel.Codec.SideConditions

namespace SpecModel.Props.C19
open SpecModel SpecModel.Codec

theorem required_members_have_fields :
    Side.requiredPresent Gen.kinds Gen.structs Gen.vocabRequired = true := by decide

theorem required_omitempty_exactly :
    Side.requiredOmitEmpty Gen.kinds Gen.structs Gen.vocabRequired =
      [("externalDocs", "url"), ("header", "type"), ("info", "title"), ("info", "version"), ("items", "type"),
       ("license", "name"), ("operation", "responses"), ("swagger", "info"), ("swagger", "swagger"), ("tag", "name")] := by
  decide

theorem non_omitempty_always_emitted (f : Field) (st : Option Json) (h : f.omitEmpty = false) :
    ∃ v, encodeField f st = some (f.jsonName, v) := by
  unfold encodeField
  cases st <;> simp [h]

theorem nonempty_emitted (f : Field) (j : Json) (h : isEmptyEnc f.ft j = false) :
    encodeField f (some j) = some (f.jsonName, j) := by
  unfold encodeField; simp [h]

/-- the mechanism of K-C19-1: a required string member equal to "" is dropped by `omitempty` -/
theorem empty_required_string_dropped (f : Field) (h : f.omitEmpty = true) (hs : f.ft = .str) :
    encodeField f (some (.str "")) = none := by
  unfold encodeField; simp [h, hs, isEmptyEnc]

example : ∃ f ∈ lookupStruct Gen.structs "InfoProps", f.jsonName = "title" ∧ f.omitEmpty = true ∧ f.ft = .str := by
  decide

end SpecModel.Props.C19
