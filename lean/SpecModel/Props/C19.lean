/-
C19 — Round trip and expansion keep a valid Swagger 2.0 document valid.

What can break validity in a decode+encode is a member the meta-schema REQUIRES being dropped, or a member's
value changing type.  Proved here
* over the regenerated tables and the `required` lists taken from the pinned vocabulary (`decide`): every
  required member has a field in the kind's tables (`required_members_have_fields`); the required members that
  are tagged `omitempty` are exactly the pinned list (`required_omitempty_exactly`) — for the string-typed ones
  an empty string is dropped and a valid document becomes invalid: known finding K-C19-1; a new `omitempty` on
  any other required member (`paths`, `responses`, …) breaks this obligation;
* on the model, for all inputs: a field that is not `omitempty` is always emitted (`non_omitempty_always_emitted`),
  an `omitempty` field is emitted whenever its decoded value is not empty (`nonempty_emitted`).
* for whole values of every regular kind and every input (`required_member_survives`, Codec/Required.lean): the part
  and field a required member is encoded from are found in the regenerated tables (`required_members_located`,
  `decide`); a member whose field is not `omitempty` is present in every encoding; when the last input member that
  goes to the field is not `null`, the encoding carries its decoded value under the field's name unless `omitempty`
  drops it as empty; a required non-empty string comes out as it went in (`required_string_survives`).
Validity itself (draft-4 semantics, `oneOf` over parameter and security-scheme flavours) is decided per run by
an independent validator (python `jsonschema`, Draft4Validator over the meta-schema shipped in /repo) on every
generated valid document before and after round trip and expansion; that part is exploration, not proof.
-/
import SpecModel.Codec.Struct
import SpecModel.Codec.SideConditions
import SpecModel.Codec.Required

namespace SpecModel.Props.C19
open SpecModel SpecModel.Codec

theorem required_members_have_fields :
    Side.requiredPresent Gen.kinds Gen.structs Gen.vocabRequired = true := by decide

theorem required_omitempty_exactly :
    Side.requiredOmitEmpty Gen.kinds Gen.structs Gen.vocabRequired =
      [("externalDocs", "url"), ("header", "type"), ("info", "title"), ("info", "version"), ("items", "type"),
       ("license", "name"), ("operation", "responses"), ("swagger", "info"), ("swagger", "swagger"), ("tag", "name")] := by
  decide

theorem non_omitempty_always_emitted (f : Field) (st : Option Json) (h : f.omitEmpty = false) :
    ∃ v, encodeField f st = some (f.jsonName, v) := by
  unfold encodeField
  cases st <;> simp [h]

theorem nonempty_emitted (f : Field) (j : Json) (h : isEmptyEnc f.ft j = false) :
    encodeField f (some j) = some (f.jsonName, j) := by
  unfold encodeField; simp [h]

/-- the mechanism of K-C19-1: a required string member equal to "" is dropped by `omitempty` -/
theorem empty_required_string_dropped (f : Field) (h : f.omitEmpty = true) (hs : f.ft = .str) :
    encodeField f (some (.str "")) = none := by
  unfold encodeField; simp [h, hs, isEmptyEnc]

example : ∃ f ∈ lookupStruct Gen.structs "InfoProps", f.jsonName = "title" ∧ f.omitEmpty = true ∧ f.ft = .str := by
  decide

/-! ### whole values: required members survive decode+encode -/

/-- every member the meta-schema requires of a regular kind is located (part, field) in the regenerated tables -/
theorem required_members_located :
    (Gen.vocabRequired.all fun kn => isSpecialKind kn.1 || kn.2.all fun n => (memberField kn.1 n).isSome) = true := by
  decide

/-- `norm` runs the codec of the kind with the codec of the nested kinds one level of budget down -/
theorem norm_unfold (k : String) (j : Json) : norm k j = normKind (normF (3 * depth j + 3)) k j := rfl

/-- **Required members survive** (regular kinds, every input object): with `(P, f)` the part and field the member
`n` of kind `k` is encoded from, the output of decode+encode is an object in which
* `n` is present whenever `f` is not `omitempty`;
* if the last input member that goes to `f` (exact name, else Go's case folding) has the non-null value `v`, then `v`
  decodes and encodes to some `r`, and `(n, r)` is in the output unless `omitempty` drops `r` as empty. -/
theorem required_member_survives {k n P : String} {f : Field} (hm : memberField k n = some (P, f))
    {ms : List (String × Json)} {j' : Json} (h : norm k (.obj ms) = .ok j') :
    ∃ out, j' = .obj out ∧
      (f.omitEmpty = false → ∃ r, (n, r) ∈ out) ∧
      (∀ vs v, fieldVals (tableOf P) n ms = vs ++ [v] → v ≠ .null →
        ∃ r, normFT (normF (3 * depth (.obj ms) + 3)) f.ft v = .ok r ∧ (isEmptyEnc f.ft r = false → (n, r) ∈ out)) := by
  rw [norm_unfold] at h
  obtain ⟨out, rfl, st, hst, hmem⟩ := normKind_member hm h
  have hn : f.jsonName = n := (memberField_sound hm).2.choose_spec.2.2.2
  refine ⟨out, rfl, ?_, ?_⟩
  · intro ho
    obtain ⟨v, hv⟩ := non_omitempty_always_emitted f st ho
    exact ⟨v, by rw [← hn]; exact hmem _ hv⟩
  · intro vs v hvals hv
    obtain ⟨r, hr, rfl⟩ := fieldState_last (by rw [hn]; exact hvals) hv hst
    refine ⟨r, hr, ?_⟩
    intro he
    rw [← hn]
    exact hmem _ (nonempty_emitted f r he)

/-- a required string that is not empty comes out as it went in -/
theorem required_string_survives {k n P : String} {f : Field} (hm : memberField k n = some (P, f)) (hstr : f.ft = .str)
    {ms : List (String × Json)} {j' : Json} (h : norm k (.obj ms) = .ok j') {vs : List Json} {s : String}
    (hv : fieldVals (tableOf P) n ms = vs ++ [.str s]) (hs : s ≠ "") :
    ∃ out, j' = .obj out ∧ (n, .str s) ∈ out := by
  obtain ⟨out, ho, _, h2⟩ := required_member_survives hm h
  obtain ⟨r, hr, hmem⟩ := h2 vs (.str s) hv (by intro hc; cases hc)
  rw [hstr] at hr hmem
  simp only [normFT, pure, Except.pure, Except.ok.injEq] at hr
  subst hr
  exact ⟨out, ho, hmem (by simp [isEmptyEnc, hs])⟩

/-- **A response keeps its `description`** (hand-written codec, every input object): unless the response is given by
reference (its encoding carries a non-empty `$ref`; then `Response.MarshalJSON` omits an empty description), the
encoding has a `description` member. -/
theorem response_keeps_description {ms : List (String × Json)} {j' : Json} (h : norm "response" (.obj ms) = .ok j') :
    ∃ out, j' = .obj out ∧ ((∀ t, ("$ref", Json.str t) ∈ out → t = "") → ∃ r, ("description", r) ∈ out) := by
  rw [norm_unfold] at h
  exact response_description h

/-- the theorem applies: `title` of `info` is a string field of the part `InfoProps`, and the last of three spellings
of the member decides -/
example : (memberField "info" "title").map (fun pf => (pf.1, pf.2.ft, pf.2.omitEmpty)) = some ("InfoProps", .str, true) := by
  decide
example : fieldVals (tableOf "InfoProps") "title" [("title", .str "t"), ("version", .str "1"), ("TITLE", .str "u")] =
    [.str "t"] ++ [.str "u"] := by rfl
example : (memberField "swagger" "paths").map (fun pf => (pf.1, pf.2.omitEmpty)) = some ("SwaggerProps", false) := by
  decide
example : (memberField "operation" "responses").map (fun pf => pf.1) = some "OperationProps" := by decide

end SpecModel.Props.C19
