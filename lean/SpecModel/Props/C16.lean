/-
C16 — No hidden state between calls.

Model: `SpecModel/Cache/Model.lean`, `runCall` / `runHistory`: a heap of cache objects whose object 0 is the
package-level `resCache`; `cacheOrDefault(nil)` allocates a fresh shallow clone of object 0, and
`cacheOrDefault(c)` uses the caller's object `c` as is.  A call *can* be aimed at object 0 in this
semantics (`arg = .some 0`) and then object 0 changes (see the last example): that object 0 stays
unchanged is a theorem about how `cacheOrDefault` picks the object, not a consequence of typing.
The Go side condition (extractor): `resCache` is written only by `initResolutionCache` under `sync.Once`,
and the only expression handing it out is `resCache.ShallowClone()`.

The loader may change arbitrarily between calls (`Call.loader` is per call).
-/
import SpecModel.Cache.Lemmas
import SpecModel.Cache.SideConditions
import SpecModel.Generated.CacheFacts

namespace SpecModel.Props.C16
open SpecModel.Cache

variable {δ ε α : Type}

/-- Whatever the earlier calls did (any programs, any loaders, with or without caller caches other than
object 0, any other objects `T` already on the heap): every call made without a caller cache behaves
exactly (result, loader log, trace) like a run on a clone of the initial package-level cache `G₀` with that
call's loader, and afterwards object 0 is still `G₀`. -/
theorem history_independent (G₀ : Cache δ) (T : Heap δ) (h : List (Call δ ε α)) (hn : NoGlobalArg h) :
    (runHistory (G₀ :: T) h).1[0]? = some G₀ ∧
    (runHistory (G₀ :: T) h).2.length = h.length ∧
    ∀ (i : Nat) (c : Call δ ε α), h[i]? = some c → c.arg = .none →
      (runHistory (G₀ :: T) h).2[i]? = some (runSeq c.prog G₀.clone c.loader) := by
  obtain ⟨⟨T', hT'⟩, hres⟩ := history_inv G₀ h T hn
  exact ⟨by rw [hT']; rfl, runHistory_length h _, hres⟩

/-- The form of the design note: all calls pass `nil`. -/
theorem history_independent_nil (G₀ : Cache δ) (h : List (Call δ ε α)) (hnil : ∀ c ∈ h, c.arg = .none) :
    (runHistory [G₀] h).1[0]? = some G₀ ∧
    ∀ (i : Nat) (c : Call δ ε α), h[i]? = some c →
      ((runHistory [G₀] h).2[i]?).map (·.result) = some (runSeq c.prog G₀.clone c.loader).result := by
  have hn : NoGlobalArg h := fun c hc e => by rw [hnil c hc] at e; cases e
  obtain ⟨h0, -, hres⟩ := history_independent G₀ [] h hn
  refine ⟨h0, ?_⟩
  intro i c hi
  rw [hres i c hi (hnil c (List.mem_of_getElem? hi))]; rfl

/-- Built-in documents: after any history every key of `G₀` still resolves, in the package-level cache, to
the same document; and a later call without a caller cache obtains it without calling the loader. -/
theorem builtins_stay (G₀ : Cache δ) (T : Heap δ) (h : List (Call δ ε α)) (hn : NoGlobalArg h)
    (u : Url) (d : δ) (hu : G₀.get u = some d) :
    ((runHistory (G₀ :: T) h).1.getD 0 []).get u = some d ∧
    ∀ (L : Url → Except ε δ),
      let r := (runHistory (runHistory (G₀ :: T) h).1
                  [⟨.load u fun x => .ret x, L, .none⟩]).2
      r.map (·.result) = [.ok d] ∧ r.map (·.log) = [[]] := by
  obtain ⟨T', hT'⟩ := (history_inv G₀ h T hn).1
  rw [hT']
  refine ⟨hu, ?_⟩
  intro L
  simp only [runHistory, runCall, List.getD_cons_zero, Cache.clone_eq, List.map_cons, List.map_nil]
  rw [runSeq_load_hit hu]
  simp

/-! ### Non-vacuity -/

section Examples

def G : Cache String := [("http://swagger.io/v2/schema.json", "SW"), ("http://json-schema.org/draft-04/schema", "JS")]

def Lx (doc : String) : Url → Except String String := fun u => if u = "x" then .ok doc else .error "404"

def px : Prog String String String :=
  .setPseudo ".root" "R" fun _ => .load "x" fun r => .ret (match r with | .ok d => d | .error e => "!" ++ e)

/-- Three calls: the loader content changes between them, the second uses a caller cache (object 1, reused
by nobody else).  Object 0 is untouched and the third call sees the *new* loader content, not the first's. -/
def hist : List (Call String String String) :=
  [⟨px, Lx "v1", .none⟩, ⟨px, Lx "v2", .some 1⟩, ⟨px, Lx "v3", .none⟩]

example : NoGlobalArg hist := by
  intro c hc
  simp [hist] at hc
  rcases hc with rfl | rfl | rfl <;> simp
example : ((runHistory [G, []] hist).2.map (·.result)) = ["v1", "v2", "v3"] := by decide
example : (runHistory [G, []] hist).1[0]? = some G := by decide
/-- ... while a caller cache that is reused does carry state, as it should: -/
example : ((runHistory [G, []] [⟨px, Lx "v1", .some 1⟩, ⟨px, Lx "v2", .some 1⟩]).2.map (·.result)) = ["v1", "v1"] := by
  decide
/-- The hypothesis `NoGlobalArg` is needed: the semantics can express a write to object 0. -/
example : (runHistory [G] [(⟨px, Lx "v1", .some 0⟩ : Call String String String)]).1[0]? ≠ some G := by decide
example : ((runHistory [G] [⟨px, Lx "v1", .some 0⟩, ⟨px, Lx "v2", .none⟩]).2.map (·.result)) = ["v1", "v1"] := by decide

end Examples

/-! ### Side conditions on the Go source (regenerated facts, `decide`)

These are the assumptions under which `runHistory` models the package: object 0 (`resCache`) is initialised
once and afterwards only cloned, never handed out (`NoGlobalArg`); no other package-level variable is
assigned by the package; every exported entry point clones the caller's options before touching them. -/

open SpecModel.Cache.Side in
theorem side_pkgVars_present : pkgVarsPresent SpecModel.Gen.pkgVars = true := by decide
open SpecModel.Cache.Side in
theorem side_pkgVars_stable : pkgVarsStable SpecModel.Gen.pkgVars = true := by decide
/-- The package-level variables are exactly these (regenerated on every run): state kept in a NEW package-level
variable - a memo, a pool, a table that is only ever mutated through its methods and never assigned, so that
`side_pkgVars_stable` does not see it - has to be looked at before this list is changed. -/
theorem side_pkgVars_exactly : SpecModel.Gen.pkgVars.map (·.1) =
    ["Debug", "ErrDerefUnsupportedType", "ErrExpandUnsupportedType", "ErrResolveRefNeedsAPointer", "ErrSpec",
     "ErrUnknownTypeForReference", "PathLoader", "assets", "jsFalse", "jsTrue", "onceCache", "resCache", "specLogger"] := by
  decide
open SpecModel.Cache.Side in
theorem side_init_only_once : initOnlyOnce SpecModel.Gen.initCalls = true := by decide
open SpecModel.Cache.Side in
theorem side_global_never_escapes : globalNeverEscapes SpecModel.Gen.globalUses = true := by decide
open SpecModel.Cache.Side in
theorem side_only_global_cloned : onlyGlobalCloned SpecModel.Gen.cloneCalls = true := by decide
open SpecModel.Cache.Side in
theorem side_caller_options_cloned : callerOptionsCloned SpecModel.Gen.optsFlow = true := by decide

end SpecModel.Props.C16
