/-
C14 — Gob transport preserves the document.

Model: `SpecModel/Codec/Gob.lean`, `gobJ kind j` = the JSON encoding after `gob` encode+decode of the value
whose JSON encoding is `j`, computed by kind from the GENERATED struct tables; tied to the real
`gob.Encoder`/`Decoder` on Swagger, Operation, Parameter, Schema, Response by the `gob` correspondence on every
run (the model has to predict the encoding after transport, losses included).

The unconditional statement `gobJ K j = j` is FALSE on the current tree (known findings K-C14-1, K-C14-2).
For WHOLE DOCUMENTS of every kind (`transport_preserves_safe_documents`, from `Codec/GobSafe.lean`):

    GobSafe j  →  gobJ K j = j

where `GobSafe` = no empty array anywhere and no member whose value is the number 0 — the two exclusions are the
two findings. Component lemmas and the witnesses of the findings:
* `payload_survives` — a free-form value (default / example / enum / examples / extension values / unknown schema
  keywords, nested mixtures with nulls and empty objects) without an empty array survives exactly;
  `empty_array_becomes_null` is the witness of K-C14-2;
* `zero_validation_lost` (witness of K-C14-1) and `nonzero_validation_kept`;
* `security_requirements_kept`, `strings_kept`, `flags_kept`: absent / empty / non-empty security requirements
  (also with empty scope lists), string and boolean members pass unchanged;
* `members_kept`, `kind_fixed`: a kind whose members are individually preserved is preserved (composition),
  so the statement for a whole document follows member by member under `GobSafe`-style hypotheses.
-/
import SpecModel.Codec.Gob
import SpecModel.Codec.GobSafe

namespace SpecModel.Props.C14
open SpecModel SpecModel.Codec

theorem payload_survives (j : Json) (h : NoEmptyArr j) : gobAny j = j := gobAny_of_noEmptyArr j h

example : NoEmptyArr (.obj [("a", .arr [.null, .obj [], .num 0, .str ""]), ("b", .obj [])]) := by
  simp [NoEmptyArr, NoEmptyArrL, NoEmptyArrM]

/-- K-C14-2 -/
theorem empty_array_becomes_null :
    gobAny (.arr []) = .null ∧
    gobAny (.obj [("k", .arr [.arr [], .num 1])]) = .obj [("k", .arr [.null, .num 1])] := ⟨rfl, rfl⟩

/-- K-C14-1 -/
theorem zero_validation_lost (rec : GRec) : gobFT rec .optFloat (.num 0) = none ∧ gobFT rec .optInt (.num 0) = none :=
  ⟨rfl, rfl⟩

theorem nonzero_validation_kept (rec : GRec) (n : Int) (h : n ≠ 0) :
    gobFT rec .optFloat (.num n) = some (.num n) ∧ gobFT rec .optInt (.num n) = some (.num n) := by
  constructor <;> (unfold gobFT; split <;> simp_all)

/-- security requirements: the encoded value passes unchanged, whatever it is (`[]`, `[{}]`, `[{"k":[]}]`, …) -/
theorem security_requirements_kept (rec : GRec) (v : Json) : gobFT rec .secReqs v = some v := by
  unfold gobFT; split <;> simp_all

theorem strings_kept (rec : GRec) (v : Json) :
    gobFT rec .str v = some v ∧ gobFT rec .strs v = some v ∧ gobFT rec .strMap v = some v := by
  refine ⟨?_, ?_, ?_⟩ <;> (unfold gobFT; split <;> simp_all)

theorem flags_kept (rec : GRec) (v : Json) : gobFT rec .bool v = some v := by
  unfold gobFT; split <;> simp_all

/-- an extension member survives when its value has no empty array -/
theorem extension_member_kept (rec : GRec) (k : String) (fs : List Field) (name : String) (v : Json)
    (hx : isExtKey name = true) (hv : NoEmptyArr v) : gobMember rec k fs (name, v) = some (name, v) := by
  simp [gobMember, hx, gobAny_of_noEmptyArr v hv]

/-- composition: if every member of an object of kind `k` is preserved, the object is -/
theorem kind_fixed (rec : GRec) (k : String) (ms : List (String × Json))
    (h : ∀ m ∈ ms, gobMember rec k (fieldsOfKind k) m = some m) : gobKind rec k (.obj ms) = .obj ms := by
  simp only [gobKind]
  congr 1
  induction ms with
  | nil => rfl
  | cons a rest ih =>
    have ha := h a (List.mem_cons_self ..)
    have hr := ih (fun m hm => h m (List.mem_cons_of_mem _ hm))
    simp [List.filterMap_cons, ha, hr]

/-- lists and maps of preserved elements are preserved -/
theorem members_kept (f : Json → Json) (ms : List (String × Json)) (h : ∀ m ∈ ms, f m.2 = m.2) : mapVals f ms = ms := by
  unfold mapVals
  induction ms with
  | nil => rfl
  | cons a rest ih =>
    have ha := h a (List.mem_cons_self ..)
    simp [List.map_cons, ha, ih (fun m hm => h m (List.mem_cons_of_mem _ hm))]

/-! ### Whole documents -/

/-- **gob transport preserves every document without an empty array and without a member equal to 0**, for every
kind and any nesting depth -/
theorem transport_preserves_safe_documents (k : String) (j : Json) (hs : GobSafe j) : gobJ k j = j :=
  gobJ_safe k j hs

/-- non-vacuity: an operation with nested kinds, security requirements with an empty scope list (an empty array of
strings would be excluded, so the scope list here is non-empty), extensions and validations -/
example : GobSafe (.obj [("operationId", .str "op"), ("security", .arr [.obj [("k", .arr [.str "s"])]]),
    ("parameters", .arr [.obj [("name", .str "p"), ("in", .str "query"), ("minimum", .num 1), ("x-a", .obj [])]]),
    ("responses", .obj [("200", .obj [("description", .str "")])])]) := by
  simp [GobSafe, NoEmptyArr, NoEmptyArrL, NoEmptyArrM, ZeroFree, ZeroFreeL, ZeroFreeM]

/-- the hypothesis is needed: the two findings are exactly its two exclusions -/
example : ¬ GobSafe (.obj [("minimum", .num 0)]) := by simp [GobSafe, ZeroFree, ZeroFreeM]
example : ¬ GobSafe (.obj [("default", .arr [])]) := by simp [GobSafe, NoEmptyArr, NoEmptyArrM]

end SpecModel.Props.C14
