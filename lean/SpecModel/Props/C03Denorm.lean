/-
C03 (part: spelling of cut points) — `denormalizeRef` followed by `normalizeURI` gives the canonical target
back, and the inputs on which it does not.

Model: SpecModel/Url/Normalizer.lean (`rebase`, `denormalizeRef`, `normalizeURI`), `id == ""` case.
Statements only here (`denormalizeRef_eq` is the first step of the main proof and a property in its own right).
-/
import SpecModel.Url.Lemmas
import SpecModel.Props.C12

namespace SpecModel.Props.C03
open SpecModel.Url SpecModel.Url.Path
open SpecModel.Props.C12 (CanonBase)

/-- A canonical reference into the same site as the base: what the expander holds for a `$ref` it has
normalised (`normalizeURI`, then `MustCreateRef`). -/
structure CanonTarget (c base : URL) : Prop where
  scheme : c.scheme = base.scheme
  host : c.host = base.host
  abs : isAbs c.path = true
  clean : clean c.path = c.path
  query : c.query = ""
  normal : normalizeURL c = c
  canonical : (Ref.new c).isCanonical = true

/-- The inputs on which `rebase`'s tests are sound:
* the path of the root document matches the target's path UP TO A PATH BOUNDARY (`matchesDoc`: equal, or
  followed by `/`) only if they are equal (or the root document's path is `/`) — i.e. the root document is not
  itself a "directory" above the target;
* the target's path is `/` only if the root document's is. -/
def NoPrefixTrap (c base : URL) : Prop :=
  (matchesDoc c.path base.path = true → c.path = base.path ∨ base.path = "/") ∧
  (c.path = "/" → base.path = "/")

/-- What `denormalizeRef` returns for a canonical target. -/
theorem denormalizeRef_eq {base c : URL} (hb : CanonBase base) (hc : CanonTarget c base) :
    denormalizeRef c base =
      normalizeURL (if isAbs (rebasePath c.path base.path) then
                      ⟨base.scheme, base.host, rebasePath c.path base.path, "", c.fragment⟩
                    else ⟨"", "", rebasePath c.path base.path, "", c.fragment⟩) := by
  have hnew : Ref.new c = Ref.classify c := by unfold Ref.new; rw [hc.normal]
  have hcan : (Ref.classify c).isCanonical = true := hnew ▸ hc.canonical
  have hurl : (Ref.classify c).url = c := rfl
  have hsch : c.scheme ≠ "" := by rw [hc.scheme]; exact hb.scheme
  have hpne : c.path ≠ "" := ne_empty_of_isAbs hc.abs
  have hcond : ¬ ((Ref.classify c).url.isEmpty = true ∨ (Ref.classify c).isRoot = true ∨
      (Ref.classify c).hasFragmentOnly = true) := by
    rintro (h | h | h)
    · rw [hurl] at h
      simp [URL.isEmpty, hsch] at h
    · simp [Ref.isRoot, hcan] at h
    · simp [Ref.classify, hpne] at h
  unfold denormalizeRef denormalizeRefId
  rw [hnew, if_neg hcond]
  simp only [rebase, hurl, hc.scheme, hc.host, hc.query, hb.query]
  simp [Ref.new, Ref.classify]

example : CanonBase ⟨"http", "h.com", "/r/root.json", "", ""⟩ ∧
    CanonTarget ⟨"http", "h.com", "/other/doc.json", "", "/definitions/a"⟩ ⟨"http", "h.com", "/r/root.json", "", ""⟩ ∧
    denormalizeRef ⟨"http", "h.com", "/other/doc.json", "", "/definitions/a"⟩ ⟨"http", "h.com", "/r/root.json", "", ""⟩
      = ⟨"http", "h.com", "/other/doc.json", "", "/definitions/a"⟩ := by
  refine ⟨⟨by decide, by decide, by decide, rfl, rfl⟩, ⟨rfl, rfl, by decide, by decide, rfl, by decide, by decide⟩, by decide⟩

/-- Stretch theorem: a canonical target, written relative to the root document by `denormalizeRef`, resolves
back to itself — provided the string-prefix tests of `rebase` are not fooled. -/
theorem denormalize_resolves {base c : URL} (hb : CanonBase base) (hc : CanonTarget c base)
    (hx : NoPrefixTrap c base) : normalizeURI (denormalizeRef c base) base = c := by
  rw [denormalizeRef_eq hb hc]
  obtain ⟨cs, ch, P, cq, f⟩ := c
  obtain ⟨hcs, hch, hca, hcc, hcq, hcn, hccan⟩ := hc
  simp only at hcs hch hca hcc hcq hcn hccan hx ⊢
  subst hcs hch hcq
  have hcol : collapse P = P := congrArg URL.path hcn
  by_cases heq : P = base.path
  · -- the target is the root document itself: fragment-only reference
    have hnp : rebasePath P base.path = "" := by
      unfold rebasePath
      have hp0 : hasPrefix P base.path = true := (hasPrefix_iff _ _).mpr ⟨[], by simp [heq]⟩
      have hp : matchesDoc P base.path = true := by
        unfold matchesDoc
        rw [hp0]
        simp [heq]
      rw [if_pos hp, trimPrefix_of (rest := []) (by simp [heq])]
    rw [hnp]
    simp only [isAbs_empty, Bool.false_eq_true, if_false]
    rw [normalizeURL_relative _ _ (by decide), C12.fragment_only_is_base _ _ rfl rfl rfl, heq]
    obtain ⟨bs, bh, bp, bq, bf⟩ := base
    have := hb.query
    simp only at this ⊢
    subst this
    rfl
  · -- otherwise the path is cut at the directory of the root document
    have hnp : rebasePath P base.path = trimPrefix P (rebaseDir base.path) := by
      unfold rebasePath
      by_cases hp : matchesDoc P base.path = true
      · rcases hx.1 hp with h | h
        · exact absurd h heq
        · rw [if_pos hp, h]
          have : rebaseDir "/" = "/" := by decide
          rw [this]
      · rw [if_neg hp]
    rw [hnp]
    have hdir := rebaseDir_toList hb.abs
    by_cases hv : hasPrefix P (rebaseDir base.path) = true
    · -- under the directory of the root document: relative reference
      obtain ⟨rest, hrest⟩ := (hasPrefix_iff _ _).mp hv
      rw [hdir] at hrest
      have hPc : cleanL P.toList = P.toList := by
        have := congrArg String.toList hcc; simpa using this
      have hPcol : collapseL P.toList = P.toList := by
        have := congrArg String.toList hcol; simpa [collapse] using this
      have hrne : rest ≠ [] := by
        intro e
        subst e
        obtain ⟨q, hq⟩ := vPathL_ends (dirL base.path.toList)
        rw [hq, List.append_nil] at hrest
        rw [hrest] at hPc
        have := clean_fixed_trailing_slash hPc
        subst this
        have hP : P = "/" := String.toList_inj.mp (by rw [hrest]; rfl)
        exact heq (by rw [hx.2 hP, hP])
      have hd : cleanL (dirL base.path.toList) = dirL base.path.toList := by
        unfold dirL; exact cleanL_idem _
      obtain ⟨h1, h4, h5, h2⟩ := rebase_rel_path hd (cleanL_ne_nil _) hPc hPcol hrest hrne
      have htrim : trimPrefix P (rebaseDir base.path) = String.ofList rest :=
        trimPrefix_of (by rw [hdir]; exact hrest)
      rw [htrim]
      have hna : isAbs (String.ofList rest) = false := by simp [isAbs, h1]
      simp only [hna, Bool.false_eq_true, if_false]
      rw [normalizeURL_relative _ _ (by simp [collapse, h2])]
      unfold normalizeURI
      simp only [not_canonical_of_no_scheme, Bool.false_eq_true, if_false]
      have hnd : clean (String.ofList rest) ≠ "." := by
        rw [Ne, clean_eq_dot_iff]; simpa using h4
      have hcp : cleanPath (String.ofList rest) = clean (String.ofList rest) := by
        unfold cleanPath; simp [hnd]
      have hab : isAbs (cleanPath (String.ofList rest)) = false := by rw [isAbs_cleanPath]; exact hna
      have hcne : cleanPath (String.ofList rest) ≠ "" := by rw [hcp]; exact clean_ne_empty _
      have hjoin : join (dir base.path) (clean (String.ofList rest)) = P := by
        apply String.ext
        simpa using h5
      simp only [hab, Bool.false_eq_true, if_false, hcne, ne_eq, not_false_eq_true, if_true]
      simp only [hcp, hjoin]
      have := hb.query
      obtain ⟨bs, bh, bp, bq, bf⟩ := base
      simp only at this ⊢
      subst this
      rfl
    · -- elsewhere on the same site: the absolute reference is kept
      have hv' : hasPrefix P (rebaseDir base.path) = false := by simpa using hv
      rw [trimPrefix_not hv']
      simp only [hca, if_true]
      rw [hcn]
      unfold normalizeURI
      have hcp : cleanPath P = P := cleanPath_of_fixed hcc (ne_dot_of_isAbs hca)
      simp only [hcp, hccan, if_true]

example : CanonBase ⟨"file", "", "/r/root.json", "", ""⟩ ∧
    CanonTarget ⟨"file", "", "/r/sub/other.json", "", "/definitions/a"⟩ ⟨"file", "", "/r/root.json", "", ""⟩ ∧
    NoPrefixTrap ⟨"file", "", "/r/sub/other.json", "", "/definitions/a"⟩ ⟨"file", "", "/r/root.json", "", ""⟩ ∧
    denormalizeRef ⟨"file", "", "/r/sub/other.json", "", "/definitions/a"⟩ ⟨"file", "", "/r/root.json", "", ""⟩
      = ⟨"", "", "sub/other.json", "", "/definitions/a"⟩ := by
  refine ⟨⟨by decide, by decide, by decide, rfl, rfl⟩, ⟨rfl, rfl, by decide, by decide, rfl, by decide, by decide⟩,
    ⟨by decide, by decide⟩, by decide⟩

/-! ### Where it fails (all reproduced against the real `denormalizeRef` / `normalizeURI`) -/

/-- D10 (repaired by 3973529): a document whose name merely EXTENDS the root document's name
(`/r/root.jsonx`, `/r/root.json.d/s.json` beside `/r/root.json`) is no longer taken for the root document:
it is written relative to the root's directory and resolves back. (Before the repair `rebase` matched the
root's path as a plain string prefix and wrote `x#/definitions/a`, which resolves to `/r/x`.) -/
theorem extended_name_is_another_document :
    let base : URL := ⟨"file", "", "/r/root.json", "", ""⟩
    let c : URL := ⟨"file", "", "/r/root.jsonx", "", "/definitions/a"⟩
    let d : URL := ⟨"file", "", "/r/root.json.d/s.json", "", "/definitions/a"⟩
    CanonBase base ∧ CanonTarget c base ∧ NoPrefixTrap c base ∧ NoPrefixTrap d base ∧
    denormalizeRef c base = ⟨"", "", "root.jsonx", "", "/definitions/a"⟩ ∧
    normalizeURI (denormalizeRef c base) base = c ∧
    normalizeURI (denormalizeRef d base) base = d := by
  refine ⟨⟨by decide, by decide, by decide, rfl, rfl⟩, ⟨rfl, rfl, by decide, by decide, rfl, by decide, by decide⟩,
    ⟨by decide, by decide⟩, ⟨by decide, by decide⟩, by decide, by decide, by decide⟩

/-- The same test at an element boundary: a target *below* the root document's path
(`http://h.com/api/v1.json` against the root `http://h.com/api`) is written `http://h.com/v1.json`. -/
theorem prefix_trap_boundary :
    let base : URL := ⟨"http", "h.com", "/api", "", ""⟩
    let c : URL := ⟨"http", "h.com", "/api/v1.json", "", "/definitions/a"⟩
    CanonBase base ∧ CanonTarget c base ∧
    denormalizeRef c base = ⟨"http", "h.com", "/v1.json", "", "/definitions/a"⟩ ∧
    normalizeURI (denormalizeRef c base) base ≠ c := by
  refine ⟨⟨by decide, by decide, by decide, rfl, rfl⟩, ⟨rfl, rfl, by decide, by decide, rfl, by decide, by decide⟩,
    by decide, by decide⟩

/-- A target at the site root (`http://h.com/#/definitions/a`) against a root document elsewhere is written
`#/definitions/a`, i.e. as a reference into the root document itself. -/
theorem root_path_trap :
    let base : URL := ⟨"http", "h.com", "/x.json", "", ""⟩
    let c : URL := ⟨"http", "h.com", "/", "", "/definitions/a"⟩
    CanonBase base ∧ CanonTarget c base ∧
    denormalizeRef c base = ⟨"", "", "", "", "/definitions/a"⟩ ∧
    normalizeURI (denormalizeRef c base) base = ⟨"http", "h.com", "/x.json", "", "/definitions/a"⟩ ∧
    normalizeURI (denormalizeRef c base) base ≠ c := by
  refine ⟨⟨by decide, by decide, by decide, rfl, rfl⟩, ⟨rfl, rfl, by decide, by decide, rfl, by decide, by decide⟩,
    by decide, by decide, by decide⟩

/-- A target in a document that differs from the root document by its query stays absolute (before the repair
61036d6 in /repo `rebase` compared scheme and host only and this target was written `other.json#/definitions/a`,
its query lost: found by the reference-graph family with documents told apart by a query). -/
theorem other_query_stays_absolute :
    denormalizeRef ⟨"http", "h.com", "/r/other.json", "v=2", "/definitions/a"⟩ ⟨"http", "h.com", "/r/root.json", "", ""⟩
      = ⟨"http", "h.com", "/r/other.json", "v=2", "/definitions/a"⟩ := by decide

/-- the same path as the root document, another query: not the root document -/
theorem same_path_other_query_is_another_document :
    denormalizeRef ⟨"http", "h.com", "/r/root.json", "v=2", "/definitions/a"⟩ ⟨"http", "h.com", "/r/root.json", "", ""⟩
      = ⟨"http", "h.com", "/r/root.json", "v=2", "/definitions/a"⟩ := by decide

end SpecModel.Props.C03
