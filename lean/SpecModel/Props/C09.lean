/-
C09 — Skip-schemas mode.

In skip-schemas mode the expander follows the references of parameters, responses and path items and keeps
every schema reference, rewriting its text so that it reads the same from the root location.  In the abstract
graphs a reference IS its canonical target, so "rewritten only as far as needed to designate the same target"
is: the output is a partial unfolding (`Exp`) of the input in which no schema key was followed.

* `run_skip_validated` (per run): what the compiled checker accepts with the schema keys as `keep` list is a
  partial unfolding, hence meaning-preserving (`Equiv`, via C02), and a kept key is still a reference leaf;
* `skip_then_full`: partial unfoldings compose — expanding the skip result fully is a partial unfolding of
  the original input, so it denotes the same trees as a direct full expansion (both `Equiv` to the input);
* the textual side — the rewritten `$ref` resolves back to the same canonical target from the root location,
  fragment-only when it points into the root — is `C03.denormalize_resolves` / `denormalizeRef_eq`
  (`Props/C03Denorm.lean`), about the model of `denormalizeRef` tied by the `denorm` correspondence.
-/
import SpecModel.Props.ExpandCore
import SpecModel.Expand.Check
import SpecModel.Expand.SideConditions
import SpecModel.Props.C03Denorm

namespace SpecModel.Props.C09
open SpecModel.Expand SpecModel.Props

variable {K L : Type} [DecidableEq K] [DecidableEq L]

theorem run_skip_validated {W W' : World K L} {keep : List K} {n m : Nat} {ks : List K} {t t' : Tree K L}
    (hw : checkWorld W W' n ks = true) (hout : ∀ k, k ∉ ks → W k = none ∧ W' k = none)
    (he : checkExp W keep m t t' = true) : Exp W t t' ∧ Equiv W t W' t' :=
  ⟨checkExp_sound he, fun d => exp_sim (checkWorld_sound hw hout) d t t' (checkExp_sound he)⟩

/-- a schema key handed over as "keep" is not followed: where the input has the reference, so has the output -/
theorem kept_reference_stays {W : World K L} {keep : List K} {n : Nat} {k : K} {t' : Tree K L}
    (hk : k ∈ keep) (h : checkExp W keep n (.ref k) t' = true) : t' = .ref k := checkExp_keeps hk h

/-- full expansion after skip expansion denotes the same as the input (and so the same as a direct full
expansion, which also does, by C02) -/
theorem skip_then_full {W W₁ W₂ : World K L} {t t₁ t₂ : Tree K L}
    (h₁ : Equiv W t W₁ t₁) (h₂ : Equiv W₁ t₁ W₂ t₂) : Equiv W t W₂ t₂ := ExpandCore.equiv_trans h₁ h₂

example : checkExp ExpandCore.Wx [0] 40 (.node "root" [.ref 0, .ref 2] : Tree Nat String)
    (.node "root" [.ref 0, .node "c" [.node "d" []]]) = true := by decide
example : checkExp ExpandCore.Wx [0] 40 (.node "root" [.ref 0, .ref 2] : Tree Nat String)
    (.node "root" [.node "a" [.ref 1, .ref 2], .node "c" [.node "d" []]]) = false := by decide


/-! ### Side conditions on the shape of expander.go (regenerated facts, `decide`) -/

/-- every schema keyword that can hold a sub-schema (regenerated struct table of SchemaProps) is a position
`expandSchema` / `expandItems` recurse into (regenerated from their AST), and conversely -/
theorem side_positions_complete :
    SpecModel.Expand.Side.positionsComplete SpecModel.Gen.structs SpecModel.Gen.expandPositions = true := by decide

theorem side_sections_complete : SpecModel.Expand.Side.sectionsComplete SpecModel.Gen.specSections = true := by decide

theorem side_operations_complete :
    SpecModel.Expand.Side.operationsComplete SpecModel.Gen.pathItemOperations SpecModel.Gen.pathItemOperationFields = true := by
  decide

end SpecModel.Props.C09
