/-
Abstract core of C04 / C03 / C08 / C02 (and, by instantiation, C10): properties of the reference-expansion
algorithm `SpecModel.Expand.expand` (model: `SpecModel/Expand/Core.lean`) against the specification-side
definitions of `SpecModel/Expand/Sem.lean` (reference graph, cycles, meaning), which do not mention the
algorithm. Helper lemmas: `SpecModel/Expand/Lemmas.lean`, `SpecModel/Expand/Meaning.lean`.

Every theorem is followed by an `example` on the concrete world `Wx` below (a 2-cycle `0 ⇄ 1`, an acyclic
part `2 → 3`, a dangling key `9` referenced from `4`), showing that its hypotheses are satisfiable.
-/
import SpecModel.Expand.Meaning

namespace SpecModel.Props.ExpandCore
open SpecModel.Expand

variable {K L : Type} [DecidableEq K]

/-! ### The running example -/

/-- `0 ↦ a[ref 1, ref 2]`, `1 ↦ b[ref 0]` (a 2-cycle), `2 ↦ c[ref 3]`, `3 ↦ d[]` (acyclic),
`4 ↦ e[ref 9, ref 3]` with `9` unresolvable. -/
def Wx : World Nat String
  | 0 => some (.node "a" [.ref 1, .ref 2])
  | 1 => some (.node "b" [.ref 0])
  | 2 => some (.node "c" [.ref 3])
  | 3 => some (.node "d" [])
  | 4 => some (.node "e" [.ref 9, .ref 3])
  | _ => none

def ksx : List Nat := [0, 1, 2, 3, 4]

/-- a document that uses the cycle and the acyclic part -/
def tx : Tree Nat String := .node "root" [.ref 0, .ref 2]
/-- a document over the acyclic part only -/
def tAcyc : Tree Nat String := .node "root" [.ref 2, .ref 3]
/-- a document with an unresolvable reference below a resolvable one -/
def tBad : Tree Nat String := .node "root" [.ref 2, .ref 4]

theorem finiteWorld_Wx : FiniteWorld Wx ksx := by
  intro k h
  match k, h with
  | 0, _ | 1, _ | 2, _ | 3, _ | 4, _ => simp [ksx]
  | k + 5, h => exact absurd rfl h

theorem edge_Wx_0_1 : Edge Wx 0 1 := ⟨_, rfl, by simp [refsOf, refsOfList]⟩
theorem edge_Wx_1_0 : Edge Wx 1 0 := ⟨_, rfl, by simp [refsOf, refsOfList]⟩
theorem onCycle_Wx_0 : OnCycle Wx 0 := ⟨1, edge_Wx_0_1, .single edge_Wx_1_0⟩
theorem onCycle_Wx_1 : OnCycle Wx 1 := ⟨0, edge_Wx_1_0, .single edge_Wx_0_1⟩

theorem acyclic_tAcyc : Acyclic Wx tAcyc := by
  apply acyclic_of_rank (fun k => k = 2 ∨ k = 3) (fun k => 5 - k)
  · intro k hk; simp [tAcyc, refsOf, refsOfList] at hk; exact hk
  · rintro k k' (rfl | rfl) ⟨t, ht, hk'⟩ <;> simp [Wx] at ht <;> subst ht <;>
      simp [refsOf, refsOfList] at hk'
    subst hk'; simp

/-! ## 1. Termination (C04) -/

/-- The explicit fuel bound: the size of the start tree plus, for every key of the world, the size of the
largest tree of the world. (The variant of the proof is lexicographic: number of keys not yet on the
stack, then tree size; `unfollowed`, `terminates_both`.) -/
def fuelBound (W : World K L) (ks : List K) (t : Tree K L) : Nat := size t + ks.length * maxSize W ks

/-- **C04.** In a finite world, `expand` never runs out of fuel at `fuelBound` (nor above), for every start
tree, stack, memo and both modes. -/
theorem expand_terminates {W : World K L} {ks : List K} (hW : FiniteWorld W ks) (c : Bool)
    (p m : List K) (t : Tree K L) {n : Nat} (hn : fuelBound W ks t ≤ n) :
    expand W c n p m t ≠ .outOfFuel := by
  apply (terminates_both hW c n).1
  have h1 := unfollowed_le ks p
  have h2 : unfollowed ks p * maxSize W ks ≤ ks.length * maxSize W ks := Nat.mul_le_mul_right _ h1
  simp only [fuelBound] at hn
  omega

example : expand Wx false (fuelBound Wx ksx tx) [] [] tx ≠ .outOfFuel :=
  expand_terminates finiteWorld_Wx false [] [] tx (Nat.le_refl _)
example : fuelBound Wx ksx tx = 36 := by decide
example : expand Wx false 40 [] [] tx =
    .ok (.node "root" [.node "a" [.node "b" [.ref 0], .node "c" [.node "d" []]], .node "c" [.node "d" []]], [0]) := rfl

/-- **fuel_mono.** A result other than `outOfFuel` is not changed by more fuel. -/
theorem fuel_mono {W : World K L} {c : Bool} {n : Nat} {p m : List K} {t : Tree K L}
    {r : Res K (Tree K L × List K)} (h : expand W c n p m t = r) (hr : r ≠ .outOfFuel) (d : Nat) :
    expand W c (n + d) p m t = r :=
  (fuel_mono_both W c d n).1 p m t r h hr

theorem fuel_mono_list {W : World K L} {c : Bool} {n : Nat} {p m : List K} {cs : List (Tree K L)}
    {r : Res K (List (Tree K L) × List K)} (h : expandList W c n p m cs = r) (hr : r ≠ .outOfFuel) (d : Nat) :
    expandList W c (n + d) p m cs = r :=
  (fuel_mono_both W c d n).2 p m cs r h hr

example : expand Wx false (20 + 100) [] [] tx =
    .ok (.node "root" [.node "a" [.node "b" [.ref 0], .node "c" [.node "d" []]], .node "c" [.node "d" []]], [0]) :=
  fuel_mono (n := 20) (r := .ok (_, [0])) rfl (by simp) 100

/-- Termination and fuel monotonicity together: in a finite world the result is one and the same proper
outcome for every fuel `≥ fuelBound`. -/
theorem expand_total {W : World K L} {ks : List K} (hW : FiniteWorld W ks) (c : Bool)
    (p m : List K) (t : Tree K L) :
    ∃ r, r ≠ .outOfFuel ∧ ∀ n, fuelBound W ks t ≤ n → expand W c n p m t = r := by
  refine ⟨expand W c (fuelBound W ks t) p m t, expand_terminates hW c p m t (Nat.le_refl _), ?_⟩
  intro n hn
  have := fuel_mono (rfl : expand W c (fuelBound W ks t) p m t = _)
    (expand_terminates hW c p m t (Nat.le_refl _)) (n - fuelBound W ks t)
  rwa [show fuelBound W ks t + (n - fuelBound W ks t) = n by omega] at this

example : ∃ r, r ≠ .outOfFuel ∧ ∀ n, 36 ≤ n → expand Wx true n [] [] tx = r :=
  expand_total finiteWorld_Wx true [] [] tx

/-- **Recursion depth.** `stackDepth` follows the control flow of `expand` and returns the largest
`parents.length` over all (transitively) recursive calls. It never exceeds the initial length plus the
number of keys of the world: a key on the stack is never followed again. -/
theorem stack_depth_le {W : World K L} {ks : List K} (hW : FiniteWorld W ks) (c : Bool) (n : Nat)
    (p m : List K) (t : Tree K L) : stackDepth W c n p m t ≤ ks.length + p.length := by
  have := (stackDepth_both hW c n).1 p m t
  have := unfollowed_le ks p
  omega

example : stackDepth Wx false 40 [] [] tx ≤ ksx.length + 0 := stack_depth_le finiteWorld_Wx false 40 [] [] tx
example : stackDepth Wx false 40 [] [] tx = 3 := by decide

/-! ## 2. Memo and cut points (C03) -/

omit [DecidableEq K] in
/-- the invariant of the stack holds initially … -/
theorem stackInv_nil (W : World K L) (t : Tree K L) : StackInv W [] t := Expand.stackInv_nil t

omit [DecidableEq K] in
/-- … and whenever the stack is a genuine one: a chain of keys each reaching the next by at least one
edge, the last one reaching every reference of the tree at hand. -/
theorem stackInv_of_genuine {W : World K L} {p : List K} {t : Tree K L} (h : GenuineStack W p t) :
    StackInv W p t := h.stackInv

example : GenuineStack Wx [0, 1] (.node "b" [.ref 0]) := by
  refine ⟨⟨.of_edge edge_Wx_0_1, trivial⟩, ?_⟩
  intro q hq k hk
  simp at hq; subst hq
  simp [refsOf, refsOfList] at hk; subst hk
  exact .of_edge edge_Wx_1_0

/-- **C03.** If the initial memo holds only keys on a cycle and the stack satisfies `StackInv`, then after
a successful run the memo still holds only keys on a cycle, and every reference left in the output is on a
cycle — or, in continue mode only, is unresolvable. -/
theorem kept_on_cycle {W : World K L} {c : Bool} {n : Nat} {p m m' : List K} {t t' : Tree K L}
    (h : expand W c n p m t = .ok (t', m')) (hm : ∀ k, k ∈ m → OnCycle W k) (hp : StackInv W p t) :
    (∀ k, k ∈ m' → OnCycle W k) ∧ (∀ k, k ∈ refsOf t' → OnCycle W k ∨ (c = true ∧ W k = none)) :=
  (kept_on_cycle_both W c n).1 p m t t' m' h hp hm

example : (∀ k, k ∈ [1] → OnCycle Wx k) ∧ StackInv Wx [] tx ∧
    expand Wx false 40 [] [1] tx =
      .ok (.node "root" [.node "a" [.ref 1, .node "c" [.node "d" []]], .node "c" [.node "d" []]], [1]) :=
  ⟨by intro k hk; simp at hk; subst hk; exact onCycle_Wx_1, stackInv_nil _ _, rfl⟩

/-- In strict mode, from the empty stack and memo: every remaining reference is a resolvable cut point of
a cycle. -/
theorem remaining_on_cycle {W : World K L} {n : Nat} {m' : List K} {t t' : Tree K L}
    (h : expand W false n [] [] t = .ok (t', m')) :
    ∀ k, k ∈ refsOf t' → OnCycle W k ∧ W k ≠ none := by
  intro k hk
  rcases (kept_on_cycle h (by simp) (stackInv_nil W t)).2 k hk with hc | hc
  · exact ⟨hc, hc.resolvable⟩
  · simp at hc

example : ∃ t' m', expand Wx false 40 [] [] tx = .ok (t', m') ∧ refsOf t' = [0] := ⟨_, _, rfl, rfl⟩

/-- **memo_grows.** The memo only ever grows. -/
theorem memo_grows {W : World K L} {c : Bool} {n : Nat} {p m m' : List K} {t t' : Tree K L}
    (h : expand W c n p m t = .ok (t', m')) : ∀ k, k ∈ m → k ∈ m' :=
  (memo_grows_both W c n).1 p m t t' m' h

example : ∃ t' m', expand Wx false 40 [] [1] tx = .ok (t', m') ∧ ∀ k, k ∈ [1] → k ∈ m' :=
  ⟨_, _, rfl, memo_grows (rfl : expand Wx false 40 [] [1] tx = .ok _)⟩

/-- Whatever enters the memo or stays in the output is reachable from the input. -/
theorem kept_reachable {W : World K L} {c : Bool} {n : Nat} {p m m' : List K} {t t' : Tree K L}
    (h : expand W c n p m t = .ok (t', m')) :
    (∀ k, k ∈ m' → k ∈ m ∨ ReachFrom W t k) ∧ (∀ k, k ∈ refsOf t' → ReachFrom W t k) :=
  (kept_reach_both W c n).1 p m t t' m' h

example : ∀ k, k ∈ [0] → k ∈ ([] : List Nat) ∨ ReachFrom Wx tx k :=
  (kept_reachable (rfl : expand Wx false 40 [] [] tx = .ok (_, [0]))).1

/-- **acyclic_ref_free.** On an acyclic input a successful strict expansion from the empty stack and memo
leaves no reference and memoises nothing. -/
theorem acyclic_ref_free {W : World K L} {n : Nat} {m : List K} {t t' : Tree K L}
    (ha : Acyclic W t) (h : expand W false n [] [] t = .ok (t', m)) : refsOf t' = [] ∧ m = [] := by
  have h1 := kept_reachable h
  have h2 := kept_on_cycle h (by simp) (stackInv_nil W t)
  constructor
  · apply List.eq_nil_iff_forall_not_mem.2
    intro k hk
    rcases h2.2 k hk with hc | hc
    · exact ha k (h1.2 k hk) hc
    · simp at hc
  · apply List.eq_nil_iff_forall_not_mem.2
    intro k hk
    rcases h1.1 k hk with hc | hc
    · simp at hc
    · exact ha k hc (h2.1 k hk)

example : Acyclic Wx tAcyc ∧
    expand Wx false 9 [] [] tAcyc = .ok (.node "root" [.node "c" [.node "d" []], .node "d" []], []) :=
  ⟨acyclic_tAcyc, rfl⟩

/-- **acyclic_deterministic.** On an acyclic input the output tree is the plain, memo-free substitution
`fullExpand` (at the same fuel), and the memo is returned unchanged — in both modes, for every stack
satisfying the invariant and every memo of keys on cycles. -/
theorem acyclic_deterministic {W : World K L} {c : Bool} {n : Nat} {p m m' : List K} {t t' : Tree K L}
    (ha : Acyclic W t) (hm : ∀ k, k ∈ m → OnCycle W k) (hp : StackInv W p t)
    (h : expand W c n p m t = .ok (t', m')) : fullExpand W n t = some t' ∧ m' = m :=
  ((acyclic_both W c n).1 p m t t' m' h hp hm ha).symm

example : fullExpand Wx 9 tAcyc = some (.node "root" [.node "c" [.node "d" []], .node "d" []]) :=
  (acyclic_deterministic acyclic_tAcyc (by simp) (stackInv_nil _ _)
    (rfl : expand Wx false 9 [] [] tAcyc = .ok (_, []))).1

/-- Hence on an acyclic input the output depends neither on the memo, nor on the stack, nor on the fuel,
nor on the mode. -/
theorem acyclic_memo_irrelevant {W : World K L} {c₁ c₂ : Bool} {n₁ n₂ : Nat} {p₁ p₂ m₁ m₂ m₁' m₂' : List K}
    {t t₁ t₂ : Tree K L} (ha : Acyclic W t)
    (hm₁ : ∀ k, k ∈ m₁ → OnCycle W k) (hp₁ : StackInv W p₁ t)
    (hm₂ : ∀ k, k ∈ m₂ → OnCycle W k) (hp₂ : StackInv W p₂ t)
    (h₁ : expand W c₁ n₁ p₁ m₁ t = .ok (t₁, m₁')) (h₂ : expand W c₂ n₂ p₂ m₂ t = .ok (t₂, m₂')) : t₁ = t₂ :=
  FullExpands.det ⟨n₁, (acyclic_deterministic ha hm₁ hp₁ h₁).1⟩ ⟨n₂, (acyclic_deterministic ha hm₂ hp₂ h₂).1⟩

example : (∀ k, k ∈ [0, 1] → OnCycle Wx k) ∧ ∃ t₁ m₁ t₂ m₂, expand Wx false 40 [] [0, 1] tAcyc = .ok (t₁, m₁) ∧
    expand Wx true 20 [] [] tAcyc = .ok (t₂, m₂) ∧ t₁ = t₂ := by
  refine ⟨?_, _, _, _, _, rfl, rfl, rfl⟩
  intro k hk; simp at hk
  rcases hk with rfl | rfl
  · exact onCycle_Wx_0
  · exact onCycle_Wx_1

omit [DecidableEq K] in
/-- … nor on the order in which siblings are processed: the reference expander is a function of the tree
alone (`FullExpands.det`) and treats the children of a node independently of one another. -/
theorem fullExpands_node {W : World K L} {l : L} {cs : List (Tree K L)} {t' : Tree K L} :
    FullExpands W (.node l cs) t' ↔ ∃ cs', t' = .node l cs' ∧ All2 (FullExpands W) cs cs' := by
  constructor
  · rintro ⟨n, h⟩
    cases n with
    | zero => simp [fullExpand] at h
    | succ n =>
      simp only [fullExpand] at h
      cases hl : fullExpandList W n cs with
      | none => simp [hl] at h
      | some cs' => simp [hl] at h; exact ⟨cs', h.symm, fullExpandList_all2 n cs cs' hl⟩
  · rintro ⟨cs', rfl, h⟩
    obtain ⟨n, hn⟩ := all2_fullExpandList cs cs' h
    exact ⟨n + 1, by simp [fullExpand, hn]⟩

omit [DecidableEq K] in
theorem fullExpands_ref {W : World K L} {k : K} {s t' : Tree K L} (hs : W k = some s) :
    FullExpands W (.ref k) t' ↔ FullExpands W s t' := by
  constructor
  · rintro ⟨n, h⟩
    cases n with
    | zero => simp [fullExpand] at h
    | succ n => simp only [fullExpand, hs] at h; exact ⟨n, h⟩
  · rintro ⟨n, h⟩; exact ⟨n + 1, by simp only [fullExpand, hs]; exact h⟩

omit [DecidableEq K] in
theorem fullExpands_det {W : World K L} {t a b : Tree K L} (ha : FullExpands W t a) (hb : FullExpands W t b) :
    a = b := ha.det hb

example : FullExpands Wx tAcyc (.node "root" [.node "c" [.node "d" []], .node "d" []]) := ⟨9, rfl⟩

/-! ## 3. Errors (C08) -/

/-- **strict_err_sound.** A reported error names a key that is unresolvable and reachable from the input:
no spurious error. (Any stack, any memo.) -/
theorem strict_err_sound {W : World K L} {n : Nat} {p m : List K} {t : Tree K L} {k : K}
    (h : expand W false n p m t = .err k) : W k = none ∧ ReachFrom W t k :=
  ((err_sound_both W false n).1 p m t k h).2

example : expand Wx false 40 [] [] tBad = .err 9 := rfl
example : Wx 9 = none ∧ ReachFrom Wx tBad 9 := strict_err_sound (rfl : expand Wx false 40 [] [] tBad = .err 9)

/-- **continue_never_errs.** -/
theorem continue_never_errs {W : World K L} {n : Nat} {p m : List K} {t : Tree K L} {k : K} :
    expand W true n p m t ≠ .err k := by
  intro h
  have := ((err_sound_both W true n).1 p m t k h).1
  simp at this

example : expand Wx true 40 [] [] tBad =
    .ok (.node "root" [.node "c" [.node "d" []], .node "e" [.ref 9, .node "d" []]], []) := rfl

/-- The visited-set invariant behind the next two theorems, at the root: there is a set `V` of followed
keys, all resolvable, closed under edges up to unresolvable keys that sit verbatim in the output, and
containing (up to the same) the references of the input. -/
theorem visited_root {W : World K L} {c : Bool} {n : Nat} {m' : List K} {t t' : Tree K L}
    (h : expand W c n [] [] t = .ok (t', m')) :
    ∀ k, ReachFrom W t k → W k ≠ none ∨ (W k = none ∧ k ∈ refsOf t') := by
  obtain ⟨V, hV, hrefs, _⟩ := (visit_both W c n).1 [] [] t t' m' h
  rintro k ⟨k0, hk0, r⟩
  rcases visited_reach hV (hrefs k0 hk0) r with hv | hv
  · exact .inl (hV k hv).1
  · exact .inr hv

example : ∀ k, ReachFrom Wx tBad k → Wx k ≠ none ∨ (Wx k = none ∧ k ∈ [9]) :=
  visited_root (rfl : expand Wx true 40 [] [] tBad = .ok (_, []))

/-- **strict_ok_complete.** If a strict expansion from the empty stack and memo succeeds, every key
reachable from the input is resolvable: nothing unresolvable was silently skipped, memoised keys
included. -/
theorem strict_ok_complete {W : World K L} {n : Nat} {t : Tree K L} {r : Tree K L × List K}
    (h : expand W false n [] [] t = .ok r) : ∀ k, ReachFrom W t k → W k ≠ none := by
  obtain ⟨t', m'⟩ := r
  intro k hk
  rcases visited_root h k hk with hv | hv
  · exact hv
  · exact (remaining_on_cycle h k hv.2).2

example : ∀ k, ReachFrom Wx tx k → Wx k ≠ none :=
  strict_ok_complete (rfl : expand Wx false 40 [] [] tx = .ok _)

/-- **continue_verbatim.** In continue mode every unresolvable key reachable from the input stays in the
output as a verbatim `ref k`. (From the empty stack and memo. `Exp`/`expand_exp` below adds that it stays
*at its position*: a kept leaf is never rewritten.) -/
theorem continue_verbatim {W : World K L} {n : Nat} {m' : List K} {t t' : Tree K L} {k : K}
    (h : expand W true n [] [] t = .ok (t', m')) (hr : ReachFrom W t k) (hk : W k = none) :
    k ∈ refsOf t' := by
  rcases visited_root h k hr with hv | hv
  · exact absurd hk hv
  · exact hv.2

example : 9 ∈ refsOf (.node "root" [.node "c" [.node "d" []], .node "e" [.ref 9, .node "d" []]] : Tree Nat String) :=
  continue_verbatim (rfl : expand Wx true 40 [] [] tBad = .ok (_, []))
    (strict_err_sound (rfl : expand Wx false 40 [] [] tBad = .err 9)).2 rfl

/-- Conversely, in continue mode a reference left in the output is a cycle cut point or unresolvable. -/
theorem continue_remaining {W : World K L} {n : Nat} {m' : List K} {t t' : Tree K L}
    (h : expand W true n [] [] t = .ok (t', m')) : ∀ k, k ∈ refsOf t' → OnCycle W k ∨ W k = none := by
  intro k hk
  exact ((kept_on_cycle h (by simp) (stackInv_nil W t)).2 k hk).imp id (·.2)

example : ∀ k, k ∈ [0] → OnCycle Wx k ∨ Wx k = none :=
  continue_remaining (rfl : expand Wx true 40 [] [] tx = .ok (_, [0]))

/-- Both directions together, in a finite world: a strict expansion fails iff some reachable key is
unresolvable. -/
theorem strict_error_iff {W : World K L} {ks : List K} (hW : FiniteWorld W ks) (t : Tree K L) {n : Nat}
    (hn : fuelBound W ks t ≤ n) :
    (∃ k, expand W false n [] [] t = .err k) ↔ ∃ k, ReachFrom W t k ∧ W k = none := by
  constructor
  · rintro ⟨k, h⟩; exact ⟨k, (strict_err_sound h).2, (strict_err_sound h).1⟩
  · rintro ⟨k, hr, hk⟩
    cases h : expand W false n [] [] t with
    | ok r => exact absurd hk (strict_ok_complete h k hr)
    | err k' => exact ⟨k', rfl⟩
    | outOfFuel => exact absurd h (expand_terminates hW false [] [] t hn)

example : (∃ k, expand Wx false 40 [] [] tBad = .err k) ↔ ∃ k, ReachFrom Wx tBad k ∧ Wx k = none :=
  strict_error_iff finiteWorld_Wx tBad (by decide : fuelBound Wx ksx tBad ≤ 40)

/-- In a finite world a continue-mode expansion succeeds. -/
theorem continue_ok {W : World K L} {ks : List K} (hW : FiniteWorld W ks) (p m : List K) (t : Tree K L)
    {n : Nat} (hn : fuelBound W ks t ≤ n) : ∃ r, expand W true n p m t = .ok r := by
  cases h : expand W true n p m t with
  | ok r => exact ⟨r, rfl⟩
  | err k => exact absurd h continue_never_errs
  | outOfFuel => exact absurd h (expand_terminates hW true p m t hn)

example : ∃ r, expand Wx true 40 [] [] tBad = .ok r := continue_ok finiteWorld_Wx [] [] tBad (by decide : fuelBound Wx ksx tBad ≤ 40)

/-! ## 4. Meaning preservation (C02)

`Equiv W t W' t'` (`Sem.lean`): `t` read in `W` and `t'` read in `W'` denote the same possibly infinite
fully dereferenced tree. -/

omit [DecidableEq K] in
theorem equiv_refl (W : World K L) (t : Tree K L) : Equiv W t W t := fun n => Sim.refl W n t

omit [DecidableEq K] in
theorem equiv_symm {W W' : World K L} {t t' : Tree K L} (h : Equiv W t W' t') : Equiv W' t' W t :=
  fun n => (h n).symm

omit [DecidableEq K] in
theorem equiv_trans {W W' W'' : World K L} {t t' t'' : Tree K L} (h : Equiv W t W' t')
    (h' : Equiv W' t' W'' t'') : Equiv W t W'' t'' := fun n => (h n).trans (h' n)

omit [DecidableEq K] in
/-- a resolvable reference denotes what its target denotes -/
theorem equiv_ref {W : World K L} {k : K} {s : Tree K L} (hs : W k = some s) : Equiv W (.ref k) W s :=
  fun n => sim_ref hs n

example : Equiv Wx (.ref 0) Wx (.node "a" [.ref 1, .ref 2]) := equiv_ref rfl

omit [DecidableEq K] in
/-- `Equiv` is structural on nodes: same label, children pairwise equivalent (so it is a congruence, and
it distinguishes trees that differ anywhere at finite depth) -/
theorem equiv_node_iff {W W' : World K L} {l l' : L} {cs cs' : List (Tree K L)} :
    Equiv W (.node l cs) W' (.node l' cs') ↔ l = l' ∧ All2 (fun c c' => Equiv W c W' c') cs cs' := by
  simp only [Equiv]
  rw [← all2_forall]
  constructor
  · intro h
    exact ⟨(sim_node_succ.1 (h 1)).1, fun n => (sim_node_succ.1 (h (n + 1))).2⟩
  · rintro ⟨hl, h⟩ n
    cases n with
    | zero => simp [Sim]
    | succ n => exact sim_node_succ.2 ⟨hl, h n⟩

omit [DecidableEq K] in
/-- unresolvable references are atoms: equivalent only to themselves … -/
theorem equiv_dangling_iff {W W' : World K L} {k k' : K} (hk : W k = none) (hk' : W' k' = none) :
    Equiv W (.ref k : Tree K L) W' (.ref k') ↔ k = k' :=
  ⟨fun h => (sim_dangling_succ hk hk').1 (h 1), fun h n => by
    cases n with
    | zero => simp [Sim]
    | succ n => exact (sim_dangling_succ hk hk').2 h⟩

omit [DecidableEq K] in
/-- … and never to a node -/
theorem not_equiv_dangling_node {W W' : World K L} {k : K} (hk : W k = none) {l : L} {cs : List (Tree K L)} :
    ¬ Equiv W (.ref k) W' (.node l cs) := fun h => sim_dangling_node hk (h 1)

/-- The relation is not trivial: different labels, or a dangling reference against a node, are told
apart at depth 1. -/
example : ¬ Equiv Wx (.ref 2) Wx (.ref 3) := by
  intro h
  obtain ⟨u', hu', hm⟩ := (h 1).1 _ (head?_sound (n := 1) (W := Wx) (t := .ref 2) rfl)
  have := hu'.det (head?_sound (n := 1) (W := Wx) (t := .ref 3) rfl)
  subst this
  simp [HeadMatch] at hm

/-- **(a) expand_exp.** The output of a successful expansion is a partial expansion of its input. -/
theorem expand_exp {W : World K L} {c : Bool} {n : Nat} {p m m' : List K} {t t' : Tree K L}
    (h : expand W c n p m t = .ok (t', m')) : Exp W t t' :=
  (expand_exp_both W c n).1 p m t t' m' h

example : Exp Wx tx
    (.node "root" [.node "a" [.node "b" [.ref 0], .node "c" [.node "d" []]], .node "c" [.node "d" []]]) :=
  expand_exp (rfl : expand Wx false 40 [] [] tx = .ok (_, [0]))

omit [DecidableEq K] in
/-- **(b) exp_equiv.** If `W'` is `W` with some trees replaced by partial expansions of themselves
(`WorldExp`), and `t'` is a partial expansion of `t`, then `t'` read in `W'` denotes what `t` read in `W`
denotes. No well-foundedness hypothesis is needed. -/
theorem exp_equiv {W W' : World K L} (hW : WorldExp W W') {t t' : Tree K L} (h : Exp W t t') :
    Equiv W t W' t' := fun n => exp_sim hW n t t' h

/-- the world in which `0` and `2` have been replaced by their own expansions -/
def Wx' : World Nat String
  | 0 => some (.node "a" [.node "b" [.ref 0], .node "c" [.node "d" []]])
  | 2 => some (.node "c" [.node "d" []])
  | k => Wx k

theorem worldExp_Wx : WorldExp Wx Wx' := by
  intro k
  match k with
  | 0 => exact .inr ⟨_, _, rfl, rfl, expand_exp (rfl : expand Wx false 40 [0] [] (.node "a" [.ref 1, .ref 2]) = .ok (_, [0]))⟩
  | 2 => exact .inr ⟨_, _, rfl, rfl, expand_exp (rfl : expand Wx false 40 [] [] (.node "c" [.ref 3]) = .ok (_, []))⟩
  | 1 => exact .inr ⟨_, _, rfl, rfl, Exp.refl _ _⟩
  | 3 => exact .inr ⟨_, _, rfl, rfl, Exp.refl _ _⟩
  | 4 => exact .inr ⟨_, _, rfl, rfl, Exp.refl _ _⟩
  | k + 5 => exact .inl ⟨rfl, rfl⟩

example : Equiv Wx tx Wx'
    (.node "root" [.node "a" [.node "b" [.ref 0], .node "c" [.node "d" []]], .node "c" [.node "d" []]]) :=
  exp_equiv worldExp_Wx (expand_exp (rfl : expand Wx false 40 [] [] tx = .ok (_, [0])))

/-- **(c) expand_preserves_meaning.** Let `W'` be `W` in which the keys of `rs` have been replaced by
(successful) expansions of their own targets — any mode, fuel, stack and memo, possibly different for each
key — and all other keys are unchanged. Then the output of a successful expansion of `t`, read in `W'`,
denotes what `t` denoted in `W`: the output document can replace the input document. -/
theorem expand_preserves_meaning {W W' : World K L} (rs : List K)
    (hrs : ∀ k, k ∈ rs → ∃ s s' c n p m m', W k = some s ∧ expand W c n p m s = .ok (s', m') ∧ W' k = some s')
    (hother : ∀ k, k ∉ rs → W' k = W k)
    {c : Bool} {n : Nat} {p m m' : List K} {t t' : Tree K L} (h : expand W c n p m t = .ok (t', m')) :
    Equiv W t W' t' := by
  apply exp_equiv _ (expand_exp h)
  intro k
  by_cases hk : k ∈ rs
  · obtain ⟨s, s', c, n, p, m, m', hs, he, hs'⟩ := hrs k hk
    exact .inr ⟨s, s', hs, hs', expand_exp he⟩
  · have e := hother k hk
    cases hs : W k with
    | none => exact .inl ⟨rfl, by rw [e, hs]⟩
    | some s => exact .inr ⟨s, s, rfl, by rw [e, hs], Exp.refl W s⟩

omit [DecidableEq K] in
/-- … and every key of the new world denotes what it denoted in the old one. -/
theorem world_equiv {W W' : World K L} (hW : WorldExp W W') (k : K) : Equiv W (.ref k) W' (.ref k) :=
  exp_equiv hW (.keep k)

example : Equiv Wx (.ref 0) Wx' (.ref 0) := world_equiv worldExp_Wx 0

example : Equiv Wx tx Wx'
    (.node "root" [.node "a" [.node "b" [.ref 0], .node "c" [.node "d" []]], .node "c" [.node "d" []]]) := by
  apply expand_preserves_meaning [0, 2] _ _ (rfl : expand Wx false 40 [] [] tx = .ok (_, [0]))
  · intro k hk
    simp at hk
    rcases hk with rfl | rfl
    · exact ⟨_, _, false, 40, [0], [], [0], rfl, rfl, rfl⟩
    · exact ⟨_, _, false, 40, [], [], [], rfl, rfl, rfl⟩
  · intro k hk
    match k, hk with
    | 0, hk => simp at hk
    | 2, hk => simp at hk
    | 1, _ | 3, _ | 4, _ => rfl
    | k + 5, _ => rfl

end SpecModel.Props.ExpandCore
