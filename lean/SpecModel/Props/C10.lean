/-
C10 — Single-element expanders agree with whole-specification expansion and never touch the root.

The theorems of C02–C04 / C08 are stated about `expand` for ANY start tree, stack and memo, not about a whole
document: a single schema, parameter or response is a start tree, the root it is expanded against is the world
(`ExpandSchema` registers it under a pseudo location, which only changes the spelling of keys).  So:
* `entry_preserves`, `entry_remaining_on_cycle`, `entry_terminates` are instances;
* `root_untouched`: the model's expander is a function of the world — it has no way of changing it; what the
  Go code could still do, mutate the caller's root through shared storage, is outside the model and is decided
  per run by comparing the JSON of the root (and the option structure) before and after every call;
* per run, the compiled checker validates each entry point's output against the unchanged world.
-/
import SpecModel.Props.ExpandCore
import SpecModel.Expand.Check

namespace SpecModel.Props.C10
open SpecModel.Expand SpecModel.Props

variable {K L : Type} [DecidableEq K]

theorem entry_preserves {W : World K L} {c : Bool} {n : Nat} {p m m' : List K} {t t' : Tree K L}
    (h : expand W c n p m t = .ok (t', m')) : Equiv W t W t' :=
  ExpandCore.expand_preserves_meaning [] (by simp) (by simp) h

theorem entry_remaining_on_cycle {W : World K L} {n : Nat} {m' : List K} {t t' : Tree K L}
    (h : expand W false n [] [] t = .ok (t', m')) : ∀ k, k ∈ refsOf t' → OnCycle W k ∧ W k ≠ none :=
  ExpandCore.remaining_on_cycle h

theorem entry_terminates {W : World K L} {ks : List K} (hW : FiniteWorld W ks) (c : Bool)
    (p m : List K) (t : Tree K L) {n : Nat} (hn : ExpandCore.fuelBound W ks t ≤ n) :
    expand W c n p m t ≠ .outOfFuel := ExpandCore.expand_terminates hW c p m t hn

/-- **per run**, against the unchanged world -/
theorem run_entry_validated [DecidableEq L] {W : World K L} {m : Nat} {t t' : Tree K L}
    (he : checkExp W [] m t t' = true) : Equiv W t W t' :=
  fun d => exp_sim (fun k => by
    cases h : W k with
    | none => exact .inl ⟨rfl, rfl⟩
    | some s => exact .inr ⟨s, s, rfl, rfl, Exp.refl W s⟩) d t t' (checkExp_sound he)

example : Equiv ExpandCore.Wx (.ref 2) ExpandCore.Wx (.node "c" [.node "d" []]) :=
  entry_preserves (rfl : expand ExpandCore.Wx false 10 [] [] (.ref 2) = .ok (_, []))

end SpecModel.Props.C10
