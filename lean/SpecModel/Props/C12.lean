/-
C12 — RFC 3986 resolution.

`normalizeURI ref base` is /repo/normalizer.go `normalizeURI` on parsed URLs (SpecModel/Url/Normalizer.lean);
`Rfc.resolve base ref` is RFC 3986 §5.2.2 written from the RFC text (SpecModel/Url/Rfc3986.lean).
Statements only here; the lemmas (the common stack machine of Go's `path.Clean` and RFC
`remove_dot_segments`) are in SpecModel/Url/Lemmas.lean.
-/
import SpecModel.Url.Lemmas

namespace SpecModel.Props.C12
open SpecModel.Url SpecModel.Url.Path

/-- The path of a base: absolute, and its directory part (everything up to the last `/`) is `/s1/…/sk/`
with non-empty elements `s_i` (no `//` before the last element; `.`/`..` elements are allowed). -/
def BasePathOk (b : String) : Prop := isAbs b = true ∧ Rfc.BaseOkL b.toList

/-- The path of an in-class reference, relative (`a/b`) or root-relative (`/a/b`): every element is non-empty
(no `//`, no trailing `/`, not empty, not `/` alone) and the last element is neither `.` nor `..`. -/
def RefPathOk (p : String) : Prop :=
  let r := if isAbs p then p.toList.tail else p.toList
  (∀ s ∈ splitOn r, s ≠ []) ∧ (splitOn r).getLast? ≠ some dot ∧ (splitOn r).getLast? ≠ some dotdot

/-- The reference class: no scheme, no authority, no query, an in-class path. -/
structure RefClass (r : URL) : Prop where
  scheme : r.scheme = ""
  host : r.host = ""
  query : r.query = ""
  path : RefPathOk r.path

/-- The location of a document, as `normalizeBase` produces it. -/
structure CanonBase (b : URL) : Prop where
  scheme : b.scheme ≠ ""
  abs : isAbs b.path = true
  clean : clean b.path = b.path
  query : b.query = ""
  fragment : b.fragment = ""

/-- C12, weakest form proved: the base needs an empty query and a path whose directory part has no empty
element; nothing is assumed about its scheme, host, fragment, nor about `.`/`..` in its path. -/
theorem normalizeURI_rfc_weak {base r : URL} (hq : base.query = "") (hb : BasePathOk base.path) (hr : RefClass r) :
    normalizeURI r base = Rfc.resolve base r := by
  obtain ⟨rs, rh, rp, rq, rf⟩ := r
  obtain ⟨hs, hh, hrq, hp⟩ := hr
  simp only at hs hh hrq hp
  subst hs hh hrq
  have hrel := relOkL_of hp.1 hp.2.1 hp.2.2
  have hbne : base.path.toList ≠ [] := toList_ne_nil (ne_empty_of_isAbs hb.1)
  unfold normalizeURI
  simp only [not_canonical_of_no_scheme, Bool.false_eq_true, if_false]
  unfold Rfc.resolve
  simp only [ne_eq, not_true_eq_false, if_false]
  by_cases ha : isAbs rp = true
  · -- root-relative reference
    rw [if_pos ha] at hrel
    have hne : rp ≠ "" := ne_empty_of_isAbs ha
    have hcp : cleanPath rp = clean rp := by
      unfold cleanPath
      simp [ne_dot_of_isAbs (by rw [isAbs_clean]; exact ha)]
    have hpath : clean rp = Rfc.removeDotSegments rp := by
      apply String.ext
      simp only [toList_clean, Rfc.removeDotSegments, String.toList_ofList]
      have e := cons_tail_of_abs (l := rp.toList) ha
      rw [e]
      exact Rfc.go_rfc_path_abs hrel
    rw [if_neg hne, if_pos (isAbsL_true_head ha)]
    have hab : isAbs (cleanPath rp) = true := by rw [isAbs_cleanPath]; exact ha
    simp only [hab, if_true]
    simp only [hcp, hpath, hq]
  · -- relative reference
    have ha' : isAbs rp = false := by simpa using ha
    rw [if_neg ha] at hrel
    have hne : rp ≠ "" := by
      intro e; subst e
      exact hrel.1 [] (by decide) rfl
    have hnd : clean rp ≠ "." := by
      rw [Ne, clean_eq_dot_iff]
      exact Rfc.cleanL_ne_dot_of_relOk hrel
    have hcp : cleanPath rp = clean rp := by unfold cleanPath; simp [hnd]
    have hpath : join (dir base.path) (clean rp) = Rfc.removeDotSegments (Rfc.merge base rp) := by
      apply String.ext
      simp only [toList_join, toList_dir, toList_clean, Rfc.removeDotSegments, Rfc.merge, String.toList_ofList]
      exact Rfc.go_rfc_path_rel hb.2 hrel _ hbne
    rw [if_neg hne, if_neg (isAbsL_false_head ha')]
    have hab : isAbs (cleanPath rp) = false := by rw [isAbs_cleanPath]; exact ha'
    have hcne : cleanPath rp ≠ "" := by rw [hcp]; exact clean_ne_empty rp
    simp only [hab, Bool.false_eq_true, if_false, hcne, not_false_eq_true, if_true]
    simp only [hcp, hpath, hq]

/-- the weak form covers a base that is not cleaned and carries a fragment -/
example : (⟨"file", "", "/r/./s/../root.json", "", "frag"⟩ : URL).query = "" ∧ BasePathOk "/r/./s/../root.json" ∧
    RefClass ⟨"", "", "x/../other.json", "", "/definitions/a"⟩ :=
  ⟨rfl, ⟨by decide, [['r'], ['.'], ['s'], ['.', '.']], by decide, by unfold Rfc.SegsOk; decide⟩,
    ⟨rfl, rfl, rfl, by unfold RefPathOk; decide⟩⟩

/-- C12: for a canonical document location and an in-class reference, Go's `normalizeURI` and RFC 3986
§5.2.2 agree — on everything but the fragment … -/
theorem normalizeURI_rfc {base r : URL} (hb : CanonBase base) (hr : RefClass r) :
    { normalizeURI r base with fragment := "" } = { Rfc.resolve base r with fragment := "" } := by
  rw [normalizeURI_rfc_weak hb.query ⟨hb.abs, Rfc.baseOkL_of_clean hb.abs (cleanL_toList_of_fixed hb.clean)⟩ hr]

example : CanonBase ⟨"file", "", "/r/s/root.json", "", ""⟩ ∧ RefClass ⟨"", "", "../x/./other.json", "", "/definitions/a"⟩ ∧
    normalizeURI ⟨"", "", "../x/./other.json", "", "/definitions/a"⟩ ⟨"file", "", "/r/s/root.json", "", ""⟩
      = ⟨"file", "", "/r/x/other.json", "", "/definitions/a"⟩ := by
  refine ⟨⟨by decide, by decide, by decide, rfl, rfl⟩, ⟨rfl, rfl, rfl, by unfold RefPathOk; decide⟩, by decide⟩

/-- … and on the fragment. -/
theorem normalizeURI_rfc_fragment {base r : URL} (hb : CanonBase base) (hr : RefClass r) :
    (normalizeURI r base).fragment = (Rfc.resolve base r).fragment := by
  rw [normalizeURI_rfc_weak hb.query ⟨hb.abs, Rfc.baseOkL_of_clean hb.abs (cleanL_toList_of_fixed hb.clean)⟩ hr]

example : CanonBase ⟨"http", "h.com", "/r/root.json", "", ""⟩ ∧ RefClass ⟨"", "", "/a/../b.json", "", ""⟩ := by
  refine ⟨⟨by decide, by decide, by decide, rfl, rfl⟩, ⟨rfl, rfl, rfl, by unfold RefPathOk; decide⟩⟩

/-- Hence on the whole URL. -/
theorem normalizeURI_rfc_full {base r : URL} (hb : CanonBase base) (hr : RefClass r) :
    normalizeURI r base = Rfc.resolve base r :=
  normalizeURI_rfc_weak hb.query ⟨hb.abs, Rfc.baseOkL_of_clean hb.abs (cleanL_toList_of_fixed hb.clean)⟩ hr

example : CanonBase ⟨"https", "h.com", "/root.json", "", ""⟩ ∧ RefClass ⟨"", "", "../../up.json", "", "f"⟩ ∧
    normalizeURI ⟨"", "", "../../up.json", "", "f"⟩ ⟨"https", "h.com", "/root.json", "", ""⟩ = ⟨"https", "h.com", "/up.json", "", "f"⟩ := by
  refine ⟨⟨by decide, by decide, by decide, rfl, rfl⟩, ⟨rfl, rfl, rfl, by unfold RefPathOk; decide⟩, by decide⟩

/-- A reference that is already absolute — a scheme other than `file` with a host that stays non-empty
after normalisation, or the `file` scheme with an absolute path — is returned as it is, apart from the
cleaning of its path (its query and fragment are kept, the base is ignored). -/
theorem absolute_unchanged (r base : URL)
    (h : (r.scheme ≠ "" ∧ lower r.scheme ≠ "file" ∧ (normalizeURL r).host ≠ "") ∨
         (lower r.scheme = "file" ∧ isAbs r.path = true)) :
    normalizeURI r base = { r with path := cleanPath r.path } := by
  unfold normalizeURI
  have hc : (Ref.new { r with path := cleanPath r.path }).isCanonical = true := by
    rcases h with ⟨h1, h2, h3⟩ | ⟨h1, h2⟩
    · have h1' : lower r.scheme ≠ "" := fun e => h1 ((lower_eq_empty_iff _).mp e)
      have h3' : String.ofList (removePortL (lower r.scheme) (lowerL r.host.toList)) ≠ "" := h3
      simp [Ref.new, Ref.classify, normalizeURL, Ref.isCanonical, h1', h2, h3']
    · simp [Ref.new, Ref.classify, normalizeURL, Ref.isCanonical, h1, isAbs_collapse, isAbs_cleanPath, h2]
  simp only [hc, if_true]

example : normalizeURI ⟨"HTTP", "H.com", "/a/./b/../c.json", "q=1", "/x"⟩ ⟨"file", "", "/r/root.json", "", ""⟩
    = ⟨"HTTP", "H.com", "/a/c.json", "q=1", "/x"⟩ := by decide

example : (⟨"HTTP", "H.com", "/a", "", ""⟩ : URL).scheme ≠ "" ∧ lower "HTTP" ≠ "file" ∧
    (normalizeURL ⟨"HTTP", "H.com", "/a", "", ""⟩).host ≠ "" := by
  refine ⟨by decide, by decide, by decide⟩

example : lower "File" = "file" ∧ isAbs "/a/../b.json" = true ∧
    normalizeURI ⟨"File", "", "/a/../b.json", "", "/x"⟩ ⟨"http", "h.com", "/r/root.json", "", ""⟩ = ⟨"File", "", "/b.json", "", "/x"⟩ := by
  refine ⟨by decide, by decide, by decide⟩

/-- A fragment-only reference (no scheme, no host, empty path) resolves to the base with that fragment. -/
theorem fragment_only_is_base (r base : URL) (hs : r.scheme = "") (hh : r.host = "") (hp : r.path = "") :
    normalizeURI r base = { base with fragment := r.fragment } := by
  obtain ⟨rs, rh, rp, rq, rf⟩ := r
  simp only at hs hh hp
  subst hs hh hp
  unfold normalizeURI
  simp [not_canonical_of_no_scheme, cleanPath_empty, isAbs_empty]

example : normalizeURI ⟨"", "", "", "", "/definitions/x"⟩ ⟨"http", "h.com", "/r/root.json", "", ""⟩
    = ⟨"http", "h.com", "/r/root.json", "", "/definitions/x"⟩ := by decide

end SpecModel.Props.C12
