/-
Driver ops of the resolution model (C05):

  {"op":"resolve","docs":[{"url":URL,"body":<wire JSON>},…],"base":URL,"ref":URL,"kind":K}
      → the JSON text json.Marshal prints for the value Resolve…WithBase returns | "error…" | "out-of-model…"
  {"op":"ptr","doc":<wire JSON>,"pointer":"/a/b"} → the value the pointer designates (rendered) | "error"
  {"op":"unescape","tok":"a~1b"} → "a/b"

URLs travel as {"scheme","host","path","query","fragment"} (decoded components, as net/url holds them).
-/
import SpecModel.Wire
import SpecModel.Pointer
import SpecModel.UrlOps

namespace SpecModel.ResolveOps
open SpecModel

def readDocs (j : Lean.Json) : Except String (List Pointer.Doc) := do
  (← Wire.arrField j "docs").mapM fun d => do
    pure { url := ← UrlOps.urlField d "url", body := ← Wire.jsonField d "body" }

def resolveOp (j : Lean.Json) : Except String String := do
  let docs ← readDocs j
  let base ← UrlOps.urlField j "base"
  let ref ← UrlOps.urlField j "ref"
  let kind ← Wire.strField j "kind"
  match Pointer.resolve docs base ref kind with
  | .ok r => pure r.render
  | .error e => pure (if e.startsWith "out-of-model" then e else "error")

def ptrOp (j : Lean.Json) : Except String String := do
  let doc ← Wire.jsonField j "doc"
  let p ← Wire.strField j "pointer"
  match Pointer.tokens p with
  | none => pure "error"
  | some toks =>
    match Pointer.eval doc toks with
    | some v => pure v.render
    | none => pure "error"

def op (name : String) (j : Lean.Json) : Except String String :=
  match name with
  | "resolve" => resolveOp j
  | "ptr" => ptrOp j
  | "unescape" => do pure (Json.renderString (String.ofList (Pointer.unescape (← Wire.strField j "tok").toList)))
  | _ => .error s!"bad-op:unknown {name}"

end SpecModel.ResolveOps
