/-
Driver ops for the URL / normaliser model group (C11, C12, C13, part of C03).

Input: one JSON object per line. URL values are objects with the string members
`scheme`, `host`, `path`, `query`, `fragment`. Answers are compact JSON rendered by `SpecModel.Json.render`.
-/
import SpecModel.Wire
import SpecModel.Url.Normalizer
import SpecModel.Url.Rfc3986
import SpecModel.Codec.Url

namespace SpecModel.UrlOps
open SpecModel SpecModel.Url

def urlOf (j : Lean.Json) : Except String URL := do
  pure { scheme := ← Wire.strField j "scheme", host := ← Wire.strField j "host", path := ← Wire.strField j "path",
         query := ← Wire.strField j "query", fragment := ← Wire.strField j "fragment" }

def urlField (j : Lean.Json) (k : String) : Except String URL := do
  let u ← urlOf (← Wire.field j k)
  -- `strings.ToLower` is modelled on ASCII only
  if u.scheme.toList.all (·.toNat < 128) && u.host.toList.all (·.toNat < 128) then pure u
  else throw "out-of-model:non-ascii scheme or host"

def showURL (u : URL) : Json :=
  .obj [("scheme", .str u.scheme), ("host", .str u.host), ("path", .str u.path), ("query", .str u.query),
        ("fragment", .str u.fragment)]

def showRef (r : Ref) : Json :=
  .obj [("url", showURL r.url), ("flags", .arr (r.flags.map .bool)), ("isRoot", .bool r.isRoot),
        ("isCanonical", .bool r.isCanonical)]

def op (name : String) (j : Lean.Json) : Except String String := do
  match name with
  | "clean" => pure (Json.renderString (Path.clean (← Wire.strField j "p")))
  | "dir" => pure (Json.renderString (Path.dir (← Wire.strField j "p")))
  | "join" => pure (Json.renderString (Path.join (← Wire.strField j "a") (← Wire.strField j "b")))
  | "isabs" => pure (Json.bool (Path.isAbs (← Wire.strField j "p"))).render
  | "nbase" => pure (showURL (normalizeBase (← Wire.strField j "cwd") (← urlField j "u"))).render
  | "nuri" => pure (showURL (normalizeURI (← urlField j "ref") (← urlField j "base"))).render
  | "denorm" =>
      let ref ← urlField j "ref"
      let base ← urlField j "base"
      let id ← match j.getObjVal? "id" with
        | .ok (.null) | .error _ => pure none
        | .ok v => do
            let u ← urlOf v
            if u.scheme.toList.all (·.toNat < 128) && u.host.toList.all (·.toNat < 128) then pure (some u)
            else throw "out-of-model:non-ascii scheme or host"
      pure (showURL (denormalizeRefId (Ref.new ref) base id).url).render
  | "rfc" => pure (showURL (Rfc.resolve (← urlField j "base") (← urlField j "ref"))).render
  | "refnew" => pure (showRef (Ref.new (← urlField j "u"))).render
  | "refprint" =>
      -- the text a reference prints after parsing (`NewRef(s).String()`), on the tame grammar of Codec/Url.lean
      match Codec.urlString (← Wire.strField j "s") with
      | .ok t => pure (Json.renderString t)
      | .err => pure "err"
      | .oom => throw "out-of-model:outside the tame URL grammar"
  | _ => throw s!"bad-op:unknown {name}"

end SpecModel.UrlOps
