/-
Hand-written prelude for the generated translation of the validation accessors (C20):
the value universe of the cleared-validation trace and the model of `clearedValidations.apply`.
-/
namespace SpecModel.ValidationsPrelude

/-- A field the accessors never look inside (any Go type): an atom with decidable equality. -/
structure Opaque where
  id : Nat
  deriving DecidableEq, Repr

def Opaque.zero : Opaque := ⟨0⟩

/-- The `interface{}` value reported to a callback: the previous content of the cleared field. -/
inductive Val where
  | optInt (v : Option Int)
  | bool (b : Bool)
  | str (s : String)
  | list (l : Option (List String))
  | props (p : Option (List (String × String)))
  | opaque (o : Opaque)
  deriving DecidableEq, Repr

/-- Go's `len` of a possibly-nil slice. -/
def goLen {α : Type} (l : Option (List α)) : Nat := (l.getD []).length

/-- `clearedValidations.apply`: for each callback (in order), for each cleared entry (in order), one call.
The extractor checks that the Go method has exactly this nested-loop shape. Callbacks are numbered. -/
def clearedValidations.apply (done : List (String × Val)) (ncb : Nat) : List (Nat × String × Val) :=
  (List.range ncb).flatMap fun i => done.map fun c => (i, c.1, c.2)

end SpecModel.ValidationsPrelude
