/-
Wire form between the Go harness and the Lean driver.

`Lean.Json` objects are tree maps (member order and duplicates are lost), so JSON payloads travel as
  null | true | false | <integer> | "string" | {"a":[…]} | {"o":[["k",v],…]}
A non-integral number travels as {"f":"<text>"} and is outside the model.
-/
import Lean.Data.Json
import SpecModel.Json

namespace SpecModel.Wire
open SpecModel

partial def ofLean : Lean.Json → Except String Json
  | .null => pure .null
  | .bool b => pure (.bool b)
  | .num n =>
      if n.exponent == 0 then pure (.num n.mantissa)
      else throw "out-of-model:number"
  | .str s => pure (.str s)
  | .arr _ => throw "bad-wire:array"
  | .obj kvs =>
      match kvs.toList with
      | [("a", .arr xs)] => do
          let ys ← xs.toList.mapM ofLean
          pure (.arr ys)
      | [("o", .arr ms)] => do
          let ys ← ms.toList.mapM fun m =>
            match m with
            | .arr #[.str k, v] => do let w ← ofLean v; pure (k, w)
            | _ => throw "bad-wire:member"
          pure (.obj ys)
      | [("f", _)] => throw "out-of-model:number"
      | _ => throw "bad-wire:object"

def field (j : Lean.Json) (k : String) : Except String Lean.Json :=
  match j.getObjVal? k with
  | .ok v => pure v
  | .error _ => throw s!"bad-op:missing {k}"

def strField (j : Lean.Json) (k : String) : Except String String := do
  match (← field j k) with
  | .str s => pure s
  | _ => throw s!"bad-op:{k} not a string"

def boolField (j : Lean.Json) (k : String) : Except String Bool := do
  match (← field j k) with
  | .bool s => pure s
  | _ => throw s!"bad-op:{k} not a bool"

def natField (j : Lean.Json) (k : String) : Except String Nat := do
  match (← field j k) with
  | .num n => if n.exponent == 0 && n.mantissa ≥ 0 then pure n.mantissa.toNat else throw s!"bad-op:{k} not a nat"
  | _ => throw s!"bad-op:{k} not a number"

def arrField (j : Lean.Json) (k : String) : Except String (List Lean.Json) := do
  match (← field j k) with
  | .arr xs => pure xs.toList
  | _ => throw s!"bad-op:{k} not an array"

def jsonField (j : Lean.Json) (k : String) : Except String Json := do
  ofLean (← field j k)

def strList (j : Lean.Json) (k : String) : Except String (List String) := do
  (← arrField j k).mapM fun x => match x with
    | .str s => pure s
    | _ => throw s!"bad-op:{k} element not a string"

end SpecModel.Wire
