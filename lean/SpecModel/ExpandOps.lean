/-
Driver ops of the expansion model group (C02–C04, C08–C10): the harness abstracts real documents into the
reference graphs of `Expand/Core.lean` and the driver runs the executable definitions the theorems are about.

Trees travel as `{"r":key}` | `{"l":label,"c":[tree…]}`; a world as `[[key, tree|null],…]` (first entry wins).

  {"op":"xexpand","world":W,"trees":[t…],"continue":bool}
      → {"trees":[t'…],"memo":[key…]} | {"err":key} | "outOfFuel"     (`expandList`, empty stack and memo,
                                                                       fuel = `fuelBound` of the whole input)
  {"op":"xcheck","world":W,"world2":W',"pairs":[[t,t']…],"keep":[key…],"continue":bool}
      → {"exp":[bool…],"world":bool,"cuts":[bool…]}
        exp[i]  = `checkExp W keep fuel t t'`          (C02 / C09 / C10: partial unfolding, keys of `keep` not followed)
        world   = `checkWorld W W' fuel keys`          (keys = those listed in W or W')
        cuts[i] = `checkCuts W fuel t'` (strict) | `checkCutsOrDangling` (continue)   (C03 / C08)
  {"op":"xoncycle","world":W,"keys":[key…]} → [bool…]  (`onCycleB`)
-/
import SpecModel.Wire
import SpecModel.Expand.Check
import SpecModel.Props.ExpandCore

namespace SpecModel.ExpandOps
open SpecModel SpecModel.Expand

abbrev T := Tree String String

partial def readTree : Lean.Json → Except String T
  | j =>
    match j.getObjVal? "r" with
    | .ok (.str k) => pure (.ref k)
    | _ =>
      match j.getObjVal? "l", j.getObjVal? "c" with
      | .ok (.str l), .ok (.arr cs) => do
          let ks ← cs.toList.mapM readTree
          pure (.node l ks)
      | _, _ => throw "bad-op:tree"

partial def showTree : T → Lean.Json
  | .ref k => Lean.Json.mkObj [("r", .str k)]
  | .node l cs => Lean.Json.mkObj [("l", .str l), ("c", .arr (cs.map showTree).toArray)]

def readWorld (j : Lean.Json) (field : String) : Except String (List (String × Option T)) := do
  (← Wire.arrField j field).mapM fun e =>
    match e with
    | .arr #[.str k, .null] => pure (k, none)
    | .arr #[.str k, t] => do pure (k, some (← readTree t))
    | _ => throw "bad-op:world entry"

def worldOf (tbl : List (String × Option T)) : World String String := fun k =>
  match tbl.find? (·.1 == k) with
  | some (_, t) => t
  | none => none

/-- optional `"project":[key…]`: answer with these members only -/
def project (j : Lean.Json) (ms : List (String × Lean.Json)) : Lean.Json :=
  match Wire.strList j "project" with
  | .ok ks => Lean.Json.mkObj (ms.filter fun m => ks.contains m.1)
  | .error _ => Lean.Json.mkObj ms

def xexpand (j : Lean.Json) : Except String String := do
  let tbl ← readWorld j "world"
  let W := worldOf tbl
  let ks := tbl.map (·.1)
  let trees ← (← Wire.arrField j "trees").mapM readTree
  let c ← Wire.boolField j "continue"
  let fuel := SpecModel.Props.ExpandCore.fuelBound W ks (.node "" trees) + 2
  if (Wire.strField j "project").toOption == some "status" then
    return (match expandList W c fuel [] [] trees with
      | .ok _ => "ok"
      | .err _ => "err"
      | .outOfFuel => "outOfFuel")
  match expandList W c fuel [] [] trees with
  | .ok (ts, memo) => pure (Lean.Json.mkObj [("trees", .arr (ts.map showTree).toArray),
      ("memo", .arr (memo.map Lean.Json.str).toArray)]).compress
  | .err k => pure (Lean.Json.mkObj [("err", .str k)]).compress
  | .outOfFuel => pure "outOfFuel"

def xcheck (j : Lean.Json) : Except String String := do
  let tbl ← readWorld j "world"
  let tbl2 ← readWorld j "world2"
  let W := worldOf tbl
  let W' := worldOf tbl2
  let ks := (tbl.map (·.1) ++ tbl2.map (·.1)).eraseDups
  let keep ← Wire.strList j "keep"
  let c ← Wire.boolField j "continue"
  let pairs ← (← Wire.arrField j "pairs").mapM fun p =>
    match p with
    | .arr #[a, b] => do pure (← readTree a, ← readTree b)
    | _ => throw "bad-op:pair"
  let maxOut := (pairs.map fun p => size p.2).foldr max 0
  let maxW2 := (tbl2.map fun e => match e.2 with | some t => size t | none => 0).foldr max 0
  let fuel := (max maxOut maxW2 + 2) * (ks.length + 2)
  let exps := pairs.map fun p => checkExp W keep fuel p.1 p.2
  let cuts := pairs.map fun p => if c then checkCutsOrDangling W fuel p.2 else checkCuts W fuel p.2
  pure (project j [("exp", .arr (exps.map Lean.Json.bool).toArray),
    ("world", .bool (checkWorld W W' fuel ks)),
    ("cuts", .arr (cuts.map Lean.Json.bool).toArray)]).compress

def xoncycle (j : Lean.Json) : Except String String := do
  let tbl ← readWorld j "world"
  let W := worldOf tbl
  let keys ← Wire.strList j "keys"
  let fuel := (tbl.length + 2) * (tbl.length + 2) + 1000
  pure (Lean.Json.arr ((keys.map fun k => Lean.Json.bool (onCycleB W fuel k)).toArray)).compress

def op (name : String) (j : Lean.Json) : Except String String :=
  match name with
  | "xexpand" => xexpand j
  | "xcheck" => xcheck j
  | "xoncycle" => xoncycle j
  | _ => .error s!"bad-op:unknown {name}"

end SpecModel.ExpandOps
