/-
Line-protocol loop shared by the drivers: one JSON operation per input line, one result line per operation.
A driver evaluates the executable definitions of the model (the same definitions the theorems are about).
It never defaults: an unparsable op is `bad-op`, an input outside the model's domain is `out-of-model`.
-/
import SpecModel.Wire

namespace SpecModel

def runOp (handler : String → Lean.Json → Except String String) (line : String) : String :=
  match Lean.Json.parse line with
  | .error e => s!"bad-op:parse {e}"
  | .ok j =>
    match Wire.strField j "op" with
    | .error e => e
    | .ok "echo" =>
        (match Wire.jsonField j "v" with
         | .ok v => v.render
         | .error e => e)
    | .ok op =>
      match handler op j with
      | .ok s => s
      | .error e => e

partial def driverLoop (handler : String → Lean.Json → Except String String) (h out : IO.FS.Stream) : IO Unit := do
  let line ← h.getLine
  if line.isEmpty then return ()
  out.putStrLn (runOp handler line)
  driverLoop handler h out

def driverMain (handler : String → Lean.Json → Except String String) : IO Unit := do
  let out ← IO.getStdout
  driverLoop handler (← IO.getStdin) out
  out.flush

end SpecModel
