/-
Driver ops of the codec model group: `norm` (decode a document as a kind, encode it again).
-/
import SpecModel.Wire
import SpecModel.Codec.Norm
import SpecModel.Codec.Gob
import SpecModel.Codec.Idem
import SpecModel.Codec.GobSafe
import SpecModel.Codec.Perm
import SpecModel.Codec.Lookup

namespace SpecModel.CodecOps
open SpecModel SpecModel.Codec

/-- `{"op":"norm","kind":K,"doc":<wire JSON>}` ↦ Go's output bytes | `error…` | `out-of-model…` -/
def normOp (j : Lean.Json) : Except String String := do
  let kind ← Wire.strField j "kind"
  let doc ← Wire.jsonField j "doc"
  match norm kind doc with
  | .ok r => pure r.render
  | .error e => pure e

/-- `{"op":"gob","kind":K,"doc":<wire JSON: the encoding BEFORE transport>}` ↦ the encoding after transport -/
def gobOp (j : Lean.Json) : Except String String := do
  let kind ← Wire.strField j "kind"
  let doc ← Wire.jsonField j "doc"
  pure (gobJ kind doc).render

/-- `{"op":"clean","doc":<wire JSON: an encoding>}` ↦ `clean` | `unclean`: the executable test (`cleanB`, proved
to imply `Clean`) for the hypothesis of the whole-document idempotence theorem -/
def cleanOp (j : Lean.Json) : Except String String := do
  let doc ← Wire.jsonField j "doc"
  pure (if cleanB doc then "clean" else "unclean")

/-- `{"op":"gobsafe","doc":<wire JSON: the encoding BEFORE transport>}` ↦ `safe` | `unsafe`: the executable test
(`gobSafeB`, proved to imply `GobSafe`) for the hypothesis of the whole-document gob theorem -/
def gobSafeOp (j : Lean.Json) : Except String String := do
  let doc ← Wire.jsonField j "doc"
  pure (if gobSafeB doc then "safe" else "unsafe")

/-- `{"op":"tidy","doc":<wire JSON>}` ↦ `tidy` | `untidy`: the executable test (`tidyB`, proved to imply `Tidy`) for
the hypothesis of the order-independence theorem. A reordering of a tidy document is tidy. -/
def tidyOp (j : Lean.Json) : Except String String := do
  let doc ← Wire.jsonField j "doc"
  pure (if tidyB doc then "tidy" else "untidy")

/-- `{"op":"lookup","kind":K,"doc":<wire JSON: the encoding of the typed value>,"tok":T}` ↦ the encoding of what
`K.JSONLookup(T)` returns | `error` -/
def lookupOp (j : Lean.Json) : Except String String := do
  let kind ← Wire.strField j "kind"
  let tok ← Wire.strField j "tok"
  let doc ← Wire.jsonField j "doc"
  match doc with
  | .obj ms => pure (match lookupTok kind ms tok with
      | some v => v.render
      | none => "error")
  | _ => pure "error"

def op (name : String) (j : Lean.Json) : Except String String :=
  match name with
  | "norm" => normOp j
  | "gob" => gobOp j
  | "clean" => cleanOp j
  | "gobsafe" => gobSafeOp j
  | "tidy" => tidyOp j
  | "lookup" => lookupOp j
  | _ => .error s!"bad-op:unknown {name}"

end SpecModel.CodecOps
