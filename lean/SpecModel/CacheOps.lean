/-
Driver ops for C16 / C17 / C18: run the executable definitions of `SpecModel.Cache` (the ones the theorems
are about) on traces and scenarios recorded from the instrumented Go code.

  {"op":"tracecheck","initial":[url…],"events":[["get",u,bool],["fetch",u,bool],["set",u],…]}
      → {"ok":true,"fetched":[…],"okFetched":[…]}          (validTrace; single-thread trace)
      → "invalid:<index>:<reason>"                          (first offending event, 0-based;
                                                             index = number of events for "trace ends inside load")
  {"op":"tracecheck_mt","initial":[url…],"events":[[tid,"get",u,bool],[tid,"fetch",u,bool],[tid,"set",u],…]}
      → "ok" | "invalid:<index>:<reason>"                   (validTraceMT; global order of atomic actions)
  {"op":"avoids","keys":[url…],"events":[…as tracecheck…]} → true | false      (avoids)
  {"op":"simulate","initial":[[u,doc],…],"loader":[[u,doc|null],…],"prog":[["load",u]|["set",u,doc]|["peek",u],…]}
      → {"results":[…],"log":[…],"cache":[…keys, sorted, no duplicates…],"trace":[…events…]}
        results: load → doc | "error";  set → null;  peek → doc | null
        documents are JSON strings; a loader entry null (or an absent URL) is a loader error;
        in "initial" and "loader" the first entry for a URL wins.
  {"op":"simulate_sched","initial":…,"loader":…,"progs":[prog,…],"sched":[tid,…]}
      → {"results":[[…]|null,…],"cache":[…],"trace":[[tid,…event…],…]}        (null = thread not finished)
-/
import SpecModel.Wire
import SpecModel.Cache.Model

namespace SpecModel.CacheOps
open SpecModel SpecModel.Cache
open Lean (Json)

def readEvent (xs : List Lean.Json) : Except String Event :=
  match xs with
  | [.str "get", .str u, .bool b] => pure (.get u b)
  | [.str "fetch", .str u, .bool b] => pure (.fetch u b)
  | [.str "set", .str u] => pure (.set u)
  | _ => throw "bad-op:event"

def readEvents (j : Lean.Json) : Except String (List Event) := do
  (← Wire.arrField j "events").mapM fun x => match x with
    | .arr xs => readEvent xs.toList
    | _ => throw "bad-op:event"

def readEventsMT (j : Lean.Json) : Except String (List (Nat × Event)) := do
  (← Wire.arrField j "events").mapM fun x => match x with
    | .arr xs =>
      match xs.toList with
      | .num n :: rest =>
        if n.exponent == 0 && n.mantissa ≥ 0 then do pure (n.mantissa.toNat, ← readEvent rest)
        else throw "bad-op:event thread"
      | _ => throw "bad-op:event"
    | _ => throw "bad-op:event"

def showEvent : Event → List Lean.Json
  | .get u b => [.str "get", .str u, .bool b]
  | .fetch u b => [.str "fetch", .str u, .bool b]
  | .set u => [.str "set", .str u]

def strArr (l : List String) : Lean.Json := .arr (l.map Lean.Json.str).toArray

def tracecheck (j : Lean.Json) : Except String String := do
  let keys ← Wire.strList j "initial"
  let evs ← readEvents j
  if validTrace keys evs then
    pure (Lean.Json.mkObj [("ok", .bool true), ("fetched", strArr (fetches evs)),
      ("okFetched", strArr (okFetches evs))]).compress
  else
    -- diagnosis only: where and why `validTrace` said no
    match checkTrace keys .idle 0 evs with
    | .error (i, r) => pure s!"invalid:{i}:{r}"
    | .ok _ => pure s!"invalid:{evs.length}:trace ends inside load"

def tracecheckMT (j : Lean.Json) : Except String String := do
  let keys ← Wire.strList j "initial"
  let evs ← readEventsMT j
  if validTraceMT keys evs then pure "ok"
  else
    match checkTraceMT keys [] 0 evs with
    | .error (i, r) => pure s!"invalid:{i}:{r}"
    | .ok _ => pure s!"invalid:{evs.length}:trace ends inside load"

def avoidsOp (j : Lean.Json) : Except String String := do
  let keys ← Wire.strList j "keys"
  let evs ← readEvents j
  pure (if avoids keys evs then "true" else "false")

/-! straight-line programs -/

inductive Instr where
  | load (u : Url)
  | set (u : Url) (d : String)
  | peek (u : Url)

def readInstr : Lean.Json → Except String Instr
  | .arr xs =>
    match xs.toList with
    | [.str "load", .str u] => pure (.load u)
    | [.str "set", .str u, .str d] => pure (.set u d)
    | [.str "peek", .str u] => pure (.peek u)
    | _ => throw "bad-op:instr"
  | _ => throw "bad-op:instr"

def readProg (xs : List Lean.Json) : Except String (List Instr) := xs.mapM readInstr

/-- The straight-line program collecting one answer per instruction. -/
def compile : List Instr → List Lean.Json → Prog String String (List Lean.Json)
  | [], acc => .ret acc.reverse
  | .load u :: rest, acc => .load u fun r =>
      compile rest ((match r with | .ok d => Lean.Json.str d | .error _ => Lean.Json.str "error") :: acc)
  | .set u d :: rest, acc => .setPseudo u d fun _ => compile rest (Lean.Json.null :: acc)
  | .peek u :: rest, acc => .peek u fun r =>
      compile rest ((match r with | some d => Lean.Json.str d | none => Lean.Json.null) :: acc)

def readPairs (j : Lean.Json) (k : String) : Except String (List (String × Option String)) := do
  (← Wire.arrField j k).mapM fun x => match x with
    | .arr #[.str u, .str d] => pure (u, some d)
    | .arr #[.str u, .null] => pure (u, none)
    | _ => throw s!"bad-op:{k} entry"

def readInitial (j : Lean.Json) : Except String (Cache String) := do
  (← readPairs j "initial").mapM fun (u, d) => match d with
    | some d => pure (u, d)
    | none => throw "bad-op:initial entry"

def lookupPair : List (String × Option String) → String → Option (Option String)
  | [], _ => none
  | (k, v) :: rest, u => if k = u then some v else lookupPair rest u

def mkLoader (tbl : List (String × Option String)) : Url → Except String String := fun u =>
  match lookupPair tbl u with
  | some (some d) => .ok d
  | _ => .error "not found"

/-- Keys of a cache, sorted (byte order = code-point order of UTF-8), without duplicates. -/
def sortedKeys (C : Cache String) : List String :=
  (C.keys.mergeSort fun a b => !(b < a)).eraseDups

/-- optional `"project":[key…]`: answer with these members only -/
def project (j : Lean.Json) (ms : List (String × Lean.Json)) : Lean.Json :=
  match Wire.strList j "project" with
  | .ok ks => Lean.Json.mkObj (ms.filter fun m => ks.contains m.1)
  | .error _ => Lean.Json.mkObj ms

def simulate (j : Lean.Json) : Except String String := do
  let C ← readInitial j
  let L := mkLoader (← readPairs j "loader")
  let prog ← readProg (← Wire.arrField j "prog")
  let r := runSeq (compile prog []) C L
  pure (project j [
    ("results", .arr r.result.toArray),
    ("log", strArr r.log),
    ("cache", strArr (sortedKeys r.cache)),
    ("trace", .arr (r.trace.map fun e => Lean.Json.arr (showEvent e).toArray).toArray)]).compress

def simulateSched (j : Lean.Json) : Except String String := do
  let C ← readInitial j
  let L := mkLoader (← readPairs j "loader")
  let progs ← (← Wire.arrField j "progs").mapM fun x => match x with
    | .arr xs => readProg xs.toList
    | _ => throw "bad-op:progs entry"
  let sched ← (← Wire.arrField j "sched").mapM fun x => match x with
    | .num n => if n.exponent == 0 && n.mantissa ≥ 0 then pure n.mantissa.toNat else throw "bad-op:sched"
    | _ => throw "bad-op:sched"
  let c := runSched (Config.init (progs.map fun p => compile p []) C) L sched
  pure (project j [
    ("results", .arr (c.results.map fun r => match r with
        | some xs => Lean.Json.arr xs.toArray
        | none => Lean.Json.null).toArray),
    ("cache", strArr (sortedKeys c.cache)),
    ("trace", .arr (c.trace.map fun (i, e) =>
        Lean.Json.arr ((Lean.Json.num (Lean.JsonNumber.fromNat i)) :: showEvent e).toArray).toArray)]).compress

def op (name : String) (j : Lean.Json) : Except String String :=
  match name with
  | "tracecheck" => tracecheck j
  | "tracecheck_mt" => tracecheckMT j
  | "avoids" => avoidsOp j
  | "simulate" => simulate j
  | "simulate_sched" => simulateSched j
  | _ => .error s!"bad-op:unknown {name}"

end SpecModel.CacheOps
