/-
M3 (part) — structured URLs, `jsonreference/internal.NormalizeURL`, and the classification done by
`jsonreference.Ref.parse` (flags, `IsRoot`, `IsCanonical`).

A `URL` holds the *decoded* components of Go's `url.URL` (Scheme, Host, Path, RawQuery, Fragment).
Userinfo, opaque URLs, `RawPath`/`RawFragment`, `ForceQuery` are outside the model.
`strings.ToLower` is modelled on ASCII (`Char.toLower`); a scheme or host with a non-ASCII character is
outside the model (the driver answers `out-of-model`).

`rxPort = (:\d+)/?$` applied with `ReplaceAllStringFunc` to the host: a match must start at a `:` and run to
the end of the text through digits and at most one `/`, so it starts at the *last* `:`; the callback deletes it
only when it is literally `:80` (scheme http) or `:443` (scheme https). Hence: delete the suffix `:80` / `:443`
once. `rxDupSlashes = /{2,}` replaced by `/`: collapse every run of slashes.
Core only (no Mathlib): this module is linked into the driver.
-/
import SpecModel.Url.Path

namespace SpecModel.Url

structure URL where
  scheme : String
  host : String
  path : String
  query : String
  fragment : String
  deriving DecidableEq, Repr, Inhabited

def URL.empty : URL := ⟨"", "", "", "", ""⟩

/-- What `URL.String()` returning `""` means on the modelled components. -/
def URL.isEmpty (u : URL) : Bool :=
  u.scheme == "" && u.host == "" && u.path == "" && u.query == "" && u.fragment == ""

/-! ### NormalizeURL -/

def lowerL (cs : List Char) : List Char := cs.map Char.toLower

def lower (s : String) : String := String.ofList (lowerL s.toList)

def httpPort : List Char := [':', '8', '0']
def httpsPort : List Char := [':', '4', '4', '3']

/-- `removeDefaultPort` on the characters of the host; `scheme` is the lower-cased scheme. -/
def removePortL (scheme : String) (host : List Char) : List Char :=
  if scheme = "http" ∧ httpPort.isSuffixOf host then host.take (host.length - 3)
  else if scheme = "https" ∧ httpsPort.isSuffixOf host then host.take (host.length - 4)
  else host

/-- `rxDupSlashes.ReplaceAllString(path, "/")`. -/
def collapseL : List Char → List Char
  | [] => []
  | c :: t => if c = '/' ∧ t.head? = some '/' then collapseL t else c :: collapseL t

def collapse (s : String) : String := String.ofList (collapseL s.toList)

def normalizeURL (u : URL) : URL :=
  let scheme := lower u.scheme
  { u with
    scheme := scheme
    host := String.ofList (removePortL scheme (lowerL u.host.toList))
    path := collapse u.path }

/-! ### Ref -/

structure Ref where
  url : URL
  hasFullURL : Bool
  hasURLPathOnly : Bool
  hasFragmentOnly : Bool
  hasFileScheme : Bool
  hasFullFilePath : Bool
  deriving DecidableEq, Repr, Inhabited

/-- The flag assignments of `Ref.parse`, on the already normalised URL. -/
def Ref.classify (n : URL) : Ref :=
  let full := n.scheme ≠ "" ∧ n.host ≠ ""
  { url := n
    hasFullURL := full
    hasURLPathOnly := !decide full && n.path != ""
    hasFragmentOnly := !decide full && n.path == "" && n.query == "" && n.fragment != ""
    hasFileScheme := n.scheme == "file"
    hasFullFilePath := Path.isAbs n.path }

/-- `jsonreference.New` on an already parsed URL. -/
def Ref.new (u : URL) : Ref := Ref.classify (normalizeURL u)

def Ref.isCanonical (r : Ref) : Bool :=
  (r.hasFileScheme && r.hasFullFilePath) || (!r.hasFileScheme && r.hasFullURL)

def Ref.isRoot (r : Ref) : Bool :=
  !r.isCanonical && !r.hasURLPathOnly && r.url.fragment == ""

def Ref.flags (r : Ref) : List Bool :=
  [r.hasFullURL, r.hasURLPathOnly, r.hasFragmentOnly, r.hasFileScheme, r.hasFullFilePath]

end SpecModel.Url
