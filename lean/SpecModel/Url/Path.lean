/-
M3 (part) — Go's `path` package (`Clean`, `Dir`, `Join`, `IsAbs`, `Split`) as executable definitions.

Go works on bytes, the model on Unicode scalar values. `/` and `.` are ASCII and UTF-8 is self-synchronising,
so on valid UTF-8 both views split at the same places; invalid UTF-8 is outside the model (a Lean `String`
cannot hold it).

`Clean` is written as what the Go loop computes, on the `/`-separated elements of the input:
empty and `.` elements are skipped, `..` pops the last real element if there is one, is dropped at the root
of a rooted path, and is kept otherwise; a real element is pushed. The stack is kept in reverse order.
The lazy buffer of the Go code (`out.w`, `dotdot`) is exactly this stack: `out.w > dotdot` holds iff the
top of the stack is a real element (everything at or below `dotdot` is the leading `/` or `../..`).
Core only (no Mathlib): this module is linked into the driver.
-/
namespace SpecModel.Url.Path

abbrev Seg := List Char

/-- Head element and remaining elements of the `/`-split of a character list. -/
def splitAux : List Char → Seg × List Seg
  | [] => ([], [])
  | c :: cs =>
    let r := splitAux cs
    if c = '/' then ([], r.1 :: r.2) else (c :: r.1, r.2)

/-- `strings.Split(s, "/")`: always at least one element. -/
def splitOn (cs : List Char) : List Seg := (splitAux cs).1 :: (splitAux cs).2

/-- `strings.Join(segs, "/")`. -/
def joinSegs : List Seg → List Char
  | [] => []
  | [s] => s
  | s :: rest => s ++ '/' :: joinSegs rest

def dot : Seg := ['.']
def dotdot : Seg := ['.', '.']

/-- One iteration of the loop of `path.Clean` on one path element; `st` is the output so far, last element first. -/
def step (rooted : Bool) (st : List Seg) (s : Seg) : List Seg :=
  if s = [] ∨ s = dot then st
  else if s = dotdot then
    match st with
    | [] => if rooted then [] else [dotdot]
    | t :: rest => if t = dotdot then dotdot :: t :: rest else rest
  else s :: st

def isAbsL : List Char → Bool
  | '/' :: _ => true
  | _ => false

/-- The text of the output buffer. -/
def render (rooted : Bool) (st : List Seg) : List Char :=
  if rooted then '/' :: joinSegs st.reverse
  else if st = [] then ['.'] else joinSegs st.reverse

def cleanL (cs : List Char) : List Char :=
  render (isAbsL cs) ((splitOn cs).foldl (step (isAbsL cs)) [])

/-- `path[:i+1]` with `i` the index of the last slash: the first component of `path.Split`. -/
def dirPart (cs : List Char) : List Char := (cs.reverse.dropWhile (· ≠ '/')).reverse

/-- `path[i+1:]`: the second component of `path.Split`. -/
def basePart (cs : List Char) : List Char := (cs.reverse.takeWhile (· ≠ '/')).reverse

def dirL (cs : List Char) : List Char := cleanL (dirPart cs)

/-- `path.Join(a, b)` (two elements). -/
def joinL (a b : List Char) : List Char :=
  if a = [] ∧ b = [] then []
  else if a = [] then cleanL b
  else cleanL (a ++ '/' :: b)

/-! ### The `String` interface -/

def clean (p : String) : String := String.ofList (cleanL p.toList)
def dir (p : String) : String := String.ofList (dirL p.toList)
def join (a b : String) : String := String.ofList (joinL a.toList b.toList)
def isAbs (p : String) : Bool := isAbsL p.toList

end SpecModel.Url.Path
