/-
Helper lemmas for the URL / normaliser model group (used by Props/C11, C12, C13 and the C03 stretch).
Core only.
-/
import SpecModel.Url.Normalizer
import SpecModel.Url.Rfc3986

namespace SpecModel.Url.Path

/-! ### `splitOn` / `joinSegs` -/

theorem splitOn_nil : splitOn [] = [[]] := rfl

theorem splitOn_cons_slash (cs : List Char) : splitOn ('/' :: cs) = [] :: splitOn cs := by
  simp [splitOn, splitAux]

theorem splitOn_cons_ne {c : Char} (h : c ≠ '/') (cs : List Char) :
    splitOn (c :: cs) = (c :: (splitAux cs).1) :: (splitAux cs).2 := by
  simp [splitOn, splitAux, h]

theorem splitOn_ne_nil (cs : List Char) : splitOn cs ≠ [] := by simp [splitOn]

theorem splitOn_append_slash (a b : List Char) : splitOn (a ++ '/' :: b) = splitOn a ++ splitOn b := by
  induction a with
  | nil => simp [splitOn_cons_slash, splitOn_nil]
  | cons c cs ih =>
    by_cases h : c = '/'
    · subst h; simp [splitOn_cons_slash, ih]
    · simp only [List.cons_append, splitOn_cons_ne h]
      simp only [splitOn, List.cons_append, List.cons.injEq] at ih
      obtain ⟨h1, h2⟩ := ih
      simp [h1, h2, splitOn]

theorem splitOn_noSlash {s : List Char} (h : '/' ∉ s) : splitOn s = [s] := by
  induction s with
  | nil => rfl
  | cons c cs ih =>
    have hc : c ≠ '/' := fun e => h (by simp [e])
    have hcs : '/' ∉ cs := fun e => h (by simp [e])
    have := ih hcs
    simp only [splitOn, List.cons.injEq] at this
    simp [splitOn_cons_ne hc, this.1, this.2]

theorem splitOn_noSlash_append_slash {s : List Char} (h : '/' ∉ s) (b : List Char) :
    splitOn (s ++ '/' :: b) = s :: splitOn b := by
  rw [splitOn_append_slash, splitOn_noSlash h]; rfl

theorem mem_splitOn_noSlash (cs : List Char) : ∀ s ∈ splitOn cs, '/' ∉ s := by
  induction cs with
  | nil => simp [splitOn_nil]
  | cons c cs ih =>
    by_cases h : c = '/'
    · subst h; rw [splitOn_cons_slash]; intro s hs
      rcases List.mem_cons.mp hs with rfl | hs
      · simp
      · exact ih s hs
    · rw [splitOn_cons_ne h]; intro s hs
      rcases List.mem_cons.mp hs with rfl | hs
      · have := ih (splitAux cs).1 (by simp [splitOn])
        simp [this, Ne.symm h]
      · exact ih s (by simp [splitOn, hs])

theorem joinSegs_cons_cons (s t : Seg) (rest : List Seg) :
    joinSegs (s :: t :: rest) = s ++ '/' :: joinSegs (t :: rest) := rfl

theorem joinSegs_cons_of_ne_nil (s : Seg) {rest : List Seg} (h : rest ≠ []) :
    joinSegs (s :: rest) = s ++ '/' :: joinSegs rest := by
  cases rest with
  | nil => exact absurd rfl h
  | cons t r => rfl

theorem splitOn_joinSegs {segs : List Seg} (hne : segs ≠ []) (h : ∀ s ∈ segs, '/' ∉ s) :
    splitOn (joinSegs segs) = segs := by
  induction segs with
  | nil => exact absurd rfl hne
  | cons s rest ih =>
    cases rest with
    | nil => simpa [joinSegs] using splitOn_noSlash (h s (by simp))
    | cons t r =>
      rw [joinSegs_cons_cons, splitOn_noSlash_append_slash (h s (by simp))]
      rw [ih (by simp) (fun x hx => h x (List.mem_cons_of_mem _ hx))]

theorem joinSegs_splitOn (cs : List Char) : joinSegs (splitOn cs) = cs := by
  induction cs with
  | nil => rfl
  | cons c cs ih =>
    by_cases h : c = '/'
    · subst h; rw [splitOn_cons_slash, joinSegs_cons_of_ne_nil _ (splitOn_ne_nil cs), ih]; rfl
    · rw [splitOn_cons_ne h]
      simp only [splitOn] at ih
      cases h2 : (splitAux cs).2 with
      | nil => rw [h2] at ih; simp [joinSegs] at ih ⊢; exact ih
      | cons t r => rw [h2] at ih; simp [joinSegs] at ih ⊢; exact ih

theorem joinSegs_append_cons (xs : List Seg) (hne : xs ≠ []) (ys : List Seg) (hy : ys ≠ []) :
    joinSegs (xs ++ ys) = joinSegs xs ++ '/' :: joinSegs ys := by
  induction xs with
  | nil => exact absurd rfl hne
  | cons s rest ih =>
    cases rest with
    | nil =>
      simp only [List.cons_append, List.nil_append]
      rw [joinSegs_cons_of_ne_nil _ hy]; rfl
    | cons t r =>
      simp only [List.cons_append] at ih ⊢
      rw [joinSegs_cons_cons, joinSegs_cons_cons, ih (by simp)]
      simp

/-! ### `isAbsL` -/

theorem isAbsL_iff (cs : List Char) : isAbsL cs = true ↔ ∃ t, cs = '/' :: t := by
  cases cs with
  | nil => simp [isAbsL]
  | cons c t =>
    by_cases h : c = '/'
    · subst h; simp [isAbsL]
    · simp [isAbsL, h]

theorem isAbsL_cons_slash (t : List Char) : isAbsL ('/' :: t) = true := rfl

theorem isAbsL_append_slash (a b : List Char) : isAbsL (a ++ '/' :: b) = isAbsL (a ++ ['/']) := by
  cases a with
  | nil => rfl
  | cons c t =>
    by_cases h : c = '/'
    · subst h; rfl
    · simp [isAbsL, h]

end SpecModel.Url.Path
namespace SpecModel.Url.Path

/-! ### the stack machine of `Clean` -/

def Real (s : Seg) : Prop := s ≠ [] ∧ s ≠ dot
def Plain (s : Seg) : Prop := s ≠ [] ∧ s ≠ dot ∧ s ≠ dotdot

theorem Plain.real {s : Seg} (h : Plain s) : Real s := ⟨h.1, h.2.1⟩

abbrev run (r : Bool) (st : List Seg) (segs : List Seg) : List Seg := segs.foldl (step r) st

theorem cleanL_eq (cs : List Char) : cleanL cs = render (isAbsL cs) (run (isAbsL cs) [] (splitOn cs)) := rfl

@[simp] theorem step_nil (r : Bool) (st : List Seg) : step r st [] = st := by simp [step]
@[simp] theorem step_dot (r : Bool) (st : List Seg) : step r st dot = st := by simp [step]

theorem step_not_real {s : Seg} (h : ¬ Real s) (r : Bool) (st : List Seg) : step r st s = st := by
  unfold Real at h
  by_cases h1 : s = []
  · subst h1; simp
  · have : s = dot := by
      by_cases h2 : s = dot
      · exact h2
      · exact absurd ⟨h1, h2⟩ h
    subst this; simp

theorem step_plain {s : Seg} (h : Plain s) (r : Bool) (st : List Seg) : step r st s = s :: st := by
  obtain ⟨h1, h2, h3⟩ := h
  simp [step, h1, h2, h3]

theorem dotdot_ne_nil : dotdot ≠ [] := by simp [dotdot]
theorem dotdot_ne_dot : dotdot ≠ dot := by simp [dotdot, dot]
theorem dotdot_real : Real dotdot := ⟨dotdot_ne_nil, dotdot_ne_dot⟩

theorem step_dotdot_nil (r : Bool) : step r [] dotdot = if r then [] else [dotdot] := by
  simp [step, dotdot_ne_nil, dotdot_ne_dot]

theorem step_dotdot_cons (r : Bool) (t : Seg) (rest : List Seg) :
    step r (t :: rest) dotdot = if t = dotdot then dotdot :: t :: rest else rest := by
  simp [step, dotdot_ne_nil, dotdot_ne_dot]

theorem real_cases {s : Seg} (h : Real s) : s = dotdot ∨ Plain s := by
  by_cases h3 : s = dotdot
  · exact Or.inl h3
  · exact Or.inr ⟨h.1, h.2, h3⟩

/-- Every element of the new stack is an element of the old one or the (real) element just read. -/
theorem mem_step {r : Bool} {st : List Seg} {s x : Seg} (hx : x ∈ step r st s) : x ∈ st ∨ (x = s ∧ Real s) := by
  by_cases hr : Real s
  · rcases real_cases hr with rfl | hp
    · cases st with
      | nil =>
        rw [step_dotdot_nil] at hx
        cases r <;> simp at hx
        exact Or.inr ⟨hx, hr⟩
      | cons t rest =>
        rw [step_dotdot_cons] at hx
        split at hx
        · rcases List.mem_cons.mp hx with h | h
          · exact Or.inr ⟨h, hr⟩
          · exact Or.inl h
        · exact Or.inl (List.mem_cons_of_mem _ hx)
    · rw [step_plain hp] at hx
      rcases List.mem_cons.mp hx with h | h
      · exact Or.inr ⟨h, hr⟩
      · exact Or.inl h
  · rw [step_not_real hr] at hx; exact Or.inl hx

/-- Stack invariant: real elements without a slash. -/
def Good (st : List Seg) : Prop := ∀ x ∈ st, Real x ∧ '/' ∉ x

theorem good_nil : Good [] := by intro x hx; cases hx

theorem good_step {r : Bool} {st : List Seg} {s : Seg} (hg : Good st) (hs : '/' ∉ s) : Good (step r st s) := by
  intro x hx
  rcases mem_step hx with h | ⟨rfl, hr⟩
  · exact hg x h
  · exact ⟨hr, hs⟩

theorem good_run {r : Bool} {segs : List Seg} : ∀ {st : List Seg}, Good st → (∀ s ∈ segs, '/' ∉ s) →
    Good (run r st segs) := by
  induction segs with
  | nil => intro st hg _; exact hg
  | cons s rest ih =>
    intro st hg hs
    exact ih (good_step hg (hs s (by simp))) (fun x hx => hs x (List.mem_cons_of_mem _ hx))

/-- Rooted stack invariant: plain elements only. -/
def AllPlain (st : List Seg) : Prop := ∀ x ∈ st, Plain x

theorem allPlain_step {st : List Seg} {s : Seg} (hg : AllPlain st) : AllPlain (step true st s) := by
  by_cases hr : Real s
  · rcases real_cases hr with rfl | hp
    · cases st with
      | nil => rw [step_dotdot_nil]; exact hg
      | cons t rest =>
        rw [step_dotdot_cons]
        have : t ≠ dotdot := (hg t (by simp)).2.2
        simp only [this, if_false]
        exact fun x hx => hg x (List.mem_cons_of_mem _ hx)
    · rw [step_plain hp]
      intro x hx
      rcases List.mem_cons.mp hx with rfl | h
      · exact hp
      · exact hg x h
  · rw [step_not_real hr]; exact hg

theorem allPlain_run {segs : List Seg} : ∀ {st : List Seg}, AllPlain st → AllPlain (run true st segs) := by
  induction segs with
  | nil => intro st hg; exact hg
  | cons s rest ih => intro st hg; exact ih (allPlain_step hg)

theorem run_plain {ps : List Seg} (r : Bool) : ∀ (S : List Seg), (∀ s ∈ ps, Plain s) → run r S ps = ps.reverse ++ S := by
  induction ps with
  | nil => intro S _; rfl
  | cons p rest ih =>
    intro S h
    simp only [run, List.foldl_cons]
    rw [step_plain (h p (by simp))]
    have := ih (p :: S) (fun x hx => h x (List.mem_cons_of_mem _ hx))
    simp only [run] at this
    rw [this]; simp

theorem run_append (r : Bool) (S : List Seg) (xs ys : List Seg) : run r S (xs ++ ys) = run r (run r S xs) ys := by
  simp [run, List.foldl_append]

/-- Feeding the cleaned form of a relative element list instead of the list itself makes no difference,
from any stack and in either mode. -/
theorem run_step_rel (r : Bool) (S T : List Seg) (y : Seg) (hT : ∀ x ∈ T, Real x) :
    run r S (step false T y).reverse = step r (run r S T.reverse) y := by
  by_cases hr : Real y
  · rcases real_cases hr with rfl | hp
    · cases T with
      | nil => rw [step_dotdot_nil]; simp [run]
      | cons t rest =>
        rw [step_dotdot_cons]
        split
        · next h => simp [run, List.foldl_append]
        · next h =>
          have ht : Plain t := (real_cases (hT t (by simp))).resolve_left h
          simp only [List.reverse_cons, run, List.foldl_append, List.foldl_cons, List.foldl_nil]
          rw [step_plain ht, step_dotdot_cons]; simp [h]
    · rw [step_plain hp]; simp [run, List.foldl_append]
  · rw [step_not_real hr, step_not_real hr]

theorem real_step {T : List Seg} {y : Seg} (hT : ∀ x ∈ T, Real x) : ∀ x ∈ step false T y, Real x := by
  intro x hx
  rcases mem_step hx with h | ⟨rfl, hr⟩
  · exact hT x h
  · exact hr

theorem run_run_rel_aux (r : Bool) (S : List Seg) (ys : List Seg) : ∀ (T : List Seg), (∀ x ∈ T, Real x) →
    run r S (run false T ys).reverse = run r (run r S T.reverse) ys := by
  induction ys with
  | nil => intro T _; rfl
  | cons y rest ih =>
    intro T hT
    have := ih (step false T y) (real_step hT)
    simp only [run, List.foldl_cons] at this ⊢
    rw [this]
    have h2 := run_step_rel r S T y hT
    simp only [run] at h2
    rw [h2]

theorem run_run_rel (r : Bool) (S : List Seg) (ys : List Seg) :
    run r S (run false [] ys).reverse = run r S ys := by
  simpa using run_run_rel_aux r S ys [] (by simp)

end SpecModel.Url.Path
namespace SpecModel.Url.Path

/-! ### `cleanL`: idempotence, absorption, spelling rewrites -/

theorem isAbsL_joinSegs_cons {s : Seg} (rest : List Seg) (h1 : s ≠ []) (h2 : '/' ∉ s) :
    isAbsL (joinSegs (s :: rest)) = false := by
  cases s with
  | nil => exact absurd rfl h1
  | cons c t =>
    have hc : c ≠ '/' := fun e => h2 (by simp [e])
    cases rest with
    | nil => simp [joinSegs, isAbsL, hc]
    | cons u v => simp [joinSegs, isAbsL, hc]

theorem stack_good (r : Bool) (cs : List Char) : Good (run r [] (splitOn cs)) :=
  good_run good_nil (mem_splitOn_noSlash cs)

theorem good_reverse {T : List Seg} (h : Good T) : ∀ x ∈ T.reverse, '/' ∉ x :=
  fun x hx => (h x (List.mem_reverse.mp hx)).2

theorem run_splitOn_render_rel {T : List Seg} (hg : Good T) (r : Bool) (S : List Seg) :
    run r S (splitOn (render false T)) = run r S T.reverse := by
  by_cases hT : T = []
  · subst hT; simp [render, splitOn_noSlash, run]
    exact step_dot r S
  · have : T.reverse ≠ [] := by simpa using hT
    simp only [render, hT, if_false, Bool.false_eq_true]
    rw [splitOn_joinSegs this (good_reverse hg)]

theorem run_splitOn_render_abs {T : List Seg} (hg : Good T) (r : Bool) (S : List Seg) :
    run r S (splitOn (render true T)) = run r S T.reverse := by
  simp only [render, if_true]
  rw [splitOn_cons_slash]
  by_cases hT : T = []
  · subst hT; simp [joinSegs, splitOn_nil, run]
  · have : T.reverse ≠ [] := by simpa using hT
    rw [splitOn_joinSegs this (good_reverse hg)]
    simp [run]

theorem isAbsL_render_true (T : List Seg) : isAbsL (render true T) = true := rfl

theorem isAbsL_render_false {T : List Seg} (hg : Good T) : isAbsL (render false T) = false := by
  by_cases hT : T = []
  · subst hT; rfl
  · simp only [render, hT, if_false, Bool.false_eq_true]
    have hne : T.reverse ≠ [] := by simpa using hT
    cases h : T.reverse with
    | nil => exact absurd h hne
    | cons s rest =>
      have hs : s ∈ T := by rw [← List.mem_reverse, h]; simp
      exact isAbsL_joinSegs_cons rest (hg s hs).1.1 (hg s hs).2

theorem isAbsL_cleanL (cs : List Char) : isAbsL (cleanL cs) = isAbsL cs := by
  rw [cleanL_eq]
  cases h : isAbsL cs
  · exact isAbsL_render_false (stack_good false cs)
  · rfl

theorem run_cleanL_rel {x : List Char} (h : isAbsL x = false) (r : Bool) (S : List Seg) :
    run r S (splitOn (cleanL x)) = run r S (splitOn x) := by
  rw [cleanL_eq, h, run_splitOn_render_rel (stack_good false x), run_run_rel]

theorem run_cleanL_abs {x : List Char} (h : isAbsL x = true) :
    run true [] (splitOn (cleanL x)) = run true [] (splitOn x) := by
  rw [cleanL_eq, h, run_splitOn_render_abs (stack_good true x)]
  have hp : AllPlain (run true [] (splitOn x)) := allPlain_run (fun _ hx => by cases hx)
  rw [run_plain true [] (fun s hs => hp s (List.mem_reverse.mp hs))]
  simp

theorem cleanL_idem (x : List Char) : cleanL (cleanL x) = cleanL x := by
  rw [cleanL_eq (cleanL x), isAbsL_cleanL]
  cases h : isAbsL x
  · rw [run_cleanL_rel h, cleanL_eq x, h]
  · rw [run_cleanL_abs h, cleanL_eq x, h]

theorem render_ne_nil (r : Bool) (T : List Seg) (hg : Good T) : render r T ≠ [] := by
  cases r
  · by_cases hT : T = []
    · subst hT; simp [render]
    · simp only [render, hT, if_false, Bool.false_eq_true]
      intro h
      have hne : T.reverse ≠ [] := by simpa using hT
      have := splitOn_joinSegs hne (good_reverse hg)
      rw [h, splitOn_nil] at this
      have hm : ([] : Seg) ∈ T := by rw [← List.mem_reverse, ← this]; simp
      exact (hg [] hm).1.1 rfl
  · simp [render]

theorem cleanL_ne_nil (x : List Char) : cleanL x ≠ [] := render_ne_nil _ _ (stack_good _ x)

/-- `Clean(a + "/" + Clean(r)) = Clean(a + "/" + r)` for a relative `r`. -/
theorem cleanL_append_cleanL (a : List Char) {r : List Char} (h : isAbsL r = false) :
    cleanL (a ++ '/' :: cleanL r) = cleanL (a ++ '/' :: r) := by
  rw [cleanL_eq, cleanL_eq (a ++ '/' :: r), isAbsL_append_slash a (cleanL r), isAbsL_append_slash a r,
    splitOn_append_slash, splitOn_append_slash, run_append, run_append, run_cleanL_rel h]

theorem isAbsL_append_of_ne_nil {a : List Char} (h : a ≠ []) (b : List Char) : isAbsL (a ++ b) = isAbsL a := by
  cases a with
  | nil => exact absurd rfl h
  | cons c t =>
    by_cases hc : c = '/'
    · subst hc; rfl
    · simp [isAbsL, hc]

theorem splitOn_dot : splitOn ['.'] = [dot] := splitOn_noSlash (by simp)
theorem splitOn_dotdot : splitOn ['.', '.'] = [dotdot] := splitOn_noSlash (by simp)

/-- Inserting a `.` element: `a/./b` and `a/b`. -/
theorem cleanL_insert_dot (a b : List Char) : cleanL (a ++ '/' :: '.' :: '/' :: b) = cleanL (a ++ '/' :: b) := by
  have e : a ++ '/' :: '.' :: '/' :: b = a ++ '/' :: (['.'] ++ '/' :: b) := by simp
  rw [cleanL_eq, cleanL_eq (a ++ '/' :: b), e, isAbsL_append_slash a _, isAbsL_append_slash a b]
  simp only [splitOn_append_slash, run_append, splitOn_dot]
  simp [run]

/-- Doubling a slash: `a//b` and `a/b`. -/
theorem cleanL_double_slash (a b : List Char) : cleanL (a ++ '/' :: '/' :: b) = cleanL (a ++ '/' :: b) := by
  rw [cleanL_eq, cleanL_eq (a ++ '/' :: b), isAbsL_append_slash a _, isAbsL_append_slash a b]
  simp only [splitOn_append_slash, run_append, splitOn_cons_slash]
  simp [run]

/-- Inserting `x/..` for a plain element `x`: `a/x/../b` and `a/b`. -/
theorem cleanL_insert_updown (a b : List Char) {x : Seg} (hx : Plain x) (hs : '/' ∉ x) :
    cleanL (a ++ '/' :: (x ++ '/' :: '.' :: '.' :: '/' :: b)) = cleanL (a ++ '/' :: b) := by
  have e : x ++ '/' :: '.' :: '.' :: '/' :: b = x ++ '/' :: (['.', '.'] ++ '/' :: b) := by simp
  rw [cleanL_eq, cleanL_eq (a ++ '/' :: b), e, isAbsL_append_slash a _, isAbsL_append_slash a b]
  simp only [splitOn_append_slash, run_append, splitOn_dotdot, splitOn_noSlash hs]
  simp only [run, List.foldl_cons, List.foldl_nil]
  rw [step_plain hx, step_dotdot_cons]
  simp [hx.2.2]

/-- Adding a trailing slash to a non-empty path. -/
theorem cleanL_trailing_slash {a : List Char} (h : a ≠ []) : cleanL (a ++ ['/']) = cleanL a := by
  rw [cleanL_eq, cleanL_eq a, isAbsL_append_of_ne_nil h, splitOn_append_slash, run_append]
  simp [run, splitOn_nil]

/-- A leading `./` on a relative path. -/
theorem cleanL_leading_dot {b : List Char} (h : isAbsL b = false) : cleanL ('.' :: '/' :: b) = cleanL b := by
  have e : '.' :: '/' :: b = ['.'] ++ '/' :: b := rfl
  rw [cleanL_eq, cleanL_eq b, e, splitOn_noSlash_append_slash (by simp), h]
  have : isAbsL (['.'] ++ '/' :: b) = false := rfl
  rw [this]
  simp only [run, List.foldl_cons]
  rw [show (['.'] : Seg) = dot from rfl, step_dot]

end SpecModel.Url.Path
namespace SpecModel.Url.Path

/-! ### `String` level -/

@[simp] theorem toList_clean (p : String) : (clean p).toList = cleanL p.toList := by simp [clean]
@[simp] theorem toList_join (a b : String) : (join a b).toList = joinL a.toList b.toList := by simp [join]
@[simp] theorem toList_dir (p : String) : (dir p).toList = dirL p.toList := by simp [dir]

theorem isAbs_iff_toList (p : String) : isAbs p = isAbsL p.toList := rfl

theorem clean_idem (p : String) : clean (clean p) = clean p := by
  apply String.ext; simp [cleanL_idem]

theorem isAbs_clean (p : String) : isAbs (clean p) = isAbs p := by
  simp [isAbs, isAbsL_cleanL]

theorem clean_ne_empty (p : String) : clean p ≠ "" := by
  intro h
  have := congrArg String.toList h
  simp at this
  exact cleanL_ne_nil _ this

theorem clean_empty : clean "" = "." := by decide
theorem isAbs_empty : isAbs "" = false := by decide
theorem isAbs_dot : isAbs "." = false := by decide

theorem ne_dot_of_isAbs {p : String} (h : isAbs p = true) : p ≠ "." := by
  intro e; subst e; simp [isAbs_dot] at h

theorem ne_empty_of_isAbs {p : String} (h : isAbs p = true) : p ≠ "" := by
  intro e; subst e; simp [isAbs_empty] at h

theorem toList_ne_nil {p : String} (h : p ≠ "") : p.toList ≠ [] := by
  intro e; exact h (String.toList_eq_nil_iff.mp e)

theorem joinL_of_ne_nil {a : List Char} (h : a ≠ []) (b : List Char) : joinL a b = cleanL (a ++ '/' :: b) := by
  simp [joinL, h]

theorem join_of_ne {a : String} (h : a ≠ "") (b : String) : join a b = clean (a ++ "/" ++ b) := by
  apply String.ext
  simp [joinL_of_ne_nil (toList_ne_nil h)]

theorem isAbs_join {a : String} (h : isAbs a = true) (b : String) : isAbs (join a b) = true := by
  have hne := toList_ne_nil (ne_empty_of_isAbs h)
  rw [isAbs_iff_toList] at h ⊢
  rw [toList_join, joinL_of_ne_nil hne, isAbsL_cleanL, isAbsL_append_of_ne_nil hne, h]

theorem clean_join {a : String} (h : a ≠ "") (b : String) : clean (join a b) = join a b := by
  rw [join_of_ne h, clean_idem]

theorem cleanL_trailing_dot (a : List Char) : cleanL (a ++ ['/', '.']) = cleanL (a ++ ['/']) := by
  rw [cleanL_eq, cleanL_eq (a ++ ['/']), isAbsL_append_slash a ['.']]
  simp only [splitOn_append_slash, run_append, splitOn_dot, splitOn_nil]
  simp [run]

/-- `Join(a, Clean'(p)) = Join(a, p)` for non-empty `a` and relative `p`, where `Clean'` maps `.` to the
empty string (what the normaliser does to a path). -/
theorem joinL_cleanL {a : List Char} (h : a ≠ []) {p : List Char} (hp : isAbsL p = false) :
    joinL a (if cleanL p = ['.'] then [] else cleanL p) = joinL a p := by
  rw [joinL_of_ne_nil h, joinL_of_ne_nil h]
  split
  · next hd =>
    rw [← cleanL_append_cleanL a hp, hd]
    exact (cleanL_trailing_dot a).symm
  · exact cleanL_append_cleanL a hp

/-- The working directory is an absolute, cleaned path. -/
structure CwdOk (cwd : String) : Prop where
  abs : isAbs cwd = true
  clean : clean cwd = cwd

end SpecModel.Url.Path

namespace SpecModel.Url
open Path

theorem toList_dot : (".": String).toList = ['.'] := by decide

theorem clean_eq_dot_iff (p : String) : clean p = "." ↔ cleanL p.toList = ['.'] := by
  rw [← String.toList_inj, toList_clean, toList_dot]

theorem cleanPath_toList (p : String) :
    (cleanPath p).toList = if cleanL p.toList = ['.'] then [] else cleanL p.toList := by
  unfold cleanPath
  simp only [clean_eq_dot_iff]
  split <;> simp

theorem isAbs_cleanPath (p : String) : isAbs (cleanPath p) = isAbs p := by
  unfold cleanPath
  simp only []
  split
  · next h => rw [← isAbs_clean p, h]; rfl
  · exact isAbs_clean p

theorem cleanPath_of_fixed {p : String} (h : clean p = p) (hd : p ≠ ".") : cleanPath p = p := by
  unfold cleanPath; simp [h, hd]

theorem cleanPath_empty : cleanPath "" = "" := by decide

theorem cleanPath_idem (p : String) : cleanPath (cleanPath p) = cleanPath p := by
  by_cases h : clean p = "."
  · have : cleanPath p = "" := by unfold cleanPath; simp [h]
    rw [this, cleanPath_empty]
  · have : cleanPath p = clean p := by unfold cleanPath; simp [h]
    rw [this]
    exact cleanPath_of_fixed (clean_idem p) h

/-- `cleanPath p` is empty or a fixed point of `clean` (and then not `"."`). -/
theorem cleanPath_fixed (p : String) : cleanPath p = "" ∨ clean (cleanPath p) = cleanPath p := by
  by_cases h : clean p = "."
  · left; unfold cleanPath; simp [h]
  · right
    have : cleanPath p = clean p := by unfold cleanPath; simp [h]
    rw [this, clean_idem]

theorem absPath_abs {cwd : String} (hc : CwdOk cwd) (p : String) : isAbs (absPath cwd p) = true := by
  unfold absPath
  split
  · next h => rw [isAbs_clean]; exact h
  · exact isAbs_join hc.abs p

theorem absPath_clean {cwd : String} (hc : CwdOk cwd) (p : String) : clean (absPath cwd p) = absPath cwd p := by
  unfold absPath
  split
  · exact clean_idem p
  · exact clean_join (ne_empty_of_isAbs hc.abs) p

theorem cleanPath_absPath {cwd : String} (hc : CwdOk cwd) (p : String) : cleanPath (absPath cwd p) = absPath cwd p :=
  cleanPath_of_fixed (absPath_clean hc p) (ne_dot_of_isAbs (absPath_abs hc p))

theorem absPath_of_abs_fixed {cwd p : String} (ha : isAbs p = true) (hf : clean p = p) : absPath cwd p = p := by
  unfold absPath; simp [ha, hf]

theorem join_cleanPath {cwd : String} (hc : CwdOk cwd) {p : String} (hp : isAbs p = false) :
    join cwd (cleanPath p) = join cwd p := by
  apply String.ext
  rw [toList_join, toList_join, cleanPath_toList]
  exact joinL_cleanL (toList_ne_nil (ne_empty_of_isAbs hc.abs)) hp

end SpecModel.Url
namespace SpecModel.Url

/-! ### NormalizeURL -/

theorem toLower_idem (c : Char) : c.toLower.toLower = c.toLower := by
  unfold Char.toLower
  by_cases h : c.val ≥ 'A'.val ∧ c.val ≤ 'Z'.val
  · have h1 : ¬ ((c.val + ('a'.val - 'A'.val)) ≥ 'A'.val ∧ (c.val + ('a'.val - 'A'.val)) ≤ 'Z'.val) := by
      obtain ⟨ha, hb⟩ := h
      intro ⟨_, h2⟩
      have hb' := UInt32.le_iff_toNat_le.mp hb
      have ha' := UInt32.le_iff_toNat_le.mp ha
      have h2' := UInt32.le_iff_toNat_le.mp h2
      have e1 : 'A'.val.toNat = 65 := rfl
      have e2 : 'Z'.val.toNat = 90 := rfl
      have e3 : ('a'.val - 'A'.val).toNat = 32 := rfl
      rw [UInt32.toNat_add, e2, e3] at h2'
      rw [e2] at hb'
      rw [e1] at ha'
      omega
    rw [dif_pos h]
    exact dif_neg h1
  · rw [dif_neg h, dif_neg h]

theorem lowerL_idem (cs : List Char) : lowerL (lowerL cs) = lowerL cs := by
  simp [lowerL, toLower_idem]

theorem lowerL_take (n : Nat) (cs : List Char) : lowerL (cs.take n) = (lowerL cs).take n := by
  simp [lowerL, List.map_take]

theorem lower_idem (s : String) : lower (lower s) = lower s := by
  simp [lower, lowerL_idem]

theorem head?_collapseL (cs : List Char) : (collapseL cs).head? = cs.head? := by
  induction cs with
  | nil => rfl
  | cons c t ih =>
    unfold collapseL
    split
    · next h => rw [ih, h.2, h.1]; rfl
    · rfl

theorem collapseL_idem (cs : List Char) : collapseL (collapseL cs) = collapseL cs := by
  induction cs with
  | nil => rfl
  | cons c t ih =>
    by_cases h : c = '/' ∧ t.head? = some '/'
    · have : collapseL (c :: t) = collapseL t := by rw [collapseL]; simp [h]
      rw [this, ih]
    · have e : collapseL (c :: t) = c :: collapseL t := by rw [collapseL]; simp [h]
      rw [e, collapseL]
      rw [head?_collapseL, if_neg h, ih]

theorem collapse_idem (s : String) : collapse (collapse s) = collapse s := by
  simp [collapse, collapseL_idem]

/-- A default port stacked on itself: the only obstacle to idempotence of `NormalizeURL`. -/
def StackedPort (scheme : String) (host : List Char) : Prop :=
  (scheme = "http" ∧ (httpPort ++ httpPort) <:+ host) ∨ (scheme = "https" ∧ (httpsPort ++ httpsPort) <:+ host)

theorem take_of_suffix {p h : List Char} (hs : p <:+ h) : h.take (h.length - p.length) ++ p = h :=
  List.suffix_iff_eq_append.mp hs

theorem removePortL_idem {scheme : String} {host : List Char} (h : ¬ StackedPort scheme host) :
    removePortL scheme (removePortL scheme host) = removePortL scheme host := by
  have hne : ¬ ("http" = "https") := by decide
  by_cases h1 : scheme = "http" ∧ httpPort.isSuffixOf host
  · have e : removePortL scheme host = host.take (host.length - 3) := by simp [removePortL, h1]
    rw [e]
    have hsuf := List.isSuffixOf_iff_suffix.mp h1.2
    have hh := take_of_suffix hsuf
    have hlen : httpPort.length = 3 := rfl
    rw [hlen] at hh
    have h2 : ¬ httpPort.isSuffixOf (host.take (host.length - 3)) = true := by
      intro h2
      obtain ⟨q, hq⟩ := List.isSuffixOf_iff_suffix.mp h2
      apply h
      left
      refine ⟨h1.1, q, ?_⟩
      rw [← List.append_assoc, hq, hh]
    unfold removePortL
    simp [h1.1, h2, hne]
  · by_cases h3 : scheme = "https" ∧ httpsPort.isSuffixOf host
    · have e : removePortL scheme host = host.take (host.length - 4) := by
        unfold removePortL; rw [if_neg h1, if_pos h3]
      rw [e]
      have hsuf := List.isSuffixOf_iff_suffix.mp h3.2
      have hh := take_of_suffix hsuf
      have hlen : httpsPort.length = 4 := rfl
      rw [hlen] at hh
      have h2 : ¬ httpsPort.isSuffixOf (host.take (host.length - 4)) = true := by
        intro h2
        obtain ⟨q, hq⟩ := List.isSuffixOf_iff_suffix.mp h2
        apply h
        right
        refine ⟨h3.1, q, ?_⟩
        rw [← List.append_assoc, hq, hh]
      have hne' : ¬ ("https" = "http") := by decide
      unfold removePortL
      simp [h3.1, h2, hne']
    · have e : removePortL scheme host = host := by
        unfold removePortL; rw [if_neg h1, if_neg h3]
      rw [e, e]

theorem lowerL_removePortL (scheme : String) (host : List Char) :
    lowerL (removePortL scheme (lowerL host)) = removePortL scheme (lowerL host) := by
  unfold removePortL
  split
  · rw [lowerL_take, lowerL_idem]
  · split
    · rw [lowerL_take, lowerL_idem]
    · exact lowerL_idem host

/-- `NormalizeURL` is idempotent unless the default port is stacked on itself (`http://h:80:80`). -/
theorem normalizeURL_idem_of {u : URL} (h : ¬ StackedPort (lower u.scheme) (lowerL u.host.toList)) :
    normalizeURL (normalizeURL u) = normalizeURL u := by
  unfold normalizeURL
  simp only [lower_idem, collapse_idem, String.toList_ofList, lowerL_removePortL, removePortL_idem h]

theorem count_colon_ports : (httpPort ++ httpPort).count ':' = 2 ∧ (httpsPort ++ httpsPort).count ':' = 2 := by
  decide

theorem toLower_val (c : Char) :
    c.toLower.val.toNat = if 65 ≤ c.val.toNat ∧ c.val.toNat ≤ 90 then c.val.toNat + 32 else c.val.toNat := by
  have e1 : 'A'.val.toNat = 65 := rfl
  have e2 : 'Z'.val.toNat = 90 := rfl
  have e3 : ('a'.val - 'A'.val).toNat = 32 := rfl
  unfold Char.toLower
  by_cases h : c.val ≥ 'A'.val ∧ c.val ≤ 'Z'.val
  · rw [dif_pos h]
    obtain ⟨ha, hb⟩ := h
    have hb' := UInt32.le_iff_toNat_le.mp hb
    have ha' := UInt32.le_iff_toNat_le.mp ha
    rw [e2] at hb'
    rw [e1] at ha'
    rw [if_pos ⟨ha', hb'⟩]
    show (c.val + ('a'.val - 'A'.val)).toNat = _
    rw [UInt32.toNat_add, e3]
    omega
  · rw [dif_neg h]
    have : ¬ (65 ≤ c.val.toNat ∧ c.val.toNat ≤ 90) := by
      intro ⟨a, b⟩
      apply h
      exact ⟨UInt32.le_iff_toNat_le.mpr (by rw [e1]; exact a), UInt32.le_iff_toNat_le.mpr (by rw [e2]; exact b)⟩
    rw [if_neg this]

theorem char_eq_iff (c d : Char) : c = d ↔ c.val.toNat = d.val.toNat :=
  ⟨fun h => by rw [h], fun h => Char.ext (UInt32.toNat_inj.mp h)⟩

theorem toLower_eq_colon (c : Char) : (c.toLower == ':') = (c == ':') := by
  have e4 : (':' : Char).val.toNat = 58 := rfl
  rw [Bool.eq_iff_iff]
  simp only [beq_iff_eq, char_eq_iff, toLower_val, e4]
  split <;> omega

theorem count_colon_lowerL (cs : List Char) : (lowerL cs).count ':' = cs.count ':' := by
  induction cs with
  | nil => rfl
  | cons c t ih =>
    simp only [lowerL, List.map_cons, List.count_cons] at ih ⊢
    rw [ih, toLower_eq_colon]

/-- "The host has at most one port": at most one `:` in the host rules the stacked default port out. -/
theorem not_stacked_of_one_colon {scheme : String} {host : String} (h : host.toList.count ':' ≤ 1) :
    ¬ StackedPort scheme (lowerL host.toList) := by
  rw [← count_colon_lowerL] at h
  rintro (⟨_, q, hq⟩ | ⟨_, q, hq⟩)
  · rw [← hq, List.count_append, count_colon_ports.1] at h; omega
  · rw [← hq, List.count_append, count_colon_ports.2] at h; omega

end SpecModel.Url
namespace SpecModel.Url.Rfc
open SpecModel.Url.Path

/-! ### RFC 3986 `remove_dot_segments` on `/s1/s2/…/sn` -/

/-- `/s1/s2/…/sn`. -/
def slashed : List Seg → List Char
  | [] => []
  | s :: rest => '/' :: s ++ slashed rest

theorem slashed_append (xs ys : List Seg) : slashed (xs ++ ys) = slashed xs ++ slashed ys := by
  induction xs with
  | nil => rfl
  | cons s rest ih => simp [slashed, ih]

theorem slashed_eq_joinSegs {xs : List Seg} (h : xs ≠ []) : slashed xs = '/' :: joinSegs xs := by
  induction xs with
  | nil => exact absurd rfl h
  | cons s rest ih =>
    cases rest with
    | nil => simp [slashed, joinSegs]
    | cons t r =>
      rw [slashed, ih (by simp), joinSegs_cons_cons]; simp

theorem rdsLoop_nil (out : List Char) : rdsLoop [] out = out := by
  rw [rdsLoop]; simp

theorem rdsLoop_cons (c : Char) (cs out : List Char) :
    rdsLoop (c :: cs) out = rdsLoop (rdsStep (c :: cs) out).1 (rdsStep (c :: cs) out).2 := by
  rw [rdsLoop]; simp

theorem dropWhile_noSlash_append {s : List Char} (h : '/' ∉ s) (m : List Char) :
    (s ++ '/' :: m).dropWhile (· ≠ '/') = '/' :: m := by
  induction s with
  | nil => simp
  | cons c t ih =>
    have hc : c ≠ '/' := fun e => h (by simp [e])
    have ht : '/' ∉ t := fun e => h (by simp [e])
    simpa [List.dropWhile_cons, hc] using ih ht

theorem takeWhile_noSlash_append {s : List Char} (h : '/' ∉ s) (m : List Char) :
    (s ++ '/' :: m).takeWhile (· ≠ '/') = s := by
  induction s with
  | nil => simp
  | cons c t ih =>
    have hc : c ≠ '/' := fun e => h (by simp [e])
    have ht : '/' ∉ t := fun e => h (by simp [e])
    simpa [List.takeWhile_cons, hc] using ih ht

theorem dropWhile_noSlash {s : List Char} (h : '/' ∉ s) : s.dropWhile (· ≠ '/') = [] := by
  induction s with
  | nil => simp
  | cons c t ih =>
    have hc : c ≠ '/' := fun e => h (by simp [e])
    have ht : '/' ∉ t := fun e => h (by simp [e])
    simpa [List.dropWhile_cons, hc] using ih ht

theorem takeWhile_noSlash {s : List Char} (h : '/' ∉ s) : s.takeWhile (· ≠ '/') = s := by
  induction s with
  | nil => simp
  | cons c t ih =>
    have hc : c ≠ '/' := fun e => h (by simp [e])
    have ht : '/' ∉ t := fun e => h (by simp [e])
    simpa [List.takeWhile_cons, hc] using ih ht

theorem removeLastSegment_nil : removeLastSegment [] = [] := rfl

theorem removeLastSegment_snoc (xs : List Char) {t : Seg} (h : '/' ∉ t) :
    removeLastSegment (xs ++ '/' :: t) = xs := by
  unfold removeLastSegment
  have : (xs ++ '/' :: t).reverse = t.reverse ++ '/' :: xs.reverse := by simp
  rw [this, dropWhile_noSlash_append (by simpa using h)]
  simp

theorem rdsStep_dot_more (m out : List Char) : rdsStep ('/' :: '.' :: '/' :: m) out = ('/' :: m, out) := by
  simp [rdsStep, strip]

theorem rdsStep_dotdot_more (m out : List Char) :
    rdsStep ('/' :: '.' :: '.' :: '/' :: m) out = ('/' :: m, removeLastSegment out) := by
  simp [rdsStep, strip]

end SpecModel.Url.Rfc

namespace SpecModel.Url.Rfc
open SpecModel.Url.Path

/-- what may follow a segment: nothing, or a slash -/
def Boundary (rest : List Char) : Prop := rest = [] ∨ ∃ m, rest = '/' :: m

theorem dropWhile_seg {s : List Char} (h : '/' ∉ s) {rest : List Char} (hr : Boundary rest) :
    (s ++ rest).dropWhile (fun x => !decide (x = '/')) = rest := by
  rcases hr with rfl | ⟨m, rfl⟩
  · simpa using dropWhile_noSlash h
  · simpa using dropWhile_noSlash_append h m

theorem takeWhile_seg {s : List Char} (h : '/' ∉ s) {rest : List Char} (hr : Boundary rest) :
    (s ++ rest).takeWhile (fun x => !decide (x = '/')) = s := by
  rcases hr with rfl | ⟨m, rfl⟩
  · simpa using takeWhile_noSlash h
  · simpa using takeWhile_noSlash_append h m

theorem boundary_head {rest : List Char} (hr : Boundary rest) (c : Char) (t : List Char) (h : rest = c :: t) : c = '/' := by
  rcases hr with rfl | ⟨m, rfl⟩
  · cases h
  · cases h; rfl

/-- Step E on a plain segment. -/
theorem rdsStep_plain {s : Seg} (hp : Plain s) (hs : '/' ∉ s) {rest : List Char} (hr : Boundary rest) (out : List Char) :
    rdsStep ('/' :: (s ++ rest)) out = (rest, out ++ '/' :: s) := by
  obtain ⟨h1, h2, h3⟩ := hp
  rcases s with _ | ⟨c, _ | ⟨d, _ | ⟨e, s3⟩⟩⟩
  · exact absurd rfl h1
  · have hc : c ≠ '.' := fun e => h2 (by simp [e, dot])
    have hc' : c ≠ '/' := fun e => hs (by simp [e])
    have := dropWhile_seg (s := []) (by simp) hr
    have := takeWhile_seg (s := []) (by simp) hr
    simp_all [rdsStep, strip, Ne.symm hc, Ne.symm hc']
  · have hc' : c ≠ '/' := fun e => hs (by simp [e])
    have hd' : d ≠ '/' := fun e => hs (by simp [e])
    have hcd : ¬ (c = '.' ∧ d = '.') := fun ⟨a, b⟩ => h3 (by simp [a, b, dotdot])
    have := dropWhile_seg (s := []) (by simp) hr
    have := takeWhile_seg (s := []) (by simp) hr
    by_cases hc : c = '.'
    · have : d ≠ '.' := fun e => hcd ⟨hc, e⟩
      subst hc
      simp_all [rdsStep, strip, Ne.symm hd', Ne.symm this]
    · simp_all [rdsStep, strip, Ne.symm hc, Ne.symm hc', Ne.symm hd']
  · have hc' : c ≠ '/' := fun e => hs (by simp [e])
    have hd' : d ≠ '/' := fun e => hs (by simp [e])
    have he' : e ≠ '/' := fun x => hs (by simp [x])
    have hs3 : '/' ∉ s3 := fun x => hs (by simp [x])
    have := dropWhile_seg hs3 hr
    have := takeWhile_seg hs3 hr
    simp only [List.cons_append]
    simp only [rdsStep, strip, Ne.symm hc', Ne.symm hd', Ne.symm he', if_false, if_true]
    simp_all [Ne.symm hc', Ne.symm hd', Ne.symm he']

end SpecModel.Url.Rfc

namespace SpecModel.Url.Rfc
open SpecModel.Url.Path

theorem boundary_slashed (xs : List Seg) : Boundary (slashed xs) := by
  cases xs with
  | nil => exact Or.inl rfl
  | cons s r => exact Or.inr ⟨_, rfl⟩

/-- Input segments of the heart lemma: non-empty, without slash. -/
def SegsOk (segs : List Seg) : Prop := ∀ s ∈ segs, s ≠ [] ∧ '/' ∉ s

/-- Stack of the heart lemma: plain, without slash. -/
def StackOk (S : List Seg) : Prop := ∀ s ∈ S, Plain s ∧ '/' ∉ s

theorem slashed_reverse_cons (s : Seg) (S : List Seg) :
    slashed (s :: S).reverse = slashed S.reverse ++ '/' :: s := by
  simp [slashed_append, slashed]

/-- The heart of C12: on `/s1/…/sn` with non-empty segments whose last one is not `.` or `..`, RFC 3986
`remove_dot_segments` (continuing from output buffer `/t1/…/tk`) and the stack machine of Go's rooted
`path.Clean` (continuing from stack `t1 … tk`) produce the same text. -/
theorem rdsLoop_slashed (segs : List Seg) : ∀ (S : List Seg), SegsOk segs → StackOk S →
    (∃ l, segs.getLast? = some l ∧ l ≠ dot ∧ l ≠ dotdot) →
    rdsLoop (slashed segs) (slashed S.reverse) = '/' :: joinSegs (run true S segs).reverse := by
  induction segs with
  | nil => intro S _ _ ⟨l, hl, _⟩; simp at hl
  | cons s rest ih =>
    intro S hsegs hS hlast
    have hs := hsegs s (by simp)
    have hrest : SegsOk rest := fun x hx => hsegs x (List.mem_cons_of_mem _ hx)
    cases rest with
    | nil =>
      obtain ⟨l, hl, hl1, hl2⟩ := hlast
      simp at hl; subst hl
      have hp : Plain s := ⟨hs.1, hl1, hl2⟩
      have e : slashed [s] = '/' :: (s ++ []) := by simp [slashed]
      rw [e, rdsLoop_cons, rdsStep_plain hp hs.2 (Or.inl rfl)]
      simp only [rdsLoop_nil, run, List.foldl_cons, List.foldl_nil]
      rw [step_plain hp, ← slashed_eq_joinSegs (by simp), slashed_reverse_cons]
    | cons t r =>
      have hlast' : ∃ l, (t :: r).getLast? = some l ∧ l ≠ dot ∧ l ≠ dotdot := by
        obtain ⟨l, hl, h⟩ := hlast
        exact ⟨l, by simpa [List.getLast?_cons_cons] using hl, h⟩
      have e : slashed (s :: t :: r) = '/' :: (s ++ slashed (t :: r)) := rfl
      have run_cons : run true S (s :: t :: r) = run true (step true S s) (t :: r) := rfl
      rw [run_cons]
      by_cases hdot : s = dot
      · subst hdot
        have e2 : slashed (dot :: t :: r) = '/' :: '.' :: '/' :: (t ++ slashed r) := rfl
        rw [e2, rdsLoop_cons, rdsStep_dot_more, step_dot]
        exact ih S hrest hS hlast'
      · by_cases hdd : s = dotdot
        · subst hdd
          have e2 : slashed (dotdot :: t :: r) = '/' :: '.' :: '.' :: '/' :: (t ++ slashed r) := rfl
          rw [e2, rdsLoop_cons, rdsStep_dotdot_more]
          cases S with
          | nil =>
            simp only [List.reverse_nil, slashed, removeLastSegment_nil]
            rw [step_dotdot_nil]
            exact ih [] hrest hS hlast'
          | cons u S' =>
            have hu := hS u (by simp)
            rw [slashed_reverse_cons, removeLastSegment_snoc _ hu.2, step_dotdot_cons, if_neg hu.1.2.2]
            exact ih S' hrest (fun x hx => hS x (List.mem_cons_of_mem _ hx)) hlast'
        · have hp : Plain s := ⟨hs.1, hdot, hdd⟩
          rw [e, rdsLoop_cons, rdsStep_plain hp hs.2 (boundary_slashed _), step_plain hp,
            ← slashed_reverse_cons]
          refine ih (s :: S) hrest ?_ hlast'
          intro x hx
          rcases List.mem_cons.mp hx with rfl | hx
          · exact ⟨hp, hs.2⟩
          · exact hS x hx

end SpecModel.Url.Rfc
namespace SpecModel.Url.Rfc
open SpecModel.Url.Path

/-! ### Go's `Clean` and RFC `remove_dot_segments` on the same `/s1/…/sn` -/

theorem getLast_ok_ne_nil {segs : List Seg} (h : ∃ l, segs.getLast? = some l ∧ l ≠ dot ∧ l ≠ dotdot) : segs ≠ [] := by
  intro e; subst e; obtain ⟨l, hl, _⟩ := h; simp at hl

theorem cleanL_slashed {segs : List Seg} (hok : SegsOk segs)
    (hlast : ∃ l, segs.getLast? = some l ∧ l ≠ dot ∧ l ≠ dotdot) :
    cleanL (slashed segs) = removeDotSegmentsL (slashed segs) := by
  have hne := getLast_ok_ne_nil hlast
  have h := rdsLoop_slashed segs [] hok (fun _ hx => by cases hx) hlast
  simp only [List.reverse_nil, slashed] at h
  unfold removeDotSegmentsL
  rw [h, slashed_eq_joinSegs hne, cleanL_eq, isAbsL_cons_slash, splitOn_cons_slash,
    splitOn_joinSegs hne (fun s hs => (hok s hs).2)]
  simp [render, run]

theorem cleanL_cleanL_append_abs {a : List Char} (ha : isAbsL a = true) (r : List Char) :
    cleanL (cleanL a ++ '/' :: r) = cleanL (a ++ '/' :: r) := by
  have hne : a ≠ [] := by intro e; subst e; simp [isAbsL] at ha
  rw [cleanL_eq, cleanL_eq (a ++ '/' :: r), isAbsL_append_of_ne_nil (cleanL_ne_nil a), isAbsL_cleanL,
    isAbsL_append_of_ne_nil hne, ha, splitOn_append_slash, splitOn_append_slash, run_append, run_append,
    run_cleanL_abs ha]

theorem dirPart_append (a : List Char) {s : List Char} (h : '/' ∉ s) : dirPart (a ++ '/' :: s) = a ++ ['/'] := by
  unfold dirPart
  have : (a ++ '/' :: s).reverse = s.reverse ++ '/' :: a.reverse := by simp
  rw [this, dropWhile_noSlash_append (by simpa using h)]
  simp

/-- The base path: absolute, and its directory part is `/s1/…/sk/` with non-empty `s_i`. -/
def BaseOkL (b : List Char) : Prop := ∃ bsegs, dirPart b = slashed bsegs ++ ['/'] ∧ SegsOk bsegs

/-- A relative reference path: non-empty elements, the last one neither `.` nor `..`. -/
def RelOkL (r : List Char) : Prop :=
  (∀ s ∈ splitOn r, s ≠ []) ∧ ∃ l, (splitOn r).getLast? = some l ∧ l ≠ dot ∧ l ≠ dotdot

theorem RelOkL.segsOk {r : List Char} (h : RelOkL r) : SegsOk (splitOn r) :=
  fun s hs => ⟨h.1 s hs, mem_splitOn_noSlash r s hs⟩

theorem RelOkL.not_abs {r : List Char} (h : RelOkL r) : isAbsL r = false := by
  cases hr : isAbsL r
  · rfl
  · obtain ⟨t, rfl⟩ := (isAbsL_iff r).mp hr
    have := h.1 [] (by rw [splitOn_cons_slash]; simp)
    exact absurd rfl this

theorem slashed_splitOn (r : List Char) : slashed (splitOn r) = '/' :: r := by
  rw [slashed_eq_joinSegs (splitOn_ne_nil r), joinSegs_splitOn]

theorem getLast?_append_ok {xs ys : List Seg} (h : ∃ l, ys.getLast? = some l ∧ l ≠ dot ∧ l ≠ dotdot) :
    ∃ l, (xs ++ ys).getLast? = some l ∧ l ≠ dot ∧ l ≠ dotdot := by
  obtain ⟨l, hl, h2⟩ := h
  refine ⟨l, ?_, h2⟩
  rw [List.getLast?_append, hl]; rfl

/-- For an in-class relative reference the cleaned path is not `.`. -/
theorem cleanL_ne_dot_of_relOk {r : List Char} (h : RelOkL r) : cleanL r ≠ ['.'] := by
  intro e
  have h1 := run_cleanL_rel h.not_abs false []
  rw [e, splitOn_dot] at h1
  simp only [run, List.foldl_cons, List.foldl_nil, step_dot] at h1
  obtain ⟨l, hl, hl1, hl2⟩ := h.2
  obtain ⟨xs, hx⟩ : ∃ xs, splitOn r = xs ++ [l] := by
    have := List.getLast?_eq_some_iff.mp hl
    exact this
  rw [hx, List.foldl_append] at h1
  have hp : Plain l := ⟨h.1 l (by rw [hx]; simp), hl1, hl2⟩
  simp only [List.foldl_cons, List.foldl_nil] at h1
  rw [step_plain hp] at h1
  cases h1

theorem go_rfc_path_rel {b r : List Char} (hb : BaseOkL b) (hr : RelOkL r) (auth : Bool) (hbne : b ≠ []) :
    joinL (dirL b) (cleanL r) = removeDotSegmentsL (mergeL auth b r) := by
  obtain ⟨bsegs, hd, hbs⟩ := hb
  have hdabs : isAbsL (dirPart b) = true := by
    rw [hd]
    cases bsegs with
    | nil => rfl
    | cons s t => rfl
  have hm : mergeL auth b r = slashed (bsegs ++ splitOn r) := by
    unfold mergeL
    rw [if_neg (by simp [hbne])]
    show dirPart b ++ r = _
    rw [hd, slashed_append, slashed_splitOn]; simp
  have hgo : joinL (dirL b) (cleanL r) = cleanL (slashed (bsegs ++ splitOn r)) := by
    unfold dirL
    rw [joinL_of_ne_nil (cleanL_ne_nil _), cleanL_append_cleanL _ hr.not_abs]
    rw [cleanL_cleanL_append_abs hdabs, hd, slashed_append, slashed_splitOn]
    have : slashed bsegs ++ ['/'] ++ '/' :: r = slashed bsegs ++ '/' :: '/' :: r := by simp
    rw [this, cleanL_double_slash]
  rw [hm, hgo]
  refine cleanL_slashed ?_ (getLast?_append_ok hr.2)
  intro s hs
  rcases List.mem_append.mp hs with h | h
  · exact hbs s h
  · exact hr.segsOk s h

theorem go_rfc_path_abs {r0 : List Char} (hr : RelOkL r0) : cleanL ('/' :: r0) = removeDotSegmentsL ('/' :: r0) := by
  rw [← slashed_splitOn]
  exact cleanL_slashed hr.segsOk hr.2

/-- A cleaned absolute base path has the required shape. -/
theorem baseOkL_of_clean {b : List Char} (ha : isAbsL b = true) (hc : cleanL b = b) : BaseOkL b := by
  have hg := stack_good true b
  have hp : AllPlain (run true [] (splitOn b)) := allPlain_run (fun _ hx => by cases hx)
  rw [cleanL_eq, ha] at hc
  cases hT : run true [] (splitOn b) with
  | nil =>
    rw [hT] at hc
    refine ⟨[], ?_, fun _ hx => by cases hx⟩
    rw [← hc]; rfl
  | cons l T' =>
    rw [hT] at hc hg hp
    have hne : (l :: T').reverse ≠ [] := by simp
    simp only [render, if_true] at hc
    rw [← slashed_eq_joinSegs hne, slashed_reverse_cons] at hc
    refine ⟨T'.reverse, ?_, ?_⟩
    · rw [← hc, dirPart_append _ (hg l (by simp)).2]
    · intro s hs
      have hs' : s ∈ l :: T' := List.mem_cons_of_mem _ (List.mem_reverse.mp hs)
      exact ⟨(hp s hs').1, (hg s hs').2⟩

end SpecModel.Url.Rfc
namespace SpecModel.Url
open Path

theorem lower_empty : lower "" = "" := by decide

theorem lower_eq_empty_iff (s : String) : lower s = "" ↔ s = "" := by
  constructor
  · intro h
    have := congrArg String.toList h
    simp [lower, lowerL] at this
    exact this
  · intro h; subst h; exact lower_empty

theorem isAbs_collapse (s : String) : isAbs (collapse s) = isAbs s := by
  have h := head?_collapseL s.toList
  simp only [isAbs, collapse, String.toList_ofList]
  cases hs : s.toList with
  | nil => simp [collapseL]
  | cons c t =>
    rw [hs] at h
    cases hc : collapseL (c :: t) with
    | nil => rw [hc] at h; simp at h
    | cons d u =>
      rw [hc] at h
      simp at h
      subst h
      by_cases e : d = '/'
      · subst e; rfl
      · simp [isAbsL, e]

theorem isAbsL_false_head {l : List Char} (h : isAbsL l = false) : l.head? ≠ some '/' := by
  cases l with
  | nil => simp
  | cons c t =>
    intro e
    simp at e
    subst e
    simp [isAbsL] at h

theorem isAbsL_true_head {l : List Char} (h : isAbsL l = true) : l.head? = some '/' := by
  obtain ⟨t, rfl⟩ := (isAbsL_iff l).mp h
  rfl

theorem cons_tail_of_abs {l : List Char} (h : isAbsL l = true) : l = '/' :: l.tail := by
  obtain ⟨t, rfl⟩ := (isAbsL_iff l).mp h
  rfl

/-- A reference without scheme and host is never canonical. -/
theorem not_canonical_of_no_scheme (p q f : String) : (Ref.new ⟨"", "", p, q, f⟩).isCanonical = false := by
  simp [Ref.new, Ref.classify, normalizeURL, Ref.isCanonical, lower_empty]

end SpecModel.Url
namespace SpecModel.Url
open Path

/-! ### lemmas for `rebase` / `denormalizeRef` -/

theorem collapseL_length_le (l : List Char) : (collapseL l).length ≤ l.length := by
  induction l with
  | nil => simp [collapseL]
  | cons c t ih =>
    unfold collapseL
    split
    · simp; omega
    · simp; omega

theorem collapseL_double_ne (a b : List Char) : collapseL (a ++ '/' :: '/' :: b) ≠ a ++ '/' :: '/' :: b := by
  induction a with
  | nil =>
    intro h
    have h1 : collapseL ('/' :: '/' :: b) = collapseL ('/' :: b) := by
      rw [collapseL]; simp
    have := collapseL_length_le ('/' :: b)
    simp only [List.nil_append] at h
    rw [h1] at h
    rw [h] at this
    simp at this
    omega
  | cons c t ih =>
    intro h
    simp only [List.cons_append] at h
    rw [collapseL] at h
    split at h
    · have := collapseL_length_le (t ++ '/' :: '/' :: b)
      rw [h] at this
      simp at this
      omega
    · simp only [List.cons.injEq, true_and] at h
      exact ih h

theorem collapseL_fixed_suffix (a b : List Char) (h : collapseL (a ++ b) = a ++ b) : collapseL b = b := by
  induction a with
  | nil => simpa using h
  | cons c t ih =>
    simp only [List.cons_append] at h
    rw [collapseL] at h
    split at h
    · have := collapseL_length_le (t ++ b)
      rw [h] at this
      simp at this
      omega
    · simp only [List.cons.injEq, true_and] at h
      exact ih h

theorem exists_last_slash {b : List Char} (h : '/' ∈ b) : ∃ a s, b = a ++ '/' :: s ∧ '/' ∉ s := by
  induction b with
  | nil => cases h
  | cons c t ih =>
    by_cases ht : '/' ∈ t
    · obtain ⟨a, s, e, hs⟩ := ih ht
      exact ⟨c :: a, s, by simp [e], hs⟩
    · rcases List.mem_cons.mp h with e | e
      · exact ⟨[], t, by simp [← e], ht⟩
      · exact absurd e ht

theorem isAbsL_dirPart {b : List Char} (h : isAbsL b = true) : isAbsL (dirPart b) = true := by
  obtain ⟨t, rfl⟩ := (isAbsL_iff b).mp h
  obtain ⟨a, s, e, hs⟩ := exists_last_slash (b := '/' :: t) (by simp)
  rw [e, Rfc.dirPart_append a hs, ← isAbsL_append_slash a s, ← e]
  rfl

theorem isAbsL_dirL {b : List Char} (h : isAbsL b = true) : isAbsL (dirL b) = true := by
  unfold dirL; rw [isAbsL_cleanL]; exact isAbsL_dirPart h

/-- `v.Path` after the adjustment in `rebase`, on character lists, for a directory `d ≠ "."`. -/
def vPathL (d : List Char) : List Char := if ['/'].isSuffixOf d then d else d ++ ['/']

theorem vPathL_ends (d : List Char) : ∃ q, vPathL d = q ++ ['/'] := by
  unfold vPathL
  split
  · next h => obtain ⟨q, hq⟩ := List.isSuffixOf_iff_suffix.mp h; exact ⟨q, hq.symm⟩
  · exact ⟨d, rfl⟩

theorem vPathL_length (d : List Char) : d.length ≤ (vPathL d).length := by
  unfold vPathL; split <;> simp

theorem cleanL_vPathL_append (d rest : List Char) : cleanL (vPathL d ++ rest) = cleanL (d ++ '/' :: rest) := by
  unfold vPathL
  split
  · next h =>
    obtain ⟨q, hq⟩ := List.isSuffixOf_iff_suffix.mp h
    rw [← hq]
    have e1 : q ++ ['/'] ++ '/' :: rest = q ++ '/' :: '/' :: rest := by simp
    have e2 : q ++ ['/'] ++ rest = q ++ '/' :: rest := by simp
    rw [e1, e2, cleanL_double_slash]
  · simp

theorem cleanL_vPathL {d : List Char} (hne : d ≠ []) (hc : cleanL d = d) : cleanL (vPathL d) = d := by
  unfold vPathL
  split
  · exact hc
  · rw [cleanL_trailing_slash hne, hc]

/-- A cleaned path that ends with a slash is the root. -/
theorem clean_fixed_trailing_slash {q : List Char} (hc : cleanL (q ++ ['/']) = q ++ ['/']) : q = [] := by
  cases q with
  | nil => rfl
  | cons c t =>
    exfalso
    have hs : splitOn ((c :: t) ++ ['/']) = splitOn (c :: t) ++ [[]] := by
      rw [splitOn_append_slash]; rfl
    have hl : (splitOn ((c :: t) ++ ['/'])).getLast? = some [] := by rw [hs]; simp
    rw [← hc, cleanL_eq] at hl
    rw [cleanL_eq] at hc
    have hg := stack_good (isAbsL ((c :: t) ++ ['/'])) ((c :: t) ++ ['/'])
    generalize run (isAbsL ((c :: t) ++ ['/'])) [] (splitOn ((c :: t) ++ ['/'])) = T at hl hc hg
    generalize isAbsL ((c :: t) ++ ['/']) = r at hl hc
    cases T with
    | nil =>
      cases r
      · simp [render] at hc
      · simp [render, joinSegs] at hc
    | cons l T' =>
      have hne' : (l :: T').reverse ≠ [] := by simp
      have hl' : (l :: T').reverse.getLast? = some l := by simp
      have hreal := (hg l (by simp)).1.1
      cases r
      · simp only [render, Bool.false_eq_true, if_false] at hl
        rw [if_neg (by simp), splitOn_joinSegs hne' (good_reverse hg), hl'] at hl
        simp at hl
        exact hreal hl
      · simp only [render, if_true] at hl
        rw [splitOn_cons_slash, splitOn_joinSegs hne' (good_reverse hg)] at hl
        have e : ([] : Seg) :: (l :: T').reverse = [[]] ++ (l :: T').reverse := rfl
        rw [e, List.getLast?_append, hl'] at hl
        simp at hl
        exact hreal hl

end SpecModel.Url
namespace SpecModel.Url
open Path

theorem rebase_rel_path {P d rest : List Char} (hd : cleanL d = d) (hdne : d ≠ [])
    (hP : cleanL P = P) (hcol : collapseL P = P) (hsplit : P = vPathL d ++ rest) (hrest : rest ≠ []) :
    isAbsL rest = false ∧ cleanL rest ≠ ['.'] ∧ joinL d (cleanL rest) = P ∧ collapseL rest = rest := by
  obtain ⟨q, hq⟩ := vPathL_ends d
  have h1 : isAbsL rest = false := by
    cases hr : isAbsL rest
    · rfl
    · exfalso
      obtain ⟨r', rfl⟩ := (isAbsL_iff rest).mp hr
      have : P = q ++ '/' :: '/' :: r' := by rw [hsplit, hq]; simp
      rw [this] at hcol
      exact collapseL_double_ne q r' hcol
  have h2 : collapseL rest = rest := collapseL_fixed_suffix (vPathL d) rest (by rw [← hsplit]; exact hcol)
  have h3 : cleanL (d ++ '/' :: rest) = P := by
    rw [← cleanL_vPathL_append, ← hsplit, hP]
  have h4 : cleanL rest ≠ ['.'] := by
    intro e
    have : cleanL (d ++ '/' :: rest) = d := by
      rw [← cleanL_append_cleanL d h1, e]
      have : d ++ ['/', '.'] = d ++ '/' :: ['.'] := rfl
      rw [← this, cleanL_trailing_dot, cleanL_trailing_slash hdne, hd]
    rw [h3] at this
    have hl := congrArg List.length hsplit
    rw [this, List.length_append] at hl
    have := vPathL_length d
    have : 0 < rest.length := List.length_pos_iff.mpr hrest
    omega
  refine ⟨h1, h4, ?_, h2⟩
  rw [joinL_of_ne_nil hdne, cleanL_append_cleanL d h1, h3]

theorem toList_slash : ("/" : String).toList = ['/'] := by decide

theorem hasPrefix_iff (s pre : String) : hasPrefix s pre = true ↔ ∃ rest, s.toList = pre.toList ++ rest := by
  unfold hasPrefix
  rw [List.isPrefixOf_iff_prefix]
  constructor
  · rintro ⟨t, ht⟩; exact ⟨t, ht.symm⟩
  · rintro ⟨t, ht⟩; exact ⟨t, ht.symm⟩

theorem trimPrefix_of {s pre : String} {rest : List Char} (h : s.toList = pre.toList ++ rest) :
    trimPrefix s pre = String.ofList rest := by
  unfold trimPrefix
  rw [if_pos ((hasPrefix_iff s pre).mpr ⟨rest, h⟩), h]
  simp

theorem trimPrefix_not {s pre : String} (h : hasPrefix s pre = false) : trimPrefix s pre = s := by
  unfold trimPrefix; simp [h]

theorem rebaseDir_toList {doc : String} (h : isAbs doc = true) : (rebaseDir doc).toList = vPathL (dirL doc.toList) := by
  have habs : isAbs (dir doc) = true := by
    rw [isAbs_iff_toList, toList_dir]; exact isAbsL_dirL h
  unfold rebaseDir vPathL hasSuffix
  simp only [ne_dot_of_isAbs habs, if_false, toList_slash, toList_dir]
  split <;> simp [toList_slash]

theorem lowerL_nil : lowerL [] = [] := rfl

theorem normalizeURL_relative (p f : String) (h : collapse p = p) :
    normalizeURL ⟨"", "", p, "", f⟩ = ⟨"", "", p, "", f⟩ := by
  unfold normalizeURL
  simp only [lower_empty, h]
  have : String.ofList (removePortL "" (lowerL ("" : String).toList)) = "" := by decide
  rw [this]

end SpecModel.Url

namespace SpecModel.Url
open Path

/-! ### small bridges used by the property files -/

theorem relOkL_of {r : List Char} (h1 : ∀ s ∈ splitOn r, s ≠ []) (h2 : (splitOn r).getLast? ≠ some dot)
    (h3 : (splitOn r).getLast? ≠ some dotdot) : Rfc.RelOkL r := by
  refine ⟨h1, ?_⟩
  cases hl : (splitOn r).getLast? with
  | none => exact absurd (List.getLast?_eq_none_iff.mp hl) (splitOn_ne_nil _)
  | some l =>
    refine ⟨l, rfl, ?_, ?_⟩
    · intro e; subst e; exact h2 hl
    · intro e; subst e; exact h3 hl

theorem cleanL_toList_of_fixed {p : String} (h : clean p = p) : cleanL p.toList = p.toList := by
  have := congrArg String.toList h
  simpa using this

end SpecModel.Url
