/-
Specification side — RFC 3986 §5.2 "Relative Resolution", written from the RFC text, independently of the Go
code. It shares only the `URL` record (and no function) with the model of the implementation.

A component that is "undefined" in the RFC's sense is represented by the empty string (the same convention
as Go's `url.URL`, which cannot tell `http://h/p?` from `http://h/p` except through `ForceQuery`, outside the
model). `resolve` is the *strict* algorithm of §5.2.2.
Core only.
-/
import SpecModel.Url.Url

namespace SpecModel.Url.Rfc

/-- `some rest` when `l = pre ++ rest`. -/
def strip : (pre l : List Char) → Option (List Char)
  | [], l => some l
  | _ :: _, [] => none
  | p :: ps, c :: cs => if p = c then strip ps cs else none

/-- §5.2.4 2C: "removing the last segment and its preceding "/" (if any) from the output buffer". -/
def removeLastSegment (out : List Char) : List Char :=
  match out.reverse.dropWhile (· ≠ '/') with
  | [] => []
  | _ :: rest => rest.reverse

/-- One pass through the loop body of §5.2.4 step 2, on (input buffer, output buffer). -/
def rdsStep (inp out : List Char) : List Char × List Char :=
  -- A. If the input buffer begins with a prefix of "../" or "./", then remove that prefix
  if let some rest := strip ['.', '.', '/'] inp then (rest, out)
  else if let some rest := strip ['.', '/'] inp then (rest, out)
  -- B. if the input buffer begins with a prefix of "/./" or "/.", where "." is a complete path segment,
  --    then replace that prefix with "/"
  else if let some rest := strip ['/', '.', '/'] inp then ('/' :: rest, out)
  else if inp = ['/', '.'] then (['/'], out)
  -- C. if the input buffer begins with a prefix of "/../" or "/..", where ".." is a complete path segment,
  --    then replace that prefix with "/" and remove the last segment and its preceding "/" (if any)
  else if let some rest := strip ['/', '.', '.', '/'] inp then ('/' :: rest, removeLastSegment out)
  else if inp = ['/', '.', '.'] then (['/'], removeLastSegment out)
  -- D. if the input buffer consists only of "." or "..", then remove that
  else if inp = ['.'] ∨ inp = ['.', '.'] then ([], out)
  -- E. move the first path segment in the input buffer to the end of the output buffer, including the
  --    initial "/" character (if any) and any subsequent characters up to, but not including, the next "/"
  else
    match inp with
    | [] => ([], out)
    | c :: cs => (cs.dropWhile (· ≠ '/'), out ++ c :: cs.takeWhile (· ≠ '/'))

theorem strip_length {pre l rest : List Char} (h : strip pre l = some rest) :
    rest.length + pre.length = l.length := by
  induction pre generalizing l with
  | nil => simp [strip] at h; simp [h]
  | cons p ps ih =>
    cases l with
    | nil => simp [strip] at h
    | cons c cs =>
      simp only [strip] at h
      split at h
      · have := ih h; simp; omega
      · simp at h

theorem rdsStep_lt (inp out : List Char) (h : inp ≠ []) : (rdsStep inp out).1.length < inp.length := by
  unfold rdsStep
  split
  · next rest h1 => have := strip_length h1; simp at this ⊢; omega
  split
  · next rest h1 => have := strip_length h1; simp at this ⊢; omega
  split
  · next rest h1 => have := strip_length h1; simp at this ⊢; omega
  split
  · next h1 => simp [h1]
  split
  · next rest h1 => have := strip_length h1; simp at this ⊢; omega
  split
  · next h1 => simp [h1]
  split
  · next h1 => rcases h1 with h1 | h1 <;> simp [h1]
  · cases inp with
    | nil => exact absurd rfl h
    | cons c cs =>
      simp only [List.length_cons]
      have := (List.dropWhile_sublist (fun x => decide (x ≠ '/')) (l := cs)).length_le
      omega

/-- §5.2.4 step 2: "While the input buffer is not empty, loop"; step 3: return the output buffer. -/
def rdsLoop (inp out : List Char) : List Char :=
  if _h : inp = [] then out
  else rdsLoop (rdsStep inp out).1 (rdsStep inp out).2
termination_by inp.length
decreasing_by exact rdsStep_lt inp out ‹_›

/-- §5.2.4 `remove_dot_segments`. -/
def removeDotSegmentsL (p : List Char) : List Char := rdsLoop p []

/-- §5.2.3 `merge`: "If the base URI has a defined authority component and an empty path, then return a
string consisting of "/" concatenated with the reference's path; otherwise, return a string consisting of
the reference's path component appended to all but the last segment of the base URI's path (i.e.,
excluding any characters after the right-most "/" in the base URI path, or excluding the entire base URI
path if it does not contain any "/" characters)". -/
def mergeL (baseHasAuthority : Bool) (basePath refPath : List Char) : List Char :=
  if baseHasAuthority ∧ basePath = [] then '/' :: refPath
  else (basePath.reverse.dropWhile (· ≠ '/')).reverse ++ refPath

def removeDotSegments (p : String) : String := String.ofList (removeDotSegmentsL p.toList)

def merge (base : URL) (refPath : String) : String :=
  String.ofList (mergeL (base.host ≠ "") base.path.toList refPath.toList)

/-- §5.2.2 "Transform References", strict (a reference with a scheme is never treated as relative). -/
def resolve (base r : URL) : URL :=
  if r.scheme ≠ "" then
    { scheme := r.scheme, host := r.host, path := removeDotSegments r.path, query := r.query,
      fragment := r.fragment }
  else if r.host ≠ "" then
    { scheme := base.scheme, host := r.host, path := removeDotSegments r.path, query := r.query,
      fragment := r.fragment }
  else if r.path = "" then
    { scheme := base.scheme, host := base.host, path := base.path,
      query := if r.query ≠ "" then r.query else base.query, fragment := r.fragment }
  else if r.path.toList.head? = some '/' then
    { scheme := base.scheme, host := base.host, path := removeDotSegments r.path, query := r.query,
      fragment := r.fragment }
  else
    { scheme := base.scheme, host := base.host, path := removeDotSegments (merge base r.path),
      query := r.query, fragment := r.fragment }

end SpecModel.Url.Rfc
