/-
M3 (part) — /repo/normalizer.go and /repo/normalizer_nonwindows.go on already parsed URLs.

Each function returns the `url.URL` value the Go code holds just before it calls `.String()`.
`url.Parse` and `URL.String` are not modelled: "print, then parse again" is taken to be the identity on the
five modelled components (trusted assumption T-URL, checked on the Go side by the differential tests; it
fails e.g. for a relative path whose first element contains `:` — Go prints `./a:b` — and for `RawPath`
escapes such as `%2F`, which are outside the model).
`filepath.Abs` (Unix) takes the working directory as a parameter.
Core only (no Mathlib): this module is linked into the driver.
-/
import SpecModel.Url.Url

namespace SpecModel.Url
open Path

/-- `u.Path = path.Clean(u.Path); if u.Path == "." { u.Path = "" }`. -/
def cleanPath (p : String) : String :=
  let c := clean p
  if c = "." then "" else c

/-- `filepath.Abs` on Unix with working directory `cwd`. -/
def absPath (cwd p : String) : String :=
  if isAbs p then clean p else join cwd p

def fileScheme : String := "file"

def normalizeBase (cwd : String) (u : URL) : URL :=
  let u := { u with fragment := "" }
  let u := { u with path := cleanPath u.path }
  if u.scheme ≠ "" ∧ (isAbs u.path ∨ u.scheme ≠ fileScheme) then
    (if u.scheme = fileScheme then { u with query := "" } else u)
  else { u with scheme := fileScheme, path := absPath cwd u.path, query := "" }

def normalizeURI (ref base : URL) : URL :=
  let refURL := { ref with path := cleanPath ref.path }
  if (Ref.new refURL).isCanonical then refURL
  else
    let basePath :=
      if isAbs refURL.path then refURL.path
      else if refURL.path ≠ "" then join (dir base.path) refURL.path
      else base.path
    { base with path := basePath, fragment := refURL.fragment }

/-! ### rebase / denormalizeRef -/

def hasPrefix (s pre : String) : Bool := pre.toList.isPrefixOf s.toList
def hasSuffix (s suf : String) : Bool := suf.toList.isSuffixOf s.toList
def trimPrefix (s pre : String) : String :=
  if hasPrefix s pre then String.ofList (s.toList.drop pre.toList.length) else s

/-- `v.Path` after `v.Path = path.Dir(v.Path)` and the adjustment that follows it in `rebase`. -/
def rebaseDir (docPath : String) : String :=
  let d := dir docPath
  if d = "." then "" else if hasSuffix d "/" then d else d ++ "/"

/-- the path of the base document matches up to a path boundary:
`strings.HasPrefix(u.Path, docPath) && (len(u.Path) == len(docPath) || strings.HasSuffix(docPath, "/") || u.Path[len(docPath)] == '/')` -/
def matchesDoc (uPath docPath : String) : Bool :=
  hasPrefix uPath docPath &&
    (uPath.toList.length == docPath.toList.length || hasSuffix docPath "/" ||
      (uPath.toList.drop docPath.toList.length).head? == some '/')

/-- `newBase.Path` in `rebase`. -/
def rebasePath (uPath docPath : String) : String :=
  if matchesDoc uPath docPath then trimPrefix uPath docPath else trimPrefix uPath (rebaseDir docPath)

/-- `rebase(ref, v, notEqual)`; the result `Ref` is `MustCreateRef(newBase.String())`. -/
def rebase (ref : Ref) (v : URL) (notEqual : Bool) : Ref × Bool :=
  let u := ref.url
  if u.scheme ≠ v.scheme ∨ u.host ≠ v.host ∨ u.query ≠ v.query then (ref, false)
  else
    let newPath := rebasePath u.path v.path
    if notEqual ∧ newPath = "" ∧ u.fragment = "" then (ref, false)
    else
      let newBase : URL :=
        if isAbs newPath then ⟨v.scheme, v.host, newPath, "", u.fragment⟩
        else ⟨"", "", newPath, "", u.fragment⟩
      (Ref.new newBase, true)

/-- `denormalizeRef(ref, originalRelativeBase, id)`; `id = none` stands for `id == ""` or an `id` that does
not parse. -/
def denormalizeRefId (ref : Ref) (base : URL) (id : Option URL) : Ref :=
  if ref.url.isEmpty ∨ ref.isRoot ∨ ref.hasFragmentOnly then ref
  else
    match id with
    | some idURL =>
        let r := rebase ref idURL true
        if r.2 then r.1 else (rebase ref base false).1
    | none => (rebase ref base false).1

/-- The `id == ""` case on URLs: the argument is what the Go caller passed through `MustCreateRef`
(so `Ref.new` is applied to it), the result is the URL of the returned `Ref`. -/
def denormalizeRef (ref base : URL) : URL := (denormalizeRefId (Ref.new ref) base none).url

end SpecModel.Url
