/-
Theory of the meaning relation (`Head`/`Sim`/`Equiv`) and of partial expansion (`Exp`), and the link from
`expand` to `Exp`. The statements a reader should look at are in `SpecModel.Props.ExpandCore`.
-/
import SpecModel.Expand.Lemmas

namespace SpecModel.Expand

variable {K L : Type}

/-! ### `All2` -/

theorem All2.refl {α : Type} {R : α → α → Prop} (h : ∀ a, R a a) : ∀ l : List α, All2 R l l
  | [] => by simp [All2]
  | a :: l => by simp [All2, h a, All2.refl h l]

theorem All2.flip {α β : Type} {R : α → β → Prop} {R' : β → α → Prop} (h : ∀ a b, R a b → R' b a) :
    ∀ {l : List α} {l' : List β}, All2 R l l' → All2 R' l' l
  | [], [], _ => by simp [All2]
  | a :: l, b :: l', h' => by
      simp only [All2] at h' ⊢; exact ⟨h _ _ h'.1, All2.flip h h'.2⟩
  | [], _ :: _, h' => by simp [All2] at h'
  | _ :: _, [], h' => by simp [All2] at h'

theorem All2.trans {α β γ : Type} {R : α → β → Prop} {R' : β → γ → Prop} {R'' : α → γ → Prop}
    (h : ∀ a b c, R a b → R' b c → R'' a c) :
    ∀ {l : List α} {l' : List β} {l'' : List γ}, All2 R l l' → All2 R' l' l'' → All2 R'' l l''
  | [], [], [], _, _ => by simp [All2]
  | a :: l, b :: l', c :: l'', h1, h2 => by
      simp only [All2] at h1 h2 ⊢; exact ⟨h _ _ _ h1.1 h2.1, All2.trans h h1.2 h2.2⟩
  | [], _ :: _, _, h1, _ => by simp [All2] at h1
  | _ :: _, [], _, h1, _ => by simp [All2] at h1
  | [], [], _ :: _, _, h2 => by simp [All2] at h2
  | _ :: _, _ :: _, [], _, h2 => by simp [All2] at h2

theorem All2.mono {α β : Type} {R R' : α → β → Prop} (h : ∀ a b, R a b → R' a b) :
    ∀ {l : List α} {l' : List β}, All2 R l l' → All2 R' l l'
  | [], [], _ => by simp [All2]
  | a :: l, b :: l', h' => by
      simp only [All2] at h' ⊢; exact ⟨h _ _ h'.1, All2.mono h h'.2⟩
  | [], _ :: _, h' => by simp [All2] at h'
  | _ :: _, [], h' => by simp [All2] at h'

theorem all2_forall {α β : Type} {R : Nat → α → β → Prop} :
    ∀ {l : List α} {l' : List β}, (∀ n, All2 (R n) l l') ↔ All2 (fun a b => ∀ n, R n a b) l l'
  | [], [] => by simp [All2]
  | a :: l, b :: l' => by
      simp only [All2, ← all2_forall (l := l) (l' := l')]
      exact ⟨fun h => ⟨fun n => (h n).1, fun n => (h n).2⟩, fun h n => ⟨h.1 n, h.2 n⟩⟩
  | [], _ :: _ => by simp [All2]
  | _ :: _, [] => by simp [All2]

/-- the `zip` formulation used in `Exp.node` is the pointwise relation -/
theorem all2_iff_zip {α β : Type} {R : α → β → Prop} :
    ∀ {l : List α} {l' : List β}, All2 R l l' ↔ (l.length = l'.length ∧ ∀ p, p ∈ l.zip l' → R p.1 p.2)
  | [], [] => by simp [All2]
  | a :: l, b :: l' => by
      simp only [All2, all2_iff_zip (l := l) (l' := l'), List.length_cons, List.zip_cons_cons,
        List.mem_cons]
      constructor
      · rintro ⟨h1, h2, h3⟩
        refine ⟨by omega, ?_⟩
        rintro p (rfl | hp)
        · exact h1
        · exact h3 p hp
      · rintro ⟨h1, h2⟩
        exact ⟨h2 (a, b) (.inl rfl), by omega, fun p hp => h2 p (.inr hp)⟩
  | [], _ :: _ => by simp [All2]
  | _ :: _, [] => by simp [All2]

/-! ### `Head` -/

section head
variable {W W' W'' : World K L}

/-- `Head` is a partial function -/
theorem Head.det {t u u' : Tree K L} (h : Head W t u) (h' : Head W t u') : u = u' := by
  induction h with
  | node l cs => cases h'; rfl
  | dangling hk =>
    cases h' with
    | dangling _ => rfl
    | follow hs _ => simp [hk] at hs
  | follow hs _ ih =>
    cases h' with
    | dangling hk => simp [hk] at hs
    | follow hs' h'' => rw [hs] at hs'; cases hs'; exact ih h''

/-- a head is a node or a dangling reference -/
theorem Head.shape {t u : Tree K L} (h : Head W t u) : (∃ l cs, u = .node l cs) ∨ (∃ k, u = .ref k ∧ W k = none) := by
  induction h with
  | node l cs => exact .inl ⟨l, cs, rfl⟩
  | dangling hk => exact .inr ⟨_, rfl, hk⟩
  | follow _ _ ih => exact ih

theorem head_ref_iff {k : K} {s u : Tree K L} (hs : W k = some s) : Head W (.ref k) u ↔ Head W s u := by
  constructor
  · intro h
    cases h with
    | dangling hk => simp [hk] at hs
    | follow hs' h' => rw [hs] at hs'; cases hs'; exact h'
  · exact .follow hs

theorem head?_sound {n : Nat} {t u : Tree K L} (h : head? W n t = some u) : Head W t u := by
  induction n generalizing t with
  | zero =>
    cases t with
    | ref k => simp [head?] at h
    | node l cs => simp [head?] at h; subst h; exact .node l cs
  | succ n ih =>
    cases t with
    | node l cs => simp [head?] at h; subst h; exact .node l cs
    | ref k =>
      simp only [head?] at h
      split at h
      · cases h; exact .dangling ‹_›
      · exact .follow ‹_› (ih h)

/-! ### `Sim` is an equivalence -/

theorem HeadMatch.refl {R : Tree K L → Tree K L → Prop} (h : ∀ t, R t t) : ∀ u, HeadMatch R u u
  | .ref k => by simp [HeadMatch]
  | .node l cs => by simp [HeadMatch, All2.refl h cs]

theorem HeadMatch.flip {R R' : Tree K L → Tree K L → Prop} (h : ∀ a b, R a b → R' b a) :
    ∀ {u u' : Tree K L}, HeadMatch R u u' → HeadMatch R' u' u
  | .ref k, .ref k', hm => by simp only [HeadMatch] at hm ⊢; exact hm.symm
  | .node l cs, .node l' cs', hm => by
      simp only [HeadMatch] at hm ⊢; exact ⟨hm.1.symm, All2.flip h hm.2⟩
  | .ref _, .node _ _, hm => by simp [HeadMatch] at hm
  | .node _ _, .ref _, hm => by simp [HeadMatch] at hm

theorem HeadMatch.trans {R R' R'' : Tree K L → Tree K L → Prop} (h : ∀ a b c, R a b → R' b c → R'' a c) :
    ∀ {u u' u'' : Tree K L}, HeadMatch R u u' → HeadMatch R' u' u'' → HeadMatch R'' u u''
  | .ref k, .ref k', .ref k'', h1, h2 => by simp only [HeadMatch] at h1 h2 ⊢; exact h1.trans h2
  | .node l cs, .node l' cs', .node l'' cs'', h1, h2 => by
      simp only [HeadMatch] at h1 h2 ⊢; exact ⟨h1.1.trans h2.1, All2.trans h h1.2 h2.2⟩
  | .ref _, .node _ _, _, h1, _ => by simp [HeadMatch] at h1
  | .node _ _, .ref _, _, h1, _ => by simp [HeadMatch] at h1
  | .ref _, .ref _, .node _ _, _, h2 => by simp [HeadMatch] at h2
  | .node _ _, .node _ _, .ref _, _, h2 => by simp [HeadMatch] at h2

theorem Sim.refl (W : World K L) : ∀ n t, Sim W W n t t
  | 0, _ => by simp [Sim]
  | n + 1, t => by
      simp only [Sim]
      exact ⟨fun u hu => ⟨u, hu, HeadMatch.refl (Sim.refl W n) u⟩,
             fun u hu => ⟨u, hu, HeadMatch.refl (Sim.refl W n) u⟩⟩

theorem Sim.symm : ∀ {n : Nat} {t t' : Tree K L}, Sim W W' n t t' → Sim W' W n t' t
  | 0, _, _, _ => by simp [Sim]
  | n + 1, t, t', h => by
      simp only [Sim] at h ⊢
      refine ⟨fun u' hu' => ?_, fun u hu => ?_⟩
      · obtain ⟨u, hu, hm⟩ := h.2 u' hu'
        exact ⟨u, hu, hm.flip (fun _ _ => Sim.symm)⟩
      · obtain ⟨u', hu', hm⟩ := h.1 u hu
        exact ⟨u', hu', hm.flip (fun _ _ => Sim.symm)⟩

theorem Sim.trans : ∀ {n : Nat} {t t' t'' : Tree K L}, Sim W W' n t t' → Sim W' W'' n t' t'' → Sim W W'' n t t''
  | 0, _, _, _, _, _ => by simp [Sim]
  | n + 1, t, t', t'', h1, h2 => by
      simp only [Sim] at h1 h2 ⊢
      refine ⟨fun u hu => ?_, fun u'' hu'' => ?_⟩
      · obtain ⟨u', hu', hm⟩ := h1.1 u hu
        obtain ⟨u'', hu'', hm'⟩ := h2.1 u' hu'
        exact ⟨u'', hu'', HeadMatch.trans (R := Sim W W' n) (R' := Sim W' W'' n) (R'' := Sim W W'' n)
          (fun _ _ _ h1 h2 => Sim.trans h1 h2) hm hm'⟩
      · obtain ⟨u', hu', hm'⟩ := h2.2 u'' hu''
        obtain ⟨u, hu, hm⟩ := h1.2 u' hu'
        exact ⟨u, hu, HeadMatch.trans (R := Sim W W' n) (R' := Sim W' W'' n) (R'' := Sim W W'' n)
          (fun _ _ _ h1 h2 => Sim.trans h1 h2) hm hm'⟩

/-- a resolvable reference means what its target means -/
theorem sim_ref {k : K} {s : Tree K L} (hs : W k = some s) : ∀ n, Sim W W n (.ref k) s
  | 0 => by simp [Sim]
  | n + 1 => by
      simp only [Sim]
      exact ⟨fun u hu => ⟨u, (head_ref_iff hs).1 hu, HeadMatch.refl (Sim.refl W n) u⟩,
             fun u hu => ⟨u, (head_ref_iff hs).2 hu, HeadMatch.refl (Sim.refl W n) u⟩⟩

theorem head_node_iff {l : L} {cs : List (Tree K L)} {u : Tree K L} :
    Head W (.node l cs) u ↔ u = .node l cs := by
  constructor
  · intro h; cases h; rfl
  · rintro rfl; exact .node l cs

theorem sim_node_succ {l l' : L} {cs cs' : List (Tree K L)} {n : Nat} :
    Sim W W' (n + 1) (.node l cs) (.node l' cs') ↔ l = l' ∧ All2 (Sim W W' n) cs cs' := by
  simp only [Sim, head_node_iff]
  constructor
  · rintro ⟨h, _⟩
    obtain ⟨u', rfl, hm⟩ := h _ rfl
    simpa [HeadMatch] using hm
  · intro h
    exact ⟨fun u hu => ⟨_, rfl, by subst hu; simpa [HeadMatch] using h⟩,
           fun u' hu' => ⟨_, rfl, by subst hu'; simpa [HeadMatch] using h⟩⟩

theorem sim_dangling_succ {k k' : K} (hk : W k = none) (hk' : W' k' = none) {n : Nat} :
    Sim W W' (n + 1) (.ref k : Tree K L) (.ref k') ↔ k = k' := by
  simp only [Sim]
  constructor
  · rintro ⟨h, _⟩
    obtain ⟨u', hu', hm⟩ := h _ (.dangling hk)
    have := hu'.det (.dangling hk'); subst this
    simpa [HeadMatch] using hm
  · rintro rfl
    refine ⟨fun u hu => ⟨_, .dangling hk', ?_⟩, fun u' hu' => ⟨_, .dangling hk, ?_⟩⟩
    · have := hu.det (.dangling hk); subst this; simp [HeadMatch]
    · have := hu'.det (.dangling hk'); subst this; simp [HeadMatch]

theorem sim_dangling_node {k : K} (hk : W k = none) {l : L} {cs : List (Tree K L)} {n : Nat} :
    ¬ Sim W W' (n + 1) (.ref k) (.node l cs) := by
  simp only [Sim]
  rintro ⟨h, _⟩
  obtain ⟨u', hu', hm⟩ := h _ (.dangling hk)
  cases hu'
  simp [HeadMatch] at hm

end head

/-! ### `Exp` -/

section exp
variable {W W' : World K L}

theorem Exp.node_iff {l : L} {cs cs' : List (Tree K L)} :
    Exp W (.node l cs) (.node l cs') ↔ All2 (Exp W) cs cs' := by
  rw [all2_iff_zip]
  constructor
  · intro h; cases h with | node _ h1 h2 => exact ⟨h1, h2⟩
  · rintro ⟨h1, h2⟩; exact .node l h1 h2

mutual
  theorem Exp.refl (W : World K L) : ∀ t : Tree K L, Exp W t t
    | .ref k => .keep k
    | .node _ cs => Exp.node_iff.2 (Exp.reflList W cs)
  theorem Exp.reflList (W : World K L) : ∀ cs : List (Tree K L), All2 (Exp W) cs cs
    | [] => by simp [All2]
    | c :: cs => by simp only [All2]; exact ⟨Exp.refl W c, Exp.reflList W cs⟩
end

/-- zero or more reference hops -/
inductive Hops (W : World K L) : Tree K L → Tree K L → Prop where
  | refl (t : Tree K L) : Hops W t t
  | step {k : K} {s u : Tree K L} : W k = some s → Hops W s u → Hops W (.ref k) u

theorem Hops.head {t t0 u : Tree K L} (h : Hops W t t0) (hu : Head W t0 u) : Head W t u := by
  induction h with
  | refl => exact hu
  | step hs _ ih => exact .follow hs (ih hu)

/-- an expansion is: some hops, then a kept reference or a node expanded childwise -/
theorem Exp.hops {t t' : Tree K L} (h : Exp W t t') :
    ∃ t0, Hops W t t0 ∧ ((∃ k, t0 = .ref k ∧ t' = .ref k) ∨
      (∃ l cs cs', t0 = .node l cs ∧ t' = .node l cs' ∧ All2 (Exp W) cs cs')) := by
  induction h with
  | keep k => exact ⟨_, .refl _, .inl ⟨k, rfl, rfl⟩⟩
  | follow hs _ ih =>
    obtain ⟨t0, h0, hc⟩ := ih
    exact ⟨t0, .step hs h0, hc⟩
  | node _ h1 h2 _ => exact ⟨_, .refl _, .inr ⟨_, _, _, rfl, rfl, all2_iff_zip.2 ⟨h1, h2⟩⟩⟩

/-- C02 core, left to right: a head of the source is matched by a head of the expansion read in `W'` -/
theorem exp_sim_fwd (hW : WorldExp W W') {R : Tree K L → Tree K L → Prop}
    (ih : ∀ t t', Exp W t t' → R t t') {t u : Tree K L} (hu : Head W t u) :
    ∀ t', Exp W t t' → ∃ u', Head W' t' u' ∧ HeadMatch R u u' := by
  induction hu with
  | node l cs =>
    intro t' he
    cases he with
    | node _ h1 h2 =>
      exact ⟨_, .node l _, by simp only [HeadMatch]; exact ⟨trivial, (all2_iff_zip.2 ⟨h1, h2⟩).mono ih⟩⟩
  | @dangling k hk =>
    intro t' he
    cases he with
    | keep _ =>
      rcases hW k with ⟨_, h'⟩ | ⟨s, s', hs, _⟩
      · exact ⟨_, .dangling h', by simp [HeadMatch]⟩
      · simp [hk] at hs
    | follow hs _ => simp [hk] at hs
  | @follow k s u hs _ ihh =>
    intro t' he
    cases he with
    | keep _ =>
      rcases hW k with ⟨h, _⟩ | ⟨s0, s', hs0, hs', he'⟩
      · simp [hs] at h
      · rw [hs] at hs0; cases hs0
        obtain ⟨u', hu', hm⟩ := ihh s' he'
        exact ⟨u', .follow hs' hu', hm⟩
    | follow hs0 he' =>
      rw [hs] at hs0; cases hs0
      exact ihh t' he'

/-- C02 core, right to left -/
theorem exp_sim_bwd (hW : WorldExp W W') {R : Tree K L → Tree K L → Prop}
    (ih : ∀ t t', Exp W t t' → R t t') {t' u' : Tree K L} (hu' : Head W' t' u') :
    ∀ t, Exp W t t' → ∃ u, Head W t u ∧ HeadMatch R u u' := by
  induction hu' with
  | node l cs' =>
    intro t he
    obtain ⟨t0, h0, hc⟩ := he.hops
    rcases hc with ⟨k, _, h⟩ | ⟨l0, cs, cs0, rfl, h, ha⟩
    · cases h
    · cases h
      exact ⟨_, h0.head (.node _ _), by simp only [HeadMatch]; exact ⟨trivial, ha.mono ih⟩⟩
  | @dangling k hk =>
    intro t he
    obtain ⟨t0, h0, hc⟩ := he.hops
    rcases hc with ⟨k0, rfl, h⟩ | ⟨l0, cs, cs0, _, h, _⟩
    · cases h
      rcases hW k with ⟨h, _⟩ | ⟨s, s', _, hs', _⟩
      · exact ⟨_, h0.head (.dangling h), by simp [HeadMatch]⟩
      · simp [hk] at hs'
    · cases h
  | @follow k s' u' hs' _ ihh =>
    intro t he
    obtain ⟨t0, h0, hc⟩ := he.hops
    rcases hc with ⟨k0, rfl, h⟩ | ⟨l0, cs, cs0, _, h, _⟩
    · cases h
      rcases hW k with ⟨_, h⟩ | ⟨s, s0, hs, hs0, he'⟩
      · simp [hs'] at h
      · rw [hs'] at hs0; cases hs0
        obtain ⟨u, hu, hm⟩ := ihh s he'
        exact ⟨u, h0.head (.follow hs hu), hm⟩
    · cases h

/-- C02 core: an expansion read in an expanded world agrees with its source to every depth -/
theorem exp_sim (hW : WorldExp W W') : ∀ n t t', Exp W t t' → Sim W W' n t t'
  | 0, _, _, _ => by simp [Sim]
  | n + 1, t, t', he => by
      simp only [Sim]
      exact ⟨fun u hu => exp_sim_fwd hW (exp_sim hW n) hu t' he,
             fun u' hu' => exp_sim_bwd hW (exp_sim hW n) hu' t he⟩

end exp

/-! ### `expand` produces expansions -/

theorem expand_exp_both [DecidableEq K] (W : World K L) (c : Bool) : ∀ n,
    (∀ p m t t' m', expand W c n p m t = .ok (t', m') → Exp W t t') ∧
    (∀ p m cs cs' m', expandList W c n p m cs = .ok (cs', m') → All2 (Exp W) cs cs') := by
  apply expand_ok_induction W c (P := fun _ _ _ t t' _ => Exp W t t')
    (Q := fun _ _ _ cs cs' _ => All2 (Exp W) cs cs')
  case hmemo => intro n p m k _; exact .keep k
  case hstack => intro n p m k _ _; exact .keep k
  case hdangling => intro n p m k _ _ _ _; exact .keep k
  case hfollow => intro n p m k s s' m' _ _ hs _ ih; exact .follow hs ih
  case hnode => intro n p m l cs cs' m' _ ih; exact Exp.node_iff.2 ih
  case hnil => intro n p m; simp [All2]
  case hcons => intro n p m c0 cs c' cs' m1 m2 _ _ ih1 ih2; simp only [All2]; exact ⟨ih1, ih2⟩

end SpecModel.Expand
