/-
M4 (core) — the reference-expansion algorithm of expander.go at the level of an abstract reference graph.

`K` is the type of *canonical references* (in the concrete model: the normalised absolute URL with its
fragment, as computed by `normalizeURI`), `L` the type of node labels (in the concrete model: everything of
a schema / parameter / response / path item that is not a sub-element position, plus the list of positions).
A world `W` maps a canonical reference to the tree it designates (`none`: missing document, dangling pointer
or ill-typed target).

Correspondence with the Go code (expander.go, schema_loader.go):
  * `Tree.ref k`       — an element holding `$ref` whose normalised form is `k` (siblings of `$ref` are not
                         part of the meaning: a followed reference replaces its holder entirely)
  * `parents`          — `parentRefs`, extended on every followed `$ref` (expandSchemaRef)
  * `memo`             — `resolverContext.circulars`, shared by the whole call, only ever growing (isCircular)
  * the three-way test — `isCircular`: known circular → keep; on the stack → remember and keep; else follow
  * `W k = none`       — `Resolve` fails: error unless ContinueOnError, in which case the `$ref` stays verbatim
  * children           — the sub-schema positions, visited left to right, the memo threaded through
Running out of fuel is an explicit third outcome: C04 is the statement that it does not happen.
-/
namespace SpecModel.Expand

inductive Tree (K L : Type) where
  | ref (k : K)
  | node (l : L) (cs : List (Tree K L))
  deriving Repr, Inhabited

inductive Res (K α : Type) where
  | ok (a : α)
  | err (k : K)          -- unresolvable reference k, strict mode
  | outOfFuel
  deriving Repr

abbrev World (K L : Type) := K → Option (Tree K L)

variable {K L : Type} [DecidableEq K]

mutual
  /-- `expandSchema` / `expandSchemaRef`. Returns the expanded tree and the updated memo. -/
  def expand (W : World K L) (continueOnError : Bool) :
      (fuel : Nat) → (parents memo : List K) → Tree K L → Res K (Tree K L × List K)
    | 0, _, _, _ => .outOfFuel
    | fuel + 1, parents, memo, .ref k =>
        if k ∈ memo then .ok (.ref k, memo)
        else if k ∈ parents then .ok (.ref k, k :: memo)
        else match W k with
          | none => if continueOnError then .ok (.ref k, memo) else .err k
          | some t => expand W continueOnError fuel (parents ++ [k]) memo t
    | fuel + 1, parents, memo, .node l cs =>
        match expandList W continueOnError fuel parents memo cs with
        | .ok (cs', memo') => .ok (.node l cs', memo')
        | .err k => .err k
        | .outOfFuel => .outOfFuel
  /-- children left to right, memo threaded, first error aborts -/
  def expandList (W : World K L) (continueOnError : Bool) :
      (fuel : Nat) → (parents memo : List K) → List (Tree K L) → Res K (List (Tree K L) × List K)
    | 0, _, _, _ => .outOfFuel
    | _ + 1, _, memo, [] => .ok ([], memo)
    | fuel + 1, parents, memo, c :: cs =>
        match expand W continueOnError fuel parents memo c with
        | .ok (c', memo') =>
            (match expandList W continueOnError fuel parents memo' cs with
             | .ok (cs', memo'') => .ok (c' :: cs', memo'')
             | .err k => .err k
             | .outOfFuel => .outOfFuel)
        | .err k => .err k
        | .outOfFuel => .outOfFuel
end

end SpecModel.Expand
