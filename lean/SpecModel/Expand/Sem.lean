/-
M5 (core) — what a reference graph *means*. Specification side: nothing in this file mentions
`expand`/`expandList`; every definition is stated over `Tree`, `World` only.

  * `refsOf`, `size`                     — the `ref` leaves of a tree, a size measure
  * `Edge`, `Reach`, `OnCycle`, `ReachFrom`, `Acyclic`, `FiniteWorld`
                                         — the reference graph of a world
  * `Head`, `Sim`, `Equiv`               — the (possibly infinite) fully dereferenced tree denoted by a tree in
                                           a world, as a depth-indexed bisimulation (see the comment there)
  * `Exp`                                — "obtained by replacing some `ref k` leaves by an image of `W k`"
  * `fullExpand`                         — memo-free reference expander (plain substitution, fuel)
-/
import SpecModel.Expand.Core

namespace SpecModel.Expand

variable {K L : Type}

/-! ### Syntactic measures -/

mutual
  /-- all `ref` leaves, left to right -/
  def refsOf : Tree K L → List K
    | .ref k => [k]
    | .node _ cs => refsOfList cs
  def refsOfList : List (Tree K L) → List K
    | [] => []
    | c :: cs => refsOf c ++ refsOfList cs
end

mutual
  /-- number of constructors, list cells included (so that it bounds the fuel `expand` needs on a
  reference-free tree) -/
  def size : Tree K L → Nat
    | .ref _ => 1
    | .node _ cs => 1 + sizeList cs
  def sizeList : List (Tree K L) → Nat
    | [] => 1
    | c :: cs => 1 + size c + sizeList cs
end

/-! ### The reference graph -/

/-- `k'` occurs as a reference in the tree designated by `k` -/
def Edge (W : World K L) (k k' : K) : Prop := ∃ t, W k = some t ∧ k' ∈ refsOf t

/-- reflexive-transitive closure of `Edge` -/
inductive Reach (W : World K L) : K → K → Prop where
  | refl (k : K) : Reach W k k
  | tail {a b c : K} : Reach W a b → Edge W b c → Reach W a c

/-- transitive closure of `Edge`: at least one edge -/
def Reach1 (W : World K L) (a c : K) : Prop := ∃ b, Edge W a b ∧ Reach W b c

/-- `k` reaches itself by at least one edge -/
def OnCycle (W : World K L) (k : K) : Prop := Reach1 W k k

/-- `k` is reachable from a `ref` leaf of `t` -/
def ReachFrom (W : World K L) (t : Tree K L) (k : K) : Prop := ∃ k0, k0 ∈ refsOf t ∧ Reach W k0 k

def ReachFromList (W : World K L) (cs : List (Tree K L)) (k : K) : Prop :=
  ∃ k0, k0 ∈ refsOfList cs ∧ Reach W k0 k

/-- nothing reachable from `t` lies on a cycle -/
def Acyclic (W : World K L) (t : Tree K L) : Prop := ∀ k, ReachFrom W t k → ¬ OnCycle W k

def AcyclicList (W : World K L) (cs : List (Tree K L)) : Prop := ∀ k, ReachFromList W cs k → ¬ OnCycle W k

/-- The invariant of the stack of parents: every key on the stack reaches every reference of the tree
being processed by at least one edge. (Trivially true of the empty stack; implied by the more
operational `GenuineStack`.) -/
def StackInv (W : World K L) (p : List K) (t : Tree K L) : Prop :=
  ∀ q, q ∈ p → ∀ k, k ∈ refsOf t → Reach1 W q k

def StackInvList (W : World K L) (p : List K) (cs : List (Tree K L)) : Prop :=
  ∀ q, q ∈ p → ∀ k, k ∈ refsOfList cs → Reach1 W q k

/-- consecutive entries are linked by a path of at least one edge -/
def IsChain (W : World K L) : List K → Prop
  | [] => True
  | [_] => True
  | a :: b :: rest => Reach1 W a b ∧ IsChain W (b :: rest)

/-- a stack as the algorithm builds it: a chain whose last entry reaches every reference of `t` -/
def GenuineStack (W : World K L) (p : List K) (t : Tree K L) : Prop :=
  IsChain W p ∧ ∀ q, p.getLast? = some q → ∀ k, k ∈ refsOf t → Reach1 W q k

/-- `ks` lists every resolvable key -/
def FiniteWorld (W : World K L) (ks : List K) : Prop := ∀ k, W k ≠ none → k ∈ ks

/-- the largest tree of the world, over the keys `ks` -/
def maxSize (W : World K L) (ks : List K) : Nat :=
  (ks.map fun k => match W k with | none => 0 | some t => size t).foldr max 0

/-! ### Meaning

The meaning of `t` in `W` is the possibly infinite tree obtained by replacing, for ever, every `ref k`
by `W k` ("a `$ref` replaces its holder"). It is described without constructing it:

  * `Head W t u` — following references from `t` (zero or more hops, no node is entered) ends in `u`, where
    `u` is either a `node` (the root constructor of the meaning) or a dangling `ref k` (`W k = none`; the
    meaning is then the atom "unresolvable k"). `Head` is a partial function of `t`; it is undefined
    exactly when the chain of references from `t` never reaches a node (`ref a ↦ ref b ↦ ref a`), in which
    case the meaning is the atom "divergent".
  * `Sim W W' n t t'` — the meanings agree down to depth `n`: both divergent, or both heads exist, are
    the same dangling reference, or are nodes with the same label and children pairwise `Sim … (n-1)`.
  * `Equiv W t W' t' := ∀ n, Sim W W' n t t'` — equality of all finite approximations, which for finitely
    branching trees is equality (bisimilarity) of the infinite trees.

Why this rather than a function `unfold : depth → hops → Tree → Approx`: the functional version has to cut
reference chains by a hop budget, and then every statement carries "for budgets large enough" together
with a well-foundedness hypothesis to make the budget irrelevant. The relational head makes the hop count
existential, so reflexivity/symmetry/transitivity and `exp_equiv` hold for *every* world, including those with
pure reference cycles, and no well-foundedness hypothesis is needed anywhere. `Head` is still computable
with fuel (`head?` below, with `head?_sound`), which is what the examples use.
-/

/-- `Head W t u`: dereferencing `t` until something that is not a resolvable reference appears gives `u` -/
inductive Head (W : World K L) : Tree K L → Tree K L → Prop where
  | node (l : L) (cs : List (Tree K L)) : Head W (.node l cs) (.node l cs)
  | dangling {k : K} : W k = none → Head W (.ref k) (.ref k)
  | follow {k : K} {s u : Tree K L} : W k = some s → Head W s u → Head W (.ref k) u

/-- pointwise relation of two lists (same length, `R` at every index) -/
def All2 {α β : Type} (R : α → β → Prop) : List α → List β → Prop
  | [], [] => True
  | a :: as, b :: bs => R a b ∧ All2 R as bs
  | _, _ => False

/-- two heads agree, children compared by `R` -/
def HeadMatch (R : Tree K L → Tree K L → Prop) : Tree K L → Tree K L → Prop
  | .ref k, .ref k' => k = k'
  | .node l cs, .node l' cs' => l = l' ∧ All2 R cs cs'
  | _, _ => False

/-- agreement of the meanings of `t` in `W` and of `t'` in `W'` down to depth `n` -/
def Sim (W W' : World K L) : Nat → Tree K L → Tree K L → Prop
  | 0, _, _ => True
  | n + 1, t, t' =>
      (∀ u, Head W t u → ∃ u', Head W' t' u' ∧ HeadMatch (Sim W W' n) u u') ∧
      (∀ u', Head W' t' u' → ∃ u, Head W t u ∧ HeadMatch (Sim W W' n) u u')

/-- `t` read in `W` and `t'` read in `W'` denote the same fully dereferenced tree -/
def Equiv (W : World K L) (t : Tree K L) (W' : World K L) (t' : Tree K L) : Prop :=
  ∀ n, Sim W W' n t t'

/-- fuel-bounded head computation (used by examples; `head?_sound` ties it to `Head`) -/
def head? (W : World K L) : Nat → Tree K L → Option (Tree K L)
  | _, .node l cs => some (.node l cs)
  | 0, .ref _ => none
  | n + 1, .ref k => match W k with
      | none => some (.ref k)
      | some s => head? W n s

/-- every chain of references reaches a node or a dangling reference (not needed by the theorems of
this development; stated for reference, cf. `Head`) -/
def WellFoundedRefs (W : World K L) : Prop := ∀ t, ∃ u, Head W t u

/-! ### Partial expansion

`Exp W t t'`: `t'` is obtained from `t` by replacing some `ref k` leaves by an `Exp W`-image of `W k`
(source first, result second, like a rewriting relation). The `node` rule is written with `zip` so that
the relation is a plain (non-nested, non-mutual) inductive and `induction` applies; `Exp.node_iff` gives
the pointwise (`All2`) reading.
-/
inductive Exp (W : World K L) : Tree K L → Tree K L → Prop where
  | keep (k : K) : Exp W (.ref k) (.ref k)
  | follow {k : K} {s s' : Tree K L} : W k = some s → Exp W s s' → Exp W (.ref k) s'
  | node (l : L) {cs cs' : List (Tree K L)} : cs.length = cs'.length →
      (∀ p, p ∈ cs.zip cs' → Exp W p.1 p.2) → Exp W (.node l cs) (.node l cs')

/-- `W'` is `W` with some designated trees replaced by partial expansions of themselves -/
def WorldExp (W W' : World K L) : Prop :=
  ∀ k, (W k = none ∧ W' k = none) ∨ (∃ s s', W k = some s ∧ W' k = some s' ∧ Exp W s s')

/-! ### Reference expander

Plain substitution, no stack, no memo; an unresolvable reference stays verbatim. `none` = out of fuel
(which is what happens on a cyclic input for every fuel). -/
mutual
  def fullExpand (W : World K L) : Nat → Tree K L → Option (Tree K L)
    | 0, _ => none
    | n + 1, .ref k => match W k with
        | none => some (.ref k)
        | some t => fullExpand W n t
    | n + 1, .node l cs => match fullExpandList W n cs with
        | none => none
        | some cs' => some (.node l cs')
  def fullExpandList (W : World K L) : Nat → List (Tree K L) → Option (List (Tree K L))
    | 0, _ => none
    | _ + 1, [] => some []
    | n + 1, c :: cs => match fullExpand W n c with
        | none => none
        | some c' => match fullExpandList W n cs with
            | none => none
            | some cs' => some (c' :: cs')
end

/-- fuel-free reading of the reference expander: `t'` is the full substitution instance of `t` -/
def FullExpands (W : World K L) (t t' : Tree K L) : Prop := ∃ n, fullExpand W n t = some t'

end SpecModel.Expand
