/-
The executable checker that validates every expansion the REAL code performs (translation validation per run).

The harness abstracts the input documents and the output of `ExpandSpec` / `ExpandSchema…` into the abstract
reference graphs of `Expand/Core.lean` (keys = canonical target of a `$ref` as RFC 3986 + RFC 6901 read it from
the containing document, labels = everything of an element that is not a sub-element position) and hands both
to the compiled driver, which evaluates the definitions below.  Soundness is proved here:

  * `checkExp W n t t' = true → Exp W t t'`           (`t'` is a partial unfolding of `t`)
  * `checkWorld … = true → WorldExp W W'`              (the output document can stand in for the input document)
  * hence `Equiv W t W' t'` (`check_sound`, C02): same fully dereferenced tree, for every depth
  * `onCycleB W n k = true → OnCycle W k`              (a `$ref` that was kept closes a cycle of the INPUT, C03)
  * `checkSkip` = `checkExp` that additionally never follows a key of the given list (schemas in skip mode, C09)
-/
import SpecModel.Expand.Meaning

namespace SpecModel.Expand

variable {K L : Type} [DecidableEq K] [DecidableEq L]

/-! ### partial unfolding -/

mutual
  /-- `keep`: keys that must not be followed (empty for a full expansion) -/
  def checkExp (W : World K L) (keep : List K) : Nat → Tree K L → Tree K L → Bool
    | 0, _, _ => false
    | n + 1, .ref k, t' =>
        (match t' with
         | .ref k' => decide (k = k')
         | .node _ _ => false) ||
        (!(decide (k ∈ keep)) && match W k with
         | some s => checkExp W keep n s t'
         | none => false)
    | n + 1, .node l cs, .node l' cs' => decide (l = l') && checkExpList W keep n cs cs'
    | _ + 1, .node _ _, .ref _ => false
  def checkExpList (W : World K L) (keep : List K) : Nat → List (Tree K L) → List (Tree K L) → Bool
    | 0, _, _ => false
    | _ + 1, [], [] => true
    | n + 1, c :: cs, c' :: cs' => checkExp W keep n c c' && checkExpList W keep n cs cs'
    | _ + 1, _, _ => false
end

theorem checkExp_sound_both (W : World K L) (keep : List K) : ∀ n,
    (∀ t t', checkExp W keep n t t' = true → Exp W t t') ∧
    (∀ cs cs', checkExpList W keep n cs cs' = true → All2 (Exp W) cs cs') := by
  intro n
  induction n with
  | zero => exact ⟨fun _ _ h => by simp [checkExp] at h, fun _ _ h => by simp [checkExpList] at h⟩
  | succ n ih =>
    refine ⟨?_, ?_⟩
    · intro t t' h
      cases t with
      | ref k =>
        simp only [checkExp, Bool.or_eq_true, Bool.and_eq_true] at h
        rcases h with h | ⟨_, h⟩
        · cases t' with
          | ref k' => simp at h; subst h; exact .keep k
          | node l cs => simp at h
        · cases hk : W k with
          | none => simp [hk] at h
          | some s => simp [hk] at h; exact .follow hk (ih.1 s t' h)
      | node l cs =>
        cases t' with
        | ref k => simp [checkExp] at h
        | node l' cs' =>
          simp only [checkExp, Bool.and_eq_true, decide_eq_true_eq] at h
          obtain ⟨rfl, h⟩ := h
          exact Exp.node_iff.2 (ih.2 cs cs' h)
    · intro cs cs' h
      cases cs with
      | nil => cases cs' with
        | nil => simp [All2]
        | cons _ _ => simp [checkExpList] at h
      | cons c cs => cases cs' with
        | nil => simp [checkExpList] at h
        | cons c' cs' =>
          simp only [checkExpList, Bool.and_eq_true] at h
          simp only [All2]
          exact ⟨ih.1 c c' h.1, ih.2 cs cs' h.2⟩

theorem checkExp_sound {W : World K L} {keep : List K} {n : Nat} {t t' : Tree K L}
    (h : checkExp W keep n t t' = true) : Exp W t t' := (checkExp_sound_both W keep n).1 t t' h

/-- the skip-mode reading: a key of `keep` occurring as a reference leaf of the input is still a reference
leaf … this is what `checkExp` with a non-empty `keep` enforces on top of `Exp`: -/
theorem checkExp_keeps {W : World K L} {keep : List K} {n : Nat} {k : K} {t' : Tree K L}
    (hk : k ∈ keep) (h : checkExp W keep n (.ref k) t' = true) : t' = .ref k := by
  cases n with
  | zero => simp [checkExp] at h
  | succ n =>
    simp only [checkExp, Bool.or_eq_true, Bool.and_eq_true] at h
    rcases h with h | ⟨h, _⟩
    · cases t' with
      | ref k' => simp at h; subst h; rfl
      | node _ _ => simp at h
    · simp [hk] at h

/-! ### the output world -/

/-- for every listed key: missing in both worlds, or the new tree is a partial unfolding of the old one -/
def checkWorld (W W' : World K L) (n : Nat) (ks : List K) : Bool :=
  ks.all fun k =>
    match W k, W' k with
    | none, none => true
    | some s, some s' => checkExp W [] n s s'
    | _, _ => false

theorem checkWorld_sound {W W' : World K L} {n : Nat} {ks : List K}
    (h : checkWorld W W' n ks = true) (hout : ∀ k, k ∉ ks → W k = none ∧ W' k = none) : WorldExp W W' := by
  intro k
  by_cases hk : k ∈ ks
  · have := List.all_eq_true.mp h k hk
    cases h1 : W k with
    | none => cases h2 : W' k with
      | none => exact .inl ⟨rfl, rfl⟩
      | some s' => simp [h1, h2] at this
    | some s => cases h2 : W' k with
      | none => simp [h1, h2] at this
      | some s' =>
        simp [h1, h2] at this
        exact .inr ⟨s, s', rfl, rfl, checkExp_sound this⟩
  · exact .inl (hout k hk)

/-- **C02, per run.** If the checker accepts the abstracted input element `t`, output element `t'` and the two
worlds, then `t'` read in the output world denotes the same fully dereferenced tree as `t` in the input world. -/
theorem check_sound {W W' : World K L} {n m : Nat} {ks : List K} {t t' : Tree K L}
    (hw : checkWorld W W' n ks = true) (hout : ∀ k, k ∉ ks → W k = none ∧ W' k = none)
    (he : checkExp W [] m t t' = true) : Equiv W t W' t' :=
  fun d => exp_sim (checkWorld_sound hw hout) d t t' (checkExp_sound he)

/-! ### cycles -/

/-- worklist reachability: is `target` reachable (zero or more edges) from a key of the stack? -/
def reachW (W : World K L) (target : K) : Nat → List K → List K → Bool
  | 0, _, _ => false
  | _ + 1, _, [] => false
  | n + 1, vis, b :: rest =>
      if b = target then true
      else if b ∈ vis then reachW W target n vis rest
      else match W b with
        | none => reachW W target n (b :: vis) rest
        | some t => reachW W target n (b :: vis) (refsOf t ++ rest)

theorem reachW_sound {W : World K L} {target : K} (P : K → Prop) (hP : ∀ a b, P a → Edge W a b → P b) :
    ∀ n vis stack, (∀ b ∈ stack, P b) → reachW W target n vis stack = true → P target := by
  intro n
  induction n with
  | zero => intro _ _ _ h; simp [reachW] at h
  | succ n ih =>
    intro vis stack hs h
    cases stack with
    | nil => simp [reachW] at h
    | cons b rest =>
      simp only [reachW] at h
      split at h
      · rename_i hb; subst hb; exact hs b (List.mem_cons_self ..)
      · split at h
        · exact ih vis rest (fun x hx => hs x (List.mem_cons_of_mem _ hx)) h
        · cases hb : W b with
          | none => simp [hb] at h; exact ih _ rest (fun x hx => hs x (List.mem_cons_of_mem _ hx)) h
          | some t =>
            simp [hb] at h
            refine ih _ _ ?_ h
            intro x hx
            rcases List.mem_append.mp hx with hx | hx
            · exact hP b x (hs b (List.mem_cons_self ..)) ⟨t, hb, hx⟩
            · exact hs x (List.mem_cons_of_mem _ hx)

/-- `k` reaches itself by at least one edge -/
def onCycleB (W : World K L) (n : Nat) (k : K) : Bool :=
  match W k with
  | none => false
  | some t => reachW W k n [] (refsOf t)

theorem onCycleB_sound {W : World K L} {n : Nat} {k : K} (h : onCycleB W n k = true) : OnCycle W k := by
  unfold onCycleB at h
  cases hk : W k with
  | none => simp [hk] at h
  | some t =>
    simp [hk] at h
    -- P x := x is reachable from k by at least one edge
    refine reachW_sound (fun x => Reach1 W k x) ?_ n [] (refsOf t) ?_ h
    · intro a b ⟨c, hc, hr⟩ hab
      exact ⟨c, hc, .tail hr hab⟩
    · intro b hb
      exact ⟨b, ⟨t, hk, hb⟩, .refl b⟩

/-- all reference leaves of the output are resolvable in the input world and lie on a cycle of it -/
def checkCuts (W : World K L) (n : Nat) (t' : Tree K L) : Bool :=
  (refsOf t').all fun k => (W k).isSome && onCycleB W n k

/-- **C03, per run.** -/
theorem checkCuts_sound {W : World K L} {n : Nat} {t' : Tree K L} (h : checkCuts W n t' = true) :
    ∀ k, k ∈ refsOf t' → W k ≠ none ∧ OnCycle W k := by
  intro k hk
  have := List.all_eq_true.mp h k hk
  simp only [Bool.and_eq_true] at this
  exact ⟨by intro h0; simp [h0] at this, onCycleB_sound this.2⟩

/-- continue-on-error: a kept reference is dangling, or on a cycle -/
def checkCutsOrDangling (W : World K L) (n : Nat) (t' : Tree K L) : Bool :=
  (refsOf t').all fun k => (W k).isNone || onCycleB W n k

theorem checkCutsOrDangling_sound {W : World K L} {n : Nat} {t' : Tree K L}
    (h : checkCutsOrDangling W n t' = true) : ∀ k, k ∈ refsOf t' → W k = none ∨ OnCycle W k := by
  intro k hk
  have := List.all_eq_true.mp h k hk
  simp only [Bool.or_eq_true] at this
  rcases this with h1 | h1
  · exact .inl (by simpa using h1)
  · exact .inr (onCycleB_sound h1)

end SpecModel.Expand
