/-
Side conditions that tie the abstract expander (`Expand/Core.lean`: "children = the sub-element positions, every
error either stops the expansion or is returned") to the shape of expander.go, over facts REGENERATED from
/repo's working tree (`Generated/ExpandFacts.lean`, go/ast) and the regenerated struct tables.
-/
import SpecModel.Codec.Types
import SpecModel.Generated.Tables
import SpecModel.Generated.ExpandFacts

namespace SpecModel.Expand.Side
open SpecModel.Codec SpecModel

/-- does a value of this field type hold sub-schemas? -/
def holdsSchemas : FT → Bool
  | .ptrKind k | .valKind k | .listKind k | .mapKind k => k == "schema"
  | .ptrNamed n | .mapNamed n | .named n =>
      n == "SchemaOrBool" || n == "SchemaOrArray" || n == "SchemaOrStringArray" || n == "SchemaProperties"
  | _ => false

def insertSorted (a : String) : List String → List String
  | [] => [a]
  | b :: rest => if a < b then a :: b :: rest else b :: insertSorted a rest

def sortStrings (l : List String) : List String := l.foldr insertSorted []

/-- Go names of the schema-typed fields of the schema struct tables, sorted -/
def schemaPositions (structs : List (String × List Field)) : List String :=
  sortStrings (((lookupStruct structs "SchemaProps") ++ (lookupStruct structs "SwaggerSchemaProps")).filter
    (fun f => !f.skip && holdsSchemas f.ft) |>.map (·.goName))

/-- **every keyword that can hold a sub-schema is a position expandSchema recurses into, and conversely** -/
def positionsComplete (structs : List (String × List Field)) (positions : List String) : Bool :=
  schemaPositions structs == positions

/-- no error of a recursive call is dropped: each is tested by `shouldStopOnError` or returned as is -/
def errorsPropagated (sites : List (String × String × String)) : Bool :=
  !sites.isEmpty && sites.all fun (_, _, how) => how == "stop" || how == "return"

/-- `ExpandSpec` walks definitions, parameters, responses and paths -/
def sectionsComplete (sections : List String) : Bool :=
  sections == ["Definitions", "Parameters", "Responses", "Paths.Paths"]

/-- `expandPathItem` hands every operation field of a path item to `expandOperation` -/
def operationsComplete (ops fields : List String) : Bool := ops == fields && !ops.isEmpty

end SpecModel.Expand.Side
