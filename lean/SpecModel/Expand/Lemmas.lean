/-
Helper lemmas for the abstract expansion core (`SpecModel.Expand.Core`) against the specification-side
definitions of `SpecModel.Expand.Sem`. Property theorems live in `SpecModel.Props.ExpandCore`.

  * graph basics (`Reach`, `Reach1`, `ReachFrom`), `acyclic_of_rank` (a checkable criterion for examples)
  * `expand_ok_induction` — rule induction over successful runs; every `…_both` invariant below is an instance
  * `fuel_mono_both`, `unfollowed` (the termination variant), `terminates_both`, `stackDepth(_both)`
  * `memo_grows_both`, `kept_reach_both`, `kept_on_cycle_both`, `acyclic_both`, `fullExpand_mono_both`
  * `visit_both`/`visited_reach` — the set of followed keys is closed under edges (C08 completeness)
  * `err_sound_both`
All statements about `expand`/`expandList` are proved for both functions at once, by induction on the fuel.
-/
import SpecModel.Expand.Sem

namespace SpecModel.Expand

variable {K L : Type} [DecidableEq K]

/-! ### Syntax and graph basics -/

omit [DecidableEq K] in
theorem mem_refsOfList {k : K} {cs : List (Tree K L)} :
    k ∈ refsOfList cs ↔ ∃ c, c ∈ cs ∧ k ∈ refsOf c := by
  induction cs with
  | nil => simp [refsOfList]
  | cons c cs ih => simp [refsOfList, ih]

omit [DecidableEq K] in
@[simp] theorem refsOf_ref (k : K) : refsOf (Tree.ref k : Tree K L) = [k] := by simp [refsOf]

omit [DecidableEq K] in
@[simp] theorem refsOf_node (l : L) (cs : List (Tree K L)) : refsOf (Tree.node l cs) = refsOfList cs := by
  simp [refsOf]

omit [DecidableEq K] in
theorem size_pos (t : Tree K L) : 0 < size t := by cases t <;> simp [size] <;> omega

omit [DecidableEq K] in
theorem sizeList_pos (cs : List (Tree K L)) : 0 < sizeList cs := by cases cs <;> simp [sizeList] <;> omega

section graph
variable {W : World K L}
omit [DecidableEq K]

theorem Reach.trans {a b c : K} (h1 : Reach W a b) (h2 : Reach W b c) : Reach W a c := by
  induction h2 with
  | refl => exact h1
  | tail _ e ih => exact .tail ih e

theorem Reach.single {a b : K} (e : Edge W a b) : Reach W a b := .tail (.refl a) e

theorem Reach.head {a b c : K} (e : Edge W a b) (h : Reach W b c) : Reach W a c :=
  (Reach.single e).trans h

theorem Reach1.of_edge {a b : K} (e : Edge W a b) : Reach1 W a b := ⟨b, e, .refl b⟩

theorem Reach1.reach {a b c : K} (h : Reach1 W a b) (h2 : Reach W b c) : Reach1 W a c := by
  obtain ⟨x, e, r⟩ := h; exact ⟨x, e, r.trans h2⟩

theorem Reach1.edge {a b c : K} (h : Reach1 W a b) (e : Edge W b c) : Reach1 W a c :=
  h.reach (.single e)

theorem Reach1.toReach {a b : K} (h : Reach1 W a b) : Reach W a b := by
  obtain ⟨x, e, r⟩ := h; exact Reach.head e r

theorem Reach.reach1 {a b c : K} (h : Reach W a b) (h2 : Reach1 W b c) : Reach1 W a c := by
  induction h with
  | refl => exact h2
  | tail r e ih => exact ih ⟨_, e, h2.toReach⟩

/-- a key on a cycle is resolvable -/
theorem OnCycle.resolvable {k : K} (h : OnCycle W k) : W k ≠ none := by
  obtain ⟨_, ⟨t, ht, _⟩, _⟩ := h; simp [ht]

theorem edge_of_mem {k k' : K} {t : Tree K L} (h : W k = some t) (hk : k' ∈ refsOf t) : Edge W k k' :=
  ⟨t, h, hk⟩

theorem reachFrom_ref {k k' : K} : ReachFrom W (Tree.ref k : Tree K L) k' ↔ Reach W k k' := by
  simp [ReachFrom]

theorem reachFrom_node {l : L} {cs : List (Tree K L)} {k : K} :
    ReachFrom W (Tree.node l cs) k ↔ ReachFromList W cs k := by
  simp [ReachFrom, ReachFromList]

theorem reachFromList_cons {c : Tree K L} {cs : List (Tree K L)} {k : K} :
    ReachFromList W (c :: cs) k ↔ ReachFrom W c k ∨ ReachFromList W cs k := by
  simp only [ReachFromList, ReachFrom, refsOfList, List.mem_append]
  constructor
  · rintro ⟨k0, h | h, r⟩
    · exact .inl ⟨k0, h, r⟩
    · exact .inr ⟨k0, h, r⟩
  · rintro (⟨k0, h, r⟩ | ⟨k0, h, r⟩)
    · exact ⟨k0, .inl h, r⟩
    · exact ⟨k0, .inr h, r⟩

/-- following a reference: what is reachable from the target is reachable from the reference -/
theorem reachFrom_follow {k k' : K} {s : Tree K L} (h : W k = some s) (hr : ReachFrom W s k') :
    ReachFrom W (Tree.ref k : Tree K L) k' := by
  obtain ⟨k0, hk0, r⟩ := hr
  exact reachFrom_ref.2 (Reach.head ⟨s, h, hk0⟩ r)

/-- A sufficient condition for `Acyclic` that is easy to check on a concrete world: a set `S` closed under
edges, containing the references of `t`, on which some rank strictly decreases along every edge. -/
theorem acyclic_of_rank {t : Tree K L} (S : K → Prop) (rank : K → Nat)
    (hS : ∀ k, k ∈ refsOf t → S k)
    (hcl : ∀ k k', S k → Edge W k k' → S k' ∧ rank k' < rank k) : Acyclic W t := by
  have hr : ∀ a b, Reach W a b → S a → S b ∧ rank b ≤ rank a := by
    intro a b r ha
    induction r with
    | refl => exact ⟨ha, Nat.le_refl _⟩
    | tail _ e ih => have := hcl _ _ ih.1 e; exact ⟨this.1, by omega⟩
  intro k ⟨k0, hk0, r0⟩ ⟨b, e, r⟩
  have hk := (hr _ _ r0 (hS k0 hk0)).1
  have h1 := hcl _ _ hk e
  have h2 := hr _ _ r h1.1
  omega

end graph

/-! ### One induction principle for all statements about successful runs -/

/-- Rule induction over the successful runs of `expand`/`expandList`: one case per `ok`-returning branch
of the definition. The fuel is exposed because some statements (`fullExpand`) need it. -/
theorem expand_ok_induction (W : World K L) (c : Bool)
    {P : Nat → List K → List K → Tree K L → Tree K L → List K → Prop}
    {Q : Nat → List K → List K → List (Tree K L) → List (Tree K L) → List K → Prop}
    (hmemo : ∀ n p m k, k ∈ m → P (n+1) p m (.ref k) (.ref k) m)
    (hstack : ∀ n p m k, k ∉ m → k ∈ p → P (n+1) p m (.ref k) (.ref k) (k :: m))
    (hdangling : ∀ n p m k, k ∉ m → k ∉ p → W k = none → c = true → P (n+1) p m (.ref k) (.ref k) m)
    (hfollow : ∀ n p m k s s' m', k ∉ m → k ∉ p → W k = some s →
      expand W c n (p ++ [k]) m s = .ok (s', m') →
      P n (p ++ [k]) m s s' m' → P (n+1) p m (.ref k) s' m')
    (hnode : ∀ n p m l cs cs' m', expandList W c n p m cs = .ok (cs', m') →
      Q n p m cs cs' m' → P (n+1) p m (.node l cs) (.node l cs') m')
    (hnil : ∀ n p m, Q (n+1) p m [] [] m)
    (hcons : ∀ n p m c0 cs c' cs' m1 m2, expand W c n p m c0 = .ok (c', m1) →
      expandList W c n p m1 cs = .ok (cs', m2) →
      P n p m c0 c' m1 → Q n p m1 cs cs' m2 → Q (n+1) p m (c0 :: cs) (c' :: cs') m2) :
    ∀ n, (∀ p m t t' m', expand W c n p m t = .ok (t', m') → P n p m t t' m') ∧
         (∀ p m cs cs' m', expandList W c n p m cs = .ok (cs', m') → Q n p m cs cs' m') := by
  intro n
  induction n with
  | zero => constructor <;> intros <;> simp_all [expand, expandList]
  | succ n ih =>
    obtain ⟨ihP, ihQ⟩ := ih
    constructor
    · intro p m t t' m' h
      cases t with
      | ref k =>
        simp only [expand] at h
        split at h
        · cases h; exact hmemo n p m k ‹_›
        · split at h
          · cases h; exact hstack n p m k ‹_› ‹_›
          · split at h
            · split at h
              · cases h; exact hdangling n p m k ‹_› ‹_› ‹_› ‹_›
              · cases h
            · exact hfollow n p m k _ _ _ ‹_› ‹_› ‹_› h (ihP _ _ _ _ _ h)
      | node l cs =>
        simp only [expand] at h
        split at h
        · rename_i cs' m'' hl
          cases h
          exact hnode n p m l cs _ _ hl (ihQ _ _ _ _ _ hl)
        · cases h
        · cases h
    · intro p m cs cs' m' h
      cases cs with
      | nil => simp only [expandList] at h; cases h; exact hnil n p m
      | cons c0 cs =>
        simp only [expandList] at h
        split at h
        · rename_i c' m1 h1
          split at h
          · rename_i cs'' m2 h2
            cases h
            exact hcons n p m c0 cs _ _ _ _ h1 h2 (ihP _ _ _ _ _ h1) (ihQ _ _ _ _ _ h2)
          · cases h
          · cases h
        · cases h
        · cases h

/-! ### Fuel -/

/-- More fuel does not change a result that is not `outOfFuel` (both functions at once). -/
theorem fuel_mono_both (W : World K L) (c : Bool) (d : Nat) :
    ∀ n, (∀ p m t r, expand W c n p m t = r → r ≠ .outOfFuel → expand W c (n + d) p m t = r) ∧
         (∀ p m cs r, expandList W c n p m cs = r → r ≠ .outOfFuel → expandList W c (n + d) p m cs = r) := by
  intro n
  induction n with
  | zero => constructor <;> intro p m t r h hr <;> simp [expand, expandList] at h <;> exact absurd h.symm hr
  | succ n ih =>
    obtain ⟨ihP, ihQ⟩ := ih
    have e : n + 1 + d = (n + d) + 1 := by omega
    constructor
    · intro p m t r h hr
      rw [e]
      cases t with
      | ref k =>
        simp only [expand] at h ⊢
        split
        · simpa [*] using h
        · split
          · simpa [*] using h
          · split
            · simpa [*] using h
            · rename_i s hs
              simp only [*, if_false] at h
              exact ihP _ _ _ _ h hr
      | node l cs =>
        simp only [expand] at h ⊢
        cases hl : expandList W c n p m cs with
        | outOfFuel => rw [hl] at h; exact absurd h.symm hr
        | ok a => rw [ihQ _ _ _ _ hl (by simp)]; rw [hl] at h; exact h
        | err k => rw [ihQ _ _ _ _ hl (by simp)]; rw [hl] at h; exact h
    · intro p m cs r h hr
      rw [e]
      cases cs with
      | nil => simpa [expandList] using h
      | cons c0 cs =>
        simp only [expandList] at h ⊢
        cases h1 : expand W c n p m c0 with
        | outOfFuel => rw [h1] at h; exact absurd h.symm hr
        | err k => rw [ihP _ _ _ _ h1 (by simp)]; rw [h1] at h; exact h
        | ok a =>
          obtain ⟨c', m1⟩ := a
          rw [ihP _ _ _ _ h1 (by simp)]; rw [h1] at h
          simp only at h ⊢
          cases h2 : expandList W c n p m1 cs with
          | outOfFuel => rw [h2] at h; exact absurd h.symm hr
          | err k => rw [ihQ _ _ _ _ h2 (by simp)]; rw [h2] at h; exact h
          | ok b => rw [ihQ _ _ _ _ h2 (by simp)]; rw [h2] at h; exact h

/-! ### Termination variant -/

/-- number of keys of `ks` (with multiplicity) that are not on the stack -/
def unfollowed (ks p : List K) : Nat := (ks.filter fun x => decide (x ∉ p)).length

theorem unfollowed_le (ks p : List K) : unfollowed ks p ≤ ks.length := List.length_filter_le _ _

omit [DecidableEq K] in
theorem filter_length_le {f g : K → Bool} (h : ∀ x, f x = true → g x = true) (ks : List K) :
    (ks.filter f).length ≤ (ks.filter g).length := by
  induction ks with
  | nil => simp
  | cons x ks ih =>
    simp only [List.filter_cons]
    cases hf : f x <;> cases hg : g x <;> simp <;> first | omega | (have := h x hf; simp_all)

omit [DecidableEq K] in
theorem filter_length_lt {f g : K → Bool} (h : ∀ x, f x = true → g x = true) {ks : List K} {k : K}
    (hk : k ∈ ks) (hf : f k = false) (hg : g k = true) :
    (ks.filter f).length < (ks.filter g).length := by
  induction ks with
  | nil => simp at hk
  | cons x ks ih =>
    have hle := filter_length_le h ks
    simp only [List.filter_cons]
    rcases List.mem_cons.1 hk with rfl | hk'
    · simp [hf, hg]; omega
    · have := ih hk'
      cases hf' : f x <;> cases hg' : g x <;> simp <;> first | omega | (have := h x hf'; simp_all)

/-- pushing a fresh key of `ks` strictly decreases the variant -/
theorem unfollowed_push_lt {ks p : List K} {k : K} (hk : k ∈ ks) (hp : k ∉ p) :
    unfollowed ks (p ++ [k]) < unfollowed ks p := by
  apply filter_length_lt _ hk
  · simp
  · simpa using hp
  · intro x; simp; intro h _; exact h

omit [DecidableEq K] in
theorem size_le_maxSize {W : World K L} {ks : List K} {k : K} {t : Tree K L} (hk : k ∈ ks)
    (ht : W k = some t) : size t ≤ maxSize W ks := by
  induction ks with
  | nil => simp at hk
  | cons x ks ih =>
    simp only [maxSize, List.map_cons, List.foldr_cons] at ih ⊢
    rcases List.mem_cons.1 hk with rfl | h
    · simp [ht]; omega
    · have := ih h; omega

/-- The termination proof: fuel `size t + (unfollowed keys) * (largest tree)` suffices. -/
theorem terminates_both {W : World K L} {ks : List K} (hW : FiniteWorld W ks) (c : Bool) :
    ∀ n, (∀ p m t, size t + unfollowed ks p * maxSize W ks ≤ n → expand W c n p m t ≠ .outOfFuel) ∧
         (∀ p m cs, sizeList cs + unfollowed ks p * maxSize W ks ≤ n →
            expandList W c n p m cs ≠ .outOfFuel) := by
  intro n
  induction n with
  | zero =>
    constructor
    · intro p m t h; have := size_pos t; omega
    · intro p m cs h; have := sizeList_pos cs; omega
  | succ n ih =>
    obtain ⟨ihP, ihQ⟩ := ih
    constructor
    · intro p m t h
      cases t with
      | ref k =>
        simp only [expand]
        split
        · simp
        · split
          · simp
          · split
            · split <;> simp
            · rename_i s hs
              have hp : k ∉ p := by assumption
              have hk : k ∈ ks := hW k (by simp [hs])
              have h1 := unfollowed_push_lt hk hp
              have h2 := size_le_maxSize hk hs
              have h3 : (unfollowed ks (p ++ [k]) + 1) * maxSize W ks ≤ unfollowed ks p * maxSize W ks :=
                Nat.mul_le_mul_right _ h1
              rw [Nat.add_mul] at h3
              simp only [size] at h
              exact ihP _ _ _ (by omega)
      | node l cs =>
        simp only [expand]
        simp only [size] at h
        have := ihQ p m cs (by omega)
        split <;> simp_all
    · intro p m cs h
      cases cs with
      | nil => simp [expandList]
      | cons c0 cs =>
        simp only [expandList]
        simp only [sizeList] at h
        have h1 := ihP p m c0 (by omega)
        split
        · rename_i c' m1 _
          have h2 := ihQ p m1 cs (by omega)
          split <;> simp_all
        · simp
        · simp_all

/-! ### Stack depth

`stackDepth` follows the control flow of `expand`/`expandList` exactly (same tests, memo threaded through the
siblings by the results of `expand` itself) and returns the largest `parents.length` over all the calls made,
the initial one included. -/
mutual
  def stackDepth (W : World K L) (c : Bool) : Nat → List K → List K → Tree K L → Nat
    | 0, p, _, _ => p.length
    | n + 1, p, m, .ref k =>
        if k ∈ m then p.length
        else if k ∈ p then p.length
        else match W k with
          | none => p.length
          | some t => max p.length (stackDepth W c n (p ++ [k]) m t)
    | n + 1, p, m, .node _ cs => max p.length (stackDepthList W c n p m cs)
  def stackDepthList (W : World K L) (c : Bool) : Nat → List K → List K → List (Tree K L) → Nat
    | 0, p, _, _ => p.length
    | _ + 1, p, _, [] => p.length
    | n + 1, p, m, c0 :: cs =>
        max (stackDepth W c n p m c0)
          (match expand W c n p m c0 with
           | .ok (_, m') => stackDepthList W c n p m' cs
           | _ => p.length)
end

theorem stackDepth_both {W : World K L} {ks : List K} (hW : FiniteWorld W ks) (c : Bool) :
    ∀ n, (∀ p m t, stackDepth W c n p m t ≤ p.length + unfollowed ks p) ∧
         (∀ p m cs, stackDepthList W c n p m cs ≤ p.length + unfollowed ks p) := by
  intro n
  induction n with
  | zero => constructor <;> intros <;> simp [stackDepth, stackDepthList]
  | succ n ih =>
    obtain ⟨ihP, ihQ⟩ := ih
    constructor
    · intro p m t
      cases t with
      | ref k =>
        simp only [stackDepth]
        split
        · omega
        · split
          · omega
          · split
            · omega
            · rename_i s hs
              have hp : k ∉ p := by assumption
              have hk : k ∈ ks := hW k (by simp [hs])
              have h1 := unfollowed_push_lt hk hp
              have h2 := ihP (p ++ [k]) m s
              simp only [List.length_append, List.length_singleton] at h2
              omega
      | node l cs =>
        simp only [stackDepth]
        have := ihQ p m cs
        omega
    · intro p m cs
      cases cs with
      | nil => simp [stackDepthList]
      | cons c0 cs =>
        simp only [stackDepthList]
        have h1 := ihP p m c0
        split
        · rename_i m' _
          have := ihQ p m' cs
          omega
        · omega

/-! ### Invariants of successful runs -/

section inv
variable {W : World K L} {c : Bool}

omit [DecidableEq K] in
theorem stackInv_nil (t : Tree K L) : StackInv W [] t := by intro q hq; simp at hq

omit [DecidableEq K] in
theorem isChain_reach_last {p : List K} (hc : IsChain W p) {q l : K} (hq : q ∈ p)
    (hl : p.getLast? = some l) : Reach W q l := by
  induction p generalizing q with
  | nil => simp at hq
  | cons a rest ih =>
    cases rest with
    | nil => simp at hq hl; subst hq hl; exact .refl _
    | cons b rest =>
      have hl' : (b :: rest).getLast? = some l := by simpa [List.getLast?_cons_cons] using hl
      rcases List.mem_cons.1 hq with rfl | hq'
      · exact hc.1.toReach.trans (ih hc.2 (List.mem_cons_self) hl')
      · exact ih hc.2 hq' hl'

omit [DecidableEq K] in
/-- the operational description of the stack implies the invariant the proofs use -/
theorem GenuineStack.stackInv {p : List K} {t : Tree K L} (h : GenuineStack W p t) : StackInv W p t := by
  intro q hq k hk
  cases hl : p.getLast? with
  | none => simp [List.getLast?_eq_none_iff] at hl; subst hl; simp at hq
  | some l => exact (isChain_reach_last h.1 hq hl).reach1 (h.2 l hl k hk)

omit [DecidableEq K] in
theorem StackInv.follow {p : List K} {k : K} {s : Tree K L} (h : StackInv W p (.ref k))
    (hs : W k = some s) : StackInv W (p ++ [k]) s := by
  intro q hq k' hk'
  have e : Edge W k k' := ⟨s, hs, hk'⟩
  rcases List.mem_append.1 hq with hq | hq
  · exact (h q hq k (by simp)).edge e
  · simp at hq; subst hq; exact .of_edge e

theorem memo_grows_both (W : World K L) (c : Bool) : ∀ n,
    (∀ p m t t' m', expand W c n p m t = .ok (t', m') → ∀ k, k ∈ m → k ∈ m') ∧
    (∀ p m cs cs' m', expandList W c n p m cs = .ok (cs', m') → ∀ k, k ∈ m → k ∈ m') := by
  apply expand_ok_induction W c (P := fun _ _ m _ _ m' => ∀ k, k ∈ m → k ∈ m')
    (Q := fun _ _ m _ _ m' => ∀ k, k ∈ m → k ∈ m')
  case hmemo => intros; assumption
  case hstack => intro n p m k _ _ k' h; exact List.mem_cons_of_mem _ h
  case hdangling => intros; assumption
  case hfollow => intro n p m k s s' m' _ _ _ _ ih; exact ih
  case hnode => intro n p m l cs cs' m' _ ih; exact ih
  case hnil => intros; assumption
  case hcons => intro n p m c0 cs c' cs' m1 m2 _ _ ih1 ih2 k hk; exact ih2 k (ih1 k hk)

/-- whatever is added to the memo or left in the output is reachable from the input -/
theorem kept_reach_both (W : World K L) (c : Bool) : ∀ n,
    (∀ p m t t' m', expand W c n p m t = .ok (t', m') →
      (∀ k, k ∈ m' → k ∈ m ∨ ReachFrom W t k) ∧ (∀ k, k ∈ refsOf t' → ReachFrom W t k)) ∧
    (∀ p m cs cs' m', expandList W c n p m cs = .ok (cs', m') →
      (∀ k, k ∈ m' → k ∈ m ∨ ReachFromList W cs k) ∧ (∀ k, k ∈ refsOfList cs' → ReachFromList W cs k)) := by
  apply expand_ok_induction W c
    (P := fun _ _ m t t' m' =>
      (∀ k, k ∈ m' → k ∈ m ∨ ReachFrom W t k) ∧ (∀ k, k ∈ refsOf t' → ReachFrom W t k))
    (Q := fun _ _ m cs cs' m' =>
      (∀ k, k ∈ m' → k ∈ m ∨ ReachFromList W cs k) ∧ (∀ k, k ∈ refsOfList cs' → ReachFromList W cs k))
  case hmemo =>
    intro n p m k _
    exact ⟨fun k' h => .inl h, fun k' h => by simp at h; subst h; exact reachFrom_ref.2 (.refl _)⟩
  case hstack =>
    intro n p m k _ _
    refine ⟨fun k' h => ?_, fun k' h => by simp at h; subst h; exact reachFrom_ref.2 (.refl _)⟩
    rcases List.mem_cons.1 h with rfl | h
    · exact .inr (reachFrom_ref.2 (.refl _))
    · exact .inl h
  case hdangling =>
    intro n p m k _ _ _ _
    exact ⟨fun k' h => .inl h, fun k' h => by simp at h; subst h; exact reachFrom_ref.2 (.refl _)⟩
  case hfollow =>
    intro n p m k s s' m' _ _ hs _ ih
    exact ⟨fun k' h => (ih.1 k' h).imp id (reachFrom_follow hs), fun k' h => reachFrom_follow hs (ih.2 k' h)⟩
  case hnode =>
    intro n p m l cs cs' m' _ ih
    exact ⟨fun k' h => (ih.1 k' h).imp id reachFrom_node.2, fun k' h => reachFrom_node.2 (ih.2 k' (by simpa using h))⟩
  case hnil =>
    intro n p m
    exact ⟨fun k' h => .inl h, fun k' h => by simp [refsOfList] at h⟩
  case hcons =>
    intro n p m c0 cs c' cs' m1 m2 _ _ ih1 ih2
    constructor
    · intro k hk
      rcases ih2.1 k hk with h | h
      · exact (ih1.1 k h).imp id (fun h => reachFromList_cons.2 (.inl h))
      · exact .inr (reachFromList_cons.2 (.inr h))
    · intro k hk
      simp only [refsOfList, List.mem_append] at hk
      rcases hk with h | h
      · exact reachFromList_cons.2 (.inl (ih1.2 k h))
      · exact reachFromList_cons.2 (.inr (ih2.2 k h))

/-- C03 core: the memo only ever holds keys on a cycle; a reference left in the output is on a cycle or,
in continue mode, unresolvable. -/
theorem kept_on_cycle_both (W : World K L) (c : Bool) : ∀ n,
    (∀ p m t t' m', expand W c n p m t = .ok (t', m') → StackInv W p t → (∀ k, k ∈ m → OnCycle W k) →
      (∀ k, k ∈ m' → OnCycle W k) ∧ (∀ k, k ∈ refsOf t' → OnCycle W k ∨ (c = true ∧ W k = none))) ∧
    (∀ p m cs cs' m', expandList W c n p m cs = .ok (cs', m') → StackInvList W p cs →
      (∀ k, k ∈ m → OnCycle W k) →
      (∀ k, k ∈ m' → OnCycle W k) ∧ (∀ k, k ∈ refsOfList cs' → OnCycle W k ∨ (c = true ∧ W k = none))) := by
  apply expand_ok_induction W c
    (P := fun _ p m t t' m' => StackInv W p t → (∀ k, k ∈ m → OnCycle W k) →
      (∀ k, k ∈ m' → OnCycle W k) ∧ (∀ k, k ∈ refsOf t' → OnCycle W k ∨ (c = true ∧ W k = none)))
    (Q := fun _ p m cs cs' m' => StackInvList W p cs → (∀ k, k ∈ m → OnCycle W k) →
      (∀ k, k ∈ m' → OnCycle W k) ∧ (∀ k, k ∈ refsOfList cs' → OnCycle W k ∨ (c = true ∧ W k = none)))
  case hmemo =>
    intro n p m k hk _ hm
    exact ⟨hm, fun k' h => by simp at h; subst h; exact .inl (hm _ hk)⟩
  case hstack =>
    intro n p m k _ hk hs hm
    have hc : OnCycle W k := hs k hk k (by simp)
    refine ⟨fun k' h => ?_, fun k' h => by simp at h; subst h; exact .inl hc⟩
    rcases List.mem_cons.1 h with rfl | h
    · exact hc
    · exact hm _ h
  case hdangling =>
    intro n p m k _ _ hW hc _ hm
    exact ⟨hm, fun k' h => by simp at h; subst h; exact .inr ⟨hc, hW⟩⟩
  case hfollow =>
    intro n p m k s s' m' _ _ hs _ ih hst hm
    exact ih (hst.follow hs) hm
  case hnode =>
    intro n p m l cs cs' m' _ ih hst hm
    have := ih (fun q hq k hk => hst q hq k (by simpa using hk)) hm
    exact ⟨this.1, fun k hk => this.2 k (by simpa using hk)⟩
  case hnil =>
    intro n p m _ hm
    exact ⟨hm, fun k h => by simp [refsOfList] at h⟩
  case hcons =>
    intro n p m c0 cs c' cs' m1 m2 _ _ ih1 ih2 hst hm
    have h1 := ih1 (fun q hq k hk => hst q hq k (by simp [refsOfList, hk])) hm
    have h2 := ih2 (fun q hq k hk => hst q hq k (by simp [refsOfList, hk])) h1.1
    refine ⟨h2.1, fun k hk => ?_⟩
    simp only [refsOfList, List.mem_append] at hk
    rcases hk with h | h
    · exact h1.2 k h
    · exact h2.2 k h

omit [DecidableEq K] in
theorem Acyclic.follow {k : K} {s : Tree K L} (h : Acyclic W (.ref k)) (hs : W k = some s) : Acyclic W s :=
  fun k' hr => h k' (reachFrom_follow hs hr)

/-- On an acyclic input nothing is ever kept: the memo is untouched and the output is the plain
substitution `fullExpand` (same fuel), whatever the stack and the (sound) memo. -/
theorem acyclic_both (W : World K L) (c : Bool) : ∀ n,
    (∀ p m t t' m', expand W c n p m t = .ok (t', m') → StackInv W p t → (∀ k, k ∈ m → OnCycle W k) →
      Acyclic W t → m' = m ∧ fullExpand W n t = some t') ∧
    (∀ p m cs cs' m', expandList W c n p m cs = .ok (cs', m') → StackInvList W p cs →
      (∀ k, k ∈ m → OnCycle W k) → AcyclicList W cs → m' = m ∧ fullExpandList W n cs = some cs') := by
  apply expand_ok_induction W c
    (P := fun n p m t t' m' => StackInv W p t → (∀ k, k ∈ m → OnCycle W k) →
      Acyclic W t → m' = m ∧ fullExpand W n t = some t')
    (Q := fun n p m cs cs' m' => StackInvList W p cs → (∀ k, k ∈ m → OnCycle W k) →
      AcyclicList W cs → m' = m ∧ fullExpandList W n cs = some cs')
  case hmemo =>
    intro n p m k hk _ hm ha
    exact absurd (hm k hk) (ha k (reachFrom_ref.2 (.refl _)))
  case hstack =>
    intro n p m k _ hk hs _ ha
    exact absurd (hs k hk k (by simp)) (ha k (reachFrom_ref.2 (.refl _)))
  case hdangling =>
    intro n p m k _ _ hW _ _ _ _
    exact ⟨rfl, by simp [fullExpand, hW]⟩
  case hfollow =>
    intro n p m k s s' m' _ _ hs _ ih hst hm ha
    have := ih (hst.follow hs) hm (ha.follow hs)
    exact ⟨this.1, by simp [fullExpand, hs, this.2]⟩
  case hnode =>
    intro n p m l cs cs' m' _ ih hst hm ha
    have := ih (fun q hq k hk => hst q hq k (by simpa using hk)) hm (fun k hk => ha k (reachFrom_node.2 hk))
    exact ⟨this.1, by simp [fullExpand, this.2]⟩
  case hnil =>
    intro n p m _ _ _
    exact ⟨rfl, by simp [fullExpandList]⟩
  case hcons =>
    intro n p m c0 cs c' cs' m1 m2 _ _ ih1 ih2 hst hm ha
    have h1 := ih1 (fun q hq k hk => hst q hq k (by simp [refsOfList, hk])) hm
      (fun k hk => ha k (reachFromList_cons.2 (.inl hk)))
    obtain ⟨rfl, e1⟩ := h1
    have h2 := ih2 (fun q hq k hk => hst q hq k (by simp [refsOfList, hk])) hm
      (fun k hk => ha k (reachFromList_cons.2 (.inr hk)))
    exact ⟨h2.1, by simp [fullExpandList, e1, h2.2]⟩

omit [DecidableEq K] in
/-- `fullExpand` is stable under more fuel -/
theorem fullExpand_mono_both (W : World K L) (d : Nat) : ∀ n,
    (∀ t t', fullExpand W n t = some t' → fullExpand W (n + d) t = some t') ∧
    (∀ cs cs', fullExpandList W n cs = some cs' → fullExpandList W (n + d) cs = some cs') := by
  intro n
  induction n with
  | zero => constructor <;> intros <;> simp_all [fullExpand, fullExpandList]
  | succ n ih =>
    obtain ⟨ihP, ihQ⟩ := ih
    have e : n + 1 + d = (n + d) + 1 := by omega
    constructor
    · intro t t' h
      rw [e]
      cases t with
      | ref k =>
        simp only [fullExpand] at h ⊢
        split
        · simpa [*] using h
        · rename_i s hs; simp only [hs] at h; exact ihP _ _ h
      | node l cs =>
        simp only [fullExpand] at h ⊢
        cases hl : fullExpandList W n cs with
        | none => simp [hl] at h
        | some cs' => rw [ihQ _ _ hl]; simpa [hl] using h
    · intro cs cs' h
      rw [e]
      cases cs with
      | nil => simpa [fullExpandList] using h
      | cons c0 cs =>
        simp only [fullExpandList] at h ⊢
        cases h1 : fullExpand W n c0 with
        | none => simp [h1] at h
        | some c' =>
          rw [ihP _ _ h1]
          cases h2 : fullExpandList W n cs with
          | none => simp [h1, h2] at h
          | some cs'' => rw [ihQ _ _ h2]; simpa [h1, h2] using h

omit [DecidableEq K] in
theorem fullExpand_mono_le {n n' : Nat} (h : n ≤ n') {t t' : Tree K L} (ht : fullExpand W n t = some t') :
    fullExpand W n' t = some t' := by
  have := (fullExpand_mono_both W (n' - n) n).1 t t' ht
  rwa [show n + (n' - n) = n' by omega] at this

omit [DecidableEq K] in
theorem fullExpandList_mono_le {n n' : Nat} (h : n ≤ n') {cs cs' : List (Tree K L)}
    (ht : fullExpandList W n cs = some cs') : fullExpandList W n' cs = some cs' := by
  have := (fullExpand_mono_both W (n' - n) n).2 cs cs' ht
  rwa [show n + (n' - n) = n' by omega] at this

omit [DecidableEq K] in
theorem FullExpands.det {t a b : Tree K L} (ha : FullExpands W t a) (hb : FullExpands W t b) : a = b := by
  obtain ⟨n1, h1⟩ := ha
  obtain ⟨n2, h2⟩ := hb
  have e1 := fullExpand_mono_le (Nat.le_max_left n1 n2) h1
  have e2 := fullExpand_mono_le (Nat.le_max_right n1 n2) h2
  rw [e1] at e2; exact Option.some.inj e2

omit [DecidableEq K] in
theorem fullExpandList_all2 : ∀ (n : Nat) (cs cs' : List (Tree K L)),
    fullExpandList W n cs = some cs' → All2 (FullExpands W) cs cs'
  | 0, _, _, h => by simp [fullExpandList] at h
  | n + 1, [], cs', h => by simp [fullExpandList] at h; subst h; simp [All2]
  | n + 1, c0 :: cs, cs', h => by
      simp only [fullExpandList] at h
      cases h1 : fullExpand W n c0 with
      | none => simp [h1] at h
      | some a =>
        cases h2 : fullExpandList W n cs with
        | none => simp [h1, h2] at h
        | some b =>
          simp [h1, h2] at h; subst h
          simp only [All2]
          exact ⟨⟨n, h1⟩, fullExpandList_all2 n cs b h2⟩

omit [DecidableEq K] in
theorem all2_fullExpandList : ∀ (cs cs' : List (Tree K L)),
    All2 (FullExpands W) cs cs' → ∃ n, fullExpandList W n cs = some cs'
  | [], [], _ => ⟨1, by simp [fullExpandList]⟩
  | c0 :: cs, c' :: cs', h => by
      simp only [All2] at h
      obtain ⟨⟨n1, h1⟩, h2⟩ := h
      obtain ⟨n2, h2⟩ := all2_fullExpandList cs cs' h2
      refine ⟨max n1 n2 + 1, ?_⟩
      simp only [fullExpandList]
      rw [fullExpand_mono_le (Nat.le_max_left n1 n2) h1, fullExpandList_mono_le (Nat.le_max_right n1 n2) h2]
  | [], _ :: _, h => by simp [All2] at h
  | _ :: _, [], h => by simp [All2] at h

/-! ### The visited set (C08 completeness, continue_verbatim)

`Cov V p m t' k`: the key `k` met by the traversal has been dealt with: it was followed (`V`), or it is on
the stack, or in the initial memo, or it is unresolvable and sits verbatim in the output `t'`. -/
def Cov (W : World K L) (V : K → Prop) (p m : List K) (out : List K) (k : K) : Prop :=
  V k ∨ k ∈ p ∨ k ∈ m ∨ (W k = none ∧ k ∈ out)

/-- the set `V` of keys followed by a successful run is closed under edges, up to `Cov` -/
def Visited (W : World K L) (V : K → Prop) (p m : List K) (out : List K) : Prop :=
  ∀ k, V k → W k ≠ none ∧ ∀ k', Edge W k k' → Cov W V p m out k'

theorem visit_both (W : World K L) (c : Bool) : ∀ n,
    (∀ p m t t' m', expand W c n p m t = .ok (t', m') →
      ∃ V : K → Prop, Visited W V p m (refsOf t') ∧ (∀ k, k ∈ refsOf t → Cov W V p m (refsOf t') k) ∧
        (∀ k, k ∈ m' → k ∈ m ∨ k ∈ p ∨ V k)) ∧
    (∀ p m cs cs' m', expandList W c n p m cs = .ok (cs', m') →
      ∃ V : K → Prop, Visited W V p m (refsOfList cs') ∧
        (∀ k, k ∈ refsOfList cs → Cov W V p m (refsOfList cs') k) ∧
        (∀ k, k ∈ m' → k ∈ m ∨ k ∈ p ∨ V k)) := by
  apply expand_ok_induction W c
    (P := fun _ p m t t' m' =>
      ∃ V : K → Prop, Visited W V p m (refsOf t') ∧ (∀ k, k ∈ refsOf t → Cov W V p m (refsOf t') k) ∧
        (∀ k, k ∈ m' → k ∈ m ∨ k ∈ p ∨ V k))
    (Q := fun _ p m cs cs' m' =>
      ∃ V : K → Prop, Visited W V p m (refsOfList cs') ∧
        (∀ k, k ∈ refsOfList cs → Cov W V p m (refsOfList cs') k) ∧
        (∀ k, k ∈ m' → k ∈ m ∨ k ∈ p ∨ V k))
  case hmemo =>
    intro n p m k hk
    refine ⟨fun _ => False, fun _ h => h.elim, fun k' h => ?_, fun k' h => .inl h⟩
    simp at h; subst h; exact .inr (.inr (.inl hk))
  case hstack =>
    intro n p m k _ hk
    refine ⟨fun _ => False, fun _ h => h.elim, fun k' h => ?_, fun k' h => ?_⟩
    · simp at h; subst h; exact .inr (.inl hk)
    · rcases List.mem_cons.1 h with rfl | h
      · exact .inr (.inl hk)
      · exact .inl h
  case hdangling =>
    intro n p m k _ _ hW _
    refine ⟨fun _ => False, fun _ h => h.elim, fun k' h => ?_, fun k' h => .inl h⟩
    simp at h; subst h; exact .inr (.inr (.inr ⟨hW, by simp⟩))
  case hfollow =>
    intro n p m k s s' m' _ _ hs _ ih
    obtain ⟨V, hV, hrefs, hmemo⟩ := ih
    have conv : ∀ k', Cov W V (p ++ [k]) m (refsOf s') k' → Cov W (fun x => V x ∨ x = k) p m (refsOf s') k' := by
      intro k' h
      rcases h with h | h | h | h
      · exact .inl (.inl h)
      · rcases List.mem_append.1 h with h | h
        · exact .inr (.inl h)
        · simp at h; exact .inl (.inr h)
      · exact .inr (.inr (.inl h))
      · exact .inr (.inr (.inr h))
    refine ⟨fun x => V x ∨ x = k, ?_, ?_, ?_⟩
    · intro x hx
      rcases hx with hx | rfl
      · exact ⟨(hV x hx).1, fun k' e => conv k' ((hV x hx).2 k' e)⟩
      · refine ⟨by simp [hs], fun k' e => conv k' (hrefs k' ?_)⟩
        obtain ⟨t, ht, hk'⟩ := e
        rw [hs] at ht; cases ht; exact hk'
    · intro k' h; simp at h; subst h; exact .inl (.inr rfl)
    · intro k' h
      rcases hmemo k' h with h | h | h
      · exact .inl h
      · rcases List.mem_append.1 h with h | h
        · exact .inr (.inl h)
        · simp at h; exact .inr (.inr (.inr h))
      · exact .inr (.inr (.inl h))
  case hnode =>
    intro n p m l cs cs' m' _ ih
    simpa using ih
  case hnil =>
    intro n p m
    exact ⟨fun _ => False, fun _ h => h.elim, fun k' h => by simp [refsOfList] at h, fun k' h => .inl h⟩
  case hcons =>
    intro n p m c0 cs c' cs' m1 m2 _ _ ih1 ih2
    obtain ⟨V1, hV1, hrefs1, hmemo1⟩ := ih1
    obtain ⟨V2, hV2, hrefs2, hmemo2⟩ := ih2
    have conv1 : ∀ k', Cov W V1 p m (refsOf c') k' →
        Cov W (fun x => V1 x ∨ V2 x) p m (refsOfList (c' :: cs')) k' := by
      intro k' h
      rcases h with h | h | h | h
      · exact .inl (.inl h)
      · exact .inr (.inl h)
      · exact .inr (.inr (.inl h))
      · exact .inr (.inr (.inr ⟨h.1, by simp [refsOfList, h.2]⟩))
    have conv2 : ∀ k', Cov W V2 p m1 (refsOfList cs') k' →
        Cov W (fun x => V1 x ∨ V2 x) p m (refsOfList (c' :: cs')) k' := by
      intro k' h
      rcases h with h | h | h | h
      · exact .inl (.inr h)
      · exact .inr (.inl h)
      · rcases hmemo1 k' h with h | h | h
        · exact .inr (.inr (.inl h))
        · exact .inr (.inl h)
        · exact .inl (.inl h)
      · exact .inr (.inr (.inr ⟨h.1, by simp [refsOfList, h.2]⟩))
    refine ⟨fun x => V1 x ∨ V2 x, ?_, ?_, ?_⟩
    · intro x hx
      rcases hx with hx | hx
      · exact ⟨(hV1 x hx).1, fun k' e => conv1 k' ((hV1 x hx).2 k' e)⟩
      · exact ⟨(hV2 x hx).1, fun k' e => conv2 k' ((hV2 x hx).2 k' e)⟩
    · intro k' h
      simp only [refsOfList, List.mem_append] at h
      rcases h with h | h
      · exact conv1 k' (hrefs1 k' h)
      · exact conv2 k' (hrefs2 k' h)
    · intro k' h
      rcases hmemo2 k' h with h | h | h
      · rcases hmemo1 k' h with h | h | h
        · exact .inl h
        · exact .inr (.inl h)
        · exact .inr (.inr (.inl h))
      · exact .inr (.inl h)
      · exact .inr (.inr (.inr h))

omit [DecidableEq K] in
/-- with an empty stack and memo, the visited set covers everything reachable -/
theorem visited_reach {V : K → Prop} {out : List K} (hV : Visited W V [] [] out) {k0 k : K}
    (h0 : Cov W V [] [] out k0) (r : Reach W k0 k) : V k ∨ (W k = none ∧ k ∈ out) := by
  induction r with
  | refl => rcases h0 with h | h | h | h <;> simp_all
  | tail _ e ih =>
    rcases ih with h | h
    · rcases (hV _ h).2 _ e with h | h | h | h <;> simp_all
    · obtain ⟨t, ht, _⟩ := e; simp [h.1] at ht

/-! ### Errors -/

/-- an error is reported only in strict mode, only for an unresolvable key, only if reachable -/
theorem err_sound_both (W : World K L) (c : Bool) : ∀ n,
    (∀ p m t k, expand W c n p m t = .err k → c = false ∧ W k = none ∧ ReachFrom W t k) ∧
    (∀ p m cs k, expandList W c n p m cs = .err k → c = false ∧ W k = none ∧ ReachFromList W cs k) := by
  intro n
  induction n with
  | zero => constructor <;> intros <;> simp_all [expand, expandList]
  | succ n ih =>
    obtain ⟨ihP, ihQ⟩ := ih
    constructor
    · intro p m t k h
      cases t with
      | ref k0 =>
        simp only [expand] at h
        split at h
        · cases h
        · split at h
          · cases h
          · split at h
            · split at h
              · cases h
              · cases h
                exact ⟨by simp_all, ‹_›, reachFrom_ref.2 (.refl _)⟩
            · rename_i s hs
              have := ihP _ _ _ _ h
              exact ⟨this.1, this.2.1, reachFrom_follow hs this.2.2⟩
      | node l cs =>
        simp only [expand] at h
        split at h
        · cases h
        · rename_i k' hl
          cases h
          have := ihQ _ _ _ _ hl
          exact ⟨this.1, this.2.1, reachFrom_node.2 this.2.2⟩
        · cases h
    · intro p m cs k h
      cases cs with
      | nil => simp [expandList] at h
      | cons c0 cs =>
        simp only [expandList] at h
        split at h
        · rename_i c' m1 h1
          split at h
          · cases h
          · rename_i k' h2
            cases h
            have := ihQ _ _ _ _ h2
            exact ⟨this.1, this.2.1, reachFromList_cons.2 (.inr this.2.2)⟩
          · cases h
        · rename_i k' h1
          cases h
          have := ihP _ _ _ _ h1
          exact ⟨this.1, this.2.1, reachFromList_cons.2 (.inl this.2.2)⟩
        · cases h

end inv

end SpecModel.Expand
