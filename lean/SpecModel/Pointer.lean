/-
RFC 6901 JSON pointers as `jsonpointer.Pointer` evaluates them on generic documents (maps / slices), and the
`resolveRef` of schema_loader.go on top of it and of the URL model:

  resolve docs base ref kind =  normalizeURI ref base                       (C12: RFC 3986 resolution)
                             ▸ fetch the document at that URL without its fragment
                             ▸ split the fragment at '/', unescape ~1 then ~0  (`Unescape`)
                             ▸ walk: object → member of that name, array → decimal index in range
                             ▸ decode the value found as the requested kind  (`Codec.norm`, the model of
                               swag.DynamicJSONToStruct followed by json.Marshal of the result)

Nothing here follows a `$ref` inside the value found, and the documents are values: nothing is modified.
Core Lean only (linked into the driver).
-/
import SpecModel.Json
import SpecModel.Codec.Norm
import SpecModel.Url.Normalizer

namespace SpecModel.Pointer
open SpecModel

/-- `strings.ReplaceAll(strings.ReplaceAll(tok, "~1", "/"), "~0", "~")` -/
def replace1 : List Char → List Char
  | '~' :: '1' :: r => '/' :: replace1 r
  | c :: r => c :: replace1 r
  | [] => []

def replace0 : List Char → List Char
  | '~' :: '0' :: r => '~' :: replace0 r
  | c :: r => c :: replace0 r
  | [] => []

def unescape (tok : List Char) : List Char := replace0 (replace1 tok)

/-- `Escape`: `~` → `~0`, then `/` → `~1` -/
def escape : List Char → List Char
  | '~' :: r => '~' :: '0' :: escape r
  | '/' :: r => '~' :: '1' :: escape r
  | c :: r => c :: escape r
  | [] => []

/-- split at every '/' -/
def splitSlash : List Char → List (List Char)
  | [] => [[]]
  | c :: r =>
    match splitSlash r with
    | [] => [[c]]   -- unreachable: splitSlash never returns []
    | t :: ts => if c = '/' then [] :: t :: ts else (c :: t) :: ts

/-- `jsonpointer.New`: the empty pointer has no token; otherwise the text must start with '/' -/
def tokens (ptr : String) : Option (List String) :=
  match ptr.toList with
  | [] => some []
  | '/' :: r => some ((splitSlash r).map fun t => String.ofList (unescape t))
  | _ => none

/-- a map built by `json.Unmarshal`: the LAST member of that name -/
def getLast? (ms : List (String × Json)) (k : String) : Option Json :=
  ((ms.reverse).find? (·.1 == k)).map (·.2)

/-- one step of `getSingleImpl` on a generic document -/
def step (j : Json) (tok : String) : Option Json :=
  match j with
  | .obj ms => getLast? ms tok
  | .arr xs =>
    match Codec.atoi tok with
    | some i => if 0 ≤ i then xs[i.toNat]? else none
    | none => none
  | _ => none

def eval : Json → List String → Option Json
  | j, [] => some j
  | j, t :: ts => match step j t with
    | some x => eval x ts
    | none => none

/-! ### resolveRef -/

structure Doc where
  url : Url.URL     -- canonical, no fragment
  body : Json

def fetch (docs : List Doc) (u : Url.URL) : Option Json :=
  (docs.find? fun d => d.url == { u with fragment := "" }).map (·.body)

/-- the sub-document a reference designates: `none` = the reference designates nothing -/
def designated (docs : List Doc) (base ref : Url.URL) : Option Json :=
  let target := Url.normalizeURI ref base
  match fetch docs target with
  | none => none
  | some doc =>
    match tokens target.fragment with
    | none => none
    | some toks => eval doc toks

/-- `swag.DynamicJSONToStruct(v, target)` then `json.Marshal(target)`: the generic value as json.Marshal prints
it, decoded as `kind` and printed again -/
def decodeAs (kind : String) (v : Json) : Except String Json :=
  match Codec.normAny v with
  | .ok g => Codec.norm kind g
  | .error e => .error e

/-- `Resolve…WithBase` -/
def resolve (docs : List Doc) (base ref : Url.URL) (kind : String) : Except String Json :=
  match designated docs base ref with
  | none => .error "error:reference designates nothing"
  | some v => decodeAs kind v

end SpecModel.Pointer
