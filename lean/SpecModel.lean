-- Root of the `SpecModel` library (hand-written modules; `Generated/*` is rebuilt by the checks).
import SpecModel.Json
import SpecModel.Wire
import SpecModel.DriverLoop
