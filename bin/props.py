"""Per-property configuration of bin/check: Lean modules holding the obligations, driver group, level."""

LEAN_KERNEL = "Lean 4.33 kernel (thorough tier: re-checked with leanchecker); axioms limited to propext, Classical.choice, Quot.sound (audited per theorem on every run)"
EXTRACTOR = "harness/cmd/extract (go/ast + reflection translator, rebuilt against /repo's working tree on every run)"
HARNESS = "harness/cmd/run generators, canonicaliser and independent oracles; Go's reflect/encoding/json used by the oracles"
DRIVER = "Lean compiler for the driver executable (evaluates the same definitions the theorems are about)"

PROPS = {
    "C20": {
        "modules": ["Props.C20"],
        "driver": "driver_val",
        "level": "proof",
        "level_text": "Lean 4 theorems (get/set, set/get, frame, exact clear with per-callback trace, has-queries) about definitions re-translated statement by statement from validations.go and schema.go on every run; the translator is validated by driving the generated definitions and the real code on all 2^15 keyword subsets x 6 carriers",
        "technique": "Lean 4 proof over a model regenerated from source by a go/ast translator, plus differential correspondence and exhaustive oracle",
        "design_ref": "DESIGN.md 5 (C20)",
        "extract_tags": ["validations:"],
        "trusted_base": [LEAN_KERNEL, EXTRACTOR + ": statement translator for validations.go / Schema.{Set,}Validations",
                         DRIVER, HARNESS,
                         "modelled not verified: Go struct embedding/promotion (resolved by the translator from the struct declarations), pointer fields as Option, possibly-nil slices/maps as Option (List _), deferred apply as a returned trace"],
        "assumptions": ["callbacks are observed only through the (callback index, keyword, value) trace",
                        "values of numeric validations are integers in the model (the implementation-side oracle also uses non-integers)"],
    },
    "C11": {
        "modules": ["Props.C11"],
        "driver": "driver_url", "ops": ["nbase", "clean", "dir", "join", "isabs"],
        "level": "proof",
        "level_text": "Lean 4 theorems about a hand-written structured-URL model of normalizeBase/absPath/path.Clean: idempotence, canonical shape (scheme, absolute cleaned path, no fragment), invariance under every spelling rewrite of the property (./, x/../, doubled slash, trailing slash, fragment, query on files, relative anchoring at the working directory); model tied to normalizer.go by differential correspondence through the verif-tagged export of normalizeBase and through ExpandSpec loader arguments",
        "technique": "Lean 4 proof over a hand-written model + differential correspondence (compiled Lean driver vs real normalizeBase) + exhaustive spelling enumeration oracle",
        "design_ref": "DESIGN.md 5 (C11)",
        "trusted_base": [LEAN_KERNEL, DRIVER, HARNESS,
                         "modelled not verified: net/url parsing and printing (structured URL {scheme,host,path,query,fragment}; inputs outside the tame grammar are counted out-of-model), path.Clean/Dir/Join/IsAbs (hand model, compared exhaustively with Go's over a segment alphabet on every run), filepath.Abs as cwd-prefixing, strings.ToLower on ASCII",
                         "verif-tagged hook verif_hooks.go exporting normalizeBase (MANIFEST.hooks)"],
        "assumptions": ["non-Windows build", "working directory is an absolute clean path (CwdOk)"],
    },
    "C12": {
        "modules": ["Props.C12", "Props.C03Denorm"],
        "driver": "driver_url", "ops": ["nuri", "rfc", "denorm", "clean", "dir", "join", "isabs"],
        "level": "proof",
        "level_text": "Lean 4 theorem normalizeURI_rfc: on canonical document bases and the property's reference class the model of normalizeURI equals an independently written RFC 3986 5.2.2 resolver (merge + remove_dot_segments), with absolute_unchanged and fragment_only_is_base; denormalizeRef resolves back (C03 cut spelling). Model tied to normalizer.go by correspondence through verif-tagged exports; oracle compares with net/url ResolveReference and with the loader argument end to end",
        "technique": "Lean 4 proof over a hand-written model + differential correspondence + exhaustive bounded-alphabet oracle against url.ResolveReference",
        "design_ref": "DESIGN.md 5 (C12)",
        "trusted_base": [LEAN_KERNEL, DRIVER, HARNESS,
                         "modelled not verified: net/url parse/print, path.Clean/Dir/Join, jsonreference.New normalisation (lower-case scheme/host, default port, duplicate slashes)",
                         "the RFC 3986 resolver Rfc.resolve is a specification written by hand from the RFC text",
                         "verif-tagged hook verif_hooks.go exporting normalizeURI/denormalizeRef"],
        "assumptions": ["base is the canonical location of a document (CanonBase)", "reference is in RefClass: no scheme/authority/query, non-empty path segments, last segment not . or .., no escape that encodes / or ."],
    },
    "C13": {
        "modules": ["Props.C13"],
        "driver": "driver_url", "ops": ["refnew"],
        "level": "proof",
        "level_text": "Lean 4 theorems about the model of jsonreference canonicalisation as used by spec.Ref: idempotence under the one-port hypothesis (with a proved counter-example for stacked ports, which the property excludes), classification flags a function of the canonical URL; JSON/gob round trips decided by the exhaustive-by-construction oracle on the real code",
        "technique": "Lean 4 proof over a hand-written model + differential correspondence (refnew) + string-generator oracle on NewRef/JSON/gob",
        "design_ref": "DESIGN.md 5 (C13)",
        "trusted_base": [LEAN_KERNEL, DRIVER, HARNESS,
                         "modelled not verified: net/url parse/print and escaping normalisation (the model works on parsed components), purell-style NormalizeURL flags used by jsonreference",
                         "the JSON and gob clauses are checked on the implementation only (encoding/json, encoding/gob are not modelled for Ref)"],
        "assumptions": ["authority, if present, is a host with at most one port (OnePort)"],
    },
    "C16": {
        "modules": ["Props.C16"],
        "driver": "driver_cache", "ops": ["simulate", "tracecheck"],
        "level": "proof",
        "level_text": "Lean 4 theorem history_independent over a heap-of-caches model in which the package-level cache is an ordinary writable object: after any history of calls (any programs, any loaders, caller caches or none) every call made without a caller cache behaves exactly like a run on a clone of the initial package cache, and that cache is unchanged (builtins_stay); the model's assumptions about the source (resCache assigned only under sync.Once and only ever cloned, no other package-level variable assigned, every entry point clones the caller's options first) are regenerated from /repo by go/ast on every run and discharged by decide; the implementation is checked against the model's prediction by comparing every call of random histories with the same call in a fresh process",
        "technique": "Lean 4 proof (invariant over call histories) + regenerated go/ast side conditions discharged by decide + differential check against fresh-process runs",
        "design_ref": "DESIGN.md 5 (C16)",
        "extract_tags": ["cachefacts:"],
        "trusted_base": [LEAN_KERNEL, DRIVER, HARNESS, "modelled not verified: the expander as a client of the protocol (a program over load / direct Set / direct Get whose continuations are arbitrary functions), sync.RWMutex and sync.Once as atomicity of the guarded block, documents as immutable values",
                         EXTRACTOR + ": shared-state facts (package-level variables and their writers, lock held at every access of simpleCache.store, uses of resCache/onceCache, what each entry point does with the caller's *ExpandOptions, the call shape of schemaLoader.load)"],
        "assumptions": ["the loader passed in the options (or the package-level PathLoader, which the package never assigns) is the only source of documents", "documents stored in a cache are not mutated afterwards"],
    },
    "C17": {
        "modules": ["Props.C17"],
        "driver": "driver_cache", "ops": ["tracecheck_mt", "simulate_sched", "simulate", "tracecheck"],
        "race": True,
        "level": "proof",
        "level_text": "Lean 4 theorems over a small-step model of N threads sharing one cache, interleaved at the granularity of the code's atomic actions (Get, loader call, Set): under every schedule each finished thread holds the result of its solo sequential run (sched_independent), no configuration is stuck and every fair schedule terminates (no_stuck, sched_terminates), every schedule's trace is protocol-valid. The data-race clause cannot be exhibited by the model: it rests on the regenerated lock-discipline side conditions (every access of simpleCache.store under the right lock, sync.Once initialisation, no other package-level writes) and on running the concurrent scenarios under the Go race detector on every check (supporting evidence, not proof); the recorded global traces are validated by the model's validator and replayed through its scheduler under the observed schedule",
        "technique": "Lean 4 proof over an interleaving model + regenerated lock-discipline side conditions (decide) + trace validation / schedule replay correspondence + race-detector runs",
        "design_ref": "DESIGN.md 5 (C17)",
        "extract_tags": ["cachefacts:"],
        "trusted_base": [LEAN_KERNEL, DRIVER, HARNESS, "modelled not verified: the expander as a client of the protocol (a program over load / direct Set / direct Get whose continuations are arbitrary functions), sync.RWMutex and sync.Once as atomicity of the guarded block, documents as immutable values",
                         EXTRACTOR + ": shared-state facts (package-level variables and their writers, lock held at every access of simpleCache.store, uses of resCache/onceCache, what each entry point does with the caller's *ExpandOptions, the call shape of schemaLoader.load)",
                         "the Go race detector (data-race clause; partial: a race not exercised by the scenarios is not reported)"],
        "assumptions": ["a caller-supplied ResolutionCache has atomic Get/Set", "threads sharing a cache agree on pseudo documents and read a pseudo key only after writing it themselves (Ideal); without it answers really depend on the schedule (proved example)"],
    },
    "C18": {
        "modules": ["Props.C18"],
        "driver": "driver_cache", "ops": ["tracecheck", "simulate", "avoids"],
        "level": "proof",
        "level_text": "Lean 4 theorems about the Get / loader / Set protocol of schemaLoader.load with direct Sets and Gets: for programs without bare cache reads a coherent cache never changes the result (cache_transparent, cache_congr, reuse_transparent), a URL is successfully fetched at most once per run and never when already cached, also across a chain of runs re-using the cache (fetch_at_most_once, fetch_at_most_once_chain), coherence is preserved; an executable trace validator is proved to imply fetch-at-most-once (validTrace_fetch_once) and every trace recorded from the real code through an instrumented ResolutionCache and PathLoader is checked by it and replayed through the model's interpreter; the shape of schemaLoader.load and the list of direct cache accesses are regenerated from source and pinned by decide",
        "technique": "Lean 4 proof over a protocol model + regenerated go/ast side conditions (decide) + trace validation and replay correspondence + oracle over all pre-load subsets",
        "design_ref": "DESIGN.md 5 (C18)",
        "extract_tags": ["cachefacts:"],
        "trusted_base": [LEAN_KERNEL, DRIVER, HARNESS, "modelled not verified: the expander as a client of the protocol (a program over load / direct Set / direct Get whose continuations are arbitrary functions), sync.RWMutex and sync.Once as atomicity of the guarded block, documents as immutable values",
                         EXTRACTOR + ": shared-state facts (package-level variables and their writers, lock held at every access of simpleCache.store, uses of resCache/onceCache, what each entry point does with the caller's *ExpandOptions, the call shape of schemaLoader.load)"],
        "assumptions": ["the supplied cache is coherent: every entry equals what the loader returns for that URL (or is a pseudo document the run itself writes before reading)"],
    },
}

# properties not (yet) claimed, with the reason
NOT_APPLICABLE = {
}
for _i in range(1, 21):
    _k = "C%02d" % _i
    if _k not in PROPS:
        NOT_APPLICABLE[_k] = "not yet claimed: machinery for this property is still being built (see DESIGN.md section 11 staging)"
