"""Per-property configuration of bin/check: Lean modules holding the obligations, driver group, level."""

LEAN_KERNEL = "Lean 4.33 kernel (thorough tier: re-checked with leanchecker); axioms limited to propext, Classical.choice, Quot.sound (audited per theorem on every run)"
EXTRACTOR = "harness/cmd/extract (go/ast + reflection translator, rebuilt against /repo's working tree on every run)"
HARNESS = "harness/cmd/run generators, canonicaliser and independent oracles; Go's reflect/encoding/json used by the oracles"
DRIVER = "Lean compiler for the driver executable (evaluates the same definitions the theorems are about)"

PROPS = {
    "C20": {
        "modules": ["Props.C20"],
        "driver": "driver_val",
        "level": "proof",
        "level_text": "Lean 4 theorems (get/set, set/get, frame, exact clear with per-callback trace, has-queries) about definitions re-translated statement by statement from validations.go and schema.go on every run; the translator is validated by driving the generated definitions and the real code on all 2^15 keyword subsets x 6 carriers",
        "technique": "Lean 4 proof over a model regenerated from source by a go/ast translator, plus differential correspondence and exhaustive oracle",
        "design_ref": "DESIGN.md 5 (C20)",
        "extract_tags": ["validations:"],
        "trusted_base": [LEAN_KERNEL, EXTRACTOR + ": statement translator for validations.go / Schema.{Set,}Validations",
                         DRIVER, HARNESS,
                         "modelled not verified: Go struct embedding/promotion (resolved by the translator from the struct declarations), pointer fields as Option, possibly-nil slices/maps as Option (List _), deferred apply as a returned trace"],
        "assumptions": ["callbacks are observed only through the (callback index, keyword, value) trace",
                        "values of numeric validations are integers in the model (the implementation-side oracle also uses non-integers)"],
    },
}

# properties not (yet) claimed, with the reason
NOT_APPLICABLE = {
}
for _i in range(1, 21):
    _k = "C%02d" % _i
    if _k not in PROPS:
        NOT_APPLICABLE[_k] = "not yet claimed: machinery for this property is still being built (see DESIGN.md section 11 staging)"
