#!/usr/bin/env python3-vt
"""Independent validator for C19: Draft4Validator over the Swagger 2.0 meta-schema shipped with /repo.
stdin: one JSON object per line {"id":…, "doc":…}; stdout: {"id":…, "valid":bool, "error":str}."""
import sys, json
import jsonschema
from jsonschema import Draft4Validator, RefResolver

repo = sys.argv[1] if len(sys.argv) > 1 else "/repo"
swagger = json.load(open(repo + "/schemas/v2/schema.json"))
draft4 = json.load(open(repo + "/schemas/jsonschema-draft-04.json"))
store = {"http://json-schema.org/draft-04/schema": draft4, "http://json-schema.org/draft-04/schema#": draft4,
         "http://swagger.io/v2/schema.json": swagger, "http://swagger.io/v2/schema.json#": swagger}
resolver = RefResolver(base_uri="http://swagger.io/v2/schema.json", referrer=swagger, store=store)
validator = Draft4Validator(swagger, resolver=resolver)
for line in sys.stdin:
    line = line.strip()
    if not line:
        continue
    rec = json.loads(line)
    errs = sorted(validator.iter_errors(rec["doc"]), key=lambda e: list(e.path))
    if errs:
        e = errs[0]
        print(json.dumps({"id": rec["id"], "valid": False, "error": "/" + "/".join(map(str, e.absolute_path)) + ": " + e.message[:200]}))
    else:
        print(json.dumps({"id": rec["id"], "valid": True, "error": ""}))
    sys.stdout.flush()
