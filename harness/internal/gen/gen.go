// Package gen: type-directed generator of Swagger 2.0 documents in normal form, driven by the pinned
// vocabulary /verif/spec_vocab.json (the standard's keywords per object kind, not the Go code's).
package gen

import (
	"encoding/json"
	"fmt"
	"math/rand"
	"os"
	"sort"
	"strings"

	"verif/harness/internal/wire"
)

type Kind struct {
	Ext      bool              `json:"ext"`
	NoExt    bool              `json:"noext"`
	Extra    bool              `json:"extra"`
	Required []string          `json:"required"`
	Members  map[string]string `json:"members"`
	GoKeys   map[string]string `json:"gokeys"`
	Variants map[string]*Kind  `json:"variants"`
	Pattern  map[string]string `json:"pattern"`
}

type Vocab struct {
	Kinds map[string]*Kind `json:"kinds"`
}

func LoadVocab(path string) (*Vocab, error) {
	b, err := os.ReadFile(path)
	if err != nil {
		return nil, err
	}
	var v Vocab
	if err := json.Unmarshal(b, &v); err != nil {
		return nil, err
	}
	return &v, nil
}

// AllMembers returns standard + Go-specific member names of a (variant of a) kind, sorted.
func (k *Kind) AllMembers() []string {
	var out []string
	for m := range k.Members {
		out = append(out, m)
	}
	for m := range k.GoKeys {
		out = append(out, m)
	}
	sort.Strings(out)
	return out
}

func (k *Kind) typeOf(m string) string {
	if t, ok := k.Members[m]; ok {
		return t
	}
	return k.GoKeys[m]
}

func (k *Kind) isRequired(m string) bool {
	for _, r := range k.Required {
		if r == m {
			return true
		}
	}
	return false
}

// VariantNames sorted; a kind without variants has the single variant "".
func (k *Kind) VariantNames() []string {
	if len(k.Variants) == 0 {
		return []string{""}
	}
	var out []string
	for v := range k.Variants {
		out = append(out, v)
	}
	sort.Strings(out)
	return out
}

func (k *Kind) Variant(name string) *Kind {
	if name == "" {
		return k
	}
	v := k.Variants[name]
	if v == nil {
		return nil
	}
	c := *v
	c.Ext = k.Ext && !v.NoExt
	return &c
}

// Options steer what the generator may produce beyond the strict normal form of C01.
type Options struct {
	MaxDepth      int
	NastyNames    bool                // quotes, backslashes, control and non-ASCII characters, regex syntax in member names
	Extensions    bool                // x- members wherever the kind allows them
	ExtraProps    bool                // unknown keywords inside schemas
	GoKeys        bool                // members the Go model adds (nullable, id, example …)
	Refs          bool                // $ref members / ref variants
	NonIntNumbers bool                // numbers with fractions/exponents (outside the Lean model's domain)
	EmptySecurity bool                // `security: []` on operations (C14)
	PayloadNulls  bool                // nulls / empty containers nested in free-form payloads
	NullExt       bool                // vendor extensions whose value is null (kept by the decoder, written back as null)
	XOrder        bool                // x-order extension on property schemas
	MemberP       float64             // probability of each optional member in random subsets
	Valid         bool                // aim at documents that validate against the Swagger 2.0 meta-schema (C19)
	LocalRefs     map[string][]string // when set: per kind, the pool `ref` values are drawn from
}

func DefaultOptions() Options {
	return Options{MaxDepth: 3, NastyNames: true, Extensions: true, ExtraProps: true, GoKeys: true, Refs: true,
		NonIntNumbers: true, PayloadNulls: true, MemberP: 0.25}
}

type G struct {
	R *rand.Rand
	V *Vocab
	O Options
	// Used records "<kind>.<member>" for coverage statistics
	Used map[string]int
}

func New(r *rand.Rand, v *Vocab, o Options) *G {
	return &G{R: r, V: v, O: o, Used: map[string]int{}}
}

var plainStrings = []string{"a", "pet", "Pet Store", "v1.0", "text/plain", "application/json", "2.0.1", "some description", "x", "id", "name"}
var nastyStrings = []string{"say \"hi\"", "back\\slash", "tab\there", "new\nline", "é", "日本語", "<tag>&amp;", " sep", "\u0001ctl", "a/b~c", "100%", "^[a-z]+\\d*$", "emoji🙂", "null", "true", "0", " lead", "trail "}
var plainNames = []string{"a", "b", "pet", "Pet", "tag", "item", "n1", "id2", "value", "data"}
var nastyNames = []string{"bell\u0007x", "del\u007f", "\U000e0001tag", "a\"b", "a\\b", "a\nb", "tab\tname", "é", "名前", "^a\\d+$", "[a-z]+", "a/b", "a~b", "a%20b", "a b", "{x}", "a#b", "a?b", "<x>", "a&b", " ", "x-notext", "X-upper", "$dollar", "0", "00", "-1", "a.b", "a\":1,\"b"}
var extraKeywords = []string{"unknownKeyword", "custom", "$comment", "contentMediaType", "const", "if", "then", "meta-data", "vendor", "zzz"}
var extNames = []string{"x-a", "x-A", "x-Vendor", "x-vendor", "x-go-name", "x-nullable", "x-UPPER", "x-", "x-with space", "x-ünï", "x-a\"q", "x-order2"}
var refPool = []string{"#/definitions/a", "#/definitions/b", "other.json#/definitions/c", "sub/other.json", "http://example.com/s.json#/definitions/d",
	"#/parameters/p", "#/responses/r", "#/definitions/a~1b", "#/definitions/a%20b", "../up.json#/x",
	// a control character and a blank, in the form net/url prints them (raw ones are C13's subject)
	"#/definitions/bell%07x", "models/tree%20node.json#/definitions/a%20b",
	// characters that net/url leaves alone in a query but that JSON must escape
	"defs.json?root=C:\\new\\table#/definitions/Pet", "defs.json?label=\",\"readOnly\":true,\"title\":\"x", "defs.json?dir=a\\u0062c#/x"}
var schemaURLs = []string{"http://json-schema.org/draft-04/schema#", "http://json-schema.org/draft-04/schema", "http://swagger.io/v2/schema.json#"}
var schemaTypes = []string{"string", "number", "integer", "boolean", "array", "object", "null"}

// any three digits are a legal response key for the meta-schema, not only assigned HTTP status codes
var statusCodes = []string{"200", "201", "204", "400", "404", "500", "100", "599", "600", "999", "0"}

// "/x~1y" and "/x~0y" hold the two-character sequences literally (their pointer tokens are ~1x~01y, ~1x~00y);
// "/x/y" and "/x~y" are what a second, wrong unescaping would turn them into
var pathKeys = []string{"/", "/pets", "/pets/{id}", "/a/b", "/a b", "/é", "/x~y", "/a%2Fb", "/{p}/q", "/x~1y", "/x~0y", "/x/y",
	// escapes of escapes, and an escape that is no UTF-8: a key is a key, nothing decodes it
	"/d/%2541pct", "/f/%25C3%25A9", "/blob/%FF", "/p/%7Bid%7D"}

func (g *G) pick(xs []string) string { return xs[g.R.Intn(len(xs))] }
func (g *G) coin(p float64) bool     { return g.R.Float64() < p }

func (g *G) Str() string {
	if g.O.NastyNames && g.coin(0.3) {
		return g.pick(nastyStrings)
	}
	return g.pick(plainStrings)
}

func (g *G) Name() string {
	if g.O.NastyNames && g.coin(0.35) {
		return g.pick(nastyNames)
	}
	return g.pick(plainNames)
}

// names returns n distinct names from the given generator.
func (g *G) distinct(n int, f func() string) []string {
	seen := map[string]bool{}
	var out []string
	for tries := 0; len(out) < n && tries < 50; tries++ {
		s := f()
		if !seen[s] {
			seen[s] = true
			out = append(out, s)
		}
	}
	return out
}

func (g *G) Number() wire.V {
	ints := []string{"0", "1", "-1", "7", "100", "-0", "9007199254740992", "-42"}
	fl := []string{"0.5", "-1.5", "1e2", "2.5e-1", "1.0", "0.0", "1E3", "123456.75"}
	if g.O.NonIntNumbers && g.coin(0.3) {
		return wire.NumV(g.pick(fl))
	}
	return wire.NumV(g.pick(ints))
}

func (g *G) Nonneg() wire.V { return wire.NumV(g.pick([]string{"0", "1", "2", "10", "255", "0"})) }

// Payload: free-form JSON for default/example/enum/extensions. top: never null at top level.
func (g *G) Payload(depth int, top bool) wire.V {
	n := 7
	if depth <= 0 {
		n = 4
	}
	for {
		switch g.R.Intn(n) {
		case 0:
			return wire.StrV(g.Str())
		case 1:
			return g.Number()
		case 2:
			return wire.BoolV(g.coin(0.5))
		case 3:
			if top || !g.O.PayloadNulls {
				continue
			}
			return wire.NullV()
		case 4:
			k := g.R.Intn(3)
			if !g.O.PayloadNulls && k == 0 {
				k = 1
			}
			xs := []wire.V{}
			for i := 0; i < k; i++ {
				xs = append(xs, g.Payload(depth-1, false))
			}
			return wire.ArrV(xs...)
		default:
			k := g.R.Intn(3)
			if !g.O.PayloadNulls && k == 0 {
				k = 1
			}
			ms := []wire.Member{}
			for _, nm := range g.distinct(k, g.Name) {
				ms = append(ms, wire.M(nm, g.Payload(depth-1, false)))
			}
			return wire.ObjV(ms...)
		}
	}
}

// Value generates a value of the vocabulary's type language.
func (g *G) Value(t string, depth int) wire.V {
	switch {
	case t == "string":
		return wire.StrV(g.Str())
	case t == "bool":
		return wire.BoolV(true)
	case t == "number":
		return g.Number()
	case t == "nonneg":
		return g.Nonneg()
	case t == "any":
		return g.Payload(2, true)
	case t == "ref":
		return wire.StrV(g.pick(refPool))
	case t == "schemaurl":
		return wire.StrV(g.pick(schemaURLs))
	case t == "type":
		return wire.StrV(g.pick(schemaTypes))
	case strings.HasPrefix(t, "const:"):
		return wire.StrV(strings.TrimPrefix(t, "const:"))
	case strings.HasPrefix(t, "enum:"):
		return wire.StrV(g.pick(strings.Split(strings.TrimPrefix(t, "enum:"), "|")))
	case t == "[string]":
		xs := []wire.V{}
		for i := 0; i <= g.R.Intn(3); i++ {
			xs = append(xs, wire.StrV(g.Str()))
		}
		return wire.ArrV(xs...)
	case t == "[any]":
		xs := []wire.V{}
		for i := 0; i <= g.R.Intn(3); i++ {
			xs = append(xs, g.Payload(1, false))
		}
		return wire.ArrV(xs...)
	case t == "{string}":
		ms := []wire.Member{}
		for _, n := range g.distinct(1+g.R.Intn(2), g.Name) {
			ms = append(ms, wire.M(n, wire.StrV(g.Str())))
		}
		return wire.ObjV(ms...)
	case t == "{any}":
		ms := []wire.Member{}
		for _, n := range g.distinct(1+g.R.Intn(2), func() string { return g.pick([]string{"application/json", "text/plain", "a/b", g.Name()}) }) {
			ms = append(ms, wire.M(n, g.Payload(1, true)))
		}
		return wire.ObjV(ms...)
	case t == "security":
		xs := []wire.V{}
		for i := 0; i <= g.R.Intn(2); i++ {
			ms := []wire.Member{}
			for _, n := range g.distinct(g.R.Intn(3), func() string { return g.pick([]string{"api_key", "oauth", "basic", "k\"q"}) }) {
				sc := []wire.V{}
				for j := 0; j < g.R.Intn(3); j++ {
					sc = append(sc, wire.StrV(g.pick([]string{"read", "write", "admin:x"})))
				}
				ms = append(ms, wire.M(n, wire.ArrV(sc...)))
			}
			xs = append(xs, wire.ObjV(ms...))
		}
		return wire.ArrV(xs...)
	case t == "schemaOrBool":
		switch g.R.Intn(3) {
		case 0:
			return wire.BoolV(true)
		case 1:
			return wire.BoolV(false)
		}
		return g.Kind("schema", depth-1)
	case t == "schemaOrArray":
		if g.coin(0.5) {
			return g.Kind("schema", depth-1)
		}
		xs := []wire.V{}
		for i := 0; i <= g.R.Intn(2); i++ {
			xs = append(xs, g.Kind("schema", depth-1))
		}
		return wire.ArrV(xs...)
	case t == "dependencies":
		ms := []wire.Member{}
		for _, n := range g.distinct(1+g.R.Intn(2), g.Name) {
			if g.coin(0.5) {
				ms = append(ms, wire.M(n, g.Kind("schema", depth-1)))
			} else {
				ms = append(ms, wire.M(n, g.Value("[string]", depth)))
			}
		}
		return wire.ObjV(ms...)
	case strings.HasPrefix(t, "#"):
		return g.Kind(t[1:], depth-1)
	case strings.HasPrefix(t, "[#"):
		k := t[2 : len(t)-1]
		xs := []wire.V{}
		for i := 0; i <= g.R.Intn(2); i++ {
			xs = append(xs, g.Kind(k, depth-1))
		}
		return wire.ArrV(xs...)
	case strings.HasPrefix(t, "{#"):
		k := t[2 : len(t)-1]
		ms := []wire.Member{}
		for _, n := range g.distinct(1+g.R.Intn(2), g.Name) {
			ms = append(ms, wire.M(n, g.Kind(k, depth-1)))
		}
		return wire.ObjV(ms...)
	}
	panic("gen: unknown type " + t)
}

// Kind generates a random normal-form object of the kind.
func (g *G) Kind(kind string, depth int) wire.V {
	k := g.V.Kinds[kind]
	if k == nil {
		panic("gen: unknown kind " + kind)
	}
	vn := ""
	if len(k.Variants) > 0 {
		names := k.VariantNames()
		for {
			vn = names[g.R.Intn(len(names))]
			if vn == "ref" && (!g.O.Refs || g.coin(0.5)) {
				continue
			}
			break
		}
	}
	kv := k.Variant(vn)
	var opt []string
	p := g.O.MemberP
	if depth <= 0 {
		p = p / 4
	}
	for _, m := range kv.AllMembers() {
		if kv.isRequired(m) {
			continue
		}
		if _, isGo := kv.GoKeys[m]; isGo && !g.O.GoKeys {
			continue
		}
		if kv.typeOf(m) == "ref" && !g.O.Refs {
			continue
		}
		if g.O.Valid && validSkip[kind+"."+m] && !(kv.typeOf(m) == "ref" && len(g.O.LocalRefs[kind]) > 0) {
			continue
		}
		if g.coin(p) {
			opt = append(opt, m)
		}
	}
	return g.Build(kind, vn, opt, depth, true)
}

func isNested(t string) bool {
	return strings.Contains(t, "#") || t == "schemaOrBool" || t == "schemaOrArray" || t == "dependencies"
}

// Build makes an object of the kind/variant holding the required members plus exactly the optional ones
// listed; `decorate` adds random extensions / unknown keywords / pattern members.
func (g *G) Build(kind, variant string, optional []string, depth int, decorate bool) wire.V {
	k := g.V.Kinds[kind]
	kv := k.Variant(variant)
	names := append([]string{}, kv.Required...)
	for _, m := range optional {
		if !kv.isRequired(m) {
			names = append(names, m)
		}
	}
	sort.Strings(names)
	g.R.Shuffle(len(names), func(i, j int) { names[i], names[j] = names[j], names[i] })
	ms := []wire.Member{}
	for _, m := range names {
		t := kv.typeOf(m)
		if t == "" {
			panic(fmt.Sprintf("gen: %s/%s has no member %s", kind, variant, m))
		}
		if t == "ref" && len(g.O.LocalRefs[kind]) > 0 {
			ms = append(ms, wire.M(m, wire.StrV(g.pick(g.O.LocalRefs[kind]))))
			g.Used[kind+"."+m]++
			continue
		}
		if depth <= 0 && isNested(t) && !kv.isRequired(m) {
			// at the depth limit an optional nested member becomes a small leaf
			ms = append(ms, wire.M(m, g.leaf(t)))
		} else {
			ms = append(ms, wire.M(m, g.Value(t, depth)))
		}
		g.Used[kind+"."+m]++
	}
	if g.O.Valid {
		ms = g.fixValid(kind, variant, ms, depth)
	}
	if decorate {
		for pk, pt := range kv.Pattern {
			var keys []string
			switch pk {
			case "status":
				keys = g.distinct(g.R.Intn(3), func() string { return g.pick(statusCodes) })
			case "path":
				keys = g.distinct(g.R.Intn(3), func() string { return g.pick(pathKeys) })
			}
			for _, key := range keys {
				if depth <= 0 {
					ms = append(ms, wire.M(key, g.leaf(pt)))
				} else {
					ms = append(ms, wire.M(key, g.Value(pt, depth)))
				}
				g.Used[kind+".<"+pk+">"]++
			}
		}
		if kv.Ext && g.O.Extensions && g.coin(0.3) {
			for _, n := range g.distinct(1+g.R.Intn(2), func() string { return g.pick(extNames) }) {
				if g.O.NullExt && g.coin(0.25) {
					ms = append(ms, wire.M(n, wire.NullV()))
				} else {
					ms = append(ms, wire.M(n, g.Payload(2, true)))
				}
				g.Used[kind+".<x->"]++
			}
		}
		if kv.Extra && g.O.ExtraProps && g.coin(0.2) {
			for _, n := range g.distinct(1, func() string { return g.pick(extraKeywords) }) {
				ms = append(ms, wire.M(n, g.Payload(2, true)))
				g.Used[kind+".<extra>"]++
			}
		}
		if kind == "schema" && g.O.XOrder && g.coin(0.5) {
			name := "x-order"
			if g.coin(0.2) {
				// a differently-cased spelling is an ordinary extension, not the ordering key
				name = g.pick([]string{"X-Order", "X-order", "x-Order"})
			}
			ms = append(ms, wire.M(name, g.pickXOrder()))
		}
	}
	return wire.ObjV(ms...)
}

func (g *G) pickXOrder() wire.V {
	switch g.R.Intn(10) {
	case 0:
		return wire.StrV("first")
	case 1:
		return wire.NumV("1.5")
	case 2:
		return wire.NumV("-1")
	case 3:
		// negative ranks are ranks like any other (only a MISSING x-order reads as -1 inside the library)
		return wire.NumV(fmt.Sprint(-2 - g.R.Intn(3)))
	case 4:
		return wire.StrV(fmt.Sprint(g.R.Intn(3) - 1)) // numerals given as strings
	case 5:
		// strings on which decimal reading (Atoi) and base detection differ: leading zeros are decimal, prefixes and
		// underscores are no numerals at all
		return wire.StrV([]string{"010", "08", "09", "011", "0x10", "0b11", "1_0", "+2", "-0", "007"}[g.R.Intn(10)])
	}
	return wire.NumV(fmt.Sprint(g.R.Intn(3)))
}

// leaf: a minimal non-empty value of a nested type.
func (g *G) leaf(t string) wire.V {
	leafKind := func(k string) wire.V {
		switch k {
		case "schema":
			return wire.ObjV(wire.M("type", wire.StrV(g.pick(schemaTypes))))
		default:
			kk := g.V.Kinds[k]
			vn := ""
			if len(kk.Variants) > 0 {
				for _, n := range kk.VariantNames() {
					if n != "ref" {
						vn = n
						break
					}
				}
			}
			return g.Build(k, vn, nil, 0, false)
		}
	}
	switch {
	case t == "schemaOrBool":
		return wire.BoolV(g.coin(0.5))
	case t == "schemaOrArray":
		return leafKind("schema")
	case t == "dependencies":
		return wire.ObjV(wire.M("a", wire.ArrV(wire.StrV("b"))))
	case strings.HasPrefix(t, "#"):
		return leafKind(t[1:])
	case strings.HasPrefix(t, "[#"):
		return wire.ArrV(leafKind(t[2 : len(t)-1]))
	case strings.HasPrefix(t, "{#"):
		return wire.ObjV(wire.M(g.Name(), leafKind(t[2:len(t)-1])))
	}
	return g.Value(t, 0)
}

// ---- Valid mode (C19): keep generated documents inside the Swagger 2.0 meta-schema ----

// members of the draft-4 vocabulary that the Swagger 2.0 schema object does not admit
var validSkip = map[string]bool{"schema.id": true, "schema.$schema": true, "schema.additionalItems": true, "schema.definitions": true,
	"schema.patternProperties": true, "schema.dependencies": true, "schema.anyOf": true, "schema.oneOf": true, "schema.not": true,
	"schema.$ref": true, "pathItem.$ref": true}

func setM(ms []wire.Member, k string, v wire.V) []wire.Member {
	for i := range ms {
		if ms[i].K == k {
			ms[i].V = v
			return ms
		}
	}
	return append(ms, wire.M(k, v))
}
func delM(ms []wire.Member, k string) []wire.Member {
	out := ms[:0:0]
	for _, m := range ms {
		if m.K != k {
			out = append(out, m)
		}
	}
	return out
}
func getM(ms []wire.Member, k string) (wire.V, bool) {
	for _, m := range ms {
		if m.K == k {
			return m.V, true
		}
	}
	return wire.V{}, false
}

func uniqueArr(v wire.V) wire.V {
	seen := map[string]bool{}
	out := wire.V{Kind: wire.Arr, A: []wire.V{}}
	for _, x := range v.A {
		if !seen[x.Canon()] {
			seen[x.Canon()] = true
			out.A = append(out.A, x)
		}
	}
	return out
}

func (g *G) fixValid(kind, variant string, ms []wire.Member, depth int) []wire.Member {
	mimes := []string{"application/json", "text/plain", "application/xml", "application/vnd.x+json"}
	pickSome := func(xs []string) wire.V {
		out := []wire.V{}
		for _, x := range g.distinct(1+g.R.Intn(2), func() string { return g.pick(xs) }) {
			out = append(out, wire.StrV(x))
		}
		return wire.ArrV(out...)
	}
	fixCommon := func() {
		if v, ok := getM(ms, "multipleOf"); ok && (strings.HasPrefix(v.N, "-") || v.N == "0" || v.N == "0.0") {
			ms = setM(ms, "multipleOf", wire.NumV("2"))
		}
		for _, k := range []string{"enum", "required"} {
			if v, ok := getM(ms, k); ok && v.Kind == wire.Arr {
				ms = setM(ms, k, uniqueArr(v))
			}
		}
	}
	switch kind {
	case "swagger":
		if _, ok := getM(ms, "host"); ok {
			ms = setM(ms, "host", wire.StrV(g.pick([]string{"example.com", "api.example.com:8080", "localhost"})))
		}
		if _, ok := getM(ms, "basePath"); ok {
			ms = setM(ms, "basePath", wire.StrV(g.pick([]string{"/", "/v1", "/api/v2"})))
		}
		for _, k := range []string{"consumes", "produces"} {
			if _, ok := getM(ms, k); ok {
				ms = setM(ms, k, pickSome(mimes))
			}
		}
		if _, ok := getM(ms, "schemes"); ok {
			ms = setM(ms, "schemes", pickSome([]string{"http", "https", "ws", "wss"}))
		}
		if v, ok := getM(ms, "tags"); ok {
			seen := map[string]bool{}
			out := wire.V{Kind: wire.Arr, A: []wire.V{}}
			for _, t := range v.A {
				n, _ := t.Get("name")
				if !seen[n.S] {
					seen[n.S] = true
					out.A = append(out.A, t)
				}
			}
			ms = setM(ms, "tags", out)
		}
		if v, ok := getM(ms, "security"); ok {
			ms = setM(ms, "security", uniqueArr(v))
		}
		ms = delM(ms, "id")
	case "operation":
		for _, k := range []string{"consumes", "produces"} {
			if _, ok := getM(ms, k); ok {
				ms = setM(ms, k, pickSome(mimes))
			}
		}
		if _, ok := getM(ms, "schemes"); ok {
			ms = setM(ms, "schemes", pickSome([]string{"http", "https", "ws", "wss"}))
		}
		if v, ok := getM(ms, "tags"); ok {
			ms = setM(ms, "tags", uniqueArr(v))
		}
		if v, ok := getM(ms, "security"); ok {
			ms = setM(ms, "security", uniqueArr(v))
		}
		if v, ok := getM(ms, "parameters"); ok {
			ms = setM(ms, "parameters", uniqueArr(v))
		}
		if v, ok := getM(ms, "responses"); ok {
			has := false
			for _, m := range v.O {
				if !strings.HasPrefix(m.K, "x-") {
					has = true
				}
			}
			if !has {
				ms = setM(ms, "responses", v.Set("default", wire.ObjV(wire.M("description", wire.StrV("d")))))
			}
		}
	case "pathItem":
		if v, ok := getM(ms, "parameters"); ok {
			ms = setM(ms, "parameters", uniqueArr(v))
		}
	case "schema":
		fixCommon()
		if v, ok := getM(ms, "type"); ok && v.S == "null" {
			ms = setM(ms, "type", wire.StrV("object"))
		}
		ms = delM(ms, "nullable")
	case "parameter":
		if variant == "nonbody" {
			fixCommon()
			ms = delM(ms, "nullable")
			ms = delM(ms, "example")
			in, _ := getM(ms, "in")
			ty, _ := getM(ms, "type")
			if ty.S == "file" && in.S != "formData" {
				ms = setM(ms, "type", wire.StrV("string"))
				ty = wire.StrV("string")
			}
			if in.S == "path" {
				ms = setM(ms, "required", wire.BoolV(true))
			}
			if ty.S == "array" {
				if _, ok := getM(ms, "items"); !ok {
					ms = setM(ms, "items", wire.ObjV(wire.M("type", wire.StrV("string"))))
				}
			}
			if cf, ok := getM(ms, "collectionFormat"); ok && cf.S == "multi" && in.S != "query" && in.S != "formData" {
				ms = setM(ms, "collectionFormat", wire.StrV("csv"))
			}
			if _, ok := getM(ms, "allowEmptyValue"); ok && in.S != "query" && in.S != "formData" {
				ms = delM(ms, "allowEmptyValue")
			}
		}
	case "items", "header":
		fixCommon()
		ms = delM(ms, "nullable")
		ms = delM(ms, "example")
		ms = delM(ms, "$ref")
		if ty, _ := getM(ms, "type"); ty.S == "array" {
			if _, ok := getM(ms, "items"); !ok {
				ms = setM(ms, "items", wire.ObjV(wire.M("type", wire.StrV("string"))))
			}
		}
	}
	return ms
}
