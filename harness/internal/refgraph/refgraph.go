// Package refgraph: generator of multi-document Swagger reference graphs and an independent (kind-directed)
// semantics for them: what a $ref designates (net/url ResolveReference + RFC 6901), the fully dereferenced
// tree of an element to a given depth, the reference graph with its cycles. Nothing here calls the code under
// test.
package refgraph

import (
	"crypto/sha256"
	"encoding/hex"
	"fmt"
	"math/rand"
	"net/url"
	"path"
	"sort"
	"strconv"
	"strings"

	"verif/harness/internal/wire"
)

// World: documents by canonical URL (no fragment).
type World struct {
	Docs map[string]wire.V
	Root string // URL of the root document
}

func (w *World) Clone() *World {
	n := &World{Docs: map[string]wire.V{}, Root: w.Root}
	for k, v := range w.Docs {
		n.Docs[k] = v
	}
	return n
}

func (w *World) URLs() []string {
	var out []string
	for k := range w.Docs {
		out = append(out, k)
	}
	sort.Strings(out)
	return out
}

// ---- RFC 6901 ----

func PtrTokens(fragment string) ([]string, error) {
	if fragment == "" {
		return nil, nil
	}
	if !strings.HasPrefix(fragment, "/") {
		return nil, fmt.Errorf("pointer must start with /: %q", fragment)
	}
	parts := strings.Split(fragment[1:], "/")
	for i, p := range parts {
		parts[i] = strings.ReplaceAll(strings.ReplaceAll(p, "~1", "/"), "~0", "~")
	}
	return parts, nil
}

func PtrEscape(tok string) string {
	return strings.ReplaceAll(strings.ReplaceAll(tok, "~", "~0"), "/", "~1")
}

func Eval(v wire.V, toks []string) (wire.V, bool) {
	cur := v
	for _, t := range toks {
		switch cur.Kind {
		case wire.Obj:
			x, ok := cur.Get(t)
			if !ok {
				return wire.V{}, false
			}
			cur = x
		case wire.Arr:
			i, err := strconv.Atoi(t)
			if err != nil || i < 0 || i >= len(cur.A) || (len(t) > 1 && t[0] == '0') {
				return wire.V{}, false
			}
			cur = cur.A[i]
		default:
			return wire.V{}, false
		}
	}
	return cur, true
}

// Key: canonical identity of a reference target: document URL + JSON pointer tokens.
type Key struct {
	Doc string
	Ptr string // escaped pointer text ("" = whole document)
}

func (k Key) String() string {
	if k.Ptr == "" {
		return k.Doc
	}
	return k.Doc + "#" + k.Ptr
}

// ResolveRef: RFC 3986 resolution of ref against the URL of the containing document (Go's net/url), then the
// fragment as a JSON pointer.
func ResolveRef(base string, ref string) (Key, error) {
	b, err := url.Parse(base)
	if err != nil {
		return Key{}, err
	}
	r, err := url.Parse(ref)
	if err != nil {
		return Key{}, err
	}
	t := b.ResolveReference(r)
	frag := t.Fragment
	t.Fragment = ""
	t.RawFragment = ""
	toks, err := PtrTokens(frag)
	if err != nil {
		return Key{}, err
	}
	ptr := ""
	for _, tk := range toks {
		ptr += "/" + PtrEscape(tk)
	}
	return Key{Doc: t.String(), Ptr: ptr}, nil
}

func (w *World) Lookup(k Key) (wire.V, bool) {
	d, ok := w.Docs[k.Doc]
	if !ok {
		return wire.V{}, false
	}
	toks, _ := PtrTokens(k.Ptr)
	return Eval(d, toks)
}

// ---- kind-directed structure ----

// Child: a sub-element position of an element.
type Child struct {
	Path []string // pointer tokens from the element
	Kind string   // schema | parameter | response | pathItem | operation | header-less kinds are not elements
	Val  wire.V
}

var schemaSingle = []string{"not", "additionalProperties", "additionalItems"}
var schemaArrays = []string{"allOf", "anyOf", "oneOf"}
var schemaMaps = []string{"properties", "patternProperties", "definitions", "dependencies"}
var opNames = []string{"get", "put", "post", "delete", "options", "head", "patch"}

// Children lists the sub-element positions of an element of the kind, in a fixed order.
func Children(kind string, v wire.V) []Child {
	var out []Child
	if v.Kind != wire.Obj {
		return nil
	}
	add := func(kind string, val wire.V, path ...string) {
		if val.Kind == wire.Obj {
			out = append(out, Child{append([]string{}, path...), kind, val})
		}
	}
	switch kind {
	case "schema":
		if it, ok := v.Get("items"); ok {
			if it.Kind == wire.Obj {
				add("schema", it, "items")
			}
			for i, x := range it.A {
				add("schema", x, "items", fmt.Sprint(i))
			}
		}
		for _, k := range schemaArrays {
			if a, ok := v.Get(k); ok {
				for i, x := range a.A {
					add("schema", x, k, fmt.Sprint(i))
				}
			}
		}
		for _, k := range schemaSingle {
			if x, ok := v.Get(k); ok {
				add("schema", x, k)
			}
		}
		for _, k := range schemaMaps {
			if m, ok := v.Get(k); ok && m.Kind == wire.Obj {
				for _, mm := range sortedMembers(m) {
					add("schema", mm.V, k, mm.K)
				}
			}
		}
	case "parameter", "response":
		if x, ok := v.Get("schema"); ok {
			add("schema", x, "schema")
		}
	case "pathItem":
		if ps, ok := v.Get("parameters"); ok {
			for i, x := range ps.A {
				add("parameter", x, "parameters", fmt.Sprint(i))
			}
		}
		for _, o := range opNames {
			if x, ok := v.Get(o); ok {
				add("operation", x, o)
			}
		}
	case "operation":
		if ps, ok := v.Get("parameters"); ok {
			for i, x := range ps.A {
				add("parameter", x, "parameters", fmt.Sprint(i))
			}
		}
		if rs, ok := v.Get("responses"); ok && rs.Kind == wire.Obj {
			for _, m := range sortedMembers(rs) {
				if strings.HasPrefix(strings.ToLower(m.K), "x-") {
					continue
				}
				add("response", m.V, "responses", m.K)
			}
		}
	case "swagger":
		if m, ok := v.Get("definitions"); ok && m.Kind == wire.Obj {
			for _, mm := range sortedMembers(m) {
				add("schema", mm.V, "definitions", mm.K)
			}
		}
		if m, ok := v.Get("parameters"); ok && m.Kind == wire.Obj {
			for _, mm := range sortedMembers(m) {
				add("parameter", mm.V, "parameters", mm.K)
			}
		}
		if m, ok := v.Get("responses"); ok && m.Kind == wire.Obj {
			for _, mm := range sortedMembers(m) {
				add("response", mm.V, "responses", mm.K)
			}
		}
		if m, ok := v.Get("paths"); ok && m.Kind == wire.Obj {
			for _, mm := range sortedMembers(m) {
				if strings.HasPrefix(mm.K, "/") {
					add("pathItem", mm.V, "paths", mm.K)
				}
			}
		}
	}
	return out
}

func sortedMembers(m wire.V) []wire.Member {
	ms := append([]wire.Member{}, m.O...)
	sort.SliceStable(ms, func(i, j int) bool { return ms[i].K < ms[j].K })
	return ms
}

// childKeys: the member names of an element that hold sub-elements (removed from its head).
func childKeys(kind string) []string {
	switch kind {
	case "schema":
		return append(append(append([]string{"items"}, schemaArrays...), schemaSingle...), schemaMaps...)
	case "parameter", "response":
		return []string{"schema"}
	case "pathItem":
		return append([]string{"parameters"}, opNames...)
	case "operation":
		return []string{"parameters", "responses"}
	case "swagger":
		return []string{"definitions", "parameters", "responses", "paths"}
	}
	return nil
}

// RefOf returns the $ref string of an element, if it is a reference holder.
func RefOf(v wire.V) (string, bool) {
	if v.Kind != wire.Obj {
		return "", false
	}
	r, ok := v.Get("$ref")
	if !ok || r.Kind != wire.Str {
		return "", false
	}
	return r.S, true
}

// Unfold: the fully dereferenced tree of an element, to the given depth, as canonical text. A `$ref`
// replaces its holder (siblings are ignored); a reference costs no depth but at most 64 consecutive hops.
func (w *World) Unfold(doc string, kind string, v wire.V, depth int) string {
	var sb strings.Builder
	w.unfold(&sb, doc, kind, v, depth, 0)
	return sb.String()
}

func (w *World) unfold(sb *strings.Builder, doc, kind string, v wire.V, depth, hops int) {
	if kind != "operation" && kind != "swagger" {
		if ref, ok := RefOf(v); ok && !(kind == "schema" && ref == "" && false) {
			if hops > 64 {
				sb.WriteString("<divergent>")
				return
			}
			k, err := ResolveRef(doc, ref)
			if err != nil {
				sb.WriteString("<bad-ref>")
				return
			}
			t, ok := w.Lookup(k)
			if !ok || t.Kind != wire.Obj {
				sb.WriteString("<dangling:" + k.String() + ">")
				return
			}
			w.unfold(sb, k.Doc, kind, t, depth, hops+1)
			return
		}
	}
	if depth <= 0 {
		sb.WriteString("…")
		return
	}
	head := v
	for _, ck := range childKeys(kind) {
		// keep non-element values of these members (e.g. additionalProperties: true, dependencies string arrays)
		if x, ok := head.Get(ck); ok {
			head = head.Set(ck, stripElements(kind, ck, x))
		}
	}
	sb.WriteString(kind)
	sb.WriteString(head.Canon())
	sb.WriteString("[")
	for _, c := range Children(kind, v) {
		sb.WriteString(strings.Join(c.Path, "/"))
		sb.WriteString("=")
		w.unfold(sb, doc, c.Kind, c.Val, depth-1, 0)
		sb.WriteString(";")
	}
	sb.WriteString("]")
}

// stripElements replaces element-valued parts of a child-holding member by a marker, keeping the rest.
func stripElements(kind, key string, x wire.V) wire.V {
	mark := wire.StrV("<element>")
	switch x.Kind {
	case wire.Obj:
		isMap := false
		for _, k := range schemaMaps {
			if k == key {
				isMap = true
			}
		}
		if kind == "swagger" || key == "responses" {
			isMap = true
		}
		if isMap {
			out := wire.ObjV()
			for _, m := range x.O {
				if m.V.Kind == wire.Obj {
					out = out.Set(m.K, mark)
				} else {
					out = out.Set(m.K, m.V)
				}
			}
			return out
		}
		return mark
	case wire.Arr:
		out := wire.V{Kind: wire.Arr, A: []wire.V{}}
		for _, e := range x.A {
			if e.Kind == wire.Obj {
				out.A = append(out.A, mark)
			} else {
				out.A = append(out.A, e)
			}
		}
		return out
	}
	return x
}

// ---- reference graph ----

// Occ: one occurrence of a $ref at an element position.
type Occ struct {
	Doc    string   // containing document
	Path   []string // pointer tokens within that document
	Kind   string
	Ref    string
	Target Key
	Bad    bool // unparsable reference
}

// RefsUnder lists the references at element positions under an element (not following them).
func RefsUnder(doc string, path []string, kind string, v wire.V, out *[]Occ) {
	if kind != "operation" && kind != "swagger" {
		if ref, ok := RefOf(v); ok {
			k, err := ResolveRef(doc, ref)
			*out = append(*out, Occ{Doc: doc, Path: append([]string{}, path...), Kind: kind, Ref: ref, Target: k, Bad: err != nil})
			if kind == "schema" {
				return // siblings of a schema $ref are not expanded
			}
		}
	}
	for _, c := range Children(kind, v) {
		RefsUnder(doc, append(append([]string{}, path...), c.Path...), c.Kind, c.Val, out)
	}
}

// Graph: canonical targets reachable from the root's element positions, with edges to the targets of the
// references found under each.
type Graph struct {
	Edges   map[Key][]Key
	KindOf  map[Key]string
	Roots   []Occ        // references occurring directly in the root document
	Missing map[Key]bool // targets that do not resolve to an object
}

func (w *World) BuildGraph() *Graph {
	g := &Graph{Edges: map[Key][]Key{}, KindOf: map[Key]string{}, Missing: map[Key]bool{}}
	root := w.Docs[w.Root]
	RefsUnder(w.Root, nil, "swagger", root, &g.Roots)
	var visit func(o Occ)
	visit = func(o Occ) {
		if o.Bad {
			return
		}
		k := o.Target
		if _, seen := g.KindOf[k]; seen {
			return
		}
		g.KindOf[k] = o.Kind
		t, ok := w.Lookup(k)
		if !ok || t.Kind != wire.Obj {
			g.Missing[k] = true
			return
		}
		var occs []Occ
		toks, _ := PtrTokens(k.Ptr)
		RefsUnder(k.Doc, toks, o.Kind, t, &occs)
		for _, oo := range occs {
			if !oo.Bad {
				g.Edges[k] = append(g.Edges[k], oo.Target)
			}
		}
		for _, oo := range occs {
			visit(oo)
		}
	}
	for _, o := range g.Roots {
		visit(o)
	}
	return g
}

// OnCycle: k reaches itself through at least one edge.
func (g *Graph) OnCycle(k Key) bool {
	seen := map[Key]bool{}
	stack := append([]Key{}, g.Edges[k]...)
	for len(stack) > 0 {
		x := stack[len(stack)-1]
		stack = stack[:len(stack)-1]
		if x == k {
			return true
		}
		if seen[x] {
			continue
		}
		seen[x] = true
		stack = append(stack, g.Edges[x]...)
	}
	return false
}

func (g *Graph) Cyclic() bool {
	for k := range g.KindOf {
		if g.OnCycle(k) {
			return true
		}
	}
	return false
}

// ---- generator ----

type Options struct {
	Docs          int  // number of documents (1..6)
	Defs          int  // definitions per document
	Elements      bool // parameters / responses / path items with references
	Cycles        bool // allow back edges
	NastyNames    bool
	HTTP          bool    // allow an http-hosted document
	SwaggerOnly   bool    // only the sub-schema keywords of the Swagger 2.0 schema object (documents valid against the meta-schema)
	ElementCycles bool    // parameters / responses / path items may refer to each other in cycles (C04 only: such documents have no meaning)
	CaseTwins     bool    // names that differ from another name of the same section only by letter case
	HTTPRoot      bool    // the root document lives at an http URL
	EscapedLocs   bool    // every document lives at a location spelled with percent-escapes (blank, brackets, non-ASCII)
	Twins         bool    // documents sharing their path with the root on other hosts / schemes, prefix-named documents
	Spellings     bool    // vary the spelling of references (./, absolute, …)
	NestedPtrs    bool    // references to nested pointer targets
	WholeDoc      bool    // a document that IS a schema, refers to itself with "#" and is referred to without a fragment
	RefP          float64 // probability that a sub-schema position holds a $ref
}

type node struct {
	doc  int
	kind string
	name string
	ptr  []string
}

var docLayouts = []string{"file:///v/r/root.json", "file:///v/r/other.json", "file:///v/r/sub/s.json", "file:///v/p.json", "file:///v/q/o.json", "http://h.example/api/x.json",
	// the same path with a query: another document (the query is part of what identifies a document served over http)
	"http://h.example/api/x.json?rev=2"}

// twinLayouts: documents that share their URL path with another document (other host, other scheme), or whose
// URL is a textual prefix / extension of another's: code that identifies documents by path alone or by string
// prefix confuses them.
var twinLayouts = []string{"file:///v/r/root.json", "http://h.example/v/r/root.json", "https://h.example/v/r/root.json", "http://mirror.example/v/r/root.json",
	"file:///v/r/root.jsonx", "file:///v/r/root.json.d/s.json", "http://h.example/v/r/root.json2",
	"file:///v/r-common/items.json", "file:///v/r2/o.json", "file:///v/rr.json",
	// same host name, another port; same location up to letter case (two different documents)
	"http://h.example:8080/v/r/root.json", "file:///v/r/Root.json", "file:///v/R/root.json",
	// same scheme, host and path, told apart by their query only
	"http://h.example/v/r/root.json?rev=2", "http://h.example/v/r/root.json?rev=3"}

// httpLayouts: the root document itself is served over http
var httpLayouts = []string{"http://h.example/api/root.json", "http://h.example/api/other.json", "http://h.example/api/sub/s.json", "https://o.example/x.json", "http://h.example/p.json",
	// the root's host name on another port: another site (same path as the root, and a sibling of it)
	"http://h.example:8080/api/root.json", "http://h.example:8080/api/other.json", "http://h.example/api/Other.json",
	"http://h.example/api/other.json?v=2", "http://h.example/api/root.json?v=2"}

// escLayouts: locations whose spelling needs percent-escapes in every document URL
var escLayouts = []string{"file:///v/my%20api/root.json", "file:///v/my%20api/other%20one.json", "file:///v/my%20api/v%5B2%5D/s.json", "file:///v/%C3%A9t%C3%A9/p.json", "file:///v/my%20api/q%20r/o.json"}

var nastyDefNames = []string{"a/b", "a~b", "a%20b", "a b", "é", "{x}", "a#b", "a?b", "x.y", "a%b"}

// relSpelling writes a reference from document `from` to document `to` + pointer.
func relSpelling(r *rand.Rand, from, to string, ptr []string, vary bool) string {
	frag := ""
	if len(ptr) > 0 {
		for _, t := range ptr {
			frag += "/" + PtrEscape(t)
		}
		// percent-escape what a URL fragment cannot hold literally; url.URL does it for us
		u := url.URL{Fragment: frag}
		frag = "#" + u.EscapedFragment()
	}
	if from == to {
		if frag == "" {
			return "#"
		}
		if vary && r.Intn(8) == 0 {
			// the document named by its file name, by ./file or by its URL: still a reference into the document itself
			fu, err := url.Parse(from)
			if err == nil && fu.RawQuery == "" {
				switch r.Intn(3) {
				case 0:
					return (&url.URL{Path: path.Base(fu.Path)}).EscapedPath() + frag
				case 1:
					return "./" + (&url.URL{Path: path.Base(fu.Path)}).EscapedPath() + frag
				default:
					return from + frag
				}
			}
		}
		return frag
	}
	fu, _ := url.Parse(from)
	tu, _ := url.Parse(to)
	if fu.Scheme != tu.Scheme || fu.Host != tu.Host || (vary && r.Intn(5) == 0) {
		if vary && tu.RawQuery == "" && r.Intn(4) == 0 {
			// an absolute reference whose path is not in its simplest form (dot segments; a doubled slash would be
			// another path for RFC 3986, and is collapsed by the library: left out)
			dir, file := path.Split(tu.Path)
			alt := *tu
			alt.Path = dir + []string{"./", "x/../", "./x/../"}[r.Intn(3)] + file
			return alt.String() + frag
		}
		return to + frag
	}
	if fu.RawQuery != "" || tu.RawQuery != "" {
		// documents told apart by a query are referred to, and refer to others, by absolute URL only: the library
		// lets a relative reference inherit the query of its base (its own tests pin that), which is outside the
		// reference classes the properties quantify over
		return to + frag
	}
	fd := strings.Split(strings.TrimPrefix(fu.Path, "/"), "/")
	td := strings.Split(strings.TrimPrefix(tu.Path, "/"), "/")
	fd = fd[:len(fd)-1]
	i := 0
	for i < len(fd) && i < len(td)-1 && fd[i] == td[i] {
		i++
	}
	rel := strings.Repeat("../", len(fd)-i) + strings.Join(td[i:], "/")
	if vary {
		switch r.Intn(6) {
		case 0:
			if !strings.HasPrefix(rel, "../") {
				rel = "./" + rel
			}
		case 1:
			rel = tu.Path // root-relative
		}
	}
	return (&url.URL{Path: rel}).EscapedPath() + frag
}

// Generate builds a random world.
func Generate(r *rand.Rand, o Options) *World {
	nd := o.Docs
	if nd < 1 {
		nd = 1
	}
	layouts := docLayouts
	if o.Twins {
		layouts = twinLayouts
	}
	if o.HTTPRoot {
		layouts = httpLayouts
	}
	if o.EscapedLocs {
		layouts = escLayouts
	}
	urls := []string{layouts[0]}
	perm := r.Perm(len(layouts) - 1)
	for _, i := range perm {
		if len(urls) >= nd {
			break
		}
		if !o.HTTP && !o.Twins && !o.HTTPRoot && strings.HasPrefix(layouts[i+1], "http") {
			continue
		}
		urls = append(urls, layouts[i+1])
	}
	nd = len(urls)
	// nodes
	var nodes []node
	names := func(n int, prefix string) []string {
		var out []string
		for i := 0; i < n; i++ {
			if o.CaseTwins && i > 0 && r.Intn(2) == 0 {
				// the previous name with its first letter in upper case: "d0" and "D0" are different members
				prev := out[len(out)-1]
				out = append(out, strings.ToUpper(prev[:1])+prev[1:])
			} else if o.NastyNames && r.Intn(4) == 0 {
				out = append(out, nastyDefNames[r.Intn(len(nastyDefNames))]+fmt.Sprint(i))
			} else {
				out = append(out, fmt.Sprintf("%s%d", prefix, i))
			}
		}
		return out
	}
	type docNodes struct{ defs, params, resps, pis []string }
	dn := make([]docNodes, nd)
	for d := 0; d < nd; d++ {
		dn[d].defs = names(1+r.Intn(maxi(o.Defs, 1)), "d")
		for _, n := range dn[d].defs {
			nodes = append(nodes, node{d, "schema", n, []string{"definitions", n}})
		}
		if o.Elements {
			dn[d].params = names(r.Intn(3), "p")
			dn[d].resps = names(r.Intn(3), "r")
			if o.ElementCycles {
				// enough elements, mostly references, for cycles of length two and more to appear
				dn[d].params = names(2+r.Intn(2), "p")
				dn[d].resps = names(2+r.Intn(2), "r")
			}
			for _, n := range dn[d].params {
				nodes = append(nodes, node{d, "parameter", n, []string{"parameters", n}})
			}
			for _, n := range dn[d].resps {
				nodes = append(nodes, node{d, "response", n, []string{"responses", n}})
			}
			if d > 0 {
				dn[d].pis = names(r.Intn(2), "pi")
				for _, n := range dn[d].pis {
					nodes = append(nodes, node{d, "pathItem", n, []string{"x-pathItems", n}})
				}
			}
		}
	}
	order := map[string]int{} // node identity -> index, for acyclic generation
	for i, n := range nodes {
		order[fmt.Sprint(n.doc, n.ptr)] = i
	}
	// a random rank: references that must stay well-founded (all element references; schema references when
	// cycles are off) only go from a lower to a higher rank - so that an element of an imported document can
	// point BACK into the root document, and chains can zig-zag between documents, without ever closing a loop
	rank := r.Perm(len(nodes))
	pickTarget := func(kind string, from int) (node, bool) {
		var cands []node
		for i, n := range nodes {
			if n.kind != kind {
				continue
			}
			wellFounded := (kind == "schema" && !o.Cycles) || (kind != "schema" && !o.ElementCycles)
			if wellFounded && from >= 0 && from < len(nodes) && rank[i] <= rank[from] {
				continue // (from < 0: a reference from the paths of the root, which nothing refers to)
			}
			cands = append(cands, n)
		}
		if len(cands) == 0 {
			return node{}, false
		}
		return cands[r.Intn(len(cands))], true
	}
	refTo := func(fromDoc int, t node) wire.V {
		ptr := t.ptr
		if o.NestedPtrs && t.kind == "schema" {
			switch r.Intn(8) {
			case 0:
				ptr = append(append([]string{}, ptr...), "properties", "k")
			case 1:
				// through a keyword of the Swagger-specific part of a schema (typed roots look it up in a second step)
				ptr = append(append([]string{}, ptr...), "example")
			}
		}
		return wire.ObjV(wire.M("$ref", wire.StrV(relSpelling(r, urls[fromDoc], urls[t.doc], ptr, o.Spellings))))
	}
	types := []string{"string", "integer", "boolean", "number"}
	var genSchema func(doc, self, depth int) wire.V
	genSchema = func(doc, self, depth int) wire.V {
		if depth <= 0 || r.Intn(3) == 0 {
			if r.Float64() < o.RefP {
				if t, ok := pickTarget("schema", self); ok {
					return refTo(doc, t)
				}
			}
			return wire.ObjV(wire.M("type", wire.StrV(types[r.Intn(len(types))])))
		}
		s := wire.ObjV(wire.M("type", wire.StrV("object")))
		pos := []string{"properties", "items", "allOf", "additionalProperties", "not", "anyOf", "oneOf", "patternProperties", "dependencies", "additionalItems", "definitions", "itemsTuple"}
		if o.SwaggerOnly {
			// the schema object of Swagger 2.0 knows only these sub-schema keywords
			pos = []string{"properties", "items", "allOf", "additionalProperties"}
		}
		for i := 0; i < 1+r.Intn(3); i++ {
			p := pos[r.Intn(len(pos))]
			if i == 0 && r.Intn(2) == 0 {
				p = "properties"
			}
			switch p {
			case "properties", "patternProperties", "definitions":
				m := wire.ObjV()
				for j := 0; j < 1+r.Intn(2); j++ {
					m = m.Set(fmt.Sprintf("k%d", j), genSchema(doc, self, depth-1))
				}
				if p == "properties" {
					m = m.Set("k", genSchema(doc, self, depth-1))
				}
				s = s.Set(p, m)
			case "dependencies":
				s = s.Set(p, wire.ObjV(wire.M("k0", genSchema(doc, self, depth-1)), wire.M("k1", wire.ArrV(wire.StrV("k0")))))
			case "items", "not", "additionalProperties", "additionalItems":
				s = s.Set(p, genSchema(doc, self, depth-1))
			case "itemsTuple":
				s = s.Set("items", wire.ArrV(genSchema(doc, self, depth-1), genSchema(doc, self, depth-1)))
			default:
				s = s.Set(p, wire.ArrV(genSchema(doc, self, depth-1), genSchema(doc, self, depth-1)))
			}
		}
		if r.Intn(3) == 0 {
			s = s.Set("description", wire.StrV(fmt.Sprintf("s%d", r.Intn(100))))
		}
		if r.Intn(5) == 0 {
			s = s.Set("example", wire.ObjV(wire.M("$ref", wire.StrV("#/not/a/reference"))))
		}
		if r.Intn(4) == 0 {
			// a scalar type beside composition keywords is legal JSON Schema: the keywords are walked all the same
			s = s.Set("type", wire.StrV(types[r.Intn(len(types))]))
		}
		return s
	}
	genParam := func(doc, self int, allowRef bool) wire.V {
		if allowRef && (r.Float64() < o.RefP || (o.ElementCycles && r.Intn(4) > 0)) {
			if t, ok := pickTarget("parameter", self); ok {
				return refTo(doc, t)
			}
		}
		if r.Intn(2) == 0 {
			return wire.ObjV(wire.M("name", wire.StrV(fmt.Sprintf("b%d", r.Intn(50)))), wire.M("in", wire.StrV("body")), wire.M("schema", genSchema(doc, self, 1)))
		}
		return wire.ObjV(wire.M("name", wire.StrV(fmt.Sprintf("q%d", r.Intn(50)))), wire.M("in", wire.StrV("query")), wire.M("type", wire.StrV("string")))
	}
	genResp := func(doc, self int, allowRef bool) wire.V {
		if allowRef && (r.Float64() < o.RefP || (o.ElementCycles && r.Intn(4) > 0)) {
			if t, ok := pickTarget("response", self); ok {
				return refTo(doc, t)
			}
		}
		resp := wire.ObjV(wire.M("description", wire.StrV(fmt.Sprintf("resp%d", r.Intn(50)))))
		if r.Intn(3) > 0 {
			resp = resp.Set("schema", genSchema(doc, self, 1))
		}
		return resp
	}
	genOp := func(doc, self int) wire.V {
		op := wire.ObjV()
		if r.Intn(2) == 0 {
			op = op.Set("parameters", wire.ArrV(genParam(doc, self, true), genParam(doc, self, true)))
		}
		rs := wire.ObjV(wire.M("200", genResp(doc, self, true)))
		if r.Intn(2) == 0 {
			rs = rs.Set("default", genResp(doc, self, true))
		}
		return op.Set("responses", rs)
	}
	genPathItem := func(doc, self int, allowRef bool) wire.V {
		if allowRef && (r.Float64() < o.RefP || (o.ElementCycles && r.Intn(4) > 0)) {
			if t, ok := pickTarget("pathItem", self); ok {
				return refTo(doc, t)
			}
		}
		pi := wire.ObjV()
		if r.Intn(2) == 0 {
			pi = pi.Set("parameters", wire.ArrV(genParam(doc, self, true)))
		}
		pi = pi.Set(opNames[r.Intn(len(opNames))], genOp(doc, self))
		if r.Intn(3) == 0 {
			pi = pi.Set(opNames[r.Intn(len(opNames))], genOp(doc, self))
		}
		return pi
	}
	w := &World{Docs: map[string]wire.V{}, Root: urls[0]}
	for d := 0; d < nd; d++ {
		doc := wire.ObjV()
		if d == 0 {
			doc = wire.ObjV(wire.M("swagger", wire.StrV("2.0")), wire.M("info", wire.ObjV(wire.M("title", wire.StrV("t")), wire.M("version", wire.StrV("1")))))
		}
		idx := func(n node) int { return order[fmt.Sprint(n.doc, n.ptr)] }
		defs := wire.ObjV()
		for _, n := range dn[d].defs {
			self := idx(node{d, "schema", n, []string{"definitions", n}})
			s := genSchema(d, self, 2)
			if !o.NestedPtrs && !o.SwaggerOnly {
				switch r.Intn(10) {
				case 0:
					// a schema whose only sub-schemas sit under the two keywords that are easiest to forget
					s = wire.ObjV(wire.M("type", wire.StrV("array")), wire.M("additionalItems", genSchema(d, self, 1)),
						wire.M("dependencies", wire.ObjV(wire.M("k0", genSchema(d, self, 1)), wire.M("k1", wire.ArrV(wire.StrV("k0"))))))
					defs = defs.Set(n, s)
					continue
				case 1:
					if d > 0 {
						// the empty schema: a legal target
						defs = defs.Set(n, wire.ObjV())
						continue
					}
				}
			}
			if _, isRef := RefOf(s); !isRef {
				// make the nested pointer target exist
				p, _ := s.Get("properties")
				if p.Kind != wire.Obj {
					p = wire.ObjV()
				}
				if _, ok := p.Get("k"); !ok {
					p = p.Set("k", wire.ObjV(wire.M("type", wire.StrV("string"))))
				}
				s = s.Set("properties", p)
				if o.NestedPtrs {
					// a schema-shaped example: a legal target for a nested pointer
					s = s.Set("example", wire.ObjV(wire.M("type", wire.StrV("number")), wire.M("title", wire.StrV("example of "+n))))
				}
			}
			defs = defs.Set(n, s)
		}
		doc = doc.Set("definitions", defs)
		if o.Elements {
			ps := wire.ObjV()
			for _, n := range dn[d].params {
				ps = ps.Set(n, genParam(d, idx(node{d, "parameter", n, []string{"parameters", n}}), true))
			}
			if len(ps.O) > 0 {
				doc = doc.Set("parameters", ps)
			}
			rs := wire.ObjV()
			for _, n := range dn[d].resps {
				rs = rs.Set(n, genResp(d, idx(node{d, "response", n, []string{"responses", n}}), true))
			}
			if len(rs.O) > 0 {
				doc = doc.Set("responses", rs)
			}
			pis := wire.ObjV()
			for _, n := range dn[d].pis {
				pis = pis.Set(n, genPathItem(d, idx(node{d, "pathItem", n, []string{"x-pathItems", n}}), true))
			}
			if len(pis.O) > 0 {
				doc = doc.Set("x-pathItems", pis)
			}
		}
		if d == 0 {
			paths := wire.ObjV()
			if o.Elements {
				for i := 0; i < 1+r.Intn(2); i++ {
					paths = paths.Set(fmt.Sprintf("/p%d", i), genPathItem(0, -1, true))
				}
			} else {
				// a path whose response schema enters the definitions, so that every definition is reachable
				paths = paths.Set("/x", wire.ObjV(wire.M("get", wire.ObjV(wire.M("responses", wire.ObjV(wire.M("200", wire.ObjV(wire.M("description", wire.StrV("ok")), wire.M("schema", genSchema(0, -1, 1))))))))))
			}
			doc = doc.Set("paths", paths)
		}
		w.Docs[urls[d]] = doc
	}
	if o.WholeDoc {
		// a recursive schema that is a whole document: it refers to itself with "#" (a reference to the document that
		// CONTAINS it, not to the root of the expansion) and, sometimes, to a definition of the root's neighbour
		ru, _ := url.Parse(urls[0])
		tu := ru.ResolveReference(&url.URL{Path: "models/tree.json"})
		props := wire.ObjV(wire.M("child", wire.ObjV(wire.M("$ref", wire.StrV("#")))),
			wire.M("rest", wire.ObjV(wire.M("type", wire.StrV("array")), wire.M("items", wire.ObjV(wire.M("$ref", wire.StrV("#")))))),
			wire.M("label", wire.ObjV(wire.M("type", wire.StrV("string")))))
		if r.Intn(2) == 0 {
			props = props.Set("up", wire.ObjV(wire.M("$ref", wire.StrV("../"+path.Base(ru.Path)+"#/definitions/"+PtrEscape(dn[0].defs[0])))))
		}
		w.Docs[tu.String()] = wire.ObjV(wire.M("type", wire.StrV("object")), wire.M("description", wire.StrV("whole-document tree")), wire.M("properties", props))
		root := w.Docs[urls[0]]
		defs, _ := root.Get("definitions")
		defs = defs.Set("tree", wire.ObjV(wire.M("$ref", wire.StrV("models/tree.json"))))
		if r.Intn(2) == 0 {
			defs = defs.Set("forest", wire.ObjV(wire.M("type", wire.StrV("array")), wire.M("items", wire.ObjV(wire.M("$ref", wire.StrV("./models/tree.json#"))))))
		}
		root = root.Set("definitions", defs)
		paths, _ := root.Get("paths")
		paths = paths.Set("/tree", wire.ObjV(wire.M("get", wire.ObjV(wire.M("responses", wire.ObjV(wire.M("200", wire.ObjV(wire.M("description", wire.StrV("ok")), wire.M("schema", wire.ObjV(wire.M("$ref", wire.StrV("models/tree.json"))))))))))))
		w.Docs[urls[0]] = root.Set("paths", paths)
	}
	return w
}

func maxi(a, b int) int {
	if a > b {
		return a
	}
	return b
}

// ---- abstraction into the reference graphs of the Lean model (SpecModel/Expand/Core.lean) ----

// ATree: an element abstracted to a reference leaf (canonical target key) or a labelled node whose children are
// its sub-element positions in the fixed order of Children. The label stands for everything of the element that
// is not a sub-element (kind + canonical head, hashed).
type ATree struct {
	IsRef bool
	Ref   string
	Label string
	Kids  []*ATree
}

func (t *ATree) Wire() interface{} {
	if t.IsRef {
		return map[string]interface{}{"r": t.Ref}
	}
	kids := make([]interface{}, len(t.Kids))
	for i, k := range t.Kids {
		kids[i] = k.Wire()
	}
	return map[string]interface{}{"l": t.Label, "c": kids}
}

func (t *ATree) Refs(out *[]string) {
	if t.IsRef {
		*out = append(*out, t.Ref)
		return
	}
	for _, k := range t.Kids {
		k.Refs(out)
	}
}

func labelOf(kind string, head wire.V) string {
	h := sha256.Sum256([]byte(kind + head.Canon()))
	return kind + ":" + hex.EncodeToString(h[:8])
}

// Abstract: the element v of the given kind, located in document doc.
func (w *World) Abstract(doc, kind string, v wire.V) *ATree {
	if kind != "operation" && kind != "swagger" {
		if ref, ok := RefOf(v); ok {
			k, err := ResolveRef(doc, ref)
			if err != nil {
				return &ATree{IsRef: true, Ref: "bad:" + ref}
			}
			return &ATree{IsRef: true, Ref: k.String()}
		}
	}
	head := v
	for _, ck := range childKeys(kind) {
		if x, ok := head.Get(ck); ok {
			head = head.Set(ck, stripElements(kind, ck, x))
		}
	}
	t := &ATree{Label: labelOf(kind, head)}
	for _, c := range Children(kind, v) {
		t.Kids = append(t.Kids, w.Abstract(doc, c.Kind, c.Val))
	}
	return t
}

// AbstractWorld: for every key (with the kind it is referenced as) the abstraction of its target, nil when the
// target is missing or not an object. The result is the wire form `[[key, tree|null],…]`, sorted by key.
func (w *World) AbstractWorld(kinds map[Key]string) []interface{} {
	keys := make([]Key, 0, len(kinds))
	for k := range kinds {
		keys = append(keys, k)
	}
	sort.Slice(keys, func(i, j int) bool { return keys[i].String() < keys[j].String() })
	out := make([]interface{}, 0, len(keys))
	for _, k := range keys {
		t, ok := w.Lookup(k)
		if !ok || t.Kind != wire.Obj {
			out = append(out, []interface{}{k.String(), nil})
			continue
		}
		out = append(out, []interface{}{k.String(), w.Abstract(k.Doc, kinds[k], t).Wire()})
	}
	return out
}
