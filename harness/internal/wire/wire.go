// Package wire: order- and duplicate-preserving JSON values, their wire form for the Lean driver,
// and a canonical form used to compare JSON "as values".
package wire

import (
	"bytes"
	"encoding/json"
	"fmt"
	"io"
	"math/big"
	"sort"
	"strings"
)

type Kind byte

const (
	Null Kind = iota
	Bool
	Num
	Str
	Arr
	Obj
)

type Member struct {
	K string
	V V
}

type V struct {
	Kind Kind
	B    bool
	N    string // number text
	S    string
	A    []V
	O    []Member
}

func NullV() V               { return V{Kind: Null} }
func BoolV(b bool) V         { return V{Kind: Bool, B: b} }
func IntV(n int64) V         { return V{Kind: Num, N: fmt.Sprint(n)} }
func NumV(s string) V        { return V{Kind: Num, N: s} }
func StrV(s string) V        { return V{Kind: Str, S: s} }
func ArrV(xs ...V) V         { return V{Kind: Arr, A: append([]V{}, xs...)} }
func ObjV(ms ...Member) V    { return V{Kind: Obj, O: append([]Member{}, ms...)} }
func M(k string, v V) Member { return Member{K: k, V: v} }

// Parse reads exactly one JSON value, keeping member order and duplicates.
func Parse(data []byte) (V, error) {
	dec := json.NewDecoder(bytes.NewReader(data))
	dec.UseNumber()
	v, err := parseValue(dec)
	if err != nil {
		return V{}, err
	}
	if _, err := dec.Token(); err != io.EOF {
		return V{}, fmt.Errorf("trailing data")
	}
	return v, nil
}

func MustParse(s string) V {
	v, err := Parse([]byte(s))
	if err != nil {
		panic(fmt.Sprintf("wire.MustParse(%q): %v", s, err))
	}
	return v
}

func parseValue(dec *json.Decoder) (V, error) {
	tok, err := dec.Token()
	if err != nil {
		return V{}, err
	}
	return parseFrom(dec, tok)
}

func parseFrom(dec *json.Decoder, tok json.Token) (V, error) {
	switch t := tok.(type) {
	case nil:
		return NullV(), nil
	case bool:
		return BoolV(t), nil
	case json.Number:
		return NumV(string(t)), nil
	case string:
		return StrV(t), nil
	case json.Delim:
		switch t {
		case '[':
			out := V{Kind: Arr, A: []V{}}
			for dec.More() {
				x, err := parseValue(dec)
				if err != nil {
					return V{}, err
				}
				out.A = append(out.A, x)
			}
			if _, err := dec.Token(); err != nil {
				return V{}, err
			}
			return out, nil
		case '{':
			out := V{Kind: Obj, O: []Member{}}
			for dec.More() {
				kt, err := dec.Token()
				if err != nil {
					return V{}, err
				}
				k, ok := kt.(string)
				if !ok {
					return V{}, fmt.Errorf("non-string key")
				}
				x, err := parseValue(dec)
				if err != nil {
					return V{}, err
				}
				out.O = append(out.O, Member{k, x})
			}
			if _, err := dec.Token(); err != nil {
				return V{}, err
			}
			return out, nil
		}
	}
	return V{}, fmt.Errorf("unexpected token %v", tok)
}

// IsInt reports whether the number text denotes an integer, and returns it.
func numInt(s string) (*big.Int, bool) {
	r, ok := new(big.Rat).SetString(s)
	if !ok {
		return nil, false
	}
	if !r.IsInt() {
		return nil, false
	}
	return r.Num(), true
}

// InModel: every number is an integer.
func (v V) InModel() bool {
	switch v.Kind {
	case Num:
		n, ok := numInt(v.N)
		// negative zero is a float64 the integers of the model cannot tell from 0 (Go prints it as -0)
		if ok && n.Sign() == 0 && strings.HasPrefix(v.N, "-") {
			return false
		}
		return ok
	case Arr:
		for _, x := range v.A {
			if !x.InModel() {
				return false
			}
		}
	case Obj:
		for _, m := range v.O {
			if !m.V.InModel() {
				return false
			}
		}
	}
	return true
}

// Wire renders the value in the driver's wire form.
func (v V) Wire() interface{} {
	switch v.Kind {
	case Null:
		return nil
	case Bool:
		return v.B
	case Num:
		if n, ok := numInt(v.N); ok {
			return json.Number(n.String())
		}
		return map[string]interface{}{"f": v.N}
	case Str:
		return v.S
	case Arr:
		xs := make([]interface{}, len(v.A))
		for i, x := range v.A {
			xs[i] = x.Wire()
		}
		return map[string]interface{}{"a": xs}
	default:
		ms := make([]interface{}, len(v.O))
		for i, m := range v.O {
			ms[i] = []interface{}{m.K, m.V.Wire()}
		}
		return map[string]interface{}{"o": ms}
	}
}

// Text renders ordered compact JSON (Go escaping rules via json.Marshal for strings).
func (v V) Text() string {
	var sb strings.Builder
	v.write(&sb, false)
	return sb.String()
}

// Canon renders with members sorted by name (stable) and numbers normalised: equality of Canon texts is
// equality of JSON values (for values without duplicate member names).
func (v V) Canon() string {
	var sb strings.Builder
	v.write(&sb, true)
	return sb.String()
}

func quote(s string) string {
	b, _ := json.Marshal(s)
	return string(b)
}

func (v V) write(sb *strings.Builder, canon bool) {
	switch v.Kind {
	case Null:
		sb.WriteString("null")
	case Bool:
		if v.B {
			sb.WriteString("true")
		} else {
			sb.WriteString("false")
		}
	case Num:
		if canon {
			if r, ok := new(big.Rat).SetString(v.N); ok {
				if r.IsInt() {
					sb.WriteString(r.Num().String())
				} else {
					sb.WriteString(r.RatString())
				}
				return
			}
		}
		sb.WriteString(v.N)
	case Str:
		sb.WriteString(quote(v.S))
	case Arr:
		sb.WriteByte('[')
		for i, x := range v.A {
			if i > 0 {
				sb.WriteByte(',')
			}
			x.write(sb, canon)
		}
		sb.WriteByte(']')
	case Obj:
		ms := v.O
		if canon {
			ms = append([]Member{}, v.O...)
			sort.SliceStable(ms, func(i, j int) bool { return ms[i].K < ms[j].K })
		}
		sb.WriteByte('{')
		for i, m := range ms {
			if i > 0 {
				sb.WriteByte(',')
			}
			sb.WriteString(quote(m.K))
			sb.WriteByte(':')
			m.V.write(sb, canon)
		}
		sb.WriteByte('}')
	}
}

// HasDupKeys reports a duplicate member name anywhere in the value, with its path.
func (v V) HasDupKeys() (string, bool) {
	return v.dup("")
}

func (v V) dup(path string) (string, bool) {
	switch v.Kind {
	case Arr:
		for i, x := range v.A {
			if p, ok := x.dup(fmt.Sprintf("%s/%d", path, i)); ok {
				return p, true
			}
		}
	case Obj:
		seen := map[string]bool{}
		for _, m := range v.O {
			if seen[m.K] {
				return path + "/" + m.K, true
			}
			seen[m.K] = true
		}
		for _, m := range v.O {
			if p, ok := m.V.dup(path + "/" + m.K); ok {
				return p, true
			}
		}
	}
	return "", false
}

func (v V) Get(k string) (V, bool) {
	if v.Kind != Obj {
		return V{}, false
	}
	for _, m := range v.O {
		if m.K == k {
			return m.V, true
		}
	}
	return V{}, false
}

// Set replaces or appends a member (returns a new object value).
func (v V) Set(k string, x V) V {
	out := V{Kind: Obj, O: make([]Member, 0, len(v.O)+1)}
	done := false
	for _, m := range v.O {
		if m.K == k && !done {
			out.O = append(out.O, Member{k, x})
			done = true
		} else {
			out.O = append(out.O, m)
		}
	}
	if !done {
		out.O = append(out.O, Member{k, x})
	}
	return out
}

func (v V) Del(k string) V {
	out := V{Kind: Obj, O: make([]Member, 0, len(v.O))}
	for _, m := range v.O {
		if m.K != k {
			out.O = append(out.O, m)
		}
	}
	return out
}

// Diff lists the differences between two values compared as JSON values (member order ignored).
type Difference struct {
	Path string `json:"path"`
	Kind string `json:"kind"` // member-removed | member-added | value-changed | type-changed | length-changed
	Old  string `json:"old,omitempty"`
	New  string `json:"new,omitempty"`
}

func Diff(a, b V) []Difference {
	var out []Difference
	diff(a, b, "", &out)
	return out
}

func diff(a, b V, path string, out *[]Difference) {
	if a.Kind != b.Kind {
		*out = append(*out, Difference{path, "type-changed", a.Canon(), b.Canon()})
		return
	}
	switch a.Kind {
	case Null:
	case Bool, Num, Str:
		if a.Canon() != b.Canon() {
			*out = append(*out, Difference{path, "value-changed", a.Canon(), b.Canon()})
		}
	case Arr:
		if len(a.A) != len(b.A) {
			*out = append(*out, Difference{path, "length-changed", a.Canon(), b.Canon()})
			return
		}
		for i := range a.A {
			diff(a.A[i], b.A[i], fmt.Sprintf("%s/%d", path, i), out)
		}
	case Obj:
		for _, m := range a.O {
			if x, ok := b.Get(m.K); ok {
				diff(m.V, x, path+"/"+esc(m.K), out)
			} else {
				*out = append(*out, Difference{path + "/" + esc(m.K), "member-removed", m.V.Canon(), ""})
			}
		}
		for _, m := range b.O {
			if _, ok := a.Get(m.K); !ok {
				*out = append(*out, Difference{path + "/" + esc(m.K), "member-added", "", m.V.Canon()})
			}
		}
	}
}

func esc(k string) string {
	return strings.ReplaceAll(strings.ReplaceAll(k, "~", "~0"), "/", "~1")
}

// Walk calls f on every sub-value with its JSON-pointer token path.
func (v V) Walk(path []string, f func(path []string, v V)) {
	f(path, v)
	switch v.Kind {
	case Arr:
		for i, x := range v.A {
			x.Walk(append(append([]string{}, path...), fmt.Sprint(i)), f)
		}
	case Obj:
		for _, m := range v.O {
			m.V.Walk(append(append([]string{}, path...), m.K), f)
		}
	}
}

func (v V) Size() int {
	n := 1
	for _, x := range v.A {
		n += x.Size()
	}
	for _, m := range v.O {
		n += m.V.Size()
	}
	return n
}

func (v V) Depth() int {
	d := 0
	for _, x := range v.A {
		if k := x.Depth(); k > d {
			d = k
		}
	}
	for _, m := range v.O {
		if k := m.V.Depth(); k > d {
			d = k
		}
	}
	return d + 1
}
