// Command extract regenerates lean/SpecModel/Generated/*.lean from /repo's current source.
//
//	extract -repo /repo -out /verif/lean/SpecModel/Generated
//
// Facts come from two places: go/ast over the working tree (method bodies, call shapes) and reflection over
// the package as compiled into this binary (struct tags, embedding, types). The binary is rebuilt by the
// check before every run, so both see the current tree.
package main

import (
	"flag"
	"fmt"
	"go/ast"
	"go/parser"
	"go/token"
	"os"
	"path/filepath"
	"sort"
	"strings"
)

type astPackage struct {
	fset    *token.FileSet
	files   map[string]*ast.File
	structs map[string]*ast.StructType
	methods map[string]*ast.FuncDecl // "Recv.Name"
	funcs   map[string]*ast.FuncDecl
	vars    map[string]*ast.ValueSpec // package-level vars
}

func loadPackage(dir string) (*astPackage, error) {
	p := &astPackage{fset: token.NewFileSet(), files: map[string]*ast.File{}, structs: map[string]*ast.StructType{},
		methods: map[string]*ast.FuncDecl{}, funcs: map[string]*ast.FuncDecl{}, vars: map[string]*ast.ValueSpec{}}
	names, err := filepath.Glob(filepath.Join(dir, "*.go"))
	if err != nil {
		return nil, err
	}
	sort.Strings(names)
	for _, fn := range names {
		base := filepath.Base(fn)
		if strings.HasSuffix(base, "_test.go") || strings.HasSuffix(base, "_windows.go") {
			continue
		}
		f, err := parser.ParseFile(p.fset, fn, nil, parser.ParseComments)
		if err != nil {
			return nil, err
		}
		p.files[base] = f
		for _, d := range f.Decls {
			switch x := d.(type) {
			case *ast.GenDecl:
				for _, s := range x.Specs {
					switch ts := s.(type) {
					case *ast.TypeSpec:
						if st, ok := ts.Type.(*ast.StructType); ok {
							p.structs[ts.Name.Name] = st
						}
					case *ast.ValueSpec:
						if x.Tok == token.VAR {
							for _, n := range ts.Names {
								p.vars[n.Name] = ts
							}
						}
					}
				}
			case *ast.FuncDecl:
				if x.Recv != nil {
					_, rt, _ := recvInfo(x)
					p.methods[rt+"."+x.Name.Name] = x
				} else {
					p.funcs[x.Name.Name] = x
				}
			}
		}
	}
	return p, nil
}

func writeFile(dir, name, content string) {
	if err := os.WriteFile(filepath.Join(dir, name), []byte(content), 0o644); err != nil {
		fmt.Fprintln(os.Stderr, "extract:", err)
		os.Exit(2)
	}
}

func main() {
	repo := flag.String("repo", "/repo", "repository working tree")
	out := flag.String("out", "", "output directory for generated Lean files")
	flag.Parse()
	if *out == "" {
		fmt.Fprintln(os.Stderr, "extract: -out required")
		os.Exit(2)
	}
	pkg, err := loadPackage(*repo)
	if err != nil {
		fmt.Fprintln(os.Stderr, "extract:", err)
		os.Exit(2)
	}
	if err := os.MkdirAll(*out, 0o755); err != nil {
		fmt.Fprintln(os.Stderr, "extract:", err)
		os.Exit(2)
	}
	var problems []string

	src, errs := translateValidations(pkg)
	if len(errs) > 0 {
		for _, e := range errs {
			problems = append(problems, "validations: "+e)
		}
		// an untranslatable source leaves a file that does not compile, on purpose: the obligations of C20
		// cannot be checked against code the translator does not understand.
		src = "/- translation failed:\n" + strings.Join(errs, "\n") + "\n-/\n#exit_translation_failed\n"
	}
	writeFile(*out, "Validations.lean", src)

	for _, g := range generators {
		name, content, errs := g(pkg)
		for _, e := range errs {
			problems = append(problems, name+": "+e)
		}
		writeFile(*out, name, content)
	}

	for _, p := range problems {
		fmt.Println("EXTRACT-PROBLEM", p)
	}
	fmt.Printf("extract: wrote generated files to %s (%d problems)\n", *out, len(problems))
}

// further generators register themselves here
var generators []func(*astPackage) (string, string, []string)
